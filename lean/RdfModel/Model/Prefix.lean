/-
  RdfModel.Model.Prefix — executable model of the IRI-shortening code of dpb587/rdfkit-go (property C13):

    iri/prefix_manager.go      PrefixManager: NewPrefixManager, Clone, AddPrefixMappings, DeletePrefixes,
                               GetPrefixMappings, CompactPrefix, ExpandPrefix
    iri/iriutil/prefix_tracker.go  UsagePrefixMapper
    iri/curie/{curie,curie_parser,mapping_scope}.go   CURIE.String/SafeString, ParseCURIE,
                               MappingScope.CompactCURIE/ExpandCURIE
    iri/base_iri.go            NewBaseIRI (index bookkeeping), RelativizeIRI (as repaired by
                               patches/c13-fix-relativize.patch: candidate + verification by resolution)

  Strings are Go strings = lists of bytes (`Nat` < 256); every index below is a byte index as in Go.
  Core-only, executable, total; a Go run-time panic is an explicit outcome.
-/
import RdfModel.Spec.RFC3986Lite
namespace RdfModel.Prefix
open RdfModel.Spec.RFC3986Lite (Str cColon cSlash cQuest cHash cDot)
open RdfModel.Spec

/-! ## PrefixManager -/

/-- `iri.PrefixMapping` -/
structure Mapping where
  pfx : Str
  expanded : Str
deriving DecidableEq, Repr

/-- `iri.PrefixReference` -/
structure PrefixRef where
  pfx : Str
  reference : Str
deriving DecidableEq, Repr

/-- A Go `map[string]PrefixMapping` keyed by `Prefix`. The code only looks keys up, assigns and deletes
    (never ranges over the map or takes its length), so an association list with "first entry wins"
    is an exact model. The stored value's `Prefix` field always equals the key (single write site
    `p.mappingByPrefix[mapping.Prefix] = mapping`), so only `Expanded` is kept. -/
abbrev GoMap := List (Str × Str)

def GoMap.get (m : GoMap) (k : Str) : Option Str := List.lookup k m
def GoMap.set (m : GoMap) (k v : Str) : GoMap := (k, v) :: m
def GoMap.del (m : GoMap) (k : Str) : GoMap := m.filter (fun e => e.1 != k)

/-- `iri.PrefixManager` -/
structure PM where
  ordered : List Mapping
  byPrefix : GoMap
deriving Repr

/-- `slices.SortFunc(p.ordered, func(a, b) int { return len(b.Expanded) - len(a.Expanded) })`.
    pdqsort is not stable, so the model is parametric in the sorting function; all that is assumed is
    what `slices.SortFunc` guarantees: a permutation, sorted with respect to the comparison. -/
structure Sorter where
  sort : List Mapping → List Mapping
  perm : ∀ l, (sort l).Perm l
  sorted : ∀ l, (sort l).Pairwise (fun a b => b.expanded.length ≤ a.expanded.length)

/-- insertion into a list sorted by descending namespace length (before the first entry that is not longer) -/
def insertByLen (m : Mapping) : List Mapping → List Mapping
  | [] => [m]
  | x :: xs => if x.expanded.length ≤ m.expanded.length then m :: x :: xs else x :: insertByLen m xs

/-- insertion sort by descending namespace length (stable) -/
def isort : List Mapping → List Mapping
  | [] => []
  | x :: xs => insertByLen x (isort xs)

theorem insertByLen_perm (m : Mapping) (l : List Mapping) : (insertByLen m l).Perm (m :: l) := by
  induction l with
  | nil => exact List.Perm.refl _
  | cons x xs ih =>
    unfold insertByLen
    split
    · exact List.Perm.refl _
    · exact (List.Perm.cons x ih).trans (List.Perm.swap m x xs)

theorem insertByLen_sorted (m : Mapping) (l : List Mapping)
    (h : l.Pairwise (fun a b => b.expanded.length ≤ a.expanded.length)) :
    (insertByLen m l).Pairwise (fun a b => b.expanded.length ≤ a.expanded.length) := by
  induction l with
  | nil => simp [insertByLen]
  | cons x xs ih =>
    have hx := List.pairwise_cons.mp h
    unfold insertByLen
    split
    · next hle =>
      refine List.pairwise_cons.mpr ⟨?_, h⟩
      intro y hy
      rcases List.mem_cons.mp hy with rfl | hy
      · exact hle
      · exact Nat.le_trans (hx.1 y hy) hle
    · next hlt =>
      refine List.pairwise_cons.mpr ⟨?_, ih hx.2⟩
      intro y hy
      rcases List.mem_cons.mp ((insertByLen_perm m xs).mem_iff.mp hy) with rfl | hy
      · omega
      · exact hx.1 y hy

theorem isort_perm (l : List Mapping) : (isort l).Perm l := by
  induction l with
  | nil => exact List.Perm.refl _
  | cons x xs ih => exact (insertByLen_perm x (isort xs)).trans (List.Perm.cons x ih)

theorem isort_sorted (l : List Mapping) :
    (isort l).Pairwise (fun a b => b.expanded.length ≤ a.expanded.length) := by
  induction l with
  | nil => simp [isort]
  | cons x xs ih => exact insertByLen_sorted x (isort xs) ih

/-- the sorter the driver runs: a stable insertion sort (the name is historical and used by other models; the harness compares modulo ties) -/
def mergeSorter : Sorter where
  sort := isort
  perm := isort_perm
  sorted := isort_sorted

/-- the inner loop of AddPrefixMappings over `p.ordered` (`p.ordered[i] = mapping; break`) -/
def replaceFirst (m : Mapping) : List Mapping → List Mapping
  | [] => []
  | e :: es => if e.pfx = m.pfx then m :: es else e :: replaceFirst m es

/-- state of the `for _, mapping := range mappings` loop: ordered, map, `added` -/
structure AddSt where
  ordered : List Mapping
  byPrefix : GoMap
  added : Nat

/-- one iteration of the loop in AddPrefixMappings -/
def addOne (s : AddSt) (m : Mapping) : AddSt :=
  match s.byPrefix.get m.pfx with
  | some previous =>
    if previous = m.expanded then s
    else ⟨replaceFirst m s.ordered, s.byPrefix.set m.pfx m.expanded, s.added + 1⟩
  | none => ⟨s.ordered ++ [m], s.byPrefix.set m.pfx m.expanded, s.added + 1⟩

/-- `(*PrefixManager).AddPrefixMappings` -/
def add (S : Sorter) (p : PM) (ms : List Mapping) : PM :=
  let s := ms.foldl addOne ⟨p.ordered, p.byPrefix, 0⟩
  if s.added = 0 then ⟨s.ordered, s.byPrefix⟩ else ⟨S.sort s.ordered, s.byPrefix⟩

/-- `NewPrefixManager` -/
def new (S : Sorter) (ms : List Mapping) : PM := add S ⟨[], []⟩ ms

/-- one iteration of the first loop of DeletePrefixes: map and `deleted` -/
def delOne (s : GoMap × Nat) (k : Str) : GoMap × Nat :=
  match s.1.get k with
  | none => s
  | some _ => (s.1.del k, s.2 + 1)

/-- `(*PrefixManager).DeletePrefixes`; `none` = run-time panic
    (`make(PrefixMappingList, 0, len(p.ordered)-deleted)` with a negative capacity) -/
def delete (p : PM) (ks : List Str) : Option PM :=
  let s := ks.foldl delOne (p.byPrefix, 0)
  if s.2 = 0 then some ⟨p.ordered, s.1⟩
  else if p.ordered.length < s.2 then none
  else some ⟨p.ordered.filter (fun e => (s.1.get e.pfx).isSome), s.1⟩

/-- `(*PrefixManager).Clone` (`slices.Clone`, `maps.Clone`: fresh copies; values are immutable here) -/
def clone (p : PM) : PM := ⟨p.ordered, p.byPrefix⟩

/-- `(*PrefixManager).GetPrefixMappings` -/
def getMappings (p : PM) : List Mapping := p.ordered

/-- the loop of CompactPrefix over a list of mappings -/
def compactIn (v : Str) : List Mapping → Option PrefixRef
  | [] => none
  | m :: ms =>
    if m.expanded.length ≤ v.length ∧ v.take m.expanded.length = m.expanded
    then some ⟨m.pfx, v.drop m.expanded.length⟩
    else compactIn v ms

/-- `(*PrefixManager).CompactPrefix` -/
def compact (p : PM) (v : Str) : Option PrefixRef := compactIn v p.ordered

/-- `(*PrefixManager).ExpandPrefix` -/
def expand (p : PM) (pr : PrefixRef) : Option Str :=
  match p.byPrefix.get pr.pfx with
  | none => none
  | some e => some (e ++ pr.reference)

/-! ### histories -/

/-- a mutating call on one manager -/
inductive Op where
  | add (ms : List Mapping)
  | del (ks : List Str)
deriving Repr

/-- one call; `none` = panic -/
def step (S : Sorter) (p : PM) : Op → Option PM
  | .add ms => some (add S p ms)
  | .del ks => delete p ks

/-- a whole history starting from `NewPrefixManager(init)`; `none` = some call panicked -/
def run (S : Sorter) (init : List Mapping) (ops : List Op) : Option PM :=
  ops.foldl (fun st op => st.bind (fun p => step S p op)) (some (new S init))

/-- several managers related by `Clone`: handle = position in the store -/
inductive StoreOp where
  | new (ms : List Mapping)
  | clone (h : Nat)
  | add (h : Nat) (ms : List Mapping)
  | del (h : Nat) (ks : List Str)
deriving Repr

/-- a call on the store; a call on a handle that does not exist is ignored; `none` = panic -/
def storeStep (S : Sorter) (st : List PM) : StoreOp → Option (List PM)
  | .new ms => some (st ++ [new S ms])
  | .clone h => match st[h]? with
    | some p => some (st ++ [clone p])
    | none => some st
  | .add h ms => match st[h]? with
    | some p => some (st.set h (add S p ms))
    | none => some st
  | .del h ks => match st[h]? with
    | some p => (delete p ks).map (fun p' => st.set h p')
    | none => some st

def storeRun (S : Sorter) (ops : List StoreOp) : Option (List PM) :=
  ops.foldl (fun st op => st.bind (fun s => storeStep S s op)) (some [])

/-! ## UsagePrefixMapper (iri/iriutil/prefix_tracker.go) -/

/-- `used map[string]bool` as the list of keys set so far (duplicates harmless) -/
structure Usage where
  used : List Str
deriving Repr

def Usage.compact (u : Usage) (p : PM) (v : Str) : Option PrefixRef × Usage :=
  match Prefix.compact p v with
  | none => (none, u)
  | some pr => (some pr, ⟨pr.pfx :: u.used⟩)

def Usage.expand (u : Usage) (p : PM) (pr : PrefixRef) : Option Str × Usage :=
  match Prefix.expand p pr with
  | none => (none, u)
  | some e => (some e, ⟨pr.pfx :: u.used⟩)

/-! ## CURIEs (iri/curie) -/

/-- `curie.CURIE` -/
structure CURIE where
  safe : Bool
  defaultPrefix : Bool
  pfx : Str
  reference : Str
deriving DecidableEq, Repr

/-- `curie.MappingScope` without its `Prefixes` field (passed separately) -/
structure Scope where
  safe : Bool
  defaultPrefix : Str
  defaultPrefixEmpty : Bool
deriving DecidableEq, Repr

/-- `MappingScope.CompactCURIE` -/
def compactCURIE (sc : Scope) (p : PM) (v : Str) : CURIE :=
  match compact p v with
  | none => ⟨sc.safe, false, [], v⟩
  | some pr =>
    if pr.pfx = sc.defaultPrefix ∧ (0 < pr.pfx.length ∨ sc.defaultPrefixEmpty = true)
    then ⟨sc.safe, true, [], pr.reference⟩
    else ⟨sc.safe, false, pr.pfx, pr.reference⟩

/-- `MappingScope.ExpandCURIE` -/
def expandCURIE (sc : Scope) (p : PM) (c : CURIE) : Option Str :=
  let pfx := if c.defaultPrefix = true ∧ (0 < sc.defaultPrefix.length ∨ sc.defaultPrefixEmpty = true)
             then sc.defaultPrefix else c.pfx
  expand p ⟨pfx, c.reference⟩

def cLBr : Nat := 0x5b
def cRBr : Nat := 0x5d

/-- `CURIE.SafeString` -/
def CURIE.safeString (c : CURIE) : Str :=
  if c.defaultPrefix then [cLBr] ++ c.reference ++ [cRBr]
  else [cLBr] ++ c.pfx ++ [cColon] ++ c.reference ++ [cRBr]

/-- `CURIE.String` -/
def CURIE.string (c : CURIE) : Str :=
  if c.safe then c.safeString
  else if c.defaultPrefix then c.reference
  else c.pfx ++ [cColon] ++ c.reference

/-- `strings.SplitN(v, ":", 2)`: `(before, some after)` at the first colon, `(v, none)` without one -/
def splitColon (v : Str) : Str × Option Str :=
  match RFC3986Lite.from_ (fun c => c == cColon) v with
  | [] => (v, none)
  | _ :: rest => (RFC3986Lite.upTo (fun c => c == cColon) v, some rest)

/-- the result of ParseCURIE from the two parts of `strings.SplitN(v, ":", 2)` -/
def curieOfSplit (safe : Bool) : Str × Option Str → CURIE
  | (a, some b) => ⟨safe, false, a, b⟩
  | (a, none) => ⟨safe, true, [], a⟩

/-- `curie.ParseCURIE`; `none` = `(CURIE{}, false)` -/
def parseCURIE (v : Str) : Option CURIE :=
  if v = [] then none
  else
    let safe := v.head? = some cLBr ∧ v.getLast? = some cRBr
    -- `v[1 : len(v)-1]`; a one-byte string cannot be both '[' and ']', so the slice is in range
    let body := if safe then (v.drop 1).take (v.length - 2) else v
    some (curieOfSplit safe (splitColon body))

/-! ## BaseIRI (iri/base_iri.go) -/

/-- Model of `(*ParsedIRI).Parse(ref)` followed by `String()` on the domain on which the repository's
    `net/url` wrapper is tied to RFC 3986 by property C12 (lower-case hierarchical scheme, ASCII
    reg-name host, no userinfo, well-formed percent-escapes). It is `RFC3986Lite.resolve` except for the
    branch marked "[dpb] handle empty base with relative ref - don't force absolute path" of
    `ResolveReference`: with an empty base path, a relative-path reference whose dot-segment removal
    leaves nothing yields an empty path instead of "/"; and for the references "" and "#", which (as in
    `net/url`) keep the fragment of the base (`if ref.u.Fragment == "" { url.Fragment = u.Fragment }`)
    where §5.2.2 drops or empties it. -/
def goResolve (b r : Str) : Str :=
  let B := RFC3986Lite.split b
  let R := RFC3986Lite.split r
  if R.scheme = none ∧ R.authority = none ∧ B.authority.isSome ∧ B.path = [] ∧ R.path ≠ [] ∧
     R.path.head? ≠ some cSlash ∧ RFC3986Lite.removeDotSegments (cSlash :: R.path) = [cSlash]
  then RFC3986Lite.recompose { scheme := B.scheme, authority := B.authority, path := [], query := R.query, fragment := R.fragment }
  else if R.scheme = none ∧ R.authority = none ∧ R.path = [] ∧ R.query = none ∧
     (R.fragment = none ∨ R.fragment = some []) ∧ B.fragment.isSome
  then RFC3986Lite.recompose B
  else RFC3986Lite.resolve b r

/-- Model of "`url.Parse(ref)` succeeds" on the same domain: the only rejection that remains there is
    `first path segment in URL cannot contain colon` / `missing protocol scheme`. A reference that has
    no scheme in the sense of Appendix B but a colon in its first segment necessarily starts with the
    colon (otherwise the text before it would be the scheme). RFC 3986 §4.2 excludes such references
    (`path-noscheme`). -/
def goParseOK (r : Str) : Bool := r.head? != some cColon

/-- `iri.BaseIRI`; an index of −1 is `none`. `root = some (rootIndex, directoryIndex)` iff the base is absolute. -/
structure BaseIRI where
  original : Str
  root : Option (Nat × Nat)
  resourceIndex : Nat
  queryIndex : Option Nat
  fragmentIndex : Option Nat
deriving DecidableEq, Repr

/-- `NewBaseIRI(parsed)` with `parsed.String() = b` -/
def newBaseIRI (b : Str) : BaseIRI :=
  let baseFragment := RFC3986Lite.upTo (fun c => c == cHash) b     -- strings.Cut(v, "#")
  let baseQuery := RFC3986Lite.upTo (fun c => c == cQuest) baseFragment   -- strings.Cut(baseFragment, "?")
  { original := b
    resourceIndex := baseQuery.length
    fragmentIndex := if baseFragment ≠ b then some baseFragment.length else none
    queryIndex := if baseQuery ≠ baseFragment then some baseQuery.length else none
    root := if (RFC3986Lite.split b).scheme.isSome   -- parsed.IsAbs()
            then some ((goResolve b [cSlash]).length, (goResolve b [cDot, cSlash]).length)
            else none }

/-- result of a call that may panic -/
inductive Outcome where
  | panic
  | none
  | some (r : Str)
deriving DecidableEq, Repr

/-- the last resort of `relativizeIRI`: `v[rb.rootIndex-1:]` -/
def rootRelative (rootIndex : Nat) (v : Str) : Outcome :=
  if rootIndex = 0 ∨ v.length < rootIndex - 1 then .panic
  else .some (v.drop (rootIndex - 1))

/-- the part of `relativizeIRI` after the `rb.original == v` test, for an absolute base -/
def candidateAbs (rb : BaseIRI) (rootIndex directoryIndex : Nat) (v : Str) : Outcome :=
  let n := rb.original.length
  -- if len(v) > rb.resourceIndex && strings.HasPrefix(v, rb.original[0:rb.resourceIndex]) { switch v[rb.resourceIndex] … }
  let sw : Option Outcome :=
    if rb.resourceIndex < v.length then
      if n < rb.resourceIndex then some .panic
      else if (rb.original.take rb.resourceIndex).isPrefixOf v then
        if v[rb.resourceIndex]? = some cHash then
          (if v.length < directoryIndex then some .panic else some (.some (v.drop directoryIndex)))
        else if v[rb.resourceIndex]? = some cQuest then some (.some (v.drop rb.resourceIndex))
        else Option.none
      else Option.none
    else Option.none
  match sw with
  | some o => o
  | Option.none =>
    -- if len(v) >= rb.directoryIndex && rb.original[0:rb.directoryIndex] == v[:rb.directoryIndex]
    if directoryIndex ≤ v.length then
      if n < directoryIndex then .panic
      else if rb.original.take directoryIndex = v.take directoryIndex then
        let rel := v.drop directoryIndex
        if rel = [] ∨ rel.head? = some cQuest ∨ rel.head? = some cHash then .some ([cDot, cSlash] ++ rel) else .some rel
      else
        rootRelative rootIndex v
    else
      rootRelative rootIndex v

/-- `(*BaseIRI).relativizeIRI`: the candidate reference -/
def candidate (rb : BaseIRI) (v : Str) : Outcome :=
  let n := rb.original.length
  let first : Option Str :=
    if n < v.length ∧ rb.fragmentIndex = Option.none ∧ rb.original.isPrefixOf v = true then
      if v[n]? = some cHash then some (v.drop n)
      else if rb.queryIndex = Option.none ∧ v[n]? = some cQuest then some (v.drop n)
      else Option.none
    else Option.none
  match first with
  | some r => .some r
  | Option.none =>
    match rb.root with
    | Option.none => .none
    | some (rootIndex, directoryIndex) =>
      if ¬ (rb.original.take (min rootIndex n)).isPrefixOf v = true then .none
      else if rb.original = v then .some []
      else candidateAbs rb rootIndex directoryIndex v

/-- `(*BaseIRI).RelativizeIRI`: candidate; refused when it starts with "//" (it would name an
    authority); then, for an absolute base, verification by resolution -/
def relativizeB (rb : BaseIRI) (v : Str) : Outcome :=
  match candidate rb v with
  | .some rel =>
    if [cSlash, cSlash].isPrefixOf rel = true then .none
    else if rb.root.isSome then
      (if goParseOK rel = true ∧ goResolve rb.original rel = v then .some rel else .none)
    else .some rel
  | o => o

/-- `ParseBaseIRI(b)` then `RelativizeIRI(v)` -/
def relativize (b v : Str) : Outcome := relativizeB (newBaseIRI b) v

end RdfModel.Prefix
