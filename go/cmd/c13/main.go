// Command c13: correspondence (T3) between Model.Prefix and iri.PrefixManager / iriutil.UsagePrefixMapper /
// iri/curie / iri.BaseIRI, plus the direct oracle of property C13 on the implementation:
// every shorter spelling the library offers expands back, in the same context, to the original IRI.
package main

import (
	"encoding/hex"
	"encoding/json"
	"flag"
	"fmt"
	"os"
	"sort"
	"strconv"
	"strings"

	"verifharness/vh"

	"github.com/dpb587/rdfkit-go/iri"
	"github.com/dpb587/rdfkit-go/iri/curie"
	"github.com/dpb587/rdfkit-go/iri/iriutil"
)

var (
	tier     = flag.String("tier", "quick", "quick|thorough")
	driver   = flag.String("driver", "/verif/lean/.lake/build/bin/driver", "lean driver binary")
	out      = flag.String("out", "/verif/evidence/.c13.report.json", "report path")
	findings = flag.String("findings", "/verif/known-findings.json", "known findings")
	replay   = flag.String("replay", "", "replay file (one protocol line per line)")
	scale    = flag.Int("scale", 1, "multiply generated case counts (search mode uses 10)")
	nomodel  = flag.Bool("nomodel", false, "property oracle on the implementation only (search mode / driver unavailable)")
	hints    = flag.String("hints", "", "file of protocol lines that disagreed; their inputs are pushed through the oracle first")
)

// item: one protocol line, what the implementation answered, and how to compare with the model's answer.
type item struct {
	line string
	goR  string
	kind string
	cmp  func(goR, modelR string) string // "" = agree, otherwise what differs
	pred string                          // known-finding predicate that applies to this spec line ("" = none)
	spec string                          // non-empty: the model line is a specification judging the implementation's output; a mismatch is a property violation
}

type harness struct {
	r     *vh.Rng
	rep   *vh.Report
	items []item
	known map[string]vh.Finding
}

func hx(s string) string { return hex.EncodeToString([]byte(s)) }
func unhx(s string) (string, bool) {
	b, err := hex.DecodeString(s)
	return string(b), err == nil
}

func (h *harness) violation(op, detail string) {
	h.rep.Add(vh.Case{Kind: "violation", Op: op, Detail: detail})
}

// knownOr records a violation unless it falls in the class of a known finding.
func (h *harness) knownOr(pred string, applies bool, op, detail string) {
	if f, ok := h.known[pred]; ok && applies {
		if h.rep.Hist["known:"+f.Key] < 3 { // a few concrete instances; the rest is counted
			h.rep.Add(vh.Case{Kind: "known", Key: f.Key, Op: op, Detail: f.What + " — " + detail})
		}
		h.rep.Count("known:" + f.Key)
		return
	}
	h.violation(op, detail)
}

func (h *harness) add(kind, line, goR string, nontrivial bool, cmp func(a, b string) string) {
	h.items = append(h.items, item{line: line, goR: goR, kind: kind, cmp: cmp})
	h.rep.Eval(line, nontrivial)
	h.rep.Count("op:" + kind)
}

// ---------------------------------------------------------------- token syntax shared with Driver/Prefix.lean

type mapping struct{ p, e string }

func mapsTok(ms []mapping) string {
	if len(ms) == 0 {
		return "-"
	}
	parts := make([]string, len(ms))
	for i, m := range ms {
		parts[i] = "m" + hx(m.p) + "=" + hx(m.e)
	}
	return strings.Join(parts, ",")
}

func parseMapsTok(s string) ([]mapping, bool) {
	if s == "-" {
		return nil, true
	}
	var res []mapping
	for _, f := range strings.Split(s, ",") {
		if !strings.HasPrefix(f, "m") {
			return nil, false
		}
		pe := strings.Split(f[1:], "=")
		if len(pe) != 2 {
			return nil, false
		}
		p, ok1 := unhx(pe[0])
		e, ok2 := unhx(pe[1])
		if !ok1 || !ok2 {
			return nil, false
		}
		res = append(res, mapping{p, e})
	}
	return res, true
}

func keysTok(ks []string) string {
	if len(ks) == 0 {
		return "-"
	}
	parts := make([]string, len(ks))
	for i, k := range ks {
		parts[i] = "k" + hx(k)
	}
	return strings.Join(parts, ",")
}

func parseKeysTok(s string) ([]string, bool) {
	if s == "-" {
		return nil, true
	}
	var res []string
	for _, f := range strings.Split(s, ",") {
		if !strings.HasPrefix(f, "k") {
			return nil, false
		}
		k, ok := unhx(f[1:])
		if !ok {
			return nil, false
		}
		res = append(res, k)
	}
	return res, true
}

func toList(ms []mapping) iri.PrefixMappingList {
	l := make(iri.PrefixMappingList, len(ms))
	for i, m := range ms {
		l[i] = iri.PrefixMapping{Prefix: m.p, Expanded: m.e}
	}
	return l
}

// ---------------------------------------------------------------- PrefixManager histories on the implementation

type hstate struct {
	pm  *iri.PrefixManager
	tr  *iriutil.UsagePrefixMapper
	ref map[string]string // the specification: most recent mapping per prefix
}

func cloneRef(m map[string]string) map[string]string {
	c := make(map[string]string, len(m))
	for k, v := range m {
		c[k] = v
	}
	return c
}

// runHistory executes the op tokens on the real packages, evaluates the property oracle at every
// observation and returns the observations in the driver's format.
func (h *harness) runHistory(line string, toks []string) (res string) {
	var st []*hstate
	var outs []string
	defer func() {
		if p := recover(); p != nil {
			h.violation(line, fmt.Sprintf("panic in PrefixManager history: %v", p))
			res = strings.Join(append(outs, "!"), ";")
		}
	}()
	headArg := func(s string) (int, string, bool) {
		hs, payload, _ := strings.Cut(s, ":")
		n, err := strconv.Atoi(hs)
		if err != nil || n < 0 || n >= len(st) {
			return 0, "", false
		}
		return n, payload, true
	}
	for _, tok := range toks {
		if tok == "" {
			continue
		}
		switch tok[0] {
		case 'N':
			ms, ok := parseMapsTok(strings.TrimPrefix(tok, "N:"))
			if !ok {
				return "bad-op"
			}
			pm := iri.NewPrefixManager(toList(ms))
			ref := map[string]string{}
			for _, m := range ms {
				ref[m.p] = m.e
			}
			st = append(st, &hstate{pm: pm, tr: iriutil.NewUsagePrefixMapper(pm), ref: ref})
		case 'K':
			n, _, ok := headArg(tok[1:])
			if !ok {
				return "bad-op"
			}
			c := st[n].pm.Clone()
			st = append(st, &hstate{pm: c, tr: iriutil.NewUsagePrefixMapper(c), ref: cloneRef(st[n].ref)})
		case 'A':
			n, pl, ok := headArg(tok[1:])
			ms, ok2 := parseMapsTok(pl)
			if !ok || !ok2 {
				return "bad-op"
			}
			st[n].pm.AddPrefixMappings(toList(ms)...)
			for _, m := range ms {
				st[n].ref[m.p] = m.e
			}
		case 'D':
			n, pl, ok := headArg(tok[1:])
			ks, ok2 := parseKeysTok(pl)
			if !ok || !ok2 {
				return "bad-op"
			}
			st[n].pm.DeletePrefixes(ks...)
			for _, k := range ks {
				delete(st[n].ref, k)
			}
		case 'G':
			n, _, ok := headArg(tok[1:])
			if !ok {
				return "bad-op"
			}
			l := st[n].pm.GetPrefixMappings()
			parts := make([]string, len(l))
			seen := map[string]bool{}
			for i, m := range l {
				parts[i] = hx(m.Prefix) + "=" + hx(m.Expanded)
				if i > 0 && len(l[i-1].Expanded) < len(m.Expanded) {
					h.violation(line, fmt.Sprintf("GetPrefixMappings not sorted by descending namespace length at %d (%q before %q)", i, l[i-1].Expanded, m.Expanded))
				}
				if seen[m.Prefix] {
					h.violation(line, fmt.Sprintf("GetPrefixMappings lists prefix %q twice", m.Prefix))
				}
				seen[m.Prefix] = true
				if e, ok := st[n].ref[m.Prefix]; !ok || e != m.Expanded {
					h.violation(line, fmt.Sprintf("prefix table has %q -> %q, most recent mapping is %q (present=%v)", m.Prefix, m.Expanded, e, ok))
				}
			}
			if len(l) != len(st[n].ref) {
				h.violation(line, fmt.Sprintf("prefix table has %d entries, %d prefixes are mapped", len(l), len(st[n].ref)))
			}
			outs = append(outs, "G"+strings.Join(parts, ","))
			// the returned slice is documented as a copy: scribbling on it must not reach the manager
			for i := range l {
				l[i] = iri.PrefixMapping{Prefix: "\x00scribble", Expanded: "\x00"}
			}
		case 'C':
			n, pl, ok := headArg(tok[1:])
			v, ok2 := unhx(pl)
			if !ok || !ok2 {
				return "bad-op"
			}
			pr, found := st[n].pm.CompactPrefix(v)
			pr2, found2 := st[n].tr.CompactPrefix(v)
			if pr != pr2 || found != found2 {
				h.violation(line, fmt.Sprintf("UsagePrefixMapper.CompactPrefix(%q) = %v,%v; manager says %v,%v", v, pr2, found2, pr, found))
			}
			if found {
				ns, mapped := st[n].ref[pr.Prefix]
				exp, ok3 := st[n].pm.ExpandPrefix(pr)
				if !ok3 || exp != v {
					h.violation(line, fmt.Sprintf("CompactPrefix(%q) = %q:%q but ExpandPrefix gives %q,%v", v, pr.Prefix, pr.Reference, exp, ok3))
				} else if !mapped || ns+pr.Reference != v {
					h.violation(line, fmt.Sprintf("CompactPrefix(%q) = %q:%q but the most recent mapping of the prefix is %q (present=%v)", v, pr.Prefix, pr.Reference, ns, mapped))
				}
				for p, e := range st[n].ref {
					if strings.HasPrefix(v, e) && len(e) > len(ns) {
						h.violation(line, fmt.Sprintf("CompactPrefix(%q) chose %q (%q) although %q (%q) is a longer matching namespace", v, pr.Prefix, ns, p, e))
					}
				}
				outs = append(outs, "C"+hx(pr.Reference)+"|"+hx(pr.Prefix))
			} else {
				for p, e := range st[n].ref {
					if strings.HasPrefix(v, e) {
						h.violation(line, fmt.Sprintf("CompactPrefix(%q) found nothing although %q -> %q matches", v, p, e))
					}
				}
				outs = append(outs, "Cnone")
			}
		case 'E':
			n, pl, ok := headArg(tok[1:])
			a, b, ok2 := strings.Cut(pl, "=")
			p, ok3 := unhx(a)
			r, ok4 := unhx(b)
			if !ok || !ok2 || !ok3 || !ok4 {
				return "bad-op"
			}
			s, found := st[n].pm.ExpandPrefix(iri.PrefixReference{Prefix: p, Reference: r})
			s2, found2 := st[n].tr.ExpandPrefix(iri.PrefixReference{Prefix: p, Reference: r})
			if s != s2 || found != found2 {
				h.violation(line, fmt.Sprintf("UsagePrefixMapper.ExpandPrefix differs from the manager for %q:%q", p, r))
			}
			ns, mapped := st[n].ref[p]
			if found != mapped || (found && s != ns+r) {
				h.violation(line, fmt.Sprintf("ExpandPrefix(%q:%q) = %q,%v; most recent mapping %q (present=%v)", p, r, s, found, ns, mapped))
			}
			if found {
				outs = append(outs, "E"+hx(s))
			} else {
				outs = append(outs, "Enone")
			}
		case 'U':
			n, _, ok := headArg(tok[1:])
			if !ok {
				return "bad-op"
			}
			u := st[n].tr.GetUsedPrefixes()
			sort.Strings(u)
			parts := make([]string, len(u))
			for i, k := range u {
				parts[i] = hx(k)
			}
			outs = append(outs, "U"+strings.Join(parts, ","))
		default:
			return "bad-op"
		}
	}
	return strings.Join(outs, ";")
}

// canonMaps sorts "p=e,p=e" by (descending byte length of e, p, e): equal-length namespaces may come
// in any order out of slices.SortFunc.
func canonMaps(s string) string {
	if s == "" {
		return s
	}
	fs := strings.Split(s, ",")
	type pe struct{ p, e string }
	l := make([]pe, len(fs))
	for i, f := range fs {
		a, b, _ := strings.Cut(f, "=")
		l[i] = pe{a, b}
	}
	sort.Slice(l, func(i, j int) bool {
		if len(l[i].e) != len(l[j].e) {
			return len(l[i].e) > len(l[j].e)
		}
		if l[i].p != l[j].p {
			return l[i].p < l[j].p
		}
		return l[i].e < l[j].e
	})
	for i, x := range l {
		fs[i] = x.p + "=" + x.e
	}
	return strings.Join(fs, ",")
}

// cmpHistory compares observation lists: G modulo the order of equal-length namespaces, C modulo the
// choice among prefixes sharing the winning namespace, U only when no such choice was made before.
func cmpHistory(goR, modelR string) string {
	g := strings.Split(goR, ";")
	m := strings.Split(modelR, ";")
	if len(g) != len(m) {
		return fmt.Sprintf("%d observations vs %d", len(g), len(m))
	}
	ambiguous := false
	for i := range g {
		a, b := g[i], m[i]
		if a == b {
			continue
		}
		if a == "" || b == "" || a[0] != b[0] {
			return fmt.Sprintf("observation %d: %s vs %s", i, a, b)
		}
		switch a[0] {
		case 'G':
			if canonMaps(a[1:]) != canonMaps(b[1:]) {
				return fmt.Sprintf("observation %d: tables differ: %s vs %s", i, a, b)
			}
		case 'C':
			ra, pa, oka := strings.Cut(a[1:], "|")
			rb, pb, okb := strings.Cut(b[1:], "|")
			if !oka || !okb || ra != rb {
				return fmt.Sprintf("observation %d: %s vs %s", i, a, b)
			}
			adm := strings.Split(pb, ",")
			in := false
			for _, x := range adm {
				if x == pa {
					in = true
				}
			}
			if !in {
				return fmt.Sprintf("observation %d: prefix %s not among the admissible %s", i, pa, pb)
			}
			if len(adm) > 1 {
				ambiguous = true
			}
		case 'U':
			if !ambiguous {
				return fmt.Sprintf("observation %d: used prefixes %s vs %s", i, a, b)
			}
		default:
			return fmt.Sprintf("observation %d: %s vs %s", i, a, b)
		}
	}
	return ""
}

func cmpExact(a, b string) string {
	if a == b {
		return ""
	}
	return "differs"
}

// ---------------------------------------------------------------- history generator

var prefixPool = []string{"", "a", "ex", "exp", "b", "rdf", "é", "x1", "a-b", "_u"}
var nsPool = []string{
	"http://e/", "http://e/p/", "http://e/p/q#", "http://e/p", "http://e", "http://e/p/q/", "http://é/", "http://ee/",
	"urn:x:", "", "http://e/#", "http://e/p#", "https://e/", "http://e/pp/", "h",
}

func (h *harness) genNS() string {
	if h.r.Chance(80) {
		return vh.Pick(h.r, nsPool)
	}
	s := "http://" + vh.Pick(h.r, []string{"e", "f.org", "é"}) + "/"
	for i, n := 0, h.r.Intn(3); i < n; i++ {
		s += vh.Pick(h.r, []string{"p", "q", "pp", "é", "1"}) + vh.Pick(h.r, []string{"/", "#", ""})
	}
	return s
}

func (h *harness) genPrefix(big bool) string {
	if big || h.r.Chance(10) {
		return vh.Pick(h.r, []string{"p", "q", "ns", "x"}) + strconv.Itoa(h.r.Intn(40))
	}
	return vh.Pick(h.r, prefixPool)
}

func (h *harness) genMaps(max int, big bool) []mapping {
	n := h.r.Intn(max + 1)
	ms := make([]mapping, n)
	for i := range ms {
		ms[i] = mapping{h.genPrefix(big), h.genNS()}
	}
	return ms
}

// genIRI: an IRI near the namespaces in play: namespace + local name, the namespace itself, a
// namespace cut short, or something unrelated.
func (h *harness) genIRI(nss []string) string {
	ns := vh.Pick(h.r, nsPool)
	if len(nss) > 0 && h.r.Chance(70) {
		ns = vh.Pick(h.r, nss)
	}
	switch h.r.Intn(8) {
	case 0:
		return ns
	case 1:
		if len(ns) > 0 {
			return ns[:len(ns)-1]
		}
		return "x"
	case 2:
		return "urn:other:" + vh.Pick(h.r, []string{"a", "b"})
	case 3:
		return ns + vh.Pick(h.r, []string{"p/", "q#", "p/q/"}) + "x"
	default:
		return ns + vh.Pick(h.r, []string{"x", "local", "a:b", "é", "p", "1/2", "#f", "[x]"})
	}
}

func (h *harness) genHistory() []string {
	big := h.r.Chance(4)
	var toks []string
	var nss []string
	note := func(ms []mapping) {
		for _, m := range ms {
			nss = append(nss, m.e)
		}
	}
	initMax := 4
	if big {
		initMax = 40
	}
	ms := h.genMaps(initMax, big)
	note(ms)
	toks = append(toks, "N:"+mapsTok(ms))
	handles := 1
	nops := 2 + h.r.Intn(11)
	for i := 0; i < nops; i++ {
		hd := h.r.Intn(handles)
		switch h.r.Intn(10) {
		case 0, 1, 2:
			m := 3
			if big {
				m = 20
			}
			ms := h.genMaps(m, big)
			if len(ms) > 0 && h.r.Chance(20) { // the same prefix twice in one call
				ms = append(ms, mapping{ms[0].p, h.genNS()})
			}
			note(ms)
			toks = append(toks, fmt.Sprintf("A%d:%s", hd, mapsTok(ms)))
		case 3, 4:
			var ks []string
			for j, n := 0, h.r.Intn(4); j < n; j++ {
				ks = append(ks, h.genPrefix(big))
			}
			if len(ks) > 0 && h.r.Chance(20) {
				ks = append(ks, ks[0])
			}
			toks = append(toks, fmt.Sprintf("D%d:%s", hd, keysTok(ks)))
		case 5:
			if handles < 4 {
				toks = append(toks, fmt.Sprintf("K%d", hd))
				handles++
			}
		case 6:
			toks = append(toks, fmt.Sprintf("G%d", hd))
		case 7, 8:
			toks = append(toks, fmt.Sprintf("C%d:%s", hd, hx(h.genIRI(nss))))
		default:
			toks = append(toks, fmt.Sprintf("E%d:%s=%s", hd, hx(h.genPrefix(big)), hx(vh.Pick(h.r, []string{"", "x", "a/b"}))))
		}
	}
	// final observation of every manager
	for hd := 0; hd < handles; hd++ {
		toks = append(toks, fmt.Sprintf("G%d", hd), fmt.Sprintf("C%d:%s", hd, hx(h.genIRI(nss))), fmt.Sprintf("U%d", hd))
	}
	return toks
}

func (h *harness) historyCase(kind string, toks []string) {
	line := "pm.run " + strings.Join(toks, " ")
	muts := 0
	for _, t := range toks {
		if t[0] == 'A' || t[0] == 'D' || t[0] == 'K' {
			muts++
		}
	}
	h.add(kind, line, h.runHistory(line, toks), muts > 0, cmpHistory)
	h.rep.Count(fmt.Sprintf("history-mutations:%d", min(muts, 12)))
}

// exhaustiveHistories: every history of at most n single-mapping additions / single deletions over
// 3 prefixes x 3 nested namespaces, each followed by a full observation.
func (h *harness) exhaustiveHistories(n int) {
	ps := []string{"", "a", "b"}
	ns := []string{"http://e/", "http://e/p/", "http://e/q/"}
	var ops []string
	for _, p := range ps {
		for _, e := range ns {
			ops = append(ops, "A0:"+mapsTok([]mapping{{p, e}}))
		}
		ops = append(ops, "D0:"+keysTok([]string{p}))
	}
	obs := []string{"G0", "C0:" + hx("http://e/p/x"), "C0:" + hx("http://e/x"), "C0:" + hx("http://e/q/"), "E0:" + hx("a") + "=" + hx("x"), "U0"}
	var rec func(prefix []string, depth int)
	rec = func(prefix []string, depth int) {
		toks := append(append([]string{"N:-"}, prefix...), obs...)
		h.historyCase("history-exhaustive", toks)
		if depth == n {
			return
		}
		for _, o := range ops {
			rec(append(append([]string(nil), prefix...), o), depth+1)
		}
	}
	rec(nil, 0)
}

// ---------------------------------------------------------------- BaseIRI

type relResult struct {
	badBase bool
	panic   string
	rel     string
	ok      bool
}

func goRelativize(b, v string) (res relResult, rb *iri.BaseIRI) {
	rb, err := iri.ParseBaseIRI(b)
	if err != nil {
		return relResult{badBase: true}, nil
	}
	defer func() {
		if p := recover(); p != nil {
			res = relResult{panic: fmt.Sprint(p)}
		}
	}()
	rel, ok := rb.RelativizeIRI(v)
	return relResult{rel: rel, ok: ok}, rb
}

// relCase: RelativizeIRI on the implementation, the property oracle (re-resolve with BaseIRI.Parse),
// and the protocol line for the model.
func (h *harness) relCase(kind, b, v string) { h.relCaseM(kind, b, v, true) }

// relCaseM: with model=false only the property's own statement is evaluated (whatever RelativizeIRI offers
// must resolve back to exactly the IRI with the package's own resolver); used for bases outside the domain
// on which goResolve models BaseIRI.Parse (empty query/fragment, dot segments, upper-case scheme, userinfo).
func (h *harness) relCaseM(kind, b, v string, model bool) {
	if !validPct(v) {
		h.rep.Count("rel:skipped-malformed-percent-escape")
		return
	}
	res, rb := goRelativize(b, v)
	if res.badBase {
		h.rep.Count("rel:base-rejected-by-net/url")
		return
	}
	line := "pm.rel " + vh.XS(b) + " " + vh.XS(v)
	if !model {
		line = "pm.relo " + vh.XS(b) + " " + vh.XS(v)
	}
	var goR string
	switch {
	case res.panic != "":
		goR = "panic"
		h.violation(line, fmt.Sprintf("RelativizeIRI panics: base %q, IRI %q: %s", b, v, res.panic))
	case !res.ok:
		goR = "none"
	default:
		goR = "some:" + vh.XS(res.rel)
		if rb.IsAbs() {
			// the repository's own resolver (observe_at of the property)
			back := "<parse error>"
			if p, err := rb.Parse(res.rel); err == nil {
				back = p.String()
			}
			if back != v {
				h.violation(line, fmt.Sprintf("RelativizeIRI(base %q, %q) = %q, which resolves to %q", b, v, res.rel, back))
			}
		}
		// RFC 3986 section 5.2 as written in Spec/RFC3986Lite.lean judges the offered reference (any base; the
		// repository's resolver roots relative base paths, so it cannot be asked about relative bases)
		if !model {
			break
		}
		pred := ""
		if res.rel == "" && strings.Contains(b, "#") {
			pred = "rel-empty-ref-base-has-fragment"
		}
		h.items = append(h.items, item{line: "pm.spec " + vh.XS(b) + " " + vh.XS(res.rel), goR: vh.XS(v), kind: "rel-spec-oracle", cmp: cmpExact, pred: pred,
			spec: fmt.Sprintf("RelativizeIRI(base %q, %q) = %q does not resolve back under RFC 3986 5.2", b, v, res.rel)})
		if len(res.rel) < len(v) {
			h.rep.Count("rel:shortened")
		}
	}
	h.rep.Count("rel-outcome:" + strings.SplitN(goR, ":", 2)[0])
	if !model {
		h.rep.Eval(line, rb.IsAbs() && v != b)
		h.rep.Count("op:" + kind)
		return
	}
	h.add(kind, line, goR, rb.IsAbs() && v != b, cmpExact)
}

func (h *harness) baseCase(b string) {
	rb, err := iri.ParseBaseIRI(b)
	if err != nil {
		return
	}
	ix := rb.VerifIndices()
	// the decidable hypothesis of theorem relativize_no_panic (IndicesOK), checked on the implementation's own indices
	if ix[2] > len(rb.String()) || (ix[0] != -1 && !(1 <= ix[0] && ix[0] <= len(rb.String())+1 && ix[1] <= ix[2])) {
		h.violation("pm.base "+vh.XS(b), fmt.Sprintf("index bookkeeping of NewBaseIRI(%q) out of range: root=%d directory=%d resource=%d", b, ix[0], ix[1], ix[2]))
	}
	h.add("base", "pm.base "+vh.XS(b), fmt.Sprintf("%d %d %d %d %d", ix[0], ix[1], ix[2], ix[3], ix[4]), rb.IsAbs(), cmpExact)
}

// validPct: every '%' is followed by two hex digits (anything else is not an IRI and net/url refuses it)
func validPct(s string) bool {
	isHex := func(c byte) bool { return '0' <= c && c <= '9' || 'a' <= c && c <= 'f' || 'A' <= c && c <= 'F' }
	for i := 0; i < len(s); i++ {
		if s[i] == '%' && !(i+2 < len(s) && isHex(s[i+1]) && isHex(s[i+2])) {
			return false
		}
	}
	return true
}

// hasScheme: Appendix B would read a scheme (references with a scheme are resolved to themselves; the
// repository reclassifies some of them as opaque - C12's known deviation, not exercised here)
func hasScheme(r string) bool {
	i := strings.IndexAny(r, ":/?#")
	return i > 0 && r[i] == ':'
}

// resolveCase ties Model.goResolve (RFC 3986 §5.2 + the empty-base-path branch) to BaseIRI.Parse on the domain.
func (h *harness) resolveCase(b, r string) {
	rb, err := iri.ParseBaseIRI(b)
	if err != nil || !rb.IsAbs() || hasScheme(r) || !validPct(r) {
		return
	}
	p, err := rb.Parse(r)
	if err != nil {
		h.rep.Count("resolve:ref-rejected-by-net/url")
		return
	}
	h.add("resolve", "pm.resolve "+vh.XS(b)+" "+vh.XS(r), vh.XS(p.String()), true, cmpExact)
}

const segChars = "abcxyz019-._~!$&'()*+,;=:@"

func (h *harness) genSegment() string {
	switch h.r.Intn(12) {
	case 0:
		return ""
	case 1:
		return vh.Pick(h.r, []string{"a:b", "c:d", ":", "a:", ":a"})
	case 2:
		return vh.Pick(h.r, []string{"%41", "a%2Fb", "%C3%A9"})
	case 3:
		return vh.Pick(h.r, []string{"é", "日本", "a.b", "..a", "a..", ".a", "..."})
	case 4:
		n := 1 + h.r.Intn(3)
		b := make([]byte, n)
		for i := range b {
			b[i] = segChars[h.r.Intn(len(segChars))]
		}
		return string(b)
	default:
		return vh.Pick(h.r, []string{"a", "b", "c", "ab", "path", "subpath", "x"})
	}
}

func (h *harness) genQF() string { return h.genQFe(true) }

// genQFe: optional query and fragment; empty ones only when allowed
func (h *harness) genQFe(empty bool) string {
	s := ""
	qs := []string{"q", "x", "a=b&c", "q/r", "q?r", "a:b", ""}
	fs := []string{"f", "g", "f/g", "f?g", "f#g", "a:b", ""}
	if !empty {
		qs, fs = qs[:6], fs[:6]
	}
	if h.r.Chance(30) {
		s += "?" + vh.Pick(h.r, qs)
	}
	if h.r.Chance(30) {
		s += "#" + vh.Pick(h.r, fs)
	}
	return s
}

// mutate: a few edits of s drawn from the delimiters that steer RelativizeIRI (stays inside URI characters)
func (h *harness) mutate(s string) string {
	b := []byte(s)
	for i, n := 0, 1+h.r.Intn(3); i < n; i++ {
		if len(b) == 0 {
			b = append(b, vh.Pick(h.r, relHot))
			continue
		}
		p := h.r.Intn(len(b))
		switch h.r.Intn(4) {
		case 0:
			b = append(b[:p:p], b[p+1:]...)
		case 1:
			b = append(b[:p:p], append([]byte{vh.Pick(h.r, relHot)}, b[p:]...)...)
		case 2:
			if b[p] < 0x80 {
				b[p] = vh.Pick(h.r, relHot)
			}
		default:
			q := p + h.r.Intn(len(b)-p+1)
			b = append(b[:q:q], append(append([]byte(nil), b[p:q]...), b[q:]...)...)
		}
	}
	return string(b)
}

// genBase: absolute hierarchical base from lower-case schemes and ASCII reg-name hosts, no userinfo, no
// dot segments (the domain on which C12 ties the net/url wrapper to RFC 3986), path possibly empty.
func (h *harness) genBase() string {
	s := vh.Pick(h.r, []string{"http", "https", "ex", "a+b.c"}) + "://" + vh.Pick(h.r, []string{"e", "example.org", "a.b", "192.0.2.1", "e:8080"})
	if h.r.Chance(12) {
		return s + h.genQFe(false)
	}
	for i, n := 0, h.r.Intn(4); i < n; i++ {
		seg := h.genSegment()
		if seg == "." || seg == ".." {
			seg = "d"
		}
		s += "/" + seg
	}
	if h.r.Chance(40) {
		s += "/"
	}
	if !strings.Contains(s[strings.Index(s, "://")+3:], "/") {
		s += "/"
	}
	return s + h.genQFe(false)
}

var relHot = []byte("/.:?#@ab")

func cutQF(s string) string {
	if i := strings.IndexAny(s, "?#"); i >= 0 {
		return s[:i]
	}
	return s
}

// genTarget: an IRI placed relative to the base so that every branch of RelativizeIRI is visited.
func (h *harness) genTarget(b string) string {
	path := cutQF(b)
	dir := path[:strings.LastIndex(path, "/")+1]
	root := b
	if i := strings.Index(b, "://"); i >= 0 {
		rest := cutQF(b[i+3:])
		if j := strings.Index(rest, "/"); j >= 0 {
			root = b[:i+3+j+1]
		} else {
			root = b[:i+3+len(rest)] + "/"
		}
	}
	switch h.r.Intn(16) {
	case 0:
		return b
	case 1:
		return b + vh.Pick(h.r, []string{"#f", "?q", "#", "?", "?q#f", "/", "x"})
	case 2:
		return path + h.genQF()
	case 3:
		return dir + h.genQF()
	case 4, 5:
		return dir + h.genSegment() + h.genQF()
	case 6:
		return dir + h.genSegment() + "/" + h.genSegment() + h.genQF()
	case 7:
		return root + h.genSegment() + vh.Pick(h.r, []string{"", "/", "/" + h.genSegment()}) + h.genQF()
	case 8:
		return dir + vh.Pick(h.r, []string{"../x", "./x", "..", ".", "a/../b", "a/./b", "x/..", "/x", "//x", "./", "../"}) + h.genQF()
	case 9:
		return h.genBase()
	case 10:
		if len(b) > 0 {
			return b[:h.r.Intn(len(b)+1)]
		}
		return b
	case 11:
		return strings.Replace(b, "://", vh.Pick(h.r, []string{"s://", "://x", ":/", "://e@"}), 1)
	case 12:
		if len(root) > 0 {
			return root[:len(root)-1] + h.genQF()
		}
		return h.genQF()
	default:
		return h.mutate(b)
	}
}

// genBaseWide: bases outside the model domain (oracle only): empty query and/or fragment, dot segments,
// upper-case scheme, userinfo.
func (h *harness) genBaseWide() string {
	b := h.genBase()
	core := cutQF(b)
	switch h.r.Intn(8) {
	case 0:
		return core + "#"
	case 1:
		return core + "?#"
	case 2:
		return core + "?"
	case 3:
		return core + "?" + vh.Pick(h.r, []string{"q", "query", "a=b"}) + "#"
	case 4:
		return core + "?#" + vh.Pick(h.r, []string{"f", "fragment"})
	case 5:
		return core + vh.Pick(h.r, []string{"/./x", "/../x", "/a/..", "/."}) + h.genQF()
	case 6:
		return strings.ToUpper(b[:1]) + b[1:]
	default:
		return strings.Replace(b, "://", "://u@", 1)
	}
}

// relOracleCases: the round-trip statement itself on bases the model does not cover.
func (h *harness) relOracleCases(n int) {
	for i := 0; i < n; i++ {
		b := h.genBaseWide()
		res := cutQF(b)
		for k := 0; k < 4; k++ {
			v := h.genTarget(b)
			if h.r.Chance(35) { // the base resource with another query / fragment / both / none
				v = res + vh.Pick(h.r, []string{"", "?q", "?query", "?", "#f", "#", "?q#f", "?q#", "?#", "?#f"})
			}
			h.relCaseM("rel-oracle", b, v, false)
		}
	}
}

func (h *harness) relCases(n int) {
	for i := 0; i < n; i++ {
		b := h.genBase()
		if h.r.Chance(6) { // relative bases: only the "#…"/"?…" suffix forms may be offered
			b = vh.Pick(h.r, []string{"subpath", "a/b", "", "a/b?q", "sub#a", "/abs/path", "?q", "#f"})
		}
		h.baseCase(b)
		for k := 0; k < 4; k++ {
			h.relCase("rel", b, h.genTarget(b))
		}
		// references for the resolver tie: what relativize can offer plus the RFC 3986 §5.4 shapes
		r := vh.Pick(h.r, []string{"", "./", "/", "x", "./x", "../x", "../../x", "a/b", "/a/b", "?q", "#f", "x?q#f", "./?q", "./#f", ".", "..", "a/..", "a/./b", "//h/p", "g;x=1/../y", "/./x", "/../x"})
		if h.r.Chance(50) {
			r = h.genSegment() + vh.Pick(h.r, []string{"", "/", "/" + h.genSegment()}) + h.genQF()
		}
		h.resolveCase(b, r)
	}
}

// exhaustiveRel: every (base, IRI) over a small component alphabet; alignments of lengths and delimiters.
func (h *harness) exhaustiveRel(maxLen int) {
	var bases []string
	for _, p := range []string{"", "/", "/a", "/a/", "/a/b", "/a/b/", "/ab/c"} {
		for _, q := range []string{"", "?q", "?"} {
			for _, f := range []string{"", "#f", "#"} {
				bases = append(bases, "http://e"+p+q+f)
			}
		}
	}
	alphabet := []byte("ab/.:")
	var paths []string
	var rec func(s []byte)
	rec = func(s []byte) {
		paths = append(paths, string(s))
		if len(s) == maxLen {
			return
		}
		for _, c := range alphabet {
			rec(append(append([]byte(nil), s...), c))
		}
	}
	rec(nil)
	for _, b := range bases {
		inModel := !strings.HasSuffix(b, "#") && !strings.HasSuffix(b, "?") && !strings.Contains(b, "?#")
		if inModel {
			h.baseCase(b)
		}
		for _, p := range paths {
			for _, q := range []string{"", "?q", "?x", "?"} {
				for _, f := range []string{"", "#f", "#g", "#"} {
					if !inModel { // base with an empty query/fragment: own-resolver oracle only, no model line
						h.relCaseM("rel-exhaustive-oracle", b, "http://e"+p+q+f, false)
						continue
					}
					h.relCase("rel-exhaustive", b, "http://e"+p+q+f)
				}
			}
		}
	}
}

// ---------------------------------------------------------------- CURIEs

func curieTok(c curie.CURIE) string {
	return vh.B01(c.Safe) + vh.B01(c.DefaultPrefix) + ":" + hx(c.Prefix) + ":" + hx(c.Reference)
}

func parseCurieTok(s string) (curie.CURIE, bool) {
	f := strings.Split(s, ":")
	if len(f) != 3 || len(f[0]) != 2 {
		return curie.CURIE{}, false
	}
	p, ok1 := unhx(f[1])
	r, ok2 := unhx(f[2])
	return curie.CURIE{Safe: f[0][0] == '1', DefaultPrefix: f[0][1] == '1', Prefix: p, Reference: r}, ok1 && ok2
}

func isBracketed(s string) bool { return len(s) >= 2 && s[0] == '[' && s[len(s)-1] == ']' }

// predicate of known finding "curie-string-ambiguous": the default-prefix form of a reference that
// contains ':' (or, outside brackets, is empty or itself bracketed) is read back as something else.
func curieStringAmbiguous(c curie.CURIE) bool {
	return c.DefaultPrefix && (strings.Contains(c.Reference, ":") || (!c.Safe && (c.Reference == "" || isBracketed(c.Reference))))
}

func (h *harness) curieCase(safe bool, dp string, dpe bool, ms []mapping, v string) {
	pm := iri.NewPrefixManager(toList(ms))
	sc := curie.MappingScope{Safe: safe, DefaultPrefix: dp, DefaultPrefixEmpty: dpe, Prefixes: pm}
	scopeTok := fmt.Sprintf("%s %s %s %s", vh.B01(safe), vh.XS(dp), vh.B01(dpe), mapsTok(ms))
	pr, found := pm.CompactPrefix(v)
	c := sc.CompactCURIE(v)
	line := "pm.ccompact " + scopeTok + " " + vh.XS(v) + " " + vh.XS(pr.Prefix)
	h.add("curie-compact", line, curieTok(c), found, cmpExact)
	exp, ok := sc.ExpandCURIE(c)
	h.add("curie-expand", "pm.cexpand "+scopeTok+" "+curieTok(c), optTok(exp, ok), found, cmpExact)
	_, emptyMapped := pm.ExpandPrefix(iri.PrefixReference{})
	if found {
		h.rep.Count("curie:compacted")
		if !ok || exp != v {
			h.violation(line, fmt.Sprintf("CompactCURIE(%q) = %+v expands to %q,%v", v, c, exp, ok))
		}
		// the written form, read back in the same scope
		for _, s := range []string{c.String(), c.SafeString()} {
			back, okp := curie.ParseCURIE(s)
			var exp2 string
			ok2 := false
			if okp {
				exp2, ok2 = sc.ExpandCURIE(back)
			}
			if !ok2 || exp2 != v {
				h.knownOr("curie-string-ambiguous", curieStringAmbiguous(c), line,
					fmt.Sprintf("CompactCURIE(%q) is written %q, which is read back as %+v (ok=%v) and expands to %q,%v", v, s, back, okp, exp2, ok2))
			}
		}
	} else {
		h.rep.Count("curie:no-match")
		if ok && exp != v {
			h.knownOr("curie-nomatch-empty-prefix-mapped", emptyMapped, line,
				fmt.Sprintf("no namespace matches %q, CompactCURIE returns %+v which ExpandCURIE turns into %q instead of declining", v, c, exp))
		}
	}
}

func optTok(s string, ok bool) string {
	if !ok {
		return "none"
	}
	return vh.XS(s)
}

func (h *harness) curieCases(n int) {
	for i := 0; i < n; i++ {
		ms := h.genMaps(4, false)
		var nss []string
		for _, m := range ms {
			nss = append(nss, m.e)
		}
		dp := vh.Pick(h.r, prefixPool)
		if len(ms) > 0 && h.r.Chance(60) {
			dp = vh.Pick(h.r, ms).p
		}
		h.curieCase(h.r.Bool(), dp, h.r.Bool(), ms, h.genIRI(nss))
		// parser and printers on arbitrary strings / structs
		s := vh.Pick(h.r, []string{"", "[", "]", "[]", "[:]", ":", "a", "a:b", "[a:b]", "a:b:c", "[a", "a]", ":x", "[x]", "[[x]]", "é:é", "a:[b]"})
		if h.r.Chance(50) {
			s = string(h.r.Mutate([]byte(s), []byte("[]:ab")))
		}
		pc, ok := curie.ParseCURIE(s)
		r := "none"
		if ok {
			r = curieTok(pc)
		}
		h.add("curie-parse", "pm.cparse "+vh.XS(s), r, len(s) > 0, cmpExact)
		c := curie.CURIE{Safe: h.r.Bool(), DefaultPrefix: h.r.Bool(), Prefix: vh.Pick(h.r, prefixPool), Reference: vh.Pick(h.r, []string{"", "x", "a:b", "[x]", "é"})}
		h.add("curie-string", "pm.cstring "+curieTok(c), vh.XS(c.String())+" "+vh.XS(c.SafeString()), true, cmpExact)
		// ExpandCURIE on arbitrary structs (not only what CompactCURIE builds), in an arbitrary scope
		{
			sc := curie.MappingScope{Safe: h.r.Bool(), DefaultPrefix: dp, DefaultPrefixEmpty: h.r.Bool(), Prefixes: iri.NewPrefixManager(toList(ms))}
			exp, ok := sc.ExpandCURIE(c)
			h.add("curie-expand-any", fmt.Sprintf("pm.cexpand %s %s %s %s %s", vh.B01(sc.Safe), vh.XS(dp), vh.B01(sc.DefaultPrefixEmpty), mapsTok(ms), curieTok(c)), optTok(exp, ok), ok, cmpExact)
		}
	}
}

// ---------------------------------------------------------------- replay / hints: any protocol line through the implementation + oracle

func (h *harness) replayLine(l string) {
	f := strings.Fields(l)
	if len(f) == 0 {
		return
	}
	switch f[0] {
	case "pm.run":
		h.historyCase("replay", f[1:])
	case "pm.rel":
		if len(f) == 3 {
			b, err1 := vh.UnX(f[1])
			v, err2 := vh.UnX(f[2])
			if err1 == nil && err2 == nil {
				h.relCase("replay", string(b), string(v))
			}
		}
	case "pm.relo":
		if len(f) == 3 {
			b, err1 := vh.UnX(f[1])
			v, err2 := vh.UnX(f[2])
			if err1 == nil && err2 == nil {
				h.relCaseM("replay", string(b), string(v), false)
			}
		}
	case "pm.base":
		if len(f) == 2 {
			if b, err := vh.UnX(f[1]); err == nil {
				h.baseCase(string(b))
				h.relCase("replay", string(b), string(b)+"/x")
			}
		}
	case "pm.resolve":
		if len(f) == 3 {
			b, err1 := vh.UnX(f[1])
			r, err2 := vh.UnX(f[2])
			if err1 == nil && err2 == nil {
				h.resolveCase(string(b), string(r))
			}
		}
	case "pm.ccompact", "pm.cexpand":
		if len(f) >= 6 {
			dp, err1 := vh.UnX(f[2])
			ms, ok := parseMapsTok(f[4])
			if err1 != nil || !ok {
				return
			}
			if f[0] == "pm.ccompact" {
				if v, err := vh.UnX(f[5]); err == nil {
					h.curieCase(f[1] == "1", string(dp), f[3] == "1", ms, string(v))
				}
			} else if c, ok := parseCurieTok(f[5]); ok {
				// re-derive an IRI that compacts to this CURIE
				pm := iri.NewPrefixManager(toList(ms))
				sc := curie.MappingScope{Safe: f[1] == "1", DefaultPrefix: string(dp), DefaultPrefixEmpty: f[3] == "1", Prefixes: pm}
				if v, ok := sc.ExpandCURIE(c); ok {
					h.curieCase(sc.Safe, sc.DefaultPrefix, sc.DefaultPrefixEmpty, ms, v)
				}
			}
		}
	}
}

// replayLines: one protocol line per line, or the JSON replay written by ./check (its "op" fields)
func replayLines(b []byte) []string {
	txt := strings.TrimSpace(string(b))
	if strings.HasPrefix(txt, "{") {
		var r struct {
			Violations    []vh.Case `json:"violations"`
			Disagreements []vh.Case `json:"disagreements"`
		}
		if err := json.Unmarshal(b, &r); err == nil {
			var ls []string
			for _, c := range append(r.Violations, r.Disagreements...) {
				if strings.HasPrefix(c.Op, "pm.") && !strings.HasPrefix(c.Op, "pm.spec") {
					ls = append(ls, c.Op)
				}
			}
			return ls
		}
	}
	return strings.Split(txt, "\n")
}

// ---------------------------------------------------------------- main

func main() {
	flag.Parse()
	seed := vh.SeedFromEnv()
	rep := vh.NewReport("C13", *tier, seed, "PrefixManager: histories of NewPrefixManager/AddPrefixMappings/DeletePrefixes/Clone over a pool of 10 prefixes (incl. empty and non-ASCII) and nested, duplicate, empty and non-ASCII namespaces (4% with 20-60 mappings), observed by GetPrefixMappings/CompactPrefix/ExpandPrefix directly and through UsagePrefixMapper, IRIs placed at/around the namespaces; non-trivial = at least one mutation after construction. BaseIRI: absolute bases from lower-case hierarchical schemes with ASCII reg-name hosts, no userinfo, no dot segments and no empty query or fragment in the base, URI characters and well-formed percent-escapes only (the domain on which C12 ties the net/url wrapper to RFC 3986; its known deviations - scheme case, host escaping, opaque reclassification - are outside C13), empty and non-empty paths, with IRIs equal to the base, its directory, siblings, children, other directories, other authorities/schemes, differing only in query/fragment, with ':' in the first relative segment, '//' and dot segments, truncations and delimiter mutations of the base; plus a few relative bases; non-trivial = absolute base and IRI different from it. Outside that domain (bases with an empty query/fragment, dot segments, upper-case scheme, userinfo) only the property's own statement is evaluated (rel-oracle: whatever is offered must resolve back with BaseIRI.Parse), without model comparison. CURIE: scopes (safe, default prefix, empty default) x tables x IRIs, parser/printers on delimiter-heavy strings; non-trivial = the IRI compacts")
	h := &harness{r: vh.NewRng(seed), rep: rep}
	fs, err := vh.LoadFindings(*findings)
	if err != nil {
		fmt.Fprintln(os.Stderr, "findings:", err)
		os.Exit(2)
	}
	h.known = vh.KnownKeys(fs, "C13")

	if *replay != "" {
		b, err := os.ReadFile(*replay)
		if err != nil {
			fmt.Fprintln(os.Stderr, err)
			os.Exit(2)
		}
		for _, l := range replayLines(b) {
			h.replayLine(l)
		}
	} else {
		if *hints != "" {
			if b, err := os.ReadFile(*hints); err == nil {
				for _, l := range strings.Split(string(b), "\n") {
					h.replayLine(l)
				}
			}
		}
		nh, nr, nc := 12000**scale, 12000**scale, 8000**scale
		exH, exR := 3, 3
		if *tier == "thorough" {
			nh, nr, nc = 1200000**scale, 900000**scale, 400000**scale
			exH, exR = 4, 5
		}
		// the D12 witnesses of DESIGN §6 and the empty-path panic, always first
		for _, w := range [][2]string{
			{"http://e/a/b", "http://e/a/"}, {"http://e/a/b", "http://e/a/c?x"}, {"http://e/a/b", "http://e/x/c#f"},
			{"http://e/a/b", "xttp://e/a/b#f"}, {"http://e/a/b", "http://e//x"}, {"http://e/a/b", "http://e/a/c:d"},
			{"http://e/a/b", "http://e/a/../x"}, {"http://e", "http://e/x"}, {"http://e/a/b#z", "http://e/a/b#z?x"},
			{"sub#a", "sub#a?x"}, {"subpath", "xxxxxxx#f"}, {"subpath", "subpath?query#fragment"},
		} {
			h.relCase("rel-corpus", w[0], w[1])
		}
		h.exhaustiveHistories(exH)
		rep.Exhaustive = append(rep.Exhaustive, fmt.Sprintf("PrefixManager: every history of <= %d single additions/deletions over 3 prefixes x 3 nested namespaces, fully observed", exH))
		h.exhaustiveRel(exR)
		rep.Exhaustive = append(rep.Exhaustive, fmt.Sprintf("RelativizeIRI: 63 bases (paths '', '/', '/a', '/a/', '/a/b', '/a/b/', '/ab/c' x query {none,?q,?} x fragment {none,#f,#}; the 35 with an empty query/fragment through the own-resolver oracle only) x every path of <= %d characters over {a,b,/,.,:} x 4 queries x 4 fragments", exR))
		for i := 0; i < nh; i++ {
			h.historyCase("history", h.genHistory())
		}
		h.relCases(nr / 4)
		h.relOracleCases(nr / 8)
		h.curieCases(nc)
	}

	finish := func(tag string) {
		if rep.Cases == nil {
			rep.Cases = []vh.Case{} // "cases": [] rather than null
		}
		if err := rep.Write(*out); err != nil {
			fmt.Fprintln(os.Stderr, err)
			os.Exit(2)
		}
		fmt.Printf("c13%s: %d evaluations, %d compared with the model, %d failures, %d known\n", tag, rep.Evaluations, rep.Compared, rep.Failures(), len(rep.Cases)-rep.Failures())
		if rep.Failures() > 0 {
			os.Exit(1)
		}
	}
	if *nomodel {
		finish(" (oracle only)")
		return
	}
	lines := make([]string, len(h.items))
	for i, it := range h.items {
		lines[i] = it.line
	}
	res, err := vh.Driver{Path: *driver}.RunParallel(lines)
	if err != nil {
		fmt.Fprintln(os.Stderr, err)
		os.Exit(2)
	}
	for i, it := range h.items {
		rep.Compared++
		if d := it.cmp(it.goR, res[i]); d != "" {
			if it.spec != "" {
				h.knownOr(it.pred, it.pred != "", it.line, it.spec)
				continue
			}
			rep.Add(vh.Case{Kind: "disagreement", Op: it.line, Go: it.goR, Model: res[i], Detail: it.kind + ": " + d})
		}
	}
	finish("")
}
