/-
  Statement layer of Turtle/TriG: the step budget. Every iteration of the loop in `Next` lowers
  `potential`, so the fuel `St.cost + 1` that `next` and `run` start with is never exhausted.
-/
import RdfModel.Proofs.TtlDocBasic
namespace RdfModel.TtlDoc
open RdfModel

variable {C : Cfg} {e : End}

theorem runeCost_eq {c : Nat} (h : c ≠ 0) : runeCost c = 64 := by simp [runeCost, h]
theorem runeCost_le (c : Nat) : runeCost c ≤ 64 := by unfold runeCost; split <;> omega

def argCost : Arg → Nat
  | .fail => 0
  | .rune c r => inputCost (c :: r)

/-- surcharge of the next frame to run when the frames below are not known: at most 40 -/
def headCost : List Frame → Nat
  | [] => 40
  | f :: _ => if f.k.ready then 0 else 40

def OutCost (o : Out) : Nat :=
  inputCost o.inp + framesCost (o.cur.toList ++ o.push.reverse) + headCost (o.cur.toList ++ o.push.reverse) +
    o.emit.toList.length

/-- the call leaves less than `B` behind -/
def ResCost (B : Nat) : FnRes → Prop
  | .ok o => OutCost o + 1 ≤ B
  | _ => True

theorem ResCost.mono {B B' : Nat} {r : FnRes} (h : ResCost B r) (hb : B ≤ B') : ResCost B' r := by
  cases r <;> simp_all [ResCost]; omega

def TermCost (n : Nat) : TermRes → Prop
  | .ok _ r _ => inputCost r + 64 ≤ n
  | _ => True

theorem matchKw_cost : ∀ (kw : List (Nat × Nat)) (inp r : List Nat), matchKw kw inp = .ok r → inputCost r ≤ inputCost inp := by
  intro kw
  induction kw with
  | nil => intro inp r h; simp [matchKw] at h; subst h; exact Nat.le_refl _
  | cons a kw ih =>
    intro inp r h
    cases inp with
    | nil => simp [matchKw] at h
    | cons c rest =>
      obtain ⟨u, l⟩ := a
      simp only [matchKw] at h
      split at h
      · have := ih rest r h
        simp [inputCost]; omega
      · cases h

theorem iriIRIREF_cost (hC : C.P.Consumes) (env : Env) (inp : List Nat) :
    match iriIRIREF C e env inp with
    | .ok _ r => inputCost r + 64 ≤ inputCost inp
    | _ => True := by
  unfold iriIRIREF
  cases h : C.P.iriref e inp with
  | panic => trivial
  | err k => trivial
  | ok v r =>
    simp only []
    cases resolveIRI C env v with
    | none => trivial
    | some i => exact hC.iriref _ _ _ _ h

theorem iriPName_cost (hC : C.P.Consumes) (env : Env) (inp : List Nat) :
    match iriPName C e env inp with
    | .ok _ r => inputCost r + 64 ≤ inputCost inp
    | _ => True := by
  unfold iriPName
  cases h : C.P.pname e inp with
  | panic => trivial
  | err k => trivial
  | ok v r =>
    obtain ⟨ns, loc⟩ := v
    simp only []
    cases env.expand ns loc with
    | none => trivial
    | some i => exact hC.pname _ _ _ _ h

theorem termIRIREF_cost (hC : C.P.Consumes) (env : Env) (inp : List Nat) :
    TermCost (inputCost inp) (termIRIREF C e env inp) := by
  have := iriIRIREF_cost (e := e) hC env inp
  unfold termIRIREF
  cases h : iriIRIREF C e env inp <;> simp_all [IriRes.toTerm, TermCost]

theorem termPName_cost (hC : C.P.Consumes) (env : Env) (inp : List Nat) :
    TermCost (inputCost inp) (termPName C e env inp) := by
  have := iriPName_cost (e := e) hC env inp
  unfold termPName
  cases h : iriPName C e env inp <;> simp_all [IriRes.toTerm, TermCost]

theorem termBNode_cost (hC : C.P.Consumes) (env : Env) (inp : List Nat) :
    TermCost (inputCost inp) (termBNode C e env inp) := by
  unfold termBNode
  split <;> try trivial
  next l r h => exact hC.bnode _ _ _ _ h

/-- evaluate the cost of a concrete output -/
macro "cost_simp" : tactic =>
  `(tactic| simp only [ResCost, OutCost, headCost, framesCost, readyCost, Cont.weight, Cont.ready, inputCost, argCost,
      Option.toList, List.reverse_cons, List.reverse_nil, List.nil_append, List.cons_append, List.append_nil, List.length_cons,
      List.length_nil, List.singleton_append, ite_true, ite_false, Bool.false_eq_true, reduceCtorEq])

theorem subjectTail_cost (x : Ectx) (s : T) (inp : List Nat) (env : Env) {B : Nat} (h : inputCost inp + 45 ≤ B) :
    ResCost B (subjectTail x s inp env) := by
  unfold subjectTail; cost_simp; omega

theorem subjectOf_cost (x : Ectx) {tr : TermRes} {n B : Nat} (h : TermCost n tr) (hb : n ≤ B + 19) :
    ResCost B (subjectOf x tr) := by
  cases tr with
  | ok t r env => exact subjectTail_cost x t r env (by simp [TermCost] at h; omega)
  | err k => trivial
  | panic => trivial

theorem labelOrSubject_cost (x : Ectx) {tr : TermRes} {n B : Nat} (h : TermCost n tr) (hb : n ≤ B + 11) :
    ResCost B (labelOrSubject x tr) := by
  cases tr with
  | ok t r env => simp [TermCost] at h; unfold labelOrSubject; cost_simp; omega
  | err k => trivial
  | panic => trivial

theorem kwFallback_cost (hC : C.P.Consumes) (x : Ectx) (env : Env) (inp : List Nat) {B : Nat}
    (hb : inputCost inp + 4 ≤ B) : ResCost B (kwFallback C e x env inp) := by
  unfold kwFallback
  split
  · exact labelOrSubject_cost x (termPName_cost hC env inp) (by omega)
  · cost_simp; omega

theorem stepWrappedGraph_cost (x : Ectx) (env : Env) (a : Arg) {B : Nat} (hb : argCost a ≤ B + 19) :
    ResCost B (stepWrappedGraph e x env a) := by
  unfold stepWrappedGraph
  split
  · trivial
  · next c r =>
    split
    · trivial
    · next hc =>
      have : c = 0x7b := by omega
      have := runeCost_eq (c := c) (by omega)
      simp only [argCost, inputCost] at hb
      cost_simp; omega

theorem withSelf_cost (x : Ectx) {r : FnRes} {B : Nat} (h : ResCost B r) : ResCost (B + 1) (withSelf x r) := by
  cases r with
  | ok o =>
    simp only [withSelf, ResCost, OutCost] at h ⊢
    have h1 : framesCost (o.cur.toList ++ (⟨x, .statement⟩ :: o.push).reverse) =
        framesCost (o.cur.toList ++ o.push.reverse) + 1 := by
      simp only [List.reverse_cons, ← List.append_assoc]
      generalize o.cur.toList ++ o.push.reverse = l
      induction l with
      | nil => simp [framesCost, Cont.weight]
      | cons a l ih => simp [framesCost, ih]; omega
    have h2 : headCost (o.cur.toList ++ (⟨x, .statement⟩ :: o.push).reverse) ≤
        headCost (o.cur.toList ++ o.push.reverse) := by
      simp only [List.reverse_cons, ← List.append_assoc]
      generalize o.cur.toList ++ o.push.reverse = l
      cases l with
      | nil => simp [headCost, Cont.ready]
      | cons a l => simp [headCost]
    omega
  | err k => trivial
  | panic => trivial

end RdfModel.TtlDoc

namespace RdfModel.TtlDoc

variable {C : Cfg} {e : End}

theorem stepAtDirective_cost (x : Ectx) (env : Env) (rest : List Nat) {B : Nat} (hb : inputCost rest + 43 ≤ B) :
    ResCost B (stepAtDirective e x env rest) := by
  unfold stepAtDirective
  split
  · trivial
  · next r1 rest1 =>
    simp only [inputCost] at hb
    split
    · split <;> try trivial
      next r h => have := matchKw_cost _ _ _ h; cost_simp; omega
    · split
      · split <;> try trivial
        next r h => have := matchKw_cost _ _ _ h; cost_simp; omega
      · trivial

theorem stepKwBase_cost (hC : C.P.Consumes) (x : Ectx) (env : Env) (c : Nat) (rest : List Nat) {B : Nat}
    (hc : c ≠ 0) (hb : inputCost (c :: rest) + 4 ≤ B) : ResCost B (stepKwBase C e x env c rest) := by
  have h64 := runeCost_eq hc
  unfold stepKwBase
  split
  · trivial
  · exact kwFallback_cost hC x env _ hb
  · next r h =>
    have := matchKw_cost _ _ _ h
    simp only [inputCost] at hb
    split
    · trivial
    · next r4 rest4 =>
      simp only [inputCost] at this
      split
      · cost_simp; omega
      · split
        · exact kwFallback_cost hC x env _ (by simp only [inputCost]; omega)
        · cost_simp; omega

theorem stepKwSpace_cost (hC : C.P.Consumes) (x : Ectx) (env : Env) (kw : List (Nat × Nat)) (k : Cont) (c : Nat)
    (rest : List Nat) {B : Nat} (hc : c ≠ 0) (hk : k.weight ≤ 2) (hb : inputCost (c :: rest) + 4 ≤ B) :
    ResCost B (stepKwSpace C e x env kw k c rest) := by
  have h64 := runeCost_eq hc
  unfold stepKwSpace
  split
  · trivial
  · exact kwFallback_cost hC x env _ hb
  · next r h =>
    have := matchKw_cost _ _ _ h
    simp only [inputCost] at hb
    split
    · trivial
    · next r6 rest6 =>
      simp only [inputCost] at this
      split
      · exact kwFallback_cost hC x env _ (by simp only [inputCost]; omega)
      · simp only [ResCost, OutCost, headCost, framesCost, Option.toList, List.reverse_nil, List.append_nil, List.length_nil]
        split <;> omega

theorem stepSubjectStart_cost (hC : C.P.Consumes) (x : Ectx) (env : Env) (c : Nat) (rest : List Nat) {B : Nat}
    (hb : inputCost (c :: rest) + 4 ≤ B) : ResCost B (stepSubjectStart C e x env c rest) := by
  unfold stepSubjectStart
  split
  · split
    · exact labelOrSubject_cost x (termIRIREF_cost hC env _) (by omega)
    · cost_simp; simp only [inputCost] at hb; omega
  · split
    · split
      · exact labelOrSubject_cost x (termBNode_cost hC env _) (by omega)
      · cost_simp; simp only [inputCost] at hb; omega
    · split
      · next hc =>
        have := runeCost_eq (c := c) (by omega)
        simp only [inputCost] at hb
        split <;> (cost_simp; omega)
      · split
        · next hc =>
          have := runeCost_eq (c := c) (by omega)
          simp only [inputCost] at hb
          cost_simp; omega
        · split
          · split
            · exact labelOrSubject_cost x (termPName_cost hC env _) (by omega)
            · cost_simp; simp only [inputCost] at hb; omega
          · trivial

theorem stepStatementRune_cost (hC : C.P.Consumes) (x : Ectx) (env : Env) (c : Nat) (rest : List Nat) :
    ResCost (inputCost (c :: rest) + 40) (stepStatementRune C e x env c rest) := by
  unfold stepStatementRune
  split
  · next hc =>
    have := runeCost_eq (c := c) (by omega)
    exact stepAtDirective_cost x env rest (by simp only [inputCost]; omega)
  · split
    · next hc => exact stepKwBase_cost hC x env c rest (by omega) (by omega)
    · split
      · next hc => exact stepKwSpace_cost hC x env _ _ c rest (by omega) (by simp [Cont.weight]) (by omega)
      · split
        · next hc => exact stepKwSpace_cost hC x env _ _ c rest (by omega) (by simp [Cont.weight]) (by omega)
        · split
          · exact stepWrappedGraph_cost x env _ (by simp only [argCost]; omega)
          · exact stepSubjectStart_cost hC x env c rest (by omega)

theorem stepCollection_cost (x : Ectx) (env : Env) (c : Nat) (rest : List Nat) (o : T) {B : Nat}
    (hb : inputCost (c :: rest) + 6 ≤ B) : ResCost B (stepCollection x env c rest o) := by
  unfold stepCollection
  split
  · next hc =>
    have := runeCost_eq (c := c) (by omega)
    simp only [inputCost] at hb
    cost_simp; omega
  · simp only [inputCost] at hb
    split <;> (cost_simp; omega)

theorem polGo_cost (x : Ectx) (p : T) (inp : List Nat) (env : Env) {B : Nat} (hb : inputCost inp + 5 ≤ B) :
    ResCost B (polGo x p inp env) := by
  unfold polGo; cost_simp; omega

theorem polOfTerm_cost (x : Ectx) {tr : TermRes} {n B : Nat} (h : TermCost n tr) (hb : n ≤ B + 59) :
    ResCost B (polOfTerm x tr) := by
  cases tr with
  | ok t r env => exact polGo_cost x t r env (by simp [TermCost] at h; omega)
  | err k => trivial
  | panic => trivial

theorem stepPOL_cost (hC : C.P.Consumes) (x : Ectx) (env : Env) (c : Nat) (rest : List Nat) :
    ResCost (inputCost (c :: rest) + 42) (stepPOL C e x env c rest) := by
  unfold stepPOL
  split
  · exact polOfTerm_cost x (termIRIREF_cost hC env _) (by omega)
  · split
    · next hc =>
      have := runeCost_eq (c := c) (by omega)
      split
      · trivial
      · split
        · exact polOfTerm_cost x (termPName_cost hC env _) (by omega)
        · exact polGo_cost x _ _ env (by simp only [inputCost]; omega)
    · split
      · exact polOfTerm_cost x (termPName_cost hC env _) (by omega)
      · cost_simp; omega

end RdfModel.TtlDoc

namespace RdfModel.TtlDoc

variable {C : Cfg} {e : End}

theorem emitOfTerm_cost (x : Ectx) {tr : TermRes} {n B : Nat} (h : TermCost n tr) (hb : n ≤ B + 22) :
    ResCost B (emitOfTerm x tr) := by
  cases tr with
  | ok t r env => simp [TermCost] at h; unfold emitOfTerm; cost_simp; omega
  | err k => trivial
  | panic => trivial

theorem stepLiteralTail_cost (hC : C.P.Consumes) (x : Ectx) (env : Env) (lex rest : List Nat) {B : Nat}
    (hb : inputCost rest + 42 ≤ B) : ResCost B (stepLiteralTail C e x env lex rest) := by
  unfold stepLiteralTail
  split
  · trivial
  · next c rest0 =>
    split
    · split <;> try trivial
      next tag r h => have := hC.langtag _ _ _ _ h; cost_simp; omega
    · split
      · split
        · trivial
        · next c1 rest1 =>
          split
          · trivial
          · split
            · trivial
            · next c2 rest2 =>
              have h1 := iriIRIREF_cost (e := e) hC env (c2 :: rest2)
              have h2 := iriPName_cost (e := e) hC env (c2 :: rest2)
              simp only [inputCost] at hb h1 h2
              simp only []
              split
              · trivial
              · trivial
              · next dt r h =>
                have : inputCost r + 64 ≤ runeCost c2 + inputCost rest2 := by
                  split at h
                  · rw [h] at h1; exact h1
                  · rw [h] at h2; exact h2
                split
                · trivial
                · cost_simp; omega
      · cost_simp; simp only [inputCost] at hb; omega

theorem emitOfNumeric_cost (x : Ectx) (env : Env) {r : Ttl.Res (Ttl.NumKind × List Nat)} {n B : Nat}
    (h : ∀ v rest, r = .ok v rest → inputCost rest + 64 ≤ n) (hb : n ≤ B + 22) : ResCost B (emitOfNumeric x env r) := by
  cases r with
  | ok v rest => obtain ⟨k, lex⟩ := v; have := h _ _ rfl; unfold emitOfNumeric; cost_simp; omega
  | err k => trivial
  | panic => trivial

theorem stepObject_cost (hC : C.P.Consumes) (x : Ectx) (env : Env) (c : Nat) (rest : List Nat) :
    ResCost (inputCost (c :: rest) + 2) (stepObject C e x env c rest) := by
  unfold stepObject
  split
  · exact emitOfTerm_cost x (termIRIREF_cost hC env _) (by omega)
  · split
    · exact emitOfTerm_cost x (termBNode_cost hC env _) (by omega)
    · split
      · next hc => have := runeCost_eq (c := c) (by omega); cost_simp; omega
      · split
        · next hc => have := runeCost_eq (c := c) (by omega); cost_simp; omega
        · split
          · split <;> try trivial
            next lex r h =>
            have := hC.string _ _ _ _ h
            exact stepLiteralTail_cost hC x env lex r (by omega)
          · split
            · split
              · next hdot =>
                split
                · trivial
                · next r1 rest1 =>
                  split
                  · trivial
                  · next hd =>
                    exact emitOfNumeric_cost x env
                      (fun v r h => hC.numeric _ _ _ _ _ h (fun _ => ⟨r1, rest1, rfl, by omega, by omega⟩)) (by omega)
              · next hdot => exact emitOfNumeric_cost x env (fun v r h => hC.numeric _ _ _ _ _ h (fun h' => absurd h' hdot)) (by omega)
            · split
              · split
                · trivial
                · cost_simp; omega
                · next b r h => have := hC.boolean _ _ _ _ h; simp only [inputCost] at this; cost_simp; omega
              · split
                · cost_simp; omega
                · trivial

theorem stepTriples_cost (x : Ectx) (env : Env) (c : Nat) (rest : List Nat) :
    ResCost (inputCost (c :: rest) + 2) (stepTriples C x env c rest) := by
  unfold stepTriples
  split
  · cost_simp; omega
  · split
    · cost_simp; omega
    · split
      · next hc => have := runeCost_eq (c := c) (by omega); cost_simp; omega
      · split
        · next hc => have := runeCost_eq (c := c) (by omega); cost_simp; omega
        · split
          · cost_simp; omega
          · trivial

theorem stepParen_cost (top : Bool) (x : Ectx) (env : Env) (bn : T) (a : Arg) :
    ResCost (argCost a + 56) (stepParen top x env bn a) := by
  unfold stepParen
  simp only []
  cases a with
  | fail =>
    simp only [Arg.orNul, show ¬ (0 : Nat) = 41 by omega, ite_false]
    cases top <;> (cost_simp; simp [runeCost])
  | rune c r =>
    simp only [Arg.orNul]
    by_cases hc : c = 41
    · have := runeCost_eq (c := c) (by omega)
      simp only [hc, ite_true]
      subst hc
      cases top <;> (cost_simp; omega)
    · simp only [hc, ite_false]
      cases top <;> (cost_simp; omega)

end RdfModel.TtlDoc

namespace RdfModel.TtlDoc

variable {C : Cfg} {e : End}

def Cont.surcharge (k : Cont) : Nat := if k.ready then 0 else 40

/-- A successful scan-function call lowers "input + frames + surcharge + pending statements". -/
theorem stepFn_cost (hC : C.P.Consumes) (k : Cont) (x : Ectx) (env : Env) (a : Arg) :
    ResCost (argCost a + k.weight + k.surcharge) (stepFn C e k x env a) := by
  cases k with
  | statement =>
    simp only [stepFn]
    cases a with
    | fail => cases e <;> first | trivial | (cost_simp; simp [Cont.surcharge, Cont.ready])
    | rune c r =>
      have := withSelf_cost x (stepStatementRune_cost (e := e) hC x env c r)
      simpa [Cont.surcharge, Cont.ready, Cont.weight, argCost, Nat.add_assoc] using this
  | atBaseIRI =>
    simp only [stepFn]
    cases a with
    | fail => trivial
    | rune c r =>
      simp only []
      split <;> try trivial
      next v r' h =>
      have := hC.iriref _ _ _ _ h
      split <;> try trivial
      simp only [ite_true]; cost_simp; simp [Cont.surcharge, Cont.ready]; simp only [inputCost] at this; omega
  | sparqlBaseIRI =>
    simp only [stepFn]
    cases a with
    | fail => trivial
    | rune c r =>
      simp only []
      split <;> try trivial
      next v r' h =>
      have := hC.iriref _ _ _ _ h
      split <;> try trivial
      simp only [reduceCtorEq, ite_false]; cost_simp; simp [Cont.surcharge, Cont.ready]; simp only [inputCost] at this; omega
  | atBaseDot b =>
    simp only [stepFn]
    cases a with
    | fail => trivial
    | rune c r =>
      simp only []; split <;> try trivial
      next hc =>
      have := runeCost_eq (c := c) (by omega)
      cost_simp; simp [Cont.surcharge, Cont.ready] <;> omega
  | atPrefixNS =>
    simp only [stepFn]
    cases a with
    | fail => trivial
    | rune c r =>
      simp only []
      split <;> try trivial
      next v r' h =>
      have := hC.pnameNS _ _ _ _ h
      simp only [ite_true]; cost_simp; simp [Cont.surcharge, Cont.ready]; simp only [inputCost] at this; omega
  | sparqlPrefixNS =>
    simp only [stepFn]
    cases a with
    | fail => trivial
    | rune c r =>
      simp only []
      split <;> try trivial
      next v r' h =>
      have := hC.pnameNS _ _ _ _ h
      simp only [reduceCtorEq, ite_false]; cost_simp; simp [Cont.surcharge, Cont.ready]; simp only [inputCost] at this; omega
  | atPrefixIRI ns =>
    simp only [stepFn]
    cases a with
    | fail => trivial
    | rune c r =>
      simp only []
      split <;> try trivial
      next v r' h =>
      have := hC.iriref _ _ _ _ h
      split <;> try trivial
      cost_simp; simp [Cont.surcharge, Cont.ready]; simp only [inputCost] at this; omega
  | sparqlPrefixIRI ns =>
    simp only [stepFn]
    cases a with
    | fail => trivial
    | rune c r =>
      simp only []
      split <;> try trivial
      next v r' h =>
      have := hC.iriref _ _ _ _ h
      split <;> try trivial
      cost_simp; simp [Cont.surcharge, Cont.ready]; simp only [inputCost] at this; omega
  | atPrefixDot ns b =>
    simp only [stepFn]
    cases a with
    | fail => trivial
    | rune c r =>
      simp only []; split <;> try trivial
      next hc =>
      have := runeCost_eq (c := c) (by omega)
      cost_simp; simp [Cont.surcharge, Cont.ready] <;> omega
  | subjAnonOrBNPL =>
    simp only [stepFn]
    cases a with
    | fail => trivial
    | rune c r =>
      simp only []
      split
      · next hc => have := runeCost_eq (c := c) (by omega); cost_simp; simp [Cont.surcharge, Cont.ready] <;> omega
      · cost_simp; simp [Cont.surcharge, Cont.ready]
  | triplesEnd =>
    simp only [stepFn]
    cases a with
    | fail => trivial
    | rune c r =>
      simp only []; split <;> try trivial
      next hc => have := runeCost_eq (c := c) (by omega); cost_simp; simp [Cont.surcharge, Cont.ready] <;> omega
  | subjIRIREF =>
    simp only [stepFn]
    cases a with
    | fail => trivial
    | rune c r => exact subjectOf_cost x (termIRIREF_cost hC env _) (by simp [argCost, Cont.weight, Cont.surcharge, Cont.ready] <;> omega)
  | subjPName =>
    simp only [stepFn]
    cases a with
    | fail => trivial
    | rune c r => exact subjectOf_cost x (termPName_cost hC env _) (by simp [argCost, Cont.weight, Cont.surcharge, Cont.ready] <;> omega)
  | subjBNode =>
    simp only [stepFn]
    cases a with
    | fail => trivial
    | rune c r => exact subjectOf_cost x (termBNode_cost hC env _) (by simp [argCost, Cont.weight, Cont.surcharge, Cont.ready] <;> omega)
  | pol =>
    simp only [stepFn]
    cases a with
    | fail => trivial
    | rune c r => exact (stepPOL_cost hC x env c r).mono (by simp [argCost, Cont.weight, Cont.surcharge, Cont.ready])
  | polContinue =>
    simp only [stepFn]
    cases a with
    | fail => trivial
    | rune c r =>
      simp only []; split
      · next hc => have := runeCost_eq (c := c) (by omega); cost_simp; simp [Cont.surcharge, Cont.ready] <;> omega
      · cost_simp; simp [Cont.surcharge, Cont.ready]
  | polRequired =>
    simp only [stepFn]
    cases a with
    | fail => trivial
    | rune c r =>
      simp only []
      have := (stepPOL_cost (e := e) hC x env c r).mono (B' := argCost (.rune c r) + Cont.polRequired.weight + Cont.polRequired.surcharge)
        (by simp [argCost, Cont.weight, Cont.surcharge, Cont.ready])
      split
      · next o ho => rw [ho] at this; split <;> first | trivial | exact this
      · next r' hr =>
        cases hr' : stepPOL C e x env c r with
        | ok o => exact absurd hr' (hr o)
        | err k => trivial
        | panic => trivial
  | objListContinue =>
    simp only [stepFn]
    cases a with
    | fail => trivial
    | rune c r =>
      simp only []; split
      · next hc => have := runeCost_eq (c := c) (by omega); cost_simp; simp [Cont.surcharge, Cont.ready] <;> omega
      · cost_simp; simp [Cont.surcharge, Cont.ready]
  | object =>
    simp only [stepFn]
    cases a with
    | fail => trivial
    | rune c r => exact (stepObject_cost hC x env c r).mono (by simp [argCost, Cont.weight, Cont.surcharge, Cont.ready])
  | objectPName =>
    simp only [stepFn]
    cases a with
    | fail => trivial
    | rune c r => exact emitOfTerm_cost x (termPName_cost hC env _) (by simp [argCost, Cont.weight, Cont.surcharge, Cont.ready] <;> omega)
  | collOpenObj =>
    simp only [stepFn]
    cases a with
    | fail => trivial
    | rune c r => exact stepCollection_cost x _ c r _ (by simp [argCost, Cont.weight, Cont.surcharge, Cont.ready])
  | collOpenSubj o =>
    simp only [stepFn]
    refine stepCollection_cost x env _ _ o ?_
    cases a with
    | fail => simp [Arg.orNul, argCost, Cont.weight, Cont.surcharge, Cont.ready, inputCost, runeCost]
    | rune c r => simp [Arg.orNul, argCost, Cont.weight, Cont.surcharge, Cont.ready]
  | collContinue =>
    simp only [stepFn]
    cases a with
    | fail => trivial
    | rune c r =>
      simp only []
      split
      · next hc => have := runeCost_eq (c := c) (by omega); cost_simp; simp [Cont.surcharge, Cont.ready] <;> omega
      · cost_simp; simp [Cont.surcharge, Cont.ready]
  | bnplEnd =>
    simp only [stepFn]
    cases a with
    | fail => trivial
    | rune c r =>
      simp only []; split <;> try trivial
      next hc => have := runeCost_eq (c := c) (by omega); cost_simp; simp [Cont.surcharge, Cont.ready] <;> omega
  | parenTop bn =>
    simp only [stepFn]
    exact (stepParen_cost true x env bn a).mono (by simp [Cont.weight, Cont.surcharge, Cont.ready] <;> omega)
  | parenBlock bn =>
    simp only [stepFn]
    exact (stepParen_cost false x env bn a).mono (by simp [Cont.weight, Cont.surcharge, Cont.ready] <;> omega)
  | graphLabel =>
    simp only [stepFn]
    cases a with
    | fail => trivial
    | rune c r =>
      simp only []
      split
      · next hc => have := runeCost_eq (c := c) (by omega); cost_simp; simp [Cont.surcharge, Cont.ready] <;> omega
      · have htr : TermCost (inputCost (c :: r)) (if c = 0x5f then termBNode C e env (c :: r)
                  else if c = 0x3c then termIRIREF C e env (c :: r) else termPName C e env (c :: r)) := by
          split
          · exact termBNode_cost hC _ _
          · split
            · exact termIRIREF_cost hC _ _
            · exact termPName_cost hC _ _
        split <;> try trivial
        next g r' env' h =>
        rw [h] at htr
        simp only [TermCost, inputCost] at htr
        cost_simp; simp [Cont.surcharge, Cont.ready] <;> omega
  | graphAnonClose =>
    simp only [stepFn]
    split <;> try trivial
    next hc =>
    cases a with
    | fail => simp [Arg.orNul] at hc
    | rune c r =>
      simp only [Arg.orNul] at hc ⊢
      have := runeCost_eq (c := c) (by omega)
      cost_simp; simp [Cont.surcharge, Cont.ready] <;> omega
  | wrappedGraph =>
    simp only [stepFn]
    exact stepWrappedGraph_cost x env a (by simp [Cont.weight, Cont.surcharge, Cont.ready] <;> omega)
  | wrappedGraphEnd =>
    simp only [stepFn]
    cases a with
    | fail => trivial
    | rune c r =>
      simp only []; split <;> try trivial
      next hc => have := runeCost_eq (c := c) (by omega); cost_simp; simp [Cont.surcharge, Cont.ready] <;> omega
  | triplesBlock =>
    simp only [stepFn]
    cases a with
    | fail => trivial
    | rune c r => simp only []; split <;> (cost_simp; simp [Cont.surcharge, Cont.ready])
  | triplesBlockQuest =>
    simp only [stepFn]
    cases a with
    | fail => trivial
    | rune c r =>
      simp only []; split
      · next hc => have := runeCost_eq (c := c) (by omega); cost_simp; simp [Cont.surcharge, Cont.ready] <;> omega
      · split <;> (cost_simp; simp [Cont.surcharge, Cont.ready])
  | triples =>
    simp only [stepFn]
    cases a with
    | fail => trivial
    | rune c r => exact (stepTriples_cost x env c r).mono (by simp [argCost, Cont.weight, Cont.surcharge, Cont.ready])
  | tgE1 v =>
    simp only [stepFn]
    cases a with
    | fail =>
      simp only [Arg.orNul, show ¬ (0 : Nat) = 123 by omega, ite_false]
      split <;> first | trivial | (cost_simp; simp [Cont.surcharge, Cont.ready, runeCost])
    | rune c r =>
      simp only [Arg.orNul]
      by_cases hc : c = 123
      · have := runeCost_eq (c := c) (by omega)
        simp only [hc, ite_true]; subst hc
        cost_simp; simp [Cont.surcharge, Cont.ready] <;> omega
      · simp only [hc, ite_false]
        split <;> first | trivial | (cost_simp; simp [Cont.surcharge, Cont.ready])
  | tgBracket bn =>
    simp only [stepFn]
    cases a with
    | fail =>
      simp only [Arg.orNul, show ¬ (0 : Nat) = 93 by omega, ite_false]
      cost_simp; simp [Cont.surcharge, Cont.ready, runeCost]
    | rune c r =>
      simp only [Arg.orNul]
      by_cases hc : c = 93
      · have := runeCost_eq (c := c) (by omega)
        simp only [hc, ite_true]; subst hc
        cost_simp; simp [Cont.surcharge, Cont.ready] <;> omega
      · simp only [hc, ite_false]
        cost_simp; simp [Cont.surcharge, Cont.ready]
  | triples2BNPL =>
    simp only [stepFn]
    cases a with
    | fail => trivial
    | rune c r =>
      simp only []
      split
      · next hc => have := runeCost_eq (c := c) (by omega); cost_simp; simp [Cont.surcharge, Cont.ready] <;> omega
      · cost_simp; simp [Cont.surcharge, Cont.ready]

end RdfModel.TtlDoc

namespace RdfModel.TtlDoc

variable {C : Cfg} {e : End}

theorem skipWs_cost (C : Cfg) (e : End) : ∀ (b : Bool) (inp : List Nat) (c : Nat) (r : List Nat),
    skipWs C e b inp = .rune c r → inputCost (c :: r) ≤ inputCost inp := by
  intro b inp
  induction inp generalizing b with
  | nil => intro c r h; cases b <;> simp [skipWs] at h; cases e <;> simp at h
  | cons a rest ih =>
    intro c r h
    cases b with
    | true =>
      unfold skipWs at h
      split at h <;> (have := ih _ _ _ h; simp only [inputCost] at this ⊢; omega)
    | false =>
      unfold skipWs at h
      split at h
      · have := ih _ _ _ h; simp only [inputCost] at this ⊢; omega
      · split at h
        · have := ih _ _ _ h; simp only [inputCost] at this ⊢; omega
        · injection h with hc hr; subst hc; subst hr; exact Nat.le_refl _

theorem framesCost_append (l1 l2 : List Frame) : framesCost (l1 ++ l2) = framesCost l1 + framesCost l2 := by
  induction l1 with
  | nil => simp [framesCost]
  | cons a l ih => simp [framesCost, ih]; omega

theorem readyCost_le (l : List Frame) : readyCost l ≤ 40 := by
  cases l with
  | nil => simp [readyCost]
  | cons a l => simp only [readyCost]; split <;> omega

theorem readyCost_append_le (l1 l2 : List Frame) : readyCost (l1 ++ l2) ≤ headCost l1 := by
  cases l1 with
  | nil => simpa [headCost] using readyCost_le l2
  | cons a l => simp [readyCost, headCost]

theorem readyCost_toList_le (cur : Option Frame) (l : List Frame) : readyCost cur.toList ≤ headCost (cur.toList ++ l) := by
  cases cur with
  | none => simp [readyCost]
  | some f => simp [readyCost, headCost]

theorem popFrame_frames {cur : Option Frame} {st : St} {f : Frame} {st1 : St} (h : popFrame cur st = some (f, st1)) :
    cur.toList ++ st.stack = f :: st1.stack := by
  obtain ⟨_, _, _, _, h'⟩ := popFrame_some h
  rcases h' with ⟨rfl, h'⟩ | ⟨rfl, h'⟩
  · simp [h']
  · simp [h']

/-- one successful `scan` lowers the potential -/
theorem scan_potential (hC : C.P.Consumes) {cur : Option Frame} {st : St} {f : Frame} {st1 : St}
    (hp : popFrame cur st = some (f, st1)) {cur' : Option Frame} {st2 : St} (hs : scan C e f st1 = .ok cur' st2) :
    potential cur' st2 + 1 ≤ potential cur st := by
  obtain ⟨hs1, _, hi1, _, _⟩ := popFrame_some hp
  have hfr := popFrame_frames hp
  unfold scan at hs
  cases hsc : scanFn C e f st1.inp st1.env with
  | panic => simp [hsc] at hs
  | err k => simp [hsc] at hs
  | ok o =>
    simp only [hsc] at hs
    injection hs with h1 h2
    subst h1; subst h2
    -- cost of the call
    have hcost : OutCost o + 1 ≤ inputCost st1.inp + f.k.weight + f.k.surcharge := by
      unfold scanFn at hsc
      split at hsc
      · cases hsc
      · have := stepFn_cost (e := e) hC f.k f.x st1.env .fail
        rw [hsc] at this
        simp only [ResCost, argCost] at this
        omega
      · next c r hsk =>
        have := stepFn_cost (e := e) hC f.k f.x st1.env (.rune c r)
        rw [hsc] at this
        have h2 := skipWs_cost C e _ _ _ _ hsk
        simp only [ResCost, argCost] at this
        omega
    have hbefore : potential cur st = inputCost st1.inp + (f.k.weight + framesCost st1.stack) + f.k.surcharge + st.stmts.length := by
      simp only [potential, hfr, framesCost, readyCost, Cont.surcharge, hi1]
    rw [hbefore]
    simp only [potential, applyOut, OutCost] at hcost ⊢
    have hlen : (st1.stmts ++ o.emit.toList).length = st.stmts.length + o.emit.toList.length := by simp [hs1]
    rw [hlen]
    by_cases ht : o.term = true
    · simp only [ht, ite_true, List.append_nil]
      have h1 : framesCost o.cur.toList ≤ framesCost (o.cur.toList ++ o.push.reverse) := by
        rw [framesCost_append]; omega
      have h2 := readyCost_toList_le o.cur o.push.reverse
      omega
    · simp only [ht, Bool.false_eq_true, ite_false]
      have h1 : framesCost (o.cur.toList ++ (o.push.reverse ++ st1.stack)) =
          framesCost (o.cur.toList ++ o.push.reverse) + framesCost st1.stack := by
        rw [← List.append_assoc, framesCost_append]
      have h2 : readyCost (o.cur.toList ++ (o.push.reverse ++ st1.stack)) ≤ headCost (o.cur.toList ++ o.push.reverse) := by
        rw [← List.append_assoc]; exact readyCost_append_le _ _
      omega

theorem potential_pushCur (cur : Option Frame) (st : St) : potential none (pushCur cur st) = potential cur st := by
  cases cur <;> simp [potential, pushCur]

theorem weight_pos (k : Cont) : 1 ≤ k.weight := by cases k <;> simp [Cont.weight]

/-- The loop in `Next` never runs out of fuel when started with more than the potential, and the
    state it answers `true` with has a smaller potential. -/
theorem nextLoop_fuel (hC : C.P.Consumes) :
    ∀ fuel cur st, potential cur st < fuel →
      nextLoop C e fuel cur st ≠ .outOfFuel ∧
      ∀ st', nextLoop C e fuel cur st = .yes st' →
        St.cost st' ≤ potential cur st ∧ (st.stmts = [] → St.cost st' < potential cur st) := by
  intro fuel
  induction fuel with
  | zero => intro cur st h; omega
  | succ n ih =>
    intro cur st hlt
    unfold nextLoop
    split
    · exact ⟨by simp, fun st' h => by cases h⟩
    · split
      · next hne =>
        refine ⟨by simp, fun st' h => ?_⟩
        injection h with h; subst h
        refine ⟨by simp [St.cost, potential_pushCur], fun hs => ?_⟩
        simp [hs] at hne
      · split
        · exact ⟨by simp, fun st' h => by cases h⟩
        · next f st1 hp =>
          have hfr := popFrame_frames hp
          have hpos : 1 ≤ potential cur st := by
            simp only [potential, hfr, framesCost]
            have := weight_pos f.k
            omega
          cases hsc : scan C e f st1 with
          | panic => exact ⟨by simp, fun st' h => by cases h⟩
          | err k =>
            simp only []
            -- the error is latched: the next iteration answers `false`
            cases n with
            | zero => omega
            | succ m =>
              unfold nextLoop
              simp
          | ok cur' st2 =>
            simp only []
            have hdec := scan_potential (e := e) hC hp hsc
            have := ih cur' st2 (by omega)
            refine ⟨this.1, fun st' h => ?_⟩
            have := this.2 st' h
            exact ⟨by omega, fun _ => by omega⟩

end RdfModel.TtlDoc

namespace RdfModel.TtlDoc

variable {C : Cfg} {e : End}

theorem next_fuel (hC : C.P.Consumes) (st : St) :
    next C e st ≠ .outOfFuel ∧ ∀ st', next C e st = .yes st' → St.cost st' < St.cost st := by
  unfold next
  simp only []
  have h := nextLoop_fuel (e := e) hC (({ st with stmts := st.stmts.drop 1 } : St).cost + 1) none
    { st with stmts := st.stmts.drop 1 } (by simp [St.cost])
  refine ⟨h.1, fun st' hy => ?_⟩
  have := h.2 st' hy
  cases hs : st.stmts with
  | nil =>
    have h0 : ({ st with stmts := st.stmts.drop 1 } : St) = st := by cases st; simp_all
    rw [h0] at this
    exact this.2 hs
  | cons a b =>
    have : potential none { st with stmts := st.stmts.drop 1 } + 1 = St.cost st := by
      simp [St.cost, potential, hs]; omega
    omega

theorem runLoop_fuel (hC : C.P.Consumes) : ∀ n st, St.cost st < n → (runLoop C e n st).2 ≠ .outOfFuel := by
  intro n
  induction n with
  | zero => intro st h; omega
  | succ n ih =>
    intro st hlt
    unfold runLoop
    have h := next_fuel (e := e) hC st
    split
    · simp
    · next hh => exact absurd hh h.1
    · next st' hh => simp; cases st'.err <;> simp
    · next st' hh =>
      have := h.2 st' hh
      split
      · simp
      · simp; exact ih st' (by omega)

theorem inputCost_le (inp : List Nat) : inputCost inp ≤ 64 * inp.length := by
  induction inp with
  | nil => simp [inputCost]
  | cons c r ih => have := runeCost_le c; simp [inputCost]; omega

theorem init_cost (base : Option (List Nat)) (pf : List (List Nat × List Nat)) (inp : List Nat) :
    St.cost (init base pf inp) ≤ 64 * inp.length + 41 := by
  have := inputCost_le inp
  simp [St.cost, potential, init, framesCost, readyCost, Cont.weight, Cont.ready]
  omega

end RdfModel.TtlDoc
