/-
  Proofs.C16Spec — what a successful `NQO` scanner did: which part of the input it consumed, what it
  committed to the writer, which range it returned, and that the base scanner (`NQ`) re-reads the
  consumed token to the same value whatever follows it.
-/
import RdfModel.Proofs.C16Erase
import RdfModel.Props.C16Defs
namespace RdfModel.Proofs.C16
open RdfModel RdfModel.NQ RdfModel.TW RdfModel.NQO RdfModel.C16

@[simp] theorem read_doc (s : S) (r : RP) : (s.read r).doc = s.doc := rfl
@[simp] theorem read_bo (s : S) (r : RP) : (s.read r).bo = s.bo + r.2 := rfl
@[simp] theorem unread_doc (s : S) (r : RP) : (s.unread r).doc = s.doc := rfl
@[simp] theorem unread_bo (s : S) (r : RP) : (s.unread r).bo = s.bo - r.2 := rfl
@[simp] theorem commit_bo (s : S) (c : Chunk) : (s.commit c).bo = s.bo := rfl
@[simp] theorem commit_doc (s : S) (c : Chunk) : (s.commit c).doc = s.doc.map (fun h => c :: h) := rfl
theorem range_def (s : S) (c : Chunk) : s.range c = s.doc.map (fun h => (h, c :: h)) := rfl

theorem scanIRI_spec (T : Tables) (e : End) (st : SState) (s : S) (inp : List RP) (acc : List Nat)
    (unc : Chunk) (v : List Nat × Chunk) (s' : S) (rest : List RP)
    (h : NQO.scanIRI T e st s inp acc unc = .ok v s' rest) :
    ∃ body, inp = body ++ rest ∧ v.2 = unc.reverse ++ body ∧ s'.doc = s.doc ∧ s'.bo = s.bo + size body ∧
      (runes body).getLast? = some 0x3e ∧
      ∀ e' x, NQ.scanIRI T e' st (runes body ++ x) acc = .ok v.1 x := by
  fun_induction NQO.scanIRI T e st s inp acc unc
  all_goals (try (simp at h; done))
  all_goals (try (
    rename_i ih
    obtain ⟨body, h1, h2, h3, h4, h5, h6⟩ := ih h
    refine ⟨_ :: body, by rw [h1]; rfl, ?_, ?_, ?_, ?_, ?_⟩
    · simp [h2]
    · simp [h3]
    · simp [h4]; omega
    · cases body <;> simp_all
    · intro e' x; simp_all [NQ.scanIRI]
    done))
  · rename_i s r rest0 acc unc hr
    simp only [RO.ok.injEq] at h
    obtain ⟨rfl, rfl, rfl⟩ := h
    refine ⟨[r], by simp, by simp, by simp, by simp, by simp [hr], ?_⟩
    intro e' x; simp [NQ.scanIRI, hr]

theorem scanLit_spec (T : Tables) (e : End) (st : SState) (s : S) (inp : List RP) (acc : List Nat)
    (unc : Chunk) (v : List Nat × Chunk) (s' : S) (rest : List RP)
    (h : NQO.scanLit T e st s inp acc unc = .ok v s' rest) :
    ∃ body, inp = body ++ rest ∧ v.2 = unc.reverse ++ body ∧ s'.doc = s.doc ∧ s'.bo = s.bo + size body ∧
      (runes body).getLast? = some 0x22 ∧
      ∀ e' x, NQ.scanLit T e' st (runes body ++ x) acc = .ok v.1 x := by
  fun_induction NQO.scanLit T e st s inp acc unc
  all_goals (try (simp at h; done))
  all_goals (try (
    rename_i ih
    obtain ⟨body, h1, h2, h3, h4, h5, h6⟩ := ih h
    refine ⟨_ :: body, by rw [h1]; rfl, ?_, ?_, ?_, ?_, ?_⟩
    · simp [h2]
    · simp [h3]
    · simp [h4]; omega
    · cases body <;> simp_all
    · intro e' x; simp_all [NQ.scanLit]
    done))
  · rename_i s r rest0 acc unc hr
    simp only [RO.ok.injEq] at h
    obtain ⟨rfl, rfl, rfl⟩ := h
    refine ⟨[r], by simp, by simp, by simp, by simp, by simp [hr], ?_⟩
    intro e' x; simp [NQ.scanLit, hr]

/-- `captureOpenIRI`: consumed `body` (up to and including `>`), committed the single chunk
    `op :: body`, whose range is returned. -/
theorem captureIRI_spec (T : Tables) (urlOk : List Nat → Bool) (e : End) (s : S) (op : RP)
    (inp : List RP) (v : List Nat × Option SRange) (s' : S) (rest : List RP)
    (h : NQO.captureIRI T urlOk e s op inp = .ok v s' rest) :
    ∃ body, inp = body ++ rest ∧ v.2 = s.doc.map (fun d => (d, (op :: body) :: d)) ∧
      s'.doc = s.doc.map (fun d => (op :: body) :: d) ∧ s'.bo = s.bo + size body ∧
      (runes body).getLast? = some 0x3e ∧
      ∀ e' x, NQ.captureIRI T urlOk e' (runes body ++ x) = .ok v.1 x := by
  unfold NQO.captureIRI at h
  split at h
  · simp at h
  · next w s1 rest1 hs =>
    obtain ⟨body, h1, h2, h3, h4, h5, h6⟩ := scanIRI_spec T e _ _ _ _ _ _ _ _ hs
    simp only at h
    split at h
    · next hu =>
      simp only [RO.ok.injEq] at h
      obtain ⟨rfl, rfl, rfl⟩ := h
      simp only [List.reverse_cons, List.reverse_nil, List.nil_append, List.singleton_append] at h2
      refine ⟨body, h1, by simp [range_def, h2, h3], by simp [h2, h3], h4, h5, ?_⟩
      intro e' x
      simp [NQ.captureIRI, h6, hu]
    · simp at h

theorem langSecondary_spec (e : End) (a0 : RP) (s : S) (inp : List RP) (tagRev : Chunk)
    (v : List Nat × Option SRange) (s' : S) (rest : List RP)
    (h : NQO.langSecondary e a0 s inp tagRev = .ok v s' rest) :
    ∃ more, inp = more ++ rest ∧ v.1 = runes (tagRev.reverse ++ more) ∧
      v.2 = s.doc.map (fun d => ([a0] :: d, (tagRev.reverse ++ more) :: [a0] :: d)) ∧
      s'.doc = s.doc.map (fun d => (tagRev.reverse ++ more) :: [a0] :: d) ∧
      s'.bo = s.bo + size more ∧
      ∀ e' y, NQ.langSecondary e' (runes more ++ 0x20 :: y) (runes tagRev) = .ok v.1 (0x20 :: y) := by
  fun_induction NQO.langSecondary e a0 s inp tagRev
  all_goals (try (simp at h; done))
  all_goals (try (
    rename_i ih
    obtain ⟨more, h1, h2, h3, h4, h5, h6⟩ := ih h
    refine ⟨_ :: more, by rw [h1]; rfl, ?_, ?_, ?_, ?_, ?_⟩
    · simp [h2]
    · simp [h3]
    · simp [h4]
    · simp [h5]; omega
    · intro e' y; simp_all [NQ.langSecondary]
    done))
  all_goals (
    simp only [NQO.langFinish, RO.ok.injEq] at h
    obtain ⟨rfl, rfl, rfl⟩ := h
    refine ⟨[], by simp, by simp, by simp [range_def, Option.map_map, Function.comp_def], by simp [Option.map_map, Function.comp_def], by simp, ?_⟩
    intro e' y
    simp_all [NQ.langSecondary, isAlpha, isDigit])

theorem langPrimary_spec (e : End) (a0 : RP) (s : S) (inp : List RP) (tagRev : Chunk)
    (v : List Nat × Option SRange) (s' : S) (rest : List RP)
    (h : NQO.langPrimary e a0 s inp tagRev = .ok v s' rest) :
    ∃ more, inp = more ++ rest ∧ v.1 = runes (tagRev.reverse ++ more) ∧
      v.2 = s.doc.map (fun d => ([a0] :: d, (tagRev.reverse ++ more) :: [a0] :: d)) ∧
      s'.doc = s.doc.map (fun d => (tagRev.reverse ++ more) :: [a0] :: d) ∧
      s'.bo = s.bo + size more ∧
      ∀ e' y, NQ.langPrimary e' (runes more ++ 0x20 :: y) (runes tagRev) = .ok v.1 (0x20 :: y) := by
  fun_induction NQO.langPrimary e a0 s inp tagRev
  all_goals (try (simp at h; done))
  · rename_i s r rest0 tagRev hr ih
    obtain ⟨more, h1, h2, h3, h4, h5, h6⟩ := ih h
    refine ⟨r :: more, by rw [h1]; rfl, by simp [h2], by simp [h3], by simp [h4], by simp [h5]; omega, ?_⟩
    intro e' y; simp_all [NQ.langPrimary]
  · rename_i s r rest0 tagRev hr hd hne
    obtain ⟨more, h1, h2, h3, h4, h5, h6⟩ := langSecondary_spec e a0 _ _ _ _ _ _ h
    refine ⟨r :: more, by rw [h1]; rfl, by simp [h2], by simp [h3], by simp [h4], by simp [h5]; omega, ?_⟩
    intro e' y; simp_all [NQ.langPrimary]
  · rename_i s r rest0 tagRev hr hd hne
    simp only [NQO.langFinish, RO.ok.injEq] at h
    obtain ⟨rfl, rfl, rfl⟩ := h
    refine ⟨[], by simp, by simp, by simp [range_def, Option.map_map, Function.comp_def], by simp [Option.map_map, Function.comp_def], by simp, ?_⟩
    intro e' y
    simp_all [NQ.langPrimary, isAlpha]

theorem strTok_of {q : RP} {body : List RP} (hq : q.1 = 0x22) (hl : (runes body).getLast? = some 0x22) :
    StrTok (runes (q :: body)) := by
  obtain ⟨ys, hy⟩ := List.getLast?_eq_some_iff.1 hl
  exact ⟨ys, by simp [hq, hy]⟩

theorem iriTok_of {q : RP} {body : List RP} (hq : q.1 = 0x3c) (hl : (runes body).getLast? = some 0x3e) :
    IriTok (runes (q :: body)) := by
  obtain ⟨ys, hy⟩ := List.getLast?_eq_some_iff.1 hl
  exact ⟨ys, by simp [hq, hy]⟩

theorem captureLiteral_spec (T : Tables) (urlOk : List Nat → Bool) (e : End) (legacy : Bool) (s : S)
    (q : RP) (inp : List RP) (v : Term (List Nat) × Option SRange) (s' : S) (rest : List RP)
    (hq : q.1 = 0x22)
    (h : NQO.captureLiteral T urlOk e legacy s q inp = .ok v s' rest) :
    ∃ tb, inp = tb ++ rest ∧ TokenOf v.1 (runes (q :: tb)) ∧ s'.bo = s.bo + size tb ∧
      (s.doc = none → s'.doc = none ∧ v.2 = none) ∧
      (∀ d, s.doc = some d → ∃ un, v.2 = some (d, un) ∧ s'.doc = some un ∧
        histRunes un = histRunes d ++ q :: tb) ∧
      ∀ e' y, NQ.captureLiteral T urlOk e' (runes tb ++ 0x20 :: y) = .ok v.1 (0x20 :: y) := by
  unfold NQO.captureLiteral at h
  split at h
  · simp at h
  · next w s1 rest1 hs =>
    obtain ⟨body, h1, h2, h3, h4, h5, h6⟩ := scanLit_spec T e _ _ _ _ _ _ _ _ hs
    simp only [List.reverse_cons, List.reverse_nil, List.nil_append, List.singleton_append] at h2
    have hstr := strTok_of hq h5
    simp only at h
    split at h
    · -- end of input after the closing quote
      split at h
      · simp only [RO.ok.injEq] at h
        obtain ⟨rfl, rfl, rfl⟩ := h
        refine ⟨body, by simpa using h1, Or.inl ⟨hstr, rfl⟩, by simp [h4], ?_, ?_, ?_⟩
        · intro hn; simp [range_def, h3, hn]
        · intro d hd; exact ⟨w.2 :: d, by simp [range_def, h3, hd], by simp [h3, hd], by simp [h2]⟩
        · intro e' y; simp [NQ.captureLiteral, h6]
      · simp at h
    · next r0 rest0 =>
      split at h
      · -- language tag
        next h0 =>
        split at h
        · next t s3 r hl =>
          obtain ⟨more, g1, g2, g3, g4, g5, g6⟩ := langPrimary_spec e r0 _ _ _ _ _ _ hl
          simp only [RO.ok.injEq] at h
          obtain ⟨rfl, rfl, rfl⟩ := h
          simp only [List.reverse_nil, List.nil_append] at g2 g3 g4
          simp only [runes_nil] at g6
          refine ⟨body ++ r0 :: more, by simp [h1, g1], ?_, by simp [h4, g5]; omega, ?_, ?_, ?_⟩
          · exact ⟨runes (q :: body), hstr, by simp [h0, g2]⟩
          · intro hn; simp [range_def, h3, hn, g3, g4, span]
          · intro d hd
            refine ⟨more :: [r0] :: w.2 :: d, by simp [range_def, h3, hd, g3, span], by simp [h3, hd, g4], by simp [h2]⟩
          · intro e' y
            simp [NQ.captureLiteral, h6, h0, g6, g2]
        · simp at h
      · next h0 =>
        split at h
        · -- datatype
          next h00 =>
          split at h
          · simp at h
          · next r1 rest1 =>
            split at h
            · simp at h
            · next h11 =>
              split at h
              · simp at h
              · next r2 rest2 =>
                split at h
                · simp at h
                · next h22 =>
                  split at h
                  · next dv s7 r hi =>
                    obtain ⟨ib, g1, g2, g3, g4, g5, g6⟩ := captureIRI_spec T urlOk e _ _ _ _ _ _ hi
                    split at h
                    · simp at h
                    · next hne =>
                      simp only [RO.ok.injEq] at h
                      obtain ⟨rfl, rfl, rfl⟩ := h
                      have h11' : r1.1 = 0x5e := by simpa using h11
                      have h22' : r2.1 = 0x3c := by simpa using h22
                      refine ⟨body ++ r0 :: r1 :: r2 :: ib, by simp [h1, g1], ?_, by simp [h4, g4]; omega, ?_, ?_, ?_⟩
                      · exact Or.inr ⟨runes (q :: body), runes (r2 :: ib), hstr, iriTok_of h22' g5, by simp [h00, h11']⟩
                      · intro hn; simp [range_def, h3, hn, g2, g3, span]
                      · intro d hd
                        refine ⟨(r2 :: ib) :: [r0, r1] :: w.2 :: d, by simp [range_def, h3, hd, g2, span], by simp [h3, hd, g3], by simp [h2]⟩
                      · intro e' y
                        simp [NQ.captureLiteral, h6, h00, h11', h22', g6, hne]
                  · simp at h
        · -- plain string, next rune handed back
          next h00 =>
          simp only [RO.ok.injEq] at h
          obtain ⟨rfl, rfl, rfl⟩ := h
          refine ⟨body, by simpa using h1, Or.inl ⟨hstr, rfl⟩, by simp [h4], ?_, ?_, ?_⟩
          · intro hn; simp [range_def, h3, hn]
          · intro d hd; exact ⟨w.2 :: d, by simp [range_def, h3, hd], by simp [h3, hd], by simp [h2]⟩
          · intro e' y; simp [NQ.captureLiteral, h6]

theorem bnFinish_spec (T : Tables) (s : S) (p labRev : Chunk) (rest : List RP)
    (v : List Nat × Option SRange) (s' : S) (rest' : List RP) (hb : size labRev ≤ s.bo)
    (h : NQO.bnFinish T s p labRev rest = .ok v s' rest') :
    ∃ tok, tok ++ rest' = p ++ labRev.reverse ++ rest ∧ runes tok = runes p ++ v.1 ∧
      v.2 = s.doc.map (fun d => (d, tok :: d)) ∧ s'.doc = s.doc.map (fun d => tok :: d) ∧
      s'.bo + size rest' = s.bo + size rest := by
  cases labRev with
  | nil =>
    simp [NQO.bnFinish] at h
    obtain ⟨rfl, rfl, rfl⟩ := h
    exact ⟨p, by simp, by simp, by simp [range_def], by simp, by simp⟩
  | cons l more =>
    cases more with
    | nil =>
      simp [NQO.bnFinish] at h
      obtain ⟨rfl, rfl, rfl⟩ := h
      exact ⟨p ++ [l], by simp, by simp, by simp [range_def], by simp, by simp⟩
    | cons l' more' =>
      simp only [NQO.bnFinish, List.length_cons, ge_iff_le] at h
      rw [if_pos (by omega)] at h
      split at h
      · split at h
        · simp only [RO.ok.injEq] at h
          obtain ⟨rfl, rfl, rfl⟩ := h
          refine ⟨p ++ (l' :: more').reverse, by simp, by simp, by simp [range_def], by simp, ?_⟩
          simp at hb ⊢; omega
        · simp at h
      · split at h
        · simp only [RO.ok.injEq] at h
          obtain ⟨rfl, rfl, rfl⟩ := h
          exact ⟨p ++ (l :: l' :: more').reverse, by simp, by simp, by simp [range_def], by simp, by simp⟩
        · simp at h

theorem bnLoop_spec (T : Tables) (e : End) (p : Chunk) (s : S) (inp : List RP) (labRev : Chunk)
    (v : List Nat × Option SRange) (s' : S) (rest' : List RP) (hb : size labRev ≤ s.bo)
    (h : NQO.bnLoop T e p s inp labRev = .ok v s' rest') :
    ∃ tok, tok ++ rest' = p ++ labRev.reverse ++ inp ∧ runes tok = runes p ++ v.1 ∧
      v.2 = s.doc.map (fun d => (d, tok :: d)) ∧ s'.doc = s.doc.map (fun d => tok :: d) ∧
      s'.bo + size rest' = s.bo + size inp := by
  fun_induction NQO.bnLoop T e p s inp labRev
  · simp at h
  · rename_i s r rest0 labRev hr ih
    obtain ⟨tok, h1, h2, h3, h4, h5⟩ := ih (by simp; omega) h
    exact ⟨tok, by simp [h1], h2, by simp [h3], by simp [h4], by simp at h5 ⊢; omega⟩
  · rename_i s r rest0 labRev hr
    exact bnFinish_spec T s p labRev (r :: rest0) v s' rest' hb h

theorem captureBNode_spec (T : Tables) (e : End) (s : S) (p : Chunk) (inp : List RP)
    (v : List Nat × Option SRange) (s' : S) (rest' : List RP)
    (h : NQO.captureBNode T e s p inp = .ok v s' rest') :
    ∃ tok, tok ++ rest' = p ++ inp ∧ runes tok = runes p ++ v.1 ∧
      v.2 = s.doc.map (fun d => (d, tok :: d)) ∧ s'.doc = s.doc.map (fun d => tok :: d) ∧
      s'.bo + size rest' = s.bo + size inp := by
  cases inp with
  | nil => simp [NQO.captureBNode] at h
  | cons r rest =>
    simp only [NQO.captureBNode] at h
    split at h
    · obtain ⟨tok, h1, h2, h3, h4, h5⟩ := bnLoop_spec T e p (s.read r) rest [r] v s' rest' (by simp) h
      exact ⟨tok, by simpa using h1, h2, by simpa using h3, by simpa using h4, by simp at h5 ⊢; omega⟩
    · simp at h

/-- label runes after the first: `PN_CHARS` or `.` -/
def pnOrDot (T : Tables) (x : Nat) : Bool := inRanges T.pnChars x || x = 0x2e

/-- Re-scanning: the loop runs through `cs` and stops at the space. -/
theorem bnLoop_run (T : Tables) (hT : PnFacts T) (e : End) (cs acc y : List Nat)
    (hall : ∀ x ∈ cs, pnOrDot T x = true) :
    NQ.bnLoop T e (cs ++ 0x20 :: y) acc = NQ.bnFinish T (cs.reverse ++ acc) (0x20 :: y) := by
  induction cs generalizing acc with
  | nil => simp [NQ.bnLoop, hT.pn_sp]
  | cons c cs ih =>
    have hc := hall c (by simp)
    simp only [pnOrDot] at hc
    simp only [List.cons_append, NQ.bnLoop, hc, if_true]
    rw [ih (c :: acc) (fun x hx => hall x (by simp [hx]))]
    simp

/-- What `bnFinish` accepts is re-accepted (same label) when a space follows. `acc = accT ++ [c0]`
    with `accT` all `PN_CHARS`/`.`. -/
theorem bnFinish_relabel (T : Tables) (hT : PnFacts T) (acc rest l r : List Nat)
    (h : NQ.bnFinish T acc rest = .ok l r) (y : List Nat) :
    ∃ kept, l = kept.reverse ∧ (kept = acc ∨ (acc = 0x2e :: kept ∧ kept ≠ [])) ∧
      NQ.bnFinish T kept (0x20 :: y) = .ok l (0x20 :: y) := by
  cases acc with
  | nil =>
    simp [NQ.bnFinish] at h
    obtain ⟨rfl, rfl⟩ := h
    exact ⟨[], rfl, Or.inl rfl, by simp [NQ.bnFinish]⟩
  | cons l0 more =>
    cases more with
    | nil =>
      simp [NQ.bnFinish] at h
      obtain ⟨rfl, rfl⟩ := h
      exact ⟨[l0], rfl, Or.inl rfl, by simp [NQ.bnFinish]⟩
    | cons l' more' =>
      simp only [NQ.bnFinish, List.length_cons, ge_iff_le] at h
      rw [if_pos (by omega)] at h
      split at h
      · next hl0 =>
        split at h
        · next hp =>
          simp only [R.ok.injEq] at h
          obtain ⟨rfl, rfl⟩ := h
          refine ⟨l' :: more', rfl, Or.inr ⟨by simp [hl0], by simp⟩, ?_⟩
          have hne : l' ≠ 0x2e := by
            intro hh; rw [hh, hT.pn_dot] at hp; simp at hp
          unfold NQ.bnFinish
          split
          · simp [hne, hp]
          · rfl
        · simp at h
      · next hl0 =>
        split at h
        · next hp =>
          simp only [R.ok.injEq] at h
          obtain ⟨rfl, rfl⟩ := h
          refine ⟨l0 :: l' :: more', rfl, Or.inl rfl, ?_⟩
          simp [NQ.bnFinish, hl0, hp]
        · simp at h

theorem bnLoop_relabel (T : Tables) (hT : PnFacts T) (e : End) (inp acc l r : List Nat) (c0 : Nat)
    (accT : List Nat) (hacc : acc = accT ++ [c0]) (hall : ∀ x ∈ accT, pnOrDot T x = true)
    (h : NQ.bnLoop T e inp acc = .ok l r) (y : List Nat) :
    ∃ kT, l = c0 :: kT.reverse ∧ (∀ x ∈ kT, pnOrDot T x = true) ∧
      NQ.bnFinish T (kT ++ [c0]) (0x20 :: y) = .ok l (0x20 :: y) := by
  fun_induction NQ.bnLoop T e inp acc generalizing accT
  · simp at h
  · rename_i c rest acc hc ih
    exact ih (c :: accT) (by simp [hacc]) (by
      intro x hx
      simp only [List.mem_cons] at hx
      rcases hx with rfl | hx
      · simpa [pnOrDot] using hc
      · exact hall x hx) h
  · rename_i c rest acc hc
    obtain ⟨kept, h1, h2, h3⟩ := bnFinish_relabel T hT acc (c :: rest) l r h y
    rcases h2 with rfl | ⟨h2, hne⟩
    · exact ⟨accT, by simp [h1, hacc], hall, by rw [← hacc]; exact h3⟩
    · cases accT with
      | nil =>
        simp at hacc
        rw [hacc] at h2
        simp at h2
        exact absurd h2.2 hne
      | cons a accT' =>
        rw [hacc] at h2
        simp only [List.cons_append, List.cons.injEq] at h2
        obtain ⟨_, rfl⟩ := h2
        exact ⟨accT', by simp [h1], fun x hx => hall x (by simp [hx]), h3⟩

theorem captureBNode_reparse (T : Tables) (hT : PnFacts T) (e : End) (inp l r : List Nat)
    (h : NQ.captureBNode T e inp = .ok l r) (e' : End) (y : List Nat) :
    NQ.captureBNode T e' (l ++ 0x20 :: y) = .ok l (0x20 :: y) := by
  cases inp with
  | nil => simp [NQ.captureBNode] at h
  | cons c rest =>
    simp only [NQ.captureBNode] at h
    split at h
    · next hc =>
      obtain ⟨kT, h1, h2, h3⟩ := bnLoop_relabel T hT e rest [c] l r c [] rfl (by simp) h y
      subst h1
      simp only [List.cons_append, NQ.captureBNode, hc, if_true]
      rw [bnLoop_run T hT e' kT.reverse [c] y (by simpa using h2)]
      simpa using h3
    · simp at h

theorem captureTerm_spec (T : Tables) (urlOk : List Nat → Bool) (e : End) (legacy : Bool) (pos : Pos)
    (cm : Option Chunk) (s : S) (inp : List RP) (v : Term (List Nat) × Option SRange) (s' : S)
    (rest : List RP)
    (h : NQO.captureTerm T urlOk e legacy pos cm s inp = .ok v s' rest) :
    ∃ ws tok, inp = ws ++ tok ++ rest ∧ TokenOf v.1 (runes tok) ∧
      s'.bo + size rest = s.bo + size inp ∧
      (s.doc = none → s'.doc = none ∧ v.2 = none) ∧
      (∀ d, s.doc = some d → ∃ fr un, v.2 = some (fr, un) ∧ s'.doc = some un ∧
        histRunes fr = histRunes d ++ (cm.getD []).reverse ++ ws ∧ histRunes un = histRunes fr ++ tok) ∧
      (PnFacts T → ∀ e' y, NQ.captureTerm T urlOk e' pos false (runes tok ++ 0x20 :: y) = .ok v.1 (0x20 :: y)) := by
  fun_induction NQO.captureTerm T urlOk e legacy pos cm s inp
  all_goals (try (simp at h; done))
  case case3 =>
    rename_i cm s r rest0 hr ih
    obtain ⟨ws, tok, h1, h2, h3, h4, h5, h6⟩ := ih h
    refine ⟨r :: ws, tok, by simp [h1], h2, by simp at h3 ⊢; omega, by simpa using h4, ?_, h6⟩
    intro d hd
    obtain ⟨fr, un, g1, g2, g3, g4⟩ := h5 ((r :: cm).reverse :: d) (by simp [hd])
    exact ⟨fr, un, g1, g2, by simp [g3], g4⟩
  case case4 =>
    rename_i cm s r rest0 hr ih
    obtain ⟨ws, tok, h1, h2, h3, h4, h5, h6⟩ := ih h
    refine ⟨r :: ws, tok, by simp [h1], h2, by simp at h3 ⊢; omega, by simpa using h4, ?_, h6⟩
    intro d hd
    obtain ⟨fr, un, g1, g2, g3, g4⟩ := h5 d (by simp [hd])
    exact ⟨fr, un, g1, g2, by simp [g3], g4⟩
  case case5 =>
    rename_i s r rest0 hr t s3 r' hc
    obtain ⟨body, g1, g2, g3, g4, g5, g6⟩ := captureIRI_spec T urlOk e _ _ _ _ _ _ hc
    simp only [RO.ok.injEq] at h
    obtain ⟨rfl, rfl, rfl⟩ := h
    refine ⟨[], r :: body, by simp [g1], iriTok_of hr g5, by simp [g4, g1]; omega, ?_, ?_, ?_⟩
    · intro hn; simp [g2, g3, hn]
    · intro d hd; exact ⟨d, (r :: body) :: d, by simp [g2, hd], by simp [g3, hd], by simp, by simp⟩
    · intro _ e' y; simp [NQ.captureTerm, hr, g6]
  case case9 =>
    rename_i s r hr hb r1 rest1 h1 t s3 r' hc
    obtain ⟨tok, g1, g2, g3, g4, g5⟩ := captureBNode_spec T e _ _ _ _ _ _ hc
    simp only [RO.ok.injEq] at h
    obtain ⟨rfl, rfl, rfl⟩ := h
    have hr' : r.1 = 0x5f := by simp at hb; exact hb.1
    have h1' : r1.1 = 0x3a := by simpa using h1
    refine ⟨[], tok, by simpa using g1.symm, by simp [TokenOf, g2, hr', h1'], by simp at g5 ⊢; omega, ?_, ?_, ?_⟩
    · intro hn; simp [g3, g4, hn]
    · intro d hd; exact ⟨d, tok :: d, by simp [g3, hd], by simp [g4, hd], by simp, by simp⟩
    · intro hT e' y
      have hbn := captureBNode_erase T e ((s.read r).read r1) [r, r1] rest1
      rw [hc] at hbn
      simp at hbn
      have := captureBNode_reparse T hT e _ _ _ hbn.symm e' y
      have hpb : pos.bnode = true := by simp at hb; exact hb.2
      simp [NQ.captureTerm, g2, hr', h1', hpb, this]
  case case11 =>
    rename_i s r rest0 hr hb hl
    have hq : r.1 = 0x22 := by simp at hl; exact hl.1
    obtain ⟨tb, g1, g2, g3, g4, g5, g6⟩ := captureLiteral_spec T urlOk e legacy _ r _ _ _ _ hq h
    refine ⟨[], r :: tb, by simp [g1], g2, by simp [g3, g1]; omega, by simpa using g4, ?_, ?_⟩
    · intro d hd
      obtain ⟨un, k1, k2, k3⟩ := g5 d (by simpa using hd)
      exact ⟨d, un, k1, k2, by simp, by simp [k3]⟩
    · intro _ e' y
      have hpl : pos.literal = true := by simp at hl; exact hl.2
      simp [NQ.captureTerm, hq, hpl, g6]
  case case12 =>
    rename_i s r rest0 hr hb hl hc ih
    obtain ⟨ws, tok, h1, h2, h3, h4, h5, h6⟩ := ih h
    refine ⟨r :: ws, tok, by simp [h1], h2, by simp at h3 ⊢; omega, by simpa using h4, ?_, h6⟩
    intro d hd
    obtain ⟨fr, un, g1, g2, g3, g4⟩ := h5 d (by simp [hd])
    exact ⟨fr, un, g1, g2, by simp [g3], g4⟩
  case case13 =>
    rename_i s r rest0 hr hb hl hc hsp ih
    obtain ⟨ws, tok, h1, h2, h3, h4, h5, h6⟩ := ih h
    refine ⟨r :: ws, tok, by simp [h1], h2, by simp at h3 ⊢; omega, by simpa using h4, ?_, h6⟩
    intro d hd
    obtain ⟨fr, un, g1, g2, g3, g4⟩ := h5 ([r] :: d) (by simp [hd])
    exact ⟨fr, un, g1, g2, by simp [g3], g4⟩

/-- Net effect of a scanner that consumed `inp` down to `rest` while `pend` (runes read earlier but
    not yet committed) was pending: the buffer offset advanced by what was consumed, capture mode
    is unchanged, and with a writer everything consumed (and `pend`) has been committed, in order. -/
def LoopEff (s s' : S) (pend inp rest : List RP) : Prop :=
  s'.bo + size rest = s.bo + size inp ∧ (s.doc = none → s'.doc = none) ∧
  ∀ d, s.doc = some d → ∃ d', s'.doc = some d' ∧ histRunes d' ++ rest = histRunes d ++ pend ++ inp

theorem LoopEff.refl (s : S) (inp : List RP) : LoopEff s s [] inp inp :=
  ⟨rfl, id, fun d hd => ⟨d, hd, by simp⟩⟩

/-- read `r`, commit it together with the pending runes, continue -/
theorem LoopEff.read_commit {s s' : S} {pend : List RP} {r : RP} {rest0 rest : List RP}
    (h : LoopEff ((s.read r).commit (pend ++ [r])) s' [] rest0 rest) : LoopEff s s' pend (r :: rest0) rest := by
  obtain ⟨h1, h2, h3⟩ := h
  refine ⟨by simp at h1 ⊢; omega, fun hn => h2 (by simp [hn]), fun d hd => ?_⟩
  obtain ⟨d', g1, g2⟩ := h3 ((pend ++ [r]) :: d) (by simp [hd])
  exact ⟨d', g1, by simp [g2]⟩

/-- read `r` and keep it pending, continue -/
theorem LoopEff.read_pend {s s' : S} {pend : List RP} {r : RP} {rest0 rest : List RP}
    (h : LoopEff (s.read r) s' (pend ++ [r]) rest0 rest) : LoopEff s s' pend (r :: rest0) rest := by
  obtain ⟨h1, h2, h3⟩ := h
  refine ⟨by simp at h1 ⊢; omega, fun hn => h2 (by simp [hn]), fun d hd => ?_⟩
  obtain ⟨d', g1, g2⟩ := h3 d (by simp [hd])
  exact ⟨d', g1, by simp [g2]⟩

/-- pending runes of `drainLine` -/
def pendOf (cm : Option Chunk) : List RP := (cm.getD []).reverse

@[simp] theorem pendOf_none : pendOf none = [] := rfl
@[simp] theorem pendOf_some (c : Chunk) : pendOf (some c) = c.reverse := rfl

theorem afterObject_spec (T : Tables) (e : End) (cm : Option Chunk) (s : S) (inp : List RP)
    (g : Option (List Nat)) (s' : S) (rest : List RP)
    (h : NQO.afterObject T e cm s inp = .ok g s' rest) : LoopEff s s' (pendOf cm) inp rest := by
  fun_induction NQO.afterObject T e cm s inp
  all_goals (try (simp at h; done))
  · rename_i cm s r rest0 hr ih
    exact LoopEff.read_commit (by simpa using ih h)
  · rename_i cm s r rest0 hr ih
    exact LoopEff.read_pend (by simpa using ih h)
  · rename_i s r rest0 hr
    simp only [RO.ok.injEq] at h
    obtain ⟨_, rfl, rfl⟩ := h
    exact LoopEff.read_commit (by simpa using LoopEff.refl _ _)
  · rename_i s r rest0 h1 h2 ih
    exact LoopEff.read_pend (by simpa using ih h)
  · rename_i s r rest0 h1 h2 h3 ih
    exact LoopEff.read_commit (by simpa using ih h)
  · rename_i s r rest0 h1 h2 h3
    simp only [RO.ok.injEq] at h
    obtain ⟨_, rfl, rfl⟩ := h
    simpa using LoopEff.refl _ _

theorem expectDot_spec (T : Tables) (e : End) (cm : Option Chunk) (s : S) (inp : List RP)
    (u : Unit) (s' : S) (rest : List RP)
    (h : NQO.expectDot T e cm s inp = .ok u s' rest) : LoopEff s s' (pendOf cm) inp rest := by
  fun_induction NQO.expectDot T e cm s inp
  all_goals (try (simp at h; done))
  · rename_i cm s r rest0 hr ih
    exact LoopEff.read_commit (by simpa using ih h)
  · rename_i cm s r rest0 hr ih
    exact LoopEff.read_pend (by simpa using ih h)
  · rename_i s r rest0 hr
    simp only [RO.ok.injEq] at h
    obtain ⟨_, rfl, rfl⟩ := h
    exact LoopEff.read_commit (by simpa using LoopEff.refl _ _)
  · rename_i s r rest0 h1 h2 ih
    exact LoopEff.read_pend (by simpa using ih h)
  · rename_i s r rest0 h1 h2 h3 ih
    exact LoopEff.read_commit (by simpa using ih h)

/-- at a clean end everything pending is committed -/
theorem LoopEff.flush (s : S) (pend : List RP) : LoopEff s (s.commit pend) pend [] [] :=
  ⟨rfl, fun hn => by simp [hn], fun d hd => ⟨pend :: d, by simp [hd], by simp⟩⟩

theorem toEOL_start (T : Tables) (e : End) (cm : Option Chunk) (s : S) (inp : List RP)
    (s' : S) (rest : List RP)
    (h : NQO.toEOL T e cm s inp = .start s' rest) : LoopEff s s' (pendOf cm) inp rest := by
  fun_induction NQO.toEOL T e cm s inp
  all_goals (try (simp at h; done))
  all_goals (try (
    rename_i ih
    first
      | exact LoopEff.read_commit (by simpa using ih h)
      | exact LoopEff.read_pend (by simpa using ih h)))
  all_goals (
    simp only [NQO.EolRes.start.injEq] at h
    obtain ⟨rfl, rfl⟩ := h
    exact LoopEff.read_commit (by simpa using LoopEff.refl _ _))

theorem toEOL_done (T : Tables) (e : End) (cm : Option Chunk) (s : S) (inp : List RP) (s' : S)
    (h : NQO.toEOL T e cm s inp = .done s') : LoopEff s s' (pendOf cm) inp [] := by
  fun_induction NQO.toEOL T e cm s inp
  all_goals (try (simp at h; done))
  all_goals (try (
    rename_i ih
    first
      | exact LoopEff.read_commit (by simpa using ih h)
      | exact LoopEff.read_pend (by simpa using ih h)))
  all_goals (
    simp only [NQO.EolRes.done.injEq] at h
    subst h
    first
      | simpa using LoopEff.refl _ []
      | simpa using LoopEff.flush _ _)

theorem skipToStmt_stmt (T : Tables) (e : End) (cm : Option Chunk) (s : S) (inp : List RP)
    (s' : S) (rest : List RP)
    (h : NQO.skipToStmt T e cm s inp = .stmt s' rest) : LoopEff s s' (pendOf cm) inp rest := by
  fun_induction NQO.skipToStmt T e cm s inp
  all_goals (try (simp at h; done))
  all_goals (try (
    rename_i ih
    first
      | exact LoopEff.read_commit (by simpa using ih h)
      | exact LoopEff.read_pend (by simpa using ih h)))
  all_goals (
    simp only [NQO.SkipRes.stmt.injEq] at h
    obtain ⟨rfl, rfl⟩ := h
    simpa using LoopEff.refl _ _)

theorem skipToStmt_ended (T : Tables) (cm : Option Chunk) (s : S) (inp : List RP) (s' : S)
    (h : NQO.skipToStmt T .eof cm s inp = .ended s') : LoopEff s s' (pendOf cm) inp [] := by
  generalize he : End.eof = e at h
  fun_induction NQO.skipToStmt T e cm s inp
  all_goals (try (simp at h; done))
  all_goals (try (
    rename_i ih
    first
      | exact LoopEff.read_commit (by simpa using ih h)
      | exact LoopEff.read_pend (by simpa using ih h)))
  all_goals (
    subst he
    simp only [NQO.SkipRes.ended.injEq] at h
    subst h
    first
      | simpa using LoopEff.refl _ []
      | simpa using LoopEff.flush _ _)

theorem LoopEff.disc {s s' : S} {inp rest input : List RP} {cap : Bool}
    (h : LoopEff s s' [] inp rest) (hd : Disc input s inp) (hc : s.doc.isSome = cap) :
    Disc input s' rest ∧ s'.doc.isSome = cap := by
  obtain ⟨h1, h2, h3⟩ := h
  obtain ⟨d1, d2⟩ := hd
  cases hs : s.doc with
  | none =>
    have := h2 hs
    refine ⟨⟨by omega, fun x hx => by simp [this] at hx⟩, by simp [this, ← hc, hs]⟩
  | some d =>
    obtain ⟨d', g1, g2⟩ := h3 d hs
    refine ⟨⟨by omega, fun x hx => ?_⟩, by simp [g1, ← hc, hs]⟩
    rw [g1] at hx
    cases hx
    rw [g2]; simpa using d2 d hs

theorem captureTerm_disc (T : Tables) (urlOk : List Nat → Bool) (e : End) (legacy : Bool) (pos : Pos)
    (s : S) (inp : List RP) (v : Term (List Nat) × Option SRange) (s' : S) (rest input : List RP)
    (cap : Bool)
    (h : NQO.captureTerm T urlOk e legacy pos none s inp = .ok v s' rest)
    (hd : Disc input s inp) (hc : s.doc.isSome = cap) :
    Disc input s' rest ∧ s'.doc.isSome = cap ∧ SlotOK T urlOk input cap pos v.1 v.2 := by
  obtain ⟨ws, tok, h1, h2, h3, h4, h5, h6⟩ := captureTerm_spec T urlOk e legacy pos none s inp v s' rest h
  obtain ⟨d1, d2⟩ := hd
  cases hs : s.doc with
  | none =>
    obtain ⟨g1, g2⟩ := h4 hs
    have hcap : cap = false := by simp [← hc, hs]
    refine ⟨⟨by omega, fun x hx => by simp [g1] at hx⟩, by simp [g1, hcap], ?_⟩
    simp [SlotOK, hcap, g2]
  | some d =>
    obtain ⟨fr, un, g1, g2, g3, g4⟩ := h5 d hs
    have hcap : cap = true := by simp [← hc, hs]
    have hin := d2 d hs
    simp only [Option.getD_none, List.reverse_nil, List.append_nil] at g3
    refine ⟨⟨by omega, fun x hx => ?_⟩, by simp [g2, hcap], ?_⟩
    · rw [g2] at hx; cases hx
      rw [g4, g3, ← hin, h1]; simp
    · simp only [SlotOK, hcap, if_true]
      refine ⟨(fr, un), g1, histRunes d ++ ws, tok, rest, ?_, g3, by rw [g4, g3], h2, h6⟩
      rw [← hin, h1]; simp

theorem statement_spec (T : Tables) (urlOk : List Nat → Bool) (e : End) (legacy quads : Bool) (s : S)
    (inp : List RP) (q : Quad (List Nat)) (rg : Ranges) (s' : S) (rest input : List RP) (cap : Bool)
    (h : NQO.statement T urlOk e legacy quads s inp = .quad q rg s' rest)
    (hd : Disc input s inp) (hc : s.doc.isSome = cap) :
    Disc input s' rest ∧ s'.doc.isSome = cap ∧ StmtOK T urlOk input cap q rg := by
  unfold NQO.statement at h
  split at h
  · split at h <;> simp at h
  · next s0 inp0 hsk =>
    obtain ⟨d0, c0⟩ := (skipToStmt_stmt T e none s inp s0 inp0 hsk).disc hd hc
    split at h
    · simp at h
    · next sv s1 r1 h1 =>
      obtain ⟨d1, c1, k1⟩ := captureTerm_disc T urlOk e legacy _ _ _ _ _ _ input cap h1 d0 c0
      split at h
      · simp at h
      · next pv s2 r2 h2 =>
        obtain ⟨d2, c2, k2⟩ := captureTerm_disc T urlOk e legacy _ _ _ _ _ _ input cap h2 d1 c1
        split at h
        · simp at h
        · next ov s3 r3 h3 =>
          obtain ⟨d3, c3, k3⟩ := captureTerm_disc T urlOk e legacy _ _ _ _ _ _ input cap h3 d2 c2
          split at h
          · split at h
            · simp at h
            · next s4 r4 h4 =>
              obtain ⟨d4, c4⟩ := (afterObject_spec T e none s3 r3 _ s4 r4 h4).disc d3 c3
              simp only [NQO.Step.quad.injEq] at h
              obtain ⟨rfl, rfl, rfl, rfl⟩ := h
              exact ⟨d4, c4, k1, k2, k3, rfl⟩
            · next gx s4 r4 h4 =>
              obtain ⟨d4, c4⟩ := (afterObject_spec T e none s3 r3 _ s4 r4 h4).disc d3 c3
              split at h
              · simp at h
              · next gv s5 r5 h5 =>
                obtain ⟨d5, c5, k5⟩ := captureTerm_disc T urlOk e legacy _ _ _ _ _ _ input cap h5 d4 c4
                split at h
                · simp at h
                · next s6 r6 h6 =>
                  obtain ⟨d6, c6⟩ := (expectDot_spec T e none s5 r5 _ s6 r6 h6).disc d5 c5
                  simp only [NQO.Step.quad.injEq] at h
                  obtain ⟨rfl, rfl, rfl, rfl⟩ := h
                  exact ⟨d6, c6, k1, k2, k3, k5⟩
          · split at h
            · simp at h
            · next s4 r4 h4 =>
              obtain ⟨d4, c4⟩ := (expectDot_spec T e none s3 r3 _ s4 r4 h4).disc d3 c3
              simp only [NQO.Step.quad.injEq] at h
              obtain ⟨rfl, rfl, rfl, rfl⟩ := h
              exact ⟨d4, c4, k1, k2, k3, rfl⟩

theorem statement_done (T : Tables) (urlOk : List Nat → Bool) (e : End) (legacy quads : Bool) (s : S)
    (inp : List RP) (s' : S) (input : List RP) (cap : Bool)
    (h : NQO.statement T urlOk e legacy quads s inp = .done s')
    (hd : Disc input s inp) (hc : s.doc.isSome = cap) :
    Disc input s' [] ∧ s'.doc.isSome = cap := by
  unfold NQO.statement at h
  split at h
  · next s0 hsk =>
    cases e with
    | ioerr => simp at h
    | eof =>
      simp only [NQO.Step.done.injEq] at h
      subst h
      exact (skipToStmt_ended T none s inp s0 hsk).disc hd hc
  · exfalso
    repeat' split at h
    all_goals simp at h

theorem next_quad (T : Tables) (urlOk : List Nat → Bool) (e : End) (legacy quads started : Bool)
    (s : S) (inp : List RP) (q : Quad (List Nat)) (rg : Ranges) (s' : S) (rest input : List RP)
    (cap : Bool)
    (h : NQO.next T urlOk e legacy quads started s inp = .quad q rg s' rest)
    (hd : Disc input s inp) (hc : s.doc.isSome = cap) :
    Disc input s' rest ∧ s'.doc.isSome = cap ∧ StmtOK T urlOk input cap q rg := by
  unfold NQO.next at h
  split at h
  · split at h
    · simp at h
    · simp at h
    · next s1 r1 ht =>
      obtain ⟨d1, c1⟩ := (toEOL_start T e none s inp s1 r1 ht).disc hd hc
      exact statement_spec T urlOk e legacy quads s1 r1 q rg s' rest input cap h d1 c1
  · exact statement_spec T urlOk e legacy quads s inp q rg s' rest input cap h hd hc

theorem next_done (T : Tables) (urlOk : List Nat → Bool) (e : End) (legacy quads started : Bool)
    (s : S) (inp : List RP) (s' : S) (input : List RP) (cap : Bool)
    (h : NQO.next T urlOk e legacy quads started s inp = .done s')
    (hd : Disc input s inp) (hc : s.doc.isSome = cap) :
    Disc input s' [] ∧ s'.doc.isSome = cap := by
  unfold NQO.next at h
  split at h
  · split at h
    · next s1 ht =>
      simp only [NQO.Step.done.injEq] at h
      subst h
      exact (toEOL_done T e none s inp s1 ht).disc hd hc
    · simp at h
    · next s1 r1 ht =>
      obtain ⟨d1, c1⟩ := (toEOL_start T e none s inp s1 r1 ht).disc hd hc
      exact statement_done T urlOk e legacy quads s1 r1 s' input cap h d1 c1
  · exact statement_done T urlOk e legacy quads s inp s' input cap h hd hc

end RdfModel.Proofs.C16
