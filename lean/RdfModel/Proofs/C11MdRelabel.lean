/-
  Proofs/C11MdRelabel — `relabel` numbers the nodes 0,1,2,… in document order and changes nothing else.
-/
import RdfModel.Proofs.C11MdSteps
namespace RdfModel.Mdd
open RdfModel RdfModel.Desc

mutual
theorem relabel_ids : ∀ (n : Nat) (t : Node),
    (subnodes (relabelFrom n t).1).map Node.id = List.range' n (subnodes t).length ∧
    (relabelFrom n t).2 = n + (subnodes t).length
  | n, .mk i ty ns a d as ks => by
    have ih := relabelL_ids (n + 1) ks
    simp only [relabelFrom, subnodes, List.map_cons, Node.id, List.length_cons]
    refine ⟨?_, ?_⟩
    · rw [ih.1]; simp [List.range'_succ]
    · rw [ih.2]; omega
theorem relabelL_ids : ∀ (n : Nat) (ks : List Node),
    (subnodesL (relabelL n ks).1).map Node.id = List.range' n (subnodesL ks).length ∧
    (relabelL n ks).2 = n + (subnodesL ks).length
  | n, [] => by simp [relabelL, subnodesL]
  | n, k :: ks => by
    have ih1 := relabel_ids n k
    have ih2 := relabelL_ids (relabelFrom n k).2 ks
    simp only [relabelL, subnodesL, List.map_append, List.length_append]
    refine ⟨?_, ?_⟩
    · rw [ih1.1, ih2.1, ih1.2]
      rw [List.range'_append_1]
    · rw [ih2.2, ih1.2]; omega
end

mutual
theorem relabel_attrs : ∀ (n : Nat) (t : Node),
    (subnodes (relabelFrom n t).1).map Node.attrs = (subnodes t).map Node.attrs ∧
    height (relabelFrom n t).1 = height t
  | n, .mk i ty ns a d as ks => by
    have ih := relabelL_attrs (n + 1) ks
    simp only [relabelFrom, subnodes, List.map_cons, Node.attrs, height]
    exact ⟨by rw [ih.1], by rw [ih.2]⟩
theorem relabelL_attrs : ∀ (n : Nat) (ks : List Node),
    (subnodesL (relabelL n ks).1).map Node.attrs = (subnodesL ks).map Node.attrs ∧
    heightL (relabelL n ks).1 = heightL ks
  | n, [] => by simp [relabelL, subnodesL, heightL]
  | n, k :: ks => by
    have ih1 := relabel_attrs n k
    have ih2 := relabelL_attrs (relabelFrom n k).2 ks
    simp only [relabelL, subnodesL, List.map_append, heightL]
    exact ⟨by rw [ih1.1, ih2.1], by rw [ih1.2, ih2.2]⟩
end

theorem relabel_size (t : Node) : (subnodes (relabel t)).length = (subnodes t).length := by
  have := congrArg List.length (relabel_attrs 0 t).1
  simpa [relabel] using this

theorem relabel_height (t : Node) : height (relabel t) = height t := (relabel_attrs 0 t).2

theorem relabel_refTokens (t : Node) : refTokens (relabel t) = refTokens t := by
  unfold refTokens
  have h : ∀ l : List Node, l.map refTok = (l.map Node.attrs).map (fun a => (fields (trimSpace (scanAttrs a {}).itemref)).length) := by
    intro l; simp [refTok, Function.comp_def]
  rw [h, h, relabel, (relabel_attrs 0 t).1]

/-- after `relabel`, distinct nodes have distinct identities -/
theorem relabel_nodup (t : Node) : ((subnodes (relabel t)).map Node.id).Nodup := by
  rw [relabel, (relabel_ids 0 t).1]
  exact List.nodup_range'

end RdfModel.Mdd
