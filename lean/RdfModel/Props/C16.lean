/-
  Property C16 — captured text offsets point at the text the term was read from
  (N-Triples and N-Quads decoders; theorems only, proofs in RdfModel/Proofs/C16*.lean).

  Models: `Model.NQOffsets` (namespace `NQO`, the decoder with Go's commit bookkeeping),
  `Model.TextWriter` (namespace `TW`, `cursorio.TextWriter`), base decoder `Model.NQuads` (`NQ`).
  Input of the instrumented decoder: decoded runes `(code point, byte size)` as `RuneBuffer.NextRune`
  yields them (an ill-formed byte is `(0xFFFD, 1)`); `runes inp` are the code points, `size inp` the
  number of bytes.  All theorems hold for every input, both packages (`quads`), both stream endings
  (`e`), every URL acceptance function, every table set `T` (the two table facts `PnFacts` are
  needed by `token_reparses` only and are proved for the regenerated tables below), every initial
  offset `init` and every grapheme-cluster counter `cols` (columns: see `offsets_exact`).

  `legacy = false` is the repaired code (patch nqoff-fix-literal-suffix-error-offset); all theorems
  except `error_offsets_inside` hold for both values.
-/
import RdfModel.Props.C16Defs
import RdfModel.Proofs.C16
import RdfModel.Gen.NQTables
namespace RdfModel.C16
open RdfModel RdfModel.NQ RdfModel.TW RdfModel.NQO

/-- **Offsets do not change the statements.** The instrumented run — capture on or off, any
    history — yields exactly the statements and the verdict of the base model `NQ.run` on the code
    points. In particular turning capture on changes nothing (`capture_irrelevant`). -/
theorem offsets_do_not_change_statements (T : Tables) (urlOk : List Nat → Bool) (e : End)
    (legacy quads capture : Bool) (inp : List RP) :
    ((NQO.run T urlOk e legacy quads capture inp).stmts.map Prod.fst,
      (NQO.run T urlOk e legacy quads capture inp).verdict) = NQ.run T urlOk e quads (runes inp) :=
  Proofs.C16.run_refines T urlOk e legacy quads capture inp

theorem capture_irrelevant (T : Tables) (urlOk : List Nat → Bool) (e : End) (legacy quads : Bool)
    (inp : List RP) :
    ((NQO.run T urlOk e legacy quads true inp).stmts.map Prod.fst,
      (NQO.run T urlOk e legacy quads true inp).verdict)
    = ((NQO.run T urlOk e legacy quads false inp).stmts.map Prod.fst,
      (NQO.run T urlOk e legacy quads false inp).verdict) := by
  rw [offsets_do_not_change_statements, offsets_do_not_change_statements]

/-- Without capture no range is reported. -/
theorem no_ranges_without_capture (T : Tables) (urlOk : List Nat → Bool) (e : End)
    (legacy quads : Bool) (inp : List RP) (q : Quad (List Nat)) (rg : Ranges)
    (hmem : (q, rg) ∈ (NQO.run T urlOk e legacy quads false inp).stmts) :
    rg.s = none ∧ rg.p = none ∧ rg.o = none ∧ rg.g = none :=
  Proofs.C16.slots_none T urlOk inp q rg (Proofs.C16.run_stmts_ok T urlOk e legacy quads false inp _ hmem)

/-- **Commit discipline.** After any number `n` of `Next()` calls that have not failed: the rune
    buffer's byte offset is the size of the consumed prefix, capture mode is what was configured, and
    the runes committed to the writer — all chunks, in order — followed by the unread input are
    exactly the input: every consumed rune has been committed exactly once, in order, nothing else. -/
theorem commit_discipline (T : Tables) (urlOk : List Nat → Bool) (e : End) (legacy quads capture : Bool)
    (inp : List RP) (n : Nat) (d : NQO.Dec)
    (hd : d = NQO.Dec.nextN T urlOk e legacy quads n (NQO.Dec.init capture inp))
    (herr : d.err = none) :
    d.s.bo + size d.inp = size inp ∧ d.s.doc.isSome = capture ∧
    ∀ h, d.s.doc = some h → histRunes h ++ d.inp = inp := by
  subst hd
  obtain ⟨⟨h1, h2⟩, h3⟩ := Proofs.C16.decInv_nextN T urlOk e legacy quads inp capture n _
    (Proofs.C16.decInv_init capture inp) herr
  exact ⟨h1, h3, h2⟩

/-- … so the writer's byte offset is the initial byte offset plus the size of the consumed prefix,
    and its line the initial line plus the number of LF consumed (any cluster counter). -/
theorem commit_discipline_offset (T : Tables) (urlOk : List Nat → Bool) (e : End)
    (legacy quads capture : Bool) (inp : List RP) (n : Nat) (cols : List Nat → Nat) (init : Offset)
    (d : NQO.Dec) (hd : d = NQO.Dec.nextN T urlOk e legacy quads n (NQO.Dec.init capture inp))
    (herr : d.err = none) (h : Hist) (hh : d.s.doc = some h) :
    (histOffset cols init h).byte + size d.inp = init.byte + size inp ∧
    (histOffset cols init h).line + countLF d.inp = init.line + countLF inp := by
  obtain ⟨_, _, h3⟩ := commit_discipline T urlOk e legacy quads capture inp n d hd herr
  have := h3 h hh
  rw [Proofs.C16.histOffset_byte, Proofs.C16.histOffset_line, ← this,
    Proofs.C16.size_append, Proofs.C16.countLF_append]
  omega

/-- At a clean end of the document everything has been consumed and committed. -/
theorem commit_discipline_final (T : Tables) (urlOk : List Nat → Bool) (e : End)
    (legacy quads : Bool) (inp : List RP) (s' : S)
    (hf : (NQO.run T urlOk e legacy quads true inp).final = some s') :
    ∃ h, s'.doc = some h ∧ histRunes h = inp := by
  obtain ⟨⟨_, h2⟩, h3⟩ := Proofs.C16.runFuel_final T urlOk e legacy quads inp _ false _ inp s'
    (Proofs.C16.disc_init true inp) hf
  cases hd : s'.doc with
  | none => simp [hd, S.init] at h3
  | some h => exact ⟨h, rfl, by simpa using h2 h hd⟩

/-- **Offsets are exact.** With capture on, every statement of a run has a range for subject,
    predicate and object, and one for the graph name exactly when it has a graph name; each range
    delimits a segment `tok` of the input (`inp = pre ++ tok ++ post`) that is a token of the term
    (`TokenOf`: `<…>`, exactly `_:label`, `"…"`, `"…"@tag` with exactly the tag, `"…"^^<…>`), and
    the reported offsets are the positions of that segment (`RangeAt`): byte = initial byte + bytes
    before the segment (resp. up to its end), line = initial line + LFs before it, for *every*
    cluster counter; and equal to the position computed from the text, column included
    (`TW.posAfter`), whenever the text up to the end of the token is `TW.simple` and the counter
    counts one cluster per rune on simple text (`ColsSimple`, e.g. `onePer`). -/
theorem offsets_exact (T : Tables) (urlOk : List Nat → Bool) (e : End) (legacy quads : Bool)
    (cols : List Nat → Nat) (init : Offset) (inp : List RP) (q : Quad (List Nat)) (rg : Ranges)
    (hmem : (q, rg) ∈ (NQO.run T urlOk e legacy quads true inp).stmts) :
    (q.g = none → rg.g = none) ∧
    ∀ x ∈ slots q rg, ∃ fr un pre tok post, x.2.2 = some (fr, un) ∧ inp = pre ++ tok ++ post ∧
      TokenOf x.2.1 (runes tok) ∧
      RangeAt cols init pre tok (histOffset cols init fr) (histOffset cols init un) := by
  have hok := Proofs.C16.run_stmts_ok T urlOk e legacy quads true inp _ hmem
  refine ⟨fun hg => by have := hok.2.2.2; simpa [hg] using this, fun x hx => ?_⟩
  obtain ⟨r, hr, pre, tok, post, h1, h2, h3, h4, _⟩ := Proofs.C16.slots_ok T urlOk inp q rg hok x hx
  exact ⟨r.1, r.2, pre, tok, post, hr, h1, h4, Proofs.C16.rangeAt_of cols init r.1 r.2 pre tok h2 h3⟩

/-- Consequence: every reported range lies inside the document, start not after end. -/
theorem offsets_inside (T : Tables) (urlOk : List Nat → Bool) (e : End) (legacy quads : Bool)
    (cols : List Nat → Nat) (init : Offset) (inp : List RP) (q : Quad (List Nat)) (rg : Ranges)
    (hmem : (q, rg) ∈ (NQO.run T urlOk e legacy quads true inp).stmts) :
    ∀ x ∈ slots q rg, ∃ r, x.2.2 = some r ∧
      init.byte ≤ (evalRange cols init r).1.byte ∧
      (evalRange cols init r).1.byte ≤ (evalRange cols init r).2.byte ∧
      (evalRange cols init r).2.byte ≤ init.byte + size inp ∧
      (evalRange cols init r).1.line ≤ (evalRange cols init r).2.line := by
  intro x hx
  obtain ⟨fr, un, pre, tok, post, h1, h2, _, h4, h5, h6, h7, _⟩ :=
    (offsets_exact T urlOk e legacy quads cols init inp q rg hmem).2 x hx
  have hs := congrArg size h2
  simp only [Proofs.C16.size_append] at hs
  exact ⟨(fr, un), h1, by simp only [evalRange]; omega, by simp only [evalRange]; omega,
    by simp only [evalRange]; omega, by simp only [evalRange]; omega⟩

/-- **Initial offset.** Everything a run reports with a writer started at `o` is what it reports
    with a writer started at zero, translated by `o`: bytes and lines add; the column adds `o.col`
    only on the first line (`line = 0` in the zero-based run), later lines are unaffected because a
    line feed resets the column (`TW.shift`). A bare byte offset in an error (capture off) is not
    translated. Holds for every cluster counter, every outcome `out` (so also for every run). -/
theorem offsets_shift (cols : List Nat → Nat) (o : Offset) (out : Out) :
    report cols o out = shiftReport o (report cols zero out) :=
  Proofs.C16.report_shift cols o out

/-- **Tokens re-parse.** The base decoder, started at the position of the slot (subject, predicate,
    object; the graph name is read by the subject routine), reads the segment of a reported range,
    followed by a space and anything, back to the same term, leaving the space and the rest. -/
theorem token_reparses (T : Tables) (hT : PnFacts T) (urlOk : List Nat → Bool) (e : End)
    (legacy quads : Bool) (inp : List RP) (q : Quad (List Nat)) (rg : Ranges)
    (hmem : (q, rg) ∈ (NQO.run T urlOk e legacy quads true inp).stmts) :
    ∀ x ∈ slots q rg, ∃ fr un pre tok post, x.2.2 = some (fr, un) ∧ inp = pre ++ tok ++ post ∧
      histRunes fr = pre ∧ histRunes un = pre ++ tok ∧
      ∀ e' y, NQ.captureTerm T urlOk e' x.1 false (runes tok ++ 0x20 :: y) = .ok x.2.1 (0x20 :: y) := by
  intro x hx
  have hok := Proofs.C16.run_stmts_ok T urlOk e legacy quads true inp _ hmem
  obtain ⟨r, hr, pre, tok, post, h1, h2, h3, _, h5⟩ := Proofs.C16.slots_ok T urlOk inp q rg hok x hx
  exact ⟨r.1, r.2, pre, tok, post, hr, h1, h2, h3, h5 hT⟩

/-- **Error offsets lie inside the document** (repaired code): the offset or offset range attached
    to the error of a run refers to byte positions between the initial byte offset and the initial
    byte offset plus the input length; a bare byte offset (capture off) is at most the input length. -/
theorem error_offsets_inside (T : Tables) (urlOk : List Nat → Bool) (e : End) (quads capture : Bool)
    (cols : List Nat → Nat) (init : Offset) (inp : List RP) :
    ErrInside init (size inp) (evalEOff cols init (NQO.run T urlOk e false quads capture inp).eoff) :=
  Proofs.C16.errInside_of_bound cols init _ _
    (Proofs.C16.runFuel_err_bound T urlOk e quads inp _ false _ inp (Proofs.C16.disc_init capture inp))

/-! ### The table facts for the tables regenerated from /repo on this run -/

theorem gen_nquads_pn : PnFacts Gen.nquads := ⟨by decide, by decide⟩
theorem gen_ntriples_pn : PnFacts Gen.ntriples := ⟨by decide, by decide⟩

/-! ### The defect repaired by `nqoff-fix-literal-suffix-error-offset` (kept as a witness)

`<a:s> <a:p> "abcdefgh"^` (23 bytes, input ends after the first `^`): before the repair
`captureOpenLiteral` passed the already committed quoted string once more as "uncommitted" runes to
`newOffsetError`; the reported offset is byte 33, ten bytes beyond the end of the document.
Replayed on the Go code (same values) before the repair. -/

def legacyWitness : List RP := (asc "<a:s> <a:p> \"abcdefgh\"^").map (fun c => (c, 1))

/-- `error_offsets_inside` is false for the unrepaired code (`legacy = true`). -/
theorem error_offsets_inside_fails_legacy :
    size legacyWitness = 23 ∧
    evalEOff onePer zero (NQO.run Gen.nquads (fun _ => true) .eof true true true legacyWitness).eoff
      = .text ⟨33, 0, 33⟩ ∧
    ¬ ErrInside zero (size legacyWitness)
      (evalEOff onePer zero (NQO.run Gen.nquads (fun _ => true) .eof true true true legacyWitness).eoff) := by
  decide

/-- … and the repaired code reports the end of the input. -/
example : evalEOff onePer zero (NQO.run Gen.nquads (fun _ => true) .eof false true true legacyWitness).eoff
    = .text ⟨23, 0, 23⟩ := by decide

/-! ### Non-vacuity -/

/-- A two-line N-Quads document: a language-tagged literal, a graph name, a comment, a two-byte rune
    (é) in an IRI, a blank node label directly followed by the final `.` (trailing-dot back-off). -/
def witnessDoc : List RP :=
  (asc "<a:s> <a:p> \"x\"@en <a:g> . # c\n_:b <a:").map (fun c => (c, 1)) ++ [(0xe9, 2)] ++
    (asc "> _:c.\n").map (fun c => (c, 1))

/-- The hypotheses of `offsets_exact` / `token_reparses` are satisfiable: the run yields two
    statements, the first with a graph range. -/
example : ((NQO.run Gen.nquads (fun _ => true) .eof false true true witnessDoc).stmts.map
    (fun x => (x.2.s.isSome, x.2.g.isSome))) = [(true, true), (true, false)] := by decide

/-- … and the concrete ranges of the second statement: predicate `<a:é>` = bytes 35–41 (six bytes)
    but columns 4–9 (five runes) of line 1; object `_:c` = bytes 42–45, the `.` after the label is
    not part of it. -/
example : ((NQO.run Gen.nquads (fun _ => true) .eof false true true witnessDoc).stmts.map
    (fun x => (x.2.p.map (evalRange onePer zero), x.2.o.map (evalRange onePer zero)))).getLast? =
    some (some (⟨35, 1, 4⟩, ⟨41, 1, 9⟩), some (⟨42, 1, 10⟩, ⟨45, 1, 13⟩)) := by decide

/-- `ColsSimple` is satisfied by the counter the driver uses, and the witness document is simple. -/
example : ColsSimple onePer ∧ simple (runes witnessDoc) = true := ⟨onePer_simple, by decide⟩

end RdfModel.C16
