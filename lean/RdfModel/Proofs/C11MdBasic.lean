/-
  Proofs/C11MdBasic — tree lemmas and frame lemmas for Model/MicrodataDecoder (part C11MD).
-/
import RdfModel.Model.MicrodataDecoder
namespace RdfModel.Mdd
open RdfModel RdfModel.Desc

/-! ## trees -/

theorem node_eta (n : Node) : n = .mk n.id n.typ n.ns n.atom n.data n.attrs n.kids := by
  cases n; rfl

theorem subnodes_eq (n : Node) : subnodes n = n :: subnodesL n.kids := by
  cases n; simp [subnodes, Node.kids]

theorem self_mem (n : Node) : n ∈ subnodes n := by
  rw [subnodes_eq]; simp

theorem mem_subnodesL {ks : List Node} {x : Node} : x ∈ subnodesL ks ↔ ∃ k ∈ ks, x ∈ subnodes k := by
  induction ks with
  | nil => simp [subnodesL]
  | cons k ks ih => simp [subnodesL, ih]

theorem kid_mem {n c : Node} (h : c ∈ n.kids) : c ∈ subnodes n := by
  rw [subnodes_eq]; simp only [List.mem_cons]; right
  exact mem_subnodesL.mpr ⟨c, h, self_mem c⟩

mutual
theorem sub_trans : ∀ (d m x : Node), m ∈ subnodes d → x ∈ subnodes m → x ∈ subnodes d
  | .mk i t n a dd as ks, m, x, hm, hx => by
    rw [subnodes_eq] at hm
    simp only [List.mem_cons] at hm
    rcases hm with rfl | hm
    · exact hx
    · rw [subnodes_eq]; simp only [List.mem_cons]; right
      exact sub_transL ks m x hm hx
theorem sub_transL : ∀ (ks : List Node) (m x : Node), m ∈ subnodesL ks → x ∈ subnodes m → x ∈ subnodesL ks
  | [], m, x, hm, _ => by simp [subnodesL] at hm
  | k :: ks, m, x, hm, hx => by
    simp only [subnodesL, List.mem_append] at hm ⊢
    rcases hm with hm | hm
    · left; exact sub_trans k m x hm hx
    · right; exact sub_transL ks m x hm hx
end

theorem kid_sub {d m c : Node} (hm : m ∈ subnodes d) (hc : c ∈ m.kids) : c ∈ subnodes d :=
  sub_trans d m c hm (kid_mem hc)

theorem height_eq (n : Node) : height n = heightL n.kids + 1 := by
  cases n; simp [height, Node.kids]

theorem heightL_le {ks : List Node} {c : Node} (h : c ∈ ks) : height c ≤ heightL ks := by
  induction ks with
  | nil => simp at h
  | cons k ks ih =>
    simp only [heightL]
    simp only [List.mem_cons] at h
    rcases h with rfl | h
    · exact Nat.le_max_left _ _
    · exact Nat.le_trans (ih h) (Nat.le_max_right _ _)

theorem height_kid {n c : Node} (h : c ∈ n.kids) : height c + 1 ≤ height n := by
  rw [height_eq n]; exact Nat.succ_le_succ (heightL_le h)

mutual
theorem height_sub : ∀ (d m : Node), m ∈ subnodes d → height m ≤ height d
  | .mk i t n a dd as ks, m, hm => by
    rw [subnodes_eq] at hm
    simp only [List.mem_cons] at hm
    rcases hm with rfl | hm
    · exact Nat.le_refl _
    · rw [height_eq (.mk i t n a dd as ks)]
      exact Nat.le_succ_of_le (height_subL ks m hm)
theorem height_subL : ∀ (ks : List Node) (m : Node), m ∈ subnodesL ks → height m ≤ heightL ks
  | [], m, hm => by simp [subnodesL] at hm
  | k :: ks, m, hm => by
    simp only [subnodesL, List.mem_append] at hm
    simp only [heightL]
    rcases hm with hm | hm
    · exact Nat.le_trans (height_sub k m hm) (Nat.le_max_left _ _)
    · exact Nat.le_trans (height_subL ks m hm) (Nat.le_max_right _ _)
end

mutual
theorem size_sub : ∀ (d m : Node), m ∈ subnodes d → (subnodes m).length ≤ (subnodes d).length
  | .mk i t n a dd as ks, m, hm => by
    rw [subnodes_eq] at hm
    simp only [List.mem_cons] at hm
    rcases hm with rfl | hm
    · exact Nat.le_refl _
    · rw [subnodes_eq (.mk i t n a dd as ks)]
      simp only [List.length_cons]
      exact Nat.le_succ_of_le (size_subL ks m hm)
theorem size_subL : ∀ (ks : List Node) (m : Node), m ∈ subnodesL ks → (subnodes m).length ≤ (subnodesL ks).length
  | [], m, hm => by simp [subnodesL] at hm
  | k :: ks, m, hm => by
    simp only [subnodesL, List.mem_append, List.length_append] at hm ⊢
    rcases hm with hm | hm
    · exact Nat.le_trans (size_sub k m hm) (Nat.le_add_right _ _)
    · exact Nat.le_trans (size_subL ks m hm) (Nat.le_add_left _ _)
end

theorem findId_mem {d t : Node} {id : Bytes} (h : findId d id = some t) : t ∈ subnodes d :=
  List.mem_of_find?_eq_some h

/-! ## the itemtype tokenizer never yields an empty token (Go's `panic("should not have found an empty match")`
    is unreachable) -/

theorem flush_ne (acc : Bytes) : ∀ tok ∈ flush acc, tok ≠ [] := by
  intro tok h
  unfold flush at h
  split at h
  · simp at h
  · rename_i hne
    simp only [List.mem_singleton] at h
    subst h
    intro h0
    apply hne
    have : acc = [] := by simpa using h0
    simp [this]

theorem typeTokensGo_ne (s acc : Bytes) : ∀ tok ∈ typeTokensGo s acc, tok ≠ [] := by
  induction s generalizing acc with
  | nil => simpa [typeTokensGo] using flush_ne acc
  | cons c r ih =>
    intro tok h
    unfold typeTokensGo at h
    split at h
    · simp only [List.mem_append] at h
      rcases h with h | h
      · exact flush_ne acc tok h
      · exact ih [] tok h
    · exact ih _ tok h

theorem typeTokens_ne (s : Bytes) : ∀ tok ∈ typeTokens s, tok ≠ [] := typeTokensGo_ne s []

/-! ## frame lemmas: what the emitting steps leave alone -/

@[simp] theorem emit_resolved (st : St) (t : Stmt) : (st.emit t).resolved = st.resolved := rfl
@[simp] theorem emit_steps (st : St) (t : Stmt) : (st.emit t).steps = st.steps := rfl
@[simp] theorem emit_expansions (st : St) (t : Stmt) : (st.emit t).expansions = st.expansions := rfl
@[simp] theorem emit_bad (st : St) (t : Stmt) : (st.emit t).bad = st.bad := rfl
@[simp] theorem emit_nextBn (st : St) (t : Stmt) : (st.emit t).nextBn = st.nextBn := rfl
@[simp] theorem emit_out (st : St) (t : Stmt) : (st.emit t).out = t :: st.out := rfl

/-- the fields of the state other than `out` (and `hooks`) -/
structure Skel where
  resolved : List (Nat × Subj)
  nextBn : Nat
  steps : Nat
  expansions : Nat
  bad : Option Bad
  copies : Nat
  deriving DecidableEq

def St.skel (st : St) : Skel := ⟨st.resolved, st.nextBn, st.steps, st.expansions, st.bad, st.copies⟩

theorem skel_emit (st : St) (t : Stmt) : (st.emit t).skel = st.skel := rfl

theorem emitAll_skel (s : Subj) (o : Term Nat) (ps : List Bytes) (st : St) : (emitAll s o ps st).skel = st.skel := by
  induction ps generalizing st with
  | nil => rfl
  | cons p ps ih => simp [emitAll, ih, skel_emit]

theorem linkItem_skel (E : Env) (ctx : Ctx) (a : ItemAttrs) (next : Subj) (st : St) :
    (linkItem E ctx a next st).skel = st.skel := by
  unfold linkItem
  split
  · split
    · rfl
    · exact emitAll_skel ..
  · rfl

theorem propElem_skel (E : Env) (ctx : Ctx) (n : Node) (a : ItemAttrs) (st : St) :
    (propElem E ctx n a st).skel = st.skel := by
  unfold propElem
  split
  · split
    · rfl
    · simp only
      rw [emitAll_skel]
      split <;> rfl
  · rfl

theorem emitTypes_skel (E : Env) (s : Subj) (toks : List Bytes) (st : St) (h : ∀ tok ∈ toks, tok ≠ []) :
    (emitTypes E s toks st).2.skel = st.skel := by
  induction toks generalizing st with
  | nil => rfl
  | cons tok rest ih =>
    unfold emitTypes
    have hne : tok ≠ [] := h tok (by simp)
    have : tok.isEmpty = false := by cases tok <;> simp_all
    simp only [this]
    simp only [Bool.false_eq_true, ↓reduceIte]
    rw [ih _ (fun t ht => h t (by simp [ht]))]
    rfl

theorem itemSubject_skel (E : Env) (a : ItemAttrs) (r : Option Subj) (st : St) :
    (itemSubject E a r st).2.resolved = st.resolved ∧ (itemSubject E a r st).2.steps = st.steps ∧
    (itemSubject E a r st).2.expansions = st.expansions ∧ (itemSubject E a r st).2.bad = st.bad ∧
    (itemSubject E a r st).2.out = st.out := by
  unfold itemSubject
  split
  · simp
  · split <;> simp

theorem skel_resolved {a b : St} (h : a.skel = b.skel) : a.resolved = b.resolved := congrArg Skel.resolved h
theorem skel_steps {a b : St} (h : a.skel = b.skel) : a.steps = b.steps := congrArg Skel.steps h
theorem skel_expansions {a b : St} (h : a.skel = b.skel) : a.expansions = b.expansions := congrArg Skel.expansions h
theorem skel_bad {a b : St} (h : a.skel = b.skel) : a.bad = b.bad := congrArg Skel.bad h
theorem skel_copies {a b : St} (h : a.skel = b.skel) : a.copies = b.copies := congrArg Skel.copies h

theorem itemSubject_copies (E : Env) (a : ItemAttrs) (r : Option Subj) (st : St) :
    (itemSubject E a r st).2.copies = st.copies := by
  unfold itemSubject
  split
  · simp
  · split <;> simp

/-- generic invariant lemma for the two `foldl` loops of `walk` -/
theorem foldl_inv {α : Type} (P : St → Prop) (f : St → α → St) (l : List α) (st : St) (h0 : P st)
    (hstep : ∀ s x, x ∈ l → P s → P (f s x)) : P (l.foldl f st) := by
  induction l generalizing st with
  | nil => exact h0
  | cons x xs ih =>
    simp only [List.foldl_cons]
    exact ih _ (hstep _ _ (by simp) h0) (fun s y hy hs => hstep s y (by simp [hy]) hs)

end RdfModel.Mdd
