package main

// Generators of the malformed / adversarial stream: token-level mutation from a per-format hot
// alphabet, grammar-directed deep nesting, huge tokens.

import (
	"bytes"
	"fmt"
	"strings"

	"verifharness/vh"
)

// hot alphabets: delimiters, keywords and attribute fragments each format's parser branches on
var hotJSONLD = []string{
	"{", "}", "[", "]", ":", ",", "\"", "\\", "null", "true", "false", "0", "-1", "1.5e300", "1e", "\"\"", " ", "\n", "\x00", "\xc3", "\xf0\x9f",
	"\"@context\"", "\"@id\"", "\"@type\"", "\"@value\"", "\"@language\"", "\"@direction\"", "\"@list\"", "\"@set\"", "\"@graph\"", "\"@reverse\"",
	"\"@index\"", "\"@nest\"", "\"@included\"", "\"@container\"", "\"@vocab\"", "\"@base\"", "\"@json\"", "\"@none\"", "\"@prefix\"", "\"@protected\"",
	"\"@propagate\"", "\"@import\"", "\"@version\"", "1.1", "\"@\"", "\"@foo\"", "\"_:b\"", "\"a:b\"", "\"http://e/\"", "\"ltr\"", "\"en\"", "\"@id\":null", "\"@type\":\"@id\"",
	"\"@type\":\"@json\"", "\"@type\":\"@vocab\"", "\"@container\":\"@list\"", "\"@container\":[\"@graph\",\"@id\"]", "\"@container\":\"@language\"", "\"@container\":\"@type\"",
	"\"@context\":null", "\"@context\":[]", "\"@context\":{}", "{\"@value\":null}", "{\"@list\":[]}", "{\"@id\":\"_:x\"}", "\\u0000", "\\ud800", "//", "/*", "'",
}
var hotJSON = []string{
	"{", "}", "[", "]", ":", ",", "\"", "\\", "null", "true", "false", "0", "1e9", "\"\"", " ", "\n", "\x00", "\xc3", "\"type\"", "\"value\"", "\"lang\"", "\"datatype\"",
	"\"uri\"", "\"literal\"", "\"bnode\"", "\"_:b\"", "\"http://e/\"", "\"rel\"", "\\u0000", "\\ud800", "//", "'",
}
var hotXML = []string{
	"<", ">", "/", "</", "/>", "=", "\"", "'", "&", ";", "&amp;", "&#0;", "&#x110000;", "&x;", "<!--", "-->", "<![CDATA[", "]]>", "<?xml version=\"1.0\"?>", "<?", "?>", "<!DOCTYPE x [<!ENTITY e \"v\">]>",
	" ", "\n", "\x00", "\xc3", "\xf0\x9f", ":", "xmlns", "xmlns:rdf=\"http://www.w3.org/1999/02/22-rdf-syntax-ns#\"", "xml:base=\"\"", "xml:base=\"http://b/\"", "xml:lang=\"en\"", "xml:lang=\"\"",
	"rdf:RDF", "rdf:Description", "rdf:about=\"\"", "rdf:about=\"a\"", "rdf:ID=\"i\"", "rdf:ID=\"1\"", "rdf:nodeID=\"n\"", "rdf:nodeID=\"\"", "rdf:resource=\"r\"", "rdf:datatype=\"d\"",
	"rdf:parseType=\"Resource\"", "rdf:parseType=\"Literal\"", "rdf:parseType=\"Collection\"", "rdf:parseType=\"x\"", "rdf:li", "rdf:_1", "rdf:type", "rdf:bagID=\"b\"", "rdf:aboutEach=\"a\"",
	"<rdf:Description>", "</rdf:Description>", "<rdf:li>", "</rdf:RDF>", "<a:b>", "<b/>", "rdf:about", "rdf:value=\"v\"", "a:b=\"c\"",
}
var hotHTML = []string{
	"<", ">", "/", "</", "/>", "=", "\"", "'", "&", ";", "&amp;", "&#0;", "<!--", "-->", "<!DOCTYPE html>", " ", "\n", "\x00", "\xc3", "\xf0\x9f",
	"\f", "\v", "&#12;", "\u0085", "<html>", "<html lang=\"en\">", "<head>", "</head>", "<body>", "</body>", "</html>", "<base href=\"http://b/\">", "<base href=\":\">", "<div>", "</div>", "<span>", "<p>", "<a href=\"x\">", "<table>", "<tr>", "<td>",
	"<template>", "</template>", "<svg>", "</svg>", "<math>", "<frameset>", "<select>", "<title>", "<link rel=\"x\" href=\"y\">", "<meta property=\"p\" content=\"c\">", "<time datetime=\"2001\">", "<img src=\"s\">",
	" vocab=\"http://v/\"", " vocab=\"\"", " prefix=\"p: http://p/\"", " prefix=\"p:\"", " typeof=\"T\"", " typeof=\"\"", " property=\"p:x\"", " property=\"\"", " rel=\"next\"", " rev=\"r\"", " resource=\"#r\"", " resource=\"[_:b]\"", " resource=\"[]\"",
	" about=\"\"", " about=\"_:\"", " about=\"[p:x]\"", " href=\"h\"", " src=\"s\"", " content=\"c\"", " datatype=\"\"", " datatype=\"rdf:XMLLiteral\"", " datatype=\"rdf:HTML\"", " datatype=\"xsd:date\"", " inlist", " inlist=\"\"", " lang=\"en\"", " xml:lang=\"fr\"", " xmlns:p=\"http://x/\"",
	" typeof=\"rdfa:Pattern\"", " property=\"rdfa:copy\"", " href=\"#id\"", " id=\"id\"", " role=\"r\"",
	" itemscope", " itemscope=\"\"", " itemtype=\"http://schema.org/T\"", " itemtype=\"\"", " itemtype=\"rel\"", " itemprop=\"a\"", " itemprop=\"a b\"", " itemprop=\"\"", " itemprop=\"http://x/p\"", " itemid=\"i\"", " itemid=\":\"", " itemref=\"id\"", " itemref=\"id id2\"", " itemref=\"\"",
	"<script type=\"application/ld+json\">", "</script>", "<script>", "{\"@id\":\"x\"}", "{\"@context\":", "<meta itemprop=\"m\" content=\"c\">", "<data itemprop=\"d\" value=\"v\">", "<meter itemprop=\"m\" value=\"1\">", "<object itemprop=\"o\" data=\"d\">",
}
var hotTurtle = []string{
	"<", ">", "\"", "'", "\"\"\"", "'''", "\\", " ", "\t", "\r", "\n", ".", ",", ";", ":", "@", "^^", "#", "-", "_:", "_", "[", "]", "(", ")", "{", "}", "a", "true", "false", "0", "1.", ".5", "1e", "1E+", "+", "%", "%4", "\\u", "\\U0010FFFF", "\\.", "\x00", "\xc3", "\xf0\x9f",
	"@prefix", "@base", "PREFIX", "BASE", "GRAPH", "@prefix p: <http://p/> .", "p:", "p:x", ":x", "p:\\.", "<http://e/>", "<rel>", "_:b", "\"x\"@en", "\"x\"^^<t>", "[]", "()", "[ p:x 1 ]", "( 1 2 )", "{ }", "@en-", "<<", ">>", "|",
}
var hotNQ = []string{"<", ">", "\"", "\\", " ", "\t", "\r", "\n", ".", "_", ":", "_:", "@", "^", "^^", "#", "-", "u", "U", "\\u0041", "\\U0010FFFF", "\\uD800", "{", "}", "|", "`", "\x00", "\x7f", "\xc3", "\xf0\x9f", "<http://e/>", "<rel>", "_:b", "\"x\"@en", "\"x\"^^<a:t>", "@en-"}

const (
	nsLangString    = "http://www.w3.org/1999/02/22-rdf-syntax-ns#langString"
	nsDirLangString = "http://www.w3.org/1999/02/22-rdf-syntax-ns#dirLangString"
)

// hotTyped: the datatype IRIs of (directional) language-tagged strings, written the way each format
// lets a document choose a datatype: a literal typed like that explicitly would have no tag (C06).
func hotTyped(format string) []string {
	switch format {
	case "jsonld", "htmljsonld":
		return []string{`"@type":"` + nsLangString + `"`, `"@type":"` + nsDirLangString + `"`, `{"@value":"x","@type":"` + nsLangString + `"}`, `"` + nsLangString + `"`}
	case "rdfjson":
		return []string{`"datatype":"` + nsLangString + `"`, `"datatype":"` + nsDirLangString + `"`}
	case "rdfxml":
		return []string{` rdf:datatype="` + nsLangString + `"`, ` rdf:datatype="` + nsDirLangString + `"`, ` rdf:ID=''`, ` rdf:ID = "1"`, ` rdf:nodeID='a b'`}
	case "ttl", "trig":
		return []string{`^^<` + nsLangString + `>`, `^^<` + nsDirLangString + `>`, `^^rdf:langString`, `"x"^^<` + nsLangString + `>`}
	case "nt", "nq":
		return []string{`^^<` + nsLangString + `>`, `^^<` + nsDirLangString + `>`, `"x"^^<` + nsDirLangString + `>`}
	}
	return []string{` datatype="rdf:langString"`, ` datatype="` + nsDirLangString + `"`, ` datatype="` + nsLangString + `" lang="en"`}
}

func hotFor(format string) []string {
	return append(append(hotOf(format), "\xef\xbb\xbf", "\u00a0", "\u2028"), hotTyped(format)...)
}

func hotOf(format string) []string {
	switch format {
	case "jsonld":
		return hotJSONLD
	case "rdfjson":
		return hotJSON
	case "rdfxml":
		return hotXML
	case "ttl", "trig":
		return hotTurtle
	case "nt", "nq":
		return hotNQ
	case "htmljsonld":
		return append(append([]string{}, hotHTML...), hotJSONLD...)
	}
	return hotHTML
}

// mutate applies 1..3 edits: insert / replace / delete / duplicate / swap spans / truncate, tokens from hot.
func mutate(r *vh.Rng, b []byte, hot []string) []byte {
	out := append([]byte(nil), b...)
	for i, n := 0, 1+r.Intn(3); i < n; i++ {
		if len(out) == 0 {
			out = append(out, vh.Pick(r, hot)...)
			continue
		}
		p := r.Intn(len(out) + 1)
		switch r.Intn(9) {
		case 0: // truncate
			out = out[:p]
		case 1: // delete a short span
			q := p + r.Intn(8)
			if q > len(out) {
				q = len(out)
			}
			out = append(out[:p:p], out[q:]...)
		case 2, 3: // insert hot token
			out = append(out[:p:p], append([]byte(vh.Pick(r, hot)), out[p:]...)...)
		case 4: // replace a span by a hot token
			q := p + 1 + r.Intn(6)
			if q > len(out) {
				q = len(out)
			}
			out = append(out[:p:p], append([]byte(vh.Pick(r, hot)), out[q:]...)...)
		case 5: // duplicate a span
			q := p + r.Intn(len(out)-p+1)
			if q-p > 256 {
				q = p + 256
			}
			out = append(out[:q:q], append(append([]byte(nil), out[p:q]...), out[q:]...)...)
		case 6: // random byte
			if p < len(out) {
				out[p] = byte(r.Intn(256))
			}
		case 7: // move a span elsewhere
			q := p + r.Intn(32)
			if q > len(out) {
				q = len(out)
			}
			span := append([]byte(nil), out[p:q]...)
			out = append(out[:p:p], out[q:]...)
			at := r.Intn(len(out) + 1)
			out = append(out[:at:at], append(span, out[at:]...)...)
		default: // delete up to the next delimiter
			q := p
			for q < len(out) && !strings.ContainsRune("<>{}[]\",;. \n", rune(out[q])) {
				q++
			}
			out = append(out[:p:p], out[q:]...)
		}
	}
	return out
}

// ---------------------------------------------------------------- nesting

type nestGen struct {
	Name   string
	F      func(depth int) []byte
	Params []int // when set: the parameters to use instead of the tier's depth list (all run in the quick tier)
}

func rep(s string, n int) string { return strings.Repeat(s, n) }

func itemrefClique(k int, itemid, itemprop bool) []byte {
	var sb strings.Builder
	sb.WriteString("<!DOCTYPE html><html><body>\n")
	for i := 0; i < k; i++ {
		var refs []string
		for j := 0; j < k; j++ {
			if j != i {
				refs = append(refs, fmt.Sprintf("i%d", j))
			}
		}
		fmt.Fprintf(&sb, `<div id="i%d" itemscope`, i)
		if itemid {
			fmt.Fprintf(&sb, ` itemid="http://example.com/%d"`, i)
		}
		if itemprop {
			sb.WriteString(` itemprop="p"`)
		}
		fmt.Fprintf(&sb, ` itemref="%s"><span itemprop="n">%d</span></div>`+"\n", strings.Join(refs, " "), i)
	}
	sb.WriteString("</body></html>\n")
	return []byte(sb.String())
}

var nestGens = map[string][]nestGen{
	"jsonld": {
		{"object-chain", func(n int) []byte {
			return []byte(`{"@context":{"p":"http://e/p"},"@id":"http://e/s","p":` + rep(`{"p":`, n) + `"x"` + rep(`}`, n) + `}`)
		}, nil},
		{"object-chain-ids", func(n int) []byte {
			var sb strings.Builder
			sb.WriteString(`{"@context":{"p":"http://e/p"},"@id":"http://e/s"`)
			for i := 0; i < n; i++ {
				fmt.Fprintf(&sb, `,"p":{"@id":"http://e/n%d","@type":"http://e/T"`, i)
			}
			sb.WriteString(rep(`}`, n) + `}`)
			return []byte(sb.String())
		}, nil},
		{"id-clique", func(k int) []byte {
			var sb strings.Builder
			sb.WriteString(`{"@context":{"p":{"@id":"http://e/p","@type":"@id"}},"@graph":[`)
			for i := 0; i < k; i++ {
				if i > 0 {
					sb.WriteString(",")
				}
				fmt.Fprintf(&sb, `{"@id":"http://e/%d","p":[`, i)
				first := true
				for j := 0; j < k; j++ {
					if j != i {
						if !first {
							sb.WriteString(",")
						}
						first = false
						fmt.Fprintf(&sb, `"http://e/%d"`, j)
					}
				}
				sb.WriteString(`]}`)
			}
			sb.WriteString(`]}`)
			return []byte(sb.String())
		}, []int{4, 8, 12, 14}},
		{"array-chain", func(n int) []byte { return []byte(`{"http://e/p":` + rep(`[`, n) + `1` + rep(`]`, n) + `}`) }, nil},
		{"list-chain", func(n int) []byte {
			return []byte(`{"@id":"http://e/s","http://e/p":` + rep(`{"@list":[`, n) + `1` + rep(`]}`, n) + `}`)
		}, nil},
		{"graph-chain", func(n int) []byte {
			return []byte(rep(`{"@id":"http://e/g","@graph":[`, n) + `{"@id":"http://e/s","http://e/p":1}` + rep(`]}`, n))
		}, nil},
		{"context-chain", func(n int) []byte {
			return []byte(`{"@context":` + rep(`[`, n) + `{"p":"http://e/p"}` + rep(`]`, n) + `,"p":1}`)
		}, nil},
		{"scoped-context-chain", func(n int) []byte {
			return []byte(`{"@context":` + rep(`{"p":{"@id":"http://e/p","@context":`, n) + `{}` + rep(`}}`, n) + `,"p":` + rep(`{"p":`, n%50) + `1` + rep(`}`, n%50) + `}`)
		}, nil},
		{"nest-chain", func(n int) []byte {
			return []byte(`{"@context":{"@version":1.1,"n":"@nest","p":"http://e/p"},"n":` + rep(`{"n":`, n) + `{"p":1}` + rep(`}`, n) + `}`)
		}, nil},
		{"included-chain", func(n int) []byte {
			return []byte(rep(`{"@included":[`, n) + `{"@id":"http://e/s","http://e/p":1}` + rep(`]}`, n))
		}, nil},
		{"reverse-chain", func(n int) []byte {
			return []byte(rep(`{"@id":"http://e/s","@reverse":{"http://e/p":`, n) + `{"@id":"http://e/o"}` + rep(`}}`, n))
		}, nil},
		{"unclosed-objects", func(n int) []byte { return []byte(rep(`{"a":`, n)) }, nil},
		{"unclosed-arrays", func(n int) []byte { return []byte(rep(`[`, n)) }, nil},
		{"wide-object", func(n int) []byte {
			var sb strings.Builder
			sb.WriteString(`{"@context":{"@vocab":"http://e/"}`)
			for i := 0; i < n; i++ {
				fmt.Fprintf(&sb, `,"k%d":%d`, i, i)
			}
			sb.WriteString(`}`)
			return []byte(sb.String())
		}, nil},
		{"wide-context", func(n int) []byte {
			var sb strings.Builder
			sb.WriteString(`{"@context":{"t0":"http://e/t0"`)
			for i := 1; i < n; i++ {
				fmt.Fprintf(&sb, `,"t%d":"t%d:x"`, i, i-1)
			}
			fmt.Fprintf(&sb, `},"t%d":1}`, n-1)
			return []byte(sb.String())
		}, nil},
	},
	"rdfjson": {
		{"array-chain", func(n int) []byte {
			return []byte(`{"http://e/s":{"http://e/p":[{"type":"literal","value":"v","x":` + rep(`[`, n) + rep(`]`, n) + `}]}}`)
		}, nil},
		{"object-chain", func(n int) []byte {
			return []byte(`{"http://e/s":` + rep(`{"http://e/p":`, n) + `1` + rep(`}`, n) + `}`)
		}, nil},
		{"unclosed", func(n int) []byte { return []byte(rep(`{"a":[`, n)) }, nil},
		{"wide", func(n int) []byte {
			var sb strings.Builder
			sb.WriteString(`{"http://e/s":{"http://e/p":[`)
			for i := 0; i < n; i++ {
				if i > 0 {
					sb.WriteString(",")
				}
				fmt.Fprintf(&sb, `{"type":"literal","value":"%d"}`, i)
			}
			sb.WriteString(`]}}`)
			return []byte(sb.String())
		}, nil},
	},
	"rdfxml": {
		{"node-property-chain", func(n int) []byte {
			return []byte(xmlHead + rep(`<rdf:Description><e:p>`, n) + `<rdf:Description rdf:about="http://e/o"/>` + rep(`</e:p></rdf:Description>`, n) + `</rdf:RDF>`)
		}, nil},
		{"node-property-chain-about", func(n int) []byte {
			var sb strings.Builder
			sb.WriteString(xmlHead)
			for i := 0; i < n; i++ {
				fmt.Fprintf(&sb, `<rdf:Description rdf:about="http://e/n%d"><e:p rdf:ID="r%d">`, i, i)
			}
			sb.WriteString(`<rdf:Description rdf:about="http://e/o"/>` + rep(`</e:p></rdf:Description>`, n) + `</rdf:RDF>`)
			return []byte(sb.String())
		}, nil},
		{"parsetype-resource-chain", func(n int) []byte {
			return []byte(xmlHead + `<rdf:Description rdf:about="http://e/s">` + rep(`<e:p rdf:parseType="Resource">`, n) + `<e:q>v</e:q>` + rep(`</e:p>`, n) + `</rdf:Description></rdf:RDF>`)
		}, nil},
		{"parsetype-literal-deep", func(n int) []byte {
			return []byte(xmlHead + `<rdf:Description rdf:about="http://e/s"><e:p rdf:parseType="Literal">` + rep(`<x a="1">`, n) + `t` + rep(`</x>`, n) + `</e:p></rdf:Description></rdf:RDF>`)
		}, nil},
		{"collection-chain", func(n int) []byte {
			return []byte(xmlHead + `<rdf:Description rdf:about="http://e/s">` + rep(`<e:p rdf:parseType="Collection"><rdf:Description>`, n) + rep(`</rdf:Description></e:p>`, n) + `</rdf:Description></rdf:RDF>`)
		}, nil},
		{"unclosed", func(n int) []byte { return []byte(xmlHead + rep(`<rdf:Description><e:p>`, n)) }, nil},
		{"wide-collection", func(n int) []byte {
			return []byte(xmlHead + `<rdf:Description rdf:about="http://e/s"><e:p rdf:parseType="Collection">` + rep(`<rdf:Description rdf:about="http://e/i"/>`, n) + `</e:p>` + rep(`<rdf:li>x</rdf:li>`, n) + `</rdf:Description></rdf:RDF>`)
		}, nil},
		{"xmlbase-chain", func(n int) []byte {
			// absolute bases: a relative xml:base would make every IRI grow with the depth (quadratic *output*)
			return []byte(xmlHead + rep(`<rdf:Description xml:base="http://b/a/" rdf:about="x"><e:p>`, n) + `<rdf:Description rdf:ID="i"/>` + rep(`</e:p></rdf:Description>`, n) + `</rdf:RDF>`)
		}, nil},
	},
	"ttl": {
		{"bnode-plist-chain", func(n int) []byte { return []byte(ttlHead + `:s :p ` + rep(`[ :p `, n) + `1` + rep(` ]`, n) + " .\n") }, nil},
		{"collection-chain", func(n int) []byte { return []byte(ttlHead + `:s :p ` + rep(`( `, n) + `1` + rep(` )`, n) + " .\n") }, nil},
		{"mixed-chain", func(n int) []byte {
			return []byte(ttlHead + `:s :p ` + rep(`[ :p ( `, n) + `1` + rep(` ) ]`, n) + " .\n")
		}, nil},
		{"subject-collection-chain", func(n int) []byte { return []byte(ttlHead + rep(`( `, n) + rep(` )`, n) + " :p 1 .\n") }, nil},
		{"unclosed", func(n int) []byte { return []byte(ttlHead + `:s :p ` + rep(`[ :p ( `, n)) }, nil},
		{"wide-object-list", func(n int) []byte { return []byte(ttlHead + `:s :p 1` + rep(`, 1`, n) + rep(`; :q "x"`, n) + " .\n") }, nil},
	},
	"html": {
		{"div-chain-rdfa", func(n int) []byte {
			return []byte(`<html><body vocab="http://v/">` + rep(`<div typeof="T" property="p">`, n) + `x` + rep(`</div>`, n) + `</body></html>`)
		}, nil},
		{"div-chain-rel", func(n int) []byte {
			return []byte(`<html><body prefix="e: http://e/">` + rep(`<div rel="e:p"><span about="_:a">`, n) + `x` + rep(`</span></div>`, n) + `</body></html>`)
		}, nil},
		{"itemscope-chain", func(n int) []byte {
			return []byte(`<html><body>` + rep(`<div itemprop="p" itemscope itemtype="http://schema.org/T">`, n) + `x` + rep(`</div>`, n) + `</body></html>`)
		}, nil},
		{"itemref-fan", func(n int) []byte {
			var sb strings.Builder
			sb.WriteString(`<html><body><div itemscope itemref="`)
			for i := 0; i < n; i++ {
				fmt.Fprintf(&sb, "i%d ", i)
			}
			sb.WriteString(`">x</div>`)
			for i := 0; i < n; i++ {
				fmt.Fprintf(&sb, `<p id="i%d" itemprop="p" itemscope itemref="i%d">v</p>`, i, (i+1)%n)
			}
			sb.WriteString(`</body></html>`)
			return []byte(sb.String())
		}, nil},
		{"itemscope-chain-itemid", func(n int) []byte {
			var sb strings.Builder
			sb.WriteString(`<html><body>`)
			for i := 0; i < n; i++ {
				fmt.Fprintf(&sb, `<div itemprop="p" itemscope itemid="http://e/i%d" itemtype="http://schema.org/T" about="http://e/a%d" property="http://e/p">`, i, i)
			}
			sb.WriteString(`x` + rep(`</div>`, n) + `</body></html>`)
			return []byte(sb.String())
		}, nil},
		// a variant of itemref-fan ("+…": same class of violation, see hangSub): the items also carry @itemid
		{"itemref-fan+itemid", func(n int) []byte {
			var sb strings.Builder
			sb.WriteString(`<html><body><div itemscope itemid="http://e/root" itemref="`)
			for i := 0; i < n; i++ {
				fmt.Fprintf(&sb, "i%d ", i)
			}
			sb.WriteString(`">x</div>`)
			for i := 0; i < n; i++ {
				fmt.Fprintf(&sb, `<p id="i%d" itemprop="p" itemscope itemid="http://e/i%d" itemref="i%d">v</p>`, i, i, (i+1)%n)
			}
			sb.WriteString(`</body></html>`)
			return []byte(sb.String())
		}, nil},
		// k items, each naming all the others in @itemref: every item must be expanded once, however many
		// itemref paths lead to it (k! paths). Small k on purpose: a factorial blow-up shows at k ≈ 10.
		{"itemref-clique", func(k int) []byte { return itemrefClique(k, false, false) }, []int{4, 6, 8, 9, 10, 11, 12, 14}},
		{"itemref-clique-itemid", func(k int) []byte { return itemrefClique(k, true, false) }, []int{4, 6, 8, 9, 10, 11, 12, 14}},
		{"itemref-clique-itemid-itemprop", func(k int) []byte { return itemrefClique(k, true, true) }, []int{4, 6, 8, 9, 10, 11, 12, 14}},
		{"about-clique-rdfa", func(k int) []byte {
			var sb strings.Builder
			sb.WriteString(`<html><body vocab="http://v/">`)
			for i := 0; i < k; i++ {
				fmt.Fprintf(&sb, `<div about="http://e/%d" typeof="rdfa:Pattern T">`, i)
				for j := 0; j < k; j++ {
					if j != i {
						fmt.Fprintf(&sb, `<link property="rdfa:copy" href="http://e/%d"/><a rel="p" href="http://e/%d">x</a>`, j, j)
					}
				}
				sb.WriteString(`</div>`)
			}
			sb.WriteString(`</body></html>`)
			return []byte(sb.String())
		}, []int{4, 6, 8, 10, 12, 14}},
		{"inlist-wide", func(n int) []byte {
			return []byte(`<html><body vocab="http://v/" about="#s">` + rep(`<span property="p" inlist="">x</span>`, n) + `</body></html>`)
		}, nil},
		{"unclosed-mixed", func(n int) []byte {
			return []byte(`<html><body>` + rep(`<div typeof="T" itemscope><table><tr><td><a rel="r" href="h">`, n))
		}, nil},
		{"script-jsonld-deep", func(n int) []byte {
			return []byte(`<html><head><script type="application/ld+json">{"http://e/p":` + rep(`{"http://e/p":`, n) + `1` + rep(`}`, n) + `}</script></head></html>`)
		}, nil},
		{"many-scripts", func(n int) []byte {
			return []byte(`<html><head>` + rep(`<script type="application/ld+json">{"@id":"http://e/s","http://e/p":1}</script>`, n) + `</head></html>`)
		}, nil},
		{"pattern-copy-chain", func(n int) []byte {
			var sb strings.Builder
			sb.WriteString(`<html><body vocab="http://v/"><div typeof="T"><link property="rdfa:copy" href="#p0"/></div>`)
			for i := 0; i < n; i++ {
				fmt.Fprintf(&sb, `<div resource="#p%d" typeof="rdfa:Pattern"><link property="rdfa:copy" href="#p%d"/><span property="q">v</span></div>`, i, (i+1)%n)
			}
			sb.WriteString(`</body></html>`)
			return []byte(sb.String())
		}, nil},
	},
}

const xmlHead = `<?xml version="1.0"?><rdf:RDF xmlns:rdf="http://www.w3.org/1999/02/22-rdf-syntax-ns#" xmlns:e="http://e/">`
const ttlHead = "@prefix : <http://e/> .\n"

func init() {
	nestGens["trig"] = append(append([]nestGen{}, nestGens["ttl"]...),
		nestGen{"graph-braces", func(n int) []byte { return []byte(ttlHead + rep(`{ `, n) + `:s :p 1` + rep(` }`, n)) }, nil},
		nestGen{"graph-many", func(n int) []byte { return []byte(ttlHead + rep(":g { :s :p [ :q 1 ] } \n", n)) }, nil})
	for _, f := range []string{"rdfa", "microdata", "htmljsonld"} {
		nestGens[f] = nestGens["html"]
	}
	nestGens["nt"] = []nestGen{{"many-lines", func(n int) []byte { return bytes.Repeat([]byte("<http://e/s> <http://e/p> \"x\" .\n"), n) }, nil}}
	nestGens["nq"] = []nestGen{{"many-lines", func(n int) []byte { return bytes.Repeat([]byte("<http://e/s> <http://e/p> _:b <http://e/g> .\n"), n) }, nil}}
}

// ---------------------------------------------------------------- huge tokens

type hugeGen struct {
	Name   string
	F      func(size int) []byte
	Params []int // reserved (same literal shape as nestGen)
}

func big(c string, n int) string { return strings.Repeat(c, n/len(c)+1)[:n] }

var hugeGens = map[string][]hugeGen{
	"jsonld": {
		{"string-value", func(n int) []byte { return []byte(`{"http://e/p":"` + big("a", n) + `"}`) }, nil},
		{"key", func(n int) []byte { return []byte(`{"http://e/` + big("k", n) + `":1}`) }, nil},
		{"number", func(n int) []byte { return []byte(`{"http://e/p":` + big("9", n) + `}`) }, nil},
		{"escapes", func(n int) []byte { return []byte(`{"http://e/p":"` + big(`\u00e9`, n) + `"}`) }, nil},
		{"whitespace", func(n int) []byte { return []byte(`{` + big(" ", n) + `"http://e/p":1}`) }, nil},
		{"id", func(n int) []byte { return []byte(`{"@id":"http://e/` + big("i", n) + `","http://e/p":1}`) }, nil},
		{"language", func(n int) []byte {
			return []byte(`{"http://e/p":{"@value":"v","@language":"` + big("en-", n) + `x"}}`)
		}, nil},
		{"unterminated-string", func(n int) []byte { return []byte(`{"http://e/p":"` + big("a", n)) }, nil},
	},
	"rdfjson": {
		{"string-value", func(n int) []byte {
			return []byte(`{"http://e/s":{"http://e/p":[{"type":"literal","value":"` + big("a", n) + `"}]}}`)
		}, nil},
		{"subject", func(n int) []byte {
			return []byte(`{"http://e/` + big("s", n) + `":{"http://e/p":[{"type":"uri","value":"http://e/o"}]}}`)
		}, nil},
		{"bnode", func(n int) []byte {
			return []byte(`{"_:` + big("b", n) + `":{"http://e/p":[{"type":"bnode","value":"_:` + big("c", n) + `"}]}}`)
		}, nil},
	},
	"rdfxml": {
		{"text", func(n int) []byte {
			return []byte(xmlHead + `<rdf:Description rdf:about="http://e/s"><e:p>` + big("t", n) + `</e:p></rdf:Description></rdf:RDF>`)
		}, nil},
		{"attr", func(n int) []byte {
			return []byte(xmlHead + `<rdf:Description rdf:about="http://e/` + big("a", n) + `"><e:p>v</e:p></rdf:Description></rdf:RDF>`)
		}, nil},
		{"name", func(n int) []byte {
			return []byte(xmlHead + `<rdf:Description rdf:about="http://e/s"><e:` + big("n", n) + `>v</e:` + big("n", n) + `></rdf:Description></rdf:RDF>`)
		}, nil},
		{"comment", func(n int) []byte {
			return []byte(xmlHead + `<!--` + big("c", n) + `--><rdf:Description rdf:about="http://e/s"><e:p>v</e:p></rdf:Description></rdf:RDF>`)
		}, nil},
		{"cdata", func(n int) []byte {
			return []byte(xmlHead + `<rdf:Description rdf:about="http://e/s"><e:p><![CDATA[` + big("]", n) + `]]></e:p></rdf:Description></rdf:RDF>`)
		}, nil},
		{"xmlliteral", func(n int) []byte {
			return []byte(xmlHead + `<rdf:Description rdf:about="http://e/s"><e:p rdf:parseType="Literal">` + big("<b/>", n) + `</e:p></rdf:Description></rdf:RDF>`)
		}, nil},
		{"entities", func(n int) []byte {
			return []byte(xmlHead + `<rdf:Description rdf:about="http://e/s"><e:p>` + big("&amp;", n) + `</e:p></rdf:Description></rdf:RDF>`)
		}, nil},
	},
	"ttl": {
		{"iri", func(n int) []byte { return []byte(`<http://e/` + big("a", n) + `> <http://e/p> 1 .`) }, nil},
		{"string", func(n int) []byte { return []byte(`<http://e/s> <http://e/p> "` + big("a", n) + `" .`) }, nil},
		{"long-string", func(n int) []byte { return []byte(`<http://e/s> <http://e/p> """` + big("a\"\n", n) + `""" .`) }, nil},
		{"pname", func(n int) []byte { return []byte(ttlHead + `:s :p :` + big("a.", n) + `a .`) }, nil},
		{"bnode-label", func(n int) []byte { return []byte(`_:` + big("b.", n) + `b <http://e/p> 1 .`) }, nil},
		{"number", func(n int) []byte { return []byte(`<http://e/s> <http://e/p> ` + big("1", n) + ` .`) }, nil},
		{"comment", func(n int) []byte { return []byte(`#` + big("c", n) + "\n<http://e/s> <http://e/p> 1 .") }, nil},
		{"whitespace", func(n int) []byte { return []byte(`<http://e/s>` + big(" \t\n", n) + `<http://e/p> 1 .`) }, nil},
		{"langtag", func(n int) []byte { return []byte(`<http://e/s> <http://e/p> "x"@en` + big("-a", n) + ` .`) }, nil},
		{"uchar", func(n int) []byte { return []byte(`<http://e/s> <http://e/p> "` + big(`\u00e9`, n) + `" .`) }, nil},
	},
	"nt": {
		{"iri", func(n int) []byte { return []byte(`<http://e/` + big("a", n) + `> <http://e/p> <http://e/o> .` + "\n") }, nil},
		{"string", func(n int) []byte { return []byte(`<http://e/s> <http://e/p> "` + big("a", n) + `" .` + "\n") }, nil},
		{"bnode-label", func(n int) []byte { return []byte(`_:` + big("b.", n) + `b <http://e/p> <http://e/o> .` + "\n") }, nil},
		{"comment", func(n int) []byte { return []byte(`#` + big("c", n) + "\n<http://e/s> <http://e/p> <http://e/o> .\n") }, nil},
		{"langtag", func(n int) []byte { return []byte(`<http://e/s> <http://e/p> "x"@en` + big("-a", n) + " .\n") }, nil},
		{"uchar", func(n int) []byte { return []byte(`<http://e/s> <http://e/p> "` + big(`\u00e9`, n) + "\" .\n") }, nil},
	},
	"html": {
		{"text", func(n int) []byte {
			return []byte(`<html><body vocab="http://v/"><p property="p" itemscope><span itemprop="q">` + big("t", n) + `</span></p></body></html>`)
		}, nil},
		{"attr", func(n int) []byte {
			return []byte(`<html><body vocab="http://v/"><p property="p" content="` + big("c", n) + `" itemscope itemid="http://e/` + big("i", n) + `">x</p></body></html>`)
		}, nil},
		{"property-list", func(n int) []byte {
			return []byte(`<html><body vocab="http://v/"><p property="` + big("p ", n) + `" itemscope><span itemprop="` + big("q ", n) + `">x</span></p></body></html>`)
		}, nil},
		{"prefix-list", func(n int) []byte {
			return []byte(`<html><body prefix="` + big("a: http://a/ ", n) + `"><p property="a:p">x</p></body></html>`)
		}, nil},
		{"comment", func(n int) []byte {
			return []byte(`<html><!--` + big("c", n) + `--><body vocab="http://v/"><p property="p">x</p></body></html>`)
		}, nil},
		{"script", func(n int) []byte {
			return []byte(`<html><head><script type="application/ld+json">{"http://e/p":"` + big("a", n) + `"}</script></head></html>`)
		}, nil},
		{"tagname", func(n int) []byte {
			return []byte(`<html><body><` + big("x", n) + ` property="p" vocab="http://v/">v</body></html>`)
		}, nil},
		{"xmlliteral", func(n int) []byte {
			return []byte(`<html><body vocab="http://v/" prefix="rdf: http://www.w3.org/1999/02/22-rdf-syntax-ns#"><p property="p" datatype="rdf:XMLLiteral">` + big("<b>x</b>", n) + `</p></body></html>`)
		}, nil},
	},
}

func init() {
	hugeGens["trig"] = hugeGens["ttl"]
	hugeGens["nq"] = hugeGens["nt"]
	for _, f := range []string{"rdfa", "microdata", "htmljsonld"} {
		hugeGens[f] = hugeGens["html"]
	}
}

// xmlErrorDocs: grammar-directed documents for the error paths of the RDF/XML decoder: an invalid
// (or merely unusual) value of each RDF attribute x the ways an attribute can be spelled (double /
// single quotes, spaces around '=', line breaks inside the tag, character references, duplicate) x
// the kind of element that carries it (rdf:RDF, node element, typed node, literal / empty /
// resource-valued / parseType property elements, rdf:li), plus element names that are not allowed
// in node / property position and directives. Every document is run with text offsets on and off.
func xmlErrorDocs() []Seed {
	attrs := []string{"rdf:ID", "rdf:nodeID", "rdf:about", "rdf:resource", "rdf:datatype", "rdf:bagID", "rdf:aboutEach", "rdf:aboutEachPrefix", "rdf:li", "rdf:parseType", "rdf:type", "rdf:Description", "xml:base", "xml:lang", "e:a", "rdf:_1"}
	values := []string{"", "1bad", "a b", "a:b", "ok", "\u00e9", "http://[", "%zz", "Resource", "Literal", "Collection", nsLangString}
	spell := []func(a, v string) string{
		func(a, v string) string { return a + `="` + v + `"` },
		func(a, v string) string { return a + `='` + v + `'` },
		func(a, v string) string { return a + ` = "` + v + `"` },
		func(a, v string) string { return a + "\n=\n'" + v + "'" },
		func(a, v string) string { return a + `="&#120;` + v + `"` },
		func(a, v string) string { return a + `="` + v + `" ` + a + `="` + v + `"` }, // duplicate attribute
		func(a, v string) string { return a + "\t=\t\"" + v + "\"" },                 // tabs around '='
		func(a, v string) string { return a + "\r\n=\"" + v + "\"\r\n" },             // CR LF inside the tag
		func(a, v string) string { return a + `='` + v + `>'` },                      // '>' inside a single-quoted value
		func(a, v string) string { return a + `="` + v + `&quot;&#x9;"` },            // character references at the end of the value
	}
	hosts := []func(at string) string{
		func(at string) string {
			return `<rdf:RDF xmlns:rdf="http://www.w3.org/1999/02/22-rdf-syntax-ns#" xmlns:e="http://e/" ` + at + `><rdf:Description rdf:about="http://e/s"><e:p>o</e:p></rdf:Description></rdf:RDF>`
		},
		func(at string) string {
			return xmlHead + `<rdf:Description ` + at + `><e:p>o</e:p></rdf:Description></rdf:RDF>`
		},
		func(at string) string { return xmlHead + `<e:T ` + at + ` e:q="v"/></rdf:RDF>` },
		func(at string) string {
			return xmlHead + `<rdf:Description rdf:about="http://e/s"><e:p ` + at + `>o</e:p></rdf:Description></rdf:RDF>`
		},
		func(at string) string {
			return xmlHead + `<rdf:Description rdf:about="http://e/s"><e:p ` + at + `/></rdf:Description></rdf:RDF>`
		},
		func(at string) string {
			return xmlHead + `<rdf:Description rdf:about="http://e/s"><e:p ` + at + ` e:q="v"/></rdf:Description></rdf:RDF>`
		},
		func(at string) string {
			return xmlHead + `<rdf:Description rdf:about="http://e/s"><e:p ` + at + `><rdf:Description rdf:about="http://e/o"/></e:p></rdf:Description></rdf:RDF>`
		},
		func(at string) string {
			return xmlHead + `<rdf:Description rdf:about="http://e/s"><e:p rdf:parseType="Resource" ` + at + `><e:q>v</e:q></e:p></rdf:Description></rdf:RDF>`
		},
		func(at string) string {
			return xmlHead + `<rdf:Description rdf:about="http://e/s"><e:p rdf:parseType="Collection" ` + at + `><rdf:Description rdf:about="http://e/o"/></e:p></rdf:Description></rdf:RDF>`
		},
		func(at string) string {
			return xmlHead + `<rdf:Description rdf:about="http://e/s"><e:p rdf:parseType="Literal" ` + at + `><b>x</b></e:p></rdf:Description></rdf:RDF>`
		},
		func(at string) string {
			return xmlHead + `<rdf:Description rdf:about="http://e/s"><rdf:li ` + at + `>o</rdf:li></rdf:Description></rdf:RDF>`
		},
		// the attribute is not the first one of its tag (attribute metadata is looked up by index)
		func(at string) string {
			return xmlHead + `<rdf:Description rdf:about="http://e/s"><e:p e:q='v' xml:lang="en" ` + at + `>o</e:p></rdf:Description></rdf:RDF>`
		},
		func(at string) string {
			return xmlHead + `<rdf:Description e:q="v" ` + at + ` e:r='w'><e:p>o</e:p></rdf:Description></rdf:RDF>`
		},
	}
	var out []Seed
	for ai, a := range attrs {
		for vi, v := range values {
			for si, sp := range spell {
				if si >= 6 && !(v == "" || v == "1bad" || v == "ok") { // the later spellings: invalid-name values and one valid value only
					continue
				}
				for hi, h := range hosts {
					if (ai+vi+si+hi)%3 != 0 && !(v == "" || v == "1bad") { // thinned out; the invalid-name values are run everywhere
						continue
					}
					out = append(out, Seed{Name: fmt.Sprintf("attr:%s=%q/spelling%d/host%d", a, v, si, hi), B: []byte(h(sp(a, v)))})
				}
			}
		}
	}
	names := []string{"rdf:RDF", "rdf:ID", "rdf:about", "rdf:parseType", "rdf:resource", "rdf:nodeID", "rdf:datatype", "rdf:li", "rdf:aboutEach", "rdf:aboutEachPrefix", "rdf:bagID", "rdf:Description", "rdf:_1", "rdf:foo", "e:ok"}
	for _, n := range names {
		out = append(out,
			Seed{Name: "node-element:" + n, B: []byte(xmlHead + `<` + n + ` rdf:about="http://e/s"><e:p>o</e:p></` + n + `></rdf:RDF>`)},
			Seed{Name: "root-node-element:" + n, B: []byte(`<` + n + ` xmlns:rdf="http://www.w3.org/1999/02/22-rdf-syntax-ns#" xmlns:e="http://e/" rdf:about="http://e/s"><e:p>o</e:p></` + n + `>`)},
			Seed{Name: "property-element:" + n, B: []byte(xmlHead + `<rdf:Description rdf:about="http://e/s"><` + n + `>o</` + n + `></rdf:Description></rdf:RDF>`)},
			Seed{Name: "empty-property-element:" + n, B: []byte(xmlHead + `<rdf:Description rdf:about="http://e/s"><` + n + ` rdf:resource="http://e/o"/></rdf:Description></rdf:RDF>`)},
			Seed{Name: "collection-member:" + n, B: []byte(xmlHead + `<rdf:Description rdf:about="http://e/s"><e:p rdf:parseType="Collection"><` + n + `/></e:p></rdf:Description></rdf:RDF>`)},
			Seed{Name: "nested-node:" + n, B: []byte(xmlHead + `<rdf:Description rdf:about="http://e/s"><e:p><` + n + `/></e:p></rdf:Description></rdf:RDF>`)},
		)
	}
	for i, d := range []string{
		`<!DOCTYPE rdf:RDF [<!ENTITY e "v">]>` + xmlHead + `</rdf:RDF>`,
		xmlHead + `<!ELEMENT x ANY><rdf:Description/></rdf:RDF>`,
		xmlHead + `<rdf:Description><e:p><!DOCTYPE x></e:p></rdf:Description></rdf:RDF>`,
		`<!-- c -->` + xmlHead + `<?pi x?><rdf:Description><?pi?><e:p>a<?pi?>b<!-- c -->c</e:p></rdf:Description></rdf:RDF><!-- t -->`,
	} {
		out = append(out, Seed{Name: fmt.Sprintf("directive:%d", i), B: []byte(d)})
	}
	return out
}

// htmlTokenListDocs: grammar-directed documents for the attributes the RDFa and Microdata decoders
// split into tokens (@typeof, @property, @rel, @rev, @prefix, @datatype, @itemprop, @itemtype,
// @itemref, …) x the characters that one of the notions of "white space" in play treats as a separator
// and another does not (HTML ASCII white space: TAB LF FF CR SPACE; Go regexp \s: the same five;
// unicode.IsSpace / strings.Fields: also VT, U+0085, U+00A0, U+2028, U+3000; NUL; written raw and as
// character references) x where it stands (start, middle, end, doubled, alone). A tokenizer whose
// skip-separators step and next-token step disagree on one of them makes no progress (hang) or
// slices out of range (panic).
func htmlTokenListDocs() []Seed {
	seps := []struct{ name, s string }{
		{"SP", " "}, {"TAB", "\t"}, {"LF", "\n"}, {"CR", "\r"}, {"FF", "\f"}, {"VT", "\v"}, {"NUL", "\x00"},
		{"NEL", "\u0085"}, {"NBSP", "\u00a0"}, {"LS", "\u2028"}, {"IDSP", "\u3000"}, {"ZWSP", "\u200b"},
		{"ref-FF", "&#12;"}, {"ref-VT", "&#11;"}, {"ref-NBSP", "&#160;"}, {"ref-TAB", "&#9;"}, {"CRLF", "\r\n"},
	}
	attrs := []struct{ attr, a, b, rest string }{
		{"typeof", "T", "U", ` about="#s"`},
		{"typeof", "p:T", "rdfa:Pattern", ``},
		{"property", "p:x", "q", ` content="c"`},
		{"rel", "p:x", "next", ` href="http://e/o"`},
		{"rev", "p:x", "q", ` resource="#o"`},
		{"prefix", "a: http://a/", "b: http://b/", ` property="a:x b:y"`},
		{"datatype", "xsd:date", "", ` property="q" content="2001-01-01"`},
		{"about", "[p:x]", "#y", ` property="q"`},
		{"vocab", "http://w/", "", ` property="q"`},
		{"inlist", "", "", ` property="q"`},
		{"itemprop", "a", "http://x/b", ` itemscope itemtype="http://t/A"`},
		{"itemtype", "http://t/A", "http://t/B", ` itemscope itemprop="q"`},
		{"itemref", "i1", "i2", ` itemscope`},
		{"itemid", "http://e/i", "", ` itemscope itemprop="q"`},
	}
	place := []func(a, b, s string) string{
		func(a, b, s string) string { return a + s + b },
		func(a, b, s string) string { return s + a + " " + b },
		func(a, b, s string) string { return a + " " + b + s },
		func(a, b, s string) string { return a + s + s + b + s },
		func(a, b, s string) string { return s },
	}
	var out []Seed
	for _, at := range attrs {
		for _, sp := range seps {
			for pi, pl := range place {
				v := pl(at.a, at.b, sp.s)
				doc := `<!DOCTYPE html><html prefix="p: http://p/ xsd: http://www.w3.org/2001/XMLSchema#"><body vocab="http://v/"><div itemscope><p id="i1" itemprop="r">1</p><p id="i2" itemprop="s">2</p>` +
					`<div ` + at.attr + `="` + v + `"` + at.rest + `><span property="n" itemprop="n">x</span></div></div></body></html>`
				out = append(out, Seed{Name: fmt.Sprintf("%s/sep-%s/place%d", at.attr, sp.name, pi), B: []byte(doc)})
			}
		}
	}
	return out
}
