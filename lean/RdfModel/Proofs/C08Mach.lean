/-
  C08, document level — a fuel-free view of the statement machine of `Model/TurtleDoc.lean`:
  configurations (`Conf`: the stack with `rsNext` on top, buffer, environment), one scan call
  (`stepConf`), runs of scan calls with the statements they emit (`Steps`), and the bridge
  `run_of_steps`: a run of scan calls from the initial configuration that empties the stack IS what
  `TtlDoc.run` computes (statements in order, verdict `clean`).  The bridge uses the step-budget
  theorems of C05 (`next_fuel`, `runLoop_fuel`): the fuel `run` starts with always suffices, and
  more fuel never changes a result.
-/
import RdfModel.Proofs.TtlDocFuel
namespace RdfModel.TtlDoc
open RdfModel

structure Conf where
  stk : List Frame
  inp : List Nat
  env : Env

/-- one scan-function call on the top frame -/
def stepConf (C : Cfg) (e : End) (c : Conf) : Option (Conf × Option Stmt) :=
  match c.stk with
  | [] => none
  | f :: s =>
    match scanFn C e f c.inp c.env with
    | .ok o => some (⟨o.cur.toList ++ (if o.term then [] else o.push.reverse ++ s), o.inp, o.env⟩, o.emit)
    | _ => none

inductive Steps (C : Cfg) (e : End) : Conf → List Stmt → Conf → Prop where
  | refl (c : Conf) : Steps C e c [] c
  | quiet {c c' c'' : Conf} {ss : List Stmt} : stepConf C e c = some (c', none) → Steps C e c' ss c'' → Steps C e c ss c''
  | emit {c c' c'' : Conf} {s : Stmt} {ss : List Stmt} :
      stepConf C e c = some (c', some s) → Steps C e c' ss c'' → Steps C e c (s :: ss) c''

variable {C : Cfg} {e : End}

theorem Steps.trans {c1 c2 c3 : Conf} {s1 s2 : List Stmt} (h1 : Steps C e c1 s1 c2) (h2 : Steps C e c2 s2 c3) :
    Steps C e c1 (s1 ++ s2) c3 := by
  induction h1 with
  | refl c => simpa using h2
  | quiet h _ ih => exact .quiet h (ih h2)
  | emit h _ ih => exact .emit h (ih h2)

theorem Steps.one {c c' : Conf} {em : Option Stmt} (h : stepConf C e c = some (c', em)) :
    Steps C e c em.toList c' := by
  cases em with
  | none => exact .quiet h (.refl _)
  | some s => exact .emit h (.refl _)

/-- a step followed by a run -/
theorem Steps.step {c c' c'' : Conf} {em : Option Stmt} {ss : List Stmt}
    (h : stepConf C e c = some (c', em)) (h2 : Steps C e c' ss c'') : Steps C e c (em.toList ++ ss) c'' :=
  (Steps.one h).trans h2

/-! ### `nextLoop` in terms of configurations -/

def stOf (c : Conf) (stmts : List Stmt) : St :=
  { stack := c.stk, inp := c.inp, env := c.env, err := none, stmts := stmts }

theorem nextLoop_norm (n : Nat) (cur : Option Frame) (st : St) (herr : st.err = none) :
    nextLoop C e n cur st = nextLoop C e n none (pushCur cur st) := by
  cases cur with
  | none => rfl
  | some f =>
    cases n with
    | zero => rfl
    | succ n =>
      cases st with
      | mk stack inp env err stmts =>
        simp only at herr
        subst herr
        conv => lhs; unfold nextLoop
        conv => rhs; unfold nextLoop
        simp only [pushCur, popFrame]
        rfl

theorem nextLoop_step (n : Nat) (c c' : Conf) (em : Option Stmt) (h : stepConf C e c = some (c', em)) :
    nextLoop C e (n + 1) none (stOf c []) = nextLoop C e n none (stOf c' em.toList) := by
  unfold stepConf at h
  cases hs : c.stk with
  | nil => simp [hs] at h
  | cons f s =>
    simp only [hs] at h
    cases hf : scanFn C e f c.inp c.env with
    | panic => simp [hf] at h
    | err k => simp [hf] at h
    | ok o =>
      simp only [hf, Option.some.injEq, Prod.mk.injEq] at h
      obtain ⟨rfl, rfl⟩ := h
      conv => lhs; unfold nextLoop
      simp only [stOf, hs, popFrame, scan, hf, Option.isSome_none, Bool.false_eq_true, if_false, List.isEmpty_nil,
        Bool.not_true]
      rw [nextLoop_norm _ _ _ (by simp [applyOut])]
      congr 1
      cases o.cur <;> simp [pushCur, applyOut]

theorem nextLoop_done (n : Nat) (c : Conf) (h : c.stk = []) :
    nextLoop C e (n + 1) none (stOf c []) = .no (stOf c []) := by
  unfold nextLoop
  simp [stOf, h, popFrame]

theorem nextLoop_yes' (n : Nat) (c : Conf) (s : Stmt) :
    nextLoop C e (n + 1) none (stOf c [s]) = .yes (stOf c [s]) := by
  unfold nextLoop
  simp [stOf, pushCur]

/-! ### More fuel never changes a result -/

theorem nextLoop_mono : ∀ (n : Nat) (cur : Option Frame) (st : St), nextLoop C e n cur st ≠ .outOfFuel →
    ∀ m, nextLoop C e (n + m) cur st = nextLoop C e n cur st := by
  intro n
  induction n with
  | zero => intro cur st h; exact absurd rfl h
  | succ n ih =>
    intro cur st h m
    rw [Nat.succ_add]
    unfold nextLoop at h ⊢
    by_cases herr : st.err.isSome = true
    · simp only [herr, if_true]
    · simp only [herr, if_false] at h ⊢
      by_cases hst : (!st.stmts.isEmpty) = true
      · simp only [hst, if_true]
      · simp only [hst, if_false] at h ⊢
        cases hp : popFrame cur st with
        | none => simp only [hp]
        | some p =>
          obtain ⟨f, st1⟩ := p
          simp only [hp] at h ⊢
          cases hk : scan C e f st1 with
          | panic => simp only [hk]
          | err k =>
            simp only [hk] at h ⊢
            exact ih _ _ h m
          | ok cur' st2 =>
            simp only [hk] at h ⊢
            exact ih _ _ h m

theorem nextLoop_det (n m : Nat) (cur : Option Frame) (st : St) (h1 : nextLoop C e n cur st ≠ .outOfFuel)
    (h2 : nextLoop C e m cur st ≠ .outOfFuel) : nextLoop C e n cur st = nextLoop C e m cur st := by
  rcases Nat.le_total n m with h | h
  · obtain ⟨k, rfl⟩ := Nat.exists_eq_add_of_le h
    exact (nextLoop_mono n cur st h1 k).symm
  · obtain ⟨k, rfl⟩ := Nat.exists_eq_add_of_le h
    exact nextLoop_mono m cur st h2 k

/-- what `runLoop` does with the answer of `Next()` -/
def contRun (C : Cfg) (e : End) (k : Nat) : NextRes → List Stmt × Verdict
  | .panic => ([], .panic)
  | .outOfFuel => ([], .outOfFuel)
  | .no st' => ([], match st'.err with | none => .clean | some k => .error k)
  | .yes st' =>
    match st'.stmts with
    | [] => ([], .panic)
    | s :: _ => ((s :: (runLoop C e k st').1), (runLoop C e k st').2)

theorem runLoop_succ (k : Nat) (st : St) : runLoop C e (k + 1) st = contRun C e k (next C e st) := by
  conv => lhs; unfold runLoop
  cases next C e st with
  | panic => rfl
  | outOfFuel => rfl
  | no st' => rfl
  | yes st' =>
    simp only [contRun]
    cases st'.stmts <;> rfl

theorem runLoop_mono : ∀ (k : Nat) (st : St), (runLoop C e k st).2 ≠ .outOfFuel →
    ∀ m, runLoop C e (k + m) st = runLoop C e k st := by
  intro k
  induction k with
  | zero => intro st h; exact absurd rfl h
  | succ k ih =>
    intro st h m
    rw [Nat.succ_add, runLoop_succ, runLoop_succ]
    rw [runLoop_succ] at h
    cases hn : next C e st with
    | panic => rfl
    | outOfFuel => rfl
    | no st' => rfl
    | yes st' =>
      simp only [hn, contRun] at h ⊢
      cases hs : st'.stmts with
      | nil => rfl
      | cons s t =>
        simp only [hs] at h ⊢
        rw [ih st' h m]

theorem next_eq_of (hC : C.P.Consumes) (st : St) (n : Nat) (r : NextRes)
    (h : nextLoop C e n none { st with stmts := st.stmts.drop 1 } = r) (hr : r ≠ .outOfFuel) : next C e st = r := by
  have h0 := (next_fuel (e := e) hC st).1
  unfold next at h0 ⊢
  simp only [] at h0 ⊢
  rw [← h]
  exact nextLoop_det _ _ _ _ h0 (by rw [h]; exact hr)

/-! ### The bridge -/

theorem steps_run (hC : C.P.Consumes) {c cf : Conf} {ss : List Stmt} (h : Steps C e c ss cf) (hf : cf.stk = []) :
    ∃ n r, nextLoop C e n none (stOf c []) = r ∧ r ≠ .outOfFuel ∧ ∃ k, contRun C e k r = (ss, .clean) := by
  induction h with
  | refl c =>
    exact ⟨1, _, nextLoop_done 0 c hf, by simp, 0, rfl⟩
  | quiet hs _ ih =>
    obtain ⟨n, r, h1, h2, h3⟩ := ih hf
    exact ⟨n + 1, r, by rw [nextLoop_step n _ _ _ hs]; exact h1, h2, h3⟩
  | @emit c c' c'' s ss hs _ ih =>
    obtain ⟨n, r, h1, h2, k, h3⟩ := ih hf
    refine ⟨2, .yes (stOf c' [s]), ?_, by simp, k + 1, ?_⟩
    · rw [nextLoop_step 1 _ _ _ hs]; exact nextLoop_yes' 0 c' s
    · have hn : next C e (stOf c' [s]) = r := next_eq_of hC _ n r (by simpa [stOf] using h1) h2
      simp only [contRun, stOf]
      rw [runLoop_succ]
      change ((s :: (contRun C e k (next C e (stOf c' [s]))).1), (contRun C e k (next C e (stOf c' [s]))).2) = _
      rw [hn, h3]

/-- A run of scan calls from the initial configuration that ends with an empty stack is what `run`
    computes. -/
theorem run_of_steps (hC : C.P.Consumes) (base : Option (List Nat)) (pf : List (List Nat × List Nat)) (inp : List Nat)
    (ss : List Stmt) (cf : Conf)
    (h : Steps C e ⟨[⟨{}, .statement⟩], inp, { base := base, prefixes := pf, nextAnon := 0 }⟩ ss cf)
    (hf : cf.stk = []) : run C e base pf inp = (ss, .clean) := by
  obtain ⟨n, r, h1, h2, k, h3⟩ := steps_run hC h hf
  have hi : stOf ⟨[⟨{}, .statement⟩], inp, { base := base, prefixes := pf, nextAnon := 0 }⟩ [] = init base pf inp := rfl
  rw [hi] at h1
  have hn : next C e (init base pf inp) = r := next_eq_of hC _ n r (by simpa [init] using h1) h2
  have hk : runLoop C e (k + 1) (init base pf inp) = (ss, .clean) := by rw [runLoop_succ, hn, h3]
  unfold run
  simp only []
  have hfuel := runLoop_fuel (e := e) hC ((init base pf inp).cost + 1) (init base pf inp) (Nat.lt_succ_self _)
  rcases Nat.le_total (k + 1) ((init base pf inp).cost + 1) with hle | hle
  · obtain ⟨m, hm⟩ := Nat.exists_eq_add_of_le hle
    rw [hm, runLoop_mono (k + 1) _ (by rw [hk]; simp) m, hk]
  · obtain ⟨m, hm⟩ := Nat.exists_eq_add_of_le hle
    have := runLoop_mono _ _ hfuel m
    rw [← hm, hk] at this
    exact this.symm

end RdfModel.TtlDoc
