package main

// T2 generator for property C12: structural facts about iri/parsed_iri.go  ->
// lean/RdfModel/Gen/IRIFacts.lean
//
// Purely syntactic (go/ast) over the checkout named by VERIF_REPO (default /repo):
//   - the guard of the reclassification block of ParseIRI, as the ordered list of its conjuncts
//     (`<field> != "<lit>"` / `<field> == "<lit>"` on fields of the url.URL `u`) — Model.IRI.reclassify
//     hard-codes the hierarchical schemes http/https/file and the Host/Opaque tests; a theorem in
//     Props/C12Facts.lean compares them with what the source says now;
//   - the argument of strings.HasSuffix that computes forceFragment;
//   - that ResolveReference combines the flags as `iri.forceFragment || ref.forceFragment`;
//   - the set of string literals compared with `elem` in resolvePath (the dot segments);
//   - the exported API of iri/parsed_iri.go and iri/base_iri.go (every exported function, and every exported
//     method of ParsedIRI / BaseIRI, with its receiver), sorted: the T3 histories of go/cmd/c12/hist.go drive
//     exactly this list, so a new exported method breaks the fact until it is modelled and driven;
//   - the body of DropFragment as the sorted list of its statements (`lhs=rhs` for plain assignments).
// Anything outside these shapes is emitted as "unknown" and makes the consuming theorem fail.

import (
	"fmt"
	"go/ast"
	"go/parser"
	"go/token"
	"os"
	"path/filepath"
	"sort"
	"strconv"
	"strings"
)

func init() { generators["c12"] = genC12 }

func c12Lit(e ast.Expr) (string, bool) {
	bl, ok := e.(*ast.BasicLit)
	if !ok || bl.Kind != token.STRING {
		return "", false
	}
	s, err := strconv.Unquote(bl.Value)
	return s, err == nil
}

func c12Sel(e ast.Expr) string {
	se, ok := e.(*ast.SelectorExpr)
	if !ok {
		return ""
	}
	if id, ok := se.X.(*ast.Ident); ok {
		return id.Name + "." + se.Sel.Name
	}
	if in, ok := se.X.(*ast.SelectorExpr); ok {
		if id, ok := in.X.(*ast.Ident); ok {
			return id.Name + "." + in.Sel.Name + "." + se.Sel.Name
		}
	}
	return ""
}

// conjuncts flattens a && b && c
func c12Conjuncts(e ast.Expr, out *[]ast.Expr) {
	if be, ok := e.(*ast.BinaryExpr); ok && be.Op == token.LAND {
		c12Conjuncts(be.X, out)
		c12Conjuncts(be.Y, out)
		return
	}
	if pe, ok := e.(*ast.ParenExpr); ok {
		c12Conjuncts(pe.X, out)
		return
	}
	*out = append(*out, e)
}

func c12LeanBytes(s string) string {
	parts := []string{}
	for i := 0; i < len(s); i++ {
		parts = append(parts, fmt.Sprintf("0x%02x", s[i]))
	}
	return "[" + strings.Join(parts, ", ") + "]"
}

func genC12(leanRoot string) {
	repo := os.Getenv("VERIF_REPO")
	if repo == "" {
		repo = "/repo"
	}
	fset := token.NewFileSet()
	file, err := parser.ParseFile(fset, filepath.Join(repo, "iri", "parsed_iri.go"), nil, 0)
	if err != nil {
		fmt.Fprintln(os.Stderr, "c12:", err)
		os.Exit(2)
	}
	guard := []string{"unknown"}
	hasSuffix := "unknown"
	forceCombine := "unknown"
	dotLits := []string{}
	for _, d := range file.Decls {
		fd, ok := d.(*ast.FuncDecl)
		if !ok || fd.Body == nil {
			continue
		}
		switch fd.Name.Name {
		case "ParseIRI":
			// the first if statement whose body assigns isOpaque = true
			ast.Inspect(fd.Body, func(n ast.Node) bool {
				is, ok := n.(*ast.IfStmt)
				if !ok || guard[0] != "unknown" {
					return true
				}
				sets := false
				for _, st := range is.Body.List {
					if as, ok := st.(*ast.AssignStmt); ok && len(as.Lhs) == 1 {
						if id, ok := as.Lhs[0].(*ast.Ident); ok && id.Name == "isOpaque" {
							sets = true
						}
					}
				}
				if !sets {
					return true
				}
				var cs []ast.Expr
				c12Conjuncts(is.Cond, &cs)
				g := []string{}
				for _, c := range cs {
					be, ok := c.(*ast.BinaryExpr)
					lit, okl := "", false
					if ok {
						lit, okl = c12Lit(be.Y)
					}
					if !ok || !okl || c12Sel(be.X) == "" || (be.Op != token.NEQ && be.Op != token.EQL) {
						g = []string{"unknown"}
						break
					}
					g = append(g, c12Sel(be.X)+be.Op.String()+strconv.Quote(lit))
				}
				guard = g
				return true
			})
			ast.Inspect(fd.Body, func(n ast.Node) bool {
				kv, ok := n.(*ast.KeyValueExpr)
				if !ok {
					return true
				}
				if id, ok := kv.Key.(*ast.Ident); ok && id.Name == "forceFragment" {
					if ce, ok := kv.Value.(*ast.CallExpr); ok && c12Sel(ce.Fun) == "strings.HasSuffix" && len(ce.Args) == 2 {
						if a0, ok := ce.Args[0].(*ast.Ident); ok {
							if lit, ok := c12Lit(ce.Args[1]); ok && len(fd.Type.Params.List) == 1 && len(fd.Type.Params.List[0].Names) == 1 && fd.Type.Params.List[0].Names[0].Name == a0.Name {
								hasSuffix = lit
							}
						}
					}
				}
				return true
			})
		case "ResolveReference":
			ast.Inspect(fd.Body, func(n ast.Node) bool {
				as, ok := n.(*ast.AssignStmt)
				if !ok || len(as.Lhs) != 1 || len(as.Rhs) != 1 {
					return true
				}
				if id, ok := as.Lhs[0].(*ast.Ident); ok && id.Name == "forceFragment" {
					if be, ok := as.Rhs[0].(*ast.BinaryExpr); ok && be.Op == token.LOR {
						forceCombine = c12Sel(be.X) + "||" + c12Sel(be.Y)
					}
				}
				return true
			})
		case "resolvePath":
			ast.Inspect(fd.Body, func(n ast.Node) bool {
				be, ok := n.(*ast.BinaryExpr)
				if !ok || be.Op != token.EQL {
					return true
				}
				if id, ok := be.X.(*ast.Ident); ok && id.Name == "elem" {
					if lit, ok := c12Lit(be.Y); ok {
						dotLits = append(dotLits, lit)
					} else {
						dotLits = append(dotLits, "unknown")
					}
				}
				return true
			})
		}
	}
	// exported API of the two files; body of DropFragment
	api := []string{}
	dropBody := []string{"unknown"}
	for _, fn := range []string{"parsed_iri.go", "base_iri.go"} {
		f2, err := parser.ParseFile(fset, filepath.Join(repo, "iri", fn), nil, 0)
		if err != nil {
			fmt.Fprintln(os.Stderr, "c12:", err)
			os.Exit(2)
		}
		for _, d := range f2.Decls {
			fd, ok := d.(*ast.FuncDecl)
			if !ok || !fd.Name.IsExported() {
				continue
			}
			recv := "func"
			if fd.Recv != nil && len(fd.Recv.List) == 1 {
				t := fd.Recv.List[0].Type
				if st, ok := t.(*ast.StarExpr); ok {
					t = st.X
				}
				if id, ok := t.(*ast.Ident); ok {
					recv = id.Name
				} else {
					recv = "unknown"
				}
			}
			api = append(api, recv+"."+fd.Name.Name)
			if recv == "ParsedIRI" && fd.Name.Name == "DropFragment" && fd.Body != nil {
				dropBody = []string{}
				for _, st := range fd.Body.List {
					item := "unknown"
					if as, ok := st.(*ast.AssignStmt); ok && as.Tok == token.ASSIGN && len(as.Lhs) == 1 && len(as.Rhs) == 1 {
						lhs := c12Sel(as.Lhs[0])
						if lit, ok := c12Lit(as.Rhs[0]); ok && lhs != "" {
							item = lhs + "=" + strconv.Quote(lit)
						} else if id, ok := as.Rhs[0].(*ast.Ident); ok && lhs != "" {
							item = lhs + "=" + id.Name
						}
					}
					dropBody = append(dropBody, item)
				}
			}
		}
	}
	sort.Strings(api)
	sort.Strings(dropBody) // as a set: the three assignments are independent
	// as a set: the order of comparisons is a matter of style
	sort.Strings(dotLits)
	uniq := dotLits[:0]
	for i, l := range dotLits {
		if i == 0 || l != dotLits[i-1] {
			uniq = append(uniq, l)
		}
	}
	dotLits = uniq
	var sb strings.Builder
	sb.WriteString("-- GENERATED by /verif/go/cmd/extract (gen_c12.go) from iri/parsed_iri.go (T2: go/ast facts). Do not edit.\n")
	sb.WriteString("namespace RdfModel.Gen.IRIFacts\n\n")
	q := func(xs []string) string {
		ys := make([]string, len(xs))
		for i, x := range xs {
			ys[i] = strconv.Quote(x)
		}
		return "[" + strings.Join(ys, ", ") + "]"
	}
	fmt.Fprintf(&sb, "/-- conjuncts of the guard of the reclassification block of ParseIRI, in source order -/\ndef reclassifyGuard : List String :=\n  %s\n\n", q(guard))
	schemes := []string{}
	for _, c := range guard {
		if strings.HasPrefix(c, "u.Scheme!=") {
			if s, err := strconv.Unquote(strings.TrimPrefix(c, "u.Scheme!=")); err == nil && s != "" {
				schemes = append(schemes, c12LeanBytes(s))
			}
		}
	}
	fmt.Fprintf(&sb, "/-- the non-empty schemes excluded by that guard (kept hierarchical), as bytes -/\ndef hierarchicalSchemes : List (List Nat) :=\n  [%s]\n\n", strings.Join(schemes, ", "))
	fmt.Fprintf(&sb, "/-- second argument of strings.HasSuffix(s, …) computing forceFragment in ParseIRI -/\ndef forceFragmentSuffix : String := %s\n\n", strconv.Quote(hasSuffix))
	fmt.Fprintf(&sb, "/-- how ResolveReference combines the flags -/\ndef forceFragmentCombine : String := %s\n\n", strconv.Quote(forceCombine))
	fmt.Fprintf(&sb, "/-- literals compared with `elem` in resolvePath (sorted set) -/\ndef resolvePathElemLiterals : List String :=\n  %s\n\n", q(dotLits))
	fmt.Fprintf(&sb, "/-- exported functions (`func.Name`) and exported methods (`Receiver.Name`) of iri/parsed_iri.go and iri/base_iri.go, sorted -/\ndef parsedIRIApi : List String :=\n  %s\n\n", q(api))
	fmt.Fprintf(&sb, "/-- statements of (*ParsedIRI).DropFragment, sorted (`unknown`: not a plain assignment of a literal) -/\ndef dropFragmentBody : List String :=\n  %s\n\n", q(dropBody))
	sb.WriteString("end RdfModel.Gen.IRIFacts\n")
	writeIfChanged(filepath.Join(leanRoot, "RdfModel", "Gen", "IRIFacts.lean"), sb.String())
}
