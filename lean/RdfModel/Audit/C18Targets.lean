/-
  Audit for C18 (Turtle / RDF-JSON targets and the option plumbing, builder-c18b): axioms used by every
  theorem of Props/C18Targets.lean (expected: a subset of {propext, Classical.choice, Quot.sound}).
-/
import RdfModel.Props.C18Targets
import RdfModel.Props.C18TargetsEx
open RdfModel

#print axioms RdfModel.C18.cli_param_facts
#print axioms RdfModel.C18.cli_flag_facts
#print axioms RdfModel.C18.ttl_options_shape
#print axioms RdfModel.C18.ttl_options_no_defaults
#print axioms RdfModel.C18.ttl_options_default
#print axioms RdfModel.C18.encoder_base_flag
#print axioms RdfModel.C18.encoder_base_resource
#print axioms RdfModel.C18.pipe_preserves_ttl_plain
#print axioms RdfModel.C18.pipe_preserves_ttl_resources_partial
#print axioms RdfModel.C18.ttl_resources_writer
#print axioms RdfModel.C18.pipe_ttl_assign_link
#print axioms RdfModel.C18.pipe_preserves_ttl_assign
#print axioms RdfModel.C18.pipe_preserves_ttl_resources_holds
#print axioms RdfModel.C18.pipe_preserves_rdfjson
#print axioms RdfModel.C18.pipe_rdfjson_params
#print axioms RdfModel.C18.pipe_preserves_nq_params
#print axioms RdfModel.C18.Example.cfg_ok
#print axioms RdfModel.C18.Example.ttl_roundtrip
#print axioms RdfModel.C18.Example.rj_roundtrip
#print axioms RdfModel.C18.Example.Res.ttl_resources_roundtrip
#print axioms RdfModel.C18.Example.Nest.ttl_resources_full
#print axioms RdfModel.C18.Example.Nest.assign_ok
