/-
  Property C07, table level: the four decoders carry separate copies of the character-class
  functions (`encoding/{ntriples,nquads,turtle,trig}/internal/rune_util.go`, `hex_util.go`). The
  copies regenerated from /repo on this run (T1, exhaustive over 0…0x10FFFF) denote the same sets:

  * `PN_CHARS_BASE` and `HexDecode`: the four tables are identical;
  * `PN_CHARS_U` and `PN_CHARS`: the Turtle and TriG tables are identical; the N-Triples and N-Quads
    tables are identical; and the latter are the former plus exactly the code point ':' (the
    N-Triples grammar's PN_CHARS_U contains ':', Turtle's does not — the documented difference).

  The extractor coalesces each function into maximal ranges, so equal sets give equal lists; the
  comparisons are `decide` on a few dozen entries.
-/
import RdfModel.Gen.TtlTables
import RdfModel.Gen.NQTables
import RdfModel.Proofs.C07Ranges
namespace RdfModel.C07
open RdfModel RdfModel.Gen

theorem tables_agree :
    -- PN_CHARS_BASE: four identical copies
    (turtle_pnCharsBase = trig_pnCharsBase ∧ turtle_pnCharsBase = nquads_pnCharsBase ∧
      turtle_pnCharsBase = ntriples_pnCharsBase) ∧
    -- HexDecode: four identical copies
    (turtle_hexDec = trig_hexDec ∧ turtle_hexDec = nquads_hexDec ∧ turtle_hexDec = ntriples_hexDec) ∧
    -- PN_CHARS_U, PN_CHARS: identical within each grammar family
    (turtle_pnCharsU = trig_pnCharsU ∧ turtle_pnChars = trig_pnChars ∧
      nquads_pnCharsU = ntriples_pnCharsU ∧ nquads_pnChars = ntriples_pnChars) ∧
    -- … and across the families they differ by ':' only
    (∀ c, c ≠ 0x3a → inRanges nquads_pnCharsU c = inRanges turtle_pnCharsU c) ∧
    (∀ c, c ≠ 0x3a → inRanges nquads_pnChars c = inRanges turtle_pnChars c) ∧
    (inRanges nquads_pnCharsU 0x3a = true ∧ inRanges nquads_pnChars 0x3a = true ∧
      inRanges turtle_pnCharsU 0x3a = false ∧ inRanges turtle_pnChars 0x3a = false) :=
  ⟨by decide, by decide, by decide,
   Proofs.C07.agree_off_point (p := 0x3a) (by decide),
   Proofs.C07.agree_off_point (p := 0x3a) (by decide),
   by decide⟩

/-- Consequence used at token level: the four `HexDecode` copies are one function. -/
theorem hexDecode_same (c : Nat) :
    lookup turtle_hexDec 0 c = lookup trig_hexDec 0 c ∧ lookup turtle_hexDec 0 c = lookup nquads_hexDec 0 c ∧
    lookup turtle_hexDec 0 c = lookup ntriples_hexDec 0 c := by
  obtain ⟨_, ⟨h1, h2, h3⟩, _⟩ := tables_agree
  rw [← h1, ← h2, ← h3]; exact ⟨rfl, rfl, rfl⟩

end RdfModel.C07
