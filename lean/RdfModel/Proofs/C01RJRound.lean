/-
  Round trip of the RDF/JSON model: `parseRoot (encodeTokens (addAll label ts))` is a permutation
  of the relabelled input, with a clean verdict.
-/
import RdfModel.Props.C01RJDefs
namespace RdfModel.Proofs.C01RJ
open RdfModel RdfModel.RJ RdfModel.C01RJ
open scoped List

variable {β : Type}

/-! ## What the decoder makes of one record / one subject key -/

def recMembers (r : ObjRec) : Members := ⟨r.datatype, r.lang, some r.type, some r.value⟩

def decRec (v : Variant) (r : ObjRec) : Term BNode :=
  match finishObject v (recMembers r) 0 with
  | some (t, _) => t
  | none => default

/-- The record is accepted and makes no anonymous node. -/
def GoodRec (v : Variant) (r : ObjRec) : Prop := ∀ n, finishObject v (recMembers r) n = some (decRec v r, n)

def decSubj (k : List Nat) : Term BNode := (subjectOf k 0).1

def GoodSubj (k : List Nat) : Prop := ∀ n, subjectOf k n = (decSubj k, n)

theorem set_datatype (m : Members) (x : List Nat) : m.set kDatatype x = { m with datatype := some x } := by
  simp [Members.set]
theorem set_lang (m : Members) (x : List Nat) : m.set kLang x = { m with lang := some x } := by
  simp [Members.set, kLang, kDatatype]
theorem set_type (m : Members) (x : List Nat) : m.set kType x = { m with type := some x } := by
  simp [Members.set, kLang, kDatatype, kType]
theorem set_value (m : Members) (x : List Nat) : m.set kValue x = { m with value := some x } := by
  simp [Members.set, kLang, kDatatype, kType, kValue]

/-! ## Decoding the token stream of a buffer written in a given order -/

theorem parse_rec (v : Variant) (e : TEnd) (s : Term BNode) (p : List Nat) (r : ObjRec) (rest : List Tok)
    (acc : Acc) (hg : GoodRec v r) :
    parse v e (.objs s p) (recTokens r ++ rest) acc
      = parse v e (.objs s p) rest { stmts := ⟨s, .iri p, decRec v r⟩ :: acc.stmts, anon := acc.anon } := by
  have hk1 : isMemberKey kDatatype = true := by decide
  have hk2 : isMemberKey kLang = true := by decide
  have hk3 : isMemberKey kType = true := by decide
  have hk4 : isMemberKey kValue = true := by decide
  obtain ⟨ty, val, lang, dt⟩ := r
  have hg' := hg acc.anon
  simp only [recMembers] at hg'
  cases dt <;> cases lang <;>
    simp [recTokens, joinSep, member, parse, hk1, hk2, hk3, hk4, set_datatype, set_lang, set_type, set_value, hg']

/-- Statements of one predicate entry, most recent first (as they sit in `Acc.stmts`). -/
def stmtsOf (v : Variant) (s : Term BNode) (p : List Nat) (os : List ObjRec) : List (Triple BNode) :=
  os.map (fun r => ⟨s, .iri p, decRec v r⟩)

theorem parse_recs_sep (v : Variant) (e : TEnd) (s : Term BNode) (p : List Nat) (rest : List Tok) :
    ∀ (os : List ObjRec) (acc : Acc), (∀ r ∈ os, GoodRec v r) →
      parse v e (.objs s p) (os.flatMap (fun r => Tok.valueSep :: recTokens r) ++ rest) acc
        = parse v e (.objs s p) rest { stmts := (stmtsOf v s p os).reverse ++ acc.stmts, anon := acc.anon } := by
  intro os
  induction os with
  | nil => intro acc _; simp [stmtsOf]
  | cons r os ih =>
    intro acc hg
    simp only [List.flatMap_cons, List.cons_append, List.append_assoc]
    rw [show parse v e (.objs s p) (Tok.valueSep :: (recTokens r ++ (os.flatMap (fun r => Tok.valueSep :: recTokens r) ++ rest))) acc
          = parse v e (.objs s p) (recTokens r ++ (os.flatMap (fun r => Tok.valueSep :: recTokens r) ++ rest)) acc by
        simp [parse]]
    rw [parse_rec v e s p r _ acc (hg r (by simp))]
    rw [ih _ (fun r' hr' => hg r' (by simp [hr']))]
    simp [stmtsOf]

theorem parse_pred (v : Variant) (e : TEnd) (s : Term BNode) (pe : List Nat × List ObjRec) (rest : List Tok)
    (acc : Acc) (hg : ∀ r ∈ pe.2, GoodRec v r) :
    parse v e (.preds s) (predTokens pe ++ rest) acc
      = parse v e (.preds s) rest { stmts := (stmtsOf v s pe.1 pe.2).reverse ++ acc.stmts, anon := acc.anon } := by
  obtain ⟨p, os⟩ := pe
  cases os with
  | nil => simp [predTokens, joinSep, parse, stmtsOf]
  | cons r os =>
    simp only [predTokens, List.map_cons, joinSep, List.cons_append, List.append_assoc, parse]
    rw [List.flatMap_map]
    rw [parse_rec v e s p r _ acc (hg r (by simp))]
    rw [parse_recs_sep v e s p _ os _ (fun r' hr' => hg r' (by simp [hr']))]
    simp [parse, stmtsOf]

def stmtsOfPreds (v : Variant) (s : Term BNode) (ps : PMap) : List (Triple BNode) :=
  ps.flatMap (fun pe => stmtsOf v s pe.1 pe.2)

def GoodPMap (v : Variant) (ps : PMap) : Prop := ∀ pe ∈ ps, ∀ r ∈ pe.2, GoodRec v r

theorem parse_preds_sep (v : Variant) (e : TEnd) (s : Term BNode) (rest : List Tok) :
    ∀ (ps : PMap) (acc : Acc), GoodPMap v ps →
      parse v e (.preds s) (ps.flatMap (fun pe => Tok.valueSep :: predTokens pe) ++ rest) acc
        = parse v e (.preds s) rest { stmts := (stmtsOfPreds v s ps).reverse ++ acc.stmts, anon := acc.anon } := by
  intro ps
  induction ps with
  | nil => intro acc _; simp [stmtsOfPreds]
  | cons pe ps ih =>
    intro acc hg
    simp only [List.flatMap_cons, List.cons_append, List.append_assoc]
    rw [show parse v e (.preds s) (Tok.valueSep :: (predTokens pe ++ (ps.flatMap (fun pe => Tok.valueSep :: predTokens pe) ++ rest))) acc
          = parse v e (.preds s) (predTokens pe ++ (ps.flatMap (fun pe => Tok.valueSep :: predTokens pe) ++ rest)) acc by
        simp [parse]]
    rw [parse_pred v e s pe _ acc (hg pe (by simp))]
    rw [ih _ (fun pe' hpe' => hg pe' (by simp [hpe']))]
    simp [stmtsOfPreds]

theorem parse_subj (v : Variant) (e : TEnd) (se : List Nat × PMap) (rest : List Tok) (acc : Acc)
    (hs : GoodSubj se.1) (hg : GoodPMap v se.2) :
    parse v e .subjects (subjTokens se ++ rest) acc
      = parse v e .subjects rest
          { stmts := (stmtsOfPreds v (decSubj se.1) se.2).reverse ++ acc.stmts, anon := acc.anon } := by
  obtain ⟨k, ps⟩ := se
  have hk := hs acc.anon
  cases ps with
  | nil => simp [subjTokens, joinSep, parse, stmtsOfPreds, hk]
  | cons pe ps =>
    simp only [subjTokens, List.map_cons, joinSep, List.cons_append, List.append_assoc, parse, hk]
    rw [List.flatMap_map]
    rw [parse_pred v e _ pe _ _ (hg pe (by simp))]
    rw [parse_preds_sep v e _ _ ps _ (fun pe' hpe' => hg pe' (by simp [hpe']))]
    simp [parse, stmtsOfPreds]

def stmtsOfState (v : Variant) (st : State) : List (Triple BNode) :=
  st.flatMap (fun se => stmtsOfPreds v (decSubj se.1) se.2)

def GoodState (v : Variant) (st : State) : Prop := ∀ se ∈ st, GoodSubj se.1 ∧ GoodPMap v se.2

theorem parse_subjs_sep (v : Variant) (e : TEnd) (rest : List Tok) :
    ∀ (st : State) (acc : Acc), GoodState v st →
      parse v e .subjects (st.flatMap (fun se => Tok.valueSep :: subjTokens se) ++ rest) acc
        = parse v e .subjects rest { stmts := (stmtsOfState v st).reverse ++ acc.stmts, anon := acc.anon } := by
  intro st
  induction st with
  | nil => intro acc _; simp [stmtsOfState]
  | cons se st ih =>
    intro acc hg
    simp only [List.flatMap_cons, List.cons_append, List.append_assoc]
    rw [show parse v e .subjects (Tok.valueSep :: (subjTokens se ++ (st.flatMap (fun se => Tok.valueSep :: subjTokens se) ++ rest))) acc
          = parse v e .subjects (subjTokens se ++ (st.flatMap (fun se => Tok.valueSep :: subjTokens se) ++ rest)) acc by
        simp [parse]]
    rw [parse_subj v e se _ acc (hg se (by simp)).1 (hg se (by simp)).2]
    rw [ih _ (fun se' hse' => hg se' (by simp [hse']))]
    simp [stmtsOfState]

/-- Decoding the tokens of a buffer written in the given key order. -/
theorem parseRoot_rawTokens (v : Variant) (st : State) (hg : GoodState v st) :
    parseRoot v (rawTokens st) .eof = .done (stmtsOfState v st) .clean := by
  unfold parseRoot rawTokens
  cases st with
  | nil => simp [joinSep, parse, stmtsOfState]
  | cons se st =>
    simp only [List.map_cons, joinSep, List.append_assoc, parse]
    rw [List.flatMap_map]
    rw [parse_subj v .eof se _ _ (hg se (by simp)).1 (hg se (by simp)).2]
    rw [parse_subjs_sep v .eof _ st _ (fun se' hse' => hg se' (by simp [hse']))]
    simp [parse, stmtsOfState]

/-! ## Permutation lemmas -/

theorem perm_snoc_mid {α : Type} (a r : List α) (x : α) : (a ++ [x]) ++ r ~ (a ++ r) ++ [x] := by
  rw [List.append_assoc, List.append_assoc]
  exact List.Perm.append_left a List.perm_append_comm

theorem flatMap_perm_pointwise {α γ : Type} (f g : α → List γ) :
    ∀ l : List α, (∀ a ∈ l, f a ~ g a) → l.flatMap f ~ l.flatMap g := by
  intro l
  induction l with
  | nil => intro _; simp
  | cons a l ih =>
    intro h
    simp only [List.flatMap_cons]
    exact List.Perm.append (h a (by simp)) (ih (fun b hb => h b (by simp [hb])))

theorem insertSorted_perm {α : Type} (k : List Nat) (x : α) :
    ∀ l : List (List Nat × α), insertSorted k x l ~ (k, x) :: l := by
  intro l
  induction l with
  | nil => simp [insertSorted]
  | cons e l ih =>
    obtain ⟨k', x'⟩ := e
    simp only [insertSorted]
    split
    · exact (List.Perm.cons _ ih).trans (List.Perm.swap _ _ _)
    · exact List.Perm.refl _

theorem sortKeys_perm {α : Type} : ∀ l : List (List Nat × α), sortKeys l ~ l := by
  intro l
  induction l with
  | nil => simp [sortKeys]
  | cons e l ih =>
    obtain ⟨k, x⟩ := e
    simp only [sortKeys]
    exact (insertSorted_perm k x _).trans (List.Perm.cons _ ih)

theorem stmtsOfState_sort (v : Variant) (st : State) : stmtsOfState v (sortState st) ~ stmtsOfState v st := by
  unfold stmtsOfState sortState
  refine (List.Perm.flatMap_right _ (sortKeys_perm _)).trans ?_
  rw [List.flatMap_map]
  apply flatMap_perm_pointwise
  intro se _
  exact List.Perm.flatMap_right _ (sortKeys_perm _)

theorem goodState_sort (v : Variant) (st : State) (h : GoodState v st) : GoodState v (sortState st) := by
  intro se hse
  have hmem := (sortKeys_perm _).mem_iff.1 hse
  simp only [List.mem_map] at hmem
  obtain ⟨se0, h0, rfl⟩ := hmem
  refine ⟨(h se0 h0).1, ?_⟩
  intro pe hpe
  exact (h se0 h0).2 pe ((sortKeys_perm _).mem_iff.1 hpe)

/-! ## The buffer after `AddTriple` -/

theorem stmtsOfPreds_insert (v : Variant) (s : Term BNode) (p : List Nat) (o : ObjRec) :
    ∀ ps : PMap, stmtsOfPreds v s (insertObj p o ps) ~ stmtsOfPreds v s ps ++ [⟨s, .iri p, decRec v o⟩] := by
  intro ps
  induction ps with
  | nil => simp [insertObj, stmtsOfPreds, stmtsOf]
  | cons pe ps ih =>
    obtain ⟨k, os⟩ := pe
    simp only [insertObj]
    split
    · next hk =>
      subst hk
      simp only [stmtsOfPreds, List.flatMap_cons, stmtsOf, List.map_append, List.map_cons, List.map_nil]
      exact perm_snoc_mid _ _ _
    · simp only [stmtsOfPreds, List.flatMap_cons, List.append_assoc]
      exact List.Perm.append_left _ ih

theorem stmtsOfState_insert (v : Variant) (s p : List Nat) (o : ObjRec) :
    ∀ st : State, stmtsOfState v (insertSPO s p o st) ~ stmtsOfState v st ++ [⟨decSubj s, .iri p, decRec v o⟩] := by
  intro st
  induction st with
  | nil => simp [insertSPO, stmtsOfState, stmtsOfPreds, stmtsOf]
  | cons se st ih =>
    obtain ⟨k, ps⟩ := se
    simp only [insertSPO]
    split
    · next hk =>
      subst hk
      simp only [stmtsOfState, List.flatMap_cons]
      exact (List.Perm.append_right _ (stmtsOfPreds_insert v _ p o ps)).trans (perm_snoc_mid _ _ _)
    · simp only [stmtsOfState, List.flatMap_cons, List.append_assoc]
      exact List.Perm.append_left _ ih

theorem goodPMap_insert (v : Variant) (p : List Nat) (o : ObjRec) (ho : GoodRec v o) :
    ∀ ps : PMap, GoodPMap v ps → GoodPMap v (insertObj p o ps) := by
  intro ps
  induction ps with
  | nil =>
    intro _ pe hpe r hr
    simp only [insertObj, List.mem_singleton] at hpe
    subst hpe
    simp only [List.mem_singleton] at hr
    subst hr; exact ho
  | cons pe ps ih =>
    obtain ⟨k, os⟩ := pe
    intro h
    simp only [insertObj]
    split
    · intro pe' hpe' r hr
      simp only [List.mem_cons] at hpe'
      rcases hpe' with rfl | hpe'
      · simp only [List.mem_append, List.mem_singleton] at hr
        rcases hr with hr | rfl
        · exact h (k, os) (by simp) r hr
        · exact ho
      · exact h pe' (by simp [hpe']) r hr
    · intro pe' hpe' r hr
      simp only [List.mem_cons] at hpe'
      rcases hpe' with rfl | hpe'
      · exact h (k, os) (by simp) r hr
      · exact ih (fun pe'' h'' => h pe'' (by simp [h''])) pe' hpe' r hr

theorem goodState_insert (v : Variant) (s p : List Nat) (o : ObjRec) (hs : GoodSubj s) (ho : GoodRec v o) :
    ∀ st : State, GoodState v st → GoodState v (insertSPO s p o st) := by
  intro st
  induction st with
  | nil =>
    intro _ se hse
    simp only [insertSPO, List.mem_singleton] at hse
    subst hse
    exact ⟨hs, goodPMap_insert v p o ho [] (by intro pe hpe; cases hpe)⟩
  | cons se st ih =>
    obtain ⟨k, ps⟩ := se
    intro h
    simp only [insertSPO]
    split
    · next hk =>
      intro se' hse'
      simp only [List.mem_cons] at hse'
      rcases hse' with rfl | hse'
      · exact ⟨(h (k, ps) (by simp)).1, goodPMap_insert v p o ho ps (h (k, ps) (by simp)).2⟩
      · exact h se' (by simp [hse'])
    · intro se' hse'
      simp only [List.mem_cons] at hse'
      rcases hse' with rfl | hse'
      · exact h (k, ps) (by simp)
      · exact ih (fun se'' h'' => h se'' (by simp [h''])) se' hse'

/-! ## One well-formed triple -/

theorem goodRec_of (v : Variant) (r : ObjRec) (t : Term BNode)
    (h : ∀ n, finishObject v (recMembers r) n = some (t, n)) : GoodRec v r ∧ decRec v r = t := by
  have ht : decRec v r = t := by simp [decRec, h 0]
  exact ⟨fun n => by rw [ht]; exact h n, ht⟩

theorem bnPrefix_bnKey (l : List Nat) : bnPrefix? (bnKey l) = some l := rfl

theorem mkBNode_named (l : List Nat) (hl : l ≠ []) (n : Nat) : mkBNode l n = (.named l, n) := by
  cases l with
  | nil => exact absurd rfl hl
  | cons a l => simp [mkBNode]

/-- The subject key written by `AddTriple`. -/
def subjKey (label : β → List Nat) : Term β → List Nat
  | .bnode b => bnKey (label b)
  | .iri v => v
  | .lit .. => []

theorem goodSubj_of_wf (label : β → List Nat) (hl : ∀ b, label b ≠ []) (s : Term β) (hs : WFSubject s) :
    GoodSubj (subjKey label s) ∧ decSubj (subjKey label s) = s.map (fun b => BNode.named (label b)) := by
  cases s with
  | iri k =>
    simp only [WFSubject] at hs
    simp [GoodSubj, decSubj, subjKey, subjectOf, hs, Term.map]
  | bnode b =>
    simp [GoodSubj, decSubj, subjKey, subjectOf, bnPrefix_bnKey, mkBNode_named _ (hl b), Term.map]
  | lit l d t => exact absurd hs (by simp [WFSubject])

theorem goodRec_of_wf (v : Variant) (label : β → List Nat) (hl : ∀ b, label b ≠ []) (o : Term β)
    (ho : WFObject o) :
    GoodRec v (objRec label o) ∧ decRec v (objRec label o) = o.map (fun b => BNode.named (label b)) := by
  have h1 : vUri ≠ vLiteral := by decide
  have h2 : vBnode ≠ vLiteral := by decide
  have h3 : vBnode ≠ vUri := by decide
  apply goodRec_of
  intro n
  cases o with
  | iri x => simp [objRec, recMembers, finishObject, h1, Term.map]
  | bnode b =>
    simp [objRec, recMembers, finishObject, h2, h3, bnPrefix_bnKey, mkBNode_named _ (hl b), Term.map]
  | lit lex dt tag =>
    obtain ⟨hne, hdir, htag⟩ := ho
    simp only [objRec]
    by_cases hlang : dt = rdfLangString
    · subst hlang
      cases tag with
      | none => exact absurd rfl htag
      | some l =>
        obtain ⟨_, hl0⟩ := htag
        simp [recMembers, finishObject, finishLiteral, hl0, Term.map]
    · cases tag with
      | some l => exact absurd htag.1 hlang
      | none =>
        by_cases hx : dt = xsdString
        · subst hx
          simp [hlang, recMembers, finishObject, finishLiteral, Term.map]
        · simp [hlang, hx, recMembers, finishObject, finishLiteral, hne, hdir, Term.map]

theorem addTriple_wf (label : β → List Nat) (st : State) (t : Triple β) (hwf : WFTriple t) :
    ∃ p, t.p = .iri p ∧
      addTriple label st t = some (insertSPO (subjKey label t.s) p (objRec label t.o) st) := by
  obtain ⟨hs, hp, _⟩ := hwf
  obtain ⟨s, p, o⟩ := t
  cases p with
  | iri pv =>
    refine ⟨pv, rfl, ?_⟩
    cases s with
    | iri k => simp [addTriple, subjKey]
    | bnode b => simp [addTriple, subjKey]
    | lit l d t => exact absurd hs (by simp [WFSubject])
  | bnode b => exact absurd hp (by simp [WFPredicate])
  | lit l d t => exact absurd hp (by simp [WFPredicate])

theorem addAllFrom_spec (v : Variant) (label : β → List Nat) (hl : ∀ b, label b ≠ []) :
    ∀ (ts : List (Triple β)) (st : State), (∀ t ∈ ts, WFTriple t) → GoodState v st →
      GoodState v (addAllFrom label st ts) ∧
      stmtsOfState v (addAllFrom label st ts) ~ stmtsOfState v st ++ ts.map (relabel label) := by
  intro ts
  induction ts with
  | nil => intro st _ hg; exact ⟨hg, by simp [addAllFrom]⟩
  | cons t ts ih =>
    intro st hwf hg
    have ht := hwf t (by simp)
    obtain ⟨p, hp, hadd⟩ := addTriple_wf label st t ht
    obtain ⟨hgs, hds⟩ := goodSubj_of_wf label hl t.s ht.s
    obtain ⟨hgo, hdo⟩ := goodRec_of_wf v label hl t.o ht.o
    have hg' := goodState_insert v (subjKey label t.s) p (objRec label t.o) hgs hgo st hg
    obtain ⟨ih1, ih2⟩ := ih _ (fun t' ht' => hwf t' (by simp [ht'])) hg'
    simp only [addAllFrom, hadd, Option.getD_some]
    refine ⟨ih1, ih2.trans ?_⟩
    have hrel : (⟨decSubj (subjKey label t.s), .iri p, decRec v (objRec label t.o)⟩ : Triple BNode) = relabel label t := by
      obtain ⟨s, p', o⟩ := t
      simp only at hp
      subst hp
      simp [relabel, Triple.map, hds, hdo, Term.map]
    rw [List.map_cons, ← hrel]
    refine (List.Perm.append_right _ (stmtsOfState_insert v _ p _ st)).trans ?_
    simp

theorem roundtrip (v : Variant) (label : β → List Nat) (hl : ∀ b, label b ≠ [])
    (ts : List (Triple β)) (hwf : ∀ t ∈ ts, WFTriple t) :
    ∃ out, parseRoot v (encodeTokens (addAll label ts)) .eof = .done out .clean ∧
      out ~ ts.map (relabel label) := by
  have hnil : GoodState v ([] : State) := by intro se hse; cases hse
  obtain ⟨hg, hperm⟩ := addAllFrom_spec v label hl ts [] hwf hnil
  refine ⟨stmtsOfState v (sortState (addAll label ts)), ?_, ?_⟩
  · exact parseRoot_rawTokens v _ (goodState_sort v _ hg)
  · refine (stmtsOfState_sort v _).trans ?_
    simpa [stmtsOfState, addAll] using hperm

end RdfModel.Proofs.C01RJ
