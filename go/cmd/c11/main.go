// Command c11: property C11 — RDFa, Microdata and embedded JSON-LD in HTML decode to the data they mark up; the
// combined HTML decoder yields the union without identifying blank nodes across syntaxes.
//
// Case families (all documents are serialised from abstract trees, with layout that must not matter, and checked
// to be reproduced verbatim by the HTML5 parser before they are used):
//
//	rdfa-writer   graph + markup choices → Lean `Rdfa.write` → HTML → htmlrdfa          = graph (oracle) = Rdfa.denote (T3)
//	md-writer     graph + markup choices → Lean `Microdata.write` → HTML → htmlmicrodata = graph (oracle) = Microdata.denote (T3)
//	rdfa-soup     random RDFa attribute trees  → htmlrdfa      = Rdfa.denote (T3)
//	md-soup       random Microdata trees       → htmlmicrodata = Microdata.denote (T3)
//	jsonld        graph → JSON-LD text in script elements → htmljsonld = graph (oracle); script extraction = `scriptsNode` (T3)
//	(round 3: generator families "prefix scope", "host default vocabulary", "ids on ancestors": see families.go)
//	combined      one document with all three → htmldefaults = concatenation of the three sub-decoders = disjoint union of
//	              the three graphs; no blank node of one sub-stream TermEquals one of another; chain model (T3)
package main

import (
	"encoding/json"
	"flag"
	"fmt"
	"net/url"
	"os"
	"sort"
	"strings"

	"verifharness/vh"

	"github.com/dpb587/rdfkit-go/encoding"
	enchtml "github.com/dpb587/rdfkit-go/encoding/html"
	"github.com/dpb587/rdfkit-go/encoding/html/htmldefaults"
	"github.com/dpb587/rdfkit-go/encoding/htmljsonld"
	"github.com/dpb587/rdfkit-go/encoding/htmlmicrodata"
	"github.com/dpb587/rdfkit-go/encoding/htmlrdfa"
	"github.com/dpb587/rdfkit-go/encoding/jsonld"
	"github.com/dpb587/rdfkit-go/rdf"
	xhtml "golang.org/x/net/html"
)

var (
	tier     = flag.String("tier", "quick", "quick|thorough")
	driver   = flag.String("driver", "/verif/lean/.lake/build/bin/driver", "lean driver binary")
	out      = flag.String("out", "/verif/evidence/.C11.c11.report.json", "report path")
	findings = flag.String("findings", "/verif/known-findings.json", "known findings")
	replay   = flag.String("replay", "", "replay file (JSON written by ./check, or one case per line: <family> <base-hex> <html-hex>)")
	scale    = flag.Int("scale", 1, "multiply generated case counts (search mode uses 10)")
	nomodel  = flag.Bool("nomodel", false, "property oracle on the implementation only")
	hints    = flag.String("hints", "", "unused (accepted for ./check)")
	only     = flag.String("only", "", "comma-separated case families (development aid)")
	verbose  = flag.Bool("v", false, "print every failing case")
	corpus   = flag.String("corpus", "/verif/corpus/C11/witnesses.txt", "hand-picked documents (witnesses of repaired or listed defects, W3C test 0226), run first")
	shrinkN  = flag.Int("shrink", 3, "shrink the first N disagreements of the soup families to small witnesses")
)

// ---------------------------------------------------------------- running the decoders

type decoded struct {
	quads []rdf.Quad
	err   string // "" | error text
	panic string
}

func catch(d *decoded) {
	if r := recover(); r != nil {
		d.panic = fmt.Sprint(r)
	}
}

// document construction paths: 0 ParseDocument, 1 ParseDocument with text offsets (inspecthtml parser),
// 2 x/net/html parse + NewDocument (a DOM the caller already has)
func parseDoc(text, base string, mode int) (*enchtml.Document, error) {
	if mode == 2 {
		root, err := xhtml.Parse(strings.NewReader(text))
		if err != nil {
			return nil, err
		}
		return enchtml.NewDocument(root, base)
	}
	opts := enchtml.DocumentConfig{}
	if base != "" {
		opts = opts.SetLocation(base)
	}
	if mode == 1 {
		opts = opts.SetCaptureTextOffsets(true)
	}
	return enchtml.ParseDocument(strings.NewReader(text), opts)
}

func drainTriples(d encoding.TriplesDecoder, res *decoded) {
	for d.Next() {
		res.quads = append(res.quads, rdf.Quad{Triple: d.Triple()})
	}
	if d.Err() != nil {
		res.err = d.Err().Error()
	}
}

func decodeRdfa(text, base string, mode int) (res decoded) {
	defer catch(&res)
	doc, err := parseDoc(text, base, mode)
	if err != nil {
		res.err = "parse: " + err.Error()
		return
	}
	d, err := htmlrdfa.NewDecoder(doc)
	if err != nil {
		res.err = "new: " + err.Error()
		return
	}
	drainTriples(d, &res)
	return
}

func decodeMd(text, base string, mode int) (res decoded) {
	defer catch(&res)
	doc, err := parseDoc(text, base, mode)
	if err != nil {
		res.err = "parse: " + err.Error()
		return
	}
	// configured as encoding/html/htmldefaults does
	d, err := htmlmicrodata.NewDecoder(doc, htmlmicrodata.DecoderConfig{}.SetVocabularyResolver(htmlmicrodata.ItemtypeVocabularyResolver))
	if err != nil {
		res.err = "new: " + err.Error()
		return
	}
	drainTriples(d, &res)
	return
}

func decodeJsonld(text, base string, mode int) (res decoded) {
	defer catch(&res)
	doc, err := parseDoc(text, base, mode)
	if err != nil {
		res.err = "parse: " + err.Error()
		return
	}
	d, err := htmljsonld.NewDecoder(doc)
	if err != nil {
		res.err = "new: " + err.Error()
		return
	}
	for d.Next() {
		res.quads = append(res.quads, d.Quad())
	}
	if d.Err() != nil {
		res.err = d.Err().Error()
	}
	return
}

func decodeAll(text, base string, capture bool) (res decoded) {
	defer catch(&res)
	cfg := htmldefaults.DecoderConfig{}
	if base != "" {
		cfg = cfg.SetLocation(base)
	}
	if capture {
		cfg = cfg.SetCaptureTextOffsets(true)
	}
	d, err := htmldefaults.NewDecoder(strings.NewReader(text), cfg)
	if err != nil {
		res.err = "new: " + err.Error()
		return
	}
	for d.Next() {
		res.quads = append(res.quads, d.Quad())
	}
	if d.Err() != nil {
		res.err = d.Err().Error()
	}
	return
}

func decodeJsonldText(text, base string) (res decoded) {
	defer catch(&res)
	d, err := jsonld.NewDecoder(strings.NewReader(text), jsonld.DecoderConfig{}.SetDefaultBase(base))
	if err != nil {
		res.err = "new: " + err.Error()
		return
	}
	for d.Next() {
		res.quads = append(res.quads, d.Quad())
	}
	if d.Err() != nil {
		res.err = d.Err().Error()
	}
	return
}

// ---------------------------------------------------------------- model terms -> rdf terms

type bnSpace struct {
	f     rdf.BlankNodeFactory
	nodes map[string]rdf.BlankNode
}

func newBnSpace() *bnSpace {
	return &bnSpace{f: rdf.NewBlankNodeFactory(), nodes: map[string]rdf.BlankNode{}}
}

func (s *bnSpace) node(label string) rdf.BlankNode {
	if n, ok := s.nodes[label]; ok {
		return n
	}
	n := s.f.NewBlankNode()
	s.nodes[label] = n
	return n
}

func (s *bnSpace) term(t Term, pfx string) rdf.Term {
	switch t.Kind {
	case 'I':
		return rdf.IRI(t.V)
	case 'B':
		return s.node(pfx + t.V)
	}
	l := rdf.Literal{Datatype: rdf.IRI(t.DT), LexicalForm: t.V}
	if t.DT == rdfLangString {
		l.Tag = rdf.LanguageLiteralTag{Language: t.Lang}
	}
	return l
}

func (s *bnSpace) quads(g []Triple, pfx string) []rdf.Quad {
	out := make([]rdf.Quad, 0, len(g))
	for _, t := range g {
		out = append(out, rdf.Quad{Triple: rdf.Triple{
			Subject:   s.term(t.S, pfx).(rdf.SubjectValue),
			Predicate: s.term(t.P, pfx).(rdf.PredicateValue),
			Object:    s.term(t.O, pfx).(rdf.ObjectValue),
		}})
	}
	return out
}

func showQuads(qs []rdf.Quad) string {
	ids := map[rdf.BlankNodeIdentifier]int{}
	bn := func(b rdf.BlankNode) string {
		if _, ok := ids[b.Identifier]; !ok {
			ids[b.Identifier] = len(ids)
		}
		return fmt.Sprintf("g%d", ids[b.Identifier])
	}
	show := func(t rdf.Term) string {
		switch v := t.(type) {
		case nil:
			return "-"
		case rdf.IRI:
			return "<" + string(v) + ">"
		case rdf.BlankNode:
			return "_:" + bn(v)
		case rdf.Literal:
			s := fmt.Sprintf("%q^^<%s>", v.LexicalForm, v.Datatype)
			if lt, ok := v.Tag.(rdf.LanguageLiteralTag); ok {
				s += "@" + lt.Language
			}
			return s
		}
		return fmt.Sprintf("?%T", t)
	}
	parts := make([]string, len(qs))
	for i, q := range qs {
		parts[i] = show(q.Triple.Subject) + " " + show(q.Triple.Predicate) + " " + show(q.Triple.Object)
		if q.GraphName != nil {
			parts[i] += " " + show(q.GraphName)
		}
	}
	sort.Strings(parts)
	return strings.Join(parts, " . ")
}

// ---------------------------------------------------------------- harness state

type harness struct {
	r     *vh.Rng
	rep   *vh.Report
	known map[string]vh.Finding
	drv   vh.Driver
	fam   map[string]bool
	// how many failures were shrunk so far
	shrunk int
	quiet  bool
}

func (h *harness) want(f string) bool { return len(h.fam) == 0 || h.fam[f] }

func (h *harness) mode() int {
	switch x := h.r.Intn(100); {
	case x < 60:
		return 0
	case x < 85:
		return 1
	}
	return 2
}

// modePreds: the known-finding class of the NewDocument path
func modePreds(mode int, base string) []string {
	if mode == 2 && base != "" {
		return []string{"html-newdocument-location-not-base"}
	}
	return nil
}

// present chooses how the effective document base `base` is presented to the decoders: as the location alone, or as
// a <base href> (absolute, absolute-path, network-path, same-directory relative, dot-segment relative) together with
// a location against which the href resolves to `base`. Returns the document (with the base element(s) in its
// head) and the location to decode with. A later <base>, and an earlier one without href, must not matter.
func (h *harness) present(doc *Node, base string) (*Node, string) {
	if base == "" || h.r.Chance(40) {
		return doc, base
	}
	u, err := url.Parse(base)
	if err != nil || u.Host == "" || u.Scheme == "" || !strings.HasPrefix(u.EscapedPath(), "/") {
		return doc, base
	}
	origin := u.Scheme + "://" + u.Host
	rest := base[len(origin):] // path ? query # fragment, as written
	path := u.EscapedPath()
	slash := strings.LastIndexByte(path, '/')
	dir, tail := path[:slash+1], rest[slash+1:]
	if tail == "" || tail[0] == '?' || tail[0] == '#' {
		tail = "./" + tail
	}
	var href, location string
	switch h.r.Intn(6) {
	case 0:
		href, location = base, vh.Pick(h.r, []string{"", "http://elsewhere.example/x/y.html", base, origin + "/unrelated"})
	case 1:
		href, location = rest, origin+vh.Pick(h.r, []string{"/some/other/place.html", "/", "/x?y=z"})
	case 2:
		href, location = "//"+u.Host+rest, u.Scheme+"://other.example/q/r.html"
	case 3:
		href, location = tail, origin+dir+vh.Pick(h.r, []string{"zz.html", "", "zz?k=v#f"})
	case 4:
		href, location = "../../"+strings.TrimPrefix(tail, "./"), origin+dir+"sub/deeper/x.html"
	default:
		href, location = "../"+strings.TrimPrefix(tail, "./"), origin+dir+"sub/x.html"
	}
	var bases []*Node
	if h.r.Chance(15) {
		bases = append(bases, E("base", nil)) // no href: not the one
	}
	bases = append(bases, E("base", []Attr{{"href", href}}))
	if h.r.Chance(25) {
		bases = append(bases, E("base", []Attr{{"href", "http://decoy.example/d/"}}))
	}
	head := doc.Kids[0]
	nhead := &Node{Tag: head.Tag, Attrs: head.Attrs, Kids: append(append([]*Node{}, bases...), head.Kids...)}
	if h.r.Chance(20) && len(head.Kids) > 0 {
		// the base element need not come first in the head
		nhead.Kids = append(append([]*Node{head.Kids[0]}, bases...), head.Kids[1:]...)
	}
	ndoc := &Node{Tag: doc.Tag, Attrs: doc.Attrs, Kids: append([]*Node{nhead}, doc.Kids[1:]...)}
	h.rep.Count("base-presentation:" + []string{"absolute", "absolute-path", "network-path", "same-dir", "dot-segments-2", "dot-segments-1"}[presentKind(href, base)])
	return ndoc, location
}

func presentKind(href, base string) int {
	switch {
	case href == base:
		return 0
	case strings.HasPrefix(href, "//"):
		return 2
	case strings.HasPrefix(href, "/"):
		return 1
	case strings.HasPrefix(href, "../../"):
		return 4
	case strings.HasPrefix(href, "../"):
		return 5
	}
	return 3
}

func (h *harness) layout() *layout { return &layout{r: h.r, plain: h.r.Chance(10)} }

// fail records a failing case, or a known one when a listed finding's predicate recognises it.
func (h *harness) fail(kind, family, base, html, detail, goR, model string, preds []string) {
	op := family + " " + hx(base) + " " + hx(html)
	for _, p := range preds {
		if f, ok := h.known[p]; ok {
			h.rep.Count("known:" + f.Key)
			// the report keeps a bounded number of cases: a few per finding, so that failures are never crowded out
			if h.rep.Hist["known:"+f.Key] <= 5 {
				h.rep.Add(vh.Case{Kind: "known", Key: f.Key, Op: op, Detail: f.Key + " " + f.What + " — " + detail, Go: goR, Model: model})
			}
			return
		}
	}
	if *verbose {
		fmt.Fprintf(os.Stderr, "%s %s base=%q\n  html=%s\n  %s\n  go=%s\n  model=%s\n", kind, family, base, html, detail, goR, model)
	}
	h.rep.Count("fail:" + family)
	h.rep.Add(vh.Case{Kind: kind, Op: op, Detail: family + ": " + detail + " | base=" + base + " | html=" + html, Go: goR, Model: model})
}

// serialise renders doc, checks the HTML5 parser gives it back, and returns the text ("" when not verbatim:
// a defect of the harness's serialiser, reported as such).
func (h *harness) serialise(family, base string, doc *Node) string {
	text := h.layout().renderDoc(doc)
	if ok, why := verbatim(doc, text); !ok {
		h.rep.Count("harness:not-verbatim")
		h.rep.Add(vh.Case{Kind: "disagreement", Op: family + " " + hx(base) + " " + hx(text), Detail: "harness: the HTML5 parser does not reproduce the abstract tree: " + why})
		return ""
	}
	return text
}

type modelOut struct {
	info string
	doc  *Node
	g    []Triple
}

// parseWriterAnswer: `ok:<info>:<tree tokens>|<triples>`
func parseWriterAnswer(ans string) (modelOut, error) {
	if !strings.HasPrefix(ans, "ok:") {
		return modelOut{}, fmt.Errorf("driver answered %q", ans)
	}
	rest := ans[3:]
	c := strings.IndexByte(rest, ':')
	b := strings.LastIndexByte(rest, '|')
	if c < 0 || b < c {
		return modelOut{}, fmt.Errorf("malformed answer %q", ans)
	}
	doc, err := parseWire(strings.Fields(rest[c+1 : b]))
	if err != nil {
		return modelOut{}, err
	}
	g, err := parseGraphWire(rest[b+1:])
	if err != nil {
		return modelOut{}, err
	}
	return modelOut{info: rest[:c], doc: doc, g: g}, nil
}

func parseDenoteAnswer(ans string) ([]Triple, bool, error) {
	if ans == "outside" {
		return nil, false, nil
	}
	if !strings.HasPrefix(ans, "ok:") {
		return nil, false, fmt.Errorf("driver answered %q", ans)
	}
	g, err := parseGraphWire(ans[3:])
	return g, true, err
}

// compare checks a decoder result against the generating graph (oracle) and the model's denotation (T3).
func (h *harness) compare(family, base, html string, res decoded, want []Triple, haveWant bool, model []Triple, haveModel bool, preds []string) {
	if res.panic != "" {
		h.fail("violation", family, base, html, "decoder panicked: "+res.panic, res.panic, "", preds)
		return
	}
	if res.err != "" {
		h.fail("violation", family, base, html, "decoder error: "+res.err, res.err, "", preds)
		return
	}
	goS := showQuads(res.quads)
	if haveWant {
		w := newBnSpace().quads(want, "")
		if !vh.Isomorphic(res.quads, w) {
			h.fail("violation", family, base, html, "decoded graph is not the marked-up graph", goS, showQuads(w), preds)
			return
		}
	}
	if haveModel {
		h.rep.Compared++
		m := newBnSpace().quads(model, "")
		if !vh.Isomorphic(res.quads, m) {
			// The fragment semantics is a specification written from the standards, not a model of the Go code: a
			// document on which the decoder yields another graph than the one it denotes is a failure of the property
			// itself, with this document as the witness.
			h.fail("violation", family, base, html, "decoded graph is not the graph the document denotes (Spec denotation in `model`)", goS, showQuads(m), preds)
		}
	}
}

// maybeShrink: when the last compare added a failure, replace its input by a shrunk witness (first few only).
func (h *harness) maybeShrink(before int, family, base string, doc *Node) {
	if h.rep.Failures() == before || h.shrunk >= *shrinkN || *nomodel {
		return
	}
	h.shrunk++
	small := h.shrink(family, base, doc)
	text := (&layout{r: h.r, plain: true}).renderDoc(small)
	var res decoded
	op := "html.rdfa"
	if family == "md-soup" {
		res, op = decodeMd(text, base, 0), "html.md"
	} else {
		res = decodeRdfa(text, base, 0)
	}
	ans, _ := h.drv.Run([]string{op + " " + vh.XS(base) + " " + small.Wire()})
	model := ""
	if len(ans) == 1 {
		if g, ok, err := parseDenoteAnswer(ans[0]); err == nil && ok {
			model = showQuads(newBnSpace().quads(g, ""))
		}
	}
	c := &h.rep.Cases[len(h.rep.Cases)-1]
	c.Op = family + " " + hx(base) + " " + hx(text)
	c.Detail = family + ": decoder and fragment semantics differ (shrunk) | base=" + base + " | html=" + text
	c.Go, c.Model = showQuads(res.quads)+res.err+res.panic, model
}

// ---------------------------------------------------------------- families

type rdfaCase struct {
	base string
	g    []Triple
	line string
}

func (h *harness) rdfaWriter(n int) {
	var cases []rdfaCase
	var lines []string
	for i := 0; i < n; i++ {
		g := &gen{r: h.r, base: vh.Pick(h.r, bases), rel: map[string]string{}, tok: h.r.Chance(20)}
		gr := g.rdfaGraph()
		if g.base != "" && h.r.Chance(20) {
			// a vocabulary declaration: the graph then contains the rdfa:usesVocabulary triple, followed by a triple whose
			// predicate can be spelt as a term of that vocabulary. With the host default vocabulary (the decoder's special
			// value) both predefined terms (license, role) and plain ones (up, chapter) occur.
			v := pickVocab(h.r)
			k := h.r.Intn(len(gr) + 1)
			var ps []string
			for _, c := range predIRIs {
				if strings.HasPrefix(c, v) {
					ps = append(ps, c)
				}
			}
			if v == hostVocab {
				ps = append(ps, hostVocabPlain...)
				ps = append(ps, hostVocabPlain...)
			}
			extra := []Triple{{I(dropFragment(g.base)), I(usesVocab), I(v)}}
			if len(ps) > 0 {
				extra = append(extra, Triple{g.resource(true), I(vh.Pick(h.r, ps)), g.literal("sl")})
			}
			gr = append(gr[:k:k], append(extra, gr[k:]...)...)
		}
		skel, pats := g.rdfaChoices(gr)
		for _, k := range g.hist {
			h.rep.Count(k)
		}
		line := "html.rdfaw " + vh.XS(g.base) + " " + graphWire(gr) + " " + skel + " " + strings.Join(pats, " ")
		cases = append(cases, rdfaCase{g.base, gr, line})
		lines = append(lines, line)
	}
	var answers []string
	if !*nomodel {
		var err error
		answers, err = h.drv.RunParallel(lines)
		if err != nil {
			fmt.Fprintln(os.Stderr, err)
			os.Exit(2)
		}
	}
	for i, c := range cases {
		h.rep.Eval(c.line, len(c.g) >= 2)
		h.rep.Count(fmt.Sprintf("rdfa-writer:triples=%d", len(c.g)))
		if *nomodel {
			continue // without the writer there is no document
		}
		mo, err := parseWriterAnswer(answers[i])
		if err != nil {
			h.rep.Add(vh.Case{Kind: "disagreement", Op: c.line, Detail: "rdfa-writer: " + err.Error()})
			continue
		}
		var nb, nc int
		var flags string
		fmt.Sscanf(mo.info, "%d.%d.%s", &nb, &nc, &flags)
		h.rep.Hist["rdfa-writer:blocks"] += nb
		h.rep.Hist["rdfa-writer:blocks-canonical"] += nc
		// which pattern families validated (pattern tokens are the fields after the skeleton)
		pats := strings.Fields(c.line)[4:]
		for k := 0; k < len(flags) && k < len(pats); k++ {
			var take, shape int
			fmt.Sscanf(pats[k], "P%d.%d.", &take, &shape)
			voc := strings.Split(strings.SplitN(pats[k], "/", 2)[0], ".")[4]
			mod := []int{6, 7, 3, 1}[min(take-int(voc[0]-'0'), 3)]
			h.rep.Count(fmt.Sprintf("rdfa-writer:pattern take=%d voc=%s shape=%d validated=%c", take, voc, shape%mod, flags[k]))
		}
		for _, k := range scopeStats("rdfa-writer(written)", mo.doc) {
			h.rep.Count(k)
		}
		// ids are irrelevant markup: the denotation `mo.g` is that of the decorated document too (rdfa_denote_ignores_ids)
		h.maybeDecorate("rdfa-writer", mo.doc)
		pdoc, loc := h.present(mo.doc, c.base)
		text := h.serialise("rdfa-writer", loc, pdoc)
		if text == "" {
			continue
		}
		mode := h.mode()
		res := decodeRdfa(text, loc, mode)
		h.compare("rdfa-writer", loc, text, res, c.g, true, mo.g, true, append(rdfaPreds(mo.doc, c.base), modePreds(mode, loc)...))
	}
}

func (h *harness) rdfaSoup(n int) {
	type sc struct {
		base string // effective base
		loc  string // location handed to the decoder (the document may carry a <base href>)
		doc  *Node
		line string
	}
	var cases []sc
	var lines []string
	for i := 0; i < n; i++ {
		base := vh.Pick(h.r, bases)
		sdoc := (&soup{r: h.r, base: base}).rdfaDoc()
		h.maybeDecorate("rdfa-soup", sdoc)
		for _, k := range scopeStats("rdfa-soup", sdoc) {
			h.rep.Count(k)
		}
		doc, loc := h.present(sdoc, base)
		line := "html.rdfa " + vh.XS(loc) + " " + doc.Wire()
		cases = append(cases, sc{base, loc, doc, line})
		lines = append(lines, line)
	}
	var answers []string
	if !*nomodel {
		var err error
		if answers, err = h.drv.RunParallel(lines); err != nil {
			fmt.Fprintln(os.Stderr, err)
			os.Exit(2)
		}
	}
	for i, c := range cases {
		text := h.serialise("rdfa-soup", c.loc, c.doc)
		if text == "" {
			continue
		}
		mode := h.mode()
		res := decodeRdfa(text, c.loc, mode)
		h.rep.Eval(c.line, len(res.quads) >= 1)
		h.rep.Count(fmt.Sprintf("rdfa-soup:triples=%d", min(len(res.quads), 8)))
		var model []Triple
		have := false
		if !*nomodel {
			var err error
			model, have, err = parseDenoteAnswer(answers[i])
			if err != nil {
				h.rep.Add(vh.Case{Kind: "disagreement", Op: c.line, Detail: "rdfa-soup: " + err.Error()})
				continue
			}
		}
		before := h.rep.Failures()
		h.compare("rdfa-soup", c.loc, text, res, nil, false, model, have, append(rdfaPreds(c.doc, c.base), modePreds(mode, c.loc)...))
		h.maybeShrink(before, "rdfa-soup", c.loc, c.doc)
	}
}

func (h *harness) mdWriter(n int) {
	type mc struct {
		base string
		g    []Triple
		line string
	}
	var cases []mc
	var lines []string
	for i := 0; i < n; i++ {
		g := &gen{r: h.r, base: vh.Pick(h.r, basesNoFragment), rel: map[string]string{}}
		gr := g.mdGraph()
		line := "html.mdw " + vh.XS(g.base) + " " + graphWire(gr) + " " + g.mdChoices(gr)
		cases = append(cases, mc{g.base, gr, line})
		lines = append(lines, line)
	}
	var answers []string
	if !*nomodel {
		var err error
		if answers, err = h.drv.RunParallel(lines); err != nil {
			fmt.Fprintln(os.Stderr, err)
			os.Exit(2)
		}
	}
	for i, c := range cases {
		h.rep.Eval(c.line, len(c.g) >= 2)
		h.rep.Count(fmt.Sprintf("md-writer:triples=%d", len(c.g)))
		if *nomodel {
			continue
		}
		mo, err := parseWriterAnswer(answers[i])
		if err != nil {
			h.rep.Add(vh.Case{Kind: "disagreement", Op: c.line, Detail: "md-writer: " + err.Error()})
			continue
		}
		h.rep.Count("md-writer:validated/known-good=" + mo.info)
		if len(mo.info) == 2 && mo.info[1] == '0' {
			// the writer reports that it could not express the graph (blank-node objects and no valid candidate)
			continue
		}
		// fresh ids that no itemref names are irrelevant markup: the denotation `mo.g` is that of the decorated document
		// too (microdata_denote_ignores_unreferenced_ids; decorateIDs never makes an id equal to an itemref token)
		h.maybeDecorate("md-writer", mo.doc)
		if nestedTargets(mo.doc) > 0 {
			h.rep.Count("md-writer:itemref target below an element with an id (writer knob or decoration)")
		}
		pdoc, loc := h.present(mo.doc, c.base)
		text := h.serialise("md-writer", loc, pdoc)
		if text == "" {
			continue
		}
		mode := h.mode()
		res := decodeMd(text, loc, mode)
		h.compare("md-writer", loc, text, res, c.g, true, mo.g, true, append(mdPreds(mo.doc), modePreds(mode, loc)...))
	}
}

func (h *harness) mdSoup(n int) {
	type sc struct {
		base string // effective base
		loc  string // location handed to the decoder (the document may carry a <base href>)
		doc  *Node
		line string
	}
	var cases []sc
	var lines []string
	for i := 0; i < n; i++ {
		base := vh.Pick(h.r, basesNoFragment)
		sdoc := (&soup{r: h.r, base: base}).mdDoc()
		h.maybeDecorate("md-soup", sdoc)
		doc, loc := h.present(sdoc, base)
		line := "html.md " + vh.XS(loc) + " " + doc.Wire()
		cases = append(cases, sc{base, loc, doc, line})
		lines = append(lines, line)
	}
	var answers []string
	if !*nomodel {
		var err error
		if answers, err = h.drv.RunParallel(lines); err != nil {
			fmt.Fprintln(os.Stderr, err)
			os.Exit(2)
		}
	}
	for i, c := range cases {
		text := h.serialise("md-soup", c.loc, c.doc)
		if text == "" {
			continue
		}
		mode := h.mode()
		res := decodeMd(text, c.loc, mode)
		h.rep.Eval(c.line, len(res.quads) >= 1)
		h.rep.Count(fmt.Sprintf("md-soup:triples=%d", min(len(res.quads), 8)))
		var model []Triple
		have := false
		if !*nomodel {
			var err error
			model, have, err = parseDenoteAnswer(answers[i])
			if err != nil {
				h.rep.Add(vh.Case{Kind: "disagreement", Op: c.line, Detail: "md-soup: " + err.Error()})
				continue
			}
			if !have {
				h.rep.Count("md-soup:outside-fragment")
			}
		}
		before := h.rep.Failures()
		h.compare("md-soup", c.loc, text, res, nil, false, model, have, append(mdPreds(c.doc), modePreds(mode, c.loc)...))
		h.maybeShrink(before, "md-soup", c.loc, c.doc)
	}
}

// ---------------------------------------------------------------- JSON-LD in script elements

// jsonldText writes gr as expanded JSON-LD (node objects; value objects), with a few spelling choices.
func (g *gen) jsonldText(gr []Triple) string {
	ref := func(t Term) string {
		if t.Kind == 'B' {
			return "_:" + t.V
		}
		if r, ok := g.rel[t.V]; ok && g.r.Chance(50) {
			return r
		}
		return t.V
	}
	var order []string
	nodes := map[string]map[string][]any{}
	for _, t := range gr {
		id := ref(t.S)
		if t.S.Kind == 'I' {
			id = t.S.V // one spelling per subject so that its triples stay in one node object
			if r, ok := g.rel[t.S.V]; ok && len(r) > 0 && r[0] != '?' {
				_ = r
			}
		}
		if _, ok := nodes[id]; !ok {
			nodes[id] = map[string][]any{}
			order = append(order, id)
		}
		var v any
		switch t.O.Kind {
		case 'L':
			m := map[string]any{"@value": t.O.V}
			if t.O.DT == rdfLangString {
				m["@language"] = t.O.Lang
			} else if t.O.DT != xsdString || g.r.Chance(15) {
				m["@type"] = t.O.DT
			}
			v = m
		default:
			v = map[string]any{"@id": ref(t.O)}
		}
		nodes[id][t.P.V] = append(nodes[id][t.P.V], v)
	}
	var arr []any
	for _, id := range order {
		m := map[string]any{"@id": id}
		for p, vs := range nodes[id] {
			m[p] = vs
		}
		arr = append(arr, m)
	}
	var top any = arr
	if g.r.Chance(25) {
		top = map[string]any{"@graph": arr}
	} else if len(arr) == 1 && g.r.Chance(50) {
		top = arr[0]
	}
	b, _ := json.Marshal(top) // escapes <, > and & : safe inside a script element
	if g.r.Chance(30) {
		return "\n  " + string(b) + "\n"
	}
	return string(b)
}

func scriptNode(typ, text string) *Node {
	return E("script", []Attr{{"type", typ}}, T(text))
}

func (h *harness) jsonldFamily(n int) {
	type jc struct {
		base string
		g    []Triple
		doc  *Node
		line string
	}
	var cases []jc
	var lines []string
	for i := 0; i < n; i++ {
		g := &gen{r: h.r, base: vh.Pick(h.r, basesNoFragment[:6]), rel: map[string]string{}}
		gr := g.jsonldGraph()
		// one script, or two when no blank node would have to be shared between them
		parts := [][]Triple{gr}
		hasB := false
		for _, t := range gr {
			if t.S.Kind == 'B' || t.O.Kind == 'B' {
				hasB = true
			}
		}
		if !hasB && len(gr) >= 2 && h.r.Chance(35) {
			k := 1 + h.r.Intn(len(gr)-1)
			parts = [][]Triple{gr[:k], gr[k:]}
		}
		var scripts []*Node
		for _, p := range parts {
			scripts = append(scripts, scriptNode("application/ld+json", g.jsonldText(p)))
		}
		// scripts that must be ignored
		decoys := []*Node{scriptNode("text/javascript", "var x = {\"@id\": \"http://decoy.example/\"};"),
			scriptNode("application/json", "{\"@id\":\"http://decoy.example/\",\"http://p.example/rel\":[{\"@value\":\"decoy\"}]}"),
			E("script", []Attr{{"type", "application/ld+json"}})}
		var head, body []*Node
		place := func(s *Node) {
			switch h.r.Intn(3) {
			case 0:
				head = append(head, s)
			case 1:
				body = append(body, s)
			default:
				body = append(body, E("div", nil, T("text "), E("span", nil, s)))
			}
		}
		if h.r.Chance(40) {
			place(vh.Pick(h.r, decoys))
		}
		for _, s := range scripts {
			place(s)
			if h.r.Chance(25) {
				place(vh.Pick(h.r, decoys))
			}
		}
		doc := E("html", nil, E("head", nil, head...), E("body", nil, body...))
		h.maybeDecorate("jsonld", doc)
		line := "html.scripts " + doc.Wire()
		cases = append(cases, jc{g.base, gr, doc, line})
		lines = append(lines, line)
	}
	var answers []string
	if !*nomodel {
		var err error
		if answers, err = h.drv.RunParallel(lines); err != nil {
			fmt.Fprintln(os.Stderr, err)
			os.Exit(2)
		}
	}
	for i, c := range cases {
		h.rep.Eval(c.line, len(c.g) >= 2)
		pdoc, loc := h.present(c.doc, c.base)
		text := h.serialise("jsonld", loc, pdoc)
		if text == "" {
			continue
		}
		mode := h.mode()
		res := decodeJsonld(text, loc, mode)
		h.compare("jsonld", loc, text, res, c.g, true, nil, false, modePreds(mode, loc))
		if *nomodel || res.panic != "" || res.err != "" {
			continue
		}
		// T3 for script extraction: decoding the texts the model extracts gives what htmljsonld gave
		if !strings.HasPrefix(answers[i], "ok:") {
			h.rep.Add(vh.Case{Kind: "disagreement", Op: c.line, Detail: "jsonld: driver answered " + answers[i]})
			continue
		}
		h.rep.Compared++
		var viaModel []rdf.Quad
		bad := ""
		if answers[i] != "ok:" {
			for _, hexText := range strings.Split(answers[i][3:], ";") {
				raw, err := vh.UnX("x" + hexText)
				if err != nil {
					bad = err.Error()
					break
				}
				r := decodeJsonldText(string(raw), c.base)
				if r.err != "" || r.panic != "" {
					bad = r.err + r.panic
					break
				}
				viaModel = append(viaModel, r.quads...)
			}
		}
		if bad != "" || !vh.Isomorphic(res.quads, viaModel) {
			h.fail("disagreement", "jsonld", loc, text, "htmljsonld differs from decoding the scripts selected by the model "+bad, showQuads(res.quads), showQuads(viaModel), modePreds(mode, loc))
		}
	}
}

// ---------------------------------------------------------------- combined decoder

func bnodesOfQuads(qs []rdf.Quad) []rdf.BlankNode {
	var out []rdf.BlankNode
	for _, q := range qs {
		for _, t := range []rdf.Term{q.Triple.Subject, q.Triple.Object, q.GraphName} {
			if b, ok := t.(rdf.BlankNode); ok {
				out = append(out, b)
			}
		}
	}
	return out
}

func (h *harness) combined(n int) {
	type cc struct {
		base       string
		gr, gm, gj []Triple
		l1, l2     string
		breakJSON  bool
	}
	var cases []cc
	var lines []string
	for i := 0; i < n; i++ {
		g := &gen{r: h.r, base: vh.Pick(h.r, basesNoFragment[:6]), rel: map[string]string{}}
		c := cc{base: g.base, gr: g.rdfaGraph(), gm: g.mdGraph(), gj: g.jsonldGraph(), breakJSON: h.r.Chance(6)}
		skel, pats := g.rdfaChoices(c.gr)
		c.l1 = "html.rdfaw " + vh.XS(g.base) + " " + graphWire(c.gr) + " " + skel + " " + strings.Join(pats, " ")
		c.l2 = "html.mdw " + vh.XS(g.base) + " " + graphWire(c.gm) + " " + g.mdChoices(c.gm)
		cases = append(cases, c)
		lines = append(lines, c.l1, c.l2)
	}
	if *nomodel {
		return // the documents come from the Lean writers
	}
	answers, err := h.drv.RunParallel(lines)
	if err != nil {
		fmt.Fprintln(os.Stderr, err)
		os.Exit(2)
	}
	var chainLines []string
	type pending struct {
		base, text string
		n          int
		goCount    int
		goErr      bool
	}
	var pend []pending
	for i, c := range cases {
		h.rep.Eval(c.l1+c.l2, true)
		r1, err1 := parseWriterAnswer(answers[2*i])
		r2, err2 := parseWriterAnswer(answers[2*i+1])
		if err1 != nil || err2 != nil {
			h.rep.Add(vh.Case{Kind: "disagreement", Op: c.l1, Detail: fmt.Sprint("combined: ", err1, err2)})
			continue
		}
		mdOK := len(r2.info) == 2 && r2.info[1] == '1'
		if !mdOK {
			c.gm = nil
		}
		g := &gen{r: h.r, base: c.base, rel: map[string]string{}}
		jtext := g.jsonldText(c.gj)
		if c.breakJSON {
			jtext = "{\"@id\": \"http://broken.example/\", \"http://p.example/rel\": [ }"
		}
		// html/body attributes from the RDFa skeleton; body = RDFa blocks, Microdata items, the script (in a random order)
		body := r1.doc.Kids[1]
		regions := [][]*Node{body.Kids}
		if mdOK {
			regions = append(regions, r2.doc.Kids[1].Kids)
		}
		regions = append(regions, []*Node{scriptNode("application/ld+json", jtext)})
		for k := len(regions) - 1; k > 0; k-- {
			j := h.r.Intn(k + 1)
			regions[k], regions[j] = regions[j], regions[k]
		}
		var kids []*Node
		for _, rg := range regions {
			kids = append(kids, rg...)
		}
		doc := E("html", r1.doc.Attrs, E("head", nil), E("body", body.Attrs, kids...))
		h.maybeDecorate("combined", doc)
		doc, loc := h.present(doc, c.base)
		text := h.serialise("combined", loc, doc)
		if text == "" {
			continue
		}
		capture := h.r.Chance(25)
		cm := 0
		if capture {
			cm = 1
		}
		all := decodeAll(text, loc, capture)
		j := decodeJsonld(text, loc, cm)
		m := decodeMd(text, loc, cm)
		r := decodeRdfa(text, loc, cm)
		if all.panic != "" || j.panic != "" || m.panic != "" || r.panic != "" {
			h.fail("violation", "combined", loc, text, "decoder panicked: "+all.panic+j.panic+m.panic+r.panic, "", "", nil)
			continue
		}
		// chain model: the sub-decoders' counts and error flags predict the combined stream
		chainLines = append(chainLines, fmt.Sprintf("html.chain 1 %d:%s %d:%s %d:%s", len(j.quads), vh.B01(j.err != ""), len(m.quads), vh.B01(m.err != ""), len(r.quads), vh.B01(r.err != "")))
		pend = append(pend, pending{loc, text, len(chainLines) - 1, len(all.quads), all.err != ""})
		if c.breakJSON {
			h.rep.Count("combined:broken-jsonld")
			if all.err == "" {
				h.fail("violation", "combined", loc, text, "a failing sub-decoder did not fail the combined decoder", "", "", nil)
			}
			continue
		}
		if all.err != "" || j.err != "" || m.err != "" || r.err != "" {
			h.fail("violation", "combined", loc, text, "decoder error: "+all.err+j.err+m.err+r.err, "", "", nil)
			continue
		}
		// union: the combined stream is the three streams one after the other
		nj, nm := len(j.quads), len(m.quads)
		if len(all.quads) != nj+nm+len(r.quads) {
			h.fail("violation", "combined", loc, text, fmt.Sprintf("combined yields %d statements, the sub-decoders %d+%d+%d", len(all.quads), nj, nm, len(r.quads)), showQuads(all.quads), "", nil)
			continue
		}
		segs := [][]rdf.Quad{all.quads[:nj], all.quads[nj : nj+nm], all.quads[nj+nm:]}
		subs := [][]rdf.Quad{j.quads, m.quads, r.quads}
		okSeg := true
		for k := range segs {
			if !vh.IsomorphicMulti(segs[k], subs[k]) {
				okSeg = false
			}
		}
		if !okSeg {
			h.fail("violation", "combined", loc, text, "a segment of the combined stream differs from its sub-decoder's stream", showQuads(all.quads), showQuads(append(append(append([]rdf.Quad{}, j.quads...), m.quads...), r.quads...)), nil)
			continue
		}
		// no identification across syntaxes, directly on the nodes the combined decoder handed out
		crossed := false
		for a := 0; a < 3 && !crossed; a++ {
			for b := a + 1; b < 3 && !crossed; b++ {
				for _, x := range bnodesOfQuads(segs[a]) {
					for _, y := range bnodesOfQuads(segs[b]) {
						if x.TermEquals(y) || y.TermEquals(x) {
							crossed = true
						}
					}
				}
			}
		}
		if crossed {
			h.fail("violation", "combined", loc, text, "a blank node from one syntax TermEquals a blank node from another", showQuads(all.quads), "", nil)
			continue
		}
		// and against the generating graphs: disjoint union, labels kept apart per syntax
		sp := newBnSpace()
		want := append(append(sp.quads(c.gj, "j:"), sp.quads(c.gm, "m:")...), sp.quads(c.gr, "r:")...)
		if !vh.Isomorphic(all.quads, want) {
			h.fail("violation", "combined", loc, text, "combined result is not the disjoint union of the three marked-up graphs", showQuads(all.quads), showQuads(want), append(rdfaPreds(doc, c.base), mdPreds(doc)...))
		}
	}
	res, err := h.drv.RunParallel(chainLines)
	if err != nil {
		fmt.Fprintln(os.Stderr, err)
		os.Exit(2)
	}
	for _, p := range pend {
		h.rep.Compared++
		ans := res[p.n]
		bar := strings.LastIndexByte(ans, '|')
		if !strings.HasPrefix(ans, "ok:") || bar < 0 {
			h.rep.Add(vh.Case{Kind: "disagreement", Op: chainLines[p.n], Detail: "combined: driver answered " + ans})
			continue
		}
		cnt := 0
		if ans[3:bar] != "" {
			cnt = len(strings.Split(ans[3:bar], ","))
		}
		if cnt != p.goCount || (ans[bar+1:] == "1") != p.goErr {
			h.fail("disagreement", "combined", p.base, p.text, "chain model: "+chainLines[p.n]+" → "+ans, fmt.Sprintf("%d statements, err=%v", p.goCount, p.goErr), ans, nil)
		}
	}
}

// ---------------------------------------------------------------- main

func main() {
	flag.Parse()
	seed := vh.SeedFromEnv()
	rep := vh.NewReport("C11", *tier, seed, "documents serialised from abstract trees (random attribute order, quoting, name case, whitespace, character references, comments) that the HTML5 parser reproduces verbatim; graphs of 1-7 triples over IRIs spelt absolutely / as CURIEs / safe CURIEs / terms / relative references, blank nodes, plain / language-tagged / typed literals over a hot alphabet; round-3 families: IRIs whose scheme is a prefix name that a sibling subtree declares (prefix scope), @vocab equal to the decoder's host default vocabulary with predefined and plain terms, unreferenced id attributes on any element incl. ancestors of itemref targets; non-trivial = graph of at least 2 triples (writer families), at least one decoded statement (soup families)")
	fs, err := vh.LoadFindings(*findings)
	if err != nil {
		fmt.Fprintln(os.Stderr, "findings:", err)
		os.Exit(2)
	}
	h := &harness{r: vh.NewRng(seed), rep: rep, known: vh.KnownKeys(fs, "C11"), drv: vh.Driver{Path: *driver}, fam: map[string]bool{}}
	if *only != "" {
		for _, f := range strings.Split(*only, ",") {
			h.fam[f] = true
		}
	}
	if !*nomodel {
		// the generator's special @vocab value is the decoder's host default vocabulary (T2 fact, regenerated by ./check)
		ans, err := h.drv.Run([]string{"html.hostvocab"})
		want := "ok:" + vh.XS(hostVocab)
		if err != nil {
			fmt.Fprintln(os.Stderr, err)
			os.Exit(2)
		}
		if len(ans) != 1 || ans[0] != want {
			rep.Add(vh.Case{Kind: "disagreement", Op: "html.hostvocab", Detail: "the generator constant hostVocab is not htmlrdfa's HostDefaultVocabulary (Gen.HtmlFacts.hostDefaultVocabulary)", Go: want, Model: fmt.Sprint(ans)})
		}
	}
	if *replay != "" {
		h.replayFile(*replay)
	} else {
		h.quiet = true
		h.replayFile(*corpus)
		h.quiet = false
		n := 10000
		if *tier == "thorough" {
			n = 200000
		}
		n *= *scale
		// split over batches so that driver memory stays small
		for done := 0; done < n; {
			b := min(n-done, 20000)
			done += b
			if h.want("rdfa-writer") {
				h.rdfaWriter(b * 30 / 100)
			}
			if h.want("rdfa-soup") {
				h.rdfaSoup(b * 20 / 100)
			}
			if h.want("md-writer") {
				h.mdWriter(b * 15 / 100)
			}
			if h.want("md-soup") {
				h.mdSoup(b * 15 / 100)
			}
			if h.want("jsonld") {
				h.jsonldFamily(b * 8 / 100)
			}
			if h.want("combined") {
				h.combined(b * 12 / 100)
			}
		}
	}
	if rep.Cases == nil {
		rep.Cases = []vh.Case{} // ./check iterates over the list
	}
	if err := rep.Write(*out); err != nil {
		fmt.Fprintln(os.Stderr, err)
		os.Exit(2)
	}
	fmt.Printf("c11: %d evaluations, %d compared with the model, %d failures, %d known\n", rep.Evaluations, rep.Compared, rep.Failures(), len(rep.Cases)-rep.Failures())
	for _, k := range vh.SortedKeys(rep.Hist) {
		if strings.HasPrefix(k, "fail:") || strings.HasPrefix(k, "known:") || strings.HasPrefix(k, "harness:") {
			fmt.Printf("  %s = %d\n", k, rep.Hist[k])
		}
	}
	if rep.Failures() > 0 {
		os.Exit(1)
	}
}
