/-
  C19 helper lemmas: `TermEquals` is symmetric and is structural equality on every term that has an
  identity — literals of ANY shape (well-formed or not), IRIs, blank nodes with an identifier — and
  the `Equals` / `EqualsOneOf` matchers built from such terms select exactly the equal terms.
  (None of this needs `WFLiteral`: that hypothesis is about the store's key, not about equality.)
-/
import RdfModel.Proofs.C19Match
namespace RdfModel.Proofs.C19
open RdfModel.DS RdfModel.C19

theorem BId.equals_symm (a b : BId) : a.equals b = b.equals a := by
  rw [Bool.eq_iff_iff, BId.equals_iff, BId.equals_iff]; exact eq_comm

theorem Tag.equals_symm (a b : Tag) : a.equals b = b.equals a := by
  rw [Bool.eq_iff_iff, Tag.equals_iff, Tag.equals_iff]; exact eq_comm

theorem Literal.equals_symm (a b : Literal) : a.equals b = b.equals a := by
  rw [Bool.eq_iff_iff, Literal.equals_iff, Literal.equals_iff]; exact eq_comm

theorem termEquals_symm (t u : Term) : t.termEquals (some u) = u.termEquals (some t) := by
  cases t with
  | iri v =>
    cases u with
    | iri w => simp only [Term.termEquals]; rw [Bool.eq_iff_iff, beq_iff_eq, beq_iff_eq]; exact eq_comm
    | bnode j => cases j <;> simp [Term.termEquals]
    | lit m => simp [Term.termEquals]
  | bnode i =>
    cases i with
    | none =>
      cases u with
      | iri w => simp [Term.termEquals]
      | bnode j => cases j <;> simp [Term.termEquals]
      | lit m => simp [Term.termEquals]
    | some i =>
      cases u with
      | iri w => simp [Term.termEquals]
      | bnode j =>
        cases j with
        | none => simp [Term.termEquals]
        | some j => simp only [Term.termEquals]; exact BId.equals_symm i j
      | lit m => simp [Term.termEquals]
  | lit l =>
    cases u with
    | iri w => simp [Term.termEquals]
    | bnode j => cases j <;> simp [Term.termEquals]
    | lit m => simp only [Term.termEquals]; exact Literal.equals_symm l m

theorem hasId_of_hasIdentity {t : Term} (h : HasIdentity t) : HasId t := by
  intro id e; subst e
  cases id with
  | none => exact absurd h (by simp [HasIdentity])
  | some _ => rfl

theorem termEquals_iff_identity (t : Term) (ht : HasIdentity t) (u : Option Term) :
    t.termEquals u = true ↔ u = some t :=
  termEquals_iff t u (hasId_of_hasIdentity ht)

theorem equalsOneOf_matches_iff_identity (ts : List Term) (hts : ∀ u ∈ ts, HasIdentity u) (t : Option Term) :
    (equalsOneOf (ts.map some)).matches t = true ↔ ∃ u ∈ ts, t = some u := by
  rw [equalsOneOf_spec, List.any_eq_true]
  constructor
  · rintro ⟨ou, hm, he⟩
    obtain ⟨u, hu, rfl⟩ := List.mem_map.1 hm
    simp only [termEquals_true_iff] at he
    exact ⟨u, hu, he.1⟩
  · rintro ⟨u, hu, rfl⟩
    refine ⟨some u, List.mem_map_of_mem hu, ?_⟩
    simp only [termEquals_true_iff, true_and]
    exact hasId_of_hasIdentity (hts _ hu)

end RdfModel.Proofs.C19
