/-
  Line-protocol handler for the RDFa decoder model (component `rdfa`), part C11RA.

    rdfa.dec <cfg> <xBASE> <P> <O> <tree tokens…>
        cfg    <profile>:<vocab>     profile = DecoderConfig.htmlProcessingProfile as a number (0 = unset);
                                     vocab = hex of DecoderConfig.defaultVocabulary or `-`
        xBASE  x<hex> of DocumentInfo.BaseURL
        P      host default prefixes  HEX=HEX joined by `,` ; `-` = empty
        O      oracle table  <k>:<HEXa>:<HEXb>=<value> joined by `,` ; `-` = empty
                 k = 0  iri.ParseIRI(a) + DropFragment + String()              value HEX | !
                 k = 1  ParseIRI(a).ResolveReference(ParseIRI(b)).String()     value HEX | !   (a = a base's String())
                 k = 2  ParseIRI(a).Parse(b).String()                          value HEX | !
                 k = 3  strings.ToLower(a)   (only needed for non-ASCII a)     value HEX
                 k = 10…15  MapDuration, MapDateTime, MapDate, MapTime, MapGYearMonth, MapGYear of a
                                                                               value HEXlex.HEXdt | !
                 k = 20 Decoder.xmlRender of node number a (decimal digits as ASCII; document order) value HEX | !
                 k = 21 Decoder.htmlRender of node number a                                         value HEX | !
        tree   the DOM wire format of Driver/Mdd.lean (`N<typ>.<hex ns>.<hex atom>.<hex data>  A<ns>.<key>.<val>… kids… /`)
      → ok <u> <S> <P> <O>;…     u = 1 when Go's statement order was decided by map iteration
                                 S = I<hex> | B<n>   P = <hex>   O = I<hex> | B<n> | L<lex>.<dt>.<lang|->
        | need <k>:<HEXa>:<HEXb>,…   oracle entries of kinds 0–2 that the run asked for and the table lacks
        | newerr | err | panic | nil-term
    rdfa.fields <xHEX> → tokens of strings.Fields(strings.TrimSpace(·)), `,`-joined hex
-/
import RdfModel.Driver.Wire
import RdfModel.Driver.Mdd
import RdfModel.Model.RdfaDecoder
namespace RdfModel.Driver.RdfaDec
open RdfModel RdfModel.Wire RdfModel.Rdfad
open RdfModel.Mdd (Bytes Subj)

abbrev Table := List (String × String)

def parseTable (s : String) : Table := RdfModel.Driver.Mdd.parseTable s

def key (k : Nat) (a b : Bytes) : String := toString k ++ ":" ++ hexOfBytes a ++ ":" ++ hexOfBytes b

def tget (t : Table) (k : Nat) (a b : Bytes) : Option String := RdfModel.Driver.Mdd.tlookup t (key k a b)

def optBytes (t : Table) (k : Nat) (a b : Bytes) : Option Bytes :=
  match tget t k a b with
  | some "!" => none
  | some h => unhex h
  | none => none

def asciiLower (s : Bytes) : Bytes := s.map (fun c => if 0x41 ≤ c ∧ c ≤ 0x5a then c + 32 else c)

def lowerOf (t : Table) (s : Bytes) : Bytes :=
  if s.all (· < 0x80) then asciiLower s
  else match tget t 3 s [] with
    | some h => (unhex h).getD (asciiLower s)
    | none => asciiLower s

/-- an oracle entry of a time mapper; an entry whose datatype is empty or a language-string datatype is not a value a
    mapper can return (the harness reports such an entry as a broken hypothesis) and is dropped, so that the driver's
    oracle satisfies `EnvOK` for EVERY table (Props/C11Ra: `driver_env_ok`) -/
def timeEntry (h : String) : Option (Bytes × Bytes) :=
  match h.splitOn "." with
  | [l, d] =>
    (match unhex l, unhex d with
     | some x, some y => if y = [] ∨ y = rdfLangString ∨ y = rdfDirLangString then none else some (x, y)
     | _, _ => none)
  | _ => none

def timeOf (t : Table) (k : Nat) (v : Bytes) : Option (Bytes × Bytes) :=
  match tget t k v [] with
  | some "!" => none
  | some h => timeEntry h
  | none => none

def envOf (t : Table) : Env :=
  { parseBase := fun v => optBytes t 0 v [],
    xmlBase := fun b v => optBytes t 1 b v,
    resolve := fun b v => optBytes t 2 b v,
    lower := lowerOf t,
    timeMaps := [timeOf t 10, timeOf t 11, timeOf t 12, timeOf t 13, timeOf t 14, timeOf t 15],
    xmlRender := fun i => optBytes t 20 (asc (toString i)) [],
    htmlRender := fun i => optBytes t 21 (asc (toString i)) [] }

def parseCfg (s : String) (base : Bytes) (pfx : Table) : Option Cfg :=
  match s.splitOn ":" with
  | [p, v] => do
    let prof ← p.toNat?
    let voc ← (if v = "-" then some none else (unhex v).map some)
    let ps ← pfx.mapM (fun e => do
      let a ← unhex e.1
      let b ← unhex e.2
      pure (a, b))
    pure { profile := prof, defaultVocab := voc, prefixes := ps, base := base }
  | _ => none

def showSubj : Subj → String
  | .iri v => "I" ++ hexOfBytes v
  | .bn k => "B" ++ toString k

def showObj : Obj → String
  | .iri v => "I" ++ hexOfBytes v
  | .bnode k => "B" ++ toString k
  | .lit l d t => "L" ++ hexOfBytes l ++ "." ++ hexOfBytes d ++ "." ++ (match t with | some x => hexOfBytes x | none => "-")

def showStmt (t : Stmt) : String := showSubj t.s ++ " " ++ hexOfBytes t.p ++ " " ++ showObj t.o

def missing (t : Table) (asks : List (Nat × Bytes × Bytes)) : List String :=
  (asks.filterMap (fun q => if (tget t q.1 q.2.1 q.2.2).isSome then none else some (key q.1 q.2.1 q.2.2))).eraseDups

def handle (op : String) (args : List String) : Option String :=
  match op, args with
  | "dec", cfg :: base :: p :: o :: tree => do
    let b ← bytesTok base
    let t := parseTable o
    let C ← parseCfg cfg b (parseTable p)
    let doc ← RdfModel.Driver.Mdd.parseTree tree
    let E := envOf t
    let need0 := if b.isEmpty then [] else missing t [(0, b, [])]
    match run E C doc with
    | none => pure (if need0.isEmpty then "newerr" else "need " ++ String.intercalate "," need0)
    | some st =>
      let need := missing t st.asks
      if !need.isEmpty then pure ("need " ++ String.intercalate "," need)
      else
        pure (match st.bad with
          | none => "ok " ++ (if st.unordered then "1" else "0") ++ " " ++ String.intercalate ";" (st.out.map showStmt)
          | some .err => "err"
          | some .panic => "panic"
          | some .nilTerm => "nil-term")
  | "fields", [s] => do
    let b ← bytesTok s
    pure (String.intercalate "," ((Mdd.fields (Mdd.trimSpace b)).map hexOfBytes))
  | _, _ => none

end RdfModel.Driver.RdfaDec
