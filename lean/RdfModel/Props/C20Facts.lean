/-
  Property C20 — the facts regenerated from /repo on this run (Gen.XsdFacts, T2) satisfy the
  conditions the theorems of Props/C20.lean rest on; the C20 theorems instantiated at those facts;
  and the known findings of the date/time family and duration as facts about the model the driver
  runs (each `by decide`: the model accepts a string the spec rejects, or drops a fraction, …).
-/
import RdfModel.Props.C20
import RdfModel.Gen.XsdFacts
namespace RdfModel.C20
open RdfModel RdfModel.Xsd
open RdfModel.Spec.Xsd (Dt IntTy accepts lexOK intLex canonInt collapse)

set_option maxRecDepth 16384
set_option exponentiation.threshold 2048

theorem gen_int_ok (T : IntTy) : intFactOK T (Gen.xsdFacts.int T) = true := by cases T <;> decide
theorem gen_float_ok (T : FloatTy) : floatFactOK T (Gen.xsdFacts.float T) = true := by cases T <;> decide
theorem gen_str_ok (T : StrTy) : strFactOK T (Gen.xsdFacts.str T) = true := by cases T <;> decide
theorem gen_time_ok (T : TimeTy) : timeFactOK T (Gen.xsdFacts.time T) = true := by cases T <;> decide
theorem gen_bool_ok : boolFactOK Gen.xsdFacts.bool = true := by decide
theorem gen_duration_ok : durationFactOK Gen.xsdFacts.duration = true := by decide

/-- T2 tie: parser, base, bit size, Go type, formatter, datatype IRI, regular expressions and layouts
    extracted from ontology/xsd/xsdtype are the ones the theorems need. -/
theorem gen_facts_ok : factsOK Gen.xsdFacts = true := by
  simp only [factsOK, Spec.Xsd.IntTy.all, floatTys, strTys, timeTys, List.all_cons, List.all_nil,
    gen_int_ok, gen_float_ok, gen_str_ok, gen_time_ok, gen_bool_ok, gen_duration_ok, Bool.and_self]

/-- the integer-family theorems at the current facts, in one statement -/
theorem gen_int_sound (T : IntTy) (s : Bytes) (v : Int) (h : mapInt (Gen.xsdFacts.int T) s = .ok v) :
    accepts T.dt s = true ∧ intLex (Spec.Xsd.normalize T.dt s) = some v :=
  int_sound T _ (gen_int_ok T) s v h

theorem gen_int_canonical (T : IntTy) (v : Int) (hv : goLo T ≤ v ∧ v ≤ goHi T) :
    mapInt (Gen.xsdFacts.int T) (canonInt v) = .ok v :=
  int_canonical T _ (gen_int_ok T) v hv

theorem gen_floatfamily_sound (T : FloatTy) (s : Bytes) (v : FVal)
    (h : mapFloat (Gen.xsdFacts.float T) s = .ok v) : accepts T.dt s = true :=
  floatfamily_sound T _ (gen_float_ok T) s v h

/-! ### D21 (repaired): the strings MapDecimal used to accept are refused -/

theorem d21_decimal_rejects :
    [asc "1e5", asc "NaN", asc "Inf", asc "0x1p-2", asc "1_0"].all
      (fun s => mapObject Gen.xsdFacts .decimal s == .err) = true := by decide

/-- … and strconv.ParseFloat alone (the model of the code before the repair: no lexical check) accepts all of them -/
theorem d21_parseFloat_accepts :
    [asc "1e5", asc "NaN", asc "Inf", asc "0x1p-2", asc "1_0"].all
      (fun s => match parseFloat s 64 with | .ok _ => true | .error _ => false) = true := by decide

theorem d21_double_inf : mapObject Gen.xsdFacts .double (asc "+INF") = .ok (some (asc "INF")) := by decide
theorem d21_long_range : mapObject Gen.xsdFacts .long (asc "9223372036854775807") = .ok (some (asc "9223372036854775807")) := by decide
theorem d21_unsignedLong_format :
    mapObject Gen.xsdFacts .unsignedLong (asc "18446744073709551615") = .ok (some (asc "18446744073709551615")) := by decide

/-! ### known findings, as facts about the model (date/time family, duration) -/

/-- time-hour-one-digit -/
theorem finding_time_hour_one_digit :
    mapObject Gen.xsdFacts .time (asc "1:00:00") = .ok (some (asc "01:00:00")) ∧ accepts .time (asc "1:00:00") = false := by
  decide

/-- time-fraction-comma, time-fraction-dropped -/
theorem finding_time_fraction :
    mapObject Gen.xsdFacts .time (asc "12:00:00,5") = .ok (some (asc "12:00:00")) ∧ accepts .time (asc "12:00:00,5") = false ∧
    mapObject Gen.xsdFacts .time (asc "12:00:00.5") = .ok (some (asc "12:00:00")) ∧ accepts .time (asc "12:00:00.5") = true := by
  decide

/-- time-fraction-signed -/
theorem finding_time_fraction_signed :
    mapObject Gen.xsdFacts .time (asc "12:00:00.+12345678") = .ok (some (asc "12:00:00.012345678")) ∧
    accepts .time (asc "12:00:00.+12345678") = false := by decide

/-- time-tz-out-of-range -/
theorem finding_time_tz :
    mapObject Gen.xsdFacts .time (asc "12:00:00+24:60") = .ok (some (asc "12:00:00+25:00")) ∧
    accepts .time (asc "12:00:00+24:60") = false ∧ mapObject Gen.xsdFacts .time (asc "12:00:00+25:00") = .err := by decide

/-- time-year-outside-0000-9999 -/
theorem finding_time_year :
    mapObject Gen.xsdFacts .dateTime (asc "10000-01-01T00:00:00") = .err ∧ accepts .dateTime (asc "10000-01-01T00:00:00") = true ∧
    mapObject Gen.xsdFacts .gYear (asc "-0001") = .err ∧ accepts .gYear (asc "-0001") = true := by decide

/-- duration-empty-component, duration-zero-prints-P, duration-fractional-component -/
theorem finding_duration :
    mapObject Gen.xsdFacts .duration (asc "P") = .ok (some (asc "P")) ∧ accepts .duration (asc "P") = false ∧
    mapObject Gen.xsdFacts .duration (asc "PT0S") = .ok (some (asc "P")) ∧ accepts .duration (asc "PT0S") = true ∧
    mapObject Gen.xsdFacts .duration (asc "P1.5Y") = .ok (some (asc "P1.5Y")) ∧ accepts .duration (asc "P1.5Y") = false := by
  decide

/-- the date/time theorems' hypothesis is satisfiable and the repaired g* layouts read XSD forms -/
theorem gen_gregorian_forms :
    mapObject Gen.xsdFacts .gDay (asc "---31") = .ok (some (asc "---31")) ∧
    mapObject Gen.xsdFacts .gMonth (asc "--12") = .ok (some (asc "--12")) ∧
    mapObject Gen.xsdFacts .gMonthDay (asc "--02-29") = .ok (some (asc "--02-29")) ∧
    mapObject Gen.xsdFacts .gMonthDay (asc "--02-30") = .err ∧
    mapObject Gen.xsdFacts .gDay (asc "31") = .err := by decide

end RdfModel.C20
