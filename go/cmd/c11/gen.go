package main

// Generators: random graphs (per syntax: what the syntax can express), document bases, and the markup choices
// sent to the Lean writers (`html.rdfaw`, `html.mdw`); random attribute-soup trees for the direct
// denotation-vs-decoder correspondence (`html.rdfa`, `html.md`).

import (
	"encoding/hex"
	"fmt"
	"net/url"
	"strings"

	"verifharness/vh"

	"github.com/dpb587/rdfkit-go/iri/rdfacontext"
)

// ---------------------------------------------------------------- terms

type Term struct {
	Kind byte // 'I', 'B', 'L'
	V    string
	DT   string
	Lang string
}

type Triple struct{ S, P, O Term }

const (
	xsdString     = "http://www.w3.org/2001/XMLSchema#string"
	rdfLangString = "http://www.w3.org/1999/02/22-rdf-syntax-ns#langString"
	rdfType       = "http://www.w3.org/1999/02/22-rdf-syntax-ns#type"
	usesVocab     = "http://www.w3.org/ns/rdfa#usesVocabulary"
)

func I(v string) Term { return Term{Kind: 'I', V: v} }
func B(l string) Term { return Term{Kind: 'B', V: l} }
func Lit(lex, dt, lang string) Term {
	return Term{Kind: 'L', V: lex, DT: dt, Lang: lang}
}

func hx(s string) string { return hex.EncodeToString([]byte(s)) }

func (t Term) Wire() string {
	switch t.Kind {
	case 'I':
		return "I" + hx(t.V)
	case 'B':
		return "B" + hx(t.V)
	}
	l := "-"
	if t.DT == rdfLangString {
		l = hx(t.Lang)
	}
	return "L" + hx(t.V) + "." + hx(t.DT) + "." + l
}

func (t Triple) Wire() string { return t.S.Wire() + "," + t.P.Wire() + "," + t.O.Wire() }

func graphWire(g []Triple) string {
	if len(g) == 0 {
		return "-"
	}
	parts := make([]string, len(g))
	for i, t := range g {
		parts[i] = t.Wire()
	}
	return strings.Join(parts, ";")
}

func parseTermWire(s string) (Term, error) {
	if s == "" {
		return Term{}, fmt.Errorf("empty term")
	}
	unh := func(x string) (string, error) { b, err := hex.DecodeString(x); return string(b), err }
	switch s[0] {
	case 'I':
		v, err := unh(s[1:])
		return I(v), err
	case 'B':
		return B(s[1:]), nil // model blank nodes keep their token text (Bn…, Ba…, Bp…)
	case 'L':
		parts := strings.Split(s[1:], ".")
		if len(parts) != 3 {
			return Term{}, fmt.Errorf("bad literal %q", s)
		}
		lex, err := unh(parts[0])
		if err != nil {
			return Term{}, err
		}
		dt, err := unh(parts[1])
		if err != nil {
			return Term{}, err
		}
		lang := ""
		if parts[2] != "-" {
			if lang, err = unh(parts[2]); err != nil {
				return Term{}, err
			}
		}
		return Lit(lex, dt, lang), nil
	}
	return Term{}, fmt.Errorf("bad term %q", s)
}

func parseGraphWire(s string) ([]Triple, error) {
	if s == "-" || s == "" {
		return nil, nil
	}
	var out []Triple
	for _, ts := range strings.Split(s, ";") {
		p := strings.Split(ts, ",")
		if len(p) != 3 {
			return nil, fmt.Errorf("bad triple %q", ts)
		}
		a, err := parseTermWire(p[0])
		if err != nil {
			return nil, err
		}
		b, err := parseTermWire(p[1])
		if err != nil {
			return nil, err
		}
		c, err := parseTermWire(p[2])
		if err != nil {
			return nil, err
		}
		out = append(out, Triple{a, b, c})
	}
	return out, nil
}

// ---------------------------------------------------------------- pools

var bases = []string{
	"http://ex.org/dir/page.html",
	"http://ex.org/dir/page.html",
	"http://ex.org/dir/sub/",
	"https://host.example/a/b?q=1",
	"http://ex.org/dir/page.html#frag",
	"http://ex.org/",
	"http://ex.org/a/b/c/d",
	"",
}

// Microdata and JSON-LD resolve against the location as given; with a fragment in it, an empty reference keeps the
// fragment (Go net/url behaviour, reproduced by iri.ParsedIRI: property C12's subject), so those families use
// locations without one. RDFa drops the fragment of the base itself.
var basesNoFragment = []string{
	"http://ex.org/dir/page.html",
	"http://ex.org/dir/sub/",
	"https://host.example/a/b?q=1",
	"http://ex.org/",
	"http://ex.org/a/b/c/d",
	"http://ex.org/dir/page.html",
	"",
}

var relRefs = []string{"", "#me", "#a:b", "other", "other.html#x", "sub/x", "../up", "../../top/x", "/root/p", "/wiki/Help:Contents",
	"?q=2", "?a=b:c", "./here", "x/y:z", "//other.example/n", "a%20b"}

var absIRIs = []string{"http://other.example/x", "https://w3.example/ns#t", "urn:isbn:0451450523", "mailto:a@b.example",
	"tag:x.example,2020:y", "http://ex.org/a%20b", "http://ex.org/é/ü", "http://ex.org/q?x=a:b&y=1", "http://ex.org/p/Help:Contents",
	"http://schema.org/Person", "http://xmlns.com/foaf/0.1/Agent", "http://vocab.example/ns#thing", "http://vocab.example/ns#Other",
	"http://p.example/deep/er/x", "http://ex.org/dir/page.html", "http://ex.org/dir/"}

var predIRIs = []string{"http://schema.org/name", "http://schema.org/knows", "http://xmlns.com/foaf/0.1/name", "http://xmlns.com/foaf/0.1/knows",
	"http://purl.org/dc/terms/title", "http://vocab.example/ns#p1", "http://vocab.example/ns#p2", "http://p.example/rel", "http://p.example/deep/er/q",
	"http://www.w3.org/2000/01/rdf-schema#label", "http://www.w3.org/1999/xhtml/vocab#license", "http://www.w3.org/1999/xhtml/vocab#role",
	"http://www.w3.org/2007/05/powder-s#describedby", "urn:p:x", "http://schema.org/url", "http://ogp.me/ns#title"}

// hostVocab: the one IRI the RDFa decoder treats specially as a vocabulary (htmlrdfa `HostDefaultVocabulary`, the default
// of HTML+RDFa rule 1: terms are NOT concatenated to it while nobody declared it). main() checks this constant against the
// T2 fact Gen.HtmlFacts.hostDefaultVocabulary (go/ast over encoding/htmlrdfa/decoder.go) through the driver op `html.hostvocab`.
// An author-written vocab="<hostVocab>" is a declared vocabulary like any other (RDFa Core 7.4.3).
const hostVocab = "http://www.w3.org/1999/xhtml/vocab#"

var vocabs = []string{"http://schema.org/", "http://vocab.example/ns#", "http://xmlns.com/foaf/0.1/", "http://p.example/", hostVocab}

// pickVocab: a vocabulary IRI for @vocab; the special value gets extra weight
func pickVocab(r *vh.Rng) string {
	if r.Chance(30) {
		return hostVocab
	}
	return vh.Pick(r, vocabs[:4])
}

// IRIs of the host default vocabulary whose local part is NOT a predefined term of the initial context
var hostVocabPlain = []string{hostVocab + "up", hostVocab + "chapter"}

// Family "prefix token outside the scope that declares it": absolute IRIs whose scheme is the name of a prefix that some
// element of the document may declare (declPrefixes). Written out in full where the prefix is not in scope they denote
// themselves (RDFa Core 7.4.2: a value that is not a CURIE is an IRI); where it is in scope the same text is a CURIE.
var tokenPreds = []string{"ex:q", "p:rel", "o:x", "wiki:Help", "ex:p1", "p:deep/er/q"}
var tokenRes = []string{"o:x", "ex:thing", "p:deep/er/x", "wiki:Main_Page", "o:"}

// tokenScheme: the declarable prefix name that is the scheme of iri ("" when there is none)
func tokenScheme(iri string) string {
	i := strings.IndexByte(iri, ':')
	if i <= 0 {
		return ""
	}
	sc := strings.ToLower(iri[:i])
	for _, d := range declPrefixes {
		if strings.ToLower(d[0]) == sc {
			return sc
		}
	}
	return ""
}

var lexes = []string{"", "x", "hello world", "Größe ✓", "a<b>&c", "say \"hi\" 'there'", "line1\nline2", " lead and trail ", "tab\there",
	"&amp; literal", "<!-- not a comment -->", "</span>", "]]>", "cr\rhere", "42", "日本語", "a b", "emoji 😀"}

var langs = []string{"en", "fr-CA", "de", "EN-us"}

var datatypes = []string{"http://www.w3.org/2001/XMLSchema#integer", "http://www.w3.org/2001/XMLSchema#date", "http://dt.example/t",
	"http://vocab.example/ns#dt", "http://www.w3.org/2001/XMLSchema#boolean"}

var declPrefixes = [][2]string{{"ex", "http://vocab.example/ns#"}, {"p", "http://p.example/"}, {"o", "http://other.example/"},
	{"dc", "http://purl.org/dc/elements/1.1/"}, {"wiki", "http://ex.org/p/"}, {"EX2", "http://ex.org/dir/"}}

var initialPrefixes = func() map[string]string {
	m := map[string]string{}
	for _, pm := range rdfacontext.NewWidelyUsedInitialContext().GetPrefixMappings() {
		m[pm.Prefix] = pm.Expanded
	}
	return m
}()

var terms11 = map[string]string{
	"describedby": "http://www.w3.org/2007/05/powder-s#describedby",
	"license":     "http://www.w3.org/1999/xhtml/vocab#license",
	"role":        "http://www.w3.org/1999/xhtml/vocab#role",
}

func resolveGo(base, ref string) string {
	if base == "" {
		return ref
	}
	b, err := url.Parse(base)
	if err != nil {
		return ref
	}
	r, err := url.Parse(ref)
	if err != nil {
		return ref
	}
	return b.ResolveReference(r).String()
}

func dropFragment(s string) string {
	if i := strings.IndexByte(s, '#'); i >= 0 {
		return s[:i]
	}
	return s
}

// ---------------------------------------------------------------- graph generator

type gen struct {
	r    *vh.Rng
	base string
	// spelling hints: graph IRI -> relative reference that resolves to it
	rel map[string]string
	// tok: the RDFa graph uses IRIs whose scheme is a declarable prefix name (tokenPreds / tokenRes)
	tok bool
	// histogram keys collected by rdfaChoices (merged into the report by the caller)
	hist []string
}

func (g *gen) pred() Term {
	if g.tok && g.r.Chance(40) {
		return I(vh.Pick(g.r, tokenPreds))
	}
	return I(vh.Pick(g.r, predIRIs))
}

func (g *gen) resource(allowB bool) Term {
	switch {
	case g.tok && g.r.Chance(15):
		return I(vh.Pick(g.r, tokenRes))
	case allowB && g.r.Chance(25):
		return B(fmt.Sprintf("b%d", g.r.Intn(4)))
	case g.base != "" && g.r.Chance(35):
		ref := vh.Pick(g.r, relRefs)
		abs := resolveGo(dropFragment(g.base), ref)
		if _, ok := g.rel[abs]; !ok {
			g.rel[abs] = ref
		}
		return I(abs)
	default:
		return I(vh.Pick(g.r, absIRIs))
	}
}

func (g *gen) literal(kinds string) Term {
	lex := vh.Pick(g.r, lexes)
	switch k := kinds[g.r.Intn(len(kinds))]; k {
	case 'l':
		return Lit(lex, rdfLangString, vh.Pick(g.r, langs))
	case 't':
		return Lit(lex, vh.Pick(g.r, datatypes), "")
	default:
		return Lit(lex, xsdString, "")
	}
}

// rdfaGraph: any subject resource, any predicate IRI, objects of all kinds. Built so that neighbouring triples
// often share a subject or chain (object of one = subject of the next), which the block patterns use.
func (g *gen) rdfaGraph() []Triple {
	n := 1 + g.r.Intn(6)
	var out []Triple
	cur := g.resource(true)
	for len(out) < n {
		p := g.pred()
		switch {
		case g.r.Chance(12) && cur.Kind == 'I':
			out = append(out, Triple{cur, I(rdfType), I(vh.Pick(g.r, absIRIs))})
		case g.r.Chance(45):
			out = append(out, Triple{cur, p, g.literal("ssslt")})
		default:
			o := g.resource(true)
			out = append(out, Triple{cur, p, o})
			if g.r.Chance(50) {
				cur = o // chain
				continue
			}
		}
		if g.r.Chance(12) {
			// the same subject and object under a second predicate (property="p q")
			last := out[len(out)-1]
			out = append(out, Triple{last.S, g.pred(), last.O})
		}
		if g.r.Chance(30) {
			cur = g.resource(true)
		}
	}
	if g.r.Chance(10) && len(out) > 0 {
		// the reverse edge of the first resource triple
		for _, t := range out {
			if t.O.Kind != 'L' {
				out = append(out, Triple{t.O, I(vh.Pick(g.r, predIRIs)), t.S})
				break
			}
		}
	}
	if g.r.Chance(12) {
		i, j := g.r.Intn(len(out)), g.r.Intn(len(out))
		out[i], out[j] = out[j], out[i]
	}
	return out
}

// ---------------------------------------------------------------- RDFa choices

type prefixEnv map[string]string

func (e prefixEnv) clone() prefixEnv {
	m := prefixEnv{}
	for k, v := range e {
		m[k] = v
	}
	return m
}

// curieFor returns a CURIE spelling of iri under env, if one exists.
func (g *gen) curieFor(env prefixEnv, iri string) (string, bool) {
	var cands []string
	for p, ns := range env {
		if strings.HasPrefix(iri, ns) {
			cands = append(cands, p+":"+iri[len(ns):])
		}
	}
	if len(cands) == 0 {
		return "", false
	}
	// deterministic pick independent of map order
	best := cands[0]
	for _, c := range cands {
		if c < best {
			best = c
		}
	}
	return best, true
}

func optHex(s *string) string {
	if s == nil {
		return "-"
	}
	return hx(*s)
}

func sp(s string) *string { return &s }

// altRes: an alternative spelling for a subject/object resource in @about/@resource (or nil).
func (g *gen) altRes(env prefixEnv, t Term, hrefLike bool) *string {
	if g.r.Chance(40) {
		return nil
	}
	if t.Kind == 'B' {
		if !hrefLike && g.r.Chance(40) {
			return sp("[_:" + t.V + "]")
		}
		return nil
	}
	if t.Kind != 'I' {
		return nil
	}
	if ref, ok := g.rel[t.V]; ok && g.r.Chance(60) {
		return sp(ref)
	}
	if !hrefLike {
		if c, ok := g.curieFor(env, t.V); ok {
			if g.r.Chance(40) {
				return sp("[" + c + "]")
			}
			return sp(c)
		}
	}
	return nil
}

// altPred: an alternative spelling for a predicate / type / datatype IRI.
func (g *gen) altPred(env prefixEnv, vocab string, iri string) *string {
	if g.r.Chance(35) {
		return nil
	}
	if vocab != "" && strings.HasPrefix(iri, vocab) && len(iri) > len(vocab) && g.r.Chance(70) {
		rest := iri[len(vocab):]
		if isTermLike(rest) {
			return sp(rest)
		}
	}
	if vocab == "" {
		for term, v := range terms11 {
			if v == iri && g.r.Chance(60) {
				if g.r.Chance(25) {
					return sp(strings.ToUpper(term[:1]) + term[1:])
				}
				return sp(term)
			}
		}
	}
	if c, ok := g.curieFor(env, iri); ok {
		return sp(c)
	}
	return nil
}

func isTermLike(s string) bool {
	if s == "" {
		return false
	}
	for i, c := range s {
		ok := (c >= 'a' && c <= 'z') || (c >= 'A' && c <= 'Z') || c == '_' || (i > 0 && (c >= '0' && c <= '9' || c == '-' || c == '.' || c == '/'))
		if !ok {
			return false
		}
	}
	return true
}

func natList(l []int) string {
	parts := make([]string, len(l))
	for i, v := range l {
		parts[i] = fmt.Sprint(v)
	}
	return strings.Join(parts, ".")
}

func (g *gen) ints(n, max int) []int {
	l := make([]int, n)
	for i := range l {
		l[i] = g.r.Intn(max)
	}
	return l
}

func prefixAttr(r *vh.Rng, decls [][2]string) string {
	var sb strings.Builder
	for i, d := range decls {
		if i > 0 {
			sb.WriteString(vh.Pick(r, []string{" ", "  ", "\n", "\t"}))
		}
		sb.WriteString(d[0] + ":" + vh.Pick(r, []string{" ", "  "}) + d[1])
	}
	return sb.String()
}

// ---- choosing patterns that apply (mirrors the shapes of lean/RdfModel/Spec/RdfaPatterns.lean; a choice that does
// not apply is harmless — the Lean writer falls back to the canonical block — but wastes the case)

func isLit(t Term) bool { return t.Kind == 'L' }

// leafForm: object form for a leaf; hrefLike reports whether the object is spelt in @href/@src
func (g *gen) leafForm(t Triple) (form int, hrefLike bool) {
	if isLit(t.O) {
		return g.r.Intn(32), false
	}
	opts := []int{0, 3, 6}
	if t.O.Kind == 'I' {
		opts = append(opts, 1, 2, 4, 5)
		if t.P.V == rdfType {
			opts = append(opts, 7, 7)
		}
	}
	f := vh.Pick(g.r, opts)
	return f + 8*g.r.Intn(4), f == 1 || f == 2 || f == 4 || f == 5
}

// how: 0 @about, 1 @resource, 2 @href, 3 @src — blank nodes cannot be named by @href/@src
func (g *gen) how(t Term) int {
	if t.Kind == 'B' {
		return g.r.Intn(2)
	}
	return g.r.Intn(4)
}

type blockPlan struct {
	take, shape int
	form        []int
	sHref       []bool // per triple: subject spelt in @href/@src
	oHref       []bool // per triple: object spelt in @href/@src
	oAsPred     []bool // per triple: object spelt as a TERMorCURIEorAbsIRI (typeof)
}

func (g *gen) planBlock(gr []Triple, i int, maxTake int) blockPlan {
	t := gr[i:]
	type cand struct{ take, shape int }
	var cs []cand
	cs = append(cs, cand{0, 0}, cand{0, 0}, cand{0, 1}, cand{0, 2})
	if !isLit(t[0].O) {
		cs = append(cs, cand{0, 3}, cand{0, 4}, cand{0, 5})
	}
	if maxTake >= 1 && len(t) >= 2 {
		a, b := t[0], t[1]
		cs = append(cs, cand{1, 6})
		if a.S == b.S {
			cs = append(cs, cand{1, 0}, cand{1, 0})
			if a.O == b.O {
				cs = append(cs, cand{1, 2}, cand{1, 2})
			}
			if a.P.V == rdfType && a.O.Kind == 'I' {
				cs = append(cs, cand{1, 3}, cand{1, 3})
			}
			if a.P == b.P && !isLit(a.O) && !isLit(b.O) {
				cs = append(cs, cand{1, 5}, cand{1, 5})
			}
		}
		if !isLit(a.O) && a.O == b.S {
			cs = append(cs, cand{1, 1}, cand{1, 1}, cand{1, 1})
			if b.O == a.S {
				cs = append(cs, cand{1, 4}, cand{1, 4})
			}
		}
	}
	if maxTake >= 2 && len(t) >= 3 {
		a, b, c := t[0], t[1], t[2]
		if a.S == b.S && b.S == c.S {
			cs = append(cs, cand{2, 0}, cand{2, 0})
		}
		if !isLit(a.O) && a.O == b.S && a.O == c.S {
			cs = append(cs, cand{2, 1}, cand{2, 1})
		}
		if a.S == b.S && !isLit(b.O) && b.O == c.S {
			cs = append(cs, cand{2, 2}, cand{2, 2})
		}
	}
	c := vh.Pick(g.r, cs)
	if g.r.Chance(4) { // now and then something that need not apply
		c = cand{g.r.Intn(maxTake + 1), g.r.Intn(7)}
		if c.take+1 > len(t) {
			c.take = 0
		}
	}
	n := c.take + 1
	p := blockPlan{take: c.take, shape: c.shape + 42*g.r.Intn(3), form: make([]int, 4), sHref: make([]bool, n), oHref: make([]bool, n), oAsPred: make([]bool, n)}
	for k := 0; k < 4; k++ {
		p.form[k] = g.r.Intn(64)
	}
	leaf := func(k int) {
		p.form[k], p.oHref[k] = g.leafForm(t[k])
		p.oAsPred[k] = !isLit(t[k].O) && p.form[k]%8 == 7 && t[k].P.V == rdfType
	}
	holder := func(formIdx int, s Term, shapeAdd int) {
		h := g.how(s)
		// Lean: how = (shapeAdd + form[formIdx]) % 4
		p.form[formIdx] = ((h-shapeAdd)%4+4)%4 + 4*g.r.Intn(8)
		for k := range p.sHref {
			p.sHref[k] = p.sHref[k] || (k == 0 && h >= 2)
		}
	}
	switch n {
	case 1:
		switch c.shape % 6 {
		case 0:
			leaf(0)
		case 1, 2:
			leaf(0)
			holder(1, t[0].S, p.shape)
		case 3:
			h := g.how(t[0].O)
			p.form[0], p.oHref[0] = h+4*g.r.Intn(8), h >= 2
		case 4:
			h := g.how(t[0].S)
			p.form[0], p.sHref[0] = h+4*g.r.Intn(8), h >= 2
		}
	case 2:
		switch c.shape % 7 {
		case 0:
			leaf(0)
			leaf(1)
			holder(2, t[0].S, 0)
		case 1:
			leaf(1)
			h := 0
			if isLit(t[1].O) && (p.form[1]%4 == 0 || p.form[1]%4 == 3) {
				h = g.how(t[0].O)
			}
			p.form[0], p.oHref[0] = h+4*g.r.Intn(8), h >= 2
		case 2:
			leaf(0)
			p.oHref[1] = p.oHref[0]
		case 3:
			leaf(1)
			p.oAsPred[0] = true
		case 5:
			h0, h1 := g.how(t[0].O), g.how(t[1].O)
			p.form[0], p.oHref[0] = h0+4*g.r.Intn(8), h0 >= 2
			p.form[1], p.oHref[1] = h1+4*g.r.Intn(8), h1 >= 2
		case 6:
			leaf(0)
			leaf(1)
		}
	case 3:
		switch c.shape % 3 {
		case 0:
			leaf(0)
			leaf(1)
			leaf(2)
			holder(3, t[0].S, 0)
		case 1:
			leaf(1)
			leaf(2)
			h := g.how(t[0].O)
			p.form[0], p.oHref[0] = h+4*g.r.Intn(8), h >= 2
		case 2:
			leaf(0)
			leaf(2)
			h := 0
			if isLit(t[2].O) && (p.form[2]%4 == 0 || p.form[2]%4 == 3) {
				h = g.how(t[1].O)
			}
			p.form[1], p.oHref[1] = h+4*g.r.Intn(8), h >= 2
			holder(3, t[0].S, 0)
		}
	}
	return p
}

// graphSchemes: the declarable prefix names that occur as the scheme of an IRI of the triples
func graphSchemes(ts []Triple) map[string]bool {
	m := map[string]bool{}
	for _, t := range ts {
		for _, x := range []Term{t.S, t.P, t.O} {
			if x.Kind == 'I' {
				if sc := tokenScheme(x.V); sc != "" {
					m[sc] = true
				}
			}
			if x.Kind == 'L' {
				if sc := tokenScheme(x.DT); sc != "" {
					m[sc] = true
				}
			}
		}
	}
	return m
}

// declarable: the prefix declarations whose name is not in `not`; those whose name is in `prefer` come first
func declarable(not, prefer map[string]bool) (preferred, others [][2]string) {
	for _, d := range declPrefixes {
		n := strings.ToLower(d[0])
		switch {
		case not[n]:
		case prefer[n]:
			preferred = append(preferred, d)
		default:
			others = append(others, d)
		}
	}
	return
}

// rdfaChoices: skeleton token and pattern tokens for graph gr.
//
// Prefix scoping: a prefix is declared on the skeleton (html, body: in scope everywhere) or on the wrapper of one block
// (in scope in that block only). When the graph has IRIs whose scheme is a declarable prefix name (family "prefix token
// outside the scope that declares it") the skeleton never declares that name (the graph would not be expressible), a
// block that has such an IRI itself does not declare it either, and the OTHER blocks declare it with extra weight: the
// document then has the token as a CURIE prefix in one sibling subtree and as an IRI scheme in another, in either order.
func (g *gen) rdfaChoices(gr []Triple) (string, []string) {
	env := prefixEnv(initialPrefixes).clone()
	used := graphSchemes(gr)
	var hp, hl, bp, bl *string
	declare := func() *string {
		n := 1 + g.r.Intn(2)
		_, cands := declarable(used, nil)
		if len(cands) == 0 {
			return nil
		}
		var ds [][2]string
		for i := 0; i < n; i++ {
			d := vh.Pick(g.r, cands)
			ds = append(ds, d)
			env[strings.ToLower(d[0])] = d[1]
		}
		return sp(prefixAttr(g.r, ds))
	}
	if g.r.Chance(30) {
		hp = declare()
	}
	if g.r.Chance(30) {
		bp = declare()
	}
	if g.r.Chance(15) {
		hl = sp(vh.Pick(g.r, langs))
	}
	if g.r.Chance(15) {
		bl = sp(vh.Pick(g.r, append([]string{""}, langs...)))
	}
	skel := "K" + optHex(hp) + "/" + optHex(hl) + "/" + optHex(bp) + "/" + optHex(bl)

	var pats []string
	type blockScope struct {
		declares string          // prefix name declared on the block's wrapper ("" = none)
		schemes  map[string]bool // declarable names used as IRI schemes by the block's triples
	}
	var scopes []blockScope
	i := 0
	for i < len(gr) {
		vocab := ""
		voc := 0
		if gr[i].P.V == usesVocab && gr[i].O.Kind == 'I' && i+1 < len(gr) && g.r.Chance(85) {
			vocab = gr[i].O.V
			voc = 1
		}
		plan := g.planBlock(gr, i+voc, 2)
		own := graphSchemes(gr[i : i+voc+plan.take+1])
		lenv := env
		var pfx *string
		declared := ""
		pct := 20
		if len(used) > 0 {
			pct = 50
		}
		if g.r.Chance(pct) {
			preferred, others := declarable(own, used)
			cands := append(append([][2]string{}, preferred...), others...)
			if len(preferred) > 0 && g.r.Chance(75) {
				cands = preferred
			}
			if len(cands) > 0 {
				lenv = env.clone()
				d := vh.Pick(g.r, cands)
				declared = strings.ToLower(d[0])
				lenv[declared] = d[1]
				pfx = sp(prefixAttr(g.r, [][2]string{d}))
			}
		}
		scopes = append(scopes, blockScope{declared, own})
		var wlang *string
		if g.r.Chance(12) {
			wlang = sp(vh.Pick(g.r, langs))
		}
		var alts []string
		for k := 0; k <= plan.take; k++ {
			t := gr[i+voc+k]
			var dt *string
			if t.O.Kind == 'L' && t.O.DT != xsdString && t.O.DT != rdfLangString {
				dt = g.altPred(lenv, vocab, t.O.DT)
			}
			var o *string
			if t.O.Kind != 'L' {
				if plan.oAsPred[k] {
					o = g.altPred(lenv, vocab, t.O.V)
				} else {
					o = g.altRes(lenv, t.O, plan.oHref[k])
				}
			}
			ps := g.altPred(lenv, vocab, t.P.V)
			if vocab == hostVocab && ps != nil && !strings.Contains(*ps, ":") {
				if _, predefined := terms11[strings.ToLower(*ps)]; predefined {
					g.hist = append(g.hist, "rdfa-writer:vocab=host-default term=predefined")
				} else {
					g.hist = append(g.hist, "rdfa-writer:vocab=host-default term=plain")
				}
			}
			alts = append(alts, optHex(g.altRes(lenv, t.S, plan.sHref[k]))+"~"+optHex(ps)+"~"+optHex(o)+"~"+optHex(dt))
		}
		pat := fmt.Sprintf("P%d.%d.%d.%d.%d.%d/%s/%s/%s/%s/%s", plan.take+voc, plan.shape, g.r.Intn(6)*g.r.Intn(2), g.r.Intn(8), voc, g.r.Intn(4)*g.r.Intn(2),
			natList(plan.form), natList(g.ints(8, 36)), optHex(pfx), optHex(wlang), strings.Join(alts, "+"))
		pats = append(pats, pat)
		i += plan.take + 1 + voc
	}
	// which scoping situations the document has (as asked for; a block whose candidate does not validate is written
	// canonically, without its wrapper)
	for j, b := range scopes {
		for sc := range b.schemes {
			where := "never"
			for k, c := range scopes {
				if c.declares == sc && k < j {
					where = "earlier-sibling"
					break
				}
				if c.declares == sc && k > j && where == "never" {
					where = "later-sibling"
				}
			}
			g.hist = append(g.hist, "rdfa-writer:prefix token as IRI scheme, declared by="+where)
		}
	}
	return skel, pats
}
