/-
  Audit for C10: axioms used by every theorem of Props/C10.lean (expected: a subset of
  {propext, Classical.choice, Quot.sound}), and the theorems instantiated at the witness.
-/
import RdfModel.Props.C10
import RdfModel.Props.C10Facts
open RdfModel RdfModel.Desc RdfModel.JL RdfModel.JLEnc RdfModel.C10

#print axioms RdfModel.C10.write_denotes
#print axioms RdfModel.C10.writeFlat_denotes
#print axioms RdfModel.C10.forest_certificate
#print axioms RdfModel.C10.encoder_roundtrip_partial
#print axioms RdfModel.C10.usedPrefixes_nodup
#print axioms RdfModel.C10.encoder_context_read
#print axioms RdfModel.C10.encoder_iri_roundtrip
#print axioms RdfModel.C10.encoder_doc_context
#print axioms RdfModel.C10.encoder_statement_read
#print axioms RdfModel.C10.encCert_of_natural_holds
#print axioms RdfModel.C10.encoder_forest_exists
#print axioms RdfModel.C10.encoder_document_read
#print axioms RdfModel.C10.encoder_roundtrip_natural2_partial
#print axioms RdfModel.C10.gen_keywords
#print axioms RdfModel.C10.gen_no_network_imports
#print axioms RdfModel.C10.gen_default_loader_refuses
#print axioms RdfModel.C10.gen_iri_rejected
#print axioms RdfModel.C10.gen_double_condition
#print axioms RdfModel.C10.gen_encoder_constants
#print axioms RdfModel.C10.Witness.wf
#print axioms RdfModel.C10.Witness.validated
#print axioms RdfModel.C10.Witness.cert
#print axioms RdfModel.C10.Witness.natural
#print axioms RdfModel.C10.Witness.natural2

theorem RdfModel.C10.Witness.name_injective : Function.Injective Witness.name := by
  intro a b h
  have key : ∀ n : Nat, (natDigits n).foldl (fun a c => a * 10 + (c - 0x30)) 0 = n := by
    intro n
    unfold natDigits
    have aux : ∀ (fuel n : Nat) (acc : List Nat), n < fuel →
        (digitsAux fuel n acc).foldl (fun a c => a * 10 + (c - 0x30)) 0
          = acc.foldl (fun a c => a * 10 + (c - 0x30)) n := by
      intro fuel
      induction fuel with
      | zero => intro n acc h; omega
      | succ f ih =>
        intro n acc h
        unfold digitsAux
        split
        · next hlt =>
          simp only [List.foldl_cons]
          congr 1
          omega
        · next hge =>
          rw [ih (n / 10) _ (by omega)]
          simp only [List.foldl_cons]
          congr 1
          omega
    simpa using aux (n + 1) n [] (by omega)
  have := congrArg (fun l => List.foldl (fun a c => a * 10 + (c - 0x30)) 0 l) h
  simpa [Witness.name, key] using this

theorem RdfModel.C10.Witness.name_nonempty : ∀ n, Witness.name n ≠ [] := by
  intro n h
  have : (natDigits n).length = 0 := by rw [show natDigits n = Witness.name n from rfl, h]; rfl
  unfold natDigits at this
  have aux : ∀ (fuel n : Nat) (acc : List Nat), n < fuel → 0 < (digitsAux fuel n acc).length := by
    intro fuel
    induction fuel with
    | zero => intro n acc h; omega
    | succ f ih =>
      intro n acc h
      unfold digitsAux
      split
      · simp
      · exact ih _ _ (by omega)
  have := aux (n + 1) n [] (by omega)
  omega

/-- the fragment theorem at the witness -/
theorem RdfModel.C10.Witness.denotes :
    ∃ out, toRdf true none (write Witness.name Witness.d Witness.ch) = some out ∧ Spec.IsoQ out Witness.d :=
  write_denotes Witness.name Witness.name_injective Witness.name_nonempty Witness.d Witness.wf Witness.ch

/-- the encoder theorem at the witness -/
theorem RdfModel.C10.Witness.roundtrip :
    ∃ doc out, encode Witness.cfg Witness.d0 (defaultOrd Witness.d0) (defaultOrd Witness.d0) = some doc ∧ toRdf true none doc = some out ∧
      Spec.IsoQ out Witness.d0 :=
  encoder_roundtrip_partial true none Witness.cfg Witness.name_injective Witness.d0 _ _ Witness.cert

#print axioms RdfModel.C10.Witness.denotes
#print axioms RdfModel.C10.Witness.roundtrip

/-- the natural-hypotheses theorem at the witness (non-vacuity of `encoder_roundtrip_natural2_partial`) -/
theorem RdfModel.C10.Witness.roundtrip_natural2 :
    ∃ doc out, encode Witness.cfg Witness.d0 (defaultOrd Witness.d0) (defaultOrd Witness.d0) = some doc ∧
      toRdf false (some (asc "http://other.example/base")) doc = some out ∧ Spec.IsoQ out Witness.d0 :=
  encoder_roundtrip_natural2_partial false _ Witness.cfg Witness.name_injective Witness.name_nonempty Witness.d0
    (defaultOrd Witness.d0) (defaultOrd Witness.d0) (fun _ h => h) (fun _ h => h) Witness.natural.1 Witness.natural.2.2.1
    Witness.natural2.2.1 Witness.natural2.2.2.1 Witness.natural2.2.2.2.1
#print axioms RdfModel.C10.Witness.roundtrip_natural2

/-- `encoder_document_read` at the witness (non-vacuity of its hypotheses) -/
theorem RdfModel.C10.Witness.document_read :
    ∃ doc F, encode Witness.cfg Witness.d0 (defaultOrd Witness.d0) (defaultOrd Witness.d0) = some doc ∧
      encForest Witness.cfg Witness.d0 (defaultOrd Witness.d0) (defaultOrd Witness.d0) = some F ∧
      toRdf true none doc = some (denForest Witness.cfg.label F (encStart F)).1 :=
  encoder_document_read true none Witness.cfg Witness.d0 (defaultOrd Witness.d0) (defaultOrd Witness.d0)
    Witness.name_nonempty (fun _ h => h) (fun _ h => h) Witness.natural.1 Witness.natural.2.2.1
    Witness.natural2.2.1 Witness.natural2.2.2.1
#print axioms RdfModel.C10.Witness.document_read
