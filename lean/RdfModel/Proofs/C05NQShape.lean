/-
  Proofs.C05NQShape — every statement the decoder yields is well-formed (C06). No table facts.
-/
import RdfModel.Props.C05NQDefs
import RdfModel.Proofs.C05NQLen
namespace RdfModel.Proofs.C05NQ
open RdfModel RdfModel.NQ RdfModel.C05NQ

theorem captureIRI_urlOk (T : Tables) (urlOk : List Nat → Bool) (e : End) (inp v r : List Nat)
    (h : captureIRI T urlOk e inp = .ok v r) : urlOk v = true := by
  unfold captureIRI at h
  split at h
  · simp only at h
    split at h
    · next hu => simp only [R.ok.injEq] at h; obtain ⟨rfl, _⟩ := h; exact hu
    · simp at h
  · simp at h

theorem langSecondary_ne (e : End) (inp acc v r : List Nat)
    (h : langSecondary e inp acc = .ok v r) (ha : acc ≠ []) : v ≠ [] := by
  fun_induction langSecondary e inp acc
  all_goals (try (simp at h; done))
  all_goals (try (simp_all; done))
  · simp only [R.ok.injEq] at h; obtain ⟨rfl, _⟩ := h; simpa using ha

theorem langPrimary_ne (e : End) (inp acc v r : List Nat)
    (h : langPrimary e inp acc = .ok v r) : v ≠ [] := by
  fun_induction langPrimary e inp acc
  all_goals (try (simp at h; done))
  all_goals (try (simp_all; done))
  · exact langSecondary_ne _ _ _ _ _ h (by simp)
  · next hne =>
    simp only [R.ok.injEq] at h; obtain ⟨rfl, _⟩ := h
    simpa using hne

theorem xsd_ne_lang : xsdString ≠ rdfLangString := by decide
theorem xsd_ne_dir : xsdString ≠ rdfDirLangString := by decide
theorem lang_ne_dir : rdfLangString ≠ rdfDirLangString := by decide

theorem captureLiteral_shape (T : Tables) (urlOk : List Nat → Bool) (e : End) (inp : List Nat)
    (v : Term (List Nat)) (r : List Nat) (h : captureLiteral T urlOk e inp = .ok v r) :
    ∃ lex dt lang, v = .lit lex dt lang ∧ litOK urlOk dt lang := by
  have plain : ∀ lex, ∃ lex' dt lang, (Term.lit lex xsdString none : Term (List Nat)) = .lit lex' dt lang ∧
      litOK urlOk dt lang := fun lex =>
    ⟨lex, _, _, rfl, Or.inl rfl, ⟨fun h => absurd h xsd_ne_lang, fun ⟨t, ht, _⟩ => by simp at ht⟩,
      xsd_ne_dir⟩
  unfold captureLiteral at h
  split at h
  · simp at h
  · simp only at h
    split at h
    · split at h
      · simp only [R.ok.injEq] at h; obtain ⟨rfl, _⟩ := h; exact plain _
      · simp at h
    · split at h
      · split at h
        · next tag r' hl =>
          simp only [R.ok.injEq] at h; obtain ⟨rfl, _⟩ := h
          exact ⟨_, _, _, rfl, Or.inr (Or.inl rfl),
            ⟨fun _ => ⟨tag, rfl, langPrimary_ne _ _ _ _ _ hl⟩, fun _ => rfl⟩, lang_ne_dir⟩
        · simp at h
      · split at h
        · split at h
          · simp at h
          · split at h
            · simp at h
            · split at h
              · simp at h
              · split at h
                · simp at h
                · split at h
                  · next dt r' hi =>
                    split at h
                    · simp at h
                    · next hne =>
                      simp only [R.ok.injEq] at h; obtain ⟨rfl, _⟩ := h
                      exact ⟨_, _, _, rfl, Or.inr (Or.inr (captureIRI_urlOk _ _ _ _ _ _ hi)),
                        ⟨fun hh => absurd (Or.inl hh) hne, fun ⟨t, ht, _⟩ => by simp at ht⟩,
                        fun hh => hne (Or.inr hh)⟩
                  · simp at h
        · simp only [R.ok.injEq] at h; obtain ⟨rfl, _⟩ := h; exact plain _

theorem bnFinish_ne (T : Tables) (acc rest l r : List Nat) (h : bnFinish T acc rest = .ok l r)
    (ha : acc ≠ []) : l ≠ [] := by
  unfold bnFinish at h
  split at h
  · split at h
    · simp at h
    · split at h
      · split at h
        · simp at h
        · split at h <;> simp at h
          obtain ⟨rfl, _⟩ := h; simp
      · split at h <;> simp at h
        obtain ⟨rfl, _⟩ := h; simp
  · simp only [R.ok.injEq] at h; obtain ⟨rfl, _⟩ := h; simpa using ha

theorem bnLoop_ne (T : Tables) (e : End) (inp acc l r : List Nat) (h : bnLoop T e inp acc = .ok l r)
    (ha : acc ≠ []) : l ≠ [] := by
  fun_induction bnLoop T e inp acc
  · simp at h
  · next ih => exact ih h (by simp)
  · exact bnFinish_ne _ _ _ _ _ h ha

theorem captureBNode_ne (T : Tables) (e : End) (inp l r : List Nat)
    (h : captureBNode T e inp = .ok l r) : l ≠ [] := by
  unfold captureBNode at h
  split at h
  · simp at h
  · split at h
    · exact bnLoop_ne _ _ _ _ _ _ h (by simp)
    · simp at h

/-- What a position can yield. -/
def termShape (urlOk : List Nat → Bool) (pos : Pos) : Term (List Nat) → Prop
  | .iri v => urlOk v = true
  | .bnode l => pos.bnode = true ∧ l ≠ []
  | .lit _ dt lang => pos.literal = true ∧ litOK urlOk dt lang

theorem captureTerm_shape (T : Tables) (urlOk : List Nat → Bool) (e : End) (pos : Pos) (b : Bool)
    (inp : List Nat) (v : Term (List Nat)) (r : List Nat)
    (h : captureTerm T urlOk e pos b inp = .ok v r) : termShape urlOk pos v := by
  fun_induction captureTerm T urlOk e pos b inp
  all_goals (try (simp at h; done))
  all_goals (try (simp_all; done))
  · next hi =>
    simp only [R.ok.injEq] at h; obtain ⟨rfl, _⟩ := h
    exact captureIRI_urlOk _ _ _ _ _ _ hi
  · next hp _ _ _ _ _ hb =>
    simp only [R.ok.injEq] at h; obtain ⟨rfl, _⟩ := h
    simp only [Bool.and_eq_true, decide_eq_true_eq] at hp
    exact ⟨hp.2, captureBNode_ne _ _ _ _ _ hb⟩
  · next hp =>
    simp only [Bool.and_eq_true, decide_eq_true_eq] at hp
    obtain ⟨lex, dt, lang, rfl, hl⟩ := captureLiteral_shape _ _ _ _ _ _ h
    exact ⟨hp.2, hl⟩

theorem nodeShape_of_subject {urlOk : List Nat → Bool} {t : Term (List Nat)}
    (h : termShape urlOk posSubject t) : nodeShape urlOk t := by
  cases t with
  | iri v => exact h
  | bnode l => exact h.2
  | lit l d t => exact absurd h.1 (by simp [posSubject])

theorem statement_wf (T : Tables) (urlOk : List Nat → Bool) (e : End) (quads : Bool)
    (inp : List Nat) (q : Quad (List Nat)) (rest : List Nat)
    (h : statement T urlOk e quads inp = .quad q rest) : WFShape urlOk quads q := by
  obtain ⟨inp', s, r1, p, r2, o, r3, hsk, hs, hp, ho, hrest⟩ := statement_quad _ _ _ _ _ _ _ h
  have h1 := nodeShape_of_subject (captureTerm_shape _ _ _ _ _ _ _ _ hs)
  have h2 : ∃ v, p = .iri v ∧ urlOk v = true := by
    have := captureTerm_shape _ _ _ _ _ _ _ _ hp
    cases p with
    | iri v => exact ⟨v, rfl, this⟩
    | bnode l => exact absurd this.1 (by simp [posPredicate])
    | lit l d t => exact absurd this.1 (by simp [posPredicate])
  have h3 : objectShape urlOk o := by
    have := captureTerm_shape _ _ _ _ _ _ _ _ ho
    cases o with
    | iri v => exact this
    | bnode l => exact this.2
    | lit l d t => exact this.2
  rcases hrest with ⟨_, _, rfl⟩ | ⟨hq, x, r4, g, r5, _, hg, _, rfl⟩ | ⟨_, _, rfl⟩
  · exact ⟨h1, h2, h3, fun g hg => by simp at hg⟩
  · refine ⟨h1, h2, h3, fun g' hg' => ?_⟩
    simp only [Option.some.injEq] at hg'; subst hg'
    exact ⟨hq, nodeShape_of_subject (captureTerm_shape _ _ _ _ _ _ _ _ hg)⟩
  · exact ⟨h1, h2, h3, fun g hg => by simp at hg⟩

theorem next_wf (T : Tables) (urlOk : List Nat → Bool) (e : End) (quads started : Bool)
    (inp rest : List Nat) (q : Quad (List Nat)) (h : next T urlOk e quads started inp = .quad q rest) :
    WFShape urlOk quads q := by
  unfold next at h
  split at h
  · split at h
    · simp at h
    · simp at h
    · exact statement_wf _ _ _ _ _ _ _ h
  · exact statement_wf _ _ _ _ _ _ _ h

theorem runFuel_wf (T : Tables) (urlOk : List Nat → Bool) (e : End) (quads : Bool) :
    ∀ (fuel : Nat) (started : Bool) (inp : List Nat),
      ∀ q ∈ (runFuel T urlOk e quads fuel started inp).1, WFShape urlOk quads q := by
  intro fuel
  induction fuel with
  | zero => intro _ _ q hq; simp [runFuel] at hq
  | succ f ih =>
    intro started inp q hq
    unfold runFuel at hq
    split at hq
    · simp at hq
    · simp at hq
    · next q' rest hn =>
      simp only [List.mem_cons] at hq
      rcases hq with rfl | hq
      · exact next_wf _ _ _ _ _ _ _ _ hn
      · exact ih true rest q hq

theorem run_emits_wf (T : Tables) (urlOk : List Nat → Bool) (e : End) (quads : Bool) (inp : List Nat) :
    ∀ q ∈ (run T urlOk e quads inp).1, WFShape urlOk quads q :=
  runFuel_wf T urlOk e quads _ false inp

end RdfModel.Proofs.C05NQ
