package main

// Replay of protocol lines (files written by ./check on a violation, or hints for the search mode).

import (
	"encoding/hex"
	"os"
	"strconv"
	"strings"

	"verifharness/vh"
)

func unhexS(h string) (string, bool) {
	b, err := hex.DecodeString(h)
	return string(b), err == nil
}

func parseWireGTerm(tok string) (vh.GTerm, bool) {
	if tok == "" {
		return vh.GTerm{}, false
	}
	switch tok[0] {
	case 'I':
		v, ok := unhexS(tok[1:])
		return vh.GTerm{Kind: vh.KIRI, IRI: v}, ok
	case 'B':
		l, ok := unhexS(tok[1:])
		if ok && l == "" {
			return vh.GTerm{Kind: vh.KBNode, BNode: -1}, true
		}
		if ok && l == "b" {
			return vh.GTerm{Kind: vh.KBNode, BNode: 0}, true
		}
		if !ok || !strings.HasPrefix(l, "n") {
			return vh.GTerm{}, false
		}
		i, err := strconv.Atoi(l[1:])
		return vh.GTerm{Kind: vh.KBNode, BNode: i}, err == nil
	case 'L':
		f := strings.Split(tok[1:], ".")
		if len(f) != 3 {
			return vh.GTerm{}, false
		}
		lex, ok1 := unhexS(f[0])
		dt, ok2 := unhexS(f[1])
		t := vh.GTerm{Kind: vh.KLit, Lex: lex, DT: dt}
		if f[2] != "-" {
			l, ok := unhexS(f[2])
			if !ok {
				return vh.GTerm{}, false
			}
			t.Lang = l
		}
		return t, ok1 && ok2
	}
	return vh.GTerm{}, false
}

func parseWireGQuads(s string) ([]vh.GQuad, bool) {
	if s == "-" {
		return nil, true
	}
	var out []vh.GQuad
	for _, qs := range strings.Split(s, ";") {
		p := strings.Split(qs, ",")
		if len(p) != 4 {
			return nil, false
		}
		a, ok1 := parseWireGTerm(p[0])
		b, ok2 := parseWireGTerm(p[1])
		c, ok3 := parseWireGTerm(p[2])
		if !ok1 || !ok2 || !ok3 {
			return nil, false
		}
		q := vh.GQuad{S: a, P: b, O: c}
		if p[3] != "-" {
			g, ok := parseWireGTerm(p[3])
			if !ok {
				return nil, false
			}
			q.G = &g
		}
		out = append(out, q)
	}
	return out, true
}

func unBase(tok string) string {
	if tok == "-" {
		return ""
	}
	b, _ := vh.UnX(tok)
	return string(b)
}

func parseEncCfg(b, ps, buf string) (encCfg, bool) {
	c := encCfg{base: unBase(b), buffered: buf == "1"}
	if ps != "-" {
		for _, e := range strings.Split(ps, ";") {
			kv := strings.SplitN(e, "=", 2)
			if len(kv) != 2 {
				return c, false
			}
			k, ok1 := unhexS(kv[0])
			v, ok2 := unhexS(kv[1])
			if !ok1 || !ok2 {
				return c, false
			}
			c.prefixes = append(c.prefixes, [2]string{k, v})
		}
	}
	return c, true
}

// replayLine runs one protocol line through the stage it came from.
func (h *harness) replayLine(l string) bool {
	f := strings.Fields(l)
	if len(f) == 0 {
		return false
	}
	switch {
	case f[0] == "jl.tordf" && len(f) == 4:
		doc, err := parseWire(f[3])
		if err != nil {
			return false
		}
		h.decodeCompare("replay", doc, f[1] == "11", unBase(f[2]), nil)
		return true
	case f[0] == "jl.write" && len(f) == 7:
		qs, ok := parseWireGQuads(f[6])
		if !ok {
			return false
		}
		ch := choices{mode11: f[1] == "11", base: unBase(f[2])}
		cs := strings.Split(f[3], ":")
		if len(cs) != 3 || len(cs[0]) != 6 {
			return false
		}
		for i := range ch.flags {
			ch.flags[i] = cs[0][i] == '1'
		}
		ch.shape, _ = strconv.Atoi(cs[1])
		ch.seed, _ = strconv.Atoi(cs[2])
		if f[4] != "-" {
			cj, err := parseWire(f[4])
			if err != nil {
				return false
			}
			ch.context = cj
		}
		if f[5] != "-" {
			lj, err := parseWire(f[5])
			if err != nil {
				return false
			}
			ch.local = lj
		}
		h.writeOne(dataset{quads: qs, feat: map[string]bool{"replay": true}}, ch, nil, false)
		return true
	case f[0] == "jl.encode" && len(f) == 6:
		qs, ok := parseWireGQuads(f[5])
		cfg, ok2 := parseEncCfg(f[1], f[2], f[3])
		if !ok || !ok2 {
			return false
		}
		h.encodeOne(dataset{quads: qs, feat: map[string]bool{"replay": true}}, cfg, true, "")
		return true
	case f[0] == "jl.cert" && len(f) == 8:
		qs, ok := parseWireGQuads(f[7])
		cfg, ok2 := parseEncCfg(f[3], f[4], f[5])
		if !ok || !ok2 {
			return false
		}
		h.encodeOne(dataset{quads: qs, feat: map[string]bool{"replay": true}}, cfg, f[1] == "11", unBase(f[2]))
		return true
	}
	return false
}

func (h *harness) replayFile(path string) {
	b, err := os.ReadFile(path)
	if err != nil {
		h.rep.Add(vh.Case{Kind: "disagreement", Detail: "cannot read replay file: " + err.Error()})
		return
	}
	for _, l := range strings.Split(string(b), "\n") {
		// replay files written by ./check are JSON; protocol lines sit in "op" fields
		if i := strings.Index(l, "\"op\": \""); i >= 0 {
			l = l[i+7:]
			if j := strings.Index(l, "\""); j >= 0 {
				l = l[:j]
			}
		}
		h.replayLine(strings.TrimSpace(l))
	}
}
