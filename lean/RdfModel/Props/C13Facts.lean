/-
  Property C13 — T2 structural facts about iri/prefix_manager.go, regenerated on every run into
  Gen/PrefixFacts.lean; these small theorems are the expectations the model relies on.
-/
import RdfModel.Gen.PrefixFacts
namespace RdfModel.C13
open RdfModel.Gen.PrefixFacts

/-- The only methods of `*PrefixManager` that write `ordered` or `mappingByPrefix` are the two the
    model has operations for (`Op.add`, `Op.del`); no method hands out an alias of either field. -/
theorem mutators_modelled :
    (methods.filter (fun m => m.2.1 || m.2.2.1)).map (·.1) = ["AddPrefixMappings", "DeletePrefixes"] ∧
    methods.all (fun m => !m.2.2.2) = true := by decide

/-- The observers the model has are the observers the code has. -/
theorem observers_modelled :
    (methods.filter (fun m => !(m.2.1 || m.2.2.1))).map (·.1) = ["Clone", "CompactPrefix", "ExpandPrefix", "GetPrefixMappings"] := by
  decide

/-- `ordered` is sorted with `slices.SortFunc` by descending `len(Expanded)` — the order `Sorter` assumes. -/
theorem sort_descending : sortComparator = "slices.SortFunc: a, b => len(b.Expanded) - len(a.Expanded)" := by decide

/-- `Clone` and `GetPrefixMappings` copy (`slices.Clone`, `maps.Clone`): the model's value semantics is faithful. -/
theorem copies : cloneCopies = true ∧ getMappingsCopies = true := by decide

end RdfModel.C13
