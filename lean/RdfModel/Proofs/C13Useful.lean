/-
  Helper lemmas for property C13 — the verification step of RelativizeIRI does not kill the main
  case: an IRI in the directory of a well-formed hierarchical base is still shortened.
-/
import RdfModel.Proofs.C13Rel
namespace RdfModel.Proofs.C13
open RdfModel.Spec.RFC3986Lite RdfModel.Prefix RdfModel.C13

theorem plain_pathStop (s : Str) (h : PlainSeg s) : ∀ c ∈ s, pathStop c = false := by
  intro c hc
  obtain ⟨_, h2, h3⟩ := h.2.2 c hc
  simp [pathStop, h2, h3]

theorem joinSegs_pathStop (segs : List Str) (h : ∀ s ∈ segs, PlainSeg s) : ∀ c ∈ joinSegs segs, pathStop c = false := by
  induction segs with
  | nil => intro c hc; simp [joinSegs] at hc
  | cons s r ih =>
    intro c hc
    rw [joinSegs_cons] at hc
    simp only [List.cons_append, List.mem_cons, List.mem_append] at hc
    rcases hc with rfl | hc | hc
    · decide
    · exact plain_pathStop s (h s List.mem_cons_self) c hc
    · exact ih (fun s' h' => h s' (List.mem_cons_of_mem _ h')) c hc

theorem dirOf_join (dirs : List Str) (last : Str) (hl : ∀ c ∈ last, c ≠ cSlash) :
    dirOf (joinSegs dirs ++ cSlash :: last) = joinSegs dirs ++ [cSlash] := by
  unfold dirOf
  have hcut := cut_at (fun c => c == cSlash) last.reverse (cSlash :: (joinSegs dirs).reverse)
    (by intro c hc; simpa using hl c (List.mem_reverse.mp hc))
    (Or.inr ⟨cSlash, _, rfl, by simp⟩)
  have e : (joinSegs dirs ++ cSlash :: last).reverse = last.reverse ++ cSlash :: (joinSegs dirs).reverse := by simp
  rw [e]
  have h2 := hcut.2
  unfold from_ at h2
  have e2 : (fun c => c != cSlash) = (fun c => !(c == cSlash)) := rfl
  rw [e2, h2]
  simp

/-- the candidate for an IRI in the directory of the base, abstractly -/
theorem candidate_dir (rb : BaseIRI) (ri di : Nat) (D lastqf rest v : Str)
    (horig : rb.original = D ++ lastqf) (hv : v = D ++ rest) (hroot : rb.root = some (ri, di))
    (hdi : di = D.length) (hri : ri ≤ D.length)
    (hres2 : rb.resourceIndex ≤ rb.original.length)
    (hclean : ∀ c ∈ v, c ≠ cQuest ∧ c ≠ cHash) (hrest : rest ≠ []) (hne : rb.original ≠ v) :
    candidate rb v = .some rest := by
  have hH : ∀ i : Nat, v[i]? ≠ some cHash := fun i h => (hclean _ (List.mem_of_getElem? h)).2 rfl
  have hQ : ∀ i : Nat, v[i]? ≠ some cQuest := fun i h => (hclean _ (List.mem_of_getElem? h)).1 rfl
  have hn : rb.original.length = D.length + lastqf.length := by rw [horig]; simp
  have hvl : v.length = D.length + rest.length := by rw [hv]; simp
  have hpre : (rb.original.take (min ri rb.original.length)).isPrefixOf v = true := by
    rw [List.isPrefixOf_iff_prefix]
    have : min ri rb.original.length = ri := by omega
    rw [this, horig, List.take_append_of_le_length hri, hv]
    exact (List.take_prefix ri D).trans (List.prefix_append D rest)
  have htake : rb.original.take di = v.take di := by
    rw [horig, hv, hdi, List.take_left' rfl, List.take_left' rfl]
  have hdrop : v.drop di = rest := by rw [hv, hdi, List.drop_left' rfl]
  have hrh : ¬ (rest = [] ∨ rest.head? = some cQuest ∨ rest.head? = some cHash) := by
    rintro (h | h | h)
    · exact hrest h
    · cases rest with
      | nil => simp at h
      | cons c r => simp at h; exact (hclean c (by rw [hv]; simp [h])).1 h
    · cases rest with
      | nil => simp at h
      | cons c r => simp at h; exact (hclean c (by rw [hv]; simp [h])).2 h
  unfold candidate
  simp only [hH, hQ, and_false, if_false, hroot, hpre, not_true_eq_false, hne]
  have hfirst : (if rb.original.length < v.length ∧ rb.fragmentIndex = none ∧ rb.original.isPrefixOf v = true
      then (none : Option Str) else none) = none := by split <;> rfl
  rw [hfirst]
  simp only
  unfold candidateAbs
  simp only [hH, hQ, if_false]
  have hsw : (if rb.resourceIndex < v.length then
        if rb.original.length < rb.resourceIndex then some Outcome.panic
        else if (rb.original.take rb.resourceIndex).isPrefixOf v = true then none else none
      else (none : Option Outcome)) = none := by
    have : ¬ rb.original.length < rb.resourceIndex := by omega
    simp only [this, if_false]
    split
    · split <;> rfl
    · rfl
  rw [hsw]
  simp only
  have h1 : di ≤ v.length := by omega
  have h2 : ¬ rb.original.length < di := by omega
  simp only [h1, h2, htake, hdrop, hrh, if_true, if_false]

section
variable {sch auth : Str} {dirs : List Str} {last : Str} {q f : Option Str}

theorem base_path_eq : joinSegs (dirs ++ [last]) = joinSegs dirs ++ cSlash :: last := by
  rw [joinSegs_append]; simp [joinSegs]

theorem split_mkBase (hb : BaseShape sch auth dirs last q) :
    split (mkBase sch auth dirs last q f) = ⟨some sch, some auth, joinSegs (dirs ++ [last]), q, f⟩ := by
  unfold mkBase
  apply split_abs sch auth _ q f hb.hs hb.ha
  · right; rw [base_path_eq]
    rcases joinSegs_head dirs with h | ⟨t, h⟩
    · rw [h]; exact ⟨last, rfl⟩
    · rw [h]; exact ⟨t ++ cSlash :: last, rfl⟩
  · apply joinSegs_pathStop
    intro s hs
    rcases List.mem_append.mp hs with h | h
    · exact hb.hd s h
    · simp at h; rw [h]; exact hb.hl
  · intro x hx c hc
    simpa [queryStop] using hb.hq x hx c hc

theorem base_path_ne : joinSegs (dirs ++ [last]) ≠ [] := by
  rw [base_path_eq]
  rcases joinSegs_head dirs with h | ⟨t, h⟩ <;> rw [h] <;> simp

theorem plainSeg_nil : PlainSeg [] := ⟨by simp, by simp, by simp⟩

/-- `Parse("/")`: the root -/
theorem goResolve_root (hb : BaseShape sch auth dirs last q) :
    goResolve (mkBase sch auth dirs last q f) [cSlash] = sch ++ cColon :: cSlash :: cSlash :: auth ++ [cSlash] := by
  have hR : split [cSlash] = ⟨none, none, [cSlash], none, none⟩ := by
    have := split_rel [] [cSlash] none none (by simp) (Or.inr ⟨[], rfl⟩) (Or.inr (by simp)) (by simp [pathStop, cSlash, cQuest, cHash]) (by simp)
    simpa [queryPart, fragmentPart] using this
  have hrds : removeDotSegments [cSlash] = [cSlash] := by
    have := rds_plain [[]] (by intro s hs; simp at hs; rw [hs]; exact plainSeg_nil)
    simpa [joinSegs] using this
  unfold goResolve resolve
  rw [hR, split_mkBase hb]
  have hne := @base_path_ne dirs last
  simp [hne, transform, hrds, recompose, schemePart, authorityPart, queryPart, fragmentPart]

/-- `Parse("./")`: the directory -/
theorem goResolve_dir (hb : BaseShape sch auth dirs last q) :
    goResolve (mkBase sch auth dirs last q f) [cDot, cSlash] =
      sch ++ cColon :: cSlash :: cSlash :: auth ++ joinSegs dirs ++ [cSlash] := by
  have hR : split [cDot, cSlash] = ⟨none, none, [cDot, cSlash], none, none⟩ := by
    have := split_rel [cDot] [cSlash] none none (by simp [schemeStop, cDot, cColon, cSlash, cQuest, cHash])
      (Or.inr ⟨[], rfl⟩) (Or.inl (by simp)) (by simp [pathStop, cSlash, cQuest, cHash]) (by simp)
    simpa [queryPart, fragmentPart] using this
  have hmerge : merge true (joinSegs (dirs ++ [last])) [cDot, cSlash] = joinSegs dirs ++ [cSlash, cDot, cSlash] := by
    unfold merge
    have hne := @base_path_ne dirs last
    simp only [hne, and_false, if_false]
    rw [base_path_eq, dirOf_join dirs last (fun c hc => (hb.hl.2.2 c hc).1)]
    simp
  unfold goResolve resolve
  rw [hR, split_mkBase hb]
  have hne := @base_path_ne dirs last
  have hh : ¬ (cDot = cSlash) := by decide
  have hnn : ([cDot, cSlash] : Str) ≠ [] := by simp
  simp [hne, hh, hnn, transform, hmerge, rds_dir dirs hb.hd, recompose, schemePart, authorityPart, queryPart, fragmentPart]

/-- everything before the query of the base: no `?`, no `#` -/
theorem prefix_clean (hb : BaseShape sch auth dirs last q) (segs : List Str) (hsegs : ∀ s ∈ segs, PlainSeg s) :
    ∀ c ∈ sch ++ cColon :: cSlash :: cSlash :: auth ++ joinSegs segs, pathStop c = false := by
  intro c hc
  simp only [List.mem_append, List.mem_cons] at hc
  rcases hc with (hc | rfl | rfl | rfl | hc) | hc
  · obtain ⟨_, _, h3, h4⟩ := hb.hs.2 c hc; simp [pathStop, h3, h4]
  · decide
  · decide
  · decide
  · obtain ⟨_, h3, h4⟩ := hb.ha c hc; simp [pathStop, h3, h4]
  · exact joinSegs_pathStop segs hsegs c hc

theorem segs_plain (hb : BaseShape sch auth dirs last q) : ∀ s ∈ dirs ++ [last], PlainSeg s := by
  intro s hs
  rcases List.mem_append.mp hs with h | h
  · exact hb.hd s h
  · simp at h; rw [h]; exact hb.hl

theorem newBase_fields (hb : BaseShape sch auth dirs last q) :
    (newBaseIRI (mkBase sch auth dirs last q f)).root =
      some ((sch ++ cColon :: cSlash :: cSlash :: auth ++ [cSlash]).length,
            (sch ++ cColon :: cSlash :: cSlash :: auth ++ joinSegs dirs ++ [cSlash]).length) ∧
    (newBaseIRI (mkBase sch auth dirs last q f)).resourceIndex =
      (sch ++ cColon :: cSlash :: cSlash :: auth ++ joinSegs (dirs ++ [last])).length := by
  constructor
  · simp only [newBaseIRI, split_mkBase hb, Option.isSome_some, if_true, goResolve_root hb, goResolve_dir hb]
  · simp only [newBaseIRI]
    have hX := prefix_clean hb (dirs ++ [last]) (segs_plain hb)
    have h1 := cut_at (fun c => c == cHash) (sch ++ cColon :: cSlash :: cSlash :: auth ++ joinSegs (dirs ++ [last]) ++ queryPart q)
      (fragmentPart f)
      (by intro c hc
          rcases List.mem_append.mp hc with hc | hc
          · have := hX c hc; simp [pathStop] at this; simp [this.2]
          · cases q with
            | none => simp [queryPart] at hc
            | some x =>
              simp only [queryPart, List.mem_cons] at hc
              rcases hc with rfl | hc
              · decide
              · simpa using hb.hq x rfl c hc)
      (by cases f with
          | none => left; rfl
          | some y => right; exact ⟨cHash, y, rfl, by simp⟩)
    have h2 := cut_at (fun c => c == cQuest) (sch ++ cColon :: cSlash :: cSlash :: auth ++ joinSegs (dirs ++ [last]))
      (queryPart q)
      (by intro c hc; have := hX c hc; simp [pathStop] at this; simp [this.1])
      (by cases q with
          | none => left; rfl
          | some y => right; exact ⟨cQuest, y, rfl, by simp⟩)
    unfold mkBase
    rw [h1.1, h2.1]

variable {seg1 : Str} {more : List Str}

theorem mkTarget_eq : mkTarget sch auth dirs (seg1 ++ joinSegs more) =
    sch ++ cColon :: cSlash :: cSlash :: auth ++ joinSegs (dirs ++ seg1 :: more) := by
  unfold mkTarget
  rw [joinSegs_append, joinSegs_cons]
  simp

theorem rel_segs_plain (hb : BaseShape sch auth dirs last q) (hr : RelShape seg1 more) :
    ∀ s ∈ dirs ++ seg1 :: more, PlainSeg s := by
  intro s hs
  rcases List.mem_append.mp hs with h | h
  · exact hb.hd s h
  · rcases List.mem_cons.mp h with rfl | h
    · exact hr.hp
    · exact hr.hm s h

/-- the verification succeeds for a plain relative path below the directory -/
theorem goResolve_rest (hb : BaseShape sch auth dirs last q) (hr : RelShape seg1 more) :
    goResolve (mkBase sch auth dirs last q f) (seg1 ++ joinSegs more) =
      mkTarget sch auth dirs (seg1 ++ joinSegs more) := by
  have hseg : ∀ c ∈ seg1, schemeStop c = false := by
    intro c hc
    obtain ⟨h2, h3, h4⟩ := hr.hp.2.2 c hc
    simp [schemeStop, hr.hc c hc, h2, h3, h4]
  have hR : split (seg1 ++ joinSegs more) = ⟨none, none, seg1 ++ joinSegs more, none, none⟩ := by
    have := split_rel seg1 (joinSegs more) none none hseg (joinSegs_head more) (Or.inl hr.hne)
      (joinSegs_pathStop more hr.hm) (by simp)
    simpa [queryPart, fragmentPart] using this
  obtain ⟨c0, r0, hc0⟩ := List.exists_cons_of_ne_nil hr.hne
  have hhead : (seg1 ++ joinSegs more).head? ≠ some cSlash := by
    rw [hc0]; simp
    intro h
    have := (hr.hp.2.2 c0 (by rw [hc0]; simp)).1
    exact this h
  have hnn : seg1 ++ joinSegs more ≠ [] := by rw [hc0]; simp
  have hmerge : merge true (joinSegs (dirs ++ [last])) (seg1 ++ joinSegs more) = joinSegs (dirs ++ seg1 :: more) := by
    unfold merge
    have hne := @base_path_ne dirs last
    simp only [hne, and_false, if_false]
    rw [base_path_eq, dirOf_join dirs last (fun c hc => (hb.hl.2.2 c hc).1), joinSegs_append, joinSegs_cons]
    simp
  unfold goResolve resolve
  rw [hR, split_mkBase hb, mkTarget_eq]
  have hne := @base_path_ne dirs last
  have hs1 : ¬ (seg1.head? = some cSlash) := by
    rw [hc0]; simp
    exact (hr.hp.2.2 c0 (by rw [hc0]; simp)).1
  simp [hne, hs1, hr.hne, hnn, transform, hmerge, rds_plain _ (rel_segs_plain hb hr), recompose, schemePart, authorityPart,
    queryPart, fragmentPart]

/-- the verification succeeds for the empty reference when the base has no fragment -/
theorem goResolve_empty (hb : BaseShape sch auth dirs last q) :
    goResolve (mkBase sch auth dirs last q none) [] = mkBase sch auth dirs last q none := by
  have hR : split [] = ⟨none, none, [], none, none⟩ := by decide
  unfold goResolve resolve
  rw [hR, split_mkBase hb]
  simp [transform, recompose, schemePart, authorityPart, fragmentPart, mkBase]

theorem useful_core (hb : BaseShape sch auth dirs last q) (hr : RelShape seg1 more) :
    relativize (mkBase sch auth dirs last q f) (mkTarget sch auth dirs (seg1 ++ joinSegs more))
        = .some (seg1 ++ joinSegs more) ∨
    (mkTarget sch auth dirs (seg1 ++ joinSegs more) = mkBase sch auth dirs last q f ∧
      relativize (mkBase sch auth dirs last q f) (mkTarget sch auth dirs (seg1 ++ joinSegs more)) = .some []) := by
  obtain ⟨hroot, hres⟩ := @newBase_fields sch auth dirs last q f hb
  have horig : (newBaseIRI (mkBase sch auth dirs last q f)).original = mkBase sch auth dirs last q f := rfl
  have hclean : ∀ c ∈ mkTarget sch auth dirs (seg1 ++ joinSegs more), c ≠ cQuest ∧ c ≠ cHash := by
    intro c hc
    rw [mkTarget_eq] at hc
    have := prefix_clean hb _ (rel_segs_plain hb hr) c hc
    simpa [pathStop] using this
  obtain ⟨c0, r0, hc0⟩ := List.exists_cons_of_ne_nil hr.hne
  have hc0s : c0 ≠ cSlash := (hr.hp.2.2 c0 (by rw [hc0]; simp)).1
  have hc0c : c0 ≠ cColon := hr.hc c0 (by rw [hc0]; simp)
  have hnet : [cSlash, cSlash].isPrefixOf (seg1 ++ joinSegs more) = false := by
    rw [hc0]; simp [List.isPrefixOf]; intro h; exact absurd h.symm hc0s
  have hparse : goParseOK (seg1 ++ joinSegs more) = true := by
    rw [hc0]; simp [goParseOK]; exact hc0c
  by_cases heq : mkBase sch auth dirs last q f = mkTarget sch auth dirs (seg1 ++ joinSegs more)
  · right
    refine ⟨heq.symm, ?_⟩
    -- the base has no fragment: the target contains no '#'
    have hf : f = none := by
      cases f with
      | none => rfl
      | some y =>
        exfalso
        have : cHash ∈ mkBase sch auth dirs last q (some y) := by simp [mkBase, fragmentPart]
        rw [heq] at this
        exact (hclean _ this).2 rfl
    subst hf
    rcases candidate_self (mkBase sch auth dirs last q none) with hc | hc
    · unfold relativize relativizeB
      rw [← heq, hc]
      simp [hroot, goParseOK, goResolve_empty hb, horig]
    · exfalso
      -- the candidate is not `none`: the root prefix test succeeds
      unfold candidate at hc
      rw [hroot] at hc
      simp only [horig, Nat.lt_irrefl, false_and, if_false] at hc
      split at hc
      · next hpre =>
        apply hpre
        rw [List.isPrefixOf_iff_prefix]
        exact List.take_prefix _ _
      · simp at hc
  · left
    have hD : mkBase sch auth dirs last q f =
        (sch ++ cColon :: cSlash :: cSlash :: auth ++ joinSegs dirs ++ [cSlash]) ++ (last ++ queryPart q ++ fragmentPart f) := by
      unfold mkBase; rw [base_path_eq]; simp
    have hT : mkTarget sch auth dirs (seg1 ++ joinSegs more) =
        (sch ++ cColon :: cSlash :: cSlash :: auth ++ joinSegs dirs ++ [cSlash]) ++ (seg1 ++ joinSegs more) := by
      unfold mkTarget; simp
    have hcand := candidate_dir (newBaseIRI (mkBase sch auth dirs last q f)) _ _ _ _ (seg1 ++ joinSegs more)
      (mkTarget sch auth dirs (seg1 ++ joinSegs more)) (horig.trans hD) hT hroot rfl (by simp <;> omega)
      (by rw [hres, horig]; unfold mkBase; simp <;> omega) hclean (by rw [hc0]; simp) (by rw [horig]; exact heq)
    unfold relativize relativizeB
    rw [hcand]
    simp [hnet, hroot, hparse, horig, goResolve_rest hb hr]

end

end RdfModel.Proofs.C13
