/-
  RdfModel.Model.RdfXmlDecoder — executable model of /repo/encoding/rdfxml/decoder.go (+ decoder_ectx.go,
  decoder_literal_util.go) over an ABSTRACT XML TOKEN STREAM, text-offset capture OFF.

  Input.  The values `encoding/xml`'s `Decoder.Token()` yields (the decoder only ever calls `Token`, never
  `RawToken`; namespaces are therefore already translated: element/attribute names are (namespace IRI,
  local), `xml:` is the XML namespace IRI, `xmlns:p="…"` arrives as `{Space:"xmlns", Local:"p"}`,
  `xmlns="…"` as `{Space:"", Local:"xmlns"}`, an unbound prefix stays in `Space`), followed by a
  terminator: clean `io.EOF`, an `*xml.SyntaxError`, or a reader error.  The XML text layer is outside.

  Shape.  The Go code is a recursive-descent parser whose only loop construct is
  `for { token, err := d.tokenNext(); … }`.  The model is its defunctionalisation: one `Frame` per
  activation record that sits in such a loop, `step` = the code executed between two `tokenNext()`
  calls (same case splits, same order of checks), `run` = structural recursion over the token list —
  so the number of steps is exactly the number of tokens read.

      Go function (loop)                          frame
      decodeRoot                                  (empty stack)
      decodeRDF                                   Frame.rdf
      processNodeElt → processChildren_PropertyEltList   Frame.props … (ret := .node s)
      processParseTypeResourcePropertyElt → processChildren_PropertyEltList   Frame.props … (ret := .resource)
      processPropertyElt (the loop after the parseType switch)            Frame.pelt
      processParseTypeLiteralPropertyElt → xmlRender                      Frame.lit
      processParseTypeCollectionPropertyElt                               Frame.coll

  Explicit outcomes.  `Res.panic` wherever Go would panic: the unchecked type assertions
  `ot.triple.Object.(rdf.SubjectValue)` and `eSubject.(rdf.IRI)`, the indexings
  `d.statements[len(d.statements)-1]` / `[len-2]`, and the nil dereference in `ResolveIRI("")` should
  `Base.Parse("")` fail.  Errors are a small enum `E` (the harness maps Go's messages onto it).
  On an error the Go decoder yields NO statement (`Next` returns false right after `parseAll`); the model
  still reports the statements appended so far (`Result.err e emitted`) so that well-formedness can be
  stated for them as well.

  Parameters (`Params`), not modelled here:
    * `resolve base ref`  = `(*iri.ParsedIRI).Parse(ref)` then `.String()`  (`none` = Parse error);
      the driver uses `Spec.RFC3986.resolve` (property C12 is about the difference)
    * `parseOK s`         = `iri.ParseIRI(s)` succeeds (only used for `xml:base`)
    * `render content`    = what `xmlRender` produces for the tokens between a `parseType="Literal"`
      start tag and its end tag, i.e. `encoding/xml`'s *Encoder* fed with these tokens (`none` = an
      `EncodeToken`/`Flush` error on that token sequence).  The encoder (namespace prefix invention,
      escaping) is too entangled with `encoding/xml` to model; the harness supplies its graph.
  Also outside: listeners (base / prefix directives, warnings) — pure observers; `CurrentContainer`;
  everything about text offsets (the `inspectxml` path).

  `validateID` is `RX.isNCName` (the regular expression `reXmlNamespaceName` minus ':'; tied by the T1
  table of Gen/C09Facts, theorem `C09.gen_validateID`).

  Not nil-able here although nil-able in Go, with the reason: `ParentSubject`, `ParentPredicate`,
  `ParentContainerIndex` are assigned on every path before `processPropertyElt` reads them (both callers of
  `processChildren_PropertyEltList` set subject and counter; `processPropertyElt` sets the predicate in
  both branches of its `rdf:li` test); they are fields of the frames.  The harness prints a nil term of
  the real decoder as `nil`, so a path that emitted one would show as a disagreement.

  Core-only imports: linked into the driver.
-/
import RdfModel.Spec.RdfXmlFragment
namespace RdfModel.RXD
open RdfModel RdfModel.Desc RdfModel.RX

/-! ## Tokens, terminator, results -/

inductive Tok where
  | start (ns name : Str) (attrs : List Attr)
  | end_ (ns name : Str)
  | chars (s : Str)
  | comment (s : Str)
  | procInst (target inst : Str)
  | directive (s : Str)
  deriving Repr, DecidableEq, Inhabited

/-- how the token stream ends: `io.EOF`, `*xml.SyntaxError`, any other reader error -/
inductive Fin where
  | eof | syntax | io
  deriving Repr, DecidableEq, Inhabited

inductive E where
  | xmlSyntax          -- tokenizer: *xml.SyntaxError
  | io                 -- tokenizer: reader error
  | eofInside          -- io.EOF returned inside an element (cannot come from encoding/xml, which reports a syntax error)
  | directive          -- ErrDirectivesNotSupported
  | elementNotAllowed  -- ElementNotAllowedError
  | attrNotAllowed     -- AttributeNotAllowedError
  | invalidName        -- InvalidNameError
  | duplicateName      -- DuplicateScopedNameError
  | multipleNames      -- "multiple name attributes found"
  | unexpectedAttr     -- decodeRDF: "unexpected attr"
  | parseBase          -- "parse base"
  | resourceOnLiteral  -- "rdf:resource cannot be used for a literal type"
  | alreadyFound       -- "already found property value"
  | datatypeNeedsLang  -- "datatype requires a language tag"
  | render             -- "render xml: write token / flush"
  deriving Repr, DecidableEq, Inhabited

inductive Result where
  | ok (ts : List T)
  /-- `emitted`: what had been appended to `d.statements` (not observable through `Next`) -/
  | err (e : E) (emitted : List T)
  | panic
  deriving Repr, DecidableEq, Inhabited

structure Params where
  resolve : Str → Str → Option Str
  parseOK : Str → Bool
  render : List Tok → Option Str

/-! ## State -/

/-- the part of `evaluationContext` that is inherited: `Base` (nil = `none`), `Language`, and the identity
    of the `UsedIDs` map (a fresh map is allocated by every `xml:base`) -/
structure Ctx where
  base : Option Str
  lang : Option Str
  used : Nat
  deriving Repr, DecidableEq, Inhabited

/-- decoder-global state: blank node counter, next map identity, contents of all `UsedIDs` maps,
    `d.statements` (newest first) -/
structure St where
  next : Nat
  maps : Nat
  used : List (Nat × Str)
  out : List T
  deriving Repr, DecidableEq, Inhabited

def St.init : St := { next := 0, maps := 1, used := [], out := [] }
def Ctx.init (base : Option Str) : Ctx := { base := base, lang := none, used := 0 }

def St.emit (st : St) (t : T) : St := { st with out := t :: st.out }

/-- `NewBlankNode()` -/
def St.fresh (st : St) : Term BN × St := (.bnode (.gen st.next), { st with next := st.next + 1 })

/-- outcome of a piece of straight-line code -/
inductive Res (α : Type) where
  | ok (a : α) (st : St)
  | fail (e : E) (st : St)
  | panic
  deriving Repr

/-! ## decoder_ectx.go -/

def dropFragment (s : Str) : Str := s.takeWhile (· ≠ cHash)

inductive RIRI where
  | ok (v : Str)
  | panic

/-- `evaluationContext.ResolveIRI` -/
def resolveIRI (P : Params) (ctx : Ctx) (v : Str) : RIRI :=
  match ctx.base with
  | none => .ok v
  | some b =>
    if v = [] then
      -- vURL, _ = ectx.Base.Parse(""); vURL.DropFragment()
      match P.resolve b [] with
      | none => .panic
      | some r => .ok (dropFragment r)
    else
      match P.resolve b v with
      | none => .ok v
      | some r => .ok r

/-! ## processCommonAttr -/

def xmlnsSpace : Str := asc "xmlns"

structure Common where
  ctx : Ctx
  rdfAttrs : List Attr
  others : List Attr

def commonLoop (P : Params) : List Attr → Ctx → List Attr → List Attr → St → Res Common
  | [], ctx, ra, oa, st => .ok ⟨ctx, ra.reverse, oa.reverse⟩ st
  | a :: rest, ctx, ra, oa, st =>
    if a.ns = rdfNS then commonLoop P rest ctx (a :: ra) oa st
    else if a.ns = xmlNS then
      if a.name = n_lang then
        commonLoop P rest { ctx with lang := if a.val = [] then none else some a.val } ra oa st
      else if a.name = n_base then
        match resolveIRI P ctx a.val with
        | .panic => .panic
        | .ok b =>
          if P.parseOK b then
            commonLoop P rest { ctx with base := some b, used := st.maps } ra oa { st with maps := st.maps + 1 }
          else .fail .parseBase st
      else commonLoop P rest ctx ra oa st
    else if a.ns = xmlnsSpace then commonLoop P rest ctx ra oa st
    else if a.ns = [] ∧ a.name = xmlnsSpace then commonLoop P rest ctx ra oa st
    else commonLoop P rest ctx ra (a :: oa) st

def processCommonAttr (P : Params) (ctx : Ctx) (attrs : List Attr) (st : St) : Res Common :=
  commonLoop P attrs ctx [] [] st

/-! ## shared pieces -/

def mkLitCtx (lex : Str) (ctx : Ctx) : Term BN := mkLit lex ctx.lang

/-- `addReify(ectx, id, d.statements[len(d.statements)-1-i])` -/
def addReify (P : Params) (ctx : Ctx) (id : Str) (i : Nat) (st : St) : Res Unit :=
  match st.out[i]? with
  | none => .panic
  | some t =>
    match resolveIRI P ctx (cHash :: id) with
    | .panic => .panic
    | .ok idr =>
      .ok () { st with out := ⟨.iri idr, rdfObject, t.o⟩ :: ⟨.iri idr, rdfPredicate, .iri t.p⟩ ::
                               ⟨.iri idr, rdfSubject, t.s⟩ :: ⟨.iri idr, rdfType, .iri rdfStatement⟩ :: st.out }

def optReify (P : Params) (ctx : Ctx) (id : Option Str) (i : Nat) (st : St) : Res Unit :=
  match id with
  | none => .ok () st
  | some v => addReify P ctx v i st

/-- `for _, attr := range rdfAttrList { case ID: d.addReify(ectx, attr.Value, d.statements[len-1]) }`
    (parseType Literal / Resource) -/
def reifyEachID (P : Params) (ctx : Ctx) : List Attr → St → Res Unit
  | [], st => .ok () st
  | a :: rest, st =>
    if a.name = n_ID then
      match addReify P ctx a.val 0 st with
      | .ok _ st1 => reifyEachID P ctx rest st1
      | .fail e st1 => .fail e st1
      | .panic => .panic
    else reifyEachID P ctx rest st

/-- the `switch tokenT.Name` lists -/
def nodeNameForbidden (ns name : Str) : Bool := ns = rdfNS && badNodeName name
def propNameForbidden (ns name : Str) : Bool := ns = rdfNS && badPropName name

/-! ## Frames -/

inductive Ret where
  /-- `processNodeElt` returns `eSubject` to its caller -/
  | node (s : Term BN)
  /-- `processParseTypeResourcePropertyElt` returns to `processChildren_PropertyEltList` -/
  | resource
  deriving Repr, DecidableEq, Inhabited

inductive Frame where
  | rdf (ctx : Ctx)
  /-- `processChildren_PropertyEltList(ectx)`: `subj` = ParentSubject, `li` = *ParentContainerIndex -/
  | props (ctx : Ctx) (subj : Term BN) (li : Nat) (ret : Ret)
  /-- loop of `processPropertyElt`; `child` = name of the node element being processed (becomes `found`) -/
  | pelt (ctx nodeCtx : Ctx) (subj : Term BN) (pred : Str) (attrs : List Attr) (rdfID : Option Str)
         (found : Str) (chars : Str) (child : Str)
  /-- `xmlRender` inside `processParseTypeLiteralPropertyElt`; `content` newest first -/
  | lit (ctx : Ctx) (subj : Term BN) (pred : Str) (rdfAttrs : List Attr) (depth : Nat) (content : List Tok)
  | coll (ctx : Ctx) (subj : Term BN) (pred : Str) (rdfID : Option Str) (last : Option (Term BN))
  deriving Repr, DecidableEq, Inhabited

inductive Step where
  | cont (stk : List Frame) (st : St)
  | fail (e : E) (st : St)
  | panic
  deriving Repr

/-! ## processNodeElt (up to the call of processChildren_PropertyEltList) -/

/-- first loop over `rdfAttrList`: subject and name attributes; returns (eSubject, number of name attributes) -/
def subjLoop (P : Params) (ctx : Ctx) : List Attr → Option (Term BN) → Nat → St → Res (Option (Term BN) × Nat)
  | [], s, n, st => .ok (s, n) st
  | a :: rest, s, n, st =>
    if a.name = n_ID then
      if !isNCName a.val then .fail .invalidName st else
      match resolveIRI P ctx (cHash :: a.val) with
      | .panic => .panic
      | .ok r =>
        let es : Term BN := .iri r
        if st.used.contains (ctx.used, a.val) then
          -- DuplicateScopedNameError{Name: string(eSubject.(rdf.IRI))}
          match es with
          | .iri _ => .fail .duplicateName st
          | _ => .panic
        else subjLoop P ctx rest (some es) (n + 1) { st with used := (ctx.used, a.val) :: st.used }
    else if a.name = n_nodeID then
      if !isNCName a.val then .fail .invalidName st else
      subjLoop P ctx rest (some (.bnode (.named a.val))) (n + 1) st
    else if a.name = n_about then
      match resolveIRI P ctx a.val with
      | .panic => .panic
      | .ok r => subjLoop P ctx rest (some (.iri r)) (n + 1) st
    else subjLoop P ctx rest s n st

def nodeAttrForbidden : List Str := [n_RDF, n_resource, n_bagID, n_parseType, n_aboutEach, n_aboutEachPrefix, n_li]

/-- second loop over `rdfAttrList`: rdf:type statements, reserved names, the rest joins `otherAttrList` -/
def nodeRdfLoop (P : Params) (ctx : Ctx) (s : Term BN) : List Attr → List Attr → St → Res (List Attr)
  | [], extra, st => .ok extra.reverse st
  | a :: rest, extra, st =>
    if a.name = n_ID ∨ a.name = n_nodeID ∨ a.name = n_about then nodeRdfLoop P ctx s rest extra st
    else if a.name = n_type then
      match resolveIRI P ctx a.val with
      | .panic => .panic
      | .ok r => nodeRdfLoop P ctx s rest extra (st.emit ⟨s, rdfType, .iri r⟩)
    else if nodeAttrForbidden.contains a.name then .fail .attrNotAllowed st
    else nodeRdfLoop P ctx s rest (a :: extra) st

def litAttrLoop (ctx : Ctx) (s : Term BN) : List Attr → St → St
  | [], st => st
  | a :: rest, st => litAttrLoop ctx s rest (st.emit ⟨s, a.ns ++ a.name, mkLitCtx a.val ctx⟩)

/-- `if eSubject == nil { eSubject = NewBlankNode() }` -/
def subjOrFresh (s? : Option (Term BN)) (st : St) : Term BN × St :=
  match s? with
  | some s => (s, st)
  | none => st.fresh

/-- `processNodeElt` from its start to the call of `processChildren_PropertyEltList`; yields the frame to push -/
def nodeEntry (P : Params) (ctx : Ctx) (ns name : Str) (attrs : List Attr) (st : St) : Res Frame :=
  match processCommonAttr P ctx attrs st with
  | .panic => .panic
  | .fail e st1 => .fail e st1
  | .ok c st1 =>
    match subjLoop P c.ctx c.rdfAttrs none 0 st1 with
    | .panic => .panic
    | .fail e st2 => .fail e st2
    | .ok (s?, n) st2 =>
      if n > 1 then .fail .multipleNames st2 else
      let s := (subjOrFresh s? st2).1
      let st3 := (subjOrFresh s? st2).2
      let st4 := if ns = rdfNS ∧ name = n_Description then st3 else st3.emit ⟨s, rdfType, .iri (ns ++ name)⟩
      match nodeRdfLoop P c.ctx s c.rdfAttrs [] st4 with
      | .panic => .panic
      | .fail e st5 => .fail e st5
      | .ok extra st5 =>
        .ok (.props c.ctx s 0 (.node s)) (litAttrLoop c.ctx s (c.others ++ extra) st5)

/-! ## processPropertyElt (up to its loop) -/

structure PInfo where
  pt : Str := []
  rdfID : Option Str := none
  rdfResource : Option Str := none

/-- the loop over `startElement.Attr` -/
def peltAttrLoop : List Attr → PInfo → Option PInfo
  | [], i => some i
  | a :: rest, i =>
    if a.ns = rdfNS ∧ a.name = n_ID then
      if !isNCName a.val then none else peltAttrLoop rest { i with rdfID := some a.val }
    else if a.ns = rdfNS ∧ a.name = n_resource then peltAttrLoop rest { i with rdfResource := some a.val }
    else if a.ns = rdfNS ∧ a.name = n_parseType then
      if a.val = n_Literal ∨ a.val = n_Resource ∨ a.val = n_Collection then peltAttrLoop rest { i with pt := a.val }
      else peltAttrLoop rest { i with pt := n_Literal }
    else peltAttrLoop rest i

/-- `processParseTypeCollectionPropertyElt`: `rdfID = &attr.Value` for every rdf:ID (last wins) -/
def lastID : List Attr → Option Str → Option Str
  | [], r => r
  | a :: rest, r => if a.name = n_ID then lastID rest (some a.val) else lastID rest r

/-- `processPropertyElt` from its start to the first `tokenNext()` of whichever loop it ends up in.
    `li` is `*ectx.ParentContainerIndex`; returns the new counter value and the frame to push. -/
def peltEntry (P : Params) (ctx : Ctx) (subj : Term BN) (li : Nat) (ns name : Str) (attrs : List Attr) (st : St) :
    Res (Nat × Frame) :=
  match peltAttrLoop attrs {} with
  | none => .fail .invalidName st
  | some i =>
    if i.pt = n_Literal ∧ i.rdfResource.isSome then .fail .resourceOnLiteral st else
    -- rdf:li: *ectx.ParentContainerIndex + 1 and fmt.Sprintf("%s_%d", …); otherwise Space + Local
    let li1 := propLi ns name li
    let pred := propPred ns name li
    if i.pt = n_Literal then
      match processCommonAttr P ctx attrs st with
      | .panic => .panic
      | .fail e st1 => .fail e st1
      | .ok c st1 => .ok (li1, .lit c.ctx subj pred c.rdfAttrs 0 []) st1
    else if i.pt = n_Resource then
      match processCommonAttr P ctx attrs st with
      | .panic => .panic
      | .fail e st1 => .fail e st1
      | .ok c st1 =>
        match reifyEachID P c.ctx c.rdfAttrs (st1.fresh.2.emit ⟨subj, pred, st1.fresh.1⟩) with
        | .panic => .panic
        | .fail e st3 => .fail e st3
        | .ok _ st3 => .ok (li1, .props c.ctx st1.fresh.1 0 .resource) st3
    else if i.pt = n_Collection then
      match processCommonAttr P ctx attrs st with
      | .panic => .panic
      | .fail e st1 => .fail e st1
      | .ok c st1 => .ok (li1, .coll c.ctx subj pred (lastID c.rdfAttrs none) none) st1
    else
      match processCommonAttr P ctx attrs st with
      | .panic => .panic
      | .fail e st1 => .fail e st1
      | .ok c st1 => .ok (li1, .pelt ctx c.ctx subj pred attrs i.rdfID [] [] []) st1

/-! ## processPropertyElt: `case xml.EndElement` -/

/-- literal property element: the loop over `rdfAttrList` looking for rdf:datatype -/
def datatypeLoop (P : Params) (ctx : Ctx) : List Attr → Option Str → St → Res (Option Str)
  | [], dt, st => .ok dt st
  | a :: rest, dt, st =>
    if a.name = n_datatype then
      match resolveIRI P ctx a.val with
      | .panic => .panic
      | .ok r =>
        if r = rdfLangString ∨ r = rdfDirLangString then .fail .datatypeNeedsLang st
        else datatypeLoop P ctx rest (some r) st
    else datatypeLoop P ctx rest dt st

structure EInfo where
  resource : Option Str := none
  nodeID : Option Str := none
  datatype : Bool := false
  rdfProp : Bool := false
  names : Nat := 0

/-- empty property element: the classification loop over `rdfAttrList` -/
def emptyLoop : List Attr → EInfo → Option EInfo
  | [], i => some i
  | a :: rest, i =>
    if a.name = n_ID then emptyLoop rest i
    else if a.name = n_resource then emptyLoop rest { i with resource := some a.val, names := i.names + 1 }
    else if a.name = n_nodeID then
      if !isNCName a.val then none else emptyLoop rest { i with nodeID := some a.val, names := i.names + 1 }
    else if a.name = n_datatype then emptyLoop rest { i with datatype := true }
    else emptyLoop rest { i with rdfProp := true }

def emptyAttrForbidden : List Str :=
  [n_RDF, n_about, n_parseType, n_Description, n_li, n_aboutEach, n_aboutEachPrefix, n_bagID]

/-- `ot.triple.Object.(rdf.SubjectValue)` -/
def asSubject (o : Term BN) : Option (Term BN) :=
  match o with
  | .lit _ _ _ => none
  | t => some t

/-- empty property element: `for _, attr := range append(rdfAttrList, otherAttrList...)` -/
def emptyAttrLoop (P : Params) (ctx : Ctx) (o : Term BN) : List Attr → St → Res Unit
  | [], st => .ok () st
  | a :: rest, st =>
    if a.ns = rdfNS ∧ (a.name = n_ID ∨ a.name = n_resource ∨ a.name = n_nodeID ∨ a.name = n_datatype) then
      emptyAttrLoop P ctx o rest st
    else if a.ns = rdfNS ∧ a.name = n_type then
      match asSubject o with
      | none => .panic
      | some s =>
        match resolveIRI P ctx a.val with
        | .panic => .panic
        | .ok r => emptyAttrLoop P ctx o rest (st.emit ⟨s, rdfType, .iri r⟩)
    else if a.ns = rdfNS ∧ emptyAttrForbidden.contains a.name then .fail .attrNotAllowed st
    else
      match asSubject o with
      | none => .panic
      | some s => emptyAttrLoop P ctx o rest (st.emit ⟨s, a.ns ++ a.name, mkLitCtx a.val ctx⟩)

/-- empty property element: the object from rdf:resource, rdf:nodeID, or a new blank node -/
def emptyObject (P : Params) (ctx : Ctx) (i : EInfo) (st : St) : Res (Term BN) :=
  match i.resource with
  | some r =>
    match resolveIRI P ctx r with
    | .panic => .panic
    | .ok v => .ok (.iri v) st
  | none =>
    match i.nodeID with
    | some n => .ok (.bnode (.named n)) st
    | none => .ok st.fresh.1 st.fresh.2

/-- `case xml.EndElement` of the loop of `processPropertyElt` -/
def peltEnd (P : Params) (ctx : Ctx) (subj : Term BN) (pred : Str) (attrs : List Attr) (rdfID : Option Str)
    (found chars : Str) (st : St) : Res Unit :=
  if found ≠ [] then .ok () st
  else if chars ≠ [] then
    match processCommonAttr P ctx attrs st with
    | .panic => .panic
    | .fail e st1 => .fail e st1
    | .ok c st1 =>
      match datatypeLoop P c.ctx c.rdfAttrs none st1 with
      | .panic => .panic
      | .fail e st2 => .fail e st2
      | .ok dt st2 =>
        let o : Term BN := match dt with
          | some d => .lit chars d none
          | none => mkLitCtx chars c.ctx
        optReify P c.ctx rdfID 0 (st2.emit ⟨subj, pred, o⟩)
  else
    match processCommonAttr P ctx attrs st with
    | .panic => .panic
    | .fail e st1 => .fail e st1
    | .ok c st1 =>
      match emptyLoop c.rdfAttrs {} with
      | none => .fail .invalidName st1
      | some i =>
        if i.names > 1 then .fail .multipleNames st1 else
        if c.others = [] ∧ i.rdfProp = false ∧ i.resource = none ∧ i.nodeID = none ∧ i.datatype = false then
          optReify P c.ctx rdfID 0 (st1.emit ⟨subj, pred, mkLitCtx [] c.ctx⟩)
        else
          match emptyObject P c.ctx i st1 with
          | .panic => .panic
          | .fail e st2 => .fail e st2
          | .ok o st2 =>
            match emptyAttrLoop P c.ctx o (c.rdfAttrs ++ c.others) st2 with
            | .panic => .panic
            | .fail e st3 => .fail e st3
            | .ok _ st3 => optReify P c.ctx rdfID 0 (st3.emit ⟨subj, pred, o⟩)

/-! ## returns -/

/-- `processNodeElt` has returned `s`: what the caller does with it, then the caller's loop goes on.
    Callers: `decodeRoot` (empty stack) and `decodeRDF` ignore it; `processPropertyElt` and
    `processParseTypeCollectionPropertyElt` use it.  (`props` / `lit` frames never call `processNodeElt`;
    for them the stack is left alone.) -/
def nodeReturn (P : Params) (s : Term BN) (stk : List Frame) (st : St) : Step :=
  match stk with
  | .pelt ctx nctx subj pred attrs rdfID _ chars child :: below =>
    match optReify P nctx rdfID 0 (st.emit ⟨subj, pred, s⟩) with
    | .panic => .panic
    | .fail e st1 => .fail e st1
    | .ok _ st1 => .cont (.pelt ctx nctx subj pred attrs rdfID child chars child :: below) st1
  | .coll ctx subj pred rdfID last :: below =>
    let cell := st.fresh.1
    let st1 := st.fresh.2
    match last with
    | none =>
      match optReify P ctx rdfID 1 ((st1.emit ⟨subj, pred, cell⟩).emit ⟨cell, RX.rdfFirst, s⟩) with
      | .panic => .panic
      | .fail e st2 => .fail e st2
      | .ok _ st2 => .cont (.coll ctx subj pred rdfID (some cell) :: below) st2
    | some l =>
      .cont (.coll ctx subj pred rdfID (some cell) :: below) ((st1.emit ⟨l, RX.rdfRest, cell⟩).emit ⟨cell, RX.rdfFirst, s⟩)
  | _ => .cont stk st

/-- a `props` frame is popped -/
def propsReturn (P : Params) (ret : Ret) (below : List Frame) (st : St) : Step :=
  match ret with
  | .resource => .cont below st
  | .node s => nodeReturn P s below st

/-- entering `processNodeElt` from a frame: push the new `props` frame -/
def callNode (P : Params) (ctx : Ctx) (ns name : Str) (attrs : List Attr) (stk : List Frame) (st : St) : Step :=
  match nodeEntry P ctx ns name attrs st with
  | .panic => .panic
  | .fail e st1 => .fail e st1
  | .ok f st1 => .cont (f :: stk) st1

/-! ## one token -/

def step (P : Params) (ctx0 : Ctx) (stk : List Frame) (st : St) (tok : Tok) : Step :=
  match stk with
  | [] =>
    -- decodeRoot
    match tok with
    | .directive _ => .fail .directive st
    | .start ns name attrs =>
      if ns = rdfNS ∧ name = n_RDF then
        -- decodeRDF
        match processCommonAttr P ctx0 attrs st with
        | .panic => .panic
        | .fail e st1 => .fail e st1
        | .ok c st1 => if c.rdfAttrs ≠ [] then .fail .unexpectedAttr st1 else .cont [.rdf c.ctx] st1
      else callNode P ctx0 ns name attrs [] st
    | _ => .cont [] st
  | .rdf ctx :: below =>
    match tok with
    | .start ns name attrs =>
      if nodeNameForbidden ns name then .fail .elementNotAllowed st
      else callNode P ctx ns name attrs stk st
    | .end_ _ _ => .cont below st
    | _ => .cont stk st
  | .props ctx subj li ret :: below =>
    -- processChildren_PropertyEltList
    match tok with
    | .start ns name attrs =>
      if propNameForbidden ns name then .fail .elementNotAllowed st else
      match peltEntry P ctx subj li ns name attrs st with
      | .panic => .panic
      | .fail e st1 => .fail e st1
      | .ok (li1, f) st1 => .cont (f :: .props ctx subj li1 ret :: below) st1
    | .end_ _ _ => propsReturn P ret below st
    | _ => .cont stk st
  | .pelt ctx nctx subj pred attrs rdfID found chars child :: below =>
    match tok with
    | .end_ _ _ =>
      match peltEnd P ctx subj pred attrs rdfID found chars st with
      | .panic => .panic
      | .fail e st1 => .fail e st1
      | .ok _ st1 => .cont below st1
    | .start ns name cattrs =>
      if found ≠ [] then .fail .alreadyFound st
      else if nodeNameForbidden ns name then .fail .elementNotAllowed st
      else callNode P nctx ns name cattrs (.pelt ctx nctx subj pred attrs rdfID found chars (ns ++ name) :: below) st
    | .chars s => .cont (.pelt ctx nctx subj pred attrs rdfID found (chars ++ s) child :: below) st
    | _ => .cont stk st
  | .lit ctx subj pred rdfAttrs depth content :: below =>
    -- xmlRender
    match tok with
    | .end_ ns name =>
      if depth = 0 then
        match P.render content.reverse with
        | none => .fail .render st
        | some lex =>
          match reifyEachID P ctx rdfAttrs (st.emit ⟨subj, pred, .lit lex rdfXMLLiteral none⟩) with
          | .panic => .panic
          | .fail e st1 => .fail e st1
          | .ok _ st1 => .cont below st1
      else
        if (P.render (.end_ ns name :: content).reverse).isNone then .fail .render st
        else .cont (.lit ctx subj pred rdfAttrs (depth - 1) (.end_ ns name :: content) :: below) st
    | .start ns name cattrs =>
      if (P.render (tok :: content).reverse).isNone then .fail .render st
      else .cont (.lit ctx subj pred rdfAttrs (depth + 1) (.start ns name cattrs :: content) :: below) st
    | t =>
      if (P.render (t :: content).reverse).isNone then .fail .render st
      else .cont (.lit ctx subj pred rdfAttrs depth (t :: content) :: below) st
  | .coll ctx subj pred rdfID last :: below =>
    match tok with
    | .start ns name attrs =>
      if nodeNameForbidden ns name then .fail .elementNotAllowed st
      else callNode P ctx ns name attrs stk st
    | .end_ _ _ =>
      match last with
      | none =>
        match optReify P ctx rdfID 0 (st.emit ⟨subj, pred, .iri RX.rdfNil⟩) with
        | .panic => .panic
        | .fail e st1 => .fail e st1
        | .ok _ st1 => .cont below st1
      | some l => .cont below (st.emit ⟨l, RX.rdfRest, .iri RX.rdfNil⟩)
    | _ => .cont stk st

/-! ## the whole stream -/

/-- `tokenNext()` returned an error -/
def finish (stk : List Frame) (st : St) (fin : Fin) : Result :=
  match fin with
  | .syntax => .err .xmlSyntax st.out.reverse
  | .io => .err .io st.out.reverse
  | .eof =>
    match stk with
    | [] => .ok st.out.reverse          -- decodeRoot: errors.Is(err, io.EOF) → return nil
    | _ => .err .eofInside st.out.reverse

def run (P : Params) (ctx0 : Ctx) : List Frame → St → List Tok → Fin → Result
  | stk, st, [], fin => finish stk st fin
  | stk, st, tok :: rest, fin =>
    match step P ctx0 stk st tok with
    | .panic => .panic
    | .fail e st1 => .err e st1.out.reverse
    | .cont stk1 st1 => run P ctx0 stk1 st1 rest fin

/-- `parseAll` with `SetDefaultBase(base)` (`none` = no default base). `base` is the CONFIGURED string:
    `DecoderConfig.newDecoder` (decoder_config.go) only parses it (`d.baseURL = ParseIRI(*defaultBase)`, a parse
    error is `NewDecoder`'s error, outside `Result`) and hands it on unchanged — no normalisation of an empty
    path, of an empty query or of a trailing '#'. T3 (`rxd.dec <base> …`, go/cmd/c09 `-mode dec`) sends the
    configured default base, drawn also from those boundary shapes, so any rewriting of it in `newDecoder`
    is a model/code disagreement. -/
def decode (P : Params) (base : Option Str) (toks : List Tok) (fin : Fin) : Result :=
  run P (Ctx.init base) [] St.init toks fin

/-- what `Next`/`Triple`/`Err` let a caller observe -/
def observe : Result → Option (Except E (List T))
  | .ok ts => some (.ok ts)
  | .err e _ => some (.error e)
  | .panic => none

end RdfModel.RXD
