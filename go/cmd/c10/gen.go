package main

// Generators: datasets, inline contexts tailored to a dataset, writer choices, document mutations.

import (
	"fmt"
	"strconv"
	"strings"

	"verifharness/vh"
)

const (
	rdfNS   = "http://www.w3.org/1999/02/22-rdf-syntax-ns#"
	rdfType = rdfNS + "type"
	xsdNS   = "http://www.w3.org/2001/XMLSchema#"
)

var namespaces = []string{
	"http://example.org/ns#", "http://example.org/vocab/", "https://e.com/a/b/", "http://e.com/dir/sub/",
	"http://e.com/dir/", "urn:ex:", "tag:e.org,2020:", "http://xmlns.com/foaf/0.1/", "http://e.com/q?k=", "http://e.com/ab",
}

var hotLocals = []string{"", "a", "b", "name", "p1", "x-y", "a.b", "c_d", "n0", "type", "id", "a:b", "a/b", "//x", "a#b", "@type", "@id", "é", "1", "a?b", "..", "./a", "%20", "ex", "v", "_", "list"}

type dsOpts struct {
	graphs   bool // named graphs allowed
	lists    bool
	nested   bool
	cycles   bool
	natives  bool // literals eligible for native JSON values
	exoticIR bool // IRIs from the RFC 3987 generator as well
}

type dataset struct {
	quads   []vh.GQuad
	feat    map[string]bool
	witness string // name of a hand-written encoder witness (witness.go); "" for generated cases
}

func iriT(s string) vh.GTerm { return vh.GTerm{Kind: vh.KIRI, IRI: s} }
func bnT(i int) vh.GTerm     { return vh.GTerm{Kind: vh.KBNode, BNode: i} }
func litT(lex, dt string) vh.GTerm {
	return vh.GTerm{Kind: vh.KLit, Lex: lex, DT: dt}
}

// goodIRI: the decoder's (and the fragment's) notion of a usable absolute IRI.
func goodIRI(s string) bool {
	i := strings.IndexByte(s, ':')
	if i <= 0 {
		return false
	}
	for k, c := range s[:i] {
		ok := c >= 'a' && c <= 'z' || c >= 'A' && c <= 'Z' || (k > 0 && (c >= '0' && c <= '9' || c == '+' || c == '-' || c == '.'))
		if !ok {
			return false
		}
	}
	nh := 0
	for _, c := range s {
		if c <= 0x20 || strings.ContainsRune("<>\"{}|\\^`", c) {
			return false
		}
		if c == '#' {
			nh++
		}
	}
	return nh <= 1
}

func (h *harness) genIRI(o dsOpts) string {
	for {
		var s string
		switch {
		case o.exoticIR && h.r.Chance(15):
			s = h.r.AbsIRI(vh.IRIOpts{Exotic: h.r.Chance(30)})
		default:
			s = vh.Pick(h.r, namespaces) + vh.Pick(h.r, hotLocals)
		}
		if goodIRI(s) {
			return s
		}
	}
}

func (h *harness) genLangTag() string {
	return vh.Pick(h.r, []string{"en", "de", "en-US", "fr-CA", "zh-Hant-TW", "EN", "x", "de-1996"})
}

func (h *harness) genLex() string {
	if h.r.Chance(70) {
		return vh.Pick(h.r, []string{"", "x", "hello world", "a\"b", "a\\b", "1", "true", "é", "\n", "\u0000", "<a>", "日本", "😀"})
	}
	return h.r.LexicalForm()
}

func (h *harness) genLiteral(o dsOpts) vh.GTerm {
	switch h.r.Intn(10) {
	case 0, 1:
		return litT(h.genLex(), vh.XSDString)
	case 2, 3:
		return vh.GTerm{Kind: vh.KLit, Lex: h.genLex(), DT: vh.RDFLangString, Lang: h.genLangTag()}
	case 4:
		return litT(h.genLex(), vh.Pick(h.r, []string{xsdNS + "date", xsdNS + "decimal", xsdNS + "anyURI", "http://example.org/ns#dt", "urn:ex:dt", rdfNS + "HTML"}))
	case 5:
		if o.natives {
			return litT(vh.Pick(h.r, []string{"0", "1", "-1", "42", "-7", "2147483647", "2147483648", "-2147483649", "9007199254740992", "123456789012", "9007199254740993", "007", "+5", "-0", "1.5", "abc", ""}), xsdNS+"integer")
		}
		return litT(h.genLex(), xsdNS+"long")
	case 6:
		if o.natives {
			return litT(vh.Pick(h.r, []string{"1.5E0", "-2.5E-3", "1.0E21", "1.234567890123E5", "1.0E0", "1.5E1", "2.5E1", "INF", "NaN", "1.5", "1.5e0", "1.0E400", "5.0E-324", "1.7976931348623157E308", "0.0E0", "-0.0E0", "1.23E300", "1.23E301"}), xsdNS+"double")
		}
		return litT(h.genLex(), xsdNS+"float")
	case 7:
		if o.natives {
			return litT(vh.Pick(h.r, []string{"true", "false", "1", "0", "TRUE", ""}), xsdNS+"boolean")
		}
		return litT(h.genLex(), xsdNS+"token")
	default:
		return litT(h.genLex(), h.genIRI(o))
	}
}

// genDataset builds a dataset from structural motifs so that lists, nesting, sharing, cycles and
// named graphs all occur, on top of a few random quads over a small pool.
func (h *harness) genDataset(o dsOpts) dataset {
	r := h.r
	ds := dataset{feat: map[string]bool{}}
	nIRI := 2 + r.Intn(4)
	iris := make([]string, nIRI)
	for i := range iris {
		iris[i] = h.genIRI(o)
	}
	preds := make([]string, 1+r.Intn(3))
	for i := range preds {
		preds[i] = h.genIRI(o)
	}
	if r.Chance(30) {
		preds = append(preds, rdfType)
	}
	nextBN := 0
	newBN := func() vh.GTerm { nextBN++; return bnT(nextBN - 1) }
	var graphs []*vh.GTerm
	graphs = append(graphs, nil)
	if o.graphs && r.Chance(50) {
		for i, n := 0, 1+r.Intn(2); i < n; i++ {
			var g vh.GTerm
			if r.Chance(25) {
				g = newBN()
				ds.feat["bnode-graph-name"] = true
			} else {
				g = iriT(vh.Pick(r, iris))
			}
			graphs = append(graphs, &g)
			ds.feat["named-graph"] = true
		}
	}
	node := func() vh.GTerm {
		if nextBN > 0 && r.Chance(35) {
			return bnT(r.Intn(nextBN))
		}
		if r.Chance(15) {
			return newBN()
		}
		return iriT(vh.Pick(r, iris))
	}
	add := func(g *vh.GTerm, s, p, o vh.GTerm) {
		ds.quads = append(ds.quads, vh.GQuad{S: s, P: p, O: o, G: g})
	}
	pred := func() vh.GTerm { return iriT(vh.Pick(r, preds)) }
	for m, nm := 0, 1+r.Intn(4); m < nm; m++ {
		g := vh.Pick(r, graphs)
		switch r.Intn(8) {
		case 0, 1: // plain statements
			for i, n := 0, 1+r.Intn(3); i < n; i++ {
				s := node()
				p := pred()
				if r.Chance(55) {
					add(g, s, p, h.genLiteral(o))
					ds.feat["literal"] = true
				} else if p.IRI == rdfType && r.Chance(70) {
					add(g, s, p, iriT(vh.Pick(r, iris)))
				} else {
					add(g, s, p, node())
				}
			}
		case 2: // several values of one property (language maps, arrays)
			s, p := node(), pred()
			for i, n := 0, 2+r.Intn(3); i < n; i++ {
				if r.Chance(60) {
					add(g, s, p, vh.GTerm{Kind: vh.KLit, Lex: h.genLex(), DT: vh.RDFLangString, Lang: h.genLangTag()})
				} else {
					add(g, s, p, h.genLiteral(o))
				}
			}
			ds.feat["literal"] = true
		case 3: // nested chain of once-referenced blank nodes
			if !o.nested {
				continue
			}
			s := node()
			for i, n := 0, 1+r.Intn(3); i < n; i++ {
				b := newBN()
				add(g, s, pred(), b)
				if r.Chance(60) {
					add(g, b, pred(), h.genLiteral(o))
				}
				if r.Chance(40) {
					add(g, b, pred(), iriT(vh.Pick(r, iris)))
				}
				s = b
			}
			add(g, s, pred(), h.genLiteral(o))
			ds.feat["nested-bnode"] = true
		case 4: // RDF list
			if !o.lists {
				continue
			}
			s, p := node(), pred()
			n := r.Intn(4)
			if n == 0 {
				add(g, s, p, iriT(rdfNS+"nil"))
				ds.feat["empty-list"] = true
				continue
			}
			cell := newBN()
			add(g, s, p, cell)
			for i := 0; i < n; i++ {
				var item vh.GTerm
				switch r.Intn(3) {
				case 0:
					item = h.genLiteral(o)
				case 1:
					item = iriT(vh.Pick(r, iris))
				default:
					item = node()
				}
				if r.Chance(8) { // ill-formed list: swap order of first/rest, or an extra property
					add(g, cell, iriT(rdfNS+"rest"), iriT(rdfNS+"nil"))
					add(g, cell, iriT(rdfNS+"first"), item)
					ds.feat["odd-list"] = true
					break
				}
				add(g, cell, iriT(rdfNS+"first"), item)
				if i == n-1 {
					add(g, cell, iriT(rdfNS+"rest"), iriT(rdfNS+"nil"))
				} else {
					next := newBN()
					add(g, cell, iriT(rdfNS+"rest"), next)
					cell = next
				}
			}
			ds.feat["list"] = true
		case 5: // shared blank node (referenced twice)
			b := newBN()
			add(g, node(), pred(), b)
			add(vh.Pick(r, graphs), node(), pred(), b)
			if r.Chance(70) {
				add(g, b, pred(), h.genLiteral(o))
			}
			ds.feat["shared-bnode"] = true
		case 6: // cycles and self references
			if !o.cycles {
				continue
			}
			a, b := newBN(), newBN()
			if r.Chance(30) {
				add(g, a, pred(), a)
			} else {
				add(g, a, pred(), b)
				add(g, b, pred(), a)
			}
			if r.Chance(50) {
				add(g, iriT(vh.Pick(r, iris)), pred(), a)
			}
			ds.feat["cycle"] = true
		default: // unreferenced blank node subject
			b := newBN()
			add(g, b, pred(), h.genLiteral(o))
			if r.Chance(50) {
				add(g, b, pred(), iriT(vh.Pick(r, iris)))
			}
			ds.feat["unreferenced-bnode"] = true
		}
	}
	if r.Chance(10) && len(ds.quads) > 0 { // duplicate quad
		ds.quads = append(ds.quads, ds.quads[r.Intn(len(ds.quads))])
		ds.feat["duplicate-quad"] = true
	}
	return ds
}

// ---------------------------------------------------------------- contexts

func datasetIRIs(qs []vh.GQuad) (preds, others, datatypes []string) {
	seen := map[string]bool{}
	addTo := func(l *[]string, s string) {
		if !seen[s] {
			seen[s] = true
			*l = append(*l, s)
		}
	}
	for _, q := range qs {
		addTo(&preds, q.P.IRI)
	}
	for _, q := range qs {
		for _, t := range []vh.GTerm{q.S, q.O} {
			if t.Kind == vh.KIRI {
				addTo(&others, t.IRI)
			}
			if t.Kind == vh.KLit && t.DT != vh.RDFLangString {
				addTo(&datatypes, t.DT)
			}
		}
		if q.G != nil && q.G.Kind == vh.KIRI {
			addTo(&others, q.G.IRI)
		}
	}
	return
}

// nsOf cuts an IRI after its last '#', '/' or ':'.
func nsOf(s string) string {
	i := strings.LastIndexAny(s, "#/:")
	if i < 0 {
		return s
	}
	return s[:i+1]
}

var termNames = []string{"name", "knows", "p", "q", "v", "label", "t", "items", "rel", "a", "type", "id", "x1", "P", "née"}
var prefixNames = []string{"ex", "v", "ns", "foaf", "e", "dir", "x", "ex2", "p", "a-b", "a.b", "1ab", "http", "urn", "tag"}

// genContext invents an inline context tailored to the IRIs of the dataset. Whatever it returns is only
// tried: the Lean writer validates it (processLocal) and every use of it.
func (h *harness) genContext(qs []vh.GQuad, mode11 bool, base string) (*JV, map[string]bool) {
	r := h.r
	feat := map[string]bool{}
	preds, others, dts := datasetIRIs(qs)
	ctx := &JV{kind: jObj}
	put := func(k string, v *JV) {
		for i, m := range ctx.ms {
			if m.k == k {
				ctx.ms[i].v = v
				return
			}
		}
		ctx.ms = append(ctx.ms, jmember{k, v})
	}
	if mode11 && r.Chance(20) {
		put("@version", jdbl("1.1E0"))
		feat["ctx:@version"] = true
	}
	if r.Chance(35) && len(preds) > 0 {
		put("@vocab", jstr(nsOf(vh.Pick(r, preds))))
		feat["ctx:@vocab"] = true
	}
	if r.Chance(35) && len(others) > 0 {
		b := nsOf(vh.Pick(r, others))
		switch r.Intn(4) {
		case 0:
			b += "doc"
		case 1:
			b += "sub/doc.jsonld"
		case 2:
			b = vh.Pick(r, others)
		}
		put("@base", jstr(b))
		feat["ctx:@base"] = true
	}
	if r.Chance(30) {
		// a default language the dataset actually uses, so that plain strings can stand for tagged ones
		tag := h.genLangTag()
		for _, q := range qs {
			if q.O.Kind == vh.KLit && q.O.DT == vh.RDFLangString && r.Chance(50) {
				tag = q.O.Lang
				break
			}
		}
		put("@language", jstr(tag))
		feat["ctx:@language"] = true
	}
	// prefixes
	prefixOf := map[string]string{}
	var prefixOrder []string // namespaces in order of definition: iteration must not depend on Go map order
	all := append(append(append([]string{}, preds...), others...), dts...)
	for i, n := 0, r.Intn(4); i < n && len(all) > 0; i++ {
		ns := nsOf(vh.Pick(r, all))
		if r.Chance(10) && len(ns) > 3 {
			ns = ns[:len(ns)-1-r.Intn(2)] // namespace not ending in a gen-delim
		}
		name := vh.Pick(r, prefixNames)
		if _, ok := prefixOf[ns]; ok {
			continue
		}
		prefixOf[ns] = name
		prefixOrder = append(prefixOrder, ns)
		if r.Chance(15) {
			put(name, jobj(jm("@id", jstr(ns)))) // expanded definition: not a prefix in 1.1
		} else {
			put(name, jstr(ns))
		}
		feat["ctx:prefix"] = true
	}
	// a term named like the scheme of an IRI of the dataset that is NOT a prefix in json-ld-1.1 (expanded
	// definition, or a namespace not ending in a gen-delim): "urn:ex:a" must stay an absolute IRI there
	if r.Chance(15) && len(all) > 0 {
		v := vh.Pick(r, all)
		if i := strings.IndexByte(v, ':'); i > 0 && !strings.HasPrefix(v[i+1:], "//") {
			if r.Bool() {
				put(v[:i], jobj(jm("@id", jstr(vh.Pick(r, namespaces)))))
			} else {
				put(v[:i], jstr("http://example.org/nodelim"))
			}
			feat["ctx:scheme-named-non-prefix-term"] = true
		}
	}
	compact := func(iri string) string {
		for _, ns := range prefixOrder {
			if strings.HasPrefix(iri, ns) && r.Chance(60) {
				return prefixOf[ns] + ":" + iri[len(ns):]
			}
		}
		return iri
	}
	// terms for predicates
	for _, p := range preds {
		if !r.Chance(55) {
			continue
		}
		name := vh.Pick(r, termNames)
		if r.Chance(15) {
			name = compact(p) // compact-IRI term
			if !strings.Contains(name, ":") {
				continue
			}
		}
		if r.Chance(40) {
			put(name, jstr(compact(p)))
			feat["ctx:simple-term"] = true
			continue
		}
		def := &JV{kind: jObj}
		if !strings.Contains(name, ":") || r.Chance(50) {
			def.ms = append(def.ms, jm("@id", jstr(compact(p))))
		}
		// tailor the definition to the values of the predicate in the dataset
		if prof := profileOf(qs, p); r.Chance(60) {
			switch {
			case prof.allLang:
				def.ms = append(def.ms, jm("@container", jstr("@language")))
				feat["ctx:@container:@language"] = true
				put(name, def)
				feat["ctx:expanded-term"] = true
				continue
			case prof.listHead:
				def.ms = append(def.ms, jm("@container", jstr("@list")))
				feat["ctx:@container:@list"] = true
				if prof.listItemsIRI && r.Bool() {
					def.ms = append(def.ms, jm("@type", jstr("@id")))
				}
				put(name, def)
				feat["ctx:expanded-term"] = true
				continue
			case prof.allIRI:
				def.ms = append(def.ms, jm("@type", jstr(vh.Pick(r, []string{"@id", "@vocab"}))))
				feat["ctx:@type:@id"] = true
				put(name, def)
				feat["ctx:expanded-term"] = true
				continue
			case prof.oneDatatype != "":
				def.ms = append(def.ms, jm("@type", jstr(compact(prof.oneDatatype))))
				feat["ctx:@type:datatype"] = true
				put(name, def)
				feat["ctx:expanded-term"] = true
				continue
			}
		}
		switch r.Intn(6) {
		case 0:
			def.ms = append(def.ms, jm("@type", jstr("@id")))
			feat["ctx:@type:@id"] = true
		case 1:
			def.ms = append(def.ms, jm("@type", jstr("@vocab")))
			feat["ctx:@type:@vocab"] = true
		case 2:
			if len(dts) > 0 {
				def.ms = append(def.ms, jm("@type", jstr(compact(vh.Pick(r, dts)))))
				feat["ctx:@type:datatype"] = true
			}
		}
		switch r.Intn(8) {
		case 0:
			def.ms = append(def.ms, jm("@container", jstr("@list")))
			feat["ctx:@container:@list"] = true
		case 1:
			def.ms = append(def.ms, jm("@container", jstr("@set")))
			feat["ctx:@container:@set"] = true
		case 2:
			def.ms = append(def.ms, jm("@container", jstr("@language")))
			feat["ctx:@container:@language"] = true
		}
		switch r.Intn(8) {
		case 0:
			def.ms = append(def.ms, jm("@language", jstr(h.genLangTag())))
			feat["ctx:term-@language"] = true
		case 1:
			def.ms = append(def.ms, jm("@language", jnull()))
			feat["ctx:term-@language-null"] = true
		}
		put(name, def)
		feat["ctx:expanded-term"] = true
	}
	// terms for classes / other IRIs (usable with @type and @type:@vocab)
	for _, o := range others {
		if r.Chance(15) {
			put(vh.Pick(r, termNames)+"C", jstr(compact(o)))
			feat["ctx:class-term"] = true
		}
	}
	if r.Chance(15) { // shuffle: definitions may depend on later ones
		for i := len(ctx.ms) - 1; i > 0; i-- {
			j := r.Intn(i + 1)
			ctx.ms[i], ctx.ms[j] = ctx.ms[j], ctx.ms[i]
		}
	}
	if r.Chance(10) && len(ctx.ms) > 1 { // split into an array of two contexts
		k := 1 + r.Intn(len(ctx.ms)-1)
		a := &JV{kind: jObj, ms: append([]jmember{}, ctx.ms[:k]...)}
		b := &JV{kind: jObj, ms: append([]jmember{}, ctx.ms[k:]...)}
		feat["ctx:array"] = true
		return jarr(a, b), feat
	}
	return ctx, feat
}

// ---------------------------------------------------------------- choices

type choices struct {
	mode11  bool
	base    string
	context *JV
	local   *JV     // context put on some embedded node objects and graph members
	flags   [6]bool // nest, lists, anonTop, natives, useType, compactGroups
	shape   int
	seed    int
}

func (c choices) wire() string {
	var sb strings.Builder
	for _, f := range c.flags {
		sb.WriteString(vh.B01(f))
	}
	return sb.String() + ":" + strconv.Itoa(c.shape) + ":" + strconv.Itoa(c.seed)
}

func (c choices) String() string {
	cx := "-"
	if c.context != nil {
		cx = string(c.context.text())
	}
	lx := "-"
	if c.local != nil {
		lx = string(c.local.text())
	}
	return fmt.Sprintf("mode=%s base=%q choices=%s context=%s local=%s", modeTok(c.mode11), c.base, c.wire(), cx, lx)
}

func (h *harness) genChoices(qs []vh.GQuad) (choices, map[string]bool) {
	r := h.r
	c := choices{mode11: r.Chance(75), shape: r.Intn(3), seed: r.Intn(1000)}
	if r.Chance(40) {
		c.base = vh.Pick(r, []string{"http://e.com/dir/doc.jsonld", "http://example.org/ns", "https://e.com/a/b/c", "http://e.com/dir/sub/x?q=1#frag", "urn:ex:doc"})
	}
	for i := range c.flags {
		c.flags[i] = r.Chance(65)
	}
	var feat map[string]bool
	if r.Chance(70) {
		c.context, feat = h.genContext(qs, c.mode11, c.base)
	}
	if r.Chance(45) {
		c.local = h.genLocalContext(qs, c.context)
	}
	return c, feat
}

// profile of the objects of one predicate
type predProfile struct {
	allLang, allIRI, listHead, listItemsIRI bool
	oneDatatype                             string
}

func profileOf(qs []vh.GQuad, p string) predProfile {
	pr := predProfile{allLang: true, allIRI: true}
	dts := map[string]bool{}
	n := 0
	cells := map[int]bool{}
	for _, q := range qs {
		if q.P.IRI == rdfNS+"first" && q.S.Kind == vh.KBNode {
			cells[q.S.BNode] = true
		}
	}
	for _, q := range qs {
		if q.P.IRI != p {
			continue
		}
		n++
		switch q.O.Kind {
		case vh.KIRI:
			pr.allLang = false
			dts["-"] = true
			if q.O.IRI == rdfNS+"nil" {
				pr.listHead = true
			}
		case vh.KBNode:
			pr.allLang, pr.allIRI = false, false
			dts["-"] = true
			if cells[q.O.BNode] {
				pr.listHead = true
			}
		default:
			pr.allIRI = false
			if q.O.DT != vh.RDFLangString {
				pr.allLang = false
				dts[q.O.DT] = true
			} else {
				dts["-"] = true
			}
		}
	}
	if n == 0 {
		return predProfile{}
	}
	if len(dts) == 1 {
		for d := range dts {
			if d != "-" && d != vh.XSDString {
				pr.oneDatatype = d
			}
		}
	}
	pr.listItemsIRI = true
	for _, q := range qs {
		if q.P.IRI == rdfNS+"first" && q.O.Kind != vh.KIRI {
			pr.listItemsIRI = false
		}
	}
	return pr
}

// genLocalContext invents a context for embedded node objects and graph members: it extends the inherited
// one (more terms, another vocabulary or default language, or a reset of the language) and is, like the
// document context, only tried by the Lean writer.
func (h *harness) genLocalContext(qs []vh.GQuad, outer *JV) *JV {
	r := h.r
	preds, others, _ := datasetIRIs(qs)
	ctx := &JV{kind: jObj, ms: []jmember{}}
	for i, n := 0, r.Intn(3); i < n && len(preds) > 0; i++ {
		p := vh.Pick(r, preds)
		name := vh.Pick(r, []string{"lp", "lq", "name", "p", "label"})
		if ctx.get(name) != nil {
			continue
		}
		if r.Chance(60) {
			ctx.ms = append(ctx.ms, jm(name, jstr(p)))
		} else {
			ctx.ms = append(ctx.ms, jm(name, jobj(jm("@id", jstr(p)), jm("@type", jstr(vh.Pick(r, []string{"@id", "@vocab"}))))))
		}
	}
	if r.Chance(25) && len(preds) > 0 {
		ctx.ms = append(ctx.ms, jm("@vocab", jstr(nsOf(vh.Pick(r, preds)))))
	}
	switch r.Intn(6) {
	case 0:
		ctx.ms = append(ctx.ms, jm("@language", jnull()))
	case 1:
		ctx.ms = append(ctx.ms, jm("@language", jstr(h.genLangTag())))
	}
	if r.Chance(15) && len(others) > 0 {
		ctx.ms = append(ctx.ms, jm("lx", jstr(nsOf(vh.Pick(r, others)))))
	}
	_ = outer
	return ctx // possibly {}: an empty local context still makes the processor clone the active context
}
