/-
  Proofs.C02TokCheck — Boolean checkers over range-table *entries* and their soundness lemmas, for
  the table facts `C02.TablesOK` of the Turtle/TriG token layer. `Props/C02TokensTables.lean`
  discharges each checker on the regenerated tables by `decide`.
  (The generic part mirrors Proofs/C01Check.lean; it is repeated here so that the Turtle proofs do
  not depend on the N-Quads property files.)
-/
import RdfModel.Props.C02TokensDefs
namespace RdfModel.Proofs.C02Tok
open RdfModel RdfModel.Ttl RdfModel.C02

/-! ### generic -/

def entAll (tbl : RangeTable) (chk : Nat → Nat → Nat → Bool) : Bool :=
  tbl.all (fun e => chk e.1 e.2.1 e.2.2)

theorem lookup_entries (tbl : RangeTable) (d : Nat) (chk : Nat → Nat → Nat → Bool)
    (P : Nat → Nat → Prop)
    (sound : ∀ lo hi v, chk lo hi v = true → ∀ c, lo ≤ c → c ≤ hi → P c v)
    (hd : ∀ c, P c d) (h : entAll tbl chk = true) : ∀ c, P c (lookup tbl d c) := by
  apply lookup_forall tbl d P _ hd
  intro e he c h1 h2
  simp only [entAll, List.all_eq_true] at h
  exact sound e.1 e.2.1 e.2.2 (h e he) c h1 h2

/-- `q (lookup tbl d c)` for every `c ∈ [lo, hi]`, decided on the entries. -/
def checkRange (q : Nat → Bool) (d : Nat) : RangeTable → Nat → Nat → Bool
  | [], _, _ => q d
  | (l, h, v) :: rest, lo, hi =>
    (if max lo l ≤ min hi h then q v else true) &&
    (if lo < l then checkRange q d rest lo (min hi (l - 1)) else true) &&
    (if h < hi then checkRange q d rest (max lo (h + 1)) hi else true)

theorem checkRange_sound (q : Nat → Bool) (d : Nat) (tbl : RangeTable) :
    ∀ lo hi, checkRange q d tbl lo hi = true → ∀ c, lo ≤ c → c ≤ hi → q (lookup tbl d c) = true := by
  induction tbl with
  | nil => intro lo hi h c _ _; simpa [checkRange, lookup] using h
  | cons e rest ih =>
    obtain ⟨l, h, v⟩ := e
    intro lo hi hchk c h1 h2
    simp only [checkRange, Bool.and_eq_true] at hchk
    obtain ⟨⟨hA, hB⟩, hC⟩ := hchk
    unfold lookup
    split
    · next hin =>
      rw [if_pos (by omega)] at hA
      exact hA
    · next hout =>
      rcases Nat.lt_or_ge c l with hc | hc
      · rw [if_pos (by omega)] at hB
        exact ih _ _ hB c h1 (by omega)
      · have : h < c := by omega
        rw [if_pos (by omega)] at hC
        exact ih _ _ hC c (by omega) h2

def nz (v : Nat) : Bool := v != 0

/-- every code point of every range of `bad` has a non-zero table value -/
def badNZ (tbl : RangeTable) (bad : RangeSet) : Bool :=
  bad.all (fun r => checkRange nz 0 tbl r.1 r.2)

theorem badNZ_sound {tbl : RangeTable} {bad : RangeSet} (h : badNZ tbl bad = true) {c : Nat}
    (hc : inRanges bad c = true) : lookup tbl 0 c ≠ 0 := by
  rw [inRanges_iff] at hc
  obtain ⟨r, hr, h1, h2⟩ := hc
  simp only [badNZ, List.all_eq_true] at h
  have := checkRange_sound nz 0 tbl _ _ (h r hr) c h1 h2
  simpa [nz] using this

theorem raw_of_bad (tbl : RangeTable) (bad : RangeSet) (h : badNZ tbl bad = true) (c : Nat)
    (h0 : lookup tbl 0 c = 0) : inRanges bad c = false := by
  cases hb : inRanges bad c with
  | false => rfl
  | true => exact absurd h0 (badNZ_sound h hb)

def both (p : RangeTable → Bool) (f : Bool → RangeTable) : Bool := p (f true) && p (f false)

theorem both_elim {p : RangeTable → Bool} {f : Bool → RangeTable} (h : both p f = true) (a : Bool) :
    p (f a) = true := by
  simp only [both, Bool.and_eq_true] at h
  cases a; exact h.2; exact h.1

theorem mode_le (n : Nat) (tbl : RangeTable)
    (h : entAll tbl (fun _ _ v => decide (v ≤ n)) = true) : ∀ c, lookup tbl 0 c ≤ n :=
  lookup_entries tbl 0 _ (fun _ v => v ≤ n)
    (fun _ _ _ hv _ _ _ => by simpa using hv) (fun _ => Nat.zero_le _) h

/-- entries with value `m` end at or below `bound` -/
theorem mode_bound (m bound : Nat) (hm : m ≠ 0) (tbl : RangeTable)
    (h : entAll tbl (fun _ hi v => v != m || decide (hi ≤ bound)) = true) :
    ∀ c, lookup tbl 0 c = m → c ≤ bound :=
  lookup_entries tbl 0 _ (fun c v => v = m → c ≤ bound)
    (fun lo hi v hv c _ h2 hvm => by
      simp only [Bool.or_eq_true, bne_iff_ne, ne_eq, decide_eq_true_eq] at hv
      rcases hv with hv | hv
      · exact absurd hvm hv
      · omega)
    (fun _ h0 => absurd h0.symm hm) h

/-- Entries with value `m` are short and every one of their points satisfies `p` (points enumerated;
    only used for the handful of punctuation entries). -/
def pointsChk (m : Nat) (p : Nat → Bool) (lo hi v : Nat) : Bool :=
  v != m || (decide (hi - lo < 32) && (List.range (hi - lo + 1)).all (fun i => p (lo + i)))

theorem points_ok (m : Nat) (hm : m ≠ 0) (p : Nat → Bool) (tbl : RangeTable)
    (h : entAll tbl (pointsChk m p) = true) : ∀ c, lookup tbl 0 c = m → p c = true :=
  lookup_entries tbl 0 _ (fun c v => v = m → p c = true)
    (fun lo hi v hv c h1 h2 hvm => by
      simp only [pointsChk, Bool.or_eq_true, bne_iff_ne, ne_eq, Bool.and_eq_true,
        List.all_eq_true, List.mem_range, decide_eq_true_eq] at hv
      rcases hv with hv | ⟨_, hdec⟩
      · exact absurd hvm hv
      · have := hdec (c - lo) (by omega)
        rwa [show lo + (c - lo) = c by omega] at this)
    (fun _ h0 => absurd h0.symm hm) h

/-! ### complement of a range set inside `[from, 0x10FFFF]`, sorted insertion -/

/-- Ranges of `[from, 0x10FFFF]` not covered by `rs` (exact when `rs` is sorted; always sound). -/
def compl : RangeSet → Nat → RangeSet
  | [], frm => if frm ≤ 0x10FFFF then [(frm, 0x10FFFF)] else []
  | (lo, hi) :: rest, frm =>
    (if frm < lo then [(frm, lo - 1)] else []) ++ compl rest (max frm (hi + 1))

theorem compl_sound (rs : RangeSet) : ∀ frm c, frm ≤ c → c ≤ 0x10FFFF → inRanges rs c = false →
    inRanges (compl rs frm) c = true := by
  induction rs with
  | nil =>
    intro frm c h1 h2 _
    simp [compl, show frm ≤ 0x10FFFF by omega, inRanges, h1, h2]
  | cons r rest ih =>
    obtain ⟨lo, hi⟩ := r
    intro frm c h1 h2 h3
    simp only [inRanges, Bool.or_eq_false_iff, Bool.and_eq_false_iff, decide_eq_false_iff_not] at h3
    obtain ⟨hout, hrest⟩ := h3
    simp only [compl]
    rw [inRanges_iff]
    rcases Nat.lt_or_ge c lo with hc | hc
    · refine ⟨(frm, lo - 1), ?_, h1, by simp; omega⟩
      simp [show frm < lo by omega]
    · have hgt : hi < c := by omega
      have := ih (max frm (hi + 1)) c (by omega) h2 hrest
      rw [inRanges_iff] at this
      obtain ⟨e, he, h4⟩ := this
      exact ⟨e, List.mem_append_right _ he, h4⟩

/-- Insert a range keeping the list ordered by lower bound. -/
def insertR (r : Nat × Nat) : RangeSet → RangeSet
  | [] => [r]
  | x :: rest => if r.1 ≤ x.1 then r :: x :: rest else x :: insertR r rest

theorem inRanges_insertR (r : Nat × Nat) (rs : RangeSet) (c : Nat) :
    inRanges (insertR r rs) c = ((r.1 ≤ c && c ≤ r.2) || inRanges rs c) := by
  induction rs with
  | nil => simp [insertR, inRanges]
  | cons x rest ih =>
    obtain ⟨a, b⟩ := x
    unfold insertR
    split
    · simp [inRanges]
    · simp only [inRanges, ih]
      cases (decide (a ≤ c) && decide (c ≤ b)) <;> cases (decide (r.1 ≤ c) && decide (c ≤ r.2)) <;> simp

/-- mode 0 inside `[0, 0x10FFFF]` only on the set `ok` -/
def zeroWithin (tbl : RangeTable) (ok : RangeSet) : Bool := badNZ tbl (compl ok 0)

theorem zeroWithin_sound {tbl : RangeTable} {ok : RangeSet} (h : zeroWithin tbl ok = true) (c : Nat)
    (hc : c ≤ 0x10FFFF) (h0 : lookup tbl 0 c = 0) : inRanges ok c = true := by
  cases hb : inRanges ok c with
  | true => rfl
  | false => exact absurd h0 (badNZ_sound h (compl_sound ok 0 c (Nat.zero_le _) hc hb))

/-! ### the fields of `TablesOK` -/

def iriBad : RangeSet :=
  [(0, 0x20), (0x3c, 0x3c), (0x3e, 0x3e), (0x22, 0x22), (0x7b, 0x7d), (0x5e, 0x5e), (0x60, 0x60),
   (0x5c, 0x5c)]

theorem iriRaw_of_not_bad {c : Nat} (h : inRanges iriBad c = false) :
    iriForbidden c = false ∧ c ≠ 0x3e ∧ c ≠ 0x5c := by
  simp only [iriBad, inRanges, Bool.or_eq_false_iff, Bool.and_eq_false_iff,
    decide_eq_false_iff_not] at h
  refine ⟨?_, by omega, by omega⟩
  simp only [iriForbidden, Bool.or_eq_false_iff, decide_eq_false_iff_not]
  omega

def echarChk (echar : RangeTable) (lo hi v : Nat) : Bool :=
  v != 1 || (decide (hi - lo < 16) &&
    (List.range (hi - lo + 1)).all (fun i => echarDecode (lookup echar 0 (lo + i)) == some (lo + i)))

theorem echar_ok (echar tbl : RangeTable) (h : entAll tbl (echarChk echar) = true) :
    ∀ c, lookup tbl 0 c = 1 → echarDecode (lookup echar 0 c) = some c :=
  lookup_entries tbl 0 _ (fun c v => v = 1 → echarDecode (lookup echar 0 c) = some c)
    (fun lo hi v hv c h1 h2 hv1 => by
      simp only [echarChk, Bool.or_eq_true, bne_iff_ne, ne_eq, Bool.and_eq_true, beq_iff_eq,
        List.all_eq_true, List.mem_range, decide_eq_true_eq] at hv
      rcases hv with hv | ⟨_, hdec⟩
      · exact absurd hv1 hv
      · have := hdec (c - lo) (by omega)
        rwa [show lo + (c - lo) = c by omega] at this)
    (fun _ h0 => by omega) h

def hexChk (hexDec : RangeTable) : Bool :=
  (List.range 16).all (fun d => lookup hexDec 0 (hexUpper d) == d + 1 && lookup hexDec 0 (hexLower d) == d + 1)

theorem hex_ok (hexDec : RangeTable) (h : hexChk hexDec = true) :
    ∀ d, d < 16 → lookup hexDec 0 (hexUpper d) = d + 1 ∧ lookup hexDec 0 (hexLower d) = d + 1 := by
  intro d hd
  simp only [hexChk, List.all_eq_true, List.mem_range, Bool.and_eq_true, beq_iff_eq] at h
  exact h d hd

def hexSet : RangeSet := [(0x30, 0x39), (0x41, 0x46), (0x61, 0x66)]

theorem isHex_hexSet (c : Nat) (h : Spec.TtlPrint.isHex c = true) : inRanges hexSet c = true := by
  simp only [Spec.TtlPrint.isHex, Bool.or_eq_true, Bool.and_eq_true, decide_eq_true_eq] at h
  simp only [hexSet, inRanges, Bool.or_eq_true, Bool.and_eq_true, decide_eq_true_eq, Bool.or_false]
  omega

theorem isDigit_range (c : Nat) (h : isDigit c = true) : 0x30 ≤ c ∧ c ≤ 0x39 := by
  simpa [isDigit, NQ.isDigit] using h

/-- runes `producePrefixedName` accepts raw as the first rune of a local name -/
def firstOK (T : Tables) : RangeSet := insertR (0x30, 0x39) (insertR (0x3a, 0x3a) T.pnCharsU)
/-- … and inside a local name -/
def bodyOK (T : Tables) : RangeSet := insertR (0x2e, 0x2e) (insertR (0x3a, 0x3a) T.pnChars)

theorem firstOK_sound (T : Tables) (c : Nat) (h : inRanges (firstOK T) c = true) :
    (inRanges T.pnCharsU c || c = 0x3a || isDigit c) = true := by
  simp only [firstOK, inRanges_insertR, Bool.or_eq_true, Bool.and_eq_true, decide_eq_true_eq] at h
  simp only [Bool.or_eq_true, decide_eq_true_eq, isDigit, NQ.isDigit, Bool.and_eq_true]
  rcases h with h | h | h
  · right; exact h
  · left; right; omega
  · left; left; exact h

theorem bodyOK_sound (T : Tables) (c : Nat) (h : inRanges (bodyOK T) c = true) :
    (inRanges T.pnChars c || c = 0x2e || c = 0x3a) = true := by
  simp only [bodyOK, inRanges_insertR, Bool.or_eq_true, Bool.and_eq_true, decide_eq_true_eq] at h
  simp only [Bool.or_eq_true, decide_eq_true_eq]
  rcases h with h | h | h
  · left; right; omega
  · right; omega
  · left; left; exact h

def all4 (p : RangeTable → Bool) (f : Bool → Bool → RangeTable) : Bool :=
  p (f true true) && p (f true false) && p (f false true) && p (f false false)

theorem all4_elim {p : RangeTable → Bool} {f : Bool → Bool → RangeTable} (h : all4 p f = true)
    (a b : Bool) : p (f a b) = true := by
  simp only [all4, Bool.and_eq_true] at h
  obtain ⟨⟨⟨h1, h2⟩, h3⟩, h4⟩ := h
  cases a <;> cases b <;> assumption

/-- All the Boolean checks behind `TablesOK`. -/
def tablesOKChk (T : Tables) : Bool :=
  both (fun t => entAll t (fun _ _ v => decide (v ≤ 2))) T.iriEsc &&
  both (fun t => badNZ t iriBad) T.iriEsc &&
  both (fun t => entAll t (fun _ hi v => v != 1 || decide (hi ≤ 0xFFFF))) T.iriEsc &&
  both (fun t => entAll t (fun _ _ v => decide (v ≤ 3))) T.litEsc &&
  both (fun t => badNZ t [(0x22, 0x22), (0x5c, 0x5c)]) T.litEsc &&
  both (fun t => entAll t (echarChk T.echar)) T.litEsc &&
  both (fun t => entAll t (fun _ hi v => v != 2 || decide (hi ≤ 0xFFFF))) T.litEsc &&
  hexChk T.hexDec &&
  badNZ T.hexDec hexSet &&
  both (fun t => zeroWithin t (firstOK T)) (T.localEsc true) &&
  both (fun t => zeroWithin t (bodyOK T)) (T.localEsc false) &&
  both (fun t => badNZ t [(0x2e, 0x2e)]) (fun f => T.localEsc f true) &&
  all4 (fun t => entAll t (pointsChk 2 isLocalEsc)) T.localEsc &&
  (!inRanges T.pnChars 0x3a && !inRanges T.pnChars 0x2e && !inRanges T.pnChars 0x25 &&
   !inRanges T.pnChars 0x5c && !inRanges T.pnCharsU 0x2e && !inRanges T.pnCharsU 0x25 &&
   !inRanges T.pnCharsU 0x5c && !inRanges T.pnChars 0x20 && !inRanges T.pnChars 0x0a &&
   !inRanges T.pnCharsU 0x20 && !inRanges T.pnCharsU 0x0a) &&
  hexSet.all (fun r => rangeWithin T.pnChars r.1 r.2)

theorem tablesOK_of_chk (T : Tables) (h : tablesOKChk T = true) : TablesOK T := by
  simp only [tablesOKChk, Bool.and_eq_true, Bool.not_eq_true'] at h
  obtain ⟨⟨⟨⟨⟨⟨⟨⟨⟨⟨⟨⟨⟨⟨h1, h2⟩, h3⟩, h4⟩, h5⟩, h6⟩, h7⟩, h8⟩, h9⟩, h10⟩, h11⟩, h12⟩, h13⟩, h14⟩, h15⟩ := h
  obtain ⟨⟨⟨⟨⟨⟨⟨⟨⟨⟨p1, p2⟩, p3⟩, p4⟩, p5⟩, p6⟩, p7⟩, p8⟩, p9⟩, p10⟩, p11⟩ := h14
  have hpnhex : ∀ c, Spec.TtlPrint.isHex c = true → inRanges T.pnChars c = true := by
    intro c hc
    have := isHex_hexSet c hc
    rw [inRanges_iff] at this
    obtain ⟨r, hr, h1', h2'⟩ := this
    simp only [List.all_eq_true] at h15
    exact rangeWithin_sound (h15 r hr) h1' h2'
  exact {
    iri_mode := fun a => mode_le 2 _ (both_elim h1 a)
    iri_raw := fun a c h0 => iriRaw_of_not_bad (raw_of_bad _ _ (both_elim h2 a) c h0)
    iri_u4 := fun a => mode_bound 1 0xFFFF (by decide) _ (both_elim h3 a)
    lit_mode := fun a => mode_le 3 _ (both_elim h4 a)
    lit_raw := fun a c h0 => by
      have := raw_of_bad _ _ (both_elim h5 a) c h0
      simp only [inRanges, Bool.or_eq_false_iff, Bool.and_eq_false_iff,
        decide_eq_false_iff_not] at this
      omega
    lit_echar := fun a => echar_ok _ _ (both_elim h6 a)
    lit_u4 := fun a => mode_bound 2 0xFFFF (by decide) _ (both_elim h7 a)
    hex := fun d hd => (hex_ok _ h8 d hd).1
    hex_lower := fun d hd => (hex_ok _ h8 d hd).2
    hex_all := fun c hc => badNZ_sound h9 (isHex_hexSet c hc)
    loc_raw_first := fun l c hc h0 => firstOK_sound T c (zeroWithin_sound (both_elim h10 l) c hc h0)
    loc_raw_body := fun l c hc h0 => bodyOK_sound T c (zeroWithin_sound (both_elim h11 l) c hc h0)
    loc_raw_last := fun f c h0 => by
      have := raw_of_bad _ _ (both_elim (f := fun f => T.localEsc f true) h12 f) c h0
      simp only [inRanges, Bool.or_eq_false_iff, Bool.and_eq_false_iff,
        decide_eq_false_iff_not] at this
      omega
    loc_esc := fun f l => points_ok 2 (by decide) isLocalEsc _ (all4_elim h13 f l)
    pn_colon := p1
    pn_dot := p2
    pn_pct := p3
    pn_bs := p4
    pnU_dot := p5
    pnU_pct := p6
    pnU_bs := p7
    pn_sp := p8
    pn_lf := p9
    pnU_sp := p10
    pnU_lf := p11
    pn_hex := hpnhex
    pn_digit := fun c hc => hpnhex c (by
      have := isDigit_range c hc
      simp [Spec.TtlPrint.isHex, this.1, this.2]) }

end RdfModel.Proofs.C02Tok
