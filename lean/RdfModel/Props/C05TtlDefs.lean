/-
  Definitions used by the Turtle/TriG statement-layer theorems (`Props/C05Ttl.lean`, `C06Ttl.lean`,
  `C07Ttl.lean`, `C15Ttl.lean`); in a file of their own so that the proofs (`Proofs/TtlDoc*.lean`)
  can mention them.
-/
import RdfModel.Model.TurtleDoc
namespace RdfModel.TtlDoc
open RdfModel

/-- The token producers never reach an out-of-range index (proved for `Producers.real` from the
    token-layer theorems, `Proofs/TtlDocReal.lean`). -/
structure Producers.NoPanic (P : Producers) : Prop where
  iriref : ∀ e i, P.iriref e i ≠ .panic
  string : ∀ e i, P.string e i ≠ .panic
  pnameNS : ∀ e i, P.pnameNS e i ≠ .panic
  pname : ∀ e i, P.pname e i ≠ .panic
  bnode : ∀ e i, P.bnode e i ≠ .panic
  langtag : ∀ e i, P.langtag e i ≠ .panic
  numeric : ∀ e i, P.numeric e i ≠ .panic

/-- Every successful producer call takes at least one non-NUL rune out of the buffer and puts
    nothing new in (stated with the rune prices of the step budget). -/
structure Producers.Consumes (P : Producers) : Prop where
  iriref : ∀ e i v r, P.iriref e i = .ok v r → inputCost r + 64 ≤ inputCost i
  string : ∀ e i v r, P.string e i = .ok v r → inputCost r + 64 ≤ inputCost i
  pnameNS : ∀ e i v r, P.pnameNS e i = .ok v r → inputCost r + 64 ≤ inputCost i
  pname : ∀ e i v r, P.pname e i = .ok v r → inputCost r + 64 ≤ inputCost i
  bnode : ∀ e i v r, P.bnode e i = .ok v r → inputCost r + 64 ≤ inputCost i
  langtag : ∀ e i v r, P.langtag e i = .ok v r → inputCost r + 64 ≤ inputCost i
  /-- `produceNumericLiteral` is only called on `.` when a digit follows (on a lone `.` the Go function returns an
      empty token and pushes the `.` back) -/
  numeric : ∀ e c rest v r, P.numeric e (c :: rest) = .ok v r →
    (c = 0x2e → ∃ d rest', rest = d :: rest' ∧ 0x30 ≤ d ∧ d ≤ 0x39) → inputCost r + 64 ≤ inputCost (c :: rest)
  boolean : ∀ e i b r, P.boolean e i = .bool b r → inputCost r + 64 ≤ inputCost i

/-- A language tag token is never empty. -/
def Producers.LangNonEmpty (P : Producers) : Prop := ∀ e i v r, P.langtag e i = .ok v r → v ≠ []

/-! ### C06: shape of emitted statements -/

/-- subject / graph-name position: IRI or blank node -/
def nodeShape : T → Prop
  | .iri _ => True
  | .bnode _ => True
  | .lit .. => False

def isIRI : T → Prop
  | .iri _ => True
  | _ => False

/-- A literal carries a language tag exactly when its datatype is rdf:langString, and then a non-empty
    one; the decoders never produce directional tags, so rdf:dirLangString does not occur at all. -/
def litShape : T → Prop
  | .lit _ dt (some tag) => dt = rdfLangString ∧ tag ≠ []
  | .lit _ dt none => dt ≠ rdfLangString ∧ dt ≠ rdfDirLangString
  | _ => True

structure WFStmt (trig : Bool) (s : Stmt) : Prop where
  subj : ∃ t, s.s = some t ∧ nodeShape t
  pred : ∃ t, s.p = some t ∧ isIRI t
  obj : litShape s.o
  graph : ∀ g, s.g = some g → trig = true ∧ nodeShape g

/-- `Next()` called `n` more times, every call answering `false`: the state afterwards. -/
def afterFalse (C : Cfg) (e : End) : Nat → St → Option St
  | 0, st => some st
  | n + 1, st =>
    match next C e st with
    | .no st' => afterFalse C e n st'
    | _ => none

end RdfModel.TtlDoc
