/-
  C08, document level — single scan calls of the statement machine on printed tokens: for every
  scan function that takes part in decoding a grammatical document, what the call returns when the
  buffer starts (after layout) with the text of the expected token.  Composition into runs is in
  `Proofs/C08DocRun.lean`.
-/
import RdfModel.Proofs.C08DocTok
import RdfModel.Proofs.C08Mach
set_option linter.unusedSimpArgs false
set_option linter.unusedSectionVars false
set_option linter.unusedVariables false
namespace RdfModel.C08
open RdfModel RdfModel.TA RdfModel.C02 RdfModel.Ttl RdfModel.Spec.TtlPrint RdfModel.TtlDoc

/-- inputs the machine cannot tell apart: equal after white space and comments -/
def SkEq (C : Cfg) (a b : List Nat) : Prop := skipWs C .eof false a = skipWs C .eof false b

theorem SkEq.rfl' {C : Cfg} {a : List Nat} : SkEq C a a := rfl
theorem SkEq.trans {C : Cfg} {a b c : List Nat} (h1 : SkEq C a b) (h2 : SkEq C b c) : SkEq C a c := Eq.trans h1 h2
theorem SkEq.symm {C : Cfg} {a b : List Nat} (h : SkEq C a b) : SkEq C b a := Eq.symm h

section
variable {T : Tables} (hT : TablesOK T) (hT2 : TablesOK2 T) {C : Cfg} (hC : CfgOK T C)

/-! ### skipping up to a token -/

theorem prefixOK2_pre {p : List Nat} (h : prefixOK2 T p = true) : prefixOK T p = true := by
  simp only [prefixOK2, Bool.and_eq_true] at h; exact h.1

theorem prefixOK2_mem {p : List Nat} (h : prefixOK2 T p = true) : ∀ a ∈ p, a ≠ 0x1680 := by
  intro a ha hh
  subst hh
  simp only [prefixOK2, Bool.and_eq_true, Bool.not_eq_true', List.contains_eq_mem, decide_eq_false_iff_not] at h
  exact h.2 ha


theorem solid_pn {c : Nat} (h : inRanges T.pnChars c = true) (hne : c ≠ 0x1680) : solid T c = true := by simp [solid, h, hne]

theorem solid_delim {c : Nat} (h : c ∈ delims) (hw : isWsRune c = false) : solid T c = true := by
  simp [solid, hw, h]

include hT2 hC in
theorem skipWs_solid {c : Nat} (hs : solid T c = true) (h23 : c ≠ 0x23) (r : List Nat) :
    skipWs C .eof false (c :: r) = .rune c r := by
  have hsp := hC.nsp c hs
  have hw : isWsRune c = false := by
    simp only [solid, Bool.or_eq_true, Bool.and_eq_true, Bool.not_eq_true'] at hs
    rcases hs with hs | hs
    · cases hw : isWsRune c with
      | false => rfl
      | true =>
        have : c ∈ delims := by
          simp only [isWsRune, Bool.or_eq_true, decide_eq_true_eq] at hw
          rcases hw with ((hw | hw) | hw) | hw <;> subst hw <;> decide
        rw [pn_delim hT2 this] at hs
        exact Bool.noConfusion hs.1
    · exact hs.2
  simp only [isWsRune, Bool.or_eq_false_iff, decide_eq_false_iff_not] at hw
  rw [skipWs]
  simp [h23, isWs, hw.1.1.1, hw.1.1.2, hw.1.2, hw.2, hsp]

/-- `rest` begins (no layout) with the token rune `c` -/
def Follows (C : Cfg) (rest : List Nat) (c : Nat) (r : List Nat) : Prop :=
  rest = c :: r ∧ skipWs C .eof false rest = .rune c r

include hT2 hC in
theorem follows_solid {c : Nat} (hs : solid T c = true) (h23 : c ≠ 0x23) (r : List Nat) : Follows C (c :: r) c r :=
  ⟨rfl, skipWs_solid hT2 hC hs h23 r⟩

theorem skEq_rune {a : List Nat} {c : Nat} {r : List Nat} (h : skipWs C .eof false a = .rune c r) : SkEq C (c :: r) a := by
  unfold SkEq
  rw [h]
  exact skipWs_idem C .eof false a c r h

/-! ### one scan call -/

theorem stepConf_rune {f : Frame} {s : List Frame} {inp : List Nat} {env : Env} {a : Nat} {r : List Nat} {o : Out}
    (hsk : skipWs C .eof false inp = .rune a r) (hfn : stepFn C .eof f.k f.x env (.rune a r) = .ok o) :
    stepConf C .eof ⟨f :: s, inp, env⟩ =
      some (⟨o.cur.toList ++ (if o.term then [] else o.push.reverse ++ s), o.inp, o.env⟩, o.emit) := by
  simp [stepConf, scanFn, hsk, hfn]

/-- a scan call on a rune, followed by a run -/
theorem Steps.first {f : Frame} {s : List Frame} {inp : List Nat} {env : Env} {a : Nat} {r : List Nat} {o : Out}
    {ss : List Stmt} {cf : Conf}
    (hsk : skipWs C .eof false inp = .rune a r) (hfn : stepFn C .eof f.k f.x env (.rune a r) = .ok o)
    (hrest : Steps C .eof ⟨o.cur.toList ++ (if o.term then [] else o.push.reverse ++ s), o.inp, o.env⟩ ss cf) :
    Steps C .eof ⟨f :: s, inp, env⟩ (o.emit.toList ++ ss) cf :=
  Steps.step (stepConf_rune hsk hfn) hrest

/-! ### terms -/

/-- decoder environment of a denotation state -/
def envOf (st : DState) : Env := { base := st.base, prefixes := st.ns, nextAnon := st.next }

def toT (t : TermB) : TtlDoc.T := t.map toBN

theorem lookupNs_eq (p : List Nat) (ns : List (List Nat × List Nat)) : lookupPfx p ns = lookupNs p ns := by
  induction ns with
  | nil => rfl
  | cons a rest ih =>
    obtain ⟨q, x⟩ := a
    simp only [lookupPfx, lookupNs, ih]

theorem envOf_fresh (st : DState) : (envOf st).fresh = (toT st.fresh.1, envOf st.fresh.2) := rfl

include hT hC in
theorem termIRIREF_print (env : Env) (cs : List Choice) (r i A : List Nat) (hs : Scalars r)
    (hres : resolveIRI C env r = some i) :
    termIRIREF C .eof env (printIRIREF cs r ++ A) = .ok (.iri i) A env := by
  simp only [termIRIREF, iriIRIREF, hC.prod, Producers.real, decode_print_iriref T hT .eof cs r hs A, hres, IriRes.toTerm]

include hT hC in
theorem iriIRIREF_print (env : Env) (cs : List Choice) (r i A : List Nat) (hs : Scalars r)
    (hres : resolveIRI C env r = some i) :
    iriIRIREF C .eof env (printIRIREF cs r ++ A) = .ok i A := by
  simp only [iriIRIREF, hC.prod, Producers.real, decode_print_iriref T hT .eof cs r hs A, hres]

include hT hC in
theorem iriPName_print (env : Env) (cs : List Choice) (p l out i A : List Nat) (hp : prefixOK2 T p = true)
    (hps : Scalars p) (hs : Scalars l) (h : printPrefixedName T cs p l = some out)
    (hA : clash T .name A = false) (hex : env.expand p l = some i) :
    iriPName C .eof env (out ++ A) = .ok i A := by
  simp only [iriPName, hC.prod, Producers.real, pname_tok hT cs p l out A (prefixOK2_pre hp) hps hs h hA, hex]

include hT hC in
theorem termPName_print (env : Env) (cs : List Choice) (p l out i A : List Nat) (hp : prefixOK2 T p = true)
    (hps : Scalars p) (hs : Scalars l) (h : printPrefixedName T cs p l = some out)
    (hA : clash T .name A = false) (hex : env.expand p l = some i) :
    termPName C .eof env (out ++ A) = .ok (.iri i) A env := by
  simp only [termPName, iriPName_print hT hC env cs p l out i A hp hps hs h hA hex, IriRes.toTerm]

include hT hC in
theorem termBNode_print (env : Env) (l A : List Nat) (hs : Scalars l) (hl : labelOK T l = true)
    (hA : clash T .label A = false) :
    termBNode C .eof env (0x5f :: 0x3a :: l ++ A) = .ok (.bnode (.lbl l)) A env := by
  have hne : l ≠ [] := by intro h; subst h; simp [labelOK] at hl
  have := bnode_tok hT l A hs hl hA
  simp only [List.cons_append] at this
  simp only [termBNode, hC.prod, Producers.real, List.cons_append, this, Env.labelled, hne, if_false]

end

/-! ### `reader_scan_Object` -/

section obj
variable {T : Tables} (hT : TablesOK T) (hT2 : TablesOK2 T) {C : Cfg} (hC : CfgOK T C)

include hT hC in
theorem fn_object_iriref (x : Ectx) (env : Env) (cs : List Choice) (r i A : List Nat) (c : Nat) (tl : List Nat)
    (htext : printIRIREF cs r ++ A = c :: tl) (hs : Scalars r) (hres : resolveIRI C env r = some i) :
    stepFn C .eof .object x env (.rune c tl) = .ok { emit := some (mkStmt x (.iri i)), inp := A, env := env } := by
  have hc : c = 0x3c := by simp [printIRIREF] at htext; exact htext.1.symm
  subst hc
  simp only [stepFn, stepObject, if_true, ← htext, termIRIREF_print hT hC env cs r i A hs hres, emitOfTerm]

include hT hC in
theorem fn_object_bnode (x : Ectx) (env : Env) (l A : List Nat) (hs : Scalars l) (hl : labelOK T l = true)
    (hA : clash T .label A = false) :
    stepFn C .eof .object x env (.rune 0x5f (0x3a :: l ++ A)) =
      .ok { emit := some (mkStmt x (.bnode (.lbl l))), inp := A, env := env } := by
  have := termBNode_print hT hC env l A hs hl hA
  simp only [List.cons_append] at this
  simp only [stepFn, stepObject, if_true, List.cons_append, this, emitOfTerm]
  simp

theorem fn_object_bracket (x : Ectx) (env : Env) (rest : List Nat) :
    stepFn C .eof .object x env (.rune 0x5b rest) =
      .ok { push := [⟨{ x with subj := some env.fresh.1, pred := none }, .bnplEnd⟩,
                     ⟨{ x with subj := some env.fresh.1, pred := none }, .polContinue⟩,
                     ⟨{ x with subj := some env.fresh.1, pred := none }, .pol⟩],
            emit := some (mkStmt x env.fresh.1), inp := rest, env := env.fresh.2 } := by
  simp [stepFn, stepObject]

theorem fn_object_paren (x : Ectx) (env : Env) (rest : List Nat) :
    stepFn C .eof .object x env (.rune 0x28 rest) = .ok { cur := some ⟨x, .collOpenObj⟩, inp := rest, env := env } := by
  simp [stepFn, stepObject]

theorem fn_collOpenObj_close (x : Ectx) (env : Env) (rest : List Nat) :
    stepFn C .eof .collOpenObj x env (.rune 0x29 rest) =
      .ok { emit := some (mkStmt x (.iri TtlDoc.rdfNil)), inp := rest, env := env.fresh.2 } := by
  simp [stepFn, stepCollection]

theorem printString_head (st : Style) (cs : List Choice) (s A : List Nat) (c : Nat) (tl : List Nat)
    (htext : printString st cs s ++ A = c :: tl) : c = st.delim := by
  cases st <;> simp [printString, quotes, Style.long, Style.delim] at htext ⊢ <;> exact htext.1.symm

theorem delim_cases (st : Style) : st.delim = 0x22 ∨ st.delim = 0x27 := by cases st <;> simp [Style.delim]

theorem object_string_dispatch (x : Ectx) (env : Env) (c : Nat) (tl : List Nat) (hc : c = 0x22 ∨ c = 0x27) :
    stepFn C .eof .object x env (.rune c tl) =
      (match C.P.string .eof (c :: tl) with
        | .panic => .panic
        | .err k => .err (ofTok k)
        | .ok lex r => stepLiteralTail C .eof x env lex r) := by
  rcases hc with rfl | rfl <;> simp only [stepFn, stepObject] <;> rfl

include hT hC in
/-- plain string: the next rune is neither `@` nor `^` -/
theorem fn_object_plain (x : Ectx) (env : Env) (st : Style) (cs : List Choice) (s : List Nat) (c : Nat) (tl : List Nat)
    (a : Nat) (A : List Nat) (htext : printString st cs s ++ a :: A = c :: tl) (hs : Scalars s)
    (hA : clash T (strKind st s) (a :: A) = false) (h1 : a ≠ 0x40) (h2 : a ≠ 0x5e) :
    stepFn C .eof .object x env (.rune c tl) =
      .ok { emit := some (mkStmt x (.lit s xsdString none)), inp := a :: A, env := env } := by
  have hc := printString_head st cs s _ c tl htext
  rw [object_string_dispatch x env c tl (by rw [hc]; exact delim_cases st), ← htext, hC.prod]
  simp only [Producers.real, str_tok hT st cs s (a :: A) hs hA, stepLiteralTail, h1, h2, if_false]

include hT hT2 hC in
theorem fn_object_lang (x : Ectx) (env : Env) (st : Style) (cs : List Choice) (s tag : List Nat) (c : Nat) (tl : List Nat)
    (A : List Nat) (htext : printString st cs s ++ 0x40 :: (tag ++ A) = c :: tl) (hs : Scalars s)
    (htag : langOK tag = true) (hA : clash T .lang A = false) :
    stepFn C .eof .object x env (.rune c tl) =
      .ok { emit := some (mkStmt x (.lit s rdfLangString (some tag))), inp := A, env := env } := by
  have hc := printString_head st cs s _ c tl htext
  have hk : clash T (strKind st s) (0x40 :: (tag ++ A)) = false := by
    unfold strKind
    split
    · cases st <;> simp [clash, Style.delim]
    · rfl
  rw [object_string_dispatch x env c tl (by rw [hc]; exact delim_cases st), ← htext, hC.prod]
  have hl := lang_tok (T := T) tag A htag hA
  simp only [List.cons_append] at hl
  simp only [Producers.real, str_tok hT st cs s _ hs hk, stepLiteralTail, if_true, hC.prod, hl]

/-- the datatype of a typed literal written as IRIREF -/
theorem literalTail_typed (x : Ectx) (env : Env) (lex : List Nat) (c2 : Nat) (tl2 : List Nat) (dt A : List Nat)
    (hiri : (if c2 = 0x3c then iriIRIREF C .eof env (c2 :: tl2) else iriPName C .eof env (c2 :: tl2)) = .ok dt A)
    (hdt : ¬(dt = rdfLangString ∨ dt = rdfDirLangString)) :
    stepLiteralTail C .eof x env lex (0x5e :: 0x5e :: c2 :: tl2) =
      .ok { emit := some (mkStmt x (.lit lex dt none)), inp := A, env := env } := by
  simp only [stepLiteralTail]
  simp only [show (0x5e : Nat) ≠ 0x40 by decide, if_false, if_true, ne_eq, not_true_eq_false]
  simp only [hiri, hdt, if_false]

include hT hC in
theorem fn_object_typed (x : Ectx) (env : Env) (st : Style) (cs : List Choice) (s : List Nat) (c : Nat) (tl : List Nat)
    (c2 : Nat) (tl2 : List Nat) (dt A : List Nat)
    (htext : printString st cs s ++ 0x5e :: 0x5e :: c2 :: tl2 = c :: tl) (hs : Scalars s)
    (hiri : (if c2 = 0x3c then iriIRIREF C .eof env (c2 :: tl2) else iriPName C .eof env (c2 :: tl2)) = .ok dt A)
    (hdt : ¬(dt = rdfLangString ∨ dt = rdfDirLangString)) :
    stepFn C .eof .object x env (.rune c tl) =
      .ok { emit := some (mkStmt x (.lit s dt none)), inp := A, env := env } := by
  have hc := printString_head st cs s _ c tl htext
  have hk : clash T (strKind st s) (0x5e :: 0x5e :: c2 :: tl2) = false := by
    unfold strKind
    split
    · cases st <;> simp [clash, Style.delim]
    · rfl
  rw [object_string_dispatch x env c tl (by rw [hc]; exact delim_cases st), ← htext, hC.prod]
  simp only [Producers.real, str_tok hT st cs s _ hs hk]
  exact literalTail_typed x env s c2 tl2 dt A hiri hdt

theorem bare_nil : bareLiteralDatatype [] = none := by decide

/-- a numeric token starts with a sign, a digit, or `.` followed by a digit -/
theorem num_head (lex dt : List Nat) (h : bareLiteralDatatype lex = some dt) (hdt : dt ≠ xsdBoolean) :
    ∃ c lt, lex = c :: lt ∧
      ((c = 0x2b ∨ c = 0x2d ∨ isDigit c = true) ∨ (c = 0x2e ∧ ∃ d lt', lt = d :: lt' ∧ isDigit d = true)) := by
  cases lex with
  | nil => rw [bare_nil] at h; cases h
  | cons c lt =>
    refine ⟨c, lt, rfl, ?_⟩
    obtain ⟨k, _, hk⟩ := decode_print_numeric .eof (c :: lt) dt [] h hdt rfl
    by_cases h1 : c = 0x2b ∨ c = 0x2d ∨ isDigit c = true
    · exact Or.inl h1
    · right
      have h1' : ¬(c = 0x2d ∨ c = 0x2b ∨ isDigit c = true) := by
        intro hh; apply h1; rcases hh with hh | hh | hh
        · exact Or.inr (Or.inl hh)
        · exact Or.inl hh
        · exact Or.inr (Or.inr hh)
      have hc : c = 0x2e := by
        simp only [List.append_nil, produceNumericLiteral, h1', if_false] at hk
        by_cases hc : c = 0x2e
        · exact hc
        · simp [hc] at hk
      subst hc
      refine ⟨rfl, ?_⟩
      have hnt : ¬((0x2e :: lt) = asc "true" ∨ (0x2e :: lt) = asc "false") := by
        intro hh; rcases hh with hh | hh <;> exact absurd (List.head_eq_of_cons_eq hh) (by decide)
      cases lt with
      | nil =>
        have : bareLiteralDatatype [0x2e] = none := by decide
        rw [this] at h; cases h
      | cons d lt' =>
        refine ⟨d, lt', rfl, ?_⟩
        cases hd : isDigit d with
        | true => rfl
        | false =>
          exfalso
          unfold bareLiteralDatatype at h
          rw [if_neg hnt] at h
          have e1 : dropSign (0x2e :: d :: lt') = 0x2e :: d :: lt' := by simp [dropSign]
          have e2 : spanDigits (0x2e :: d :: lt') = (0, 0x2e :: d :: lt') := by
            simp [spanDigits, isDigit, NQ.isDigit]
          have e3 : spanDigits (d :: lt') = (0, d :: lt') := by simp [spanDigits, hd]
          simp only [e1, e2, e3, if_true] at h
          by_cases he : d = 0x65 ∨ d = 0x45
          · simp [he] at h
          · simp [he] at h

include hC in
theorem fn_object_num (x : Ectx) (env : Env) (lex dt A : List Nat) (c : Nat) (tl : List Nat)
    (htext : lex ++ A = c :: tl) (h : bareLiteralDatatype lex = some dt) (hdt : dt ≠ xsdBoolean)
    (hA : clash T .num A = false) :
    stepFn C .eof .object x env (.rune c tl) =
      .ok { emit := some (mkStmt x (.lit lex dt none)), inp := A, env := env } := by
  obtain ⟨k, hk, hp⟩ := num_tok (T := T) lex dt A h hdt hA
  obtain ⟨c', lt, rfl, hcl⟩ := num_head lex dt h hdt
  simp only [List.cons_append, List.cons.injEq] at htext
  obtain ⟨rfl, rfl⟩ := htext
  simp only [List.cons_append] at hp
  have hnum : emitOfNumeric x env (C.P.numeric .eof (c' :: (lt ++ A))) =
      .ok { emit := some (mkStmt x (.lit (c' :: lt) dt none)), inp := A, env := env } := by
    simp only [hC.prod, Producers.real, hp, emitOfNumeric, hk]
  rcases hcl with hcl | ⟨rfl, d, lt', rfl, hd⟩
  · have n1 : c' ≠ 0x3c := by
      rcases hcl with h | h | h
      · omega
      · omega
      · simp [isDigit, NQ.isDigit] at h; omega
    have n2 : c' ≠ 0x5f := by
      rcases hcl with h | h | h
      · omega
      · omega
      · simp [isDigit, NQ.isDigit] at h; omega
    have n3 : c' ≠ 0x28 ∧ c' ≠ 0x5b ∧ c' ≠ 0x22 ∧ c' ≠ 0x27 ∧ c' ≠ 0x2e := by
      rcases hcl with h | h | h
      · omega
      · omega
      · simp [isDigit, NQ.isDigit] at h; omega
    have hcls : c' = 0x2b ∨ c' = 0x2d ∨ (0x30 ≤ c' ∧ c' ≤ 0x39) := by
      rcases hcl with h | h | h
      · exact Or.inl h
      · exact Or.inr (Or.inl h)
      · simp [isDigit, NQ.isDigit] at h; exact Or.inr (Or.inr h)
    simp only [stepFn, stepObject, n1, n2, n3.1, n3.2.1, n3.2.2.1, n3.2.2.2.1, n3.2.2.2.2, if_false, false_or, or_false,
      hcls, if_true, hnum]
  · have hd' : ¬(d < 0x30 ∨ d > 0x39) := by simp [isDigit, NQ.isDigit] at hd; omega
    simp only [List.cons_append] at hnum ⊢
    simp [stepFn, stepObject, hd', hnum]

include hC in
theorem fn_object_bool (x : Ectx) (env : Env) (b : Bool) (A : List Nat) (c : Nat) (tl : List Nat)
    (htext : boolText b ++ A = c :: tl) :
    stepFn C .eof .object x env (.rune c tl) =
      .ok { emit := some (mkStmt x (.lit (boolText b) xsdBoolean none)), inp := A, env := env } := by
  have hb := decode_print_boolean .eof A
  cases b with
  | true =>
    have ht : boolText true ++ A = 0x74 :: 0x72 :: 0x75 :: 0x65 :: A := by simp [boolText, Proofs.C02Tok.asc_true]
    rw [ht] at htext
    injection htext with h1 h2
    subst h1; subst h2
    have := hb.1
    rw [Proofs.C02Tok.asc_true] at this
    simp only [List.cons_append, List.nil_append] at this
    simp [stepFn, stepObject, hC.prod, Producers.real, this, boolText]
  | false =>
    have ht : boolText false ++ A = 0x66 :: 0x61 :: 0x6c :: 0x73 :: 0x65 :: A := by simp [boolText, Proofs.C02Tok.asc_false]
    rw [ht] at htext
    injection htext with h1 h2
    subst h1; subst h2
    have := hb.2
    rw [Proofs.C02Tok.asc_false] at this
    simp only [List.cons_append, List.nil_append] at this
    simp [stepFn, stepObject, hC.prod, Producers.real, this, boolText]

end obj

/-! ### prefixed names in object and verb position; the predicate-object list -/

section pol
variable {T : Tables} (hT : TablesOK T) (hT2 : TablesOK2 T) {C : Cfg} (hC : CfgOK T C)

/-- first rune of a prefixed name -/
def NameStart (T : Tables) (c : Nat) : Prop := c = 0x3a ∨ (inRanges T.pnCharsBase c = true ∧ c ≠ 0x1680)

theorem pname_shape {cs : List Choice} {p l out : List Nat} (h : printPrefixedName T cs p l = some out) :
    ∃ lo, out = p ++ 0x3a :: lo := by
  simp only [printPrefixedName, Option.map_eq_some_iff] at h
  obtain ⟨lo, _, rfl⟩ := h
  exact ⟨lo, rfl⟩

theorem prefix_head {p : List Nat} (hp : prefixOK2 T p = true) (rest : List Nat) (c : Nat) (tl : List Nat)
    (htext : p ++ 0x3a :: rest = c :: tl) : NameStart T c := by
  cases p with
  | nil => simp at htext; exact Or.inl htext.1.symm
  | cons a p' =>
    simp only [List.cons_append, List.cons.injEq] at htext
    have hm := prefixOK2_mem hp a List.mem_cons_self
    have hp := prefixOK2_pre hp
    simp only [prefixOK, Bool.and_eq_true] at hp
    rw [← htext.1]
    exact Or.inr ⟨hp.1.1, hm⟩

include hT2 in
theorem nameStart_ne {c : Nat} (h : NameStart T c) {d : Nat} (hd : d ∈ delims) (hne : d ≠ 0x3a) : c ≠ d := by
  intro hcd
  subst hcd
  rcases h with h | h
  · exact hne h
  · rw [pnB_delim hT2 hd] at h; exact Bool.noConfusion h.1

include hT2 in
theorem nameStart_not_digit {c : Nat} (h : NameStart T c) : ¬(0x30 ≤ c ∧ c ≤ 0x39) ∧ c ≠ 0x2d ∧ c ≠ 0x5f := by
  rcases h with h | ⟨h, _⟩
  · subst h; decide
  · refine ⟨fun hd => ?_, fun hd => ?_, fun hd => ?_⟩
    · have := hT2.digit_base c (Or.inl (by simp [isDigit, NQ.isDigit, hd.1, hd.2]))
      rw [hT2.base_sub c h] at this; exact Bool.noConfusion this
    · have := hT2.digit_base c (Or.inr hd)
      rw [hT2.base_sub c h] at this; exact Bool.noConfusion this
    · subst hd; rw [hT2.base_us] at h; exact Bool.noConfusion h

include hT2 in
theorem nameStart_solid {c : Nat} (h : NameStart T c) : solid T c = true ∧ c ≠ 0x23 := by
  rcases h with h | ⟨h, hne⟩
  · subst h; exact ⟨by simp [solid, delims, isWsRune], by decide⟩
  · exact ⟨solid_pn (pnB_pn hT2 h) hne, fun hc => by subst hc; rw [pnB_delim hT2 (by decide)] at h; exact Bool.noConfusion h⟩

/-- second rune of a prefixed name whose prefix is not empty: a name character, `.` or `:` -/
theorem prefix_second {a : Nat} {p' : List Nat} (hp : prefixOK2 T (a :: p') = true) (rest : List Nat) :
    ∃ b tl, p' ++ 0x3a :: rest = b :: tl ∧ ((inRanges T.pnChars b = true ∧ b ≠ 0x1680) ∨ b = 0x2e ∨ b = 0x3a) := by
  cases p' with
  | nil => exact ⟨0x3a, rest, rfl, Or.inr (Or.inr rfl)⟩
  | cons b p'' =>
    refine ⟨b, p'' ++ 0x3a :: rest, rfl, ?_⟩
    have hm := prefixOK2_mem hp b (by simp)
    have hp := prefixOK2_pre hp
    simp only [prefixOK, Bool.and_eq_true, List.all_cons, Bool.or_eq_true, decide_eq_true_eq] at hp
    rcases hp.2.1.1 with h | h
    · exact Or.inl ⟨h, hm⟩
    · exact Or.inr (Or.inl h)

include hT2 in
theorem second_solid {b : Nat} (h : (inRanges T.pnChars b = true ∧ b ≠ 0x1680) ∨ b = 0x2e ∨ b = 0x3a) : solid T b = true := by
  rcases h with h | h | h
  · exact solid_pn h.1 h.2
  · subst h; simp [solid, delims, isWsRune]
  · subst h; simp [solid, delims, isWsRune]

theorem matchKeyword_other (e : Ttl.End) : ∀ (kw p' r : List Nat), (∀ k ∈ kw, k ≠ 0x3a) → kw.isPrefixOf p' = false →
    matchKeyword e kw (p' ++ 0x3a :: r) = some none := by
  intro kw
  induction kw with
  | nil => intro p' r _ h; simp at h
  | cons k ks ih =>
    intro p' r hk h
    cases p' with
    | nil =>
      simp only [List.nil_append, matchKeyword]
      rw [if_neg (fun hh => hk k List.mem_cons_self hh.symm)]
    | cons a p'' =>
      simp only [List.cons_append, matchKeyword]
      by_cases hak : a = k
      · subst hak
        simp only [if_true]
        apply ih p'' r (fun k' hk' => hk k' (List.mem_cons_of_mem _ hk'))
        simpa [List.isPrefixOf] using h
      · rw [if_neg hak]

/-- a prefixed name whose prefix label does not start with `true` / `false` is not taken for a boolean -/
theorem scanBoolean_other {p : List Nat} (hb : boolPrefixed p = false) (rest : List Nat) (c : Nat) (tl : List Nat)
    (htext : p ++ 0x3a :: rest = c :: tl) : scanBoolean .eof (c :: tl) = .other := by
  simp only [boolPrefixed, Bool.or_eq_false_iff] at hb
  rw [← htext]
  cases p with
  | nil => simp [scanBoolean]
  | cons a p' =>
    simp only [List.cons_append, scanBoolean]
    by_cases h1 : a = 0x74
    · subst h1
      have : (asc "rue").isPrefixOf p' = false := by
        have := hb.1; rw [Proofs.C02Tok.asc_true] at this; rw [Proofs.C02Tok.asc_rue]
        simpa [List.isPrefixOf] using this
      simp only [if_true]
      rw [matchKeyword_other .eof (asc "rue") p' rest (by decide) this]
    · by_cases h2 : a = 0x66
      · subst h2
        have : (asc "alse").isPrefixOf p' = false := by
          have := hb.2; rw [Proofs.C02Tok.asc_false] at this; rw [Proofs.C02Tok.asc_alse]
          simpa [List.isPrefixOf] using this
        simp only [show (0x66 : Nat) ≠ 0x74 by decide, if_false, if_true]
        rw [matchKeyword_other .eof (asc "alse") p' rest (by decide) this]
      · simp [h1, h2]

include hT2 hC in
/-- `reader_scan_Object` on a prefixed name: hand over to `reader_scan_object_PrefixedName` -/
theorem fn_object_pname (x : Ectx) (env : Env) {p : List Nat} (hp : prefixOK2 T p = true) (hb : boolPrefixed p = false)
    (rest : List Nat) (c : Nat) (tl : List Nat) (htext : p ++ 0x3a :: rest = c :: tl) :
    stepFn C .eof .object x env (.rune c tl) = .ok { cur := some ⟨x, .objectPName⟩, inp := c :: tl, env := env } := by
  have hns := prefix_head hp rest c tl htext
  have n := fun d hd hne => nameStart_ne hT2 hns (d := d) hd hne
  obtain ⟨nd, nm, nu⟩ := nameStart_not_digit hT2 hns
  have hpb : (C.pnBase c = true ∨ c = 0x3a) := by
    rcases hns with h | h
    · exact Or.inr h
    · exact Or.inl (by rw [hC.pnb]; exact h.1)
  simp only [stepFn, stepObject, n 0x3c (by decide) (by decide), nu, n 0x28 (by decide) (by decide),
    n 0x5b (by decide) (by decide), n 0x22 (by decide) (by decide), n 0x27 (by decide) (by decide),
    n 0x2b (by decide) (by decide), nm, nd, n 0x2e (by decide) (by decide), if_false, false_or, or_self, hpb, if_true]
  split
  · simp only [hC.prod, Producers.real, scanBoolean_other hb rest c tl htext]
  · rfl

include hT hC in
theorem fn_objectPName (x : Ectx) (env : Env) (cs : List Choice) (p l out i A : List Nat) (c : Nat) (tl : List Nat)
    (htext : out ++ A = c :: tl) (hp : prefixOK2 T p = true)
    (hps : Scalars p) (hs : Scalars l) (h : printPrefixedName T cs p l = some out)
    (hA : clash T .name A = false) (hex : env.expand p l = some i) :
    stepFn C .eof .objectPName x env (.rune c tl) = .ok { emit := some (mkStmt x (.iri i)), inp := A, env := env } := by
  simp only [stepFn, ← htext, termPName_print hT hC env cs p l out i A hp hps hs h hA hex, emitOfTerm]

/-! verbs -/

include hT hC in
theorem stepPOL_iriref (x : Ectx) (env : Env) (cs : List Choice) (r i A : List Nat) (c : Nat) (tl : List Nat)
    (htext : printIRIREF cs r ++ A = c :: tl) (hs : Scalars r) (hres : resolveIRI C env r = some i) :
    stepPOL C .eof x env c tl = polGo x (.iri i) A env := by
  have hc : c = 0x3c := by simp [printIRIREF] at htext; exact htext.1.symm
  subst hc
  simp only [stepPOL, if_true, ← htext, termIRIREF_print hT hC env cs r i A hs hres, polOfTerm]

include hC in
theorem stepPOL_a (x : Ectx) (env : Env) (w : Nat) (tl : List Nat) (hw : isWsRune w = true) :
    stepPOL C .eof x env 0x61 (w :: tl) = polGo x (.iri TtlDoc.rdfType) tl env := by
  simp [stepPOL, hC.ws w hw]

include hT hT2 hC in
theorem stepPOL_pname (x : Ectx) (env : Env) (cs : List Choice) (p l out i A : List Nat) (c : Nat) (tl : List Nat)
    (htext : out ++ A = c :: tl) (hp : prefixOK2 T p = true)
    (hps : Scalars p) (hs : Scalars l) (h : printPrefixedName T cs p l = some out)
    (hA : clash T .name A = false) (hex : env.expand p l = some i) :
    stepPOL C .eof x env c tl = polGo x (.iri i) A env := by
  obtain ⟨lo, rfl⟩ := pname_shape h
  have htext' : p ++ 0x3a :: (lo ++ A) = c :: tl := by simpa using htext
  have hns := prefix_head hp _ c tl htext'
  have hterm : polOfTerm x (termPName C .eof env (c :: tl)) = polGo x (.iri i) A env := by
    rw [← htext, termPName_print hT hC env cs p l _ i A hp hps hs h hA hex]; rfl
  have n1 := nameStart_ne hT2 hns (d := 0x3c) (by decide) (by decide)
  simp only [stepPOL, n1, if_false]
  by_cases ha : c = 0x61
  · subst ha
    cases p with
    | nil => simp at htext'
    | cons a p' =>
      simp only [List.cons_append, List.cons.injEq] at htext'
      obtain ⟨b, tl', hb, hcls⟩ := prefix_second hp (lo ++ A)
      rw [htext'.2] at hb
      subst hb
      have : C.isSpace b = false := hC.nsp b (second_solid hT2 hcls)
      simp only [if_true, this, Bool.not_false, hterm]
  · have hpb : (c = 0x3a ∨ C.pnBase c = true) := by
      rcases hns with h | h
      · exact Or.inl h
      · exact Or.inr (by rw [hC.pnb]; exact h.1)
    simp only [ha, if_false, hpb, if_true, hterm]

theorem polGo_eq (x : Ectx) (p : TtlDoc.T) (inp : List Nat) (env : Env) :
    polGo x p inp env = .ok { cur := some ⟨{ x with pred := some p }, .object⟩,
                              push := [⟨{ x with pred := some p }, .objListContinue⟩], inp := inp, env := env } := rfl

theorem fn_pol_of (x : Ectx) (env : Env) (c : Nat) (tl : List Nat) (p : TtlDoc.T) (A : List Nat) (req : Bool)
    (h : stepPOL C .eof x env c tl = polGo x p A env) :
    stepFn C .eof (if req then .polRequired else .pol) x env (.rune c tl) = polGo x p A env := by
  cases req
  · simp only [Bool.false_eq_true, if_false, stepFn, h]
  · simp only [if_true, stepFn, h, polGo_eq]
    rfl

include hT2 hC in
/-- `reader_scan_PredicateObjectList` when no verb follows (`.`, `]`, `}`, `;`): nothing happens -/
theorem fn_pol_pop (x : Ectx) (env : Env) (c : Nat) (tl : List Nat)
    (hc : c = 0x2e ∨ c = 0x5d ∨ c = 0x7d ∨ c = 0x3b) :
    stepFn C .eof .pol x env (.rune c tl) = .ok { inp := c :: tl, env := env } := by
  have hb : C.pnBase c = false := by
    rw [hC.pnb]
    rcases hc with h | h | h | h <;> subst h <;> exact pnB_delim hT2 (by decide)
  rcases hc with h | h | h | h <;> subst h <;> simp [stepFn, stepPOL, hb]

theorem fn_polContinue_semi (x : Ectx) (env : Env) (tl : List Nat) :
    stepFn C .eof .polContinue x env (.rune 0x3b tl) =
      .ok { cur := some ⟨x, .pol⟩, push := [⟨x, .polContinue⟩], inp := tl, env := env } := by
  simp [stepFn]

theorem fn_polContinue_pop (x : Ectx) (env : Env) (c : Nat) (tl : List Nat) (hc : c ≠ 0x3b) :
    stepFn C .eof .polContinue x env (.rune c tl) = .ok { inp := c :: tl, env := env } := by
  simp [stepFn, hc]

theorem fn_objListContinue_comma (x : Ectx) (env : Env) (tl : List Nat) :
    stepFn C .eof .objListContinue x env (.rune 0x2c tl) =
      .ok { cur := some ⟨x, .object⟩, push := [⟨x, .objListContinue⟩], inp := tl, env := env } := by
  simp [stepFn]

theorem fn_objListContinue_pop (x : Ectx) (env : Env) (c : Nat) (tl : List Nat) (hc : c ≠ 0x2c) :
    stepFn C .eof .objListContinue x env (.rune c tl) = .ok { inp := c :: tl, env := env } := by
  simp [stepFn, hc]

theorem fn_triplesEnd (x : Ectx) (env : Env) (tl : List Nat) :
    stepFn C .eof .triplesEnd x env (.rune 0x2e tl) = .ok { inp := tl, env := env } := by
  simp [stepFn]

theorem fn_bnplEnd (x : Ectx) (env : Env) (tl : List Nat) :
    stepFn C .eof .bnplEnd x env (.rune 0x5d tl) = .ok { inp := tl, env := env } := by
  simp [stepFn]

end pol

/-! ### keywords -/

section kw
variable {T : Tables} (hT : TablesOK T) (hT2 : TablesOK2 T) {C : Cfg} (hC : CfgOK T C)

theorem matchKw_kwCase (R : List Nat) : ∀ (u : List Nat) (n : Nat),
    matchKw (u.map (fun c => (c, c + 0x20))) (kwCase n u ++ R) = .ok R := by
  intro u
  induction u with
  | nil => intro n; rfl
  | cons a u ih =>
    intro n
    simp only [List.map_cons, kwCase, List.cons_append, matchKw]
    by_cases hn : n % 2 = 1
    · simp only [hn, if_true, or_true]; exact ih (n / 2)
    · simp only [hn, if_false, true_or, if_true]; exact ih (n / 2)

theorem matchKw_exact (R : List Nat) : ∀ (u : List Nat), matchKw (u.map (fun c => (c, c))) (u ++ R) = .ok R := by
  intro u
  induction u with
  | nil => rfl
  | cons a u ih => simp [matchKw, ih]

/-- the remaining runes of a prefix label, the colon, and whatever follows -/
def Namey (T : Tables) (l : List Nat) : Prop :=
  ∃ q R, l = q ++ 0x3a :: R ∧ ∀ a ∈ q, (inRanges T.pnChars a = true ∨ a = 0x2e) ∧ a ≠ 0x3a ∧ a ≠ 0x1680

include hT2 in
theorem namey_head {l : List Nat} (h : Namey T l) :
    ∃ b tl, l = b :: tl ∧ solid T b = true ∧ b ≠ 0x3c := by
  obtain ⟨q, R, rfl, hq⟩ := h
  cases q with
  | nil => exact ⟨0x3a, R, rfl, by simp [solid, delims, isWsRune], by decide⟩
  | cons b q' =>
    refine ⟨b, q' ++ 0x3a :: R, rfl, ?_, ?_⟩
    · rcases (hq b List.mem_cons_self).1 with h | h
      · exact solid_pn h (hq b List.mem_cons_self).2.2
      · subst h; simp [solid, delims, isWsRune]
    · intro hb
      subst hb
      rcases (hq _ List.mem_cons_self).1 with h | h
      · rw [pn_delim hT2 (by decide)] at h; exact Bool.noConfusion h
      · exact absurd h (by decide)

theorem matchKw_namey : ∀ (ks : List (Nat × Nat)) (l : List Nat), (∀ k ∈ ks, k.1 ≠ 0x3a ∧ k.2 ≠ 0x3a) → Namey T l →
    matchKw ks l = .mismatch ∨ ∃ l', matchKw ks l = .ok l' ∧ Namey T l' := by
  intro ks
  induction ks with
  | nil => intro l _ h; exact Or.inr ⟨l, rfl, h⟩
  | cons k ks ih =>
    intro l hk h
    obtain ⟨q, R, rfl, hq⟩ := h
    obtain ⟨u, lo⟩ := k
    cases q with
    | nil =>
      left
      have := hk (u, lo) List.mem_cons_self
      simp only [List.nil_append, matchKw]
      rw [if_neg (by intro hh; rcases hh with hh | hh; exact this.1 hh.symm; exact this.2 hh.symm)]
    | cons b q' =>
      simp only [List.cons_append, matchKw]
      split
      · exact ih _ (fun k' hk' => hk k' (List.mem_cons_of_mem _ hk')) ⟨q', R, rfl, fun a ha => hq a (List.mem_cons_of_mem _ ha)⟩
      · exact Or.inl rfl

theorem kwCI_ne (s : String) (h : ∀ c ∈ asc s, c ≠ 0x3a ∧ c + 0x20 ≠ 0x3a) : ∀ k ∈ kwCI s, k.1 ≠ 0x3a ∧ k.2 ≠ 0x3a := by
  intro k hk
  simp only [kwCI, List.mem_map] at hk
  obtain ⟨c, hc, rfl⟩ := hk
  exact h c hc

theorem namey_of_prefix {a : Nat} {p' : List Nat} (hp : prefixOK2 T (a :: p') = true) (R : List Nat) :
    Namey T (p' ++ 0x3a :: R) := by
  refine ⟨p', R, rfl, ?_⟩
  intro b hb
  have hm := prefixOK2_mem hp b (List.mem_cons_of_mem _ hb)
  have hp := prefixOK2_pre hp
  simp only [prefixOK, Bool.and_eq_true, List.all_eq_true, Bool.or_eq_true, decide_eq_true_eq, bne_iff_ne] at hp
  exact ⟨(hp.2 b hb).1, (hp.2 b hb).2, hm⟩

/-- `kwFallback` is what the subject branch for prefixed names does anyway -/
def pnameStart (C : Cfg) (x : Ectx) (env : Env) (c : Nat) (tl : List Nat) : FnRes :=
  if C.trig then labelOrSubject x (termPName C .eof env (c :: tl))
  else .ok { cur := some ⟨x, .subjPName⟩, push := [⟨x, .triplesEnd⟩], inp := c :: tl, env := env }

theorem kwFallback_eq (x : Ectx) (env : Env) (c : Nat) (tl : List Nat) :
    kwFallback C .eof x env (c :: tl) = pnameStart C x env c tl := rfl

include hT2 hC in
theorem stepKwBase_pname (x : Ectx) (env : Env) (c : Nat) (tl : List Nat) (h : Namey T tl) :
    stepKwBase C .eof x env c tl = pnameStart C x env c tl := by
  unfold stepKwBase
  rcases matchKw_namey (kwCI "ASE") tl (kwCI_ne "ASE" (by decide)) h with hm | ⟨l', hm, hn⟩
  · rw [hm]; rfl
  · rw [hm]
    obtain ⟨b, tl', rfl, hs, hb⟩ := namey_head hT2 hn
    simp only [hb, if_false, hC.nsp b hs, Bool.not_false, if_true]
    rfl

include hT2 hC in
theorem stepKwSpace_pname (x : Ectx) (env : Env) (s : String) (hs : ∀ c ∈ asc s, c ≠ 0x3a ∧ c + 0x20 ≠ 0x3a) (k : Cont)
    (c : Nat) (tl : List Nat) (h : Namey T tl) :
    stepKwSpace C .eof x env (kwCI s) k c tl = pnameStart C x env c tl := by
  unfold stepKwSpace
  rcases matchKw_namey (kwCI s) tl (kwCI_ne s hs) h with hm | ⟨l', hm, hn⟩
  · rw [hm]; rfl
  · rw [hm]
    obtain ⟨b, tl', rfl, hs, hb⟩ := namey_head hT2 hn
    simp only [hC.nsp b hs, Bool.not_false, if_true]
    rfl

include hT2 hC in
/-- the top-level scan function on a prefixed name, whatever letter it starts with -/
theorem stepStatementRune_pname (x : Ectx) (env : Env) {p : List Nat} (hp : prefixOK2 T p = true) (R : List Nat)
    (c : Nat) (tl : List Nat) (htext : p ++ 0x3a :: R = c :: tl) :
    stepStatementRune C .eof x env c tl = pnameStart C x env c tl := by
  have hns := prefix_head hp R c tl htext
  have n := fun d hd hne => nameStart_ne hT2 hns (d := d) hd hne
  obtain ⟨nd, nm, nu⟩ := nameStart_not_digit hT2 hns
  have hnamey : c ≠ 0x3a → Namey T tl := by
    intro hc
    cases p with
    | nil => simp at htext; exact absurd htext.1.symm hc
    | cons a p' =>
      simp only [List.cons_append, List.cons.injEq] at htext
      rw [← htext.2]
      exact namey_of_prefix hp R
  unfold stepStatementRune
  rw [if_neg (n 0x40 (by decide) (by decide))]
  split
  · next h => exact stepKwBase_pname hT2 hC x env c tl (hnamey (by rcases h with h | h <;> omega))
  · split
    · next h => exact stepKwSpace_pname hT2 hC x env "REFIX" (by decide) _ c tl (hnamey (by rcases h with h | h <;> omega))
    · split
      · next h => exact stepKwSpace_pname hT2 hC x env "RAPH" (by decide) _ c tl (hnamey (by rcases h.2 with h | h <;> omega))
      · rw [if_neg (by intro h; exact n 0x7b (by decide) (by decide) h.2)]
        have hpb : (c = 0x3a ∨ C.pnBase c = true) := by
          rcases hns with h | h
          · exact Or.inl h
          · exact Or.inr (by rw [hC.pnb]; exact h.1)
        simp only [stepSubjectStart, n 0x3c (by decide) (by decide), nu, n 0x5b (by decide) (by decide),
          n 0x28 (by decide) (by decide), if_false, hpb, if_true, pnameStart]

end kw

/-! ### statement level: subjects, directives, graph blocks -/

section top
variable {T : Tables} (hT : TablesOK T) (hT2 : TablesOK2 T) {C : Cfg} (hC : CfgOK T C)

theorem stepStatementRune_punct (x : Ectx) (env : Env) (c : Nat) (tl : List Nat)
    (hc : c = 0x3c ∨ c = 0x5f ∨ c = 0x5b ∨ c = 0x28) :
    stepStatementRune C .eof x env c tl = stepSubjectStart C .eof x env c tl := by
  rcases hc with h | h | h | h <;> subst h <;> simp [stepStatementRune]

/-- Turtle: `<`, `_` or a name start the subject token; `reader_scan_Triples_Subject_*` re-reads it -/
theorem fn_statement_ttl_iriref (htr : C.trig = false) (x : Ectx) (env : Env) (tl : List Nat) :
    stepFn C .eof .statement x env (.rune 0x3c tl) =
      .ok { cur := some ⟨x, .subjIRIREF⟩, push := [⟨x, .statement⟩, ⟨x, .triplesEnd⟩], inp := 0x3c :: tl, env := env } := by
  simp [stepFn, stepStatementRune_punct, stepSubjectStart, htr, withSelf]

theorem fn_statement_ttl_bnode (htr : C.trig = false) (x : Ectx) (env : Env) (tl : List Nat) :
    stepFn C .eof .statement x env (.rune 0x5f tl) =
      .ok { cur := some ⟨x, .subjBNode⟩, push := [⟨x, .statement⟩, ⟨x, .triplesEnd⟩], inp := 0x5f :: tl, env := env } := by
  simp [stepFn, stepStatementRune_punct, stepSubjectStart, htr, withSelf]

include hT2 hC in
theorem fn_statement_ttl_pname (htr : C.trig = false) (x : Ectx) (env : Env) {p : List Nat} (hp : prefixOK2 T p = true)
    (R : List Nat) (c : Nat) (tl : List Nat) (htext : p ++ 0x3a :: R = c :: tl) :
    stepFn C .eof .statement x env (.rune c tl) =
      .ok { cur := some ⟨x, .subjPName⟩, push := [⟨x, .statement⟩, ⟨x, .triplesEnd⟩], inp := c :: tl, env := env } := by
  simp [stepFn, stepStatementRune_pname hT2 hC x env hp R c tl htext, pnameStart, htr, withSelf]

theorem fn_statement_ttl_bracket (htr : C.trig = false) (x : Ectx) (env : Env) (tl : List Nat) :
    stepFn C .eof .statement x env (.rune 0x5b tl) =
      .ok { cur := some ⟨{ x with subj := some env.fresh.1 }, .subjAnonOrBNPL⟩, push := [⟨x, .statement⟩], inp := tl,
            env := env.fresh.2 } := by
  simp [stepFn, stepStatementRune_punct, stepSubjectStart, htr, withSelf]

theorem fn_statement_paren (x : Ectx) (env : Env) (tl : List Nat) :
    stepFn C .eof .statement x env (.rune 0x28 tl) =
      .ok { cur := some ⟨x, .parenTop env.fresh.1⟩, push := [⟨x, .statement⟩], inp := tl, env := env.fresh.2 } := by
  simp [stepFn, stepStatementRune_punct, stepSubjectStart, withSelf]

/-- TriG: the label-or-subject token is read at once -/
theorem fn_statement_trig_term (htr : C.trig = true) (x : Ectx) (env : Env) (c : Nat) (tl : List Nat) (t : TtlDoc.T) (A : List Nat)
    (env' : Env)
    (h : stepStatementRune C .eof x env c tl = labelOrSubject x (.ok t A env')) :
    stepFn C .eof .statement x env (.rune c tl) =
      .ok { cur := some ⟨x, .tgE1 t⟩, push := [⟨x, .statement⟩], inp := A, env := env' } := by
  simp [stepFn, h, labelOrSubject, withSelf]

include hT hC in
theorem stepStatementRune_trig_iriref (htr : C.trig = true) (x : Ectx) (env : Env) (cs : List Choice) (r i A : List Nat)
    (c : Nat) (tl : List Nat) (htext : printIRIREF cs r ++ A = c :: tl) (hs : Scalars r)
    (hres : resolveIRI C env r = some i) :
    stepStatementRune C .eof x env c tl = labelOrSubject x (.ok (.iri i) A env) := by
  have hc : c = 0x3c := by simp [printIRIREF] at htext; exact htext.1.symm
  subst hc
  rw [stepStatementRune_punct _ _ _ _ (Or.inl rfl)]
  simp only [stepSubjectStart, if_true, htr, ← htext, termIRIREF_print hT hC env cs r i A hs hres]

include hT hC in
theorem stepStatementRune_trig_bnode (htr : C.trig = true) (x : Ectx) (env : Env) (l A : List Nat) (hs : Scalars l)
    (hl : labelOK T l = true) (hA : clash T .label A = false) :
    stepStatementRune C .eof x env 0x5f (0x3a :: l ++ A) = labelOrSubject x (.ok (.bnode (.lbl l)) A env) := by
  rw [stepStatementRune_punct _ _ _ _ (Or.inr (Or.inl rfl))]
  have := termBNode_print hT hC env l A hs hl hA
  simp only [List.cons_append] at this
  simp [stepSubjectStart, htr, this]

include hT hT2 hC in
theorem stepStatementRune_trig_pname (htr : C.trig = true) (x : Ectx) (env : Env) (cs : List Choice) (p l out i A : List Nat)
    (c : Nat) (tl : List Nat) (htext : out ++ A = c :: tl) (hp : prefixOK2 T p = true)
    (hps : Scalars p) (hs : Scalars l) (h : printPrefixedName T cs p l = some out)
    (hA : clash T .name A = false) (hex : env.expand p l = some i) :
    stepStatementRune C .eof x env c tl = labelOrSubject x (.ok (.iri i) A env) := by
  obtain ⟨lo, rfl⟩ := pname_shape h
  have htext' : p ++ 0x3a :: (lo ++ A) = c :: tl := by simpa using htext
  rw [stepStatementRune_pname hT2 hC x env hp _ c tl htext']
  simp only [pnameStart, htr, if_true, ← htext, termPName_print hT hC env cs p l _ i A hp hps hs h hA hex]

theorem fn_statement_trig_bracket (htr : C.trig = true) (x : Ectx) (env : Env) (tl : List Nat) :
    stepFn C .eof .statement x env (.rune 0x5b tl) =
      .ok { cur := some ⟨x, .tgBracket env.fresh.1⟩, push := [⟨x, .statement⟩], inp := tl, env := env.fresh.2 } := by
  simp [stepFn, stepStatementRune_punct, stepSubjectStart, htr, withSelf]

theorem fn_statement_trig_brace (htr : C.trig = true) (x : Ectx) (env : Env) (tl : List Nat) :
    stepFn C .eof .statement x env (.rune 0x7b tl) =
      .ok { cur := some ⟨x, .triplesBlock⟩, push := [⟨x, .statement⟩, ⟨x, .wrappedGraphEnd⟩], inp := tl, env := env } := by
  simp [stepFn, stepStatementRune, htr, stepWrappedGraph, withSelf]

/-! subject frames -/

theorem subjectTail_eq (x : Ectx) (t : TtlDoc.T) (A : List Nat) (env : Env) :
    subjectTail x t A env = .ok { cur := some ⟨{ x with subj := some t }, .polRequired⟩,
                                  push := [⟨{ x with subj := some t }, .polContinue⟩], inp := A, env := env } := rfl

include hT hC in
theorem fn_subjIRIREF (x : Ectx) (env : Env) (cs : List Choice) (r i A : List Nat) (c : Nat) (tl : List Nat)
    (htext : printIRIREF cs r ++ A = c :: tl) (hs : Scalars r) (hres : resolveIRI C env r = some i) :
    stepFn C .eof .subjIRIREF x env (.rune c tl) = subjectTail x (.iri i) A env := by
  simp only [stepFn, ← htext, termIRIREF_print hT hC env cs r i A hs hres, subjectOf]

include hT hC in
theorem fn_subjPName (x : Ectx) (env : Env) (cs : List Choice) (p l out i A : List Nat) (c : Nat) (tl : List Nat)
    (htext : out ++ A = c :: tl) (hp : prefixOK2 T p = true)
    (hps : Scalars p) (hs : Scalars l) (h : printPrefixedName T cs p l = some out)
    (hA : clash T .name A = false) (hex : env.expand p l = some i) :
    stepFn C .eof .subjPName x env (.rune c tl) = subjectTail x (.iri i) A env := by
  simp only [stepFn, ← htext, termPName_print hT hC env cs p l out i A hp hps hs h hA hex, subjectOf]

include hT hC in
theorem fn_subjBNode (x : Ectx) (env : Env) (l A : List Nat) (hs : Scalars l) (hl : labelOK T l = true)
    (hA : clash T .label A = false) :
    stepFn C .eof .subjBNode x env (.rune 0x5f (0x3a :: l ++ A)) = subjectTail x (.bnode (.lbl l)) A env := by
  have := termBNode_print hT hC env l A hs hl hA
  simp only [List.cons_append] at this
  simp only [stepFn, List.cons_append, this, subjectOf]

theorem fn_subjAnon_close (x : Ectx) (env : Env) (tl : List Nat) :
    stepFn C .eof .subjAnonOrBNPL x env (.rune 0x5d tl) =
      .ok { cur := some ⟨x, .polRequired⟩, push := [⟨x, .triplesEnd⟩, ⟨x, .polContinue⟩], inp := tl, env := env } := by
  simp [stepFn]

theorem fn_parenTop_close (x : Ectx) (env : Env) (bn : TtlDoc.T) (tl : List Nat) :
    stepFn C .eof (.parenTop bn) x env (.rune 0x29 tl) =
      .ok { cur := some ⟨{ x with subj := some (.iri TtlDoc.rdfNil) }, .polRequired⟩,
            push := [⟨x, .triplesEnd⟩, ⟨{ x with subj := some (.iri TtlDoc.rdfNil) }, .polContinue⟩], inp := tl, env := env } := by
  simp [stepFn, stepParen, Arg.orNul]

theorem fn_parenBlock_close (x : Ectx) (env : Env) (bn : TtlDoc.T) (tl : List Nat) :
    stepFn C .eof (.parenBlock bn) x env (.rune 0x29 tl) =
      .ok { cur := some ⟨{ x with subj := some (.iri TtlDoc.rdfNil) }, .polRequired⟩,
            push := [⟨{ x with subj := some (.iri TtlDoc.rdfNil) }, .polContinue⟩], inp := tl, env := env } := by
  simp [stepFn, stepParen, Arg.orNul]

/-! TriG frames -/

theorem fn_tgE1_brace (x : Ectx) (env : Env) (v : TtlDoc.T) (tl : List Nat) :
    stepFn C .eof (.tgE1 v) x env (.rune 0x7b tl) =
      .ok { cur := some ⟨{ x with graph := some v }, .triplesBlock⟩,
            push := [⟨{ x with graph := some v }, .wrappedGraphEnd⟩], inp := tl, env := env } := by
  simp [stepFn, Arg.orNul]

theorem fn_tgE1_subj (x : Ectx) (env : Env) (v : TtlDoc.T) (hv : ∀ a b c, v ≠ .lit a b c) (c : Nat) (tl : List Nat)
    (hc : c ≠ 0x7b) :
    stepFn C .eof (.tgE1 v) x env (.rune c tl) =
      .ok { cur := some ⟨{ x with subj := some v }, .polRequired⟩,
            push := [⟨{ x with subj := some v }, .triplesEnd⟩, ⟨{ x with subj := some v }, .polContinue⟩],
            inp := c :: tl, env := env } := by
  cases v with
  | lit a b c' => exact absurd rfl (hv a b c')
  | iri i => simp [stepFn, Arg.orNul, hc]
  | bnode b => simp [stepFn, Arg.orNul, hc]

theorem fn_tgBracket_close (x : Ectx) (env : Env) (bn : TtlDoc.T) (tl : List Nat) :
    stepFn C .eof (.tgBracket bn) x env (.rune 0x5d tl) = .ok { cur := some ⟨x, .tgE1 bn⟩, inp := tl, env := env } := by
  simp [stepFn, Arg.orNul]

theorem fn_graphLabel_bracket (x : Ectx) (env : Env) (tl : List Nat) :
    stepFn C .eof .graphLabel x env (.rune 0x5b tl) = .ok { cur := some ⟨x, .graphAnonClose⟩, inp := tl, env := env } := by
  simp [stepFn]

theorem fn_graphAnonClose (x : Ectx) (env : Env) (tl : List Nat) :
    stepFn C .eof .graphAnonClose x env (.rune 0x5d tl) =
      .ok { cur := some ⟨{ x with graph := some env.fresh.1 }, .wrappedGraph⟩, inp := tl, env := env.fresh.2 } := by
  simp [stepFn, Arg.orNul]

theorem fn_graphLabel_term (x : Ectx) (env : Env) (c : Nat) (tl : List Nat) (hc : c ≠ 0x5b) (g : TtlDoc.T) (A : List Nat)
    (env' : Env)
    (h : (if c = 0x5f then termBNode C .eof env (c :: tl) else if c = 0x3c then termIRIREF C .eof env (c :: tl)
          else termPName C .eof env (c :: tl)) = .ok g A env') :
    stepFn C .eof .graphLabel x env (.rune c tl) =
      .ok { cur := some ⟨{ x with graph := some g }, .wrappedGraph⟩, inp := A, env := env' } := by
  simp only [stepFn, hc, if_false, h]

theorem fn_wrappedGraph (x : Ectx) (env : Env) (tl : List Nat) :
    stepFn C .eof .wrappedGraph x env (.rune 0x7b tl) =
      .ok { cur := some ⟨x, .triplesBlock⟩, push := [⟨x, .wrappedGraphEnd⟩], inp := tl, env := env } := by
  simp [stepFn, stepWrappedGraph]

theorem fn_wrappedGraphEnd (x : Ectx) (env : Env) (tl : List Nat) :
    stepFn C .eof .wrappedGraphEnd x env (.rune 0x7d tl) = .ok { inp := tl, env := env } := by
  simp [stepFn]

theorem fn_triplesBlock_close (x : Ectx) (env : Env) (tl : List Nat) :
    stepFn C .eof .triplesBlock x env (.rune 0x7d tl) = .ok { inp := 0x7d :: tl, env := env } := by
  simp [stepFn]

theorem fn_triplesBlock_open (x : Ectx) (env : Env) (c : Nat) (tl : List Nat) (hc : c ≠ 0x7d) :
    stepFn C .eof .triplesBlock x env (.rune c tl) =
      .ok { cur := some ⟨x, .triples⟩, push := [⟨x, .triplesBlockQuest⟩], inp := c :: tl, env := env } := by
  simp [stepFn, hc]

theorem fn_triplesBlockQuest_dot (x : Ectx) (env : Env) (tl : List Nat) :
    stepFn C .eof .triplesBlockQuest x env (.rune 0x2e tl) = .ok { cur := some ⟨x, .triplesBlock⟩, inp := tl, env := env } := by
  simp [stepFn]

theorem fn_triplesBlockQuest_close (x : Ectx) (env : Env) (tl : List Nat) :
    stepFn C .eof .triplesBlockQuest x env (.rune 0x7d tl) = .ok { inp := 0x7d :: tl, env := env } := by
  simp [stepFn]

theorem fn_triples_iriref (x : Ectx) (env : Env) (tl : List Nat) :
    stepFn C .eof .triples x env (.rune 0x3c tl) = .ok { cur := some ⟨x, .subjIRIREF⟩, inp := 0x3c :: tl, env := env } := by
  simp [stepFn, stepTriples]

theorem fn_triples_bnode (x : Ectx) (env : Env) (tl : List Nat) :
    stepFn C .eof .triples x env (.rune 0x5f tl) = .ok { cur := some ⟨x, .subjBNode⟩, inp := 0x5f :: tl, env := env } := by
  simp [stepFn, stepTriples]

theorem fn_triples_bracket (x : Ectx) (env : Env) (tl : List Nat) :
    stepFn C .eof .triples x env (.rune 0x5b tl) =
      .ok { cur := some ⟨{ x with subj := some env.fresh.1 }, .pol⟩,
            push := [⟨{ x with subj := some env.fresh.1 }, .polContinue⟩, ⟨{ x with subj := some env.fresh.1 }, .pol⟩,
                     ⟨{ x with subj := some env.fresh.1 }, .bnplEnd⟩, ⟨{ x with subj := some env.fresh.1 }, .polContinue⟩],
            inp := tl, env := env.fresh.2 } := by
  simp [stepFn, stepTriples]

theorem fn_triples_paren (x : Ectx) (env : Env) (tl : List Nat) :
    stepFn C .eof .triples x env (.rune 0x28 tl) =
      .ok { cur := some ⟨x, .parenBlock env.fresh.1⟩, inp := tl, env := env.fresh.2 } := by
  simp [stepFn, stepTriples]

include hT2 hC in
theorem fn_triples_pname (x : Ectx) (env : Env) {p : List Nat} (hp : prefixOK2 T p = true)
    (R : List Nat) (c : Nat) (tl : List Nat) (htext : p ++ 0x3a :: R = c :: tl) :
    stepFn C .eof .triples x env (.rune c tl) = .ok { cur := some ⟨x, .subjPName⟩, inp := c :: tl, env := env } := by
  have hns := prefix_head hp R c tl htext
  have n := fun d hd hne => nameStart_ne hT2 hns (d := d) hd hne
  obtain ⟨nd, nm, nu⟩ := nameStart_not_digit hT2 hns
  have hpb : (c = 0x3a ∨ C.pnBase c = true) := by
    rcases hns with h | h
    · exact Or.inl h
    · exact Or.inr (by rw [hC.pnb]; exact h.1)
  simp only [stepFn, stepTriples, n 0x3c (by decide) (by decide), nu, n 0x5b (by decide) (by decide),
    n 0x28 (by decide) (by decide), if_false, hpb, if_true]

/-! directives -/

theorem asc_atprefix : asc "@prefix" = 0x40 :: 0x70 :: asc "refix" := by decide
theorem asc_atbase : asc "@base" = 0x40 :: 0x62 :: asc "ase" := by decide

theorem kwExact_eq (s : String) : kwExact s = (asc s).map (fun c => (c, c)) := rfl

theorem fn_statement_atprefix (x : Ectx) (env : Env) (A : List Nat) :
    stepFn C .eof .statement x env (.rune 0x40 (0x70 :: (asc "refix" ++ A))) =
      .ok { cur := some ⟨x, .atPrefixNS⟩, push := [⟨x, .statement⟩], inp := A, env := env } := by
  simp [stepFn, stepStatementRune, stepAtDirective, kwExact_eq, matchKw_exact, withSelf]

theorem fn_statement_atbase (x : Ectx) (env : Env) (A : List Nat) :
    stepFn C .eof .statement x env (.rune 0x40 (0x62 :: (asc "ase" ++ A))) =
      .ok { cur := some ⟨x, .atBaseIRI⟩, push := [⟨x, .statement⟩], inp := A, env := env } := by
  simp [stepFn, stepStatementRune, stepAtDirective, kwExact_eq, matchKw_exact, withSelf]

include hT hC in
theorem pnameNS_print (p A : List Nat) (hp : prefixOK2 T p = true) (hps : Scalars p) :
    C.P.pnameNS .eof (p ++ 0x3a :: A) = .ok p A := by
  rw [hC.prod]; exact decode_print_pname_ns T .eof p A (prefixOK2_pre hp) hps

include hT hC in
theorem fn_prefixNS (at_ : Bool) (x : Ectx) (env : Env) (p A : List Nat) (c : Nat) (tl : List Nat)
    (htext : p ++ 0x3a :: A = c :: tl) (hp : prefixOK2 T p = true) (hps : Scalars p) :
    stepFn C .eof (if at_ then .atPrefixNS else .sparqlPrefixNS) x env (.rune c tl) =
      .ok { cur := some ⟨x, if at_ then .atPrefixIRI p else .sparqlPrefixIRI p⟩, inp := A, env := env } := by
  cases at_ <;> simp [stepFn, ← htext, pnameNS_print hT hC p A hp hps]

include hT hC in
theorem iriref_print (cs : List Choice) (r A : List Nat) (hs : Scalars r) :
    C.P.iriref .eof (printIRIREF cs r ++ A) = .ok r A := by
  rw [hC.prod]; exact decode_print_iriref T hT .eof cs r hs A

include hT hC in
theorem fn_atPrefixIRI (x : Ectx) (env : Env) (ns : List Nat) (cs : List Choice) (r b A : List Nat) (c : Nat) (tl : List Nat)
    (htext : printIRIREF cs r ++ A = c :: tl) (hs : Scalars r) (hres : resolveURL C env r = some b) :
    stepFn C .eof (.atPrefixIRI ns) x env (.rune c tl) = .ok { cur := some ⟨x, .atPrefixDot ns b⟩, inp := A, env := env } := by
  simp [stepFn, ← htext, iriref_print hT hC cs r A hs, hres]

include hT hC in
theorem fn_sparqlPrefixIRI (x : Ectx) (env : Env) (ns : List Nat) (cs : List Choice) (r b A : List Nat) (c : Nat) (tl : List Nat)
    (htext : printIRIREF cs r ++ A = c :: tl) (hs : Scalars r) (hres : resolveURL C env r = some b) :
    stepFn C .eof (.sparqlPrefixIRI ns) x env (.rune c tl) =
      .ok { cur := some ⟨x, .statement⟩, inp := A, env := env.addPrefix ns b } := by
  simp [stepFn, ← htext, iriref_print hT hC cs r A hs, hres]

theorem fn_atPrefixDot (x : Ectx) (env : Env) (ns b : List Nat) (tl : List Nat) :
    stepFn C .eof (.atPrefixDot ns b) x env (.rune 0x2e tl) =
      .ok { cur := some ⟨x, .statement⟩, inp := tl, env := env.addPrefix ns b } := by
  simp [stepFn]

include hT hC in
theorem fn_atBaseIRI (x : Ectx) (env : Env) (cs : List Choice) (r b A : List Nat) (c : Nat) (tl : List Nat)
    (htext : printIRIREF cs r ++ A = c :: tl) (hs : Scalars r) (hres : resolveURL C env r = some b) :
    stepFn C .eof .atBaseIRI x env (.rune c tl) = .ok { cur := some ⟨x, .atBaseDot b⟩, inp := A, env := env } := by
  simp [stepFn, ← htext, iriref_print hT hC cs r A hs, hres]

include hT hC in
theorem fn_sparqlBaseIRI (x : Ectx) (env : Env) (cs : List Choice) (r b A : List Nat) (c : Nat) (tl : List Nat)
    (htext : printIRIREF cs r ++ A = c :: tl) (hs : Scalars r) (hres : resolveURL C env r = some b) :
    stepFn C .eof .sparqlBaseIRI x env (.rune c tl) =
      .ok { cur := some ⟨x, .statement⟩, inp := A, env := { env with base := some b } } := by
  simp [stepFn, ← htext, iriref_print hT hC cs r A hs, hres]

theorem fn_atBaseDot (x : Ectx) (env : Env) (b : List Nat) (tl : List Nat) :
    stepFn C .eof (.atBaseDot b) x env (.rune 0x2e tl) =
      .ok { cur := some ⟨x, .statement⟩, inp := tl, env := { env with base := some b } } := by
  simp [stepFn]

theorem kwCI_eq (s : String) : kwCI s = (asc s).map (fun c => (c, c + 0x20)) := rfl

theorem asc_PREFIX : asc "PREFIX" = 0x50 :: asc "REFIX" := by decide
theorem asc_BASE : asc "BASE" = 0x42 :: asc "ASE" := by decide
theorem asc_GRAPH : asc "GRAPH" = 0x47 :: asc "RAPH" := by decide

include hC in
/-- `PREFIX` in any case, then a white-space character -/
theorem fn_statement_PREFIX (x : Ectx) (env : Env) (n : Nat) (w : Nat) (A : List Nat) (hw : isWsRune w = true)
    (c : Nat) (tl : List Nat) (htext : kwCase n (asc "PREFIX") ++ w :: A = c :: tl) :
    stepFn C .eof .statement x env (.rune c tl) =
      .ok { cur := some ⟨x, .sparqlPrefixNS⟩, push := [⟨x, .statement⟩], inp := A, env := env } := by
  rw [asc_PREFIX] at htext
  simp only [kwCase, List.cons_append, List.cons.injEq] at htext
  obtain ⟨hc, rfl⟩ := htext
  have hcc : c = 0x50 ∨ c = 0x70 := by by_cases hn : n % 2 = 1 <;> simp [hn] at hc <;> omega
  have h40 : c ≠ 0x40 := by omega
  have hb : ¬(c = 0x42 ∨ c = 0x62) := by omega
  simp only [stepFn, stepStatementRune, h40, hb, hcc, if_false, if_true, stepKwSpace, kwCI_eq, matchKw_kwCase,
    hC.ws w hw, Bool.not_true, Bool.false_eq_true, withSelf]

include hC in
theorem fn_statement_GRAPH (htr : C.trig = true) (x : Ectx) (env : Env) (n : Nat) (w : Nat) (A : List Nat) (hw : isWsRune w = true)
    (c : Nat) (tl : List Nat) (htext : kwCase n (asc "GRAPH") ++ w :: A = c :: tl) :
    stepFn C .eof .statement x env (.rune c tl) =
      .ok { cur := some ⟨x, .graphLabel⟩, push := [⟨x, .statement⟩], inp := A, env := env } := by
  rw [asc_GRAPH] at htext
  simp only [kwCase, List.cons_append, List.cons.injEq] at htext
  obtain ⟨hc, rfl⟩ := htext
  have hcc : c = 0x47 ∨ c = 0x67 := by by_cases hn : n % 2 = 1 <;> simp [hn] at hc <;> omega
  have h40 : c ≠ 0x40 := by omega
  have hb : ¬(c = 0x42 ∨ c = 0x62) := by omega
  have hp : ¬(c = 0x50 ∨ c = 0x70) := by omega
  simp only [stepFn, stepStatementRune, h40, hb, hp, htr, hcc, if_false, if_true, true_and, stepKwSpace, kwCI_eq,
    matchKw_kwCase, hC.ws w hw, Bool.not_true, Bool.false_eq_true, withSelf]

include hC in
/-- `BASE` in any case, then a white-space character (consumed) or directly `<` (left in the buffer) -/
theorem fn_statement_BASE (x : Ectx) (env : Env) (n : Nat) (w : Nat) (A : List Nat) (hw : isWsRune w = true ∨ w = 0x3c)
    (c : Nat) (tl : List Nat) (htext : kwCase n (asc "BASE") ++ w :: A = c :: tl) :
    stepFn C .eof .statement x env (.rune c tl) =
      .ok { cur := some ⟨x, .sparqlBaseIRI⟩, push := [⟨x, .statement⟩], inp := if w = 0x3c then w :: A else A, env := env } := by
  rw [asc_BASE] at htext
  simp only [kwCase, List.cons_append, List.cons.injEq] at htext
  obtain ⟨hc, rfl⟩ := htext
  have hcc : c = 0x42 ∨ c = 0x62 := by by_cases hn : n % 2 = 1 <;> simp [hn] at hc <;> omega
  have h40 : c ≠ 0x40 := by omega
  simp only [stepFn, stepStatementRune, h40, hcc, if_false, if_true, stepKwBase, kwCI_eq, matchKw_kwCase]
  by_cases hlt : w = 0x3c
  · simp [hlt, withSelf]
  · rcases hw with hw | hw
    · simp [hlt, hC.ws w hw, withSelf]
    · exact absurd hw hlt

end top

end RdfModel.C08
