/-
  Proofs.C16Err — error offsets stay inside the document (repaired code, `legacy = false`): whatever
  offset a failing scanner attaches to its error refers to a byte position at most `B`, where `B`
  bounds the buffer offset plus the unread input and, with a writer, the committed plus pending
  plus unread bytes.
-/
import RdfModel.Proofs.C16Spec
namespace RdfModel.Proofs.C16
open RdfModel RdfModel.NQ RdfModel.TW RdfModel.NQO RdfModel.C16

/-- Everything the scanner can still refer to lies below `B`: the buffer offset plus the unread
    input, and (with a writer) the committed bytes plus the pending bytes plus the unread input. -/
def ErrInv (B : Nat) (s : S) (pend : Nat) (inp : List RP) : Prop :=
  s.bo + size inp ≤ B ∧ ∀ d, s.doc = some d → size (histRunes d) + pend + size inp ≤ B

theorem offErr_bound {B : Nat} {s : S} {unc : Chunk} {ign pend : Nat} {inp : List RP}
    (h : ErrInv B s pend inp) (hu : size unc ≤ pend) : EOff.bound (s.offErr unc ign) ≤ B := by
  obtain ⟨h1, h2⟩ := h
  unfold S.offErr
  split
  · simp only [EOff.bound]; omega
  · next d hd => have := h2 d hd; simp only [EOff.bound]; omega

theorem ErrInv.read_pend {B : Nat} {s : S} {pend : Nat} {r : RP} {rest : List RP}
    (h : ErrInv B s pend (r :: rest)) : ErrInv B (s.read r) (pend + r.2) rest := by
  obtain ⟨h1, h2⟩ := h
  exact ⟨by simp at h1 ⊢; omega, fun d hd => by have := h2 d (by simpa using hd); simp at this ⊢; omega⟩

theorem ErrInv.read_commit {B : Nat} {s : S} {pend : Nat} {r : RP} {rest : List RP} {c : Chunk}
    (h : ErrInv B s pend (r :: rest)) (hc : size c = pend + r.2) :
    ErrInv B ((s.read r).commit c) 0 rest := by
  obtain ⟨h1, h2⟩ := h
  refine ⟨by simp at h1 ⊢; omega, fun d hd => ?_⟩
  simp only [commit_doc, read_doc, Option.map_eq_some_iff] at hd
  obtain ⟨d0, hd0, rfl⟩ := hd
  have := h2 d0 hd0
  simp at this ⊢; omega

theorem ErrInv.weaken {B : Nat} {s : S} {pend pend' : Nat} {inp : List RP}
    (h : ErrInv B s pend inp) (hp : pend' ≤ pend) : ErrInv B s pend' inp :=
  ⟨h.1, fun d hd => by have := h.2 d hd; omega⟩

theorem ErrInv.cast {B : Nat} {s : S} {pend pend' : Nat} {inp : List RP}
    (h : ErrInv B s pend inp) (hp : pend' = pend) : ErrInv B s pend' inp := hp ▸ h

/-- side conditions about sizes -/
macro "sz" : tactic => `(tactic| first | (simp; done) | (simp; omega) | omega)

theorem scanIRI_err (T : Tables) (e : End) (st : SState) (s : S) (inp : List RP) (acc : List Nat)
    (unc : Chunk) (x : EClass) (off : EOff) (B : Nat)
    (h : NQO.scanIRI T e st s inp acc unc = .err x off) (hi : ErrInv B s (size unc) inp) :
    EOff.bound off ≤ B := by
  fun_induction NQO.scanIRI T e st s inp acc unc
  all_goals (try (rename_i ih; exact ih h (by simpa [Nat.add_comm] using hi.read_pend); done))
  all_goals (try (simp at h; done))
  all_goals (
    simp only [RO.err.injEq] at h
    obtain ⟨_, rfl⟩ := h
    first
      | exact Nat.zero_le _
      | exact offErr_bound hi (by simp)
      | exact offErr_bound hi.read_pend (by simp))

theorem scanLit_err (T : Tables) (e : End) (st : SState) (s : S) (inp : List RP) (acc : List Nat)
    (unc : Chunk) (x : EClass) (off : EOff) (B : Nat)
    (h : NQO.scanLit T e st s inp acc unc = .err x off) (hi : ErrInv B s (size unc) inp) :
    EOff.bound off ≤ B := by
  fun_induction NQO.scanLit T e st s inp acc unc
  all_goals (try (rename_i ih; exact ih h (by simpa [Nat.add_comm] using hi.read_pend); done))
  all_goals (try (simp at h; done))
  all_goals (
    simp only [RO.err.injEq] at h
    obtain ⟨_, rfl⟩ := h
    first
      | exact Nat.zero_le _
      | exact offErr_bound hi (by simp)
      | exact offErr_bound hi.read_pend (by simp))

theorem captureIRI_err (T : Tables) (urlOk : List Nat → Bool) (e : End) (s : S) (op : RP)
    (inp : List RP) (x : EClass) (off : EOff) (B : Nat)
    (h : NQO.captureIRI T urlOk e s op inp = .err x off) (hi : ErrInv B s op.2 inp) :
    EOff.bound off ≤ B := by
  unfold NQO.captureIRI at h
  split at h
  · next c o hs =>
    simp only [RO.err.injEq] at h
    obtain ⟨_, rfl⟩ := h
    exact scanIRI_err T e _ _ _ _ _ _ _ B hs (by simpa using hi)
  · next w s1 rest1 hs =>
    obtain ⟨body, h1, h2, h3, h4, h5, h6⟩ := scanIRI_spec T e _ _ _ _ _ _ _ _ hs
    simp only at h
    split at h
    · simp at h
    · simp only [RO.err.injEq] at h
      obtain ⟨_, rfl⟩ := h
      cases hd : s.doc with
      | none => simp [range_def, h3, hd, rangeErr, EOff.bound]
      | some d =>
        have := hi.2 d hd
        simp [range_def, h3, hd, rangeErr, EOff.bound, h2]
        simp [h1] at this; omega

theorem langSecondary_err (e : End) (a0 : RP) (s : S) (inp : List RP) (tagRev : Chunk)
    (x : EClass) (off : EOff) (B : Nat)
    (h : NQO.langSecondary e a0 s inp tagRev = .err x off)
    (hi : ErrInv B s (a0.2 + size tagRev) inp) : EOff.bound off ≤ B := by
  fun_induction NQO.langSecondary e a0 s inp tagRev
  all_goals (try (rename_i ih; exact ih h (hi.read_pend.cast (by sz)); done))
  all_goals (try (simp [NQO.langFinish] at h; done))
  all_goals (
    simp only [RO.err.injEq] at h
    obtain ⟨_, rfl⟩ := h
    first
      | exact offErr_bound hi (by sz)
      | exact offErr_bound hi.read_pend (by sz))

theorem langPrimary_err (e : End) (a0 : RP) (s : S) (inp : List RP) (tagRev : Chunk)
    (x : EClass) (off : EOff) (B : Nat)
    (h : NQO.langPrimary e a0 s inp tagRev = .err x off)
    (hi : ErrInv B s (a0.2 + size tagRev) inp) : EOff.bound off ≤ B := by
  fun_induction NQO.langPrimary e a0 s inp tagRev
  all_goals (try (rename_i ih; exact ih h (hi.read_pend.cast (by sz)); done))
  all_goals (try (simp [NQO.langFinish] at h; done))
  all_goals (try (exact langSecondary_err e a0 _ _ _ _ _ B h (hi.read_pend.cast (by sz)); done))
  all_goals (
    simp only [RO.err.injEq] at h
    obtain ⟨_, rfl⟩ := h
    first
      | exact offErr_bound hi (by sz)
      | exact offErr_bound hi.read_pend (by sz))

theorem bnFinish_err (T : Tables) (s : S) (p labRev : Chunk) (rest : List RP) (x : EClass) (off : EOff)
    (B : Nat) (h : NQO.bnFinish T s p labRev rest = .err x off)
    (hi : ErrInv B s (size p + size labRev) rest) : EOff.bound off ≤ B := by
  have hu : ∀ l, ErrInv B (s.unread l) (size p + size labRev) rest :=
    fun l => ⟨by have := hi.1; simp; omega, fun d hd => hi.2 d (by simpa using hd)⟩
  unfold NQO.bnFinish at h
  repeat' split at h
  all_goals (try (simp at h; done))
  all_goals (
    simp only [RO.err.injEq] at h
    obtain ⟨_, rfl⟩ := h
    first
      | exact Nat.zero_le _
      | exact offErr_bound hi (by sz)
      | exact offErr_bound (hu _) (by sz))

theorem bnLoop_err (T : Tables) (e : End) (p : Chunk) (s : S) (inp : List RP) (labRev : Chunk)
    (x : EClass) (off : EOff) (B : Nat) (h : NQO.bnLoop T e p s inp labRev = .err x off)
    (hi : ErrInv B s (size p + size labRev) inp) : EOff.bound off ≤ B := by
  fun_induction NQO.bnLoop T e p s inp labRev
  · simp only [RO.err.injEq] at h
    obtain ⟨_, rfl⟩ := h
    exact offErr_bound hi (by sz)
  · rename_i ih
    exact ih h (hi.read_pend.cast (by sz))
  · exact bnFinish_err T _ _ _ _ _ _ B h hi

theorem captureBNode_err (T : Tables) (e : End) (s : S) (p : Chunk) (inp : List RP) (x : EClass)
    (off : EOff) (B : Nat) (h : NQO.captureBNode T e s p inp = .err x off)
    (hi : ErrInv B s (size p) inp) : EOff.bound off ≤ B := by
  cases inp with
  | nil =>
    simp only [NQO.captureBNode, RO.err.injEq] at h
    obtain ⟨_, rfl⟩ := h
    exact offErr_bound hi (by sz)
  | cons r rest =>
    simp only [NQO.captureBNode] at h
    split at h
    · exact bnLoop_err T e p _ _ _ _ _ B h (hi.read_pend.cast (by sz))
    · simp only [RO.err.injEq] at h
      obtain ⟨_, rfl⟩ := h
      exact offErr_bound hi.read_pend (by sz)

theorem rangeErr_bound {B : Nat} {s : S} {op : RP} {body rest : List RP}
    (hi : ErrInv B s op.2 (body ++ rest)) :
    EOff.bound (rangeErr (s.doc.map (fun d => (d, (op :: body) :: d)))) ≤ B := by
  cases hd : s.doc with
  | none => simp [rangeErr, EOff.bound]
  | some d =>
    have := hi.2 d hd
    simp [rangeErr, EOff.bound]
    simp at this; omega

theorem captureLiteral_err (T : Tables) (urlOk : List Nat → Bool) (e : End) (s : S) (q : RP)
    (inp : List RP) (x : EClass) (off : EOff) (B : Nat)
    (h : NQO.captureLiteral T urlOk e false s q inp = .err x off) (hi : ErrInv B s q.2 inp) :
    EOff.bound off ≤ B := by
  unfold NQO.captureLiteral at h
  split at h
  · next c o hs =>
    simp only [RO.err.injEq] at h
    obtain ⟨_, rfl⟩ := h
    exact scanLit_err T e _ _ _ _ _ _ _ B hs (by simpa using hi)
  · next w s1 rest1 hs =>
    obtain ⟨body, h1, h2, h3, h4, h5, h6⟩ := scanLit_spec T e _ _ _ _ _ _ _ _ hs
    simp only [List.reverse_cons, List.reverse_nil, List.nil_append, List.singleton_append] at h2
    have hi2 : ErrInv B (s1.commit w.2) 0 rest1 := by
      obtain ⟨i1, i2⟩ := hi
      refine ⟨by simp [h4]; simp [h1] at i1; omega, fun d hd => ?_⟩
      simp only [commit_doc, h3, Option.map_eq_some_iff] at hd
      obtain ⟨d0, hd0, rfl⟩ := hd
      have := i2 d0 hd0
      simp [h2]; simp [h1] at this; omega
    simp only [Bool.false_eq_true, if_false, List.nil_append] at h
    split at h
    · split at h
      · simp at h
      · simp only [RO.err.injEq] at h
        obtain ⟨_, rfl⟩ := h
        exact offErr_bound hi2 (by sz)
    · next r0 rest0 =>
      split at h
      · split at h
        · simp at h
        · next c o hl =>
          simp only [RO.err.injEq] at h
          obtain ⟨_, rfl⟩ := h
          exact langPrimary_err e r0 _ _ _ _ _ B hl (hi2.read_pend.cast (by sz))
      · split at h
        · split at h
          · simp only [RO.err.injEq] at h
            obtain ⟨_, rfl⟩ := h
            exact offErr_bound hi2.read_pend (by sz)
          · next r1 rest1' =>
            split at h
            · simp only [RO.err.injEq] at h
              obtain ⟨_, rfl⟩ := h
              exact offErr_bound hi2.read_pend.read_pend (by sz)
            · have hi5 : ErrInv B (((s1.commit w.2).read r0).read r1 |>.commit [r0, r1]) 0 rest1' :=
                hi2.read_pend.read_commit (by sz)
              split at h
              · simp only [RO.err.injEq] at h
                obtain ⟨_, rfl⟩ := h
                exact offErr_bound hi5 (by sz)
              · next r2 rest2 =>
                split at h
                · simp only [RO.err.injEq] at h
                  obtain ⟨_, rfl⟩ := h
                  exact offErr_bound hi5.read_pend (by sz)
                · split at h
                  · next dv s7 r hc =>
                    obtain ⟨ib, g1, g2, g3, g4, g5, g6⟩ := captureIRI_spec T urlOk e _ _ _ _ _ _ hc
                    split at h
                    · simp only [RO.err.injEq] at h
                      obtain ⟨_, rfl⟩ := h
                      rw [g2]
                      exact rangeErr_bound (by rw [← g1]; exact hi5.read_pend.cast (by sz))
                    · simp at h
                  · next c o hc =>
                    simp only [RO.err.injEq] at h
                    obtain ⟨_, rfl⟩ := h
                    exact captureIRI_err T urlOk e _ _ _ _ _ B hc (hi5.read_pend.cast (by sz))
        · simp at h

theorem captureTerm_err (T : Tables) (urlOk : List Nat → Bool) (e : End) (pos : Pos)
    (cm : Option Chunk) (s : S) (inp : List RP) (x : EClass) (off : EOff) (B : Nat)
    (h : NQO.captureTerm T urlOk e false pos cm s inp = .err x off)
    (hi : ErrInv B s (size (pendOf cm)) inp) : EOff.bound off ≤ B := by
  fun_induction NQO.captureTerm T urlOk e false pos cm s inp
  all_goals (try (
    rename_i ih
    first
      | exact ih h (hi.read_pend.cast (by sz))
      | exact ih h (hi.read_commit (by sz))))
  all_goals (try (simp at h; done))
  all_goals (try (
    simp only [RO.err.injEq] at h
    obtain ⟨_, rfl⟩ := h
    first
      | exact Nat.zero_le _
      | exact offErr_bound hi (by sz)
      | exact offErr_bound hi.read_pend (by sz)
      | exact offErr_bound hi.read_pend.read_pend (by sz)))
  · rename_i s r rest0 hr c o hc
    simp only [RO.err.injEq] at h
    obtain ⟨_, rfl⟩ := h
    exact captureIRI_err T urlOk e _ _ _ _ _ B hc (hi.read_pend.cast (by sz))
  · rename_i s r hr hb r1 rest1 h1 c o hc
    simp only [RO.err.injEq] at h
    obtain ⟨_, rfl⟩ := h
    exact captureBNode_err T e _ _ _ _ _ B hc (hi.read_pend.read_pend.cast (by sz))
  · exact captureLiteral_err T urlOk e _ _ _ _ _ B h (hi.read_pend.cast (by sz))

theorem afterObject_err (T : Tables) (e : End) (cm : Option Chunk) (s : S) (inp : List RP)
    (x : EClass) (off : EOff) (B : Nat) (h : NQO.afterObject T e cm s inp = .err x off)
    (hi : ErrInv B s (size (pendOf cm)) inp) : EOff.bound off ≤ B := by
  fun_induction NQO.afterObject T e cm s inp
  all_goals (try (
    rename_i ih
    first
      | exact ih h (hi.read_pend.cast (by sz))
      | exact ih h (hi.read_commit (by sz))))
  all_goals (try (simp at h; done))
  all_goals (
    simp only [RO.err.injEq] at h
    obtain ⟨_, rfl⟩ := h
    first
      | exact Nat.zero_le _
      | exact offErr_bound hi (by sz)
      | exact offErr_bound hi.read_pend (by sz))

theorem expectDot_err (T : Tables) (e : End) (cm : Option Chunk) (s : S) (inp : List RP)
    (x : EClass) (off : EOff) (B : Nat) (h : NQO.expectDot T e cm s inp = .err x off)
    (hi : ErrInv B s (size (pendOf cm)) inp) : EOff.bound off ≤ B := by
  fun_induction NQO.expectDot T e cm s inp
  all_goals (try (
    rename_i ih
    first
      | exact ih h (hi.read_pend.cast (by sz))
      | exact ih h (hi.read_commit (by sz))))
  all_goals (try (simp at h; done))
  all_goals (
    simp only [RO.err.injEq] at h
    obtain ⟨_, rfl⟩ := h
    first
      | exact Nat.zero_le _
      | exact offErr_bound hi (by sz)
      | exact offErr_bound hi.read_pend (by sz))

theorem toEOL_fail (T : Tables) (e : End) (cm : Option Chunk) (s : S) (inp : List RP)
    (x : EClass) (off : EOff) (B : Nat) (h : NQO.toEOL T e cm s inp = .fail x off)
    (hi : ErrInv B s (size (pendOf cm)) inp) : EOff.bound off ≤ B := by
  fun_induction NQO.toEOL T e cm s inp
  all_goals (try (
    rename_i ih
    first
      | exact ih h (hi.read_pend.cast (by sz))
      | exact ih h (hi.read_commit (by sz))))
  all_goals (try (simp at h; done))
  all_goals (
    simp only [NQO.EolRes.fail.injEq] at h
    obtain ⟨_, rfl⟩ := h
    first
      | exact offErr_bound hi (by sz)
      | exact offErr_bound hi.read_pend (by sz))

theorem errInv_of_disc {input : List RP} {s : S} {inp : List RP} (h : Disc input s inp) :
    ErrInv (size input) s 0 inp := by
  obtain ⟨h1, h2⟩ := h
  refine ⟨by omega, fun d hd => ?_⟩
  have := congrArg size (h2 d hd)
  simp at this; omega

theorem skipToStmt_ended_inv (T : Tables) (e : End) (cm : Option Chunk) (s : S) (inp : List RP)
    (s' : S) (B : Nat) (h : NQO.skipToStmt T e cm s inp = .ended s')
    (hi : ErrInv B s (size (pendOf cm)) inp) : ErrInv B s' 0 [] := by
  fun_induction NQO.skipToStmt T e cm s inp
  all_goals (try (
    rename_i ih
    first
      | exact ih h (hi.read_pend.cast (by sz))
      | exact ih h (hi.read_commit (by sz))))
  all_goals (try (simp at h; done))
  · simp only [NQO.SkipRes.ended.injEq] at h
    subst h; simpa using hi
  · rename_i cm s
    simp only [NQO.SkipRes.ended.injEq] at h
    subst h
    obtain ⟨i1, i2⟩ := hi
    cases e with
    | ioerr => exact ⟨i1, fun d hd => by have := i2 d hd; omega⟩
    | eof =>
      refine ⟨i1, fun d hd => ?_⟩
      simp only [commit_doc, Option.map_eq_some_iff] at hd
      obtain ⟨d0, hd0, rfl⟩ := hd
      have := i2 d0 hd0
      simp at this ⊢; omega

theorem statement_fail (T : Tables) (urlOk : List Nat → Bool) (e : End) (quads : Bool) (s : S)
    (inp : List RP) (x : EClass) (off : EOff) (input : List RP)
    (h : NQO.statement T urlOk e false quads s inp = .fail x off) (hd : Disc input s inp) :
    EOff.bound off ≤ size input := by
  unfold NQO.statement at h
  split at h
  · next s0 hsk =>
    have hi0 := skipToStmt_ended_inv T e none s inp s0 (size input) hsk (by simpa using (errInv_of_disc hd))
    split at h
    · simp at h
    · simp only [NQO.Step.fail.injEq] at h
      obtain ⟨_, rfl⟩ := h
      exact offErr_bound hi0 (by sz)
  · next s0 inp0 hsk =>
    obtain ⟨d0, c0⟩ := (skipToStmt_stmt T e none s inp s0 inp0 hsk).disc hd rfl
    split at h
    · next c o h1 =>
      simp only [NQO.Step.fail.injEq] at h
      obtain ⟨_, rfl⟩ := h
      exact captureTerm_err T urlOk e _ none _ _ _ _ _ h1 (by simpa using (errInv_of_disc d0))
    · next sv s1 r1 h1 =>
      obtain ⟨d1, c1, _⟩ := captureTerm_disc T urlOk e false _ _ _ _ _ _ input _ h1 d0 c0
      split at h
      · next c o h2 =>
        simp only [NQO.Step.fail.injEq] at h
        obtain ⟨_, rfl⟩ := h
        exact captureTerm_err T urlOk e _ none _ _ _ _ _ h2 (by simpa using (errInv_of_disc d1))
      · next pv s2 r2 h2 =>
        obtain ⟨d2, c2, _⟩ := captureTerm_disc T urlOk e false _ _ _ _ _ _ input _ h2 d1 c1
        split at h
        · next c o h3 =>
          simp only [NQO.Step.fail.injEq] at h
          obtain ⟨_, rfl⟩ := h
          exact captureTerm_err T urlOk e _ none _ _ _ _ _ h3 (by simpa using (errInv_of_disc d2))
        · next ov s3 r3 h3 =>
          obtain ⟨d3, c3, _⟩ := captureTerm_disc T urlOk e false _ _ _ _ _ _ input _ h3 d2 c2
          split at h
          · split at h
            · next c o h4 =>
              simp only [NQO.Step.fail.injEq] at h
              obtain ⟨_, rfl⟩ := h
              exact afterObject_err T e none _ _ _ _ _ h4 (by simpa using (errInv_of_disc d3))
            · simp at h
            · next gx s4 r4 h4 =>
              obtain ⟨d4, c4⟩ := (afterObject_spec T e none s3 r3 _ s4 r4 h4).disc d3 c3
              split at h
              · next c o h5 =>
                simp only [NQO.Step.fail.injEq] at h
                obtain ⟨_, rfl⟩ := h
                exact captureTerm_err T urlOk e _ none _ _ _ _ _ h5 (by simpa using (errInv_of_disc d4))
              · next gv s5 r5 h5 =>
                obtain ⟨d5, c5, _⟩ := captureTerm_disc T urlOk e false _ _ _ _ _ _ input _ h5 d4 c4
                split at h
                · next c o h6 =>
                  simp only [NQO.Step.fail.injEq] at h
                  obtain ⟨_, rfl⟩ := h
                  exact expectDot_err T e none _ _ _ _ _ h6 (by simpa using (errInv_of_disc d5))
                · simp at h
          · split at h
            · next c o h4 =>
              simp only [NQO.Step.fail.injEq] at h
              obtain ⟨_, rfl⟩ := h
              exact expectDot_err T e none _ _ _ _ _ h4 (by simpa using (errInv_of_disc d3))
            · simp at h

theorem next_fail (T : Tables) (urlOk : List Nat → Bool) (e : End) (quads started : Bool) (s : S)
    (inp : List RP) (x : EClass) (off : EOff) (input : List RP)
    (h : NQO.next T urlOk e false quads started s inp = .fail x off) (hd : Disc input s inp) :
    EOff.bound off ≤ size input := by
  unfold NQO.next at h
  split at h
  · split at h
    · simp at h
    · next c o ht =>
      simp only [NQO.Step.fail.injEq] at h
      obtain ⟨_, rfl⟩ := h
      exact toEOL_fail T e none _ _ _ _ _ ht (by simpa using (errInv_of_disc hd))
    · next s1 r1 ht =>
      obtain ⟨d1, _⟩ := (toEOL_start T e none s inp s1 r1 ht).disc hd rfl
      exact statement_fail T urlOk e quads s1 r1 x off input h d1
  · exact statement_fail T urlOk e quads s inp x off input h hd

end RdfModel.Proofs.C16
