// Command c05x: search harness for the parts of C05 / C06 / C15 that concern decoders without a
// Lean model of their parsing core (RDF/XML, JSON-LD, RDFa, Microdata, HTML-embedded JSON-LD, the
// combined HTML decoder), with the modelled decoders (N-Triples, N-Quads, Turtle, TriG, RDF/JSON)
// run through the same oracles as a cross-check. This is search, not proof: see props/C05X.fragment.json.
package main

import (
	"encoding/json"
	"flag"
	"fmt"
	"os"
	"regexp"
	"runtime"
	"runtime/debug"
	"sort"
	"strconv"
	"strings"
	"sync"
	"syscall"
	"time"

	"verifharness/vh"
)

var (
	tier      = flag.String("tier", "quick", "quick|thorough")
	driver    = flag.String("driver", "/verif/lean/.lake/build/bin/driver", "lean driver binary (latch wrapper model)")
	out       = flag.String("out", "/verif/evidence/.c05x.report.json", "report path")
	findings  = flag.String("findings", "/verif/known-findings.json", "known findings")
	replay    = flag.String("replay", "", "replay file: lines 'c05x.run …' or a replays/*.json written by ./check")
	scale     = flag.Int("scale", 1, "multiply generated case counts (search mode uses 10)")
	nomodel   = flag.Bool("nomodel", false, "skip the wrapper-model correspondence (driver unavailable / search mode)")
	hints     = flag.String("hints", "", "file of protocol lines that disagreed (unused: there is no parsing model to disagree with)")
	prop      = flag.String("prop", "C05", "C05|C06|C15: which property's oracles are reported")
	childFlag = flag.Bool("child", false, "internal: run cases from stdin in this (expendable) process")
	workers   = flag.Int("workers", 0, "worker goroutines (default min(8, NumCPU))")
	only      = flag.String("only", "", "comma-separated formats to restrict to (development aid)")
	verbose   = flag.Bool("v", false, "print every failing case")
)

// Case is one decoder run (C05/C06) or one base input for the schedule comparisons (C15).
type Case struct {
	Format string
	Opts   Opts
	Sched  Sched
	Input  []byte
	Family string
	Name   string
	Aux    []byte `json:",omitempty"` // reuse oracle: document B, decoded between the two decodes of Input
	Reuse  string `json:",omitempty"` // reuse oracle: variant (reuse.go)
}

// Line is the replayable form of a case: "c05x.run <format> <opts> <schedule> x<hex input>", or, for
// the large generated inputs, "c05x.gen <format> <opts> <schedule> <family>:<generator>@<parameter>".
func (c Case) Line() string {
	o := c.Opts
	head := fmt.Sprintf("%s %s%s%s%s%d,%s,%s %s,%d,%d,%s", c.Format, b01(o.Offsets), b01(o.Base), b01(o.Lax), b01(o.Loader), o.Profile, orDash(o.Mode), orDash(o.Dir),
		c.Sched.Chunk, c.Sched.Seed, c.Sched.FaultAt, orDash(c.Sched.Fault))
	if c.Reuse != "" {
		return "c05x.reuse " + head + " " + c.Reuse + " " + vh.X(c.Input) + " " + vh.X(c.Aux)
	}
	if (c.Family == "nest" || c.Family == "huge") && len(c.Input) > 4096 && !strings.Contains(c.Name, " ") {
		return "c05x.gen " + head + " " + c.Family + ":" + c.Name
	}
	if c.Family == "growth" { // replayed as the whole ladder up to this parameter
		return "c05x.gen " + head + " growth:" + c.Name
	}
	return "c05x.run " + head + " " + vh.X(c.Input)
}

// generated rebuilds the input of a "c05x.gen" line.
func generated(format, ref string) ([]byte, string, string, bool) {
	fam, name, ok := strings.Cut(ref, ":")
	gen, param, ok2 := strings.Cut(name, "@")
	var n int
	if _, err := fmt.Sscan(param, &n); !ok || !ok2 || err != nil {
		return nil, "", "", false
	}
	switch fam {
	case "nest", "growth":
		for _, g := range nestGens[format] {
			if g.Name == gen {
				return g.F(n), fam, name, true
			}
		}
	case "huge":
		for _, g := range hugeGens[format] {
			if g.Name == gen {
				return g.F(n), fam, name, true
			}
		}
	}
	return nil, "", "", false
}

func orDash(s string) string {
	if s == "" {
		return "-"
	}
	return s
}
func unDash(s string) string {
	if s == "-" {
		return ""
	}
	return s
}

func parseLine(l string) (Case, bool) {
	f := strings.Fields(l)
	var reuseV string
	var reuseB []byte
	if len(f) == 7 && f[0] == "c05x.reuse" { // c05x.reuse <format> <opts> <sched> <variant> x<A> x<B>
		b, err := vh.UnX(f[6])
		if err != nil {
			return Case{}, false
		}
		reuseV, reuseB = f[4], b
		f = []string{"c05x.run", f[1], f[2], f[3], f[5]}
	}
	if len(f) != 5 || (f[0] != "c05x.run" && f[0] != "c05x.gen") {
		return Case{}, false
	}
	c := Case{Format: f[1], Family: "replay", Name: "replay", Reuse: reuseV, Aux: reuseB}
	op := strings.Split(f[2], ",")
	if len(op) != 3 || len(op[0]) != 5 {
		return Case{}, false
	}
	c.Opts = Opts{Offsets: op[0][0] == '1', Base: op[0][1] == '1', Lax: op[0][2] == '1', Loader: op[0][3] == '1', Profile: int(op[0][4] - '0'), Mode: unDash(op[1]), Dir: unDash(op[2])}
	sp := strings.Split(f[3], ",")
	if len(sp) != 4 {
		return Case{}, false
	}
	c.Sched = Sched{Chunk: sp[0], Fault: unDash(sp[3])}
	fmt.Sscan(sp[1], &c.Sched.Seed)
	fmt.Sscan(sp[2], &c.Sched.FaultAt)
	if f[0] == "c05x.gen" {
		in, fam, name, ok := generated(c.Format, f[4])
		if !ok {
			return Case{}, false
		}
		c.Input, c.Family, c.Name = in, fam, name
		return c, true
	}
	b, err := vh.UnX(f[4])
	if err != nil {
		return Case{}, false
	}
	c.Input = b
	return c, true
}

// budget: the 2 s watchdog, stretched linearly for inputs beyond 64 KiB.
func budget(n int) time.Duration {
	d := 2 * time.Second
	if m, err := strconv.Atoi(os.Getenv("C05X_BUDGET_MULT")); err == nil && m > 0 { // development aid
		d *= time.Duration(m)
	}
	if n > 64<<10 {
		d = time.Duration(float64(d) * float64(n) / float64(64<<10))
	}
	return d
}

type runResult struct {
	Outcome
	Delivered bool
}

// execCase runs one case under the watchdog (always inside a child process, see worker.go). A
// timed-out goroutine cannot be killed: the child marks itself dirty and exits after the job; the
// case is confirmed later, alone, in a fresh child.
func execCase(c Case) (res runResult) {
	done := make(chan runResult, 1)
	go func() {
		rd := newSchedReader(c.Input, c.Sched)
		o := runDecoder(c.Format, c.Opts, rd)
		done <- runResult{o, rd.Delivered}
	}()
	select {
	case r := <-done:
		return r
	case <-time.After(budget(len(c.Input))):
		return runResult{Outcome: Outcome{Verdict: "hang", Elapsed: budget(len(c.Input))}}
	}
}

// execCaseConfirm is the watchdog of the confirmation pass (one case, alone in a fresh child). Its
// verdict must not depend on the load of the machine: the case counts as hung only when the
// process has *consumed* the budget in CPU time (and the wall budget is over), or when it has made
// no progress at all (< 5 % of the budget in CPU) within ten times the budget of wall time
// (deadlock, sleep). Ten times the wall budget with some but not enough CPU is a starved machine:
// verdict "inconclusive", which is counted and never reported as a violation.
func execCaseConfirm(c Case) (res runResult) {
	done := make(chan runResult, 1)
	cpu0 := processCPU()
	t0 := time.Now()
	go func() {
		rd := newSchedReader(c.Input, c.Sched)
		o := runDecoder(c.Format, c.Opts, rd)
		done <- runResult{o, rd.Delivered}
	}()
	b := budget(len(c.Input))
	tick := time.NewTicker(50 * time.Millisecond)
	defer tick.Stop()
	for {
		select {
		case r := <-done:
			if r.Elapsed > b && processCPU()-cpu0 >= b { // finished, but only after burning the budget
				return runResult{Outcome: Outcome{Verdict: "hang", Elapsed: r.Elapsed}}
			}
			return r
		case <-tick.C:
			wall, cpu := time.Since(t0), processCPU()-cpu0
			switch {
			case wall > b && cpu >= b:
				return runResult{Outcome: Outcome{Verdict: "hang", Elapsed: wall}}
			case wall > 10*b && cpu < b/20:
				return runResult{Outcome: Outcome{Verdict: "hang", Elapsed: wall, Err: "no progress"}}
			case wall > 10*b:
				return runResult{Outcome: Outcome{Verdict: "inconclusive", Elapsed: wall}}
			}
		}
	}
}

func processCPU() time.Duration {
	var ru syscall.Rusage
	if syscall.Getrusage(syscall.RUSAGE_SELF, &ru) != nil {
		return 0
	}
	return time.Duration(ru.Utime.Nano() + ru.Stime.Nano())
}

// ---------------------------------------------------------------- violations and known findings

type violation struct {
	Prop   string // C05 | C06 | C15
	Kind   string // panic | hang | crash | life | wf | chunking | nondeterminism | fault-swallowed | truncation-accepted | prefix
	Format string
	Sub    string // class sub-key (function|kind for panics, defect name otherwise)
	Detail string
	Case   Case
}

func (v violation) Key() string { return v.Kind + "|" + v.Format + "|" + v.Sub }

// matchKnown: predicate syntax "<kind>|<format>[,<format>…]|<sub>" ('*' = any format).
func matchKnown(known map[string]vh.Finding, v violation) (vh.Finding, bool) {
	for pred, f := range known {
		p := strings.SplitN(pred, "|", 3)
		if len(p) != 3 || p[0] != v.Kind || !globMatch(p[2], v.Sub) {
			continue
		}
		if p[1] == "*" {
			return f, true
		}
		for _, ff := range strings.Split(p[1], ",") {
			if ff == v.Format {
				return f, true
			}
		}
	}
	return vh.Finding{}, false
}

var repMu sync.Mutex // guards the report and every collection below

// globMatch: '*' in a predicate's sub-key stands for any run of characters other than '|'.
func globMatch(pat, s string) bool {
	if !strings.Contains(pat, "*") {
		return pat == s
	}
	re := "^" + strings.ReplaceAll(regexp.QuoteMeta(pat), `\*`, `[^|]*`) + "$"
	ok, _ := regexp.MatchString(re, s)
	return ok
}

type collector struct {
	probeMu sync.Mutex
	prober  *runner
	rep     *vh.Report
	known   map[string]vh.Finding
	seen    map[string]int // per class key: how many
	viols   []violation
}

// propSelected: -prop may name several properties joined by '+' (sweeps: one pass, all oracles).
func propSelected(p string) bool {
	for _, x := range strings.Split(*prop, "+") {
		if x == p {
			return true
		}
	}
	return false
}

func (k *collector) add(v violation) {
	if !propSelected(v.Prop) {
		repMu.Lock()
		k.rep.Count("other-property:" + v.Prop + ":" + v.Kind)
		repMu.Unlock()
		return
	}
	repMu.Lock()
	defer repMu.Unlock()
	key := v.Key()
	k.seen[key]++
	if k.seen[key] > 3 { // keep three witnesses per class
		k.rep.Count("class:" + key)
		return
	}
	k.rep.Count("class:" + key)
	k.viols = append(k.viols, v)
}

func (k *collector) flush() {
	sort.Slice(k.viols, func(i, j int) bool {
		a, b := k.viols[i], k.viols[j]
		if a.Key() != b.Key() {
			return a.Key() < b.Key()
		}
		return len(a.Case.Input) < len(b.Case.Input)
	})
	dup := map[string]bool{}
	for _, v := range k.viols {
		if v.Prop != "C15" {
			v = k.shrink(v, 400)
		}
		if id := v.Key() + "\x00" + v.Case.Line(); dup[id] {
			continue
		} else {
			dup[id] = true
		}
		d := fmt.Sprintf("[%s] %s — %s/%s opts{%s} sched{%s} input(%d bytes)=%s", v.Key(), v.Detail, v.Case.Family, v.Case.Name, v.Case.Opts, v.Case.Sched, len(v.Case.Input), preview(v.Case.Input))
		if f, ok := matchKnown(k.known, v); ok {
			k.rep.Add(vh.Case{Kind: "known", Key: f.Key, Op: v.Case.Line(), Detail: f.What + " — " + d})
			k.rep.Count("known:" + f.Key)
		} else {
			k.rep.Add(vh.Case{Kind: "violation", Op: v.Case.Line(), Detail: d})
			if *verbose {
				fmt.Println("VIOLATION", d)
			}
		}
	}
}

func preview(b []byte) string {
	if len(b) > 160 {
		return fmt.Sprintf("%q…", b[:160])
	}
	return fmt.Sprintf("%q", b)
}

// ---------------------------------------------------------------- main

// realStderr: third-party code (cursorio.TextWriter) prints "FATAL: …" to os.Stderr before it panics;
// os.Stderr is pointed at /dev/null and the harness' own messages go to the real one.
var realStderr = os.Stderr

func main() {
	flag.Parse()
	if dn, err := os.OpenFile(os.DevNull, os.O_WRONLY, 0); err == nil {
		os.Stderr = dn
	}
	debug.SetGCPercent(200)
	if *childFlag {
		childMain()
		return
	}
	seed := vh.SeedFromEnv()
	rule := "search over decoders without a Lean model: W3C suite files shipped in the repository, test-file literals and round-0 witnesses x decoder options x read schedules; token-level mutations (<=3 edits from a per-format hot alphabet), grammar-directed nesting, huge tokens, truncations, injected reader faults (on a Read of their own or together with the last bytes; at every offset of the trailing trivia and at len(doc)); deterministic grammar-directed families: RDF/XML attribute x value x spelling x host element error paths with offsets on/off, RDFa/Microdata token-list attributes x separator characters, reference cliques (k mutually referencing items), documents starting with a multi-byte character under tiny first reads, JSON-LD container maps (17 container kinds x 38 entry values incl. null / {\"@value\":null} / [] / scalars / nodes x map keys x entry position x coercion) and map-order documents (21 recursion sites x 12 order-sensitive constructs of 12 entries) through jsonld, htmljsonld and the combined HTML decoder; C15 additionally: determinism = k decodes of every base document (k = 2; 4 quick / 8 thorough when it has container maps, @nest or @reverse) compared as ordered sequences, and the REUSE oracle = option values / turtle.Factory / rdfio registry built once, documents A, B, A decoded with them, run 1 of A = run 3 of A = A with fresh option values and B = B with fresh option values (directive pairs re-declaring default prefixes, base, expand-context terms + random suite pairs); growth oracle (allocation + statement counts over a parameter ladder, exponent <= 4) besides the watchdog. non-trivial = the run yielded at least one statement or ended in an error other than at the first token (C05/C06); the base document yields a statement (C15)"
	rep := vh.NewReport(*prop, *tier, seed, rule)
	fs, err := vh.LoadFindings(*findings)
	if err != nil {
		fmt.Fprintln(realStderr, "findings:", err)
		os.Exit(2)
	}
	known := map[string]vh.Finding{}
	for _, p := range strings.Split(*prop, "+") {
		for pred, f := range vh.KnownKeys(fs, p) {
			known[pred] = f
		}
	}
	k := &collector{rep: rep, known: known, seen: map[string]int{}}
	corp, err := loadCorpus()
	if err != nil {
		fmt.Fprintln(realStderr, "corpus:", err)
		os.Exit(2)
	}
	for _, f := range allFormats {
		rep.Hist["corpus-files:"+f] = len(corp.ByFormat[f])
	}
	formats := allFormats
	if *only != "" {
		formats = strings.Split(*only, ",")
	}
	nw := *workers
	if nw <= 0 {
		nw = runtime.NumCPU()
		if nw > 8 {
			nw = 8
		}
	}
	e := &engine{k: k, rep: rep, corp: corp, formats: formats, rng: vh.NewRng(seed), nw: nw, thorough: *tier == "thorough", scale: *scale}

	if *replay != "" {
		e.replayFile(*replay)
	} else {
		ran := false
		if propSelected("C05") || propSelected("C06") {
			e.runTotality()
			ran = true
		}
		if propSelected("C15") {
			e.runSchedules()
			e.runReuse()
			ran = true
		}
		if !ran {
			fmt.Fprintln(realStderr, "unknown -prop", *prop)
			os.Exit(2)
		}
		if !*nomodel && propSelected("C05") {
			e.latchCorrespondence(*driver)
		}
	}
	k.flush()
	if k.prober != nil {
		k.prober.close()
	}
	if rep.Cases == nil {
		rep.Cases = []vh.Case{} // "cases": [] rather than null
	}
	if err := rep.Write(*out); err != nil {
		fmt.Fprintln(realStderr, err)
		os.Exit(2)
	}
	fmt.Printf("c05x[%s]: %d evaluations, %d distinct non-trivial, %d compared with the wrapper model, %d failures, %d known\n", *prop, rep.Evaluations, rep.Distinct, rep.Compared, rep.Failures(), len(rep.Cases)-rep.Failures())
	if rep.Failures() > 0 {
		os.Exit(1)
	}
}

func (e *engine) replayFile(path string) {
	b, err := os.ReadFile(path)
	if err != nil {
		fmt.Fprintln(realStderr, err)
		os.Exit(2)
	}
	var lines []string
	if strings.HasPrefix(strings.TrimSpace(string(b)), "{") {
		var j struct {
			Violations []struct {
				Op string `json:"op"`
			} `json:"violations"`
		}
		if err := json.Unmarshal(b, &j); err == nil {
			for _, v := range j.Violations {
				lines = append(lines, v.Op)
			}
		}
	} else {
		lines = strings.Split(string(b), "\n")
	}
	e.farm(1, func(emit func(job)) {
		for _, l := range lines {
			c, ok := parseLine(strings.TrimSpace(l))
			if !ok {
				continue
			}
			if c.Family == "growth" {
				gen, param, _ := strings.Cut(c.Name, "@")
				top, _ := strconv.Atoi(param)
				var ladder []int
				if g, ok := findNestGen(c.Format, gen); ok {
					for _, k := range growthLadder(g) {
						if k <= top {
							ladder = append(ladder, k)
						}
					}
				}
				c.Name = gen
				emit(job{Kind: jobGrowth, C: c, Ladder: ladder, Verbose: true})
			} else if c.Reuse != "" {
				emit(job{Kind: jobReuse, C: c, Verbose: true})
			} else if propSelected("C15") {
				emit(job{Kind: jobSchedule, C: c, Seed: e.rng.U64(), Thorough: e.thorough, Verbose: true})
			} else {
				emit(job{Kind: jobSingle, C: c, Verbose: true})
			}
		}
	})
	e.confirmSuspects()
}
