/-
  Property C16, Turtle / TriG statement layer — T2 tie of the COMMIT / HAND-BACK / ERROR-OFFSET SITES.

  `Model/TurtleDocOffsets.lean` was written against the table below: for every function of the statement
  layer of encoding/turtle and encoding/trig (decoder.go, decoder_scan_*.go; closures counted in the
  function declaration containing them) the number of call expressions `commit(`,
  `commitForTextOffsetRange(`, `BacktrackRunes(` and `newOffsetError(`.  `Gen.TtlCommitSites.sites` is
  regenerated from the working tree on every run (go/ast, go/cmd/extract/gen_c16d.go); the theorem says
  the sources still have exactly these sites.  A site that is added, removed or moved to another function
  breaks the tie: the model function named in the comment must be re-read against the source.  (Which
  runes each site commits, and in which order, is tied dynamically by T3, go/cmd/c16d.)
-/
import RdfModel.Gen.TtlCommitSites
namespace RdfModel.C16TtlDocO

/-- (package, file, function, commit, commitForTextOffsetRange, BacktrackRunes, newOffsetError) -/
def expectedSites : List (String × String × String × Nat × Nat × Nat × Nat) := [
  ("turtle", "decoder.go", "scan", 2, 0, 0, 0),                                                         -- skipWsO
  ("turtle", "decoder_scan_blankNodePropertyList.go", "reader_scan_blankNodePropertyList_End", 1, 0, 0, 2), -- stepFnO .bnplEnd
  ("turtle", "decoder_scan_collection.go", "reader_scan_collection", 0, 1, 1, 0),                       -- stepCollectionO
  ("turtle", "decoder_scan_collection.go", "reader_scan_collection_Continue", 0, 1, 1, 1),              -- stepFnO .collContinue
  ("turtle", "decoder_scan_object.go", "reader_scan_Object", 1, 4, 11, 15),                             -- stepObjectO, stepLiteralTailO, scanBooleanO
  ("turtle", "decoder_scan_objectList.go", "reader_scan_ObjectList_Continue", 1, 0, 1, 1),              -- stepFnO .objListContinue
  ("turtle", "decoder_scan_predicateObjectList.go", "reader_scan_PredicateObjectList", 1, 1, 2, 2),     -- stepPOLO
  ("turtle", "decoder_scan_predicateObjectList.go", "reader_scan_PredicateObjectList_Continue", 1, 0, 1, 1), -- stepFnO .polContinue
  ("turtle", "decoder_scan_predicateObjectList.go", "reader_scan_PredicateObjectList_Required", 0, 0, 0, 2), -- stepFnO .polRequired
  ("turtle", "decoder_scan_statement.go", "reader_scanStatement_Subject_AnonOrBlankNode", 1, 0, 1, 0),  -- stepFnO .subjAnonOrBNPL
  ("turtle", "decoder_scan_statement.go", "reader_scanStatement", 7, 3, 15, 32),                        -- stepStatementRuneO (+ stepAtDirectiveO, stepKwBaseO, stepKwSpaceO, stepSubjectStartO, stepParenO, .atBaseDot, .atPrefixDot)
  ("turtle", "decoder_scan_triples.go", "reader_scan_Triples_End", 1, 0, 0, 2),                         -- stepFnO .triplesEnd (trig = false)
  ("trig", "decoder.go", "scan", 2, 0, 0, 0),
  ("trig", "decoder_scan_blankNodePropertyList.go", "reader_scan_blankNodePropertyList_End", 1, 0, 0, 2),
  ("trig", "decoder_scan_collection.go", "reader_scan_collection", 0, 1, 1, 0),
  ("trig", "decoder_scan_collection.go", "reader_scan_collection_Continue", 0, 1, 1, 1),
  ("trig", "decoder_scan_object.go", "reader_scan_Object", 1, 4, 11, 15),
  ("trig", "decoder_scan_objectList.go", "reader_scan_ObjectList_Continue", 1, 0, 1, 1),
  ("trig", "decoder_scan_predicateObjectList.go", "reader_scan_PredicateObjectList", 1, 1, 2, 2),
  ("trig", "decoder_scan_predicateObjectList.go", "reader_scan_PredicateObjectList_Continue", 1, 0, 1, 1),
  ("trig", "decoder_scan_predicateObjectList.go", "reader_scan_PredicateObjectList_Required", 0, 0, 0, 2),
  ("trig", "decoder_scan_trigDoc.go", "reader_scan_trigDoc", 9, 5, 18, 38),                             -- stepStatementRuneO (trig) + .graphLabel, .graphAnonClose, .tgBracket
  ("trig", "decoder_scan_triples.go", "reader_scan_triples", 0, 3, 4, 1),                               -- stepTriplesO, stepParenO (top = false)
  ("trig", "decoder_scan_triples.go", "reader_scan_triples_End", 1, 0, 1, 2),                           -- stepFnO .triplesEnd (trig = true: hands the rune back first)
  ("trig", "decoder_scan_triples2.go", "reader_triples2_blankNodePropertyList", 1, 0, 1, 0),            -- stepFnO .triples2BNPL
  ("trig", "decoder_scan_triplesBlock.go", "reader_scan_triplesBlock", 0, 0, 2, 0),                     -- stepFnO .triplesBlock
  ("trig", "decoder_scan_triplesBlock.go", "reader_scan_triplesBlock_QUEST", 1, 0, 2, 0),               -- stepFnO .triplesBlockQuest
  ("trig", "decoder_scan_triplesOrGraph.go", "reader_scan_triplesOrGraph_E1", 1, 0, 1, 0),              -- stepFnO .tgE1
  ("trig", "decoder_scan_wrappedGraph.go", "reader_scan_wrappedGraph", 1, 0, 1, 1),                     -- stepWrappedGraphO
  ("trig", "decoder_scan_wrappedGraph.go", "reader_scan_wrappedGraph_End", 1, 0, 1, 1)                  -- stepFnO .wrappedGraphEnd
]

/-- T2: the statement layer's commit, hand-back and error-offset sites are those the model was written
    against. -/
theorem commit_sites_T2 : (Gen.TtlCommitSites.sites == expectedSites) = true := by decide

end RdfModel.C16TtlDocO
