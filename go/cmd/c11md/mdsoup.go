package main

// Copied from go/cmd/c11 (soup.go, gen.go): the Microdata attribute-soup generator for VALID documents
// (nested items, itemref to shared targets, duplicate ids, isolated itemref cycles, every element-specific
// value rule) and its pools. Kept verbatim so that both harnesses draw the same documents.

import (
	"fmt"
	"strings"

	"verifharness/vh"
)

var bases = []string{
	"http://ex.org/dir/page.html",
	"http://ex.org/dir/page.html",
	"http://ex.org/dir/sub/",
	"https://host.example/a/b?q=1",
	"http://ex.org/dir/page.html#frag",
	"http://ex.org/",
	"http://ex.org/a/b/c/d",
	"",
}

// Microdata and JSON-LD resolve against the location as given; with a fragment in it, an empty reference keeps the
// fragment (Go net/url behaviour, reproduced by iri.ParsedIRI: property C12's subject), so those families use
// locations without one. RDFa drops the fragment of the base itself.
var basesNoFragment = []string{
	"http://ex.org/dir/page.html",
	"http://ex.org/dir/sub/",
	"https://host.example/a/b?q=1",
	"http://ex.org/",
	"http://ex.org/a/b/c/d",
	"http://ex.org/dir/page.html",
	"",
}

var relRefs = []string{"", "#me", "#a:b", "other", "other.html#x", "sub/x", "../up", "../../top/x", "/root/p", "/wiki/Help:Contents",
	"?q=2", "?a=b:c", "./here", "x/y:z", "//other.example/n", "a%20b"}

var absIRIs = []string{"http://other.example/x", "https://w3.example/ns#t", "urn:isbn:0451450523", "mailto:a@b.example",
	"tag:x.example,2020:y", "http://ex.org/a%20b", "http://ex.org/é/ü", "http://ex.org/q?x=a:b&y=1", "http://ex.org/p/Help:Contents",
	"http://schema.org/Person", "http://xmlns.com/foaf/0.1/Agent", "http://vocab.example/ns#thing", "http://vocab.example/ns#Other",
	"http://p.example/deep/er/x", "http://ex.org/dir/page.html", "http://ex.org/dir/"}

var lexes = []string{"", "x", "hello world", "Größe ✓", "a<b>&c", "say \"hi\" 'there'", "line1\nline2", " lead and trail ", "tab\there",
	"&amp; literal", "<!-- not a comment -->", "</span>", "]]>", "cr\rhere", "42", "日本語", "a b", "emoji 😀"}

type soup struct {
	r    *vh.Rng
	base string
}

func (s *soup) hrefVal() string {
	opts := []string{vh.Pick(s.r, absIRIs), vh.Pick(s.r, absIRIs), ""}
	if s.base != "" {
		opts = append(opts, vh.Pick(s.r, relRefs), vh.Pick(s.r, relRefs))
	}
	return vh.Pick(s.r, opts)
}

var mdTypes = []string{"http://schema.org/Person", "http://schema.org/Thing", "http://vocab.example/ns#Other", "http://p.example/deep/er/Type"}
var mdNames = []string{"name", "knows", "url", "http://p.example/rel", "http://vocab.example/ns#p1", "urn:p:x", "title"}
var mdWords = []string{"high", "low", "soon", "later", "x1", ""}

func (s *soup) mdLeaf(ids *[]string) *Node {
	name := vh.Pick(s.r, mdNames)
	if s.r.Chance(15) {
		name += " " + vh.Pick(s.r, mdNames)
	}
	if s.r.Chance(6) {
		name = name + " " + strings.Fields(name)[0] // a repeated name counts once
	}
	attrs := []Attr{{"itemprop", name}}
	u := s.hrefVal()
	if s.base == "" {
		u = vh.Pick(s.r, absIRIs)
	}
	lex := vh.Pick(s.r, lexes)
	switch s.r.Intn(16) {
	case 0:
		return E("meta", append(attrs, Attr{"content", lex}))
	case 1:
		return E("meta", attrs)
	case 2:
		return E("a", append(attrs, Attr{"href", u}), T("anchor"))
	case 3:
		return E("link", append(attrs, Attr{"href", u}))
	case 4:
		return E("img", append(attrs, Attr{"src", u}))
	case 5:
		return E("object", append(attrs, Attr{"data", u}))
	case 6:
		return E(vh.Pick(s.r, []string{"audio", "video", "embed", "iframe", "source", "track"}), append(attrs, Attr{"src", u}))
	case 7:
		return E("data", append(attrs, Attr{"value", lex}), T("shown"))
	case 8:
		return E("meter", append(attrs, Attr{"value", vh.Pick(s.r, mdWords)}), T("m"))
	case 9:
		if s.r.Bool() {
			return E("time", append(attrs, Attr{"datetime", vh.Pick(s.r, mdWords)}), T("t"))
		}
		return E("time", attrs, T(lex))
	case 10:
		return E("area", append(attrs, Attr{"href", u}))
	case 11:
		return E("a", attrs, T("no href"))
	case 12:
		rs := []rune(lex)
		return E("div", attrs, T(string(rs[:len(rs)/2])), E("b", nil, T(string(rs[len(rs)/2:]))))
	default:
		return E("span", attrs, T(lex))
	}
}

func (s *soup) mdItem(depth int, ids *[]string, asProp bool) *Node {
	attrs := []Attr{{"itemscope", ""}}
	if asProp {
		attrs = append(attrs, Attr{"itemprop", vh.Pick(s.r, mdNames)})
	}
	if s.r.Chance(35) {
		if s.base == "" {
			attrs = append(attrs, Attr{"itemid", vh.Pick(s.r, absIRIs)})
		} else {
			attrs = append(attrs, Attr{"itemid", strings.TrimSpace(s.hrefVal())})
		}
	}
	if s.r.Chance(45) {
		ty := vh.Pick(s.r, mdTypes)
		if s.r.Chance(25) {
			ty += " " + vh.Pick(s.r, mdTypes)
		}
		attrs = append(attrs, Attr{"itemtype", ty})
	}
	n := &Node{Tag: vh.Pick(s.r, []string{"div", "span", "section"}), Attrs: attrs}
	k := 1 + s.r.Intn(3)
	for i := 0; i < k; i++ {
		switch {
		case depth < 2 && s.r.Chance(25):
			n.Kids = append(n.Kids, s.mdItem(depth+1, ids, s.r.Chance(85)))
		case s.r.Chance(20):
			n.Kids = append(n.Kids, E("div", nil, T("wrap "), s.mdLeaf(ids)))
		default:
			n.Kids = append(n.Kids, s.mdLeaf(ids))
		}
	}
	return n
}

// mdDoc: items (possibly nested) and, at body level, reference targets: property elements and property items with
// an id, which the items outside them may name in itemref (several items may share a target; a target may come
// before or after its referrers). Targets carry no itemref themselves, so the item graph has no cycles and no
// element is reached twice by one crawl: the documents are valid Microdata.
func setAttr(n *Node, name, val string) {
	for i := range n.Attrs {
		if n.Attrs[i].Name == name {
			n.Attrs[i].Val = val
			return
		}
	}
	n.Attrs = append(n.Attrs, Attr{name, val})
}

// firstID: the id of the node or of the first descendant that has one
func firstID(n *Node) string {
	if n.Text != nil {
		return ""
	}
	if id, ok := n.Attr("id"); ok {
		return id
	}
	for _, c := range n.Kids {
		if id := firstID(c); id != "" {
			return id
		}
	}
	return ""
}

func hasItem(n *Node) bool {
	if n.Text != nil {
		return false
	}
	if _, ok := n.Attr("itemscope"); ok {
		return true
	}
	for _, c := range n.Kids {
		if hasItem(c) {
			return true
		}
	}
	return false
}

func (s *soup) mdDoc() *Node {
	var ids []string
	var body []*Node
	var referrers []*Node
	var targets []*Node
	// ids all of whose carriers contain no item ("plain" targets: property elements, possibly wrapped)
	notPlain := map[string]bool{}
	k := 1 + s.r.Intn(4)
	for i := 0; i < k; i++ {
		if s.r.Chance(40) {
			var t *Node
			if s.r.Chance(50) {
				t = s.mdLeaf(&ids)
				if s.r.Chance(30) {
					t = E("div", nil, T("block "), t, s.mdLeaf(&ids))
				}
			} else {
				t = s.mdItem(1, &ids, s.r.Chance(90))
			}
			id := fmt.Sprintf("t%d", len(ids))
			if s.r.Chance(10) && len(ids) > 0 {
				id = ids[0] // a duplicate id: the first element in tree order wins
			}
			ids = append(ids, id)
			if s.r.Chance(35) {
				// the id on a wrapper around the target (an item inside it is then reached by descending)
				t = E("div", []Attr{{"id", id}}, T("around "), t)
			} else {
				t.Attrs = append(t.Attrs, Attr{"id", id})
				if s.r.Chance(30) {
					t = E("div", nil, T("around "), t)
				}
			}
			if hasItem(t) {
				notPlain[id] = true
			}
			targets = append(targets, t)
			body = append(body, t)
			continue
		}
		it := s.mdItem(0, &ids, false)
		referrers = append(referrers, it)
		body = append(body, it)
	}
	for i := len(body) - 1; i > 0; i-- {
		j := s.r.Intn(i + 1)
		body[i], body[j] = body[j], body[i]
	}
	var plain []string
	for _, id := range ids {
		if !notPlain[id] {
			plain = append(plain, id)
		}
	}
	var items []*Node
	var walk func(n *Node)
	walk = func(n *Node) {
		if n.Text != nil {
			return
		}
		if _, ok := n.Attr("itemscope"); ok {
			items = append(items, n)
		}
		for _, c := range n.Kids {
			walk(c)
		}
	}
	refList := func(pool []string, withMissing bool) string {
		n := 1
		if s.r.Chance(45) {
			n = 2 + s.r.Intn(2)
		}
		var toks []string
		for i := 0; i < n; i++ {
			p := pool
			if withMissing && s.r.Chance(10) {
				p = append(append([]string{}, pool...), "missing")
			}
			toks = append(toks, vh.Pick(s.r, p))
		}
		out := toks[0]
		for _, t := range toks[1:] {
			out += vh.Pick(s.r, []string{" ", "  ", "\n", "\t"}) + t
		}
		return out
	}
	// items outside the targets may reference any target, in any order
	for _, b := range referrers {
		walk(b)
	}
	for _, it := range items {
		if len(ids) > 0 && s.r.Chance(50) {
			it.Attrs = append(it.Attrs, Attr{"itemref", refList(ids, true)})
		}
	}
	// items inside a target may reference plain targets only: no cycles, and the same plain block can be shared by an
	// item and by an item nested in another block that the first one references too
	items = nil
	for _, t := range targets {
		walk(t)
	}
	for _, it := range items {
		if len(plain) > 0 && s.r.Chance(50) {
			it.Attrs = append(it.Attrs, Attr{"itemref", refList(plain, false)})
		}
	}
	// the shared block: an outer item names a plain block and a block with a nested item (either order), and that
	// nested item names the same plain block
	if len(plain) > 0 && len(items) > 0 && len(referrers) > 0 && s.r.Chance(40) {
		nested := vh.Pick(s.r, items)
		var holder string
		for _, t := range targets {
			var in func(n *Node) bool
			in = func(n *Node) bool {
				if n == nested {
					return true
				}
				for _, c := range n.Kids {
					if c.Text == nil && in(c) {
						return true
					}
				}
				return false
			}
			if in(t) {
				holder = firstID(t)
			}
		}
		if holder != "" && notPlain[holder] {
			shared := vh.Pick(s.r, plain)
			setAttr(nested, "itemref", shared)
			outer := referrers[s.r.Intn(len(referrers))]
			if s.r.Bool() {
				setAttr(outer, "itemref", shared+" "+holder)
			} else {
				setAttr(outer, "itemref", holder+" "+shared)
			}
		}
	}
	// an isolated simple cycle of two or three body-level items, each the value of a property of the previous one
	// through itemref (its own id is on the item; nothing outside refers into the cycle). Every item's crawl is
	// error-free — the referenced item is not descended into — so the document is valid Microdata although the item
	// graph is cyclic; each item must stay one node.
	if s.r.Chance(25) {
		n := 2 + s.r.Intn(2)
		var cyc []*Node
		for i := 0; i < n; i++ {
			it := s.mdItem(2, &ids, true)
			setAttr(it, "id", fmt.Sprintf("c%d", i))
			ref := fmt.Sprintf("c%d", (i+1)%n)
			if len(plain) > 0 && s.r.Chance(30) {
				if s.r.Bool() {
					ref = vh.Pick(s.r, plain) + " " + ref
				} else {
					ref += " " + vh.Pick(s.r, plain)
				}
			}
			setAttr(it, "itemref", ref)
			cyc = append(cyc, it)
		}
		for _, it := range cyc {
			k := s.r.Intn(len(body) + 1)
			body = append(body[:k:k], append([]*Node{it}, body[k:]...)...)
		}
	}
	return E("html", nil, E("head", nil), E("body", nil, body...))
}
