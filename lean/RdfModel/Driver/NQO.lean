/-
  Driver handler for component `nqo` (property C16, N-Triples / N-Quads text offsets).

    nqo.dec <nq|nt> <eof|io> <capture 0|1> <legacy 0|1> <columns 0|1> <byte,line,col> x<hex bytes>
      → <stmt>;<stmt>…|<verdict>|<error position>
        stmt  = <quad wire>@<s>/<p>/<o>/<g>     range = b.l.c-b.l.c  or  -  (absent)
        error = E-  |  Eb<byte>  |  Et<b.l.c>  |  Er<b.l.c>-<b.l.c>
      columns = 0 prints `*` for every column (documents outside `TW.simple`, where the grapheme
      counter of the model (`onePer`) is not claimed to agree with textseg).
    nqo.simple x<hex bytes> → true|false        (the model's `Simple` predicate, tied to the harness copy)
-/
import RdfModel.Driver.Wire
import RdfModel.Driver.NQ
import RdfModel.Model.NQOffsets
import RdfModel.Model.GoUrl
import RdfModel.Gen.NQTables
namespace RdfModel.Driver.NQO
open RdfModel RdfModel.Wire RdfModel.NQ RdfModel.TW RdfModel.NQO

/-- `bufio.Reader.ReadRune` over the bytes: (rune, size); an ill-formed byte is (U+FFFD, 1).
    Same case analysis as `utf8DecodeAux` (Model/Rune.lean), with the sizes kept. -/
def decodeSized : Nat → List Nat → List RP
  | 0, _ => []
  | _, [] => []
  | fuel + 1, b0 :: rest =>
    if b0 < 0x80 then (b0, 1) :: decodeSized fuel rest
    else if b0 < 0xC2 then (0xFFFD, 1) :: decodeSized fuel rest
    else if b0 < 0xE0 then
      match rest with
      | b1 :: r1 => if isCont b1 then ((b0 - 0xC0) * 0x40 + (b1 - 0x80), 2) :: decodeSized fuel r1
                    else (0xFFFD, 1) :: decodeSized fuel rest
      | _ => (0xFFFD, 1) :: decodeSized fuel rest
    else if b0 < 0xF0 then
      let lo := if b0 = 0xE0 then 0xA0 else 0x80
      let hi := if b0 = 0xED then 0x9F else 0xBF
      match rest with
      | b1 :: b2 :: r2 =>
        if lo ≤ b1 && b1 ≤ hi && isCont b2 then
          ((b0 - 0xE0) * 0x1000 + (b1 - 0x80) * 0x40 + (b2 - 0x80), 3) :: decodeSized fuel r2
        else (0xFFFD, 1) :: decodeSized fuel rest
      | _ => (0xFFFD, 1) :: decodeSized fuel rest
    else if b0 < 0xF5 then
      let lo := if b0 = 0xF0 then 0x90 else 0x80
      let hi := if b0 = 0xF4 then 0x8F else 0xBF
      match rest with
      | b1 :: b2 :: b3 :: r3 =>
        if lo ≤ b1 && b1 ≤ hi && isCont b2 && isCont b3 then
          ((b0 - 0xF0) * 0x40000 + (b1 - 0x80) * 0x1000 + (b2 - 0x80) * 0x40 + (b3 - 0x80), 4)
            :: decodeSized fuel r3
        else (0xFFFD, 1) :: decodeSized fuel rest
      | _ => (0xFFFD, 1) :: decodeSized fuel rest
    else (0xFFFD, 1) :: decodeSized fuel rest

def sizedTok (s : String) : Option (List RP) := (bytesTok s).map (fun bs => decodeSized bs.length bs)

def showOff (withCols : Bool) (o : Offset) : String :=
  toString o.byte ++ "." ++ toString o.line ++ "." ++ (if withCols then toString o.col else "*")

def showRange (withCols : Bool) (init : Offset) : Option SRange → String
  | none => "-"
  | some r =>
    let fu := evalRange onePer init r
    showOff withCols fu.1 ++ "-" ++ showOff withCols fu.2

def showErrPos (withCols : Bool) : ErrPos → String
  | .none => "E-"
  | .byte n => "Eb" ++ toString n
  | .text o => "Et" ++ showOff withCols o
  | .range f u => "Er" ++ showOff withCols f ++ "-" ++ showOff withCols u

def parseOffset (s : String) : Option Offset :=
  match s.splitOn "," with
  | [b, l, c] => do
    let b ← b.toNat?
    let l ← l.toNat?
    let c ← c.toNat?
    pure ⟨b, l, c⟩
  | _ => none

def handle (op : String) (args : List String) : Option String :=
  match op, args with
  | "dec", [pkg, e, cap, legacy, wc, init, inp] => do
    let (T, quads) ← Driver.NQ.tablesOf pkg
    let e ← (if e = "eof" then some End.eof else if e = "io" then some End.ioerr else none)
    let init ← parseOffset init
    let rs ← sizedTok inp
    let withCols := wc = "1"
    let out := NQO.run T GoUrl.parseAbsOk e (legacy = "1") quads (cap = "1") rs
    let stmts := out.stmts.map (fun (q, rg) =>
      showQuad q ++ "@" ++ showRange withCols init rg.s ++ "/" ++ showRange withCols init rg.p ++ "/" ++
        showRange withCols init rg.o ++ "/" ++ showRange withCols init rg.g)
    pure (String.intercalate ";" stmts ++ "|" ++ Driver.NQ.showVerdict out.verdict ++ "|" ++
      showErrPos withCols (evalEOff onePer init out.eoff))
  | "simple", [inp] => do
    let rs ← sizedTok inp
    pure (toString (simple (runes rs)))
  | _, _ => none

end RdfModel.Driver.NQO
