/-
  Driver handler for the document layer of the Turtle encoder (component `ttle`, Model/TurtleEncoder.lean).

    ttle.enc <flags> <base> <prefixes> <ordered> <kind> <payload…>  →  ok x<hex of UTF-8> | err | panic | fuel | bad-order

      flags     five characters: buffered {-,0,1}  bufferedSort {-,0,1}  baseMode {-,a,s,d}  prefixMode {-,a,s,d}
                d7 {0,1} (1 = the unrepaired list decision, for trees that still carry defect D7)
      base      x<hex> | -
      prefixes  the PrefixMappingList passed to SetPrefixes, in order:  <labelhex>=<nshex>,…   | -
      ordered   `PrefixManager.GetPrefixMappings()` of the real manager (the ORDER PARAMETER: which of several
                equally long namespaces comes first is decided by Go's unstable sort); same syntax. The driver
                checks that it is a permutation of its own manager's list, sorted by descending namespace
                length in UTF-8 bytes (else `bad-order`), and uses it as `PM.ordered`.
      kind t    payload = triples `s,p,o;s,p,o;…` (wire terms; `-` = none): AddTriple for each, Close
      kind r    payload = resources `res|res|…` (`-` = none): AddResource for each, Close
                  res  = root;item;item;…     root = s/<term> | n (SubjectResource with nil subject) | a (AnonResource)
                  item = o/<predhex>/<term> | [/<predhex> | ]
      kind b    payload = triples, then two further arguments ord1 ord2 = `term,term,…` (`-` = none):
                BufferedTriplesEncoder (build, export with the default options in the given orders, AddResource, Close)

  Blank nodes are their labels (`β := List Nat`, `label := id`).
-/
import RdfModel.Driver.Wire
import RdfModel.Model.TurtleEncoder
import RdfModel.Gen.TtlTables
namespace RdfModel.Driver.TtlEnc
open RdfModel RdfModel.Wire RdfModel.TtlEnc RdfModel.Desc

def tri (c : Char) : Option (Option Bool) :=
  if c = '-' then some none else if c = '0' then some (some false) else if c = '1' then some (some true) else none

def mode (c : Char) : Option (Option DirMode) :=
  if c = '-' then some none else if c = 'a' then some (some .at) else if c = 's' then some (some .sparql)
  else if c = 'd' then some (some .disabled) else none

def runesHex (s : String) : Option (List Nat) := (unhex s).map utf8Decode

def parseMapping (s : String) : Option Prefix.Mapping :=
  match s.splitOn "=" with
  | [l, n] => do
    let l ← runesHex l
    let n ← runesHex n
    pure ⟨l, n⟩
  | _ => none

def parseList {α : Type} (f : String → Option α) (sep : String) (s : String) : Option (List α) :=
  if s = "-" then some [] else (s.splitOn sep).mapM f

def parseTermReq (s : String) : Option (Term (List Nat)) :=
  match parseTerm s with
  | some (some t) => some t
  | _ => none

def parseTriple (s : String) : Option (Triple (List Nat)) :=
  match s.splitOn "," with
  | [a, b, c] => do
    let a ← parseTermReq a
    let b ← parseTermReq b
    let c ← parseTermReq c
    match b with
    | .iri p => pure ⟨a, p, c⟩
    | _ => none
  | _ => none

/-- items of a resource, with a stack of open `[` frames: (predicate, statements so far, reversed) -/
def parseItems : List String → List (List Nat × List (Stmt (List Nat))) → List (Stmt (List Nat)) →
    Option (List (Stmt (List Nat)))
  | [], [], acc => some acc.reverse
  | [], _ :: _, _ => none
  | it :: rest, stack, acc =>
    match it.splitOn "/" with
    | ["o", p, t] => do
      let p ← runesHex p
      let t ← parseTermReq t
      parseItems rest stack (Stmt.obj p t :: acc)
    | ["[", p] => do
      let p ← runesHex p
      parseItems rest ((p, acc) :: stack) []
    | ["]"] =>
      match stack with
      | [] => none
      | (p, outer) :: stack' => parseItems rest stack' (Stmt.anon p acc.reverse :: outer)
    | _ => none

def parseResource (s : String) : Option (Resource (List Nat)) :=
  match s.splitOn ";" with
  | [] => none
  | root :: items => do
    let st ← parseItems items [] []
    match root.splitOn "/" with
    | ["s", t] => do
      let t ← parseTermReq t
      pure (Resource.subject (some t) st)
    | ["n"] => pure (Resource.subject none st)
    | ["a"] => pure (Resource.anon st)
    | _ => none

/-- is `l` sorted by descending namespace length — in UTF-8 bytes, which is what Go's `len` counts? -/
def lenSorted : List Prefix.Mapping → Bool
  | a :: b :: rest => decide ((utf8Encode b.expanded).length ≤ (utf8Encode a.expanded).length) && lenSorted (b :: rest)
  | _ => true

def removeOne (m : Prefix.Mapping) : List Prefix.Mapping → Option (List Prefix.Mapping)
  | [] => none
  | x :: xs => if x = m then some xs else (removeOne m xs).map (x :: ·)

def isPermOf : List Prefix.Mapping → List Prefix.Mapping → Bool
  | [], l => l.isEmpty
  | a :: as, l =>
    match removeOne a l with
    | none => false
    | some l' => isPermOf as l'

def showOR (r : OR (List Nat)) : String :=
  match r with
  | none => "fuel"
  | some (.ok t) => "ok " ++ tokOfRunes t
  | some .err => "err"
  | some .panic => "panic"

def handle (op : String) (args : List String) : Option String :=
  match op, args with
  | "enc", flags :: base :: prefixes :: ordered :: kind :: payload =>
    match flags.toList with
    | [f1, f2, f3, f4, f5] => do
      let buffered ← tri f1
      let sort ← tri f2
      let bm ← mode f3
      let pmode ← mode f4
      let d7 ← (if f5 = '1' then some true else if f5 = '0' then some false else none)
      let base ← (if base = "-" then some none else (runesTok base).map some)
      let raw ← parseList parseMapping "," prefixes
      let ord ← parseList parseMapping "," ordered
      let cfg : Config := { base := base, prefixes := raw, buffered := buffered, bufferedSort := sort,
                            baseMode := bm, prefixMode := pmode }
      let pm0 := Prefix.new Prefix.mergeSorter raw
      if !(lenSorted ord && isPermOf ord pm0.ordered) then pure "bad-order"
      else
        let pm : Prefix.PM := ⟨ord, pm0.byPrefix⟩
        let T := Gen.turtle
        match kind, payload with
        | "t", [ts] => do
          let ts ← parseList parseTriple ";" ts
          pure (showOR (some (encodePlainWith T cfg pm id ts)))
        | "r", [rs] => do
          let rs ← parseList parseResource "|" rs
          pure (showOR (encodeResourceListWith T d7 cfg pm id rs))
        | "b", [ts, o1, o2] => do
          let ts ← parseList parseTriple ";" ts
          let o1 ← parseList parseTermReq "," o1
          let o2 ← parseList parseTermReq "," o2
          pure (showOR (encodeResourcesWith T d7 cfg pm id o1 o2 ts))
        | _, _ => none
    | _ => none
  | _, _ => none

end RdfModel.Driver.TtlEnc
