package main

// Self-test of the Go mirror of the slot numbering: every slot whose layout is printed gets the
// comment `#<slot index>`; the printed text must then show exactly those markers, in increasing
// order, each right behind the token the mirror believes owns the slot.  Run at the start of every
// generating run (a drift between ast.go and Spec/TurtleAbstract.lean makes the known-finding
// predicates and the exhaustive part aim at the wrong tokens).

import (
	"fmt"
	"regexp"
	"strconv"
	"strings"
	"unicode/utf8"

	"verifharness/vh"
)

var markerRe = regexp.MustCompile(`#@@(\d+)\n`)

func lastRuneOf(s string) rune {
	r, _ := utf8.DecodeLastRuneInString(s)
	return r
}

// expectedBefore: runes that may stand right before the marker of slot i.
func expectedBefore(si slotInfo, c slot) []rune {
	switch si.kind {
	case skIRIREF:
		return []rune{'>'}
	case skPName:
		return []rune{lastRuneOf(si.text)}
	case skNs:
		return []rune{':'}
	case skBNode, skNum, skBool:
		return []rune{lastRuneOf(si.text)}
	case skOpen, skClose:
		return []rune{lastRuneOf(si.text)}
	case skString:
		if si.tag != "" {
			return []rune{lastRuneOf(si.tag)}
		}
		if c.sty == 1 || c.sty == 3 {
			return []rune{'\''}
		}
		return []rune{'"'}
	case skA, skKwPrefix, skKwBase, skKwGraph:
		return []rune{' '} // a keyword is followed by a white-space character unless glued
	case skAtPrefix:
		return []rune{'x'}
	case skAtBase:
		return []rune{'e'}
	case skComma:
		return []rune{','}
	case skSemi:
		return []rune{';'}
	case skDot, skDirDot:
		return []rune{'.'}
	}
	return nil
}

func (h *harness) selfTest(n int) error {
	r := vh.NewRng(vh.SeedFromEnv() ^ 0x5e1f7e57)
	var ks []*kase
	var lines []string
	for i := 0; i < n; i++ {
		d := genDoc(r.Fork(), r.Bool(), r.Bool())
		si := slotsOf(d)
		ch := genChoices(r.Fork(), si)
		for j := range ch {
			ch[j].lay = []litem{comment("@@"+strconv.Itoa(j), 0)}
			ch[j].lay2 = nil
			ch[j].glue = false
			ch[j].cs = "" // raw spelling: no `#` from escapes, comment text cannot be confused
		}
		k := &kase{kind: "selftest", pkg: "trig", d: d, ch: ch, si: si}
		ks = append(ks, k)
		lines = append(lines, k.line())
	}
	res, err := runDriver(lines)
	if err != nil {
		return err
	}
	for i, k := range ks {
		parts := strings.Split(res[i], "|")
		if len(parts) != 5 {
			return fmt.Errorf("driver answered %q to %s", res[i], lines[i])
		}
		if parts[0][0] != '1' {
			continue // values that are no token values may print anything
		}
		tb, _ := vh.UnX(parts[1])
		text := string(tb)
		var want []int
		for j, s := range k.si {
			if layUsed(s, k.ch.at(j)) {
				want = append(want, j)
			}
		}
		// markers inside string literals / IRIs would confuse the scan: the generator's values never contain "#@@"
		ms := markerRe.FindAllStringSubmatchIndex(text, -1)
		var got []int
		for _, m := range ms {
			j, _ := strconv.Atoi(text[m[2]:m[3]])
			got = append(got, j)
			if j == 0 || j >= len(k.si) {
				continue
			}
			before, _ := utf8.DecodeLastRuneInString(text[:m[0]])
			ok := false
			for _, e := range expectedBefore(k.si[j], k.ch.at(j)) {
				if e == before {
					ok = true
				}
			}
			if !ok {
				return fmt.Errorf("slot %d (kind %d, %q): marker stands behind %q in %q; line %s", j, k.si[j].kind, k.si[j].text, before, text, lines[i])
			}
		}
		if fmt.Sprint(got) != fmt.Sprint(want) {
			return fmt.Errorf("slots with printed layout: mirror says %v, the printer shows %v in %q; line %s", want, got, text, lines[i])
		}
	}
	h.rep.Count("selftest:slot-numbering-documents")
	h.rep.Hist["selftest:slot-numbering-documents"] = n
	return nil
}
