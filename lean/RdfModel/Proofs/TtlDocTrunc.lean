/-
  Statement layer of Turtle/TriG: what the scan functions that IGNORE their `err` argument do when
  the input ends in front of them (C15, the closures excluded from
  `ttl_truncation_reported_partial`).  Go hands them the zero `DecodedRune`; they compare rune 0
  with the character they expect, push it back (`BacktrackRunes(r0)`: a NUL enters the buffer) and
  a later scan function reports "unexpected rune '\x00'".  Each chain is computed here iteration by
  iteration (`iter`, Proofs/TtlDocSim.lean); the result is always `Next() = false` with a syntax
  error latched — never a clean end.
-/
import RdfModel.Proofs.TtlDocSim
namespace RdfModel.TtlDoc
open RdfModel

variable {C : Cfg} {e : End}

/-- NUL is neither white space nor the start of a name (true of `unicode.IsSpace` and PN_CHARS_BASE). -/
structure NulPlain (C : Cfg) : Prop where
  space : C.isSpace 0 = false
  base : C.pnBase 0 = false

theorem scanFn_nul (hN : NulPlain C) (f : Frame) (env : Env) :
    scanFn C e f [0] env = stepFn C e f.k f.x env (.rune 0 []) := by
  simp [scanFn, skipWs, isWs, hN.space]

theorem scanFn_end {inp : List Nat} (hend : skipWs C e false inp = .end_) (f : Frame) (env : Env) :
    scanFn C e f inp env = stepFn C e f.k f.x env .fail := by
  simp [scanFn, hend]

theorem iter_cur_ok {f : Frame} {st : St} {o : Out} (herr : st.err = none) (hs : st.stmts = [])
    (h : scanFn C e f st.inp st.env = .ok o) : iter C e (some f) st = .cont o.cur (applyOut st o) := by
  rw [iter_cur C e f herr hs, h]

theorem iter_cur_err {f : Frame} {st : St} {k : EClass} (herr : st.err = none) (hs : st.stmts = [])
    (h : scanFn C e f st.inp st.env = .err k) : iter C e (some f) st = .cont none { st with err := some k } := by
  rw [iter_cur C e f herr hs, h]

theorem iter_pop_ok {f : Frame} {s : List Frame} {st : St} {o : Out} (herr : st.err = none) (hs : st.stmts = [])
    (hstack : st.stack = f :: s) (h : scanFn C e f st.inp st.env = .ok o) :
    iter C e none st = .cont o.cur (applyOut { st with stack := s } o) := by
  rw [iter_pop C e (f := f) (st1 := { st with stack := s }) herr hs (by simp [popFrame, hstack])]
  simp only []
  rw [h]

theorem iter_pop_err {f : Frame} {s : List Frame} {st : St} {k : EClass} (herr : st.err = none) (hs : st.stmts = [])
    (hstack : st.stack = f :: s) (h : scanFn C e f st.inp st.env = .err k) :
    iter C e none st = .cont none { st with stack := s, err := some k } := by
  rw [iter_pop C e (f := f) (st1 := { st with stack := s }) herr hs (by simp [popFrame, hstack])]
  simp only []
  rw [h]

/-- an iteration that latches an error: `Next` answers false with it -/
theorem reach_latch {cur : Option Frame} {st st' : St} {k : EClass}
    (h : iter C e cur st = .cont none st') (hk : st'.err = some k) : Reach C e cur st (.no st') :=
  .step h (.done (iter_of_err (by simp [hk])))

/-- what the chains end in -/
def SyntaxEnd (C : Cfg) (e : End) (cur : Option Frame) (st : St) : Prop :=
  ∃ st', Reach C e cur st (.no st') ∧ st'.err = some .syntax

theorem stepObject_nul (hN : NulPlain C) (x : Ectx) (env : Env) : stepObject C e x env 0 [] = .err .syntax := by
  simp [stepObject, hN.base]

theorem stepPOL_nul (hN : NulPlain C) (x : Ectx) (env : Env) :
    stepPOL C e x env 0 [] = .ok { inp := [0], env := env } := by
  simp [stepPOL, hN.base]

/-- `GRAPH [` then end of input -/
theorem graphAnonClose_end (x : Ectx) {st : St} (herr : st.err = none) (hs : st.stmts = [])
    (hend : skipWs C e false st.inp = .end_) : SyntaxEnd C e (some ⟨x, .graphAnonClose⟩) st := by
  refine ⟨_, reach_latch (k := .syntax) (iter_cur_err herr hs ?_) rfl, rfl⟩
  rw [scanFn_end hend]; simp [stepFn, Arg.orNul]

/-- a `PredicateObjectList_Required` in front of a NUL -/
theorem polRequired_nul (hN : NulPlain C) (x : Ectx) {st : St} (herr : st.err = none) (hs : st.stmts = [])
    (hinp : st.inp = [0]) : SyntaxEnd C e (some ⟨x, .polRequired⟩) st := by
  refine ⟨_, reach_latch (k := .syntax) (iter_cur_err herr hs ?_) rfl, rfl⟩
  rw [hinp, scanFn_nul hN]; simp [stepFn, stepPOL_nul hN]

/-- an `Object` in front of a NUL -/
theorem object_nul (hN : NulPlain C) (x : Ectx) {st : St} (herr : st.err = none) (hs : st.stmts = [])
    (hinp : st.inp = [0]) : SyntaxEnd C e (some ⟨x, .object⟩) st := by
  refine ⟨_, reach_latch (k := .syntax) (iter_cur_err herr hs ?_) rfl, rfl⟩
  rw [hinp, scanFn_nul hN]; simp [stepFn, stepObject_nul hN]

theorem SyntaxEnd.step {cur c : Option Frame} {st s : St} (h : iter C e cur st = .cont c s)
    (hs : SyntaxEnd C e c s) : SyntaxEnd C e cur st := by
  obtain ⟨st', h1, h2⟩ := hs
  exact ⟨st', .step h h1, h2⟩

/-- TriG label, then end of input: `E1` finds no `{`, takes the label as subject, pushes the NUL back -/
theorem tgE1_end (hN : NulPlain C) (x : Ectx) (v : T) (hv : nodeShape v) {st : St} (herr : st.err = none)
    (hs : st.stmts = []) (hend : skipWs C e false st.inp = .end_) : SyntaxEnd C e (some ⟨x, .tgE1 v⟩) st := by
  have h1 : scanFn C e ⟨x, .tgE1 v⟩ st.inp st.env =
      .ok { cur := some ⟨{ x with subj := some v }, .polRequired⟩,
            push := [⟨{ x with subj := some v }, .triplesEnd⟩, ⟨{ x with subj := some v }, .polContinue⟩],
            inp := [0], env := st.env } := by
    rw [scanFn_end hend]
    simp only [stepFn, Arg.orNul]
    cases v <;> first | rfl | exact hv.elim
  refine SyntaxEnd.step (iter_cur_ok herr hs h1) ?_
  exact polRequired_nul hN _ (by simp [applyOut, herr]) (by simp [applyOut, hs]) (by simp [applyOut])

/-- the subject-position collection closure, called with nothing or with a NUL -/
theorem collOpenSubj_nul (hN : NulPlain C) (x : Ectx) (o : T) (hx : x.subj = none) {st : St} (herr : st.err = none)
    (hs : st.stmts = []) (hinp : skipWs C e false st.inp = .end_ ∨ st.inp = [0]) :
    SyntaxEnd C e (some ⟨x, .collOpenSubj o⟩) st := by
  have h1 : scanFn C e ⟨x, .collOpenSubj o⟩ st.inp st.env =
      .ok { cur := some ⟨{ x with subj := some o, pred := some (.iri rdfFirst) }, .object⟩,
            push := [⟨{ x with subj := some o, pred := some (.iri rdfFirst) }, .collContinue⟩],
            inp := [0], env := st.env } := by
    rcases hinp with h | h
    · rw [scanFn_end h]; simp [stepFn, Arg.orNul, stepCollection, hx]
    · rw [h, scanFn_nul hN]; simp [stepFn, Arg.orNul, stepCollection, hx]
  refine SyntaxEnd.step (iter_cur_ok herr hs h1) ?_
  exact object_nul hN _ (by simp [applyOut, herr]) (by simp [applyOut, hs]) (by simp [applyOut])

/-- `(` in subject position, then end of input -/
theorem paren_end (hN : NulPlain C) (top : Bool) (x : Ectx) (bn : T) (hx : x.subj = none) {st : St}
    (herr : st.err = none) (hs : st.stmts = []) (hend : skipWs C e false st.inp = .end_) :
    SyntaxEnd C e (some ⟨x, if top then .parenTop bn else .parenBlock bn⟩) st := by
  have h1 : scanFn C e ⟨x, if top then .parenTop bn else .parenBlock bn⟩ st.inp st.env =
      .ok { cur := some ⟨x, .collOpenSubj bn⟩,
            push := (if top then [(⟨x, .triplesEnd⟩ : Frame)] else []) ++
              [⟨{ x with subj := some bn }, .polContinue⟩, ⟨{ x with subj := some bn }, .polRequired⟩],
            inp := [0], env := st.env } := by
    rw [scanFn_end hend]
    cases top <;> simp [stepFn, stepParen, Arg.orNul]
  refine SyntaxEnd.step (iter_cur_ok herr hs h1) ?_
  exact collOpenSubj_nul hN x bn hx (by simp [applyOut, herr]) (by simp [applyOut, hs]) (Or.inr (by simp [applyOut]))

/-- `[` at the top level of a TriG document, then end of input: five more scan calls, then
    `blankNodePropertyList_End` meets the NUL -/
theorem tgBracket_end (hN : NulPlain C) (x : Ectx) (bn : T) {st : St} (herr : st.err = none) (hs : st.stmts = [])
    (hend : skipWs C e false st.inp = .end_) : SyntaxEnd C e (some ⟨x, .tgBracket bn⟩) st := by
  let x1 : Ectx := { x with subj := some bn }
  have h1 : scanFn C e ⟨x, .tgBracket bn⟩ st.inp st.env =
      .ok { cur := some ⟨x1, .triples2BNPL⟩, inp := [0], env := st.env } := by
    rw [scanFn_end hend]; simp [stepFn, Arg.orNul, x1]
  refine SyntaxEnd.step (iter_cur_ok herr hs h1) ?_
  let st1 : St := applyOut st { cur := some ⟨x1, .triples2BNPL⟩, inp := [0], env := st.env }
  have h2 : scanFn C e ⟨x1, .triples2BNPL⟩ st1.inp st1.env =
      .ok { cur := some ⟨x1, .pol⟩,
            push := [⟨x1, .triplesEnd⟩, ⟨x1, .polContinue⟩, ⟨x1, .pol⟩, ⟨x1, .bnplEnd⟩, ⟨x1, .polContinue⟩],
            inp := [0], env := st.env } := by
    show scanFn C e ⟨x1, .triples2BNPL⟩ [0] st.env = _
    rw [scanFn_nul hN]; simp [stepFn]
  refine SyntaxEnd.step (iter_cur_ok (st := st1) (by simp [st1, applyOut, herr]) (by simp [st1, applyOut, hs]) h2) ?_
  let st2 : St := applyOut st1 { cur := some ⟨x1, .pol⟩, push := [⟨x1, .triplesEnd⟩, ⟨x1, .polContinue⟩, ⟨x1, .pol⟩, ⟨x1, .bnplEnd⟩, ⟨x1, .polContinue⟩], inp := [0], env := st.env }
  have h3 : scanFn C e ⟨x1, .pol⟩ st2.inp st2.env = .ok { inp := [0], env := st.env } := by
    show scanFn C e ⟨x1, .pol⟩ [0] st.env = _
    rw [scanFn_nul hN]; simp [stepFn, stepPOL_nul hN]
  refine SyntaxEnd.step (iter_cur_ok (st := st2) (by simp [st2, st1, applyOut, herr]) (by simp [st2, st1, applyOut, hs]) h3) ?_
  let st3 : St := applyOut st2 { inp := [0], env := st.env }
  have hstack3 : st3.stack = ⟨x1, .polContinue⟩ :: ⟨x1, .bnplEnd⟩ :: ⟨x1, .pol⟩ :: ⟨x1, .polContinue⟩ :: ⟨x1, .triplesEnd⟩ :: st.stack := by
    simp [st3, st2, st1, applyOut]
  have h4 : scanFn C e ⟨x1, .polContinue⟩ st3.inp st3.env = .ok { inp := [0], env := st.env } := by
    show scanFn C e ⟨x1, .polContinue⟩ [0] st.env = _
    rw [scanFn_nul hN]; simp [stepFn]
  refine SyntaxEnd.step (iter_pop_ok (st := st3) (by simp [st3, st2, st1, applyOut, herr])
    (by simp [st3, st2, st1, applyOut, hs]) hstack3 h4) ?_
  let st4 : St := applyOut { st3 with stack := ⟨x1, .bnplEnd⟩ :: ⟨x1, .pol⟩ :: ⟨x1, .polContinue⟩ :: ⟨x1, .triplesEnd⟩ :: st.stack } { inp := [0], env := st.env }
  have hstack4 : st4.stack = ⟨x1, .bnplEnd⟩ :: ⟨x1, .pol⟩ :: ⟨x1, .polContinue⟩ :: ⟨x1, .triplesEnd⟩ :: st.stack := by
    simp [st4, applyOut]
  have h5 : scanFn C e ⟨x1, .bnplEnd⟩ st4.inp st4.env = .err .syntax := by
    show scanFn C e ⟨x1, .bnplEnd⟩ [0] st.env = _
    rw [scanFn_nul hN]; simp [stepFn]
  exact ⟨_, reach_latch (k := .syntax) (iter_pop_err (st := st4) (by simp [st4, st3, st2, st1, applyOut, herr])
    (by simp [st4, st3, st2, st1, applyOut, hs]) hstack4 h5) rfl, rfl⟩

end RdfModel.TtlDoc
