/-
  Locality of the Turtle/TriG token producers (building block of C15 `prefix_monotone`): a producer
  that has stopped before the end of its input behaves the same on every extension of that input.

  "Stopped before the end" is stated uniformly as: it succeeded and left something other than
  nothing or a lone `.` in the buffer.  (`1.` at the end of the input yields the integer `1` and
  pushes the `.` back — the D43 situation —, while `1.5` is a decimal.  A producer that ends on a
  closing delimiter — IRIREF, strings, PNAME_NS, the boolean keywords — is local whatever it leaves.)
-/
import RdfModel.Props.C05TtlDefs
namespace RdfModel.Ttl
open RdfModel

/-! ### IRIREF -/

theorem scanIRIREF_local (T : Tables) (e' : End) (s : List Nat) :
    ∀ (i : List Nat) (st : SState) (acc v r : List Nat),
      scanIRIREF T .eof st i acc = .ok v r → scanIRIREF T e' st (i ++ s) acc = .ok v (r ++ s) := by
  intro i
  induction i with
  | nil => intro st acc v r h; cases st <;> simp [scanIRIREF] at h
  | cons c rest ih =>
    intro st acc v r h
    cases st with
    | body =>
      simp only [List.cons_append, scanIRIREF] at h ⊢
      split at h
      · next hc => simp only [hc, if_true]; injection h with h1 h2; subst h1; subst h2; rfl
      · next hc =>
        simp only [hc, if_false]
        split at h
        · next h2 => simp only [h2, if_true]; exact ih _ _ _ _ h
        · next h2 =>
          simp only [h2, if_false]
          split at h
          · cases h
          · next h3 => simp only [h3]; exact ih _ _ _ _ h
    | esc =>
      simp only [List.cons_append, scanIRIREF] at h ⊢
      split at h
      · next hc => simp only [hc, if_true]; exact ih _ _ _ _ h
      · next hc =>
        simp only [hc, if_false]
        split at h
        · next h2 => simp only [h2, if_true]; exact ih _ _ _ _ h
        · cases h
    | hex ms val =>
      cases ms with
      | nil => simp [scanIRIREF] at h
      | cons m ms =>
        simp only [List.cons_append, scanIRIREF] at h ⊢
        split at h
        · cases h
        · next d hd =>
          split at h
          · cases h
          · next h2 =>
            rw [if_neg h2]
            cases ms with
            | nil => simp only [] at h ⊢; exact ih _ _ _ _ h
            | cons m' ms' => simp only [] at h ⊢; exact ih _ _ _ _ h

theorem produceIRIREF_local (T : Tables) (e' : End) (s i v r : List Nat)
    (h : produceIRIREF T .eof i = .ok v r) : produceIRIREF T e' (i ++ s) = .ok v (r ++ s) := by
  cases i with
  | nil => simp [produceIRIREF] at h
  | cons c rest =>
    simp only [List.cons_append, produceIRIREF] at h ⊢
    split at h
    · next hc => simp only [hc, if_true]; exact scanIRIREF_local T e' s _ _ _ _ _ h
    · cases h

/-! ### PNAME_NS -/

theorem pnameNsLoop_local (T : Tables) (e' : End) (s : List Nat) :
    ∀ (i acc v r : List Nat), pnameNsLoop T .eof i acc = .ok v r → pnameNsLoop T e' (i ++ s) acc = .ok v (r ++ s) := by
  intro i
  induction i with
  | nil => intro acc v r h; simp [pnameNsLoop] at h
  | cons c rest ih =>
    intro acc v r h
    simp only [List.cons_append, pnameNsLoop] at h ⊢
    split at h
    · next hc => simp only [hc, if_true]; injection h with h1 h2; subst h1; subst h2; rfl
    · next hc =>
      simp only [hc, if_false]
      split at h
      · next h2 => simp only [h2, if_true]; exact ih _ _ _ h
      · cases h

theorem producePNAME_NS_local (T : Tables) (e' : End) (s i v r : List Nat)
    (h : producePNAME_NS T .eof i = .ok v r) : producePNAME_NS T e' (i ++ s) = .ok v (r ++ s) := by
  cases i with
  | nil => simp [producePNAME_NS] at h
  | cons c rest =>
    simp only [List.cons_append, producePNAME_NS] at h ⊢
    split at h
    · next hc => simp only [hc, if_true]; injection h with h1 h2; subst h1; subst h2; rfl
    · next hc =>
      simp only [hc, if_false]
      split at h
      · next h2 => simp only [h2, if_true]; exact pnameNsLoop_local T e' s _ _ _ _ h
      · cases h

/-! ### LANGTAG -/

theorem langDone_ext (acc rest v r s : List Nat) (h : langDone acc rest = .ok v r) :
    r = rest ∧ langDone acc (rest ++ s) = .ok v (r ++ s) := by
  unfold langDone at h ⊢
  split at h
  · cases h
  · next hc => injection h with h1 h2; subst h1; subst h2; simp [hc]

theorem langSecondary_local (e' : End) (s : List Nat) :
    ∀ (i acc v r : List Nat), langSecondary .eof i acc = .ok v r → r ≠ [] →
      langSecondary e' (i ++ s) acc = .ok v (r ++ s) := by
  intro i
  induction i with
  | nil =>
    intro acc v r h hr
    simp only [langSecondary] at h
    exact absurd (langDone_ext _ _ _ _ [] h).1 hr
  | cons c rest ih =>
    intro acc v r h hr
    simp only [List.cons_append, langSecondary] at h ⊢
    split at h
    · next hc => simp only [hc, if_true]; exact ih _ _ _ h hr
    · next hc =>
      simp only [hc, if_false]
      split at h
      · next h2 =>
        subst h2
        simp only [if_true]
        split at h
        · cases h
        · next h3 => simp only [h3, if_false]; exact ih _ _ _ h hr
      · next h2 =>
        simp only [h2, if_false]
        have := (langDone_ext _ _ _ _ s h).2
        simpa using this

theorem langPrimary_local (e' : End) (s : List Nat) :
    ∀ (i acc v r : List Nat), langPrimary .eof i acc = .ok v r → r ≠ [] →
      langPrimary e' (i ++ s) acc = .ok v (r ++ s) := by
  intro i
  induction i with
  | nil =>
    intro acc v r h hr
    simp only [langPrimary] at h
    split at h
    · cases h
    · exact absurd (langDone_ext _ _ _ _ [] h).1 hr
  | cons c rest ih =>
    intro acc v r h hr
    simp only [List.cons_append, langPrimary] at h ⊢
    split at h
    · next hc => simp only [hc, if_true]; exact ih _ _ _ h hr
    · next hc =>
      simp only [hc, if_false]
      split at h
      · next h2 =>
        subst h2
        simp only [if_true]
        split at h
        · cases h
        · next h3 => simp only [h3, if_false]; exact langSecondary_local e' s _ _ _ _ h hr
      · next h2 =>
        simp only [h2, if_false]
        split at h
        · cases h
        · next h3 =>
          simp only [h3, if_false]
          have := (langDone_ext _ _ _ _ s h).2
          simpa using this

theorem produceLANGTAG_local (e' : End) (s i v r : List Nat) (h : produceLANGTAG .eof i = .ok v r) (hr : r ≠ []) :
    produceLANGTAG e' (i ++ s) = .ok v (r ++ s) := by
  cases i with
  | nil => simp [produceLANGTAG] at h
  | cons c rest =>
    simp only [List.cons_append, produceLANGTAG] at h ⊢
    split at h
    · next hc => simp only [hc, if_true]; exact langPrimary_local e' s _ _ _ _ h hr
    · cases h

/-! ### boolean keywords -/

theorem matchKeyword_local (e e' : End) (s : List Nat) :
    ∀ (kw i : List Nat) (o : Option (List Nat)), matchKeyword e kw i = some o →
      matchKeyword e' kw (i ++ s) = some (o.map (· ++ s)) := by
  intro kw
  induction kw with
  | nil => intro i o h; simp only [matchKeyword] at h ⊢; injection h with h; subst h; rfl
  | cons k ks ih =>
    intro i o h
    cases i with
    | nil => simp [matchKeyword] at h
    | cons c rest =>
      simp only [List.cons_append, matchKeyword] at h ⊢
      split at h
      · next hc => simp only [hc, if_true]; exact ih _ _ h
      · next hc => simp only [hc, if_false]; injection h with h; subst h; rfl

/-- the keyword was read (`.bool`) or ruled out (`.other`): the same on every extension -/
theorem scanBoolean_local (e' : End) (s i : List Nat) :
    (∀ b r, scanBoolean .eof i = .bool b r → scanBoolean e' (i ++ s) = .bool b (r ++ s)) ∧
    (scanBoolean .eof i = .other → scanBoolean e' (i ++ s) = .other) := by
  cases i with
  | nil => simp [scanBoolean]
  | cons c rest =>
    simp only [List.cons_append, scanBoolean]
    by_cases h1 : c = 0x74
    · simp only [h1, if_true]
      cases hm : matchKeyword .eof (asc "rue") rest with
      | none => simp
      | some o =>
        rw [matchKeyword_local .eof e' s _ _ _ hm]
        cases o <;> simp
    · simp only [h1, if_false]
      by_cases h2 : c = 0x66
      · simp only [h2, if_true]
        cases hm : matchKeyword .eof (asc "alse") rest with
        | none => simp
        | some o =>
          rw [matchKeyword_local .eof e' s _ _ _ hm]
          cases o <;> simp
      · simp [h2]

/-! ### blank node labels -/

theorem bnDone_ext (T : Tables) (acc rest v r s : List Nat) (h : bnDone T acc rest = .ok v r) :
    (r = rest ∨ r = 0x2e :: rest) ∧ bnDone T acc (rest ++ s) = .ok v (r ++ s) := by
  cases acc with
  | nil => simp [bnDone] at h
  | cons l more =>
    by_cases hl : l = 0x2e
    · simp only [bnDone, hl, if_true] at h ⊢
      cases more with
      | nil => simp only [] at h ⊢; injection h with h1 h2; subst h1; subst h2; exact ⟨Or.inr rfl, rfl⟩
      | cons z more' =>
        simp only [] at h ⊢
        split at h
        · cases h
        · next hz => rw [if_neg hz]; injection h with h1 h2; subst h1; subst h2; exact ⟨Or.inr rfl, rfl⟩
    · simp only [bnDone, hl, if_false] at h ⊢
      split at h
      · cases h
      · next hz => rw [if_neg hz]; injection h with h1 h2; subst h1; subst h2; exact ⟨Or.inl rfl, rfl⟩

theorem bnLoop_local (T : Tables) (e' : End) (s : List Nat) :
    ∀ (i acc v r : List Nat), bnLoop T .eof i acc = .ok v r → (r ≠ [] ∧ r ≠ [0x2e]) →
      bnLoop T e' (i ++ s) acc = .ok v (r ++ s) := by
  intro i
  induction i with
  | nil =>
    intro acc v r h hr
    simp only [bnLoop] at h
    rcases (bnDone_ext T _ _ _ _ [] h).1 with rfl | rfl <;> simp at hr
  | cons c rest ih =>
    intro acc v r h hr
    simp only [List.cons_append, bnLoop] at h ⊢
    split at h
    · next hc => simp only [hc, if_true]; exact ih _ _ _ h hr
    · next hc =>
      simp only [hc]
      have := (bnDone_ext T _ _ _ _ s h).2
      simpa using this

theorem produceBlankNode_local (T : Tables) (e' : End) (s i v r : List Nat)
    (h : produceBlankNode T .eof i = .ok v r) (hr : (r ≠ [] ∧ r ≠ [0x2e])) :
    produceBlankNode T e' (i ++ s) = .ok v (r ++ s) := by
  cases i with
  | nil => simp [produceBlankNode] at h
  | cons c0 r0 =>
    simp only [List.cons_append, produceBlankNode] at h ⊢
    split at h
    · cases h
    · next h0 =>
      rw [if_neg h0]
      cases r0 with
      | nil => simp at h
      | cons c1 r1 =>
        simp only [List.cons_append] at h ⊢
        split at h
        · cases h
        · next h1 =>
          rw [if_neg h1]
          cases r1 with
          | nil => simp at h
          | cons c2 r2 =>
            simp only [List.cons_append] at h ⊢
            split at h
            · next h2 => simp only [h2, if_true]; exact bnLoop_local T e' s _ _ _ _ h hr
            · cases h

/-! ### numbers -/

theorem numDone_ext (acc : List Nat) (k : Option NumKind) (rest : List Nat) (v : NumKind × List Nat) (r s : List Nat)
    (h : numDone acc k rest = .ok v r) :
    (r = rest ∨ r = 0x2e :: rest) ∧ numDone acc k (rest ++ s) = .ok v (r ++ s) := by
  cases acc with
  | nil => simp [numDone] at h
  | cons l more =>
    simp only [numDone] at h ⊢
    split at h
    · next hl => simp only [hl, if_true]; injection h with h1 h2; subst h1; subst h2; exact ⟨Or.inr rfl, rfl⟩
    · next hl =>
      rw [if_neg hl]
      split at h
      · cases h
      · next h2 => rw [if_neg h2]; injection h with h1 h2; subst h1; subst h2; exact ⟨Or.inl rfl, rfl⟩

theorem scanNum_local (e' : End) (s : List Nat) :
    ∀ (i : List Nat) (st : NState) (k : Option NumKind) (acc : List Nat) (v : NumKind × List Nat) (r : List Nat),
      scanNum .eof st k i acc = .ok v r → (r ≠ [] ∧ r ≠ [0x2e]) → scanNum e' st k (i ++ s) acc = .ok v (r ++ s) := by
  intro i
  induction i with
  | nil =>
    intro st k acc v r h hr
    cases st <;> simp only [scanNum] at h <;>
      first
      | cases h
      | (rcases (numDone_ext _ _ _ _ _ [] h).1 with rfl | rfl <;> simp at hr)
  | cons c rest ih =>
    intro st k acc v r h hr
    cases st with
    | sign =>
      simp only [List.cons_append, scanNum] at h ⊢
      split at h
      · next hc => simp only [hc, if_true]; exact ih _ _ _ _ _ h hr
      · next hc =>
        simp only [hc]
        split at h
        · next h2 => subst h2; simp only [if_true]; exact ih _ _ _ _ _ h hr
        · next h2 =>
          rw [if_neg h2]
          split at h
          · next h3 => rw [if_pos h3]; exact ih _ _ _ _ _ h hr
          · next h3 =>
            rw [if_neg h3]
            have := (numDone_ext _ _ _ _ _ s h).2
            simpa using this
    | int =>
      simp only [List.cons_append, scanNum] at h ⊢
      split at h
      · next hc => simp only [hc, if_true]; exact ih _ _ _ _ _ h hr
      · next hc =>
        simp only [hc]
        split at h
        · next h3 => rw [if_pos h3]; exact ih _ _ _ _ _ h hr
        · next h3 =>
          rw [if_neg h3]
          have := (numDone_ext _ _ _ _ _ s h).2
          simpa using this
    | exp0 =>
      simp only [List.cons_append, scanNum] at h ⊢
      split at h
      · next hc => rw [if_pos hc]; exact ih _ _ _ _ _ h hr
      · cases h
    | exp =>
      simp only [List.cons_append, scanNum] at h ⊢
      split at h
      · next hc => simp only [hc, if_true]; exact ih _ _ _ _ _ h hr
      · next hc =>
        simp only [hc]
        have := (numDone_ext _ _ _ _ _ s h).2
        simpa using this

theorem produceNumericLiteral_local (e' : End) (s i : List Nat) (v : NumKind × List Nat) (r : List Nat)
    (h : produceNumericLiteral .eof i = .ok v r) (hr : (r ≠ [] ∧ r ≠ [0x2e])) :
    produceNumericLiteral e' (i ++ s) = .ok v (r ++ s) := by
  cases i with
  | nil => simp [produceNumericLiteral] at h
  | cons c rest =>
    simp only [List.cons_append, produceNumericLiteral] at h ⊢
    split at h
    · next hc => rw [if_pos hc]; exact scanNum_local e' s _ _ _ _ _ _ h hr
    · next hc =>
      rw [if_neg hc]
      split at h
      · next h2 => subst h2; simp only [if_true]; exact scanNum_local e' s _ _ _ _ _ _ h hr
      · cases h

/-! ### prefixed names -/

theorem localDone_ext (acc : List Nat) (le : Bool) (rest v r s : List Nat) (h : localDone acc le rest = .ok v r) :
    (r = rest ∨ r = 0x2e :: rest) ∧ localDone acc le (rest ++ s) = .ok v (r ++ s) := by
  cases acc with
  | nil => simp [localDone] at h
  | cons l more =>
    simp only [localDone] at h ⊢
    split at h
    · next hl => rw [if_pos hl]; injection h with h1 h2; subst h1; subst h2; exact ⟨Or.inr rfl, rfl⟩
    · next hl => rw [if_neg hl]; injection h with h1 h2; subst h1; subst h2; exact ⟨Or.inl rfl, rfl⟩

theorem scanLocal_local (T : Tables) (e' : End) (s : List Nat) :
    ∀ (i : List Nat) (st : LState) (acc : List Nat) (le : Bool) (v r : List Nat),
      scanLocal T .eof st i acc le = .ok v r → (r ≠ [] ∧ r ≠ [0x2e]) → scanLocal T e' st (i ++ s) acc le = .ok v (r ++ s) := by
  intro i
  induction i with
  | nil =>
    intro st acc le v r h hr
    cases st <;> simp only [scanLocal] at h
    · injection h with h1 h2; subst h2; simp at hr
    · rcases (localDone_ext _ _ _ _ _ [] h).1 with rfl | rfl <;> simp at hr
    · cases h
    · cases h
    · cases h
  | cons c rest ih =>
    intro st acc le v r h hr
    cases st with
    | first =>
      simp only [List.cons_append, scanLocal] at h ⊢
      split at h
      · next hc => rw [if_pos hc]; exact ih _ _ _ _ _ h hr
      · next hc =>
        rw [if_neg hc]
        split at h
        · next h2 => subst h2; simp only [if_true]; exact ih _ _ _ _ _ h hr
        · next h2 =>
          rw [if_neg h2]
          split at h
          · next h3 => subst h3; simp only [if_true]; exact ih _ _ _ _ _ h hr
          · next h3 =>
            rw [if_neg h3]
            injection h with h1 h2; subst h1; subst h2; rfl
    | body =>
      simp only [List.cons_append, scanLocal] at h ⊢
      split at h
      · next hc => rw [if_pos hc]; exact ih _ _ _ _ _ h hr
      · next hc =>
        rw [if_neg hc]
        split at h
        · next h2 => subst h2; simp only [if_true]; exact ih _ _ _ _ _ h hr
        · next h2 =>
          rw [if_neg h2]
          split at h
          · next h3 => subst h3; simp only [if_true]; exact ih _ _ _ _ _ h hr
          · next h3 =>
            rw [if_neg h3]
            have := (localDone_ext _ _ _ _ _ s h).2
            simpa using this
    | pct1 =>
      simp only [List.cons_append, scanLocal] at h ⊢
      split at h
      · cases h
      · next hc => rw [if_neg hc]; exact ih _ _ _ _ _ h hr
    | pct2 hx =>
      simp only [List.cons_append, scanLocal] at h ⊢
      split at h
      · cases h
      · next hc => rw [if_neg hc]; exact ih _ _ _ _ _ h hr
    | esc =>
      simp only [List.cons_append, scanLocal] at h ⊢
      split at h
      · next hc => rw [if_pos hc]; exact ih _ _ _ _ _ h hr
      · cases h

theorem producePrefixedName_local (T : Tables) (e' : End) (s i : List Nat) (v : List Nat × List Nat) (r : List Nat)
    (h : producePrefixedName T .eof i = .ok v r) (hr : (r ≠ [] ∧ r ≠ [0x2e])) :
    producePrefixedName T e' (i ++ s) = .ok v (r ++ s) := by
  unfold producePrefixedName at h ⊢
  cases hns : producePNAME_NS T .eof i with
  | err c => rw [hns] at h; cases h
  | panic => rw [hns] at h; cases h
  | ok ns rest =>
    rw [hns] at h; simp only [] at h
    rw [producePNAME_NS_local T e' s i ns rest hns]; simp only []
    cases hl : scanLocal T .eof .first rest [] false with
    | err c => rw [hl] at h; cases h
    | panic => rw [hl] at h; cases h
    | ok loc rest' =>
      rw [hl] at h; simp only [] at h
      injection h with h1 h2; subst h1; subst h2
      rw [scanLocal_local T e' s _ _ _ _ _ _ hl hr]

/-! ### strings -/

theorem scanString_local (T : Tables) (e' : End) (delim : Nat) (triple : Bool) (s : List Nat) :
    ∀ (i : List Nat) (st : SState) (acc v r : List Nat),
      scanString T .eof delim triple st i acc = .ok v r →
      scanString T e' delim triple st (i ++ s) acc = .ok v (r ++ s) := by
  intro i
  induction i with
  | nil => intro st acc v r h; cases st <;> simp [scanString] at h
  | cons c rest ih =>
    intro st acc v r h
    cases st with
    | body =>
      simp only [List.cons_append, scanString] at h ⊢
      by_cases hq : c = 0x22 ∨ c = 0x27
      · rw [if_pos hq] at h ⊢
        by_cases hd : c = delim
        · rw [if_pos hd] at h ⊢
          cases triple with
          | false =>
            simp only [Bool.not_false, if_true] at h ⊢
            injection h with h1 h2; subst h1; subst h2; rfl
          | true =>
            simp only [Bool.not_true, Bool.false_eq_true, if_false] at h ⊢
            cases rest with
            | nil => simp at h
            | cons c1 r1 =>
              simp only [List.cons_append] at h ⊢
              by_cases h1 : c1 = delim
              · rw [if_pos h1] at h ⊢
                cases r1 with
                | nil => simp at h
                | cons c2 r2 =>
                  simp only [List.cons_append] at h ⊢
                  by_cases h2 : c2 = delim
                  · rw [if_pos h2] at h ⊢
                    injection h with q1 q2; subst q1; subst q2; rfl
                  · rw [if_neg h2] at h ⊢
                    exact ih _ _ _ _ h
              · rw [if_neg h1] at h ⊢
                exact ih _ _ _ _ h
        · rw [if_neg hd] at h ⊢
          exact ih _ _ _ _ h
      · rw [if_neg hq] at h ⊢
        by_cases hb : c = 0x5c
        · rw [if_pos hb] at h ⊢; exact ih _ _ _ _ h
        · rw [if_neg hb] at h ⊢; exact ih _ _ _ _ h
    | esc =>
      simp only [List.cons_append, scanString] at h ⊢
      by_cases h1 : c = 0x75
      · rw [if_pos h1] at h ⊢; exact ih _ _ _ _ h
      · rw [if_neg h1] at h ⊢
        by_cases h2 : c = 0x55
        · rw [if_pos h2] at h ⊢; exact ih _ _ _ _ h
        · rw [if_neg h2] at h ⊢
          cases hd : echarDecode c with
          | none => rw [hd] at h; cases h
          | some d => rw [hd] at h; simp only [] at h ⊢; exact ih _ _ _ _ h
    | hex ms val =>
      cases ms with
      | nil => simp [scanString] at h
      | cons m ms =>
        simp only [List.cons_append, scanString] at h ⊢
        split at h
        · cases h
        · next d hd =>
          split at h
          · cases h
          · next h2 =>
            rw [if_neg h2]
            cases ms with
            | nil => simp only [] at h ⊢; exact ih _ _ _ _ h
            | cons m' ms' => simp only [] at h ⊢; exact ih _ _ _ _ h

/-- `""` right at the end of the input is the one success of `produceString` that an extension can
    change (into a long string): excluded by `r ≠ []`. -/
theorem produceString_local (T : Tables) (e' : End) (s i v r : List Nat)
    (h : produceString T .eof i = .ok v r) (hr : r ≠ []) : produceString T e' (i ++ s) = .ok v (r ++ s) := by
  cases i with
  | nil => simp [produceString] at h
  | cons q rest =>
    simp only [List.cons_append, produceString] at h ⊢
    by_cases hq : q = 0x22 ∨ q = 0x27
    · rw [if_pos hq] at h ⊢
      cases rest with
      | nil => simp at h
      | cons c1 r1 =>
        simp only [List.cons_append] at h ⊢
        by_cases h1 : c1 = q
        · rw [if_pos h1] at h ⊢
          cases r1 with
          | nil => simp only [] at h; injection h with q1 q2; exact absurd q2.symm hr
          | cons c2 r2 =>
            simp only [List.cons_append] at h ⊢
            by_cases h2 : c2 = q
            · rw [if_pos h2] at h ⊢; exact scanString_local T e' q true s _ _ _ _ _ h
            · rw [if_neg h2] at h ⊢; injection h with q1 q2; subst q1; subst q2; rfl
        · rw [if_neg h1] at h ⊢
          exact scanString_local T e' q false s (c1 :: r1) _ _ _ _ h
    · rw [if_neg hq] at h; cases h

end RdfModel.Ttl

namespace RdfModel.TtlDoc
open RdfModel

/-- Locality of the token producers, as the statement layer needs it for `prefix_monotone`: a
    producer that succeeded and left enough in the buffer (see the header) gives the same token, and
    the same remainder followed by `s`, on the input extended by `s` — whatever the extended stream
    ends with. -/
structure Producers.Local (P : Producers) : Prop where
  iriref : ∀ e' i v r s, P.iriref .eof i = .ok v r → P.iriref e' (i ++ s) = .ok v (r ++ s)
  string : ∀ e' i v r s, P.string .eof i = .ok v r → r ≠ [] → P.string e' (i ++ s) = .ok v (r ++ s)
  pnameNS : ∀ e' i v r s, P.pnameNS .eof i = .ok v r → P.pnameNS e' (i ++ s) = .ok v (r ++ s)
  pname : ∀ e' i v r s, P.pname .eof i = .ok v r → (r ≠ [] ∧ r ≠ [0x2e]) → P.pname e' (i ++ s) = .ok v (r ++ s)
  bnode : ∀ e' i v r s, P.bnode .eof i = .ok v r → (r ≠ [] ∧ r ≠ [0x2e]) → P.bnode e' (i ++ s) = .ok v (r ++ s)
  langtag : ∀ e' i v r s, P.langtag .eof i = .ok v r → r ≠ [] → P.langtag e' (i ++ s) = .ok v (r ++ s)
  numeric : ∀ e' i v r s, P.numeric .eof i = .ok v r → (r ≠ [] ∧ r ≠ [0x2e]) → P.numeric e' (i ++ s) = .ok v (r ++ s)
  boolean : ∀ e' i s, (∀ b r, P.boolean .eof i = .bool b r → P.boolean e' (i ++ s) = .bool b (r ++ s)) ∧
    (P.boolean .eof i = .other → P.boolean e' (i ++ s) = .other)

/-- The real producers are local. -/
theorem real_local (T : Ttl.Tables) : (Producers.real T).Local where
  iriref := fun e' i v r s h => Ttl.produceIRIREF_local T e' s i v r h
  string := fun e' i v r s h hr => Ttl.produceString_local T e' s i v r h hr
  pnameNS := fun e' i v r s h => Ttl.producePNAME_NS_local T e' s i v r h
  pname := fun e' i v r s h hr => Ttl.producePrefixedName_local T e' s i v r h hr
  bnode := fun e' i v r s h hr => Ttl.produceBlankNode_local T e' s i v r h hr
  langtag := fun e' i v r s h hr => Ttl.produceLANGTAG_local e' s i v r h hr
  numeric := fun e' i v r s h hr => Ttl.produceNumericLiteral_local e' s i v r h hr
  boolean := fun e' i s => Ttl.scanBoolean_local e' s i

end RdfModel.TtlDoc
