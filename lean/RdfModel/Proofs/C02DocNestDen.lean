/-
  Proofs.C02DocNestDen — nested-resource mode as a printed abstract document, DENOTATION of lists:
  what `TA.dObjs` / `TA.dPOs` / `TA.dItems` yield for the abstract syntax the encoder's text stands for, in
  terms of the flattening (`Desc.stmtsNewTriples`) of a deep permutation of the statement tree; and the
  list-cell decision `normalizedListSyntax` (`TtlEnc.listSyntaxAux`, repaired) as a deep permutation.
-/
import RdfModel.Proofs.C02DocNestList
import RdfModel.Proofs.C02DocDP
import RdfModel.Props.C02DocNestDefs
namespace RdfModel.Proofs.C02Doc
open RdfModel RdfModel.Ttl RdfModel.TtlEnc RdfModel.C02 RdfModel.Desc RdfModel.Spec.TtlPrint

variable {T : Tables} {β : Type} {C : TtlDoc.Cfg} {c : Ctx β} {base : Option (List Nat)}

theorem rdfFirst_eq' : TA.rdfFirst = Desc.rdfFirst := rfl
theorem rdfRest_eq' : TA.rdfRest = Desc.rdfRest := rfl
theorem rdfNil_eq' : TA.rdfNil = Desc.rdfNil := rfl

theorem stmtsNewTriples_append (s : Term (Desc.BN β)) : ∀ (a b : List (Stmt β)) (n : Nat),
    stmtsNewTriples s (a ++ b) n =
      ((stmtsNewTriples s a n).1 ++ (stmtsNewTriples s b (stmtsNewTriples s a n).2).1,
       (stmtsNewTriples s b (stmtsNewTriples s a n).2).2)
  | [], b, n => by simp [stmtsNewTriples]
  | x :: a, b, n => by
    simp only [List.cons_append, stmtsNewTriples, stmtsNewTriples_append s a b, List.append_assoc]

/-- the abstract object `x` denotes (under every subject and state) what the statement `s'` flattens to -/
def ObjDen (C : TtlDoc.Cfg) (c : Ctx β) (base : Option (List Nat)) (x : TA.Obj) (s' : Stmt β)
    (used : List (List Nat)) : Prop :=
  ∀ (D : List Nat → Prop) (st : TA.DState), StOK base c.pm D st → (∀ l ∈ used, D l) → ∀ (sN : Term (Desc.BN β)),
    ∃ (o' : TA.TermB) (ts : List (Triple TA.B)),
      TA.dObj C.resolve none st x =
        some (o', ts.map quadOf, { st with next := (Stmt.newTriples sN s' st.next).2 }) ∧
      ((⟨sN.map (sig c.label), stmtPred s', o'⟩ : Triple TA.B) :: ts).Perm
        ((Stmt.newTriples sN s' st.next).1.map (Triple.map (sig c.label)))

/-- … the same for a predicate-object list and a statement list -/
def PosDen (C : TtlDoc.Cfg) (c : Ctx β) (base : Option (List Nat)) (pos : List TA.PO) (l' : List (Stmt β))
    (used : List (List Nat)) : Prop :=
  ∀ (D : List Nat → Prop) (st : TA.DState), StOK base c.pm D st → (∀ l ∈ used, D l) → ∀ (sN : Term (Desc.BN β)),
    ∃ (ts : List (Triple TA.B)),
      TA.dPOs C.resolve (sN.map (sig c.label)) none st pos =
        some (ts.map quadOf, { st with next := (stmtsNewTriples sN l' st.next).2 }) ∧
      ts.Perm ((stmtsNewTriples sN l' st.next).1.map (Triple.map (sig c.label)))

/-- an object with everything known about it -/
structure DItem (β : Type) extends OItem where
  s' : Stmt β
  used : List (List Nat)

/-- a `verb objectList` with everything known about it -/
structure DGItem (β : Type) extends GItem where
  l' : List (Stmt β)
  used : List (List Nat)

theorem st_next_eta (st : TA.DState) : { st with next := st.next } = st := by cases st; rfl

/-- `o1 , o2 , …` under one verb -/
theorem objs_den (p : List Nat) : ∀ (os : List (DItem β)),
    (∀ o ∈ os, ObjDen C c base o.x o.s' o.used ∧ stmtPred o.s' = p) →
    ∀ (D : List Nat → Prop) (st : TA.DState), StOK base c.pm D st → (∀ o ∈ os, ∀ l ∈ o.used, D l) →
    ∀ (sN : Term (Desc.BN β)),
      ∃ (ts : List (Triple TA.B)),
        TA.dObjs C.resolve (sN.map (sig c.label)) (.iri p) none st (os.map (·.x)) =
          some (ts.map quadOf, { st with next := (stmtsNewTriples sN (os.map (·.s')) st.next).2 }) ∧
        ts.Perm ((stmtsNewTriples sN (os.map (·.s')) st.next).1.map (Triple.map (sig c.label)))
  | [], _, D, st, _, _, sN => by
    refine ⟨[], ?_, List.Perm.refl _⟩
    cases st
    rfl
  | o :: os, h, D, st, hst, hD, sN => by
    obtain ⟨hden, hp⟩ := h o List.mem_cons_self
    obtain ⟨o', ts1, h1, hp1⟩ := hden D st hst (hD o List.mem_cons_self) sN
    obtain ⟨ts2, h2, hp2⟩ := objs_den p os (fun x hx => h x (List.mem_cons_of_mem _ hx)) D _
      (hst.next (Stmt.newTriples sN o.s' st.next).2) (fun x hx => hD x (List.mem_cons_of_mem _ hx)) sN
    refine ⟨(⟨sN.map (sig c.label), p, o'⟩ : Triple TA.B) :: ts1 ++ ts2, ?_, ?_⟩
    · simp only [List.map_cons, TA.dObjs, h1, h2, stmtsNewTriples]
      simp [quadOf]
    · simp only [List.map_cons, stmtsNewTriples, List.map_append]
      rw [hp] at hp1
      exact List.Perm.append hp1 hp2

/-- a group: verb and objects -/
def PODen (C : TtlDoc.Cfg) (c : Ctx β) (base : Option (List Nat)) (po : TA.PO) (l' : List (Stmt β))
    (used : List (List Nat)) : Prop :=
  ∀ (D : List Nat → Prop) (st : TA.DState), StOK base c.pm D st → (∀ l ∈ used, D l) → ∀ (sN : Term (Desc.BN β)),
    ∃ (ts : List (Triple TA.B)),
      TA.dPO C.resolve (sN.map (sig c.label)) none st po =
        some (ts.map quadOf, { st with next := (stmtsNewTriples sN l' st.next).2 }) ∧
      ts.Perm ((stmtsNewTriples sN l' st.next).1.map (Triple.map (sig c.label)))

theorem pos_den : ∀ (gs : List (DGItem β)), (∀ g ∈ gs, PODen C c base g.po g.l' g.used) →
    PosDen C c base (gs.map (·.po)) (gs.flatMap (·.l')) (gs.flatMap (·.used))
  | [], _ => by
    intro D st _ _ sN
    refine ⟨[], ?_, List.Perm.refl _⟩
    cases st
    rfl
  | g :: gs, h => by
    intro D st hst hD sN
    obtain ⟨ts1, h1, hp1⟩ := h g List.mem_cons_self D st hst
      (fun l hl => hD l (by simp only [List.flatMap_cons, List.mem_append]; exact Or.inl hl)) sN
    obtain ⟨ts2, h2, hp2⟩ := pos_den gs (fun x hx => h x (List.mem_cons_of_mem _ hx)) D _
      (hst.next (stmtsNewTriples sN g.l' st.next).2)
      (fun l hl => hD l (by simp only [List.flatMap_cons, List.mem_append]; exact Or.inr hl)) sN
    refine ⟨ts1 ++ ts2, ?_, ?_⟩
    · simp only [List.map_cons, TA.dPOs, h1, h2, List.flatMap_cons, stmtsNewTriples_append]
      simp
    · simp only [List.flatMap_cons, stmtsNewTriples_append, List.map_append]
      exact List.Perm.append hp1 hp2

/-! ### collections -/

/-- the statements of the first cell of the list with the entries `es` (as `Desc.listCells`, with the
    entries as statements) -/
def chain : List (Stmt β) → List (Stmt β)
  | [] => []
  | [e] => [e, .obj Desc.rdfRest (.iri Desc.rdfNil)]
  | e :: e2 :: es => [e, .anon Desc.rdfRest (chain (e2 :: es))]

theorem items_den : ∀ (os : List (DItem β)), os ≠ [] →
    (∀ o ∈ os, ObjDen C c base o.x o.s' o.used ∧ stmtPred o.s' = Desc.rdfFirst) →
    ∀ (D : List Nat → Prop) (st : TA.DState), StOK base c.pm D st → (∀ o ∈ os, ∀ l ∈ o.used, D l) →
    ∀ (b : Nat),
      ∃ (ts : List (Triple TA.B)),
        TA.dItems C.resolve none st (.bnode (.anon b)) (os.map (·.x)) =
          some (ts.map quadOf,
            { st with next := (stmtsNewTriples (.bnode (.fresh b)) (chain (os.map (·.s'))) st.next).2 }) ∧
        ts.Perm ((stmtsNewTriples (.bnode (.fresh b)) (chain (os.map (·.s'))) st.next).1.map (Triple.map (sig c.label)))
  | [], h, _, _, _, _, _, _ => absurd rfl h
  | [o], _, h, D, st, hst, hD, b => by
    obtain ⟨hden, hp⟩ := h o List.mem_cons_self
    obtain ⟨o', ts1, h1, hp1⟩ := hden D st hst (hD o List.mem_cons_self) (.bnode (.fresh b))
    refine ⟨((⟨.bnode (.anon b), Desc.rdfFirst, o'⟩ : Triple TA.B) :: ts1) ++
      [(⟨.bnode (.anon b), Desc.rdfRest, .iri Desc.rdfNil⟩ : Triple TA.B)], ?_, ?_⟩
    · simp only [List.map_cons, List.map_nil, TA.dItems, h1, chain, stmtsNewTriples, Stmt.newTriples]
      simp [quadOf, rdfFirst_eq', rdfRest_eq', rdfNil_eq']
    · simp only [List.map_cons, List.map_nil, chain, stmtsNewTriples, Stmt.newTriples, List.map_append,
        List.append_nil]
      rw [hp] at hp1
      exact List.Perm.append hp1 (List.Perm.refl _)
  | o :: o2 :: os, _, h, D, st, hst, hD, b => by
    obtain ⟨hden, hp⟩ := h o List.mem_cons_self
    obtain ⟨o', ts1, h1, hp1⟩ := hden D st hst (hD o List.mem_cons_self) (.bnode (.fresh b))
    obtain ⟨ts2, h2, hp2⟩ := items_den (o2 :: os) (by simp) (fun x hx => h x (List.mem_cons_of_mem _ hx)) D
      { st with next := (Stmt.newTriples (.bnode (.fresh b)) o.s' st.next).2 + 1 } (hst.next _)
      (fun x hx => hD x (List.mem_cons_of_mem _ hx)) (Stmt.newTriples (.bnode (.fresh b)) o.s' st.next).2
    refine ⟨((⟨.bnode (.anon b), Desc.rdfFirst, o'⟩ : Triple TA.B) :: ts1) ++
      ((⟨.bnode (.anon b), Desc.rdfRest, .bnode (.anon (Stmt.newTriples (.bnode (.fresh b)) o.s' st.next).2)⟩ :
        Triple TA.B) :: ts2), ?_, ?_⟩
    · simp only [List.map_cons] at h2 ⊢
      simp only [TA.dItems, h1, TA.DState.fresh, h2, chain, stmtsNewTriples, Stmt.newTriples]
      simp [quadOf, rdfFirst_eq', rdfRest_eq']
    · simp only [List.map_cons] at hp2 ⊢
      simp only [chain, stmtsNewTriples, Stmt.newTriples, List.map_append, List.append_nil, List.map_cons,
        List.map_nil]
      rw [hp] at hp1
      refine List.Perm.append hp1 ?_
      exact (List.Perm.cons _ hp2).trans (List.perm_append_singleton _ _).symm

end RdfModel.Proofs.C02Doc
