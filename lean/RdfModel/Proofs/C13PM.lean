/-
  Helper lemmas for property C13 — PrefixManager (invariant, refinement, compaction), CURIE scope.
-/
import RdfModel.Props.C13Defs
namespace RdfModel.Proofs.C13
open RdfModel.Prefix RdfModel.C13
open RdfModel.Spec.RFC3986Lite (Str)

/-! ### the Go map -/

theorem get_set (m : GoMap) (k v k' : Str) :
    (m.set k v).get k' = if k' = k then some v else m.get k' := by
  simp only [GoMap.get, GoMap.set, List.lookup_cons]
  by_cases h : k' = k
  · subst h; simp
  · have : (k' == k) = false := by simpa using h
    simp [this, h]

theorem get_del (m : GoMap) (k k' : Str) :
    (m.del k).get k' = if k' = k then none else m.get k' := by
  induction m with
  | nil => simp [GoMap.get, GoMap.del]
  | cons e es ih =>
    obtain ⟨a, b⟩ := e
    simp only [GoMap.get, GoMap.del] at ih ⊢
    by_cases hak : a = k
    · subst hak
      by_cases h : k' = a
      · subst h; simpa [List.filter_cons, List.lookup_cons] using ih
      · have hb : (k' == a) = false := by simpa using h
        simpa [List.filter_cons, List.lookup_cons, hb, h] using ih
    · have hne : (a != k) = true := by simpa using hak
      rw [List.filter_cons]
      simp only [hne, if_true, List.lookup_cons]
      by_cases h : k' = a
      · subst h; simp [hak]
      · have hb : (k' == a) = false := by simpa using h
        simpa [hb] using ih

/-! ### AddPrefixMappings -/

/-- representation invariant without sortedness (holds inside the loop of AddPrefixMappings) -/
structure Inv0 (o : List Mapping) (m : GoMap) : Prop where
  nodup : (o.map (·.pfx)).Nodup
  agree : ∀ x : Mapping, x ∈ o ↔ m.get x.pfx = some x.expanded

theorem replaceFirst_map_pfx (m : Mapping) (o : List Mapping) :
    (replaceFirst m o).map (·.pfx) = o.map (·.pfx) := by
  induction o with
  | nil => rfl
  | cons e es ih =>
    unfold replaceFirst
    split
    · next h => simp [h]
    · simp [ih]

theorem mem_replaceFirst (m : Mapping) (o : List Mapping) (hnd : (o.map (·.pfx)).Nodup)
    (hin : m.pfx ∈ o.map (·.pfx)) (x : Mapping) :
    x ∈ replaceFirst m o ↔ x = m ∨ (x ∈ o ∧ x.pfx ≠ m.pfx) := by
  induction o with
  | nil => simp at hin
  | cons e es ih =>
    unfold replaceFirst
    have hnd' : e.pfx ∉ es.map (·.pfx) ∧ (es.map (·.pfx)).Nodup := List.nodup_cons.mp hnd
    split
    · next h =>
      -- e is the unique element with this prefix
      have hes : ∀ y ∈ es, y.pfx ≠ m.pfx := by
        intro y hy hyp
        exact hnd'.1 (by rw [h, ← hyp]; exact List.mem_map.mpr ⟨y, hy, rfl⟩)
      constructor
      · intro hx
        rcases List.mem_cons.mp hx with rfl | hx
        · exact Or.inl rfl
        · exact Or.inr ⟨List.mem_cons_of_mem _ hx, hes x hx⟩
      · rintro (rfl | ⟨hx, hne⟩)
        · exact List.mem_cons_self
        · rcases List.mem_cons.mp hx with rfl | hx
          · exact absurd h hne
          · exact List.mem_cons_of_mem _ hx
    · next h =>
      have hin' : m.pfx ∈ es.map (·.pfx) := by
        have hin0 : m.pfx ∈ e.pfx :: es.map (·.pfx) := hin
        rcases List.mem_cons.mp hin0 with h' | h'
        · exact absurd h'.symm h
        · exact h'
      have := ih hnd'.2 hin'
      constructor
      · intro hx
        rcases List.mem_cons.mp hx with rfl | hx
        · exact Or.inr ⟨List.mem_cons_self, h⟩
        · rcases this.mp hx with rfl | ⟨hx, hne⟩
          · exact Or.inl rfl
          · exact Or.inr ⟨List.mem_cons_of_mem _ hx, hne⟩
      · rintro (rfl | ⟨hx, hne⟩)
        · exact List.mem_cons_of_mem _ (this.mpr (Or.inl rfl))
        · rcases List.mem_cons.mp hx with rfl | hx
          · exact List.mem_cons_self
          · exact List.mem_cons_of_mem _ (this.mpr (Or.inr ⟨hx, hne⟩))

/-- the map after one iteration: the mapping's prefix now maps to its namespace, everything else is unchanged -/
theorem addOne_get (s : AddSt) (m : Mapping) (k : Str) :
    (addOne s m).byPrefix.get k = if k = m.pfx then some m.expanded else s.byPrefix.get k := by
  unfold addOne
  split
  · next prev hp =>
    split
    · next he =>
      subst he
      by_cases h : k = m.pfx
      · subst h; simp [hp]
      · simp [h]
    · exact get_set _ _ _ _
  · exact get_set _ _ _ _

theorem addOne_inv0 (s : AddSt) (m : Mapping) (h : Inv0 s.ordered s.byPrefix) :
    Inv0 (addOne s m).ordered (addOne s m).byPrefix := by
  have hget := addOne_get s m
  unfold addOne at hget ⊢
  split
  · next prev hp =>
    split
    · exact h
    · next hne =>
      simp only [hp, hne, if_false] at hget
      have hin : (⟨m.pfx, prev⟩ : Mapping) ∈ s.ordered := (h.agree ⟨m.pfx, prev⟩).mpr hp
      have hin' : m.pfx ∈ s.ordered.map (·.pfx) := List.mem_map.mpr ⟨_, hin, rfl⟩
      refine ⟨by simpa [replaceFirst_map_pfx] using h.nodup, ?_⟩
      intro x
      show x ∈ replaceFirst m s.ordered ↔ _
      rw [mem_replaceFirst m s.ordered h.nodup hin' x, hget]
      by_cases hx : x.pfx = m.pfx
      · simp only [hx, if_true, ne_eq, not_true, and_false, or_false, Option.some.injEq]
        constructor
        · rintro rfl; rfl
        · intro he; cases x; cases m; simp_all
      · simp only [hx, if_false, ne_eq, not_false_eq_true, and_true]
        rw [← h.agree x]
        constructor
        · rintro (rfl | hx')
          · exact absurd rfl hx
          · exact hx'
        · exact Or.inr
  · next hp =>
    simp only [hp] at hget
    have hnin : m.pfx ∉ s.ordered.map (·.pfx) := by
      intro hin
      obtain ⟨y, hy, hyp⟩ := List.mem_map.mp hin
      have := (h.agree y).mp hy
      rw [hyp, hp] at this
      cases this
    refine ⟨?_, ?_⟩
    · show ((s.ordered ++ [m]).map (·.pfx)).Nodup
      rw [List.map_append, List.nodup_append]
      refine ⟨h.nodup, by simp, ?_⟩
      intro a ha b hb
      simp at hb
      subst hb
      intro hab
      exact hnin (hab ▸ ha)
    · intro x
      show x ∈ s.ordered ++ [m] ↔ _
      rw [hget, List.mem_append, List.mem_singleton]
      by_cases hx : x.pfx = m.pfx
      · simp only [hx, if_true, Option.some.injEq]
        constructor
        · rintro (hx' | rfl)
          · exact absurd (hx ▸ List.mem_map.mpr ⟨x, hx', rfl⟩) hnin
          · rfl
        · intro he; right; cases x; cases m; simp_all
      · simp only [hx, if_false]
        rw [← h.agree x]
        constructor
        · rintro (hx' | rfl)
          · exact hx'
          · exact absurd rfl hx
        · exact Or.inl

theorem addOne_added_zero (s : AddSt) (m : Mapping) (h : (addOne s m).added = 0) : addOne s m = s := by
  unfold addOne at h ⊢
  split
  · split
    · rfl
    · next hp hne => simp [hp, hne] at h
  · next hp => simp [hp] at h

theorem addOne_added_mono (s : AddSt) (m : Mapping) : s.added ≤ (addOne s m).added := by
  unfold addOne
  split
  · split <;> simp
  · simp

theorem fold_added_mono (ms : List Mapping) (s : AddSt) : s.added ≤ (ms.foldl addOne s).added := by
  induction ms generalizing s with
  | nil => exact Nat.le_refl _
  | cons m ms ih => exact Nat.le_trans (addOne_added_mono s m) (ih _)

theorem fold_added_zero (ms : List Mapping) (s : AddSt) (h : (ms.foldl addOne s).added = 0) :
    ms.foldl addOne s = s := by
  induction ms generalizing s with
  | nil => rfl
  | cons m ms ih =>
    simp only [List.foldl_cons] at h ⊢
    have h1 := ih _ h
    have h2 : (addOne s m).added = 0 := by
      have := fold_added_mono ms (addOne s m); omega
    rw [h1, addOne_added_zero s m h2]

theorem fold_inv0 (ms : List Mapping) (s : AddSt) (h : Inv0 s.ordered s.byPrefix) :
    Inv0 (ms.foldl addOne s).ordered (ms.foldl addOne s).byPrefix := by
  induction ms generalizing s with
  | nil => exact h
  | cons m ms ih => exact ih _ (addOne_inv0 s m h)

/-- the table after the loop: the last mention of the prefix in the call wins, otherwise unchanged -/
theorem fold_get (ms : List Mapping) (s : AddSt) (k : Str) :
    (ms.foldl addOne s).byPrefix.get k =
      match ms.reverse.find? (fun m => m.pfx == k) with
      | some m => some m.expanded
      | none => s.byPrefix.get k := by
  induction ms generalizing s with
  | nil => rfl
  | cons m ms ih =>
    simp only [List.foldl_cons, List.reverse_cons, List.find?_append]
    rw [ih]
    cases hf : ms.reverse.find? (fun m => m.pfx == k) with
    | some x => simp
    | none =>
      simp only [Option.none_or, List.find?_cons, List.find?_nil]
      rw [addOne_get]
      by_cases hk : k = m.pfx
      · subst hk; simp
      · have : (m.pfx == k) = false := by simpa using fun h => hk h.symm
        simp [this, hk]

theorem inv_inv0 {p : PM} (h : Inv p) : Inv0 p.ordered p.byPrefix := ⟨h.nodup, h.agree⟩

theorem add_inv (S : Sorter) (p : PM) (ms : List Mapping) (h : Inv p) : Inv (add S p ms) := by
  have h0 := fold_inv0 ms ⟨p.ordered, p.byPrefix, 0⟩ (inv_inv0 h)
  unfold add
  simp only
  split
  · next hz =>
    have := fold_added_zero ms ⟨p.ordered, p.byPrefix, 0⟩ hz
    rw [this]
    exact h
  · refine ⟨?_, S.sorted _, ?_⟩
    · exact ((S.perm _).map (·.pfx)).nodup_iff.mpr h0.nodup
    · intro x
      show x ∈ S.sort _ ↔ _
      rw [(S.perm _).mem_iff]
      exact h0.agree x

theorem add_get (S : Sorter) (p : PM) (ms : List Mapping) (k : Str) :
    (add S p ms).byPrefix.get k =
      match ms.reverse.find? (fun m => m.pfx == k) with
      | some m => some m.expanded
      | none => p.byPrefix.get k := by
  have := fold_get ms ⟨p.ordered, p.byPrefix, 0⟩ k
  unfold add
  simp only
  split <;> exact this

theorem empty_inv : Inv ⟨[], []⟩ :=
  ⟨by simp, by simp, by intro m; simp [GoMap.get]⟩

theorem new_inv (S : Sorter) (ms : List Mapping) : Inv (new S ms) := add_inv S _ ms empty_inv

/-! ### DeletePrefixes -/

theorem delOne_get (s : GoMap × Nat) (k k' : Str) :
    (delOne s k).1.get k' = if k' = k then none else s.1.get k' := by
  unfold delOne
  split
  · next h =>
    by_cases hk : k' = k
    · subst hk; simp [h]
    · simp [hk]
  · exact get_del _ _ _

theorem delFold_get (ks : List Str) (s : GoMap × Nat) (k' : Str) :
    (ks.foldl delOne s).1.get k' = if k' ∈ ks then none else s.1.get k' := by
  induction ks generalizing s with
  | nil => simp
  | cons k ks ih =>
    simp only [List.foldl_cons]
    rw [ih, delOne_get]
    by_cases h1 : k' ∈ ks
    · simp [h1]
    · by_cases h2 : k' = k
      · simp [h2]
      · simp [h1, h2]

theorem delOne_zero (s : GoMap × Nat) (k : Str) (h : (delOne s k).2 = 0) : delOne s k = s := by
  unfold delOne at h ⊢
  split
  · rfl
  · next hs => simp [hs] at h

theorem delOne_mono (s : GoMap × Nat) (k : Str) : s.2 ≤ (delOne s k).2 := by
  unfold delOne; split <;> simp

theorem delFold_mono (ks : List Str) (s : GoMap × Nat) : s.2 ≤ (ks.foldl delOne s).2 := by
  induction ks generalizing s with
  | nil => exact Nat.le_refl _
  | cons k ks ih => exact Nat.le_trans (delOne_mono s k) (ih _)

theorem delFold_zero (ks : List Str) (s : GoMap × Nat) (h : (ks.foldl delOne s).2 = 0) :
    ks.foldl delOne s = s := by
  induction ks generalizing s with
  | nil => rfl
  | cons k ks ih =>
    simp only [List.foldl_cons] at h ⊢
    have h1 := ih _ h
    have h2 : (delOne s k).2 = 0 := by
      have := delFold_mono ks (delOne s k); omega
    rw [h1, delOne_zero s k h2]

/-- number of entries of `o` whose prefix is still mapped -/
def live (o : List Mapping) (m : GoMap) : Nat := (o.filter (fun e => (m.get e.pfx).isSome)).length

/-- removing a mapped key removes exactly one live entry -/
theorem live_del (o : List Mapping) (m : GoMap) (k : Str) (hnd : (o.map (·.pfx)).Nodup)
    (hin : k ∈ o.map (·.pfx)) (hk : (m.get k).isSome) :
    live o (m.del k) + 1 = live o m := by
  induction o with
  | nil => simp at hin
  | cons e es ih =>
    have hnd' : e.pfx ∉ es.map (·.pfx) ∧ (es.map (·.pfx)).Nodup := List.nodup_cons.mp hnd
    unfold live at ih ⊢
    by_cases he : e.pfx = k
    · -- e is the entry; no other entry has this prefix
      have hes : ∀ y ∈ es, y.pfx ≠ k := by
        intro y hy hyk
        exact hnd'.1 (by rw [he, ← hyk]; exact List.mem_map.mpr ⟨y, hy, rfl⟩)
      have hsame : es.filter (fun e => ((m.del k).get e.pfx).isSome) = es.filter (fun e => (m.get e.pfx).isSome) := by
        apply List.filter_congr
        intro y hy
        rw [get_del]; simp [hes y hy]
      rw [List.filter_cons, List.filter_cons, hsame]
      have h1 : ((m.del k).get e.pfx).isSome = false := by rw [get_del]; simp [he]
      have h2 : (m.get e.pfx).isSome = true := by rw [he]; exact hk
      simp [h1, h2]
    · have hin' : k ∈ es.map (·.pfx) := by
        have hin0 : k ∈ e.pfx :: es.map (·.pfx) := hin
        rcases List.mem_cons.mp hin0 with h | h
        · exact absurd h.symm he
        · exact h
      have := ih hnd'.2 hin'
      rw [List.filter_cons, List.filter_cons]
      have h1 : ((m.del k).get e.pfx).isSome = (m.get e.pfx).isSome := by rw [get_del]; simp [he]
      rw [h1]
      split <;> simp_all <;> omega

/-- loop invariant of the first loop of DeletePrefixes: `deleted` plus the live entries is `len(ordered)` -/
theorem delFold_count (o : List Mapping) (m0 : GoMap) (h : Inv0 o m0) (ks : List Str) (s : GoMap × Nat)
    (hsub : ∀ k, s.1.get k = none ∨ s.1.get k = m0.get k) (hc : s.2 + live o s.1 = o.length) :
    (ks.foldl delOne s).2 + live o (ks.foldl delOne s).1 = o.length := by
  induction ks generalizing s with
  | nil => exact hc
  | cons k ks ih =>
    simp only [List.foldl_cons]
    apply ih
    · intro k'
      rw [delOne_get]
      by_cases hk : k' = k
      · simp [hk]
      · simpa [hk] using hsub k'
    · unfold delOne
      split
      · exact hc
      · next e hs =>
        have hm0 : m0.get k = some e := by
          rcases hsub k with h' | h'
          · rw [hs] at h'; cases h'
          · rw [← h', hs]
        have hin : k ∈ o.map (·.pfx) :=
          List.mem_map.mpr ⟨⟨k, e⟩, (h.agree ⟨k, e⟩).mpr hm0, rfl⟩
        have := live_del o s.1 k h.nodup hin (by rw [hs]; rfl)
        simp only
        omega

theorem live_full (o : List Mapping) (m : GoMap) (h : Inv0 o m) : live o m = o.length := by
  unfold live
  rw [List.filter_eq_self.mpr]
  intro x hx
  rw [(h.agree x).mp hx]; rfl

theorem delete_ok (p : PM) (ks : List Str) (h : Inv p) :
    ∃ p', delete p ks = some p' ∧ Inv p' ∧
      ∀ k, p'.byPrefix.get k = if k ∈ ks then none else p.byPrefix.get k := by
  have hget := delFold_get ks (p.byPrefix, 0)
  have hcount := delFold_count p.ordered p.byPrefix (inv_inv0 h) ks (p.byPrefix, 0)
    (fun k => Or.inr rfl) (by simp [live_full _ _ (inv_inv0 h)])
  unfold delete
  simp only
  split
  · next hz =>
    have := delFold_zero ks (p.byPrefix, 0) hz
    refine ⟨_, rfl, ?_, hget⟩
    rw [this]; exact h
  · split
    · next hlt => omega
    · refine ⟨_, rfl, ⟨?_, ?_, ?_⟩, hget⟩
      · exact List.Nodup.sublist (List.Sublist.map _ List.filter_sublist) h.nodup
      · exact h.sorted.filter _
      · intro x
        show x ∈ p.ordered.filter _ ↔ _
        rw [List.mem_filter, hget, h.agree x]
        by_cases hx : x.pfx ∈ ks
        · simp [hx]
        · simp only [hx, if_false]
          constructor
          · exact fun h' => h'.1
          · intro h'; exact ⟨h', by rw [h']; rfl⟩

/-! ### histories -/

theorem step_ok (S : Sorter) (p : PM) (op : Op) (h : Inv p) : ∃ p', step S p op = some p' ∧ Inv p' := by
  cases op with
  | add ms => exact ⟨_, rfl, add_inv S p ms h⟩
  | del ks => obtain ⟨p', h1, h2, _⟩ := delete_ok p ks h; exact ⟨p', h1, h2⟩

theorem snoc_induction {α : Type} {P : List α → Prop} (nil : P [])
    (snoc : ∀ l a, P l → P (l ++ [a])) : ∀ l, P l := by
  intro l
  have : ∀ r : List α, P r.reverse := by
    intro r
    induction r with
    | nil => exact nil
    | cons a r ih => simpa using snoc _ a ih
  simpa using this l.reverse

/-- `run` as a right fold, convenient for induction on the most recent call -/
theorem run_snoc (S : Sorter) (init : List Mapping) (ops : List Op) (op : Op) :
    run S init (ops ++ [op]) = (run S init ops).bind (fun p => step S p op) := by
  simp [run, List.foldl_append]

theorem run_ok (S : Sorter) (init : List Mapping) (ops : List Op) :
    ∃ p, run S init ops = some p ∧ Inv p ∧ ∀ k, p.byPrefix.get k = lastWrite init ops k := by
  induction ops using snoc_induction with
  | nil =>
    refine ⟨new S init, rfl, new_inv S init, ?_⟩
    intro k
    have := add_get S ⟨[], []⟩ init k
    simp only [new, lastWrite, List.reverse_nil, List.nil_append, lastWriteRev]
    rw [this]
    cases init.reverse.find? (fun m => m.pfx == k) <;> simp [GoMap.get]
  | snoc ops op ih =>
    obtain ⟨p, hp, hinv, htab⟩ := ih
    rw [run_snoc, hp]
    simp only [Option.bind_some]
    cases op with
    | add ms =>
      refine ⟨add S p ms, rfl, add_inv S p ms hinv, ?_⟩
      intro k
      rw [add_get]
      simp only [lastWrite, List.reverse_append, List.reverse_cons, List.reverse_nil, List.nil_append,
        List.cons_append, lastWriteRev]
      cases ms.reverse.find? (fun m => m.pfx == k) with
      | some x => rfl
      | none => simpa [lastWrite] using htab k
    | del ks =>
      obtain ⟨p', h1, h2, h3⟩ := delete_ok p ks hinv
      refine ⟨p', h1, h2, ?_⟩
      intro k
      rw [h3]
      simp only [lastWrite, List.reverse_append, List.reverse_cons, List.reverse_nil, List.nil_append,
        List.cons_append, lastWriteRev]
      split
      · rfl
      · simpa [lastWrite] using htab k

/-! ### stores of managers related by Clone -/

theorem run_inv (S : Sorter) (init : List Mapping) (ops : List Op) (p : PM) (h : run S init ops = some p) : Inv p := by
  obtain ⟨p', h1, h2, _⟩ := run_ok S init ops
  rw [h] at h1; cases h1; exact h2

theorem storeRun_snoc (S : Sorter) (ops : List StoreOp) (op : StoreOp) :
    storeRun S (ops ++ [op]) = (storeRun S ops).bind (fun st => storeStep S st op) := by
  simp [storeRun, List.foldl_append]

theorem histories_snoc (ops : List StoreOp) (op : StoreOp) :
    histories (ops ++ [op]) = histStep (histories ops) op := by
  simp [histories, List.foldl_append]

/-- store and per-handle histories are aligned -/
def Aligned (S : Sorter) (st : List PM) (hs : List (List Mapping × List Op)) : Prop :=
  st.length = hs.length ∧
  ∀ (i : Nat) (p : PM), st[i]? = some p → ∃ init o, hs[i]? = some (init, o) ∧ run S init o = some p

theorem aligned_append (S : Sorter) (st : List PM) (hs : List (List Mapping × List Op)) (h : Aligned S st hs)
    (p : PM) (init : List Mapping) (o : List Op) (hr : run S init o = some p) :
    Aligned S (st ++ [p]) (hs ++ [(init, o)]) := by
  refine ⟨by simp [h.1], ?_⟩
  intro i q hq
  by_cases hi : i < st.length
  · rw [List.getElem?_append_left hi] at hq
    obtain ⟨a, b, h1, h2⟩ := h.2 i q hq
    exact ⟨a, b, by rw [List.getElem?_append_left (by rw [← h.1]; exact hi)]; exact h1, h2⟩
  · have hi' : i = st.length := by
      have : i < (st ++ [p]).length := by
        rcases Nat.lt_or_ge i (st ++ [p]).length with h' | h'
        · exact h'
        · rw [List.getElem?_eq_none h'] at hq; cases hq
      simp at this; omega
    subst hi'
    have e1 : (st ++ [p])[st.length]? = some p := by simp
    rw [e1] at hq
    cases hq
    exact ⟨init, o, by rw [h.1]; simp, hr⟩

theorem aligned_set (S : Sorter) (st : List PM) (hs : List (List Mapping × List Op)) (h : Aligned S st hs)
    (j : Nat) (p : PM) (init : List Mapping) (o : List Op) (hr : run S init o = some p) :
    Aligned S (st.set j p) (hs.set j (init, o)) := by
  refine ⟨by simp [h.1], ?_⟩
  intro i q hq
  rw [List.getElem?_set] at hq
  by_cases hij : j = i
  · subst hij
    by_cases hlt : j < st.length
    · simp only [if_true, hlt] at hq
      cases hq
      exact ⟨init, o, by rw [List.getElem?_set]; simp [← h.1, hlt], hr⟩
    · simp [hlt] at hq
  · simp only [hij, if_false] at hq
    obtain ⟨a, b, h1, h2⟩ := h.2 i q hq
    exact ⟨a, b, by rw [List.getElem?_set]; simp [hij, h1], h2⟩

theorem store_step_aligned (S : Sorter) (st : List PM) (hs : List (List Mapping × List Op))
    (h : Aligned S st hs) (op : StoreOp) :
    ∃ st', storeStep S st op = some st' ∧ Aligned S st' (histStep hs op) := by
  cases op with
  | new ms => exact ⟨_, rfl, aligned_append S st hs h _ ms [] rfl⟩
  | clone j =>
    cases hj : st[j]? with
    | none =>
      have : hs[j]? = none := by
        rw [List.getElem?_eq_none_iff] at hj ⊢; rw [← h.1]; exact hj
      simp only [storeStep, histStep, hj, this]; exact ⟨st, rfl, h⟩
    | some p =>
      obtain ⟨a, b, h1, h2⟩ := h.2 j p hj
      simp only [storeStep, histStep, hj, h1]
      exact ⟨_, rfl, aligned_append S st hs h _ a b h2⟩
  | add j ms =>
    cases hj : st[j]? with
    | none =>
      have : hs[j]? = none := by
        rw [List.getElem?_eq_none_iff] at hj ⊢; rw [← h.1]; exact hj
      simp only [storeStep, histStep, hj, this]; exact ⟨st, rfl, h⟩
    | some p =>
      obtain ⟨a, b, h1, h2⟩ := h.2 j p hj
      simp only [storeStep, histStep, hj, h1]
      refine ⟨_, rfl, aligned_set S st hs h j _ a (b ++ [.add ms]) ?_⟩
      rw [run_snoc, h2]; rfl
  | del j ks =>
    cases hj : st[j]? with
    | none =>
      have : hs[j]? = none := by
        rw [List.getElem?_eq_none_iff] at hj ⊢; rw [← h.1]; exact hj
      simp only [storeStep, histStep, hj, this]; exact ⟨st, rfl, h⟩
    | some p =>
      obtain ⟨a, b, h1, h2⟩ := h.2 j p hj
      obtain ⟨p', hd, _, _⟩ := delete_ok p ks (run_inv S a b p h2)
      simp only [storeStep, histStep, hj, h1, hd, Option.map_some]
      refine ⟨_, rfl, aligned_set S st hs h j _ a (b ++ [.del ks]) ?_⟩
      rw [run_snoc, h2]; exact hd

theorem store_ok (S : Sorter) (ops : List StoreOp) :
    ∃ st, storeRun S ops = some st ∧ Aligned S st (histories ops) := by
  induction ops using snoc_induction with
  | nil => exact ⟨[], rfl, ⟨rfl, fun i p h => by simp at h⟩⟩
  | snoc ops op ih =>
    obtain ⟨st, h1, h2⟩ := ih
    obtain ⟨st', h3, h4⟩ := store_step_aligned S st (histories ops) h2 op
    exact ⟨st', by rw [storeRun_snoc, h1]; exact h3, by rw [histories_snoc]; exact h4⟩

/-- a call leaves every manager other than its target untouched -/
theorem store_step_other (S : Sorter) (st st' : List PM) (op : StoreOp) (h : storeStep S st op = some st')
    (i : Nat) (hi : i < st.length) (hne : op.target ≠ some i) : st'[i]? = st[i]? := by
  cases op with
  | new ms => simp only [storeStep, Option.some.injEq] at h; subst h; exact List.getElem?_append_left hi
  | clone j =>
    simp only [storeStep] at h
    split at h <;> (simp only [Option.some.injEq] at h; subst h)
    · exact List.getElem?_append_left hi
    · rfl
  | add j ms =>
    have hji : j ≠ i := fun e => hne (by simp [StoreOp.target, e])
    simp only [storeStep] at h
    split at h <;> (simp only [Option.some.injEq] at h; subst h)
    · rw [List.getElem?_set]; simp [hji]
    · rfl
  | del j ks =>
    have hji : j ≠ i := fun e => hne (by simp [StoreOp.target, e])
    simp only [storeStep] at h
    split at h
    · cases hd : delete _ ks with
      | none => rw [hd] at h; simp at h
      | some p' =>
        rw [hd] at h; simp only [Option.map_some, Option.some.injEq] at h; subst h
        rw [List.getElem?_set]; simp [hji]
    · simp only [Option.some.injEq] at h; subst h; rfl

/-! ### CompactPrefix / ExpandPrefix -/

theorem matches_iff (m : Mapping) (v : Str) :
    (m.expanded.length ≤ v.length ∧ v.take m.expanded.length = m.expanded) ↔ m.expanded <+: v := by
  rw [List.prefix_iff_eq_take]
  constructor
  · exact fun h => h.2.symm
  · intro h
    refine ⟨?_, h.symm⟩
    have := congrArg List.length h
    rw [List.length_take] at this
    omega

/-- what the loop of CompactPrefix returns: the first matching entry -/
theorem compactIn_some (v : Str) (l : List Mapping) (pr : PrefixRef) (h : compactIn v l = some pr) :
    ∃ l1 m l2, l = l1 ++ m :: l2 ∧ (∀ x ∈ l1, ¬ x.expanded <+: v) ∧ m.expanded <+: v ∧
      pr = ⟨m.pfx, v.drop m.expanded.length⟩ := by
  induction l with
  | nil => simp [compactIn] at h
  | cons e es ih =>
    unfold compactIn at h
    split at h
    · next hm =>
      refine ⟨[], e, es, rfl, by simp, (matches_iff e v).mp hm, ?_⟩
      simpa using h.symm
    · next hm =>
      obtain ⟨l1, m, l2, hl, h1, h2, h3⟩ := ih h
      refine ⟨e :: l1, m, l2, by simp [hl], ?_, h2, h3⟩
      intro x hx
      rcases List.mem_cons.mp hx with rfl | hx
      · exact fun hp => hm ((matches_iff _ v).mpr hp)
      · exact h1 x hx

theorem compactIn_none (v : Str) (l : List Mapping) :
    compactIn v l = none ↔ ∀ x ∈ l, ¬ x.expanded <+: v := by
  induction l with
  | nil => simp [compactIn]
  | cons e es ih =>
    unfold compactIn
    split
    · next hm =>
      simp only [reduceCtorEq, false_iff]
      intro h
      exact h e List.mem_cons_self ((matches_iff e v).mp hm)
    · next hm =>
      rw [ih]
      constructor
      · intro h x hx
        rcases List.mem_cons.mp hx with rfl | hx
        · exact fun hp => hm ((matches_iff _ v).mpr hp)
        · exact h x hx
      · exact fun h x hx => h x (List.mem_cons_of_mem _ hx)

/-- everything about a successful compaction under the invariant -/
theorem compact_spec (p : PM) (h : Inv p) (v : Str) (pr : PrefixRef) (hc : compact p v = some pr) :
    ∃ ns, p.byPrefix.get pr.pfx = some ns ∧ ns ++ pr.reference = v ∧
      ∀ x ∈ p.ordered, x.expanded <+: v → x.expanded.length ≤ ns.length := by
  obtain ⟨l1, m, l2, hl, h1, h2, h3⟩ := compactIn_some v p.ordered pr hc
  have hm : m ∈ p.ordered := by rw [hl]; simp
  refine ⟨m.expanded, ?_, ?_, ?_⟩
  · rw [h3]; exact (h.agree m).mp hm
  · rw [h3]
    show m.expanded ++ v.drop m.expanded.length = v
    have := List.prefix_iff_eq_take.mp h2
    conv => lhs; rw [this]
    rw [List.length_take_of_le (by have := (matches_iff m v).mpr h2; exact this.1)]
    exact List.take_append_drop _ _
  · intro x hx hxp
    have hs := h.sorted
    rw [hl] at hx hs
    rcases List.mem_append.mp hx with hx | hx
    · exact absurd hxp (h1 x hx)
    · rcases List.mem_cons.mp hx with rfl | hx
      · exact Nat.le_refl _
      · have := (List.pairwise_append.mp hs).2.1
        exact (List.pairwise_cons.mp this).1 x hx

/-! ### CURIE scope -/

theorem curie_roundtrip (sc : Scope) (p : PM) (h : Inv p) (v : Str) (pr : PrefixRef)
    (hc : compact p v = some pr) : expandCURIE sc p (compactCURIE sc p v) = some v := by
  obtain ⟨ns, h1, h2, _⟩ := compact_spec p h v pr hc
  unfold compactCURIE expandCURIE
  rw [hc]
  simp only
  split
  · next hd =>
    have hd' : (0 < sc.defaultPrefix.length ∨ sc.defaultPrefixEmpty = true) := by
      rcases hd with ⟨he, hl | hl⟩
      · left; rw [← he]; exact hl
      · right; exact hl
    simp only [hd', and_self, if_true]
    unfold expand
    simp only [← hd.1, h1]
    exact congrArg some h2
  · simp only [Bool.false_eq_true, false_and, if_false]
    unfold expand
    simp only [h1]
    exact congrArg some h2

theorem curie_nomatch (sc : Scope) (p : PM) (v : Str) (hc : compact p v = none) :
    compactCURIE sc p v = ⟨sc.safe, false, [], v⟩ ∧
    expandCURIE sc p (compactCURIE sc p v) = (p.byPrefix.get []).map (· ++ v) := by
  unfold compactCURIE expandCURIE
  rw [hc]
  simp only [Bool.false_eq_true, false_and, if_false, true_and]
  unfold expand
  cases p.byPrefix.get [] <;> rfl

end RdfModel.Proofs.C13
