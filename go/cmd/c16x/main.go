// Command c16x: property C16 (captured text offsets) for every decoder with offset capture other than
// N-Triples/N-Quads (those are go/cmd/c16): Turtle, TriG, RDF/JSON, RDF/XML, JSON-LD, RDFa, Microdata,
// HTML-embedded JSON-LD and the combined HTML decoder.
//
//	oracle (independent of any model, on the implementation alone; file common.go + ttl.go + whole.go)
//	  (1) statements with capture on == statements with capture off (order, terms up to blank-node renaming)
//	  (2) every range inside [initial, initial+len(doc)], from <= until, line (and column on Simple
//	      documents) recomputed from the text; the run with a non-zero initial offset is the shifted
//	      zero run
//	  (3) Turtle/TriG: the slice of a range is a token of the term: re-decoding it in the prefix/base
//	      context in force (taken from the decoder's directive events) gives the same term; `[`/`(`/`)`/`a`
//	      ranges are checked for what they are. Other formats: syntactic boundary checks per format
//	  (4) offsets attached to errors (cursorio.OffsetError / OffsetRangeError via errors.As) lie inside
//	      the document
//	T3   Model.TurtleOffsets (Lean driver, op offx.tok) vs the token producers of encoding/turtle and
//	     encoding/trig through the verif hook VerifProduceOffsets (file tok.go)
//	T3   Model.DecoderOpts (op offx.opts) vs the effective configuration NewDecoder compiles from an
//	     option list, for every decoder with offset capture incl. N-Triples/N-Quads (file opts.go); the
//	     oracle itself constructs every decoder from a permuted / split option list (specOf)
package main

import (
	"encoding/json"
	"flag"
	"fmt"
	"os"
	"runtime"
	"sort"
	"strconv"
	"strings"
	"sync"
	"time"

	"verifharness/vh"
)

var (
	tier     = flag.String("tier", "quick", "quick|thorough")
	driver   = flag.String("driver", "/verif/lean/.lake/build/bin/driver", "lean driver binary")
	out      = flag.String("out", "/verif/evidence/.C16X.c16x.report.json", "report path")
	findings = flag.String("findings", "/verif/known-findings.json", "known findings")
	replay   = flag.String("replay", "", "replay file (one protocol line per line, or a replay JSON written by ./check)")
	scale    = flag.Int("scale", 1, "multiply generated case counts (search mode uses 10)")
	nomodel  = flag.Bool("nomodel", false, "property oracle on the implementation only")
	hints    = flag.String("hints", "", "file of protocol lines that disagreed; their inputs go through the oracle first")
	formats  = flag.String("formats", "", "comma-separated subset of formats (development aid)")
)

const defaultBase = "http://base.example/dir/doc"

var htmlSoup = os.Getenv("C16X_SOUP") != ""

type job struct {
	kind   string
	format string
	base   string
	fail   bool
	init   off
	doc    []byte
	// results
	viol    vlist
	stmts   int
	ranges  int
	verdict string
	errKind string
	simple  bool
	traits  string // whole-document formats: wholeDocTraits of the document ("" = none)
}

func (j *job) line() string {
	b := "-"
	if j.base != "" {
		b = vh.XS(j.base)
	}
	return fmt.Sprintf("offx.doc %s %s %s %d,%d,%d %s", j.format, b, vh.B01(j.fail), j.init.b, j.init.l, j.init.c, vh.X(j.doc))
}

func parseDocLine(l string) (*job, bool) {
	f := strings.Fields(l)
	if len(f) != 6 || f[0] != "offx.doc" {
		return nil, false
	}
	j := &job{kind: "replay", format: f[1], fail: f[3] == "1"}
	if f[2] != "-" {
		b, err := vh.UnX(f[2])
		if err != nil {
			return nil, false
		}
		j.base = string(b)
	}
	if _, err := fmt.Sscanf(f[4], "%d,%d,%d", &j.init.b, &j.init.l, &j.init.c); err != nil {
		return nil, false
	}
	d, err := vh.UnX(f[5])
	if err != nil {
		return nil, false
	}
	j.doc = d
	return j, true
}

func process(j *job) {
	j.simple = simpleDoc(j.doc)
	// run A: capture on, initial offset zero (alternately unset / explicit zero)
	c0 := cfg{format: j.format, capture: true, base: j.base, fail: j.fail}
	if len(j.doc)%2 == 1 {
		c0.hasInit = true
	}
	on0 := decode(c0, j.doc)
	j.viol = append(j.viol, checkDoc(c0, j.doc, on0)...)
	if j.format == "rdfxml" {
		// the oracle's own XML scanner against encoding/xml (xmlselfcheck.go)
		if m := xmlScanSelfCheck(j.doc); m != "" {
			j.viol.add("oracle-selfcheck", "xmlscan", "HARNESS defect, not a finding about the repository: %s", m)
		}
	}
	defer func() {
		// whole-document formats: violations of the generic classes are keyed by the root-cause
		// traits of the document (wholeDocTraits), "" when it has none
		if !streaming[j.format] {
			tr := wholeDocTraits(j.format, j.doc)
			j.traits = tr
			for i := range j.viol {
				if j.viol[i].sub == "" {
					j.viol[i].sub = tr
				} else if tr != "" && (j.viol[i].class == "capture-changes-outcome" || j.viol[i].class == "capture-changes-statement" || j.viol[i].class == "range-missing") && !strings.Contains(j.viol[i].sub, "@") {
					j.viol[i].sub += "@" + tr
				}
			}
		}
	}()
	j.stmts, j.verdict, j.errKind = len(on0.stmts), on0.verdict, on0.errKind
	for _, s := range on0.stmts {
		for _, r := range s.r {
			if r.ok {
				j.ranges++
			}
		}
	}
	if on0.panicV != "" {
		return
	}
	// run B: non-zero initial offset; compared against the shifted run A and checked against the text
	if j.init != (off{}) {
		c1 := cfg{format: j.format, capture: j.init.b%2 == 0, hasInit: true, init: j.init, base: j.base, fail: j.fail}
		on1 := decode(c1, j.doc)
		j.viol = append(j.viol, checkShift(c1, j.doc, on0, on1)...)
		if on1.panicV == "" {
			j.viol = append(j.viol, checkPositions(c1, j.doc, on1)...)
		}
	}
}

// checkPositions: part (2) and (4) only (used for the run with a non-zero initial offset).
func checkPositions(c cfg, doc []byte, on result) (viol vlist) {
	simple := simpleDoc(doc)
	n := int64(len(doc))
	init := c.effInit()
	for i, s := range on.stmts {
		for k, r := range s.r {
			if !r.ok {
				continue
			}
			fb, ub := r.from.b-init.b, r.until.b-init.b
			if fb < 0 || ub > n || fb > ub {
				viol.add("range-outside", "", "statement %d %s: range %s not inside the document (initial %s, length %d)", i, slotName[k], r, init, n)
				continue
			}
			for _, pt := range []struct {
				o   off
				rel int64
			}{{r.from, fb}, {r.until, ub}} {
				want := posOf(doc, pt.rel, init)
				if pt.o.l != want.l || (simple && pt.o.c != want.c) {
					viol.add("range-linecol", "", "statement %d %s: reported %s, text says %s (initial %s, simple=%v)", i, slotName[k], pt.o, want, init, simple)
				}
			}
		}
	}
	switch on.errKind {
	case "t":
		if on.e1.b < init.b || on.e1.b > init.b+n {
			viol.add("error-offset-outside", "", "error offset %s outside the document (initial %s, length %d): %v", on.e1, init, n, on.err)
		}
	case "r":
		if on.e1.b < init.b || on.e2.b > init.b+n || on.e1.b > on.e2.b {
			viol.add("error-offset-outside", "", "error offset range %s-%s outside the document (initial %s, length %d): %v", on.e1, on.e2, init, n, on.err)
		}
	}
	return
}

func runJobs(js []*job) {
	n := runtime.NumCPU()
	if n > 12 {
		n = 12
	}
	var wg sync.WaitGroup
	ch := make(chan *job, 256)
	for w := 0; w < n; w++ {
		wg.Add(1)
		go func() {
			defer wg.Done()
			for j := range ch {
				process(j)
			}
		}()
	}
	for _, j := range js {
		ch <- j
	}
	close(ch)
	wg.Wait()
}

// privateDriver copies the driver binary to a private temporary file (the shared one may be relinked
// by another builder mid-run).
func privateDriver(path string) (string, func()) {
	for try := 0; try < 60; try++ {
		b, err := os.ReadFile(path)
		if err == nil && len(b) > 0 {
			f, err := os.CreateTemp("", "c16x-driver-*")
			if err != nil {
				break
			}
			_, werr := f.Write(b)
			f.Close()
			if werr == nil && os.Chmod(f.Name(), 0o755) == nil {
				return f.Name(), func() { os.Remove(f.Name()) }
			}
			os.Remove(f.Name())
		}
		time.Sleep(time.Second)
	}
	return path, func() {}
}

// matchKnown: predicate syntax `<class|*>|<fmt,fmt|*>|<sub glob>`; for panics the C05 entries
// `panic|<fmts>|<func glob>|<kind>` apply (class panic-on / panic-off, sub = "<func>|<kind>").
func matchKnown(known []vh.Finding, format string, v violation) (vh.Finding, bool) {
	for _, f := range known {
		p := strings.SplitN(f.Predicate, "|", 3)
		if len(p) != 3 {
			continue
		}
		cls := v.class
		if cls == "panic-on" || cls == "panic-off" {
			cls = "panic"
		}
		if (p[0] != cls && p[0] != "*") || !globMatch(p[2], v.sub) {
			continue
		}
		if p[1] == "*" {
			return f, true
		}
		for _, ff := range strings.Split(p[1], ",") {
			if ff == format {
				return f, true
			}
		}
	}
	return vh.Finding{}, false
}

func globMatch(pat, s string) bool {
	parts := strings.Split(pat, "*")
	if len(parts) == 1 {
		return pat == s
	}
	if !strings.HasPrefix(s, parts[0]) {
		return false
	}
	s = s[len(parts[0]):]
	for _, p := range parts[1 : len(parts)-1] {
		i := strings.Index(s, p)
		if i < 0 {
			return false
		}
		s = s[i+len(p):]
	}
	return strings.HasSuffix(s, parts[len(parts)-1])
}

func main() { os.Exit(realMain()) }

func realMain() int {
	flag.Parse()
	flush := filterStderr()
	defer flush(nil)
	if !*nomodel {
		p, cleanup := privateDriver(*driver)
		*driver = p
		defer cleanup()
	}
	seed := vh.SeedFromEnv()
	rep := vh.NewReport("C16", *tier, seed, "Documents for Turtle, TriG, RDF/JSON, RDF/XML, JSON-LD, RDFa, Microdata, HTML-embedded JSON-LD and the combined HTML decoder: every document of the W3C suites shipped in the repository (thorough tier; a seeded sample of 400 per format in the quick tier); hand-written corner documents; grammar-directed documents (multi-line, CRLF, lone CR, multi-byte and astral characters, comments, several statements per line, prefixed names, relative references, blank node labels, long strings, numeric/boolean shorthand, `a`, `[ ]`, `( )`, graph names; XML/HTML character references, CDATA, nested elements, property attributes, reification, collections; JSON-LD contexts, lists, @reverse, @graph, native numbers); byte-level mutations and truncations of generated and corpus documents for Turtle, TriG, RDF/JSON, JSON-LD and RDF/XML (RDF/XML repaired to valid UTF-8: cursorio.TextWriter panics on ill-formed UTF-8, C05 finding D28). HTML family (RDFa, Microdata, HTML-embedded JSON-LD, combined decoder): corpus, corner and generated documents only, NO byte-level mutation (the third-party position bookkeeping keeps producing new failure shapes on tag soup; C16X_SOUP=1 turns it on as a development aid), so the search over malformed markup is incomplete by construction. Each document is decoded with capture off, capture on (initial offset unset / explicit zero) and capture on with a random non-zero initial offset (byte<2000, line<60, column<90); streaming decoders additionally with a reader ending in an injected error. RDF/XML: on every document the oracle's own XML scanner is compared with encoding/xml (token spans, attribute names and values up to encoding/xml's first error; a difference is reported as class oracle-selfcheck and fails the check). Histograms trait-free:<format>:<bool> say how many whole-document inputs carry none of the root-cause traits that key the known findings (violations on documents with a trait are attributed to that finding). Non-trivial = at least one statement with a range, or an error carrying an offset. Every decoder is constructed from an option LIST derived from a hash of (configuration, document): the setters permuted, cut into 1..n option values, sometimes preceded by overridden decoy setters (opts.go specOf). Option lists (T3, op offx.opts): for nine configurations (turtle, trig, ntriples, nquads, rdfjson, rdfxml, jsonld, htmldefaults, encoding/html DocumentConfig) every chain of <=3 (HTML: <=2) setter calls in every split into option values plus random lists of 1-4 options, effective configuration observed on a probe document against Model.DecoderOpts; non-trivial there = more than one option value and more than one setter. Token layer (T3): single tokens with varied continuations, mutations and every-prefix truncations for the seven producers of both packages against the Lean model.")
	fs, err := vh.LoadFindings(*findings)
	if err != nil {
		fmt.Fprintln(os.Stderr, "findings:", err)
		return 2
	}
	var known []vh.Finding
	for _, f := range fs {
		if f.Status == "known" && (f.Property == "C16" || (f.Property == "C05" && strings.HasPrefix(f.Predicate, "panic|"))) {
			known = append(known, f)
		}
	}
	want := map[string]bool{}
	for _, f := range allFormats {
		want[f] = *formats == ""
	}
	if *formats != "" {
		for _, f := range strings.Split(*formats, ",") {
			want[f] = true
		}
	}
	g := vh.NewRng(seed)
	failures := 0
	knownSeen := map[string]int{}

	finish := func(js []*job) {
		runJobs(js)
		for _, j := range js {
			ln := j.line()
			rep.Eval(ln, j.ranges > 0 || j.errKind != "-")
			rep.Count("format:" + j.format)
			rep.Count("kind:" + j.format + ":" + j.kind)
			rep.Count("verdict:" + j.format + ":" + j.verdict)
			rep.Count("errpos:" + j.errKind)
			rep.Count(fmt.Sprintf("simple:%v", j.simple))
			rep.Count(fmt.Sprintf("stmts:%s", bucket(j.stmts)))
			if !streaming[j.format] {
				// how much of the whole-document search is on documents WITHOUT a known root-cause trait
				// (violations on documents with a trait are attributed to the trait's known finding)
				rep.Count(fmt.Sprintf("trait-free:%s:%v", j.format, j.traits == ""))
				if j.traits == "" && j.ranges > 0 {
					rep.Count("trait-free-with-ranges:" + j.format)
				}
			}
			seenHere := map[string]bool{}
			for _, v := range j.viol {
				if f, ok := matchKnown(known, j.format, v); ok {
					knownSeen[f.Key]++
					if !seenHere[f.Key] && knownSeen[f.Key] <= 3 {
						rep.Add(vh.Case{Kind: "known", Key: f.Key, Op: ln, Detail: v.class + "/" + v.sub + ": " + v.detail + " — doc " + strconv.Quote(clip(string(j.doc), 300))})
					}
					seenHere[f.Key] = true
					rep.Count("known:" + f.Key)
					continue
				}
				rep.Count("violation:" + j.format + ":" + v.class + "/" + v.sub)
				rep.Add(vh.Case{Kind: "violation", Op: ln, Go: j.verdict, Detail: j.format + " " + v.class + "/" + v.sub + ": " + v.detail + " — doc " + strconv.Quote(clip(string(j.doc), 400))})
				failures++
			}
		}
	}
	var batch []*job
	push := func(j *job) {
		if !want[j.format] {
			return
		}
		batch = append(batch, j)
		if len(batch) >= 20000 {
			finish(batch)
			batch = nil
		}
	}
	randInit := func() off {
		o := off{int64(1 + g.Intn(2000)), int64(g.Intn(60)), int64(g.Intn(90))}
		if g.Chance(20) {
			o.l = 0
		}
		return o
	}
	baseFor := func(format string) string {
		if g.Chance(70) {
			return defaultBase
		}
		return ""
	}

	compared := 0
	if *replay != "" {
		b, err := os.ReadFile(*replay)
		if err != nil {
			fmt.Fprintln(os.Stderr, err)
			return 2
		}
		lines := strings.Split(strings.TrimSpace(string(b)), "\n")
		if strings.HasPrefix(strings.TrimSpace(string(b)), "{") {
			var rf struct {
				Violations    []vh.Case `json:"violations"`
				Disagreements []vh.Case `json:"disagreements"`
			}
			if err := json.Unmarshal(b, &rf); err == nil {
				lines = nil
				for _, c := range append(rf.Violations, rf.Disagreements...) {
					lines = append(lines, c.Op)
				}
			}
		}
		var tokLines, optLines []string
		for _, l := range lines {
			if j, ok := parseDocLine(l); ok {
				want[j.format] = true
				push(j)
			} else if strings.HasPrefix(l, "offx.tok ") {
				tokLines = append(tokLines, l)
			} else if strings.HasPrefix(l, "offx.opts ") {
				optLines = append(optLines, l)
			}
		}
		if len(optLines) > 0 && !*nomodel {
			n, f := runOptLines(rep, optLines)
			compared += n
			failures += f
		}
		if len(tokLines) > 0 && !*nomodel {
			n, f := runTokLines(rep, tokLines)
			compared += n
			failures += f
		}
	} else {
		if *hints != "" {
			if b, err := os.ReadFile(*hints); err == nil {
				for _, l := range strings.Split(string(b), "\n") {
					if j, ok := parseDocLine(l); ok {
						j.kind = "hint"
						push(j)
					} else if tj, ok := tokLineToDoc(l); ok {
						push(tj)
					}
				}
			}
		}
		corpus, err := loadCorpus()
		if err != nil {
			fmt.Fprintln(os.Stderr, "corpus:", err)
			return 2
		}
		// per-format budget of generated documents
		per := 4000 * *scale
		if *tier == "thorough" {
			per = 60000 * *scale
		}
		for _, format := range allFormats {
			if !want[format] {
				continue
			}
			seeds := corpusFor(corpus, format)
			rep.Count(fmt.Sprintf("corpus-size:%s", format))
			rep.Hist["corpus-size:"+format] = len(seeds)
			// corner documents
			for _, d := range cornerDocs(format) {
				for _, fail := range []bool{false, true} {
					if fail && !streaming[format] {
						continue
					}
					push(&job{kind: "corner", format: format, base: defaultBase, fail: fail, init: off{100, 7, 3}, doc: []byte(d)})
				}
			}
			// corpus: every document in the thorough tier, a seeded sample in the quick tier
			limit := len(seeds)
			if *tier != "thorough" && limit > 400 {
				limit = 400
			}
			idx := make([]int, len(seeds))
			for i := range idx {
				idx[i] = i
			}
			for i := len(idx) - 1; i > 0; i-- {
				k := g.Intn(i + 1)
				idx[i], idx[k] = idx[k], idx[i]
			}
			for _, i := range idx[:limit] {
				if len(seeds[i].b) > 200000 {
					continue
				}
				push(&job{kind: "corpus", format: format, base: defaultBase, init: randInit(), doc: seeds[i].b})
			}
			// generated + mutated + truncated
			hot := hotBytes(format)
			for made := 0; made < per; {
				var doc []byte
				kind := "valid"
				if len(seeds) > 0 && g.Chance(25) {
					s := seeds[g.Intn(len(seeds))]
					if len(s.b) > 20000 {
						continue
					}
					doc = s.b
					kind = "corpus-mut"
				} else {
					doc = genDoc(format, g)
					push(&job{kind: "valid", format: format, base: baseFor(format), fail: streaming[format] && g.Chance(10), init: randInit(), doc: doc})
					made++
				}
				if htmlFamily[format] && !htmlSoup {
					// HTML family: no byte-level mutation / truncation in the registered tiers. The positions of
					// these decoders come from github.com/dpb587/inspecthtml-go, which rewrites the HTML
					// stream and re-finds attributes with regular expressions; on tag soup it keeps producing
					// new failure shapes (see the C16X-H* findings), so mutated markup is a development aid
					// (C16X_SOUP=1), not part of the check. HTML parsing has no syntax errors to attach
					// offsets to in any case.
					if kind == "corpus-mut" {
						made++
					}
					continue
				}
				for k := 0; k < 2; k++ {
					m := mutate(format, g, doc, hot)
					mk := "mutated"
					if kind == "corpus-mut" {
						mk = "corpus-mutated"
					}
					push(&job{kind: mk, format: format, base: baseFor(format), fail: streaming[format] && g.Chance(15), init: randInit(), doc: m})
					made++
				}
				if len(doc) > 0 {
					push(&job{kind: "truncated", format: format, base: baseFor(format), fail: streaming[format] && g.Chance(30), init: randInit(), doc: truncate(format, g, doc)})
					made++
				}
			}
		}
	}
	if len(batch) > 0 {
		finish(batch)
		batch = nil
	}
	// T3: token producers
	if !*nomodel && *replay == "" && (want["ttl"] || want["trig"] || want["tok"]) {
		n, f, err := runTok(rep, g)
		if err != nil {
			fmt.Fprintln(os.Stderr, err)
			return 2
		}
		compared += n
		failures += f
	}
	// T3: option lists of every decoder with offset capture (opts.go)
	if !*nomodel && *replay == "" && (*formats == "" || want["opts"]) {
		n, f, err := runOpts(rep, g)
		if err != nil {
			fmt.Fprintln(os.Stderr, err)
			return 2
		}
		compared += n
		failures += f
		rep.Exhaustive = append(rep.Exhaustive, "option lists (op offx.opts): for turtle, trig, ntriples, nquads, rdfjson, rdfxml, jsonld every chain of 1..3 setter calls over {SetCaptureTextOffsets(false|true), SetInitialTextOffset(2 values), and where the configuration has them SetDefaultBase(2), SetBlankNodeStringFactory(2), directive listeners(2)} in every split into consecutive option values; for htmldefaults and encoding/html DocumentConfig (through the RDFa decoder) every chain of 1..2")
	}
	rep.Compared = compared
	flush(rep)
	if rep.Cases == nil {
		rep.Cases = []vh.Case{}
	}
	if err := rep.Write(*out); err != nil {
		fmt.Fprintln(os.Stderr, err)
		return 2
	}
	mode := ""
	if *nomodel {
		mode = " (oracle only)"
	}
	ks := make([]string, 0, len(knownSeen))
	for k, n := range knownSeen {
		ks = append(ks, fmt.Sprintf("%s×%d", k, n))
	}
	sort.Strings(ks)
	fmt.Printf("c16x%s: %d documents, %d token lines compared with the model, %d failures, known: %v\n", mode, rep.Evaluations, compared, rep.Failures(), ks)
	if rep.Failures() > 0 {
		return 1
	}
	return 0
}

func bucket(n int) string {
	switch {
	case n == 0:
		return "0"
	case n < 5:
		return "1-4"
	case n < 50:
		return "5-49"
	}
	return "50+"
}

// ---------------------------------------------------------------- dispatch by format

func checkSlice(sc sliceCtx) (sub, msg string) {
	switch sc.c.format {
	case "ttl", "trig":
		return ttlSlice(sc)
	}
	return wholeSlice(sc)
}

func missingRangeOK(c cfg, res *result, i, slot int) string {
	switch c.format {
	case "ttl", "trig":
		return ttlMissingRangeOK(c, res, i, slot)
	}
	return wholeMissingRangeOK(c, res, i, slot)
}

func genDoc(format string, r *vh.Rng) []byte {
	switch format {
	case "ttl", "trig":
		return genTtl(format, r)
	}
	return genWhole(format, r)
}

func cornerDocs(format string) []string {
	switch format {
	case "ttl", "trig":
		return ttlCorner(format)
	}
	return wholeCorner(format)
}

func hotBytes(format string) []byte {
	switch format {
	case "ttl", "trig":
		return []byte("<>\"'\\ \t\r\n._:@^#-uU0aF{}[]();,|`\x00\x7f\xc3\xa9\xf0\x9f")
	case "rdfjson", "jsonld":
		return []byte("{}[]\":,\\ \t\r\n@_:0-9.eE/#untfalse\xc3\xa9")
	}
	return []byte("<>\"'= \t\r\n/&;#:-!?[]\xc3\xa9")
}

// mutate / truncate: byte-level for formats that tolerate ill-formed UTF-8 with capture on; for
// RDF/XML and the HTML family (cursorio.TextWriter panics on ill-formed UTF-8: C05 finding D28) the
// result is repaired to valid UTF-8 (each ill-formed byte replaced by '?').
func mutate(format string, r *vh.Rng, doc []byte, hot []byte) []byte {
	m := r.Mutate(doc, hot)
	if utf8Only(format) {
		m = []byte(strings.ToValidUTF8(string(m), "?"))
	}
	return m
}

func truncate(format string, r *vh.Rng, doc []byte) []byte {
	m := doc[:r.Intn(len(doc))]
	if utf8Only(format) {
		m = []byte(strings.ToValidUTF8(string(m), ""))
	}
	return m
}

func utf8Only(format string) bool { return format == "rdfxml" || htmlFamily[format] }
