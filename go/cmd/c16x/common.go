package main

// Uniform access to every decoder that implements encoding.StatementTextOffsetsProvider, and the
// format-independent part of the C16 oracle: capture on == capture off, ranges inside the document
// with byte/line/column recomputed from the text, shift by the initial offset, error offsets inside.

import (
	"errors"
	"fmt"
	"io"
	"regexp"
	"runtime"
	"sort"
	"strings"
	"unicode/utf8"

	"verifharness/vh"

	"github.com/dpb587/cursorio-go/cursorio"
	"github.com/dpb587/rdfkit-go/encoding"
	"github.com/dpb587/rdfkit-go/rdf"
	"github.com/dpb587/rdfkit-go/rdf/blanknodes"
)

// Formats covered here (N-Triples/N-Quads are go/cmd/c16).
var allFormats = []string{"ttl", "trig", "rdfjson", "rdfxml", "jsonld", "rdfa", "microdata", "htmljsonld", "html"}
var streaming = map[string]bool{"ttl": true, "trig": true}
var htmlFamily = map[string]bool{"rdfa": true, "microdata": true, "htmljsonld": true, "html": true}

type off struct{ b, l, c int64 }

func (o off) String() string { return fmt.Sprintf("%d.%d.%d", o.b, o.l, o.c) }

type rng struct {
	ok          bool
	from, until off
}

func (r rng) String() string {
	if !r.ok {
		return "-"
	}
	return r.from.String() + "-" + r.until.String()
}

// directive: a @prefix/@base/PREFIX/BASE directive reported by the Turtle/TriG listeners, with the
// number of statements collected before it fired.
type directive struct {
	before   int
	isBase   bool
	prefix   string
	expanded string // resolved namespace / base
}

type stmt struct {
	quad rdf.Quad
	wire string // blank nodes renumbered by first occurrence in the run
	r    [4]rng // subject, predicate, object, graph
}

type result struct {
	doc     []byte // the document decoded (for format-specific rules that need the text)
	stmts   []stmt
	verdict string
	err     error
	errKind string // "-", "b" bare byte offset, "t" text offset, "r" text offset range
	e1, e2  off
	panicV  string
	panicAt string // first repository frame + panic kind (class key of the C05 findings)
	dirs    []directive
	label   func(rdf.BlankNode) string // written label of a labelled blank node, "?anonN" for generated ones ("" when the decoder takes no string factory)
}

func toOff(o cursorio.TextOffset) off {
	return off{int64(o.Byte), o.LineColumn[0], o.LineColumn[1]}
}

var slots = []encoding.StatementOffsetsType{encoding.SubjectStatementOffsets, encoding.PredicateStatementOffsets, encoding.ObjectStatementOffsets, encoding.GraphNameStatementOffsets}
var slotName = []string{"subject", "predicate", "object", "graph"}

type cfg struct {
	format  string
	capture bool
	hasInit bool // SetInitialTextOffset(init) (implies capture)
	init    off
	base    string // "" = none
	fail    bool   // reader ends with an injected error instead of io.EOF
}

func (c cfg) effInit() off {
	if c.hasInit {
		return c.init
	}
	return off{}
}

func (c cfg) String() string {
	return fmt.Sprintf("%s capture=%v init=%v/%s base=%q fail=%v", c.format, c.capture, c.hasInit, c.init, c.base, c.fail)
}

type bnNumbering struct {
	m map[rdf.BlankNodeIdentifier]int
}

func (b *bnNumbering) label(n rdf.BlankNode) string {
	if n.Identifier == nil {
		return "NILID"
	}
	if b.m == nil {
		b.m = map[rdf.BlankNodeIdentifier]int{}
	}
	i, ok := b.m[n.Identifier]
	if !ok {
		i = len(b.m)
		b.m[n.Identifier] = i
	}
	return fmt.Sprintf("b%d", i)
}

type iterator interface {
	Next() bool
	Err() error
	Statement() rdf.Statement
}

func cursorOff(o off) cursorio.TextOffset {
	return cursorio.TextOffset{Byte: cursorio.ByteOffset(o.b), LineColumn: cursorio.TextLineColumn{o.l, o.c}}
}

const repoMod = "github.com/dpb587/rdfkit-go/"

// panicClass: "<first repository frame>|<kind>" as in go/cmd/c05x (keys of the C05 panic findings).
func panicClass(v any) string {
	msg := fmt.Sprint(v)
	kind := "other"
	switch {
	case strings.Contains(msg, "interface conversion"):
		kind = "type-assertion"
	case strings.Contains(msg, "nil pointer dereference"):
		kind = "nil-deref"
	case strings.Contains(msg, "index out of range"):
		kind = "index"
	case strings.Contains(msg, "slice bounds out of range"):
		kind = "slice-bounds"
	case strings.Contains(msg, "assignment to entry in nil map"):
		kind = "nil-map"
	default:
		if _, isRuntime := v.(runtime.Error); !isRuntime {
			m := msg
			if i := strings.IndexAny(m, ":<"); i > 0 {
				m = m[:i]
			}
			if len(m) > 40 {
				m = m[:40]
			}
			kind = "explicit:" + strings.TrimSpace(m)
		}
	}
	fn := "(no repository frame)"
	pcs := make([]uintptr, 64)
	n := runtime.Callers(3, pcs)
	frames := runtime.CallersFrames(pcs[:n])
	seenPanic := false
	for {
		f, more := frames.Next()
		if strings.HasPrefix(f.Function, "runtime.") {
			if f.Function == "runtime.gopanic" || strings.HasPrefix(f.Function, "runtime.panic") || f.Function == "runtime.sigpanic" || strings.HasPrefix(f.Function, "runtime.goPanic") {
				seenPanic = true
			}
		} else if seenPanic && strings.HasPrefix(f.Function, repoMod) {
			fn = strings.TrimPrefix(f.Function, repoMod)
			break
		}
		if !more {
			break
		}
	}
	return fn + "|" + kind
}

// decode runs one decoder over doc.
func decode(c cfg, doc []byte) (res result) {
	defer func() {
		if p := recover(); p != nil {
			res.panicV = fmt.Sprint(p)
			res.panicAt = panicClass(p)
			res.verdict = "panic"
		}
	}()
	res.doc = doc
	f := blanknodes.NewStringFactory()
	prov := f.(blanknodes.StringProviderProvider).GetStringProvider(blanknodes.NewInt64StringProvider("?anon%d"))
	res.label = prov.GetBlankNodeString
	res.errKind = "-"
	num := &bnNumbering{}
	rd := &vh.EndReader{B: doc, Fail: c.fail}
	capture := c.capture || c.hasInit
	init := cursorOff(c.init)

	// every decoder is constructed from an option LIST (opts.go): the setters this configuration asks
	// for, permuted and split into 1..n option values (replayable: derived from a hash of c and doc)
	collected := 0
	env := &optEnv{
		bases:     []string{c.base, "http://wrong-base.example/decoy/"},
		factories: []blanknodes.StringFactory{f, blanknodes.NewStringFactory()},
		onBase: func(_ int, v string) {
			res.dirs = append(res.dirs, directive{before: collected, isBase: true, expanded: v})
		},
		onPrefix: func(_ int, p, e string) {
			res.dirs = append(res.dirs, directive{before: collected, prefix: p, expanded: e})
		},
	}
	cc := c
	cc.init = off{int64(init.Byte), init.LineColumn[0], init.LineColumn[1]}
	it, prv, err := openDecoder(c.format, specOf(cc, doc), env, rd)
	_ = capture
	if err == nil && it != nil {
		for it.Next() {
			var q rdf.Quad
			switch s := it.Statement().(type) {
			case rdf.Triple:
				q = rdf.Quad{Triple: s}
			case rdf.Quad:
				q = s
			default:
				panic(fmt.Sprintf("harness: unexpected statement type %T", s))
			}
			st := stmt{quad: q, wire: vh.QuadWire(q, num.label)}
			o := prv.StatementTextOffsets()
			for i, k := range slots {
				if r, ok := o[k]; ok {
					st.r[i] = rng{true, toOff(r.From), toOff(r.Until)}
				}
			}
			res.stmts = append(res.stmts, st)
			collected++
		}
		err = it.Err()
	}
	res.err = err
	res.verdict = vh.ErrClass(err)
	res.errKind, res.e1, res.e2 = errOffsets(err)
	return res
}

var _ = io.EOF

// errOffsets: the offset carried by an error (cursorio.OffsetError / OffsetRangeError via errors.As):
// "-" none, "b" bare byte offset, "t" text offset, "r" text offset range.
func errOffsets(err error) (kind string, e1, e2 off) {
	kind = "-"
	var oe cursorio.OffsetError
	var ore cursorio.OffsetRangeError
	if errors.As(err, &oe) {
		switch v := oe.Offset.(type) {
		case cursorio.TextOffset:
			kind, e1 = "t", toOff(v)
		case *cursorio.TextOffset:
			if v != nil {
				kind, e1 = "t", toOff(*v)
			}
		case cursorio.ByteOffset:
			kind, e1 = "b", off{b: int64(v)}
		default:
			kind = fmt.Sprintf("?%T", oe.Offset)
		}
	} else if errors.As(err, &ore) {
		if v, ok := ore.OffsetRange.(cursorio.TextOffsetRange); ok {
			kind, e1, e2 = "r", toOff(v.From), toOff(v.Until)
		} else if v, ok := ore.OffsetRange.(*cursorio.TextOffsetRange); ok && v != nil {
			kind, e1, e2 = "r", toOff(v.From), toOff(v.Until)
		} else {
			kind = fmt.Sprintf("?%T", ore.OffsetRange)
		}
	}
	return
}

// ---------------------------------------------------------------- Simple (copy of TW.simpleRune; tied by op nqo.simple)

func simpleRune(c rune) bool {
	return c == 0x09 || c == 0x0a || c == 0x0d || (0x20 <= c && c <= 0x7e) || (0xa0 <= c && c <= 0x2ff) ||
		(0x4e00 <= c && c <= 0x9fff) || c == 0xfffd || (0x10000 <= c && c <= 0x100ff) || (0x1f600 <= c && c <= 0x1f64f)
}

func simpleDoc(b []byte) bool {
	for len(b) > 0 {
		r, n := utf8.DecodeRune(b)
		if !simpleRune(r) {
			return false
		}
		b = b[n:]
	}
	return true
}

// posOf: offset of the point after doc[:n] for a writer that started at init. Lines: one per LF.
// Column (simple documents): decoded runes since the last LF that are neither CR nor LF, on top of
// init.c while still on the first line. An ill-formed byte counts as one rune.
func posOf(doc []byte, n int64, init off) off {
	o := off{b: init.b + n, l: init.l, c: init.c}
	p := doc[:n]
	for len(p) > 0 {
		r, k := utf8.DecodeRune(p)
		switch r {
		case '\n':
			o.l++
			o.c = 0
		case '\r':
		default:
			o.c++
		}
		p = p[k:]
	}
	return o
}

func termOf(q rdf.Quad, slot int) rdf.Term {
	switch slot {
	case 0:
		return q.Triple.Subject
	case 1:
		return q.Triple.Predicate
	case 2:
		return q.Triple.Object
	default:
		if q.GraphName == nil {
			return nil
		}
		return q.GraphName
	}
}

// violation: one failure of the property on the implementation. class is a short machine-readable
// key (used by known-finding predicates and the histograms).
type violation struct {
	class  string // e.g. slice, range-linecol, capture-changes-outcome, panic-on
	sub    string // stable sub-key within the class ("" when the class says it all)
	detail string
}

type vlist []violation

func (v *vlist) add(class, sub, f string, a ...any) {
	*v = append(*v, violation{class, sub, fmt.Sprintf(f, a...)})
}

// sliceChecker: format-specific part (3) of the oracle. slice = doc[from:until] of the range of slot
// `slot` of statement i. Returns "" when the slice is acceptable.
type sliceCtx struct {
	c     cfg
	doc   []byte
	res   *result
	i     int   // statement index
	slot  int   // 0..3
	fb    int64 // byte offsets relative to the document
	ub    int64
	slice string
	term  rdf.Term
}

// checkDoc: the whole oracle for one document and one capture configuration `c` (capture on).
// `on` is decode(c, doc).
func checkDoc(c cfg, doc []byte, on result) (viol vlist) {
	if on.panicV != "" {
		viol.add("panic-on", on.panicAt, "decoder panicked with capture on: %s [%s]", on.panicV, on.panicAt)
		return
	}
	simple := simpleDoc(doc)
	n := int64(len(doc))
	init := c.effInit()
	// (1) capture on == capture off
	offC := c
	offC.capture, offC.hasInit, offC.init = false, false, off{}
	offR := decode(offC, doc)
	if offR.panicV != "" {
		viol.add("panic-off", offR.panicAt, "decoder panicked with capture off: %s [%s]", offR.panicV, offR.panicAt)
		return
	}
	// a range in the capture-off run: class range-without-capture; for the combined HTML decoder, when the
	// option list of that run compiles to capture=false WITH an initial offset (decoy SetInitialTextOffset
	// before SetCaptureTextOffsets(false)), it is the htmldefaults forwarding defect (class opts; fixed
	// finding C16X-O1, patch c16opts-1 — no longer tolerated)
	rwcClass, rwcSub := "range-without-capture", ""
	if c.format == "html" && initThenOff(specOf(offC, doc)) {
		rwcClass, rwcSub = "opts", "capture-off-ignored-after-initial"
	}
	if len(offR.stmts) != len(on.stmts) || offR.verdict != on.verdict {
		viol.add("capture-changes-outcome", recoveredKind(on.err, offR.err), "capture changes the outcome: %d statements/%s (%v) with, %d/%s (%v) without", len(on.stmts), on.verdict, on.err, len(offR.stmts), offR.verdict, offR.err)
	} else if orderFree[c.format] {
		// statement order depends on map iteration in these decoders: compare as multisets up to
		// blank-node renaming
		if !sameWires(on.stmts, offR.stmts) && !isoBounded(on.stmts, offR.stmts) {
			viol.add("capture-changes-statement", wsOnlyDiff(on.stmts, offR.stmts), "capture changes the statements (compared as multisets up to blank-node renaming): %v vs %v", wiresOf(on.stmts), wiresOf(offR.stmts))
		}
		for i := range offR.stmts {
			for k := range offR.stmts[i].r {
				if offR.stmts[i].r[k].ok {
					viol.add(rwcClass, rwcSub, "range reported although capture is off (statement %d %s; option list %s)", i, slotName[k], specOf(offC, doc).wire())
				}
			}
		}
	} else {
		for i := range on.stmts {
			if on.stmts[i].wire != offR.stmts[i].wire {
				viol.add("capture-changes-statement", wsOnlyDiff(on.stmts, offR.stmts), "capture changes statement %d: %s vs %s", i, on.stmts[i].wire, offR.stmts[i].wire)
			}
			for k := range offR.stmts[i].r {
				if offR.stmts[i].r[k].ok {
					viol.add(rwcClass, rwcSub, "range reported although capture is off (statement %d %s; option list %s)", i, slotName[k], specOf(offC, doc).wire())
				}
			}
		}
	}
	if offR.errKind == "b" && (offR.e1.b < 0 || offR.e1.b > n) {
		viol.add("error-offset-outside", "", "capture off: error byte offset %d outside the document (length %d)", offR.e1.b, n)
	}
	// (2) ranges, (3) slices
	for i, s := range on.stmts {
		for k, r := range s.r {
			t := termOf(s.quad, k)
			if !r.ok {
				if t != nil {
					if msg := missingRangeOK(c, &on, i, k); msg != "" {
						viol.add("range-missing", reasonKey(msg), "statement %d (%s): no %s range although capture is on: %s", i, s.wire, slotName[k], msg)
					}
				}
				continue
			}
			if t == nil {
				viol.add("range-without-term", "", "statement %d: %s range without a term", i, slotName[k])
				continue
			}
			fb, ub := r.from.b-init.b, r.until.b-init.b
			if fb < 0 || ub > n || fb > ub {
				viol.add("range-outside", "", "statement %d %s: range %s not inside the document (initial %s, length %d)", i, slotName[k], r, init, n)
				continue
			}
			bad := false
			for _, pt := range []struct {
				name string
				o    off
				rel  int64
			}{{"from", r.from, fb}, {"until", r.until, ub}} {
				want := posOf(doc, pt.rel, init)
				if pt.o.l != want.l || (simple && pt.o.c != want.c) {
					viol.add("range-linecol", "", "statement %d %s %s: reported %s, text says %s (simple=%v)", i, slotName[k], pt.name, pt.o, want, simple)
					bad = true
				}
			}
			if bad {
				continue
			}
			sc := sliceCtx{c: c, doc: doc, res: &on, i: i, slot: k, fb: fb, ub: ub, slice: string(doc[fb:ub]), term: t}
			if sub, msg := checkSlice(sc); msg != "" {
				viol.add("slice", sub, "statement %d (%s) %s: %s (range %s, slice %q)", i, s.wire, slotName[k], msg, r, clip(sc.slice, 200))
			}
		}
	}
	// (4) error offsets inside the document
	switch on.errKind {
	case "-":
	case "t":
		if on.e1.b < init.b || on.e1.b > init.b+n {
			viol.add("error-offset-outside", "", "error offset %s outside the document (initial %s, length %d): %v", on.e1, init, n, on.err)
		} else if want := posOf(doc, on.e1.b-init.b, init); on.e1.l != want.l || (simple && on.e1.c != want.c) {
			viol.add("error-offset-linecol", "", "error offset %s, text says %s (simple=%v): %v", on.e1, want, simple, on.err)
		}
	case "r":
		if on.e1.b < init.b || on.e2.b > init.b+n || on.e1.b > on.e2.b {
			viol.add("error-offset-outside", "", "error offset range %s-%s outside the document (initial %s, length %d): %v", on.e1, on.e2, init, n, on.err)
		} else {
			for _, p := range []off{on.e1, on.e2} {
				if want := posOf(doc, p.b-init.b, init); p.l != want.l || (simple && p.c != want.c) {
					viol.add("error-offset-linecol", "", "error offset %s, text says %s (simple=%v): %v", p, want, simple, on.err)
				}
			}
		}
	case "b":
		if streaming[c.format] {
			viol.add("error-offset-kind", "", "capture on: error carries a bare byte offset")
		} else if on.e1.b < 0 || on.e1.b > n+init.b {
			viol.add("error-offset-outside", "", "error byte offset %d outside the document (length %d): %v", on.e1.b, n, on.err)
		}
	default:
		viol.add("error-offset-kind", "", "error offset of unexpected type %s", on.errKind)
	}
	return
}

// checkShift: the run with a non-zero initial offset is the run with offset zero, shifted.
func checkShift(c cfg, doc []byte, z result, on result) (viol vlist) {
	sh := func(p off) off {
		q := off{p.b + c.init.b, p.l + c.init.l, p.c}
		if p.l == 0 {
			q.c += c.init.c
		}
		return q
	}
	if z.panicV != "" || on.panicV != "" {
		if z.panicV != on.panicV {
			viol.add("initial-changes-outcome", "", "initial offset changes the outcome: panic %q vs %q", z.panicV, on.panicV)
		}
		return
	}
	if len(z.stmts) != len(on.stmts) || z.verdict != on.verdict || z.errKind != on.errKind {
		viol.add("initial-changes-outcome", "", "initial offset changes the outcome: %d/%s/%s vs %d/%s/%s", len(z.stmts), z.verdict, z.errKind, len(on.stmts), on.verdict, on.errKind)
		return
	}
	if orderFree[c.format] && !sameWires(z.stmts, on.stmts) {
		// different statement order in the two runs: compare the multisets of (shifted) range tuples
		key := func(st stmt, shift bool) string {
			var sb strings.Builder
			for _, r := range st.r {
				if r.ok && shift {
					r = rng{true, sh(r.from), sh(r.until)}
				}
				sb.WriteString(r.String() + "/")
			}
			return sb.String()
		}
		var a, b []string
		for i := range z.stmts {
			a = append(a, key(z.stmts[i], true))
			b = append(b, key(on.stmts[i], false))
		}
		sort.Strings(a)
		sort.Strings(b)
		if strings.Join(a, ";") != strings.Join(b, ";") {
			viol.add("shift", "", "with initial %s the multiset of ranges is not the shifted multiset of the zero run", c.init)
		}
		if !isoBounded(z.stmts, on.stmts) {
			viol.add("initial-changes-outcome", "", "initial offset changes the statements (multisets up to blank-node renaming)")
		}
	} else {
		for i := range z.stmts {
			if z.stmts[i].wire != on.stmts[i].wire {
				viol.add("initial-changes-outcome", "", "initial offset changes statement %d", i)
			}
			for k := range z.stmts[i].r {
				a, b := z.stmts[i].r[k], on.stmts[i].r[k]
				if a.ok != b.ok || (a.ok && (sh(a.from) != b.from || sh(a.until) != b.until)) {
					viol.add("shift", "", "statement %d %s: with initial %s got %s, shifted zero run gives %s-%s", i, slotName[k], c.init, b, sh(a.from), sh(a.until))
				}
			}
		}
	}
	if (z.errKind == "t" && sh(z.e1) != on.e1) || (z.errKind == "r" && (sh(z.e1) != on.e1 || sh(z.e2) != on.e2)) {
		viol.add("shift", "", "error offset with initial %s is %s, shifted zero run gives %s", c.init, on.e1, sh(z.e1))
	}
	if z.errKind == "b" && z.e1 != on.e1 && z.e1.b+c.init.b != on.e1.b {
		viol.add("shift", "", "error byte offset with initial %s is %d, zero run has %d", c.init, on.e1.b, z.e1.b)
	}
	return
}

// orderFree: decoders whose statement order depends on Go map iteration (RDFa: pending incomplete
// triples and the rdfa:copy pattern query; the combined HTML decoder contains it).
var orderFree = map[string]bool{"rdfa": true, "html": true}

func sameWires(a, b []stmt) bool {
	if len(a) != len(b) {
		return false
	}
	for i := range a {
		if a[i].wire != b[i].wire {
			return false
		}
	}
	return true
}

// isoBounded: are the two statement lists equal as multisets up to blank-node renaming? Necessary
// condition first (multisets of statements with every blank node replaced by one marker); the
// backtracking isomorphism check only for small blank-node counts (it is exponential on
// non-isomorphic inputs), otherwise the necessary condition is accepted.
func isoBounded(a, b []stmt) bool {
	if len(a) != len(b) {
		return false
	}
	blind := func(ss []stmt) ([]string, int) {
		ids := map[rdf.BlankNodeIdentifier]bool{}
		mark := func(n rdf.BlankNode) string { ids[n.Identifier] = true; return "_" }
		out := make([]string, len(ss))
		for i, s := range ss {
			out[i] = vh.QuadWire(s.quad, mark)
		}
		sort.Strings(out)
		return out, len(ids)
	}
	x, nx := blind(a)
	y, ny := blind(b)
	if nx != ny || strings.Join(x, ";") != strings.Join(y, ";") {
		return false
	}
	if nx > 8 {
		return true
	}
	return vh.IsomorphicMulti(quadsOf(a), quadsOf(b))
}

func quadsOf(ss []stmt) []rdf.Quad {
	qs := make([]rdf.Quad, len(ss))
	for i, s := range ss {
		qs[i] = s.quad
	}
	return qs
}

func wiresOf(ss []stmt) []string {
	ws := make([]string, 0, len(ss))
	for i, s := range ss {
		if i >= 12 {
			ws = append(ws, "…")
			break
		}
		ws = append(ws, s.wire)
	}
	return ws
}

var reEndTag = regexp.MustCompile(`</[^>]*>`)

// wsOnlyDiff: "literal-whitespace" when the two statement lists are equal as multisets (blank nodes
// blinded) once all white space is removed from literal lexical forms; "" otherwise.
func wsOnlyDiff(a, b []stmt) string {
	if len(a) != len(b) {
		return ""
	}
	norm := func(ss []stmt) string {
		out := make([]string, len(ss))
		for i, s := range ss {
			q := s.quad
			if l, ok := q.Triple.Object.(rdf.Literal); ok {
				l.LexicalForm = strings.Join(strings.Fields(l.LexicalForm), "")
				if strings.HasSuffix(string(l.Datatype), "#XMLLiteral") || strings.HasSuffix(string(l.Datatype), "#HTML") {
					// markup literals: `<t> </t>` and `<t/>` are the same up to white-space-only text
					l.LexicalForm = reEndTag.ReplaceAllString(l.LexicalForm, "")
					l.LexicalForm = strings.ReplaceAll(l.LexicalForm, "/>", ">")
				}
				q.Triple.Object = l
			}
			out[i] = vh.QuadWire(q, func(rdf.BlankNode) string { return "_" })
		}
		sort.Strings(out)
		return strings.Join(out, ";")
	}
	if norm(a) == norm(b) {
		return "literal-whitespace"
	}
	return ""
}

// reasonKey: the stable key a missing-range reason starts with ("key: explanation").
func reasonKey(msg string) string {
	if k := strings.Index(msg, ": "); k > 0 && !strings.ContainsAny(msg[:k], " ") {
		return msg[:k]
	}
	return ""
}

// recoveredKind: x/net/html.Parse recovers panics of the tokenizer wrapper and returns them as errors;
// when capture changes the outcome because of such an error the sub-key names it.
func recoveredKind(on, off error) string {
	for _, e := range []error{on, off} {
		if e == nil {
			continue
		}
		m := e.Error()
		switch {
		case strings.Contains(m, "no grapheme cluster found"):
			return "recovered:no grapheme cluster found"
		case strings.Contains(m, "slice bounds out of range"):
			return "recovered:slice-bounds"
		case strings.Contains(m, "index out of range"):
			return "recovered:index"
		case strings.Contains(m, "nil pointer dereference"):
			return "recovered:nil-deref"
		case strings.Contains(m, "runtime error"):
			return "recovered:other"
		}
	}
	return ""
}

func clip(s string, n int) string {
	if len(s) > n {
		return s[:n] + "…"
	}
	return s
}
