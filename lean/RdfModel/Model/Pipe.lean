/-
  RdfModel.Model.Pipe — executable model of format conversion through the I/O registry and the
  `rdfkit pipe` command (property C18).

  Go code followed, function by function:
    rdfio/rdfiotypes/registry.go      Registry.ResolveDecoderType / ResolveEncoderType   → `resolveDecoderType`, `resolveEncoderType`
                                      Registry.NewDecoder / NewEncoder (manager lookup)   → `openDecoderType`, `openEncoderType`
    cmd/rdfkit/cmdflags/*.go          EncodingInput.Open / EncodingOutput.Open (fallback)  → `openDecoderType`, `openEncoderType`
    rdfio/fileresource/manager.go     NewReader / NewWriter (name → file name, IRI)         → `fileName`, `fileIRI`
    path/filepath                     Base, Ext (POSIX)                                     → `filepathBase`, `filepathExt`
    rdfio/rdfiotypes/decoder.go       DecoderHandle.GetQuadsDecoder                         → `getQuadsDecoder`
    rdfio/rdfiotypes/encoder.go       EncoderHandle.GetQuadsEncoder,
                                      PropagateDecoderPipeBlankNodeStringProvider           → `getQuadsEncoder`, `pipeProvider`
    encoding/encodingutil/quad_as_triple.go, triples_as_quad.go                             → `quadAsTriple`, `tripleAsQuad`
    cmd/rdfkit/pipecmd/command.go     the decode → adapt → encode loop                      → `pipeStatements`, `labelQuads`, `pipeNQ`

  Conventions.
  * Go strings are byte lists (`Str`); `strings.ToLower` is modelled for ASCII only (`asciiLower`); T3 feeds
    ASCII names and media types (non-ASCII case folding is outside the model).
  * A Go `map[string]T` is an association list with distinct keys; lookup is `BN.assoc`. Iteration over a map
    (`for fileExt, cti := range r.FileExts`) happens in an order Go does not specify: the order is the explicit
    parameter `ord` (a permutation of the table).
  * Magic-byte resolvers are Go closures over regular expressions (outside the model): the model takes the
    list of their answers on the peeked bytes, in registry order (`magic : Option (List (Option Cti))`,
    `none` = `GetMagicBytes` reported no bytes).
  * Blank nodes, factories and label providers are those of `Model/BlankNodes.lean` (C14). Labels (`BN.Bytes`)
    are read as code-point lists here (`[]rune(label)`; decoders only produce valid UTF-8 labels, for which
    string equality and rune-list equality coincide), because that is what `Model/NQuads.lean` writes.
  Core-only imports.
-/
import RdfModel.Model.Term
import RdfModel.Model.BlankNodes
import RdfModel.Model.NQuads
namespace RdfModel.Pipe
open RdfModel

abbrev Str := List Nat
/-- `encoding.ContentTypeIdentifier` -/
abbrev Cti := Str

/-! ## path/filepath (POSIX), strings -/

def asciiLower (s : Str) : Str := s.map (fun c => if 0x41 ≤ c ∧ c ≤ 0x5a then c + 32 else c)

/-- `strings.HasSuffix` -/
def hasSuffix (s suf : Str) : Bool := suf.isSuffixOf s

/-- `strings.TrimPrefix` -/
def trimPrefix (s pre : Str) : Str := if pre.isPrefixOf s then s.drop pre.length else s

def dropTrailingSlashes (rev : Str) : Str := rev.dropWhile (· = 0x2f)

/-- `filepath.Base`: last element of the path; trailing slashes removed first; `.` for the empty path,
    `/` for a path of slashes only. -/
def filepathBase (path : Str) : Str :=
  if path = [] then [0x2e]
  else
    let r := dropTrailingSlashes path.reverse
    let last := (r.takeWhile (· ≠ 0x2f)).reverse
    if last = [] then [0x2f] else last

/-- scan backwards over the final path element for the last dot -/
def extRev : Str → Str → Str
  | [], _ => []
  | c :: rest, acc =>
    if c = 0x2f then []
    else if c = 0x2e then c :: acc
    else extRev rest (c :: acc)

/-- `filepath.Ext`: the suffix beginning at the final dot in the final slash-separated element; empty if
    there is no dot. -/
def filepathExt (path : Str) : Str := extRev path.reverse []

/-! ## The registry -/

/-- The tables of `rdfiotypes.Registry` that type resolution consults. `decoders` / `encoders` are the key
    sets of `DecoderManagers` / `EncoderManagers`. -/
structure Registry where
  aliases : List (Str × Cti)
  mediaTypes : List (Str × Cti)
  fileExts : List (Str × Cti)
  decoders : List Cti
  encoders : List Cti
  deriving Repr, DecidableEq, Inhabited

/-- What `ResolveDecoderType` asks of an `rdfiotypes.Reader`. -/
structure ReaderInfo where
  /-- `GetMediaType()`: `(Type, Subtype)` when ok -/
  mediaType : Option (Str × Str)
  /-- `GetMagicBytes()` ok ⇒ the answers of `MagicBytesResolvers` on the peeked bytes, in order -/
  magic : Option (List (Option Cti))
  /-- `GetFileName()` when ok -/
  fileName : Option Str
  deriving Repr, DecidableEq, Inhabited

/-- `if len(t) > 0 { if cti, ok := r.Aliases[t]; ok {…} else if _, ok := managers[t]; ok {…} }` -/
def resolveByType (aliases : List (Str × Cti)) (managers : List Cti) (t : Str) : Option Cti :=
  if t ≠ [] then
    match BN.assoc t aliases with
    | some cti => some cti
    | none => if t ∈ managers then some t else none
  else none

/-- `r.MediaTypes[strings.ToLower(mt.Type+"/"+mt.Subtype)]` -/
def resolveByMedia (mediaTypes : List (Str × Cti)) (rr : ReaderInfo) : Option Cti :=
  match rr.mediaType with
  | some (ty, sub) => BN.assoc (asciiLower (ty ++ 0x2f :: sub)) mediaTypes
  | none => none

/-- first resolver that answers -/
def firstSome {α : Type} : List (Option α) → Option α
  | [] => none
  | some a :: _ => some a
  | none :: rest => firstSome rest

def resolveByMagic (rr : ReaderInfo) : Option Cti :=
  match rr.magic with
  | some answers => firstSome answers
  | none => none

/-- `for fileExt, cti := range r.FileExts { if strings.HasSuffix(fileNameLower, fileExt) { return cti } }`
    with the map visited in the order `ord`. -/
def resolveByExt (ord : List (Str × Cti)) (rr : ReaderInfo) : Option Cti :=
  match rr.fileName with
  | some fn => (ord.find? (fun e => hasSuffix (asciiLower fn) e.1)).map (·.2)
  | none => none

/-- `Registry.ResolveDecoderType(rr, t)` -/
def resolveDecoderType (reg : Registry) (ord : List (Str × Cti)) (rr : ReaderInfo) (t : Str) : Option Cti :=
  match resolveByType reg.aliases reg.decoders t with
  | some c => some c
  | none =>
    match resolveByMedia reg.mediaTypes rr with
    | some c => some c
    | none =>
      match resolveByMagic rr with
      | some c => some c
      | none => resolveByExt ord rr

/-- `Registry.ResolveEncoderType(ww, t)`; `fileName` = `ww.GetFileName()` when ok.
    Note: exact, case-sensitive lookup of `filepath.Ext(fileName)` (the decoder side lower-cases and
    matches suffixes). -/
def resolveEncoderType (reg : Registry) (fileName : Option Str) (t : Str) : Option Cti :=
  match resolveByType reg.aliases reg.encoders t with
  | some c => some c
  | none =>
    match fileName with
    | some fn => BN.assoc (filepathExt fn) reg.fileExts
    | none => none

/-- `cmdflags.EncodingInput.Open` + `Registry.NewDecoder`: the option builder resolves the type (or takes
    `fallback`), `NewDecoder` resolves the resulting string again and looks the manager up.
    `none` = `ErrUnknownEncoding`. The two resolutions iterate the extension map independently. -/
def openDecoderType (reg : Registry) (ord1 ord2 : List (Str × Cti)) (rr : ReaderInfo) (t : Str) (fallback : Cti) :
    Option Cti :=
  let t1 := (resolveDecoderType reg ord1 rr t).getD fallback
  match resolveDecoderType reg ord2 rr t1 with
  | some c => if c ∈ reg.decoders then some c else none
  | none => none

/-- `cmdflags.EncodingOutput.Open` + `Registry.NewEncoder` -/
def openEncoderType (reg : Registry) (fileName : Option Str) (t : Str) (fallback : Cti) : Option Cti :=
  let t1 := (resolveEncoderType reg fileName t).getD fallback
  match resolveEncoderType reg fileName t1 with
  | some c => if c ∈ reg.encoders then some c else none
  | none => none

/-! ## fileresource: resource name → file name / IRI -/

def filePrefix : Str := RdfModel.asc "file://"

/-- `fp := strings.TrimPrefix(opts.Name, "file://")`; `""`/`"-"` is stdin/stdout (file name `std`),
    otherwise `filepath.Base(fp)`; `GetFileName` is ok iff the name is non-empty. -/
def fileName (std : Str) (name : Str) : Option Str :=
  let fp := trimPrefix name filePrefix
  let fn := if fp = [] ∨ fp = [0x2d] then std else filepathBase fp
  if fn = [] then none else some fn

/-- `GetIRI()` of a file reader/writer (`dev` = `/dev/stdin` or `/dev/stdout`) -/
def fileIRI (dev : Str) (name : Str) : Str :=
  let fp := trimPrefix name filePrefix
  if fp = [] ∨ fp = [0x2d] then filePrefix ++ dev else filePrefix ++ fp

/-! ## Triples/quads adapters -/

inductive Kind where | triples | quads
  deriving Repr, DecidableEq, Inhabited

/-- `QuadAsTripleEncoder.AddQuad`: `AddTriple(ctx, quad.Triple)` — the graph name is dropped, whatever it is. -/
def quadAsTriple {β : Type} (q : Quad β) : Quad β := { q with g := none }

/-- `TripleAsQuadDecoder.Quad()` with `graphName == nil` (as `GetQuadsDecoder` constructs it). A triple is a
    `Quad` whose `g` the triples decoder never sets. -/
def tripleAsQuad {β : Type} (t : Quad β) : Quad β := { t with g := none }

/-- `DecoderHandle.GetQuadsDecoder()` applied to the statements the decoder yields -/
def getQuadsDecoder {β : Type} : Kind → List (Quad β) → List (Quad β)
  | .quads, qs => qs
  | .triples, ts => ts.map tripleAsQuad

/-- `EncoderHandle.GetQuadsEncoder().AddQuad`: what reaches the underlying encoder -/
def getQuadsEncoder {β : Type} : Kind → Quad β → Quad β
  | .quads, q => q
  | .triples, q => quadAsTriple q

/-- The statements handed to the target encoder by the loop of `pipecmd` (`for decoderQuads.Next() { … }`),
    in order. -/
def pipeStatements {β : Type} (src tgt : Kind) (decoded : List (Quad β)) : List (Quad β) :=
  (getQuadsDecoder src decoded).map (getQuadsEncoder tgt)

/-- What the property asks a triples-only target to receive: the default graph. -/
def defaultGraph {β : Type} (qs : List (Quad β)) : List (Quad β) := qs.filter (fun q => q.g.isNone)

/-! ## Blank-node labels -/

open BN in
/-- The label provider an rdfio encoder manager installs: `PropagateDecoderPipeBlankNodeStringProvider(h)`
    if it returns one, else the encoder's own default `NewInt64StringProvider("b%d")`.
    `h` = `DecoderHandle.DecoderBlankNodes` (`none` = nil). -/
def pipeProvider (U : Nat → Bytes) (s : State) (h : Option FactoryRef) : State × Option ProvRef :=
  match step U s (.propagate h) with
  | (s', .prov p) => (s', some p)
  | (s', .noProv) =>
    match step U s' (.newInt64Provider (BN.asc "b%d")) with
    | (s'', .prov p) => (s'', some p)
    | (s'', _) => (s'', none)
  | (s', _) => (s', none)

open BN in
/-- one term through `bnStringProvider.GetBlankNodeString`; `none` = outside the model (`unsupported`/`bad`) -/
def labelTerm (U : Nat → Bytes) (p : ProvRef) (s : State) : Term Node → State × Option (Term Bytes)
  | .iri v => (s, some (.iri v))
  | .lit l d t => (s, some (.lit l d t))
  | .bnode n =>
    match getLabel U s p n with
    | (s', .label l) => (s', some (.bnode l))
    | (s', _) => (s', none)

/-- all four positions labelled ⇒ the labelled quad (`d = some none`: no graph name) -/
def mkQuad (a b c : Option (Term BN.Bytes)) (d : Option (Option (Term BN.Bytes))) : Option (Quad BN.Bytes) :=
  match a, b, c, d with
  | some a, some b, some c, some d => some ⟨a, b, c, d⟩
  | _, _, _, _ => none

open BN in
/-- `AddQuad`/`AddTriple` of the line-based encoders ask for labels in the order subject, object, graph name
    (a predicate is never a blank node in a statement the encoder accepts). -/
def labelQuad (U : Nat → Bytes) (p : ProvRef) (s : State) (q : Quad Node) : State × Option (Quad Bytes) :=
  let r1 := labelTerm U p s q.s
  let r2 := labelTerm U p r1.1 q.p
  let r3 := labelTerm U p r2.1 q.o
  match q.g with
  | none => (r3.1, mkQuad r1.2 r2.2 r3.2 (some none))
  | some g =>
    let r4 := labelTerm U p r3.1 g
    (r4.1, mkQuad r1.2 r2.2 r3.2 (r4.2.map some))

def consOpt {α : Type} : Option α → Option (List α) → Option (List α)
  | some a, some l => some (a :: l)
  | _, _ => none

open BN in
def labelQuads (U : Nat → Bytes) (p : ProvRef) : State → List (Quad Node) → State × Option (List (Quad Bytes))
  | s, [] => (s, some [])
  | s, q :: rest =>
    let r1 := labelQuad U p s q
    let r2 := labelQuads U p r1.1 rest
    (r2.1, consOpt r1.2 r2.2)

/-! ## The pipe into a line-based target (N-Triples / N-Quads) -/

inductive PipeResult where
  | ok (doc : List Nat)
  /-- `write: …`: `AddQuad` returned an error at statement `k`; what was written before stays written -/
  | writeErr (k : Nat) (doc : List Nat)
  | outside
  deriving Repr, DecidableEq, Inhabited

open BN in
/-- the loop of `pipecmd`: label and encode statement by statement; stops at the first statement the
    encoder refuses (`AddQuad` error ⇒ `write: …`, exit status 1) -/
def pipeLoop (T : NQ.Tables) (ascii quads : Bool) (U : Nat → Bytes) (p : ProvRef) :
    Nat → State → List (Quad Node) → List Nat → PipeResult
  | _, _, [], acc => .ok acc
  | k, s, q :: rest, acc =>
    match labelQuad U p s q with
    | (s', some lq) =>
      match NQ.encodeQuad T ascii id quads lq with
      | some line => pipeLoop T ascii quads U p (k + 1) s' rest (acc ++ line)
      | none => .writeErr k acc
    | (_, none) => .outside

open BN in
/-- `rdfkit pipe` with an N-Quads (`quads = true`) or N-Triples (`quads = false`) target:
    `decoded` = the statements the source decoder yields (blank nodes as Go values), `h` = its
    `DecoderBlankNodes`, `src` = whether it is a triples or a quads decoder. -/
def pipeNQ (T : NQ.Tables) (ascii quads : Bool) (U : Nat → Bytes) (s : State) (h : Option FactoryRef)
    (src : Kind) (decoded : List (Quad Node)) : PipeResult :=
  match pipeProvider U s h with
  | (s1, some p) =>
    pipeLoop T ascii quads U p 0 s1 (pipeStatements src (if quads then .quads else .triples) decoded) []
  | (_, none) => .outside

end RdfModel.Pipe
