/-
  Part C12W of property C12 — the hypotheses of the wrapper theorems, as decidable predicates on the
  RFC 3986 components of the input (`Spec.RFC3986.Parts`). Core-only: the driver evaluates them
  (`piri.hyp`) so that the harness can count how much of the generated stream they cover.

  `InLang P` delimits the sub-language on which `parse_string_identity_partial` is PROVED:
    * scheme absent, or `[a-z][a-z0-9+.-]*` (lower case: class scheme-has-uppercase is outside)
    * authority absent, or non-empty `host[:port]` of ASCII bytes that net/url's host mode leaves alone
      (no userinfo, no IP literal, no '%': the classes host-non-ascii, host-pct-encoded, userinfo-not-plain,
      host-ipvfuture, empty-host are outside — and so are plain userinfo and IPv6 literals, which the
      theorem does not cover although the code handles them)
    * path: bytes accepted by `validEncoded(_, encodePath)` (ASCII unreserved, sub-delims, ':' '@' '/' '[' ']',
      and well-formed %XX escapes of either case); non-ASCII path bytes are NOT covered
    * with a scheme other than http/https/file and no authority the path does not start with '/'
      (class opaque-reclassified-abs-path); a relative reference is not exactly `%2A`
      (class relative-path-escaped-asterisk) and has no ':' in its first segment (RFC 3986 4.2)
    * query: any bytes without '#'; fragment: any bytes without '#' whose %-escapes are well formed (non-ASCII
      included: there `String()` really goes through its `strings.Replace` of the escaped fragment);
      no control byte anywhere.
-/
import RdfModel.Spec.RFC3986
import RdfModel.Model.ParsedIRI
import RdfModel.Props.C12Defs
namespace RdfModel.C12W
open RdfModel.GoUrlFull RdfModel.PIRI
open RdfModel.Spec.RFC3986 (Parts recompose)

abbrev Str := List Nat

def schemeTailByte (c : Nat) : Bool := isLowerC c || isDigitC c || c == 0x2b || c == 0x2d || c == 0x2e

/-- `[a-z][a-z0-9+.-]*` -/
def schemeOk : Str → Bool
  | [] => false
  | c :: rest => isLowerC c && rest.all schemeTailByte

def special (s : Str) : Bool := s == sHttp || s == sHttps || s == sFile

def hostByteOk (c : Nat) : Bool := c < 0x80 && !shouldEscape c .host && c != 0x5b

/-- non-empty `host[:port]` that `parseHost` accepts and `String` prints unchanged -/
def authorityOk (a : Str) : Bool :=
  !a.isEmpty && a.all hostByteOk &&
    (match lastIndexOf 0x3a a with | some i => validOptionalPort (a.drop i) | none => true)

/-- `unescape(s, mode)` succeeds -/
def unescOk (mode : Mode) (s : Str) : Bool :=
  match unescape mode s with
  | .ok _ => true
  | .error _ => false

def pathOk (p : Str) : Bool := validEncoded .path p && unescOk .path p
def fragOk (f : Str) : Bool := unescOk .fragment f && !f.contains 0x23

def pctStar : Str := [0x25, 0x32, 0x41]

/-- the shape conditions that tie the path to the presence of scheme and authority -/
def shapeOk (P : Parts) : Bool :=
  match P.authority with
  | some _ => P.path.isEmpty || P.path.head? == some 0x2f
  | none =>
    !startsWith [0x2f, 0x2f] P.path &&
    (match P.scheme with
      | some sch => !(P.path.head? == some 0x2f) || special sch
      | none => P.path != pctStar && (P.path.head? == some 0x2f || !((cut 0x2f P.path).1).contains 0x3a))

def InLang (P : Parts) : Bool :=
  (match P.scheme with | some s => schemeOk s | none => true) &&
  (match P.authority with | some a => authorityOk a | none => true) &&
  pathOk P.path && shapeOk P &&
  (match P.query with | some q => !q.contains 0x23 | none => true) &&
  (match P.fragment with | some f => fragOk f | none => true) &&
  !hasCTL (recompose P)

/-! ### what `ParseIRI` yields on the recomposition of components inside `InLang` (proved: `parseIRI_eq_pOf`) -/

/-- the decoded form (`[]` when `unescape` fails; never the case inside `InLang`) -/
def unescD (mode : Mode) (s : Str) : Str :=
  match unescape mode s with
  | .ok r => r
  | .error _ => []

/-- `RawPath` / `RawFragment`: set only when the default encoding of the decoded form differs -/
def rawOf (mode : Mode) (s : Str) : Str := if escape mode (unescD mode s) = s then [] else s

/-- the fragment-free recomposition -/
def preOf (P : Parts) : Str :=
  RdfModel.Spec.RFC3986.schemePart P.scheme ++ RdfModel.Spec.RFC3986.authorityPart P.authority ++ P.path ++
    RdfModel.Spec.RFC3986.queryPart P.query

/-- the `url.URL` that `parse(pre, false)` builds -/
def urlNoFrag (P : Parts) : URL :=
  if preOf P = [0x2a] then { path := [0x2a] }
  else
    let sch := P.scheme.getD []
    match P.authority with
    | some a => { scheme := sch, host := a, path := unescD .path P.path, rawPath := rawOf .path P.path,
                  forceQuery := (P.query == some []), rawQuery := P.query.getD [] }
    | none =>
      if P.scheme.isSome && !(P.path.head? == some 0x2f) then
        { scheme := sch, opaq := P.path, forceQuery := (P.query == some []), rawQuery := P.query.getD [] }
      else
        { scheme := sch, omitHost := (!sch.isEmpty && startsWith [0x2f] P.path), path := unescD .path P.path,
          rawPath := rawOf .path P.path, forceQuery := (P.query == some []), rawQuery := P.query.getD [] }

def fragNonEmpty (P : Parts) : Option Str :=
  match P.fragment with
  | some f => if f.isEmpty then none else some f
  | none => none

/-- the `url.URL` that `url.Parse` builds -/
def urlOf (P : Parts) : URL :=
  match fragNonEmpty P with
  | some f => { urlNoFrag P with fragment := unescD .fragment f, rawFragment := rawOf .fragment f }
  | none => urlNoFrag P

/-- the `ParsedIRI` that `ParseIRI` builds -/
def pOf (P : Parts) : ParsedIRI :=
  { u := urlOf P, forceFragment := (P.fragment == some []), isOpaque := reclassGuard (urlNoFrag P) }

/-- The sub-language of `resolve_eq_rfc_partial`: both IRIs in `InLang`; the base is hierarchical with a scheme,
    an authority and a path starting with '/', and has no fragment (class base-fragment-inherited is outside);
    the reference is relative (no scheme, no authority); neither path contains '%'; when the reference path is
    empty the base path has no dot segment (class base-dot-segments-empty-path-reference); the path that
    `resolvePath` processes is outside the class dotdot-then-empty-segment. -/
def ResolveLang (B R : Parts) : Bool :=
  InLang B && InLang R &&
  B.scheme.isSome && B.authority.isSome && B.path.head? == some 0x2f && B.fragment.isNone &&
  R.scheme.isNone && R.authority.isNone &&
  !B.path.contains 0x25 && !R.path.contains 0x25 &&
  (!R.path.isEmpty || !C12.hasDotSegment B.path) && !C12.dotdotThenEmpty (C12.rfcFull B.path R.path)

/-- The sub-language of `resolve_abs_identity_partial` (the property's "an absolute IRI without dot segments is
    returned unchanged"): base and reference in `InLang`, the base of ANY shape (hierarchical, opaque, with or
    without authority) but not ending in an empty fragment '#' (class base-fragment-inherited); the reference has
    a scheme and its path has no dot segment. -/
def AbsLang (B R : Parts) : Bool :=
  InLang B && InLang R && R.scheme.isSome && !(B.fragment == some []) &&
  !C12.hasDotSegment R.path && !C12.dotdotThenEmpty R.path

end RdfModel.C12W
