/-
  Proofs.C03Parse — the canonical output read back by the N-Quads decoder (via the C01 round-trip
  theorem), and strict sortedness (no two lines equal) of a duplicate-free dataset.
-/
import RdfModel.Proofs.C03Model
import RdfModel.Props.C01
namespace RdfModel.Proofs.C03
open RdfModel RdfModel.Proofs.StrOrd RdfModel.C04 RdfModel.Proofs.C04

set_option linter.unusedSectionVars false

variable {β : Type} [DecidableEq β]

/-! ### maps and congruence of the N-Quads encoder in the labelling -/

theorem term_map_map {γ δ : Type} (f : β → γ) (g : γ → δ) (t : Term β) :
    (t.map f).map g = t.map (g ∘ f) := by
  cases t <;> rfl

theorem quad_map_map {γ δ : Type} (f : β → γ) (g : γ → δ) (q : Quad β) :
    (q.map f).map g = q.map (g ∘ f) := by
  obtain ⟨s, p, o, gr⟩ := q
  cases gr <;> simp [Quad.map, term_map_map]

theorem quad_map_congr {γ : Type} (f g : β → γ) (q : Quad β) (hpred : ∀ b, q.p ≠ .bnode b)
    (h : ∀ b ∈ Spec.RDFC10.quadBnodes q, f b = g b) : q.map f = q.map g := by
  obtain ⟨s, p, o, gr⟩ := q
  have hs : s.map f = s.map g := by
    cases s <;> simp_all [Term.map, Spec.RDFC10.quadBnodes, Spec.RDFC10.bnodeOf]
  have ho : o.map f = o.map g := by
    cases o <;> simp_all [Term.map, Spec.RDFC10.quadBnodes, Spec.RDFC10.bnodeOf]
  have hg : gr.map (Term.map f) = gr.map (Term.map g) := by
    cases gr with
    | none => rfl
    | some t => cases t <;> simp_all [Term.map, Spec.RDFC10.quadBnodes, Spec.RDFC10.bnodeOf]
  have hp : p.map f = p.map g := by
    cases p with
    | iri _ => rfl
    | lit _ _ _ => rfl
    | bnode b => exact absurd rfl (hpred b)
  simp [Quad.map, hs, hp, ho, hg]

/-- For a well-formed quad the Go N-Quads encoder writes exactly the canonical line. -/
theorem encodeQuad_eq_nquad (T : NQ.Tables) (henc : EncOK T) (lab : β → Str) (q : Quad β)
    (hwf : WFQuad T q) : NQ.encodeQuad T false lab true q = some (Spec.RDFC10.nquad lab q) := by
  obtain ⟨s, p, o, g⟩ := q
  obtain ⟨hs, hp, ho, hg⟩ := hwf
  rw [nquad_eq]
  cases p with
  | bnode _ => exact absurd hp (by simp [WFPredicate])
  | lit _ _ _ => exact absurd hp (by simp [WFPredicate])
  | iri pv =>
    have hpv := henc.iri pv hp
    have hS : NQ.writeNode T false lab s = some (Spec.RDFC10.term lab s) := by
      cases s with
      | lit _ _ _ => exact absurd hs (by simp [WFNode])
      | iri sv => simp [NQ.writeNode, Spec.RDFC10.term, henc.iri sv hs]
      | bnode sb => simp [NQ.writeNode, Spec.RDFC10.term]
    have hO : NQ.writeObject T false lab o = some (Spec.RDFC10.term lab o) := by
      cases o with
      | lit l d t => simp [NQ.writeObject, Spec.RDFC10.term, henc.lit l d t ho]
      | iri ov => simp [NQ.writeObject, NQ.writeNode, Spec.RDFC10.term, henc.iri ov ho]
      | bnode ob => simp [NQ.writeObject, NQ.writeNode, Spec.RDFC10.term]
    unfold NQ.encodeQuad
    simp only [hS, NQ.writePredicate, hpv, hO, Option.bind_eq_bind, Option.bind_some, Option.pure_def]
    cases g with
    | none => simp [specG, Spec.RDFC10.term]
    | some g =>
      cases g with
      | lit _ _ _ => exact absurd (hg _ rfl) (by simp [WFNode])
      | iri gv => simp [NQ.writeNode, specG, Spec.RDFC10.term, henc.iri gv (hg _ rfl)]
      | bnode gb => simp [NQ.writeNode, specG, Spec.RDFC10.term]

theorem encodeDoc_eq (T : NQ.Tables) (henc : EncOK T) (lab : β → Str) (qs : List (Quad β))
    (hwf : ∀ q ∈ qs, WFQuad T q) :
    NQ.encodeDoc T false lab true qs = (qs.map (Spec.RDFC10.nquad lab)).flatten := by
  unfold NQ.encodeDoc
  rw [List.flatMap_def]
  congr 1
  apply List.map_congr_left
  intro q hq
  rw [encodeQuad_eq_nquad T henc lab q (hwf q hq)]
  rfl

theorem nquad_congr (lab lab' : β → Str) (q : Quad β) (hpred : ∀ b, q.p ≠ .bnode b)
    (h : ∀ b ∈ Spec.RDFC10.quadBnodes q, lab b = lab' b) :
    Spec.RDFC10.nquad lab q = Spec.RDFC10.nquad lab' q := by
  obtain ⟨s, p, o, g⟩ := q
  have hs : Spec.RDFC10.term lab s = Spec.RDFC10.term lab' s := by
    cases s <;> simp_all [Spec.RDFC10.term, Spec.RDFC10.quadBnodes, Spec.RDFC10.bnodeOf]
  have ho : Spec.RDFC10.term lab o = Spec.RDFC10.term lab' o := by
    cases o <;> simp_all [Spec.RDFC10.term, Spec.RDFC10.quadBnodes, Spec.RDFC10.bnodeOf]
  have hg : specG lab g = specG lab' g := by
    cases g with
    | none => rfl
    | some t => cases t <;> simp_all [specG, Spec.RDFC10.term, Spec.RDFC10.quadBnodes, Spec.RDFC10.bnodeOf]
  have hp : Spec.RDFC10.term lab p = Spec.RDFC10.term lab' p := by
    cases p with
    | iri _ => rfl
    | lit _ _ _ => rfl
    | bnode b => exact absurd rfl (hpred b)
  rw [nquad_eq, nquad_eq, hs, ho, hg, hp]

theorem wf_pred (T : NQ.Tables) (q : Quad β) (h : WFQuad T q) : ∀ b, q.p ≠ .bnode b := by
  intro b hb
  have := h.p
  rw [hb] at this
  simp [WFPredicate] at this

theorem c01wf_map {γ : Type} (urlOk : List Nat → Bool) (σ : β → γ) (q : Quad β) (h : C01.WFQuad urlOk q) :
    C01.WFQuad urlOk (q.map σ) := by
  obtain ⟨s, p, o, g⟩ := q
  obtain ⟨hs, hp, ho, hg⟩ := h
  refine ⟨?_, ?_, ?_, ?_⟩
  · cases s <;> simp_all [Quad.map, Term.map, C01.WFNode]
  · cases p <;> simp_all [Quad.map, Term.map, C01.WFPredicate]
  · cases o <;> simp_all [Quad.map, Term.map, C01.WFObject, C01.WFNode]
  · intro g' hg'
    cases g with
    | none => simp [Quad.map] at hg'
    | some g0 =>
      simp only [Quad.map, Option.map_some, Option.some.injEq] at hg'
      subst hg'
      have := hg g0 rfl
      cases g0 <;> simp_all [Term.map, C01.WFNode]

/-- The C01 round trip for a labelling that is only known to be admissible on the blank nodes of the
    dataset (C01 asks for admissibility on the whole carrier; pass through the subtype of admissible
    labels). -/
theorem roundtrip_labels (T : NQ.Tables) (hT1 : C01.TablesOK T) (henc : EncOK T) (urlOk : List Nat → Bool)
    (lab : β → Str) (dflt : Str) (hd : C01.labelOK T dflt = true) (qs : List (Quad β))
    (hwf : ∀ q ∈ qs, WFQuad T q) (hwf1 : ∀ q ∈ qs, C01.WFQuad urlOk q)
    (hlab : ∀ q ∈ qs, ∀ b ∈ Spec.RDFC10.quadBnodes q, C01.labelOK T (lab b) = true) :
    NQ.run T urlOk .eof true (qs.map (Spec.RDFC10.nquad lab)).flatten
      = (qs.map (Quad.map lab), .clean) := by
  let γ := { l : Str // C01.labelOK T l = true }
  let lab' : β → γ := fun b => if h : C01.labelOK T (lab b) = true then ⟨lab b, h⟩ else ⟨dflt, hd⟩
  have hagree : ∀ q ∈ qs, ∀ b ∈ Spec.RDFC10.quadBnodes q, ((Subtype.val : γ → Str) ∘ lab') b = lab b := by
    intro q hq b hb
    simp only [Function.comp, lab', hlab q hq b hb, dite_true]
  have hl : C01.LabelsOK T (Subtype.val : γ → Str) := ⟨fun a b h => Subtype.ext h, fun b => b.2⟩
  have h1 := C01.nquads_roundtrip T hT1 urlOk false (Subtype.val : γ → Str) hl (qs.map (Quad.map lab'))
    (by
      intro q hq
      obtain ⟨q0, hq0, rfl⟩ := List.mem_map.mp hq
      exact c01wf_map urlOk lab' q0 (hwf1 q0 hq0))
  rw [encodeDoc_eq T henc _ _ (by
      intro q hq
      obtain ⟨q0, hq0, rfl⟩ := List.mem_map.mp hq
      exact wfQuad_map T lab' q0 (hwf q0 hq0))] at h1
  have e1 : (qs.map (Quad.map lab')).map (Spec.RDFC10.nquad (Subtype.val : γ → Str))
      = qs.map (Spec.RDFC10.nquad lab) := by
    rw [List.map_map]
    apply List.map_congr_left
    intro q hq
    simp only [Function.comp]
    rw [nquad_map]
    exact nquad_congr _ _ q (wf_pred T q (hwf q hq)) (hagree q hq)
  have e2 : (qs.map (Quad.map lab')).map (Quad.map (Subtype.val : γ → Str)) = qs.map (Quad.map lab) := by
    rw [List.map_map]
    apply List.map_congr_left
    intro q hq
    simp only [Function.comp]
    rw [quad_map_map]
    exact quad_map_congr _ _ q (wf_pred T q (hwf q hq)) (hagree q hq)
  rw [e1, e2] at h1
  exact h1

/-! ### canonical labels are admissible blank node labels -/

/-- Facts about the regenerated PN_CHARS tables: the characters of `c14n<digits>` are label characters. -/
structure TablesLabel (T : NQ.Tables) : Prop where
  cU : inRanges T.pnCharsU 0x63 = true
  c1 : inRanges T.pnChars 0x31 = true
  c4 : inRanges T.pnChars 0x34 = true
  cn : inRanges T.pnChars 0x6e = true
  digits : ∀ d, 0x30 ≤ d → d ≤ 0x39 → inRanges T.pnChars d = true

theorem labelOK_c14n (T : NQ.Tables) (hL : TablesLabel T) (k : Nat) :
    C01.labelOK T (Spec.RDFC10.c14nPrefix ++ decimal k) = true := by
  have hrest : ∀ x ∈ [0x31, 0x34, 0x6e] ++ decimal k, inRanges T.pnChars x = true := by
    intro x hx
    simp only [List.mem_append, List.mem_cons, List.not_mem_nil, or_false] at hx
    rcases hx with (rfl | rfl | rfl) | hx
    · exact hL.c1
    · exact hL.c4
    · exact hL.cn
    · exact hL.digits x (decimal_digits k x hx).1 (decimal_digits k x hx).2
  show C01.labelOK T (0x63 :: ([0x31, 0x34, 0x6e] ++ decimal k)) = true
  unfold C01.labelOK
  simp only [hL.cU, Bool.true_or, Bool.true_and, Bool.and_eq_true, List.all_eq_true, Bool.or_eq_true]
  refine ⟨fun x hx => Or.inl (hrest x hx), ?_⟩
  cases hlast : ([0x31, 0x34, 0x6e] ++ decimal k).getLast? with
  | none => rfl
  | some z => exact hrest z (List.mem_of_getLast? hlast)

theorem labelOK_c (T : NQ.Tables) (hL : TablesLabel T) : C01.labelOK T [0x63] = true := by
  simp [C01.labelOK, hL.cU]

/-! ### parsing back -/

theorem parses_back (T : NQ.Tables) (hT1 : C01.TablesOK T) (hT : TablesCanon T) (hL : TablesLabel T)
    (urlOk : List Nat → Bool) (qs : List (Quad β)) (out : Rdfcanon.Out β) (hs : Shape T qs out)
    (hwf : ∀ q ∈ qs, WFQuad T q) (hwf1 : ∀ q ∈ qs, C01.WFQuad urlOk q) :
    ∃ qs' : List (Quad β), qs'.Perm qs ∧
      NQ.run T urlOk .eof true out.bytes = (qs'.map (Quad.map (labelOf out)), .clean) := by
  have henc := encOK_of_tables T hT
  let le := fun (a b : Quad β) => strLe (Spec.RDFC10.nquad (labelOf out) a) (Spec.RDFC10.nquad (labelOf out) b)
  refine ⟨qs.mergeSort le, List.mergeSort_perm qs le, ?_⟩
  have hmem : ∀ q, q ∈ qs.mergeSort le ↔ q ∈ qs := fun q => List.mem_mergeSort
  have hbytes : out.bytes = ((qs.mergeSort le).map (Spec.RDFC10.nquad (labelOf out))).flatten := by
    unfold Rdfcanon.Out.bytes
    rw [lines_encoded hs]
    congr 1
    exact (List.map_mergeSort (r := le) (s := strLe) (f := Spec.RDFC10.nquad (labelOf out))
      (fun a _ b _ => rfl)).symm
  rw [hbytes]
  apply roundtrip_labels T hT1 henc urlOk (labelOf out) [0x63] (labelOK_c T hL)
  · intro q hq; exact hwf q ((hmem q).mp hq)
  · intro q hq; exact hwf1 q ((hmem q).mp hq)
  · intro q hq b hb
    obtain ⟨v, hv⟩ := Option.isSome_iff_exists.mp (hs.total q ((hmem q).mp hq) b hb)
    obtain ⟨k, hk⟩ := hs.form b v hv
    simp only [labelOf, hv, Option.getD_some, hk]
    exact labelOK_c14n T hL k

/-! ### no two lines are equal -/

theorem term_map_inj_on {γ : Type} (f : β → γ) (t t' : Term β) (h : t.map f = t'.map f)
    (hinj : ∀ b ∈ Spec.RDFC10.bnodeOf t, ∀ b' ∈ Spec.RDFC10.bnodeOf t', f b = f b' → b = b') : t = t' := by
  cases t <;> cases t' <;> simp_all [Term.map, Spec.RDFC10.bnodeOf]

theorem quad_map_inj_on {γ : Type} (f : β → γ) (q q' : Quad β) (hp : ∀ b, q.p ≠ .bnode b)
    (hp' : ∀ b, q'.p ≠ .bnode b) (h : q.map f = q'.map f)
    (hinj : ∀ b ∈ Spec.RDFC10.quadBnodes q, ∀ b' ∈ Spec.RDFC10.quadBnodes q', f b = f b' → b = b') :
    q = q' := by
  obtain ⟨s, p, o, g⟩ := q
  obtain ⟨s', p', o', g'⟩ := q'
  simp only [Quad.map, Quad.mk.injEq] at h
  obtain ⟨h1, h2, h3, h4⟩ := h
  have es : s = s' := term_map_inj_on f s s' h1 (fun b hb b' hb' =>
    hinj b (by simp [Spec.RDFC10.quadBnodes, hb]) b' (by simp [Spec.RDFC10.quadBnodes, hb']))
  have eo : o = o' := term_map_inj_on f o o' h3 (fun b hb b' hb' =>
    hinj b (by simp [Spec.RDFC10.quadBnodes, hb]) b' (by simp [Spec.RDFC10.quadBnodes, hb']))
  have ep : p = p' := by
    cases p with
    | bnode b => exact absurd rfl (hp b)
    | iri v => cases p' <;> simp_all [Term.map]
    | lit l d t => cases p' <;> simp_all [Term.map]
  have eg : g = g' := by
    cases g with
    | none => cases g' <;> simp_all
    | some t =>
      cases g' with
      | none => simp at h4
      | some t' =>
        simp only [Option.map_some, Option.some.injEq] at h4
        rw [term_map_inj_on f t t' h4 (fun b hb b' hb' =>
          hinj b (by simp [Spec.RDFC10.quadBnodes, hb]) b' (by simp [Spec.RDFC10.quadBnodes, hb']))]
  rw [es, eo, ep, eg]

/-- Canonical lines of different quads differ. -/
theorem nquad_inj_on (T : NQ.Tables) (hT1 : C01.TablesOK T) (hT : TablesCanon T) (hL : TablesLabel T)
    (urlOk : List Nat → Bool) (qs : List (Quad β)) (out : Rdfcanon.Out β) (hs : Shape T qs out)
    (hwf : ∀ q ∈ qs, WFQuad T q) (hwf1 : ∀ q ∈ qs, C01.WFQuad urlOk q) :
    ∀ q ∈ qs, ∀ q' ∈ qs, Spec.RDFC10.nquad (labelOf out) q = Spec.RDFC10.nquad (labelOf out) q' → q = q' := by
  intro q hq q' hq' heq
  have henc := encOK_of_tables T hT
  have hlabok : ∀ x ∈ qs, ∀ b ∈ Spec.RDFC10.quadBnodes x, C01.labelOK T (labelOf out b) = true := by
    intro x hx b hb
    obtain ⟨v, hv⟩ := Option.isSome_iff_exists.mp (hs.total x hx b hb)
    obtain ⟨k, hk⟩ := hs.form b v hv
    simp only [labelOf, hv, Option.getD_some, hk]
    exact labelOK_c14n T hL k
  have r1 := roundtrip_labels T hT1 henc urlOk (labelOf out) [0x63] (labelOK_c T hL) [q]
    (by simpa using hwf q hq) (by simpa using hwf1 q hq) (by simpa using hlabok q hq)
  have r2 := roundtrip_labels T hT1 henc urlOk (labelOf out) [0x63] (labelOK_c T hL) [q']
    (by simpa using hwf q' hq') (by simpa using hwf1 q' hq') (by simpa using hlabok q' hq')
  simp only [List.map_cons, List.map_nil] at r1 r2
  rw [heq, r2] at r1
  have hm : q'.map (labelOf out) = q.map (labelOf out) := by
    have := (Prod.mk.inj r1).1
    simpa using this
  apply quad_map_inj_on (labelOf out) q q' (wf_pred T q (hwf q hq)) (wf_pred T q' (hwf q' hq')) hm.symm
  intro b hb b' hb' hbb
  obtain ⟨v, hv⟩ := Option.isSome_iff_exists.mp (hs.total q hq b hb)
  obtain ⟨v', hv'⟩ := Option.isSome_iff_exists.mp (hs.total q' hq' b' hb')
  simp only [labelOf, hv, hv', Option.getD_some] at hbb
  subst hbb
  exact hs.inj b b' v hv hv'

/-- **C03**: the lines of the canonical form of a duplicate-free dataset are strictly increasing. -/
theorem lines_strict (T : NQ.Tables) (hT1 : C01.TablesOK T) (hT : TablesCanon T) (hL : TablesLabel T)
    (urlOk : List Nat → Bool) (qs : List (Quad β)) (out : Rdfcanon.Out β) (hs : Shape T qs out)
    (hwf : ∀ q ∈ qs, WFQuad T q) (hwf1 : ∀ q ∈ qs, C01.WFQuad urlOk q) (hnd : qs.Nodup) :
    (out.lines.map (·.encoded)).Pairwise (fun a b => strLt a b = true) := by
  have hinj := nquad_inj_on T hT1 hT hL urlOk qs out hs hwf hwf1
  have hnd2 : (qs.map (Spec.RDFC10.nquad (labelOf out))).Nodup := by
    unfold List.Nodup at hnd ⊢
    rw [List.pairwise_map]
    exact hnd.imp_of_mem (fun {a b} ha hb hab heq => hab (hinj a ha b hb heq))
  have hnd3 : (out.lines.map (·.encoded)).Nodup := by
    rw [lines_encoded hs]
    exact (sortStr_perm _).nodup_iff.mpr hnd2
  have hsorted := lines_sorted hs
  refine (hsorted.and hnd3).imp ?_
  intro a b ⟨hab, hne⟩
  simp only [strLt, Bool.not_eq_true']
  cases hba : strLe b a with
  | false => rfl
  | true => exact absurd (strLe_antisymm a b hab hba) hne

end RdfModel.Proofs.C03
