package main

import (
	"encoding/json"

	"verifharness/vh"
)

// replayOps: the protocol lines of a replay JSON written by ./check.
func replayOps(b []byte) []string {
	var rf struct {
		Violations    []vh.Case `json:"violations"`
		Disagreements []vh.Case `json:"disagreements"`
	}
	var lines []string
	if err := json.Unmarshal(b, &rf); err == nil {
		for _, c := range append(rf.Violations, rf.Disagreements...) {
			lines = append(lines, c.Op)
		}
	}
	return lines
}
