/-
  C20F helper lemmas: the XSD lexical mapping of xsd:decimal is defined exactly on the lexical space
  (`decimalLex s` is `some` iff `decimalLexOK s`), and renderings contain no white space.
-/
import RdfModel.Proofs.C20FloatOut
namespace RdfModel.Proofs.C20F
open RdfModel RdfModel.XsdF RdfModel.C20F
open RdfModel.Xsd (Bytes)
open RdfModel.Spec.Xsd (isDigit spanDigits natValue decimalLex signSplit dropSign decimalLexOK unsignedNumeral isWs collapse)

theorem signSplit_snd (s : Bytes) : (signSplit s).2 = dropSign s := by
  cases s with
  | nil => rfl
  | cons b r =>
    simp only [signSplit, dropSign]
    by_cases h1 : b = 0x2D
    · simp [h1]
    · by_cases h2 : b = 0x2B <;> simp [h1, h2]

theorem span_rest_head (s : Bytes) : ∀ i c r2, spanDigits s = (i, c :: r2) → isDigit c = false := by
  induction s with
  | nil => intro i c r2 h; simp [spanDigits] at h
  | cons b t ih =>
    intro i c r2 h
    by_cases hb : isDigit b = true
    · simp only [spanDigits, hb, if_true] at h
      cases hst : spanDigits t with
      | mk i' r' =>
        rw [hst] at h
        simp only [Prod.mk.injEq] at h
        exact ih i' c r2 (by rw [hst, h.2])
    · simp only [spanDigits, hb, Bool.false_eq_true, if_false, Prod.mk.injEq, List.cons.injEq] at h
      rw [← h.2.1]; simpa using hb

theorem decimalLex_isSome (s : Bytes) : (decimalLex s).isSome = decimalLexOK s := by
  unfold decimalLex decimalLexOK unsignedNumeral
  rw [← signSplit_snd]
  cases hss : signSplit s with
  | mk neg r =>
    simp only
    cases hsp : spanDigits r with
    | mk i r1 =>
      simp only
      cases r1 with
      | nil => cases i <;> simp
      | cons c r2 =>
        by_cases hc : c = 0x2E
        · subst hc
          simp only [if_true]
          cases hsp2 : spanDigits r2 with
          | mk f r3 =>
            simp only
            cases r3 <;> cases i <;> cases f <;> simp
        · simp only [hc, if_false]
          split
          · next heq =>
            exfalso
            split at heq
            · next h46 => simp only [List.cons.injEq] at h46; exact hc h46.1
            · cases i <;> simp at heq
          · rfl

theorem decimalLex_of_OK {s : Bytes} (h : decimalLexOK s = true) :
    ∃ neg n k, decimalLex s = some (neg, n, k) := by
  rw [← decimalLex_isSome] at h
  cases hd : decimalLex s with
  | none => rw [hd] at h; simp at h
  | some v => exact ⟨v.1, v.2.1, v.2.2, rfl⟩

/-! ### renderings contain no white space -/

theorem digit_notWs {c : Nat} (h : isDigit c = true) : isWs c = false := by
  rw [C20.isDigit_iff] at h
  simp only [isWs, Bool.or_eq_false_iff, beq_eq_false_iff_ne]
  omega

theorem build_noWs (neg : Bool) (ip fp : Bytes) (dot : Bool) (hi : AllDigits ip) (hf : AllDigits fp) :
    C20.NoWs (build neg ip fp dot) := by
  intro b hb
  simp only [build, List.mem_append] at hb
  rcases hb with (hb | hb) | hb
  · cases neg
    · simp at hb
    · simp at hb; subst hb; decide
  · exact digit_notWs (hi b hb)
  · cases dot
    · simp at hb
    · simp only [if_true, List.mem_cons] at hb
      rcases hb with hb | hb
      · subst hb; decide
      · exact digit_notWs (hf b hb)

theorem fmtF_collapse (d : Dec) (h : decWF d = true) : collapse (fmtF d) = fmtF d := by
  obtain ⟨ip, fp, dot, S⟩ := fmtF_shape d h
  rw [S.eq]
  exact C20.collapse_noWs _ (build_noWs _ _ _ _ S.hi S.hf)

end RdfModel.Proofs.C20F
