package main

import "os"

// Delta debugging of a failing single-run case: keep the violation class, drop bytes.

// classOf: class key -> detail of the single-run violations of a case, computed in a child.
func (k *collector) classOf(c Case) map[string]string {
	k.probeMu.Lock()
	defer k.probeMu.Unlock()
	if k.prober == nil {
		k.prober = &runner{}
	}
	s := k.prober.run(job{Kind: jobProbe, C: c})
	out := map[string]string{}
	for key, d := range s.Classes {
		out[key] = d
	}
	for _, v := range s.Viols { // the child died: crash / hang class
		out[v.Key()] = v.Detail
	}
	return out
}

// shrink minimises c.Input (and simplifies the schedule) while the class key stays present.
func (k *collector) shrink(v violation, maxRuns int) violation {
	if v.Kind == "hang" || v.Kind == "crash" || v.Kind == "growth" || len(v.Case.Input) > 64<<10 || os.Getenv("C05X_NOSHRINK") != "" {
		return v
	}
	key := v.Key()
	runs := 0
	detail := v.Detail
	holds := func(c Case) bool {
		runs++
		d, ok := k.classOf(c)[key]
		if ok {
			detail = d
		}
		return ok
	}
	c := v.Case
	if !holds(c) {
		return v // not reproducible in isolation (should not happen): keep as found
	}
	// simplify schedule first
	if c.Sched.Chunk != "whole" || c.Sched.FaultAt >= 0 {
		t := c
		t.Sched = wholeSched
		if holds(t) {
			c = t
		}
	}
	for _, simp := range []func(o Opts) Opts{
		func(o Opts) Opts { o.Loader = false; return o },
		func(o Opts) Opts { o.Lax = false; return o },
		func(o Opts) Opts { o.Mode = ""; return o },
		func(o Opts) Opts { o.Dir = ""; return o },
		func(o Opts) Opts { o.Base = false; return o },
		func(o Opts) Opts { o.Offsets = false; return o },
		func(o Opts) Opts { o.Profile = 0; return o },
	} {
		t := c
		t.Opts = simp(c.Opts)
		if t.Opts != c.Opts && holds(t) {
			c = t
		}
	}
	in := c.Input
	for chunk := len(in) / 2; chunk >= 1 && runs < maxRuns; {
		removed := false
		for i := 0; i+chunk <= len(in) && runs < maxRuns; {
			t := c
			t.Input = append(append([]byte(nil), in[:i]...), in[i+chunk:]...)
			if c.Sched.FaultAt > len(t.Input) {
				t.Sched.FaultAt = len(t.Input)
			}
			if holds(t) {
				in = t.Input
				c = t
				removed = true
			} else {
				i += chunk
			}
		}
		if !removed || chunk == 1 {
			chunk /= 2
		}
	}
	c.Family = v.Case.Family + "+shrunk"
	holds(c)
	v.Case, v.Detail = c, detail
	return v
}
