/-
  Part C09D2: the decoder model on rendered well-formed plans of the FULL-PARTIAL fragment (Props/C09Dec2Defs.lean):
  the striped fragment plus parseType="Collection" with item nodes.  Same structure as Proofs/C09DecSim2.lean (whose
  lemmas are reused for every production that does not recurse); the recursive productions are repeated here because
  their nested parts may now contain collections.
-/
import RdfModel.Proofs.C09Dec2Coll
import RdfModel.Proofs.C09Dec2Attrs
import RdfModel.Proofs.C09Dec2Attrs2
namespace RdfModel.RXD
open RdfModel RdfModel.Desc RdfModel.RX RdfModel.C09Dec

variable {rs : Str → Str → Str} {render : List Tok → Option Str}

mutual

/-- a nested node element inside a resourcePropertyElt: from the `pelt` frame of the enclosing property element
    (nothing found yet) to the same frame with `found` set, the property's statement (and reification) emitted -/
theorem nodeP2 (hf : EmptyRefNoFrag rs) (hr : ∀ c, render [.chars c] = some c) :
    ∀ (n : PNode), fullNode n = true → ∀ {env : Env} {pctx nctx : Ctx}, CtxRel env nctx →
    ∀ (S S1 : RX.St), wfNode rs env S n = some S1 →
    ∀ (ps : Term BN) (pred : Str) (pattrs : List Attr) (id : PId) {Sa Sb : RX.St}, wfId rs env id Sa = some Sb →
    ∀ (chars child : Str) (B : List Frame) (ctx0 : Ctx) (st : St), st.next = S.next → ∀ (rest : List Tok) (fin : Fin),
    ∃ (st1 : St) (ts : List T) (found : Str), run (mkP rs render) ctx0 (.pelt pctx nctx ps pred pattrs (PId.val id) [] chars child :: B) st
        (tokens (renderNode n) ++ rest) fin =
        run (mkP rs render) ctx0 (.pelt pctx nctx ps pred pattrs (PId.val id) found chars found :: B) st1 rest fin ∧
      found ≠ [] ∧ st1.out = ts.reverse ++ st.out ∧
      ts.Perm (withReify (PId.iri id) ⟨ps, pred, n.subj⟩ ++ flatNode n) ∧ st1.next = S1.next
  | .mk sc subj typ pattrsN props, hleaf, env, pctx, nctx, hrel, S, S1, hwf, ps, pred, pattrs, id, Sa, Sb, hid, chars, child, B,
      ctx0, st, hn, rest, fin => by
    simp only [fullNode, Bool.and_eq_true] at hleaf
    simp only [wfNode] at hwf
    split at hwf
    · rename_i hc
      simp only [Bool.and_eq_true] at hc
      split at hwf
      · simp at hwf
      · rename_i S0 hsub
        obtain ⟨kctx, st1, ts0, h1, hrel', ho1, hp0, hn1⟩ := nodeEntry_simM (render := render) hf sc subj typ pattrsN hleaf.1.1 hleaf.1.2 hrel
          S S0 hc.1 hc.2 hsub st hn
        obtain ⟨li1, st2, ts2, h2, ho2, hp2, hn2⟩ := propsS2 hf hr props hleaf.2 hrel' subj.term 0 S0 S1 hwf
          (.node subj.term) (.pelt pctx nctx ps pred pattrs (PId.val id) [] chars (typNs typ ++ typName typ) :: B) ctx0 st1 hn1
          (.end_ (typNs typ) (typName typ) :: rest) fin
        obtain ⟨st3, h3, ho3, hn3⟩ := optReify_sim (render := render) hf hrel hid ⟨ps, pred, subj.term⟩
          (st2.emit ⟨ps, pred, subj.term⟩) st2.out rfl
        refine ⟨st3, ts0 ++ ts2 ++
          withReify (PId.iri id) ⟨ps, pred, subj.term⟩, typNs typ ++ typName typ, ?_, typName_ne_nil hc.1, ?_, ?_, ?_⟩
        · simp only [renderNode, tokens, List.cons_append, List.append_assoc, List.nil_append]
          rw [run_step (stk' := .props kctx subj.term 0 (.node subj.term) ::
                .pelt pctx nctx ps pred pattrs (PId.val id) [] chars (typNs typ ++ typName typ) :: B) (st' := st1)
            (by simp [step, nodeNameForbidden_of_wfTyp hc.1, callNode, h1]), h2,
            run_step (stk' := .pelt pctx nctx ps pred pattrs (PId.val id) (typNs typ ++ typName typ) chars
                (typNs typ ++ typName typ) :: B) (st' := st3)
              (by simp [step, propsReturn, nodeReturn, h3])]
        · rw [ho3, ho2, ho1]; simp
        · simp only [PNode.subj, flatNode]
          refine List.Perm.trans ?_ (List.perm_append_comm)
          exact List.Perm.append_right _ (List.Perm.append hp0 hp2)
        · rw [hn3]; exact hn2
    · simp at hwf

/-- a list of striped property elements -/
theorem propsS2 (hf : EmptyRefNoFrag rs) (hr : ∀ c, render [.chars c] = some c) :
    ∀ (qs : List PProp), fullProps qs = true → ∀ {env : Env} {ctx : Ctx}, CtxRel env ctx →
    ∀ (s : Term BN) (li : Nat) (S S1 : RX.St), wfProps rs env li S qs = some S1 →
    ∀ (ret : Ret) (below : List Frame) (ctx0 : Ctx) (st : St), st.next = S.next → ∀ (rest : List Tok) (fin : Fin),
    ∃ (li1 : Nat) (st1 : St) (ts : List T), run (mkP rs render) ctx0 (.props ctx s li ret :: below) st (tokensList (renderProps qs) ++ rest) fin =
        run (mkP rs render) ctx0 (.props ctx s li1 ret :: below) st1 rest fin ∧
      st1.out = ts.reverse ++ st.out ∧ ts.Perm (flatProps s qs) ∧ st1.next = S1.next
  | [], _, env, ctx, hrel, s, li, S, S1, hwf, ret, below, ctx0, st, hn, rest, fin => by
    simp only [wfProps, Option.some.injEq] at hwf
    subst hwf
    exact ⟨li, st, [], by simp [renderProps, tokensList], by simp, by simp [flatProps], hn⟩
  | p :: qs, hleaf, env, ctx, hrel, s, li, S, S1, hwf, ret, below, ctx0, st, hn, rest, fin => by
    simp only [fullProps, Bool.and_eq_true] at hleaf
    simp only [wfProps] at hwf
    split at hwf
    · simp at hwf
    · rename_i li' S' hp
      obtain ⟨st1, ts1, h1, h2, hp1, h3⟩ := propS2 hf hr p hleaf.1 hrel s li li' S S' hp ret below ctx0 st hn
        (tokensList (renderProps qs) ++ rest) fin
      obtain ⟨li2, st2, ts2, h4, h5, hp2, h6⟩ := propsS2 hf hr qs hleaf.2 hrel s li' S' S1 hwf ret below ctx0 st1 h3 rest fin
      refine ⟨li2, st2, ts1 ++ ts2, ?_, ?_, ?_, h6⟩
      · simp only [renderProps, tokensList, List.append_assoc]
        rw [h1, h4]
      · rw [h5, h2]; simp
      · simp only [flatProps]; exact List.Perm.append hp1 hp2

/-- one striped property element -/
theorem propS2 (hf : EmptyRefNoFrag rs) (hr : ∀ c, render [.chars c] = some c) :
    ∀ (p : PProp), fullProp p = true → ∀ {env : Env} {ctx : Ctx}, CtxRel env ctx →
    ∀ (s : Term BN) (li li1 : Nat) (S S1 : RX.St), wfProp rs env li S p = some (li1, S1) →
    ∀ (ret : Ret) (below : List Frame) (ctx0 : Ctx) (st : St), st.next = S.next → ∀ (rest : List Tok) (fin : Fin),
    ∃ (st1 : St) (ts : List T), run (mkP rs render) ctx0 (.props ctx s li ret :: below) st (tokens (renderProp p) ++ rest) fin =
        run (mkP rs render) ctx0 (.props ctx s li1 ret :: below) st1 rest fin ∧
      st1.out = ts.reverse ++ st.out ∧ ts.Perm (flatProp s p) ∧ st1.next = S1.next
  | .node sc nm id n, hleaf, env, ctx, hrel, s, li, li1, S, S1, hwf, ret, below, ctx0, st, hn, rest, fin => by
    simp only [fullProp] at hleaf
    simp only [wfProp] at hwf
    split at hwf
    · rename_i hname
      split at hwf
      · simp at hwf
      · rename_i S0 hid
        obtain ⟨hnode, rfl⟩ := map_pair_some hwf
        have hidn := pidVal_ncname hid
        obtain ⟨nctx, st1, h1, hnctx, hn1, ho1⟩ := props_start_generic (render := render) hf
          { base := sc.base, lang := sc.lang, id := PId.val id } rfl rfl rfl hidn hrel nm li hname s ret below ctx0 st
        obtain ⟨st2, ts2, found, h2, hfound, ho2, hp2, hn2⟩ := nodeP2 hf hr n hleaf (pctx := ctx) hnctx S0 S1 hnode s nm.pred
          (stdAttrs { base := sc.base, lang := sc.lang, id := PId.val id }) id hid [] []
          (.props ctx s (nm.nextLi li) ret :: below) ctx0 st1 (by rw [hn1, hn, (wfId_facts hid).1])
          (.end_ nm.ns nm.name :: rest) fin
        refine ⟨st2, ts2, ?_, by rw [ho2, ho1], ?_, hn2⟩
        · simp only [renderProp, tokens, tokensList, List.cons_append, List.append_assoc, List.nil_append, List.append_nil]
          rw [run_step h1, h2, run_step (stk' := .props ctx s (nm.nextLi li) ret :: below) (st' := st2)
            (by simp [step, peltEnd, hfound])]
        · simpa [flatProp] using hp2
    · simp at hwf
  | .ptRes sc nm id k props, hleaf, env, ctx, hrel, s, li, li1, S, S1, hwf, ret, below, ctx0, st, hn, rest, fin => by
    simp only [fullProp] at hleaf
    simp only [wfProp] at hwf
    split at hwf
    · rename_i hname
      split at hwf
      · simp at hwf
      · rename_i S0 hid
        split at hwf
        · rename_i hk
          obtain ⟨hprops, rfl⟩ := map_pair_some hwf
          have hS0 := (wfId_facts hid).1
          obtain ⟨nctx, st1, h1, hrel', ho1, hn1⟩ := props_start_res (render := render) hf
            { base := sc.base, lang := sc.lang, id := PId.val id, parseType := some n_Resource } rfl rfl rfl rfl rfl rfl hrel nm li
            hname s ret below ctx0 st id rfl hid
          have hkk : k = st.next := by rw [hk, hS0, hn]
          obtain ⟨li2, st2, ts2, h2, ho2, hp2, hn2⟩ := propsS2 hf hr props hleaf hrel' (.bnode (.gen st.next)) 0
            { S0 with next := S0.next + 1 } S1 hprops .resource (.props ctx s (nm.nextLi li) ret :: below) ctx0 st1
            (by rw [hn1, hn, hS0]) (.end_ nm.ns nm.name :: rest) fin
          refine ⟨st2, withReify (PId.iri id) ⟨s, nm.pred, .bnode (.gen st.next)⟩ ++ ts2, ?_, ?_, ?_, hn2⟩
          · simp only [renderProp, tokens, List.cons_append, List.append_assoc, List.nil_append]
            rw [run_step h1, h2, run_step (stk' := .props ctx s (nm.nextLi li) ret :: below) (st' := st2)
              (by simp [step, propsReturn])]
          · rw [ho2, ho1]; simp
          · simp only [flatProp, hkk]
            exact List.Perm.append_left _ hp2
        · simp at hwf
    · simp at hwf
  | .lit sc nm id lex lang, _, env, ctx, hrel, s, li, li1, S, S1, hwf, ret, below, ctx0, st, hn, rest, fin => by
    obtain ⟨st1, h1, h2, h3⟩ := prop_sim (render := render) hf hr (.lit sc nm id lex lang) rfl hrel s li li1 S S1 hwf ret below ctx0 st hn rest fin
    exact ⟨st1, _, h1, h2, List.Perm.refl _, h3⟩
  | .typed sc nm id lex dt ref, _, env, ctx, hrel, s, li, li1, S, S1, hwf, ret, below, ctx0, st, hn, rest, fin => by
    obtain ⟨st1, h1, h2, h3⟩ := prop_sim (render := render) hf hr (.typed sc nm id lex dt ref) rfl hrel s li li1 S S1 hwf ret below ctx0 st hn rest fin
    exact ⟨st1, _, h1, h2, List.Perm.refl _, h3⟩
  | .empty sc nm id lang, _, env, ctx, hrel, s, li, li1, S, S1, hwf, ret, below, ctx0, st, hn, rest, fin => by
    obtain ⟨st1, h1, h2, h3⟩ := prop_sim (render := render) hf hr (.empty sc nm id lang) rfl hrel s li li1 S S1 hwf ret below ctx0 st hn rest fin
    exact ⟨st1, _, h1, h2, List.Perm.refl _, h3⟩
  | .res sc nm id iri ref pattrs, hleaf, env, ctx, hrel, s, li, li1, S, S1, hwf, ret, below, ctx0, st, hn, rest, fin => by
    simp only [fullProp] at hleaf
    simp only [wfProp] at hwf
    split at hwf
    · rename_i hc
      simp only [Bool.and_eq_true, decide_eq_true_eq] at hc
      obtain ⟨hid, rfl⟩ := map_pair_some hwf
      obtain ⟨st1, o, h1, hoeq, h2, h3⟩ := empty_elt_simM (render := render) hf
        { base := sc.base, lang := sc.lang, id := PId.val id, resource := some ref, props := pattrs.map PAttr.render }
        (attrs_of_wf hleaf hc.2) rfl rfl (by simp) (by simp) (.inr (.inl rfl)) hrel nm li hc.1.1 s id rfl hid
        ret below ctx0 st rest fin
      simp only [hc.1.2] at hoeq
      subst hoeq
      refine ⟨st1, ((pattrs.map PAttr.render).filter isRdf ++ (pattrs.map PAttr.render).filter (fun a => !isRdf a)).map (propAttrTriple rs (env.push rs sc.base sc.lang) (.iri iri)) ++
        withReify (PId.iri id) ⟨s, nm.pred, .iri iri⟩, ?_, ?_, ?_, by rw [h3, hn, (wfId_facts hid).1]⟩
      · simpa [renderProp, tokens, tokensList] using h1
      · rw [h2]; simp
      · simp only [flatProp]
        rw [← wfPAttrs_triples rs _ _ pattrs hc.2]
        exact (List.Perm.append_right _ (List.Perm.map _ (List.filter_append_perm isRdf _))).trans List.perm_append_comm
    · simp at hwf
  | .bref sc nm id l pattrs, hleaf, env, ctx, hrel, s, li, li1, S, S1, hwf, ret, below, ctx0, st, hn, rest, fin => by
    simp only [fullProp] at hleaf
    simp only [wfProp] at hwf
    split at hwf
    · rename_i hc
      simp only [Bool.and_eq_true, decide_eq_true_eq] at hc
      obtain ⟨hid, rfl⟩ := map_pair_some hwf
      obtain ⟨st1, o, h1, hoeq, h2, h3⟩ := empty_elt_simM (render := render) hf
        { base := sc.base, lang := sc.lang, id := PId.val id, nodeID := some l, props := pattrs.map PAttr.render }
        (attrs_of_wf hleaf hc.2) rfl rfl
        (by intro n hn'; simp only [Option.some.injEq] at hn'; subst hn'; exact hc.1.2) (by simp) (.inr (.inr (.inl rfl)))
        hrel nm li hc.1.1 s id rfl hid ret below ctx0 st rest fin
      simp only at hoeq
      subst hoeq
      refine ⟨st1, ((pattrs.map PAttr.render).filter isRdf ++ (pattrs.map PAttr.render).filter (fun a => !isRdf a)).map (propAttrTriple rs (env.push rs sc.base sc.lang) (.bnode (.named l))) ++
        withReify (PId.iri id) ⟨s, nm.pred, .bnode (.named l)⟩, ?_, ?_, ?_, by rw [h3, hn, (wfId_facts hid).1]⟩
      · simpa [renderProp, tokens, tokensList] using h1
      · rw [h2]; simp
      · simp only [flatProp]
        rw [← wfPAttrs_triples rs _ _ pattrs hc.2]
        exact (List.Perm.append_right _ (List.Perm.map _ (List.filter_append_perm isRdf _))).trans List.perm_append_comm
    · simp at hwf
  | .banon sc nm id k dt pattrs, hleaf, env, ctx, hrel, s, li, li1, S, S1, hwf, ret, below, ctx0, st, hn, rest, fin => by
    simp only [fullProp] at hleaf
    simp only [wfProp] at hwf
    split at hwf
    · rename_i hc
      simp only [Bool.and_eq_true, Bool.or_eq_true, Bool.not_eq_true', List.isEmpty_eq_false_iff] at hc
      split at hwf
      · simp at hwf
      · rename_i S0 hid
        split at hwf
        · rename_i hk
          simp only [Option.some.injEq, Prod.mk.injEq] at hwf
          obtain ⟨rfl, rfl⟩ := hwf
          have hS0 := (wfId_facts hid).1
          have hkk : k = st.next := by rw [hk, hS0, hn]
          have hsome : (pattrs.map PAttr.render) ≠ [] ∨ (none : Option Str).isSome ∨ (none : Option Str).isSome ∨ dt.isSome := by
            rcases hc.1.2 with h | h
            · exact .inr (.inr (.inr h))
            · left; simpa using h
          obtain ⟨st1, o, h1, hoeq, h2, h3⟩ := empty_elt_simM (render := render) hf
            { base := sc.base, lang := sc.lang, id := PId.val id, datatype := dt, props := pattrs.map PAttr.render }
            (attrs_of_wf hleaf hc.2) rfl rfl (by simp) (by simp) hsome hrel nm li hc.1.1 s id rfl hid
            ret below ctx0 st rest fin
          simp only at hoeq
          subst hoeq
          refine ⟨st1, ((pattrs.map PAttr.render).filter isRdf ++ (pattrs.map PAttr.render).filter (fun a => !isRdf a)).map (propAttrTriple rs (env.push rs sc.base sc.lang) (.bnode (.gen st.next))) ++
            withReify (PId.iri id) ⟨s, nm.pred, .bnode (.gen st.next)⟩, ?_, ?_, ?_, by rw [h3, hn, hS0]⟩
          · simpa [renderProp, tokens, tokensList] using h1
          · rw [h2]; simp
          · simp only [flatProp, hkk]
            rw [← wfPAttrs_triples rs _ _ pattrs hc.2]
            exact (List.Perm.append_right _ (List.Perm.map _ (List.filter_append_perm isRdf _))).trans List.perm_append_comm
        · simp at hwf
    · simp at hwf
  | .ptLit sc nm id pt content, _, env, ctx, hrel, s, li, li1, S, S1, hwf, ret, below, ctx0, st, hn, rest, fin => by
    obtain ⟨st1, h1, h2, h3⟩ := prop_sim (render := render) hf hr (.ptLit sc nm id pt content) rfl hrel s li li1 S S1 hwf ret below ctx0 st hn rest fin
    exact ⟨st1, _, h1, h2, List.Perm.refl _, h3⟩
  | .ptColl sc nm id cells items, hleaf, env, ctx, hrel, s, li, li1, S, S1, hwf, ret, below, ctx0, st, hn, rest, fin => by
    simp only [fullProp] at hleaf
    exact coll_elt_sim hf hr sc nm id cells items hleaf hrel s li li1 S S1 hwf ret below ctx0 st hn rest fin

end

/-- one striped node element below rdf:RDF -/
theorem nodeR2 (hf : EmptyRefNoFrag rs) (hr : ∀ c, render [.chars c] = some c) (n : PNode) (hleaf : fullNode n = true)
    {env : Env} {ctx : Ctx} (hrel : CtxRel env ctx) (S S1 : RX.St) (hwf : wfNode rs env S n = some S1)
    (below : List Frame) (ctx0 : Ctx) (st : St) (hn : st.next = S.next) (rest : List Tok) (fin : Fin) :
    ∃ (st1 : St) (ts : List T), run (mkP rs render) ctx0 (.rdf ctx :: below) st (tokens (renderNode n) ++ rest) fin =
        run (mkP rs render) ctx0 (.rdf ctx :: below) st1 rest fin ∧
      st1.out = ts.reverse ++ st.out ∧ ts.Perm (flatNode n) ∧ st1.next = S1.next := by
  cases n with
  | mk sc subj typ pattrs props =>
    simp only [fullNode, Bool.and_eq_true] at hleaf
    simp only [wfNode] at hwf
    split at hwf
    · rename_i hc
      simp only [Bool.and_eq_true] at hc
      split at hwf
      · simp at hwf
      · rename_i S0 hsub
        obtain ⟨nctx, st1, ts0, h1, hrel', ho1, hp0, hn1⟩ := nodeEntry_simM (render := render) hf sc subj typ pattrs hleaf.1.1 hleaf.1.2 hrel
          S S0 hc.1 hc.2 hsub st hn
        obtain ⟨li1, st2, ts2, h2, ho2, hp2, hn2⟩ := propsS2 hf hr props hleaf.2 hrel' subj.term 0 S0 S1 hwf
          (.node subj.term) (.rdf ctx :: below) ctx0 st1 hn1 (.end_ (typNs typ) (typName typ) :: rest) fin
        refine ⟨st2, ts0 ++ ts2, ?_, ?_, ?_, hn2⟩
        · simp only [renderNode, tokens, List.cons_append, List.append_assoc, List.nil_append]
          rw [run_step (stk' := .props nctx subj.term 0 (.node subj.term) :: .rdf ctx :: below) (st' := st1)
            (by simp [step, nodeNameForbidden_of_wfTyp hc.1, callNode, h1]), h2,
            run_step (stk' := .rdf ctx :: below) (st' := st2) (by simp [step, propsReturn, nodeReturn])]
        · rw [ho2, ho1]; simp
        · simp only [flatNode]; exact List.Perm.append hp0 hp2
    · simp at hwf

theorem nodesS2 (hf : EmptyRefNoFrag rs) (hr : ∀ c, render [.chars c] = some c) (ns : List PNode)
    (hleaf : fullNodes ns = true) {env : Env} {ctx : Ctx} (hrel : CtxRel env ctx) (S S1 : RX.St)
    (hwf : wfNodes rs env S ns = some S1) (below : List Frame) (ctx0 : Ctx) (st : St) (hn : st.next = S.next)
    (rest : List Tok) (fin : Fin) :
    ∃ (st1 : St) (ts : List T), run (mkP rs render) ctx0 (.rdf ctx :: below) st (tokensList (renderNodes ns) ++ rest) fin =
        run (mkP rs render) ctx0 (.rdf ctx :: below) st1 rest fin ∧
      st1.out = ts.reverse ++ st.out ∧ ts.Perm (flatNodes ns) ∧ st1.next = S1.next := by
  induction ns generalizing S st with
  | nil =>
    simp only [wfNodes, Option.some.injEq] at hwf
    subst hwf
    exact ⟨st, [], by simp [renderNodes, tokensList], by simp, by simp [flatNodes], hn⟩
  | cons n ns ih =>
    simp only [fullNodes, Bool.and_eq_true] at hleaf
    simp only [wfNodes] at hwf
    split at hwf
    · simp at hwf
    · rename_i S' hp
      obtain ⟨st1, ts1, h1, h2, hp1, h3⟩ := nodeR2 (render := render) hf hr n hleaf.1 hrel S S' hp below ctx0 st hn
        (tokensList (renderNodes ns) ++ rest) fin
      obtain ⟨st2, ts2, h4, h5, hp2, h6⟩ := ih hleaf.2 S' hwf st1 h3
      refine ⟨st2, ts1 ++ ts2, ?_, ?_, ?_, h6⟩
      · simp only [renderNodes, tokensList, List.append_assoc]
        rw [h1, h4]
      · rw [h5, h2]; simp
      · simp only [flatNodes]; exact List.Perm.append hp1 hp2

/-- a whole striped document -/
theorem docS2 (hf : EmptyRefNoFrag rs) (hr : ∀ c, render [.chars c] = some c) (base : Str) (d : PDoc)
    (hleaf : fullDoc d = true) (hwf : wfDoc rs ⟨base, none⟩ d = true) :
    ∃ ts, decode (mkP rs render) (some base) (tokensDoc (renderDoc d)) .eof = .ok ts ∧ ts.Perm (flatDoc d) := by
  have hrel : CtxRel ⟨base, none⟩ (Ctx.init (some base)) := ⟨rfl, rfl⟩
  obtain ⟨ctx1, st1, hpca, hrel1, hn1, ho1, _⟩ := pca_std (render := render) hf
    { base := d.sc.base, lang := d.sc.lang } (by simp) hrel St.init
  simp only [wfDoc, Option.isSome_iff_exists] at hwf
  obtain ⟨S1, hS1⟩ := hwf
  obtain ⟨st2, ts, h2, ho2, hp2, _⟩ := nodesS2 (render := render) hf hr d.nodes hleaf hrel1 RX.St.init S1 hS1 []
    (Ctx.init (some base)) st1 (by rw [hn1]; rfl) [.end_ rdfNS n_RDF] .eof
  have hrp : rdfPart { base := d.sc.base, lang := d.sc.lang } = [] := by simp [rdfPart, optAttr]
  refine ⟨ts, ?_, hp2⟩
  unfold decode
  simp only [tokensDoc, renderDoc, tokens]
  rw [run_step (stk' := [.rdf ctx1]) (st' := st1) (by simp [step, hpca, hrp]), h2,
    run_step (stk' := []) (st' := st2) (by simp [step])]
  simp [run, finish, ho2, ho1, St.init]

end RdfModel.RXD
