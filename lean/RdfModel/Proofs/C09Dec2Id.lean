/-
  Part C09D2: rdf:ID on node elements, conditionally: either the decoder's uniqueness check fires (`duplicateName`) or
  the node element is processed as the denotation says.  That the check does NOT fire on a well-formed plan (the
  decoder keys used IDs by the identity of the `UsedIDs` map, the denotation by the base IRI) is not proved.
-/
import RdfModel.Proofs.C09Dec2Sim
namespace RdfModel.RXD
open RdfModel RdfModel.Desc RdfModel.RX RdfModel.C09Dec

variable {rs : Str → Str → Str} {render : List Tok → Option Str}

theorem subj_partG (hf : EmptyRefNoFrag rs) {env' : Env} {nctx : Ctx} (hrel' : CtxRel env' nctx) (sc : Scope) (A : List Attr)
    (subj : Subj) {S S0 : RX.St} (hsub : wfSubj rs env' S subj = some S0) (st1 : St) (hn1 : st1.next = S.next) :
    subjLoop (mkP rs render) nctx (rdfPart (subj.info sc A)) none 0 st1 = .fail .duplicateName st1 ∨
    ∃ so n stS, subjLoop (mkP rs render) nctx (rdfPart (subj.info sc A)) none 0 st1 = .ok (so, n) stS ∧ ¬(n > 1) ∧
      (subjOrFresh so stS).1 = subj.term ∧ (subjOrFresh so stS).2.out = st1.out ∧ (subjOrFresh so stS).2.next = S0.next ∧
      (∀ a ∈ rdfPart (subj.info sc A), a.name = n_ID ∨ a.name = n_nodeID ∨ a.name = n_about) := by
  cases subj with
  | id iri v =>
    simp only [wfSubj] at hsub
    obtain ⟨hS0, hfacts⟩ := wfId_facts hsub
    obtain ⟨hnc, hiri⟩ := hfacts iri v rfl
    by_cases hdup : (nctx.used, v) ∈ st1.used
    · left
      simp [Subj.info, rdfPart, optAttr, subjLoop, hnc, resolveIRI_sim hf hrel', hdup]
    · right
      refine ⟨some (.iri iri), 1, { st1 with used := (nctx.used, v) :: st1.used }, ?_, by omega, rfl, rfl, ?_, ?_⟩
      · simp [Subj.info, rdfPart, optAttr, subjLoop, hnc, resolveIRI_sim hf hrel', hdup, hiri]
      · show st1.next = S0.next
        rw [hn1, hS0]
      · simp [Subj.info, rdfPart, optAttr]
  | about iri ref =>
    obtain ⟨so, n, h1, h2, h3, h4, h5, h6⟩ := subj_part (render := render) hf hrel' sc A (.about iri ref) rfl hsub st1 hn1
    exact .inr ⟨so, n, st1, h1, h2, h3, h4, h5, h6⟩
  | nodeID l =>
    obtain ⟨so, n, h1, h2, h3, h4, h5, h6⟩ := subj_part (render := render) hf hrel' sc A (.nodeID l) rfl hsub st1 hn1
    exact .inr ⟨so, n, st1, h1, h2, h3, h4, h5, h6⟩
  | anon k =>
    obtain ⟨so, n, h1, h2, h3, h4, h5, h6⟩ := subj_part (render := render) hf hrel' sc A (.anon k) rfl hsub st1 hn1
    exact .inr ⟨so, n, st1, h1, h2, h3, h4, h5, h6⟩

/-- `processNodeElt` up to its property elements, property attributes of any kind -/
theorem nodeEntry_simG (hf : EmptyRefNoFrag rs) (sc : Scope) (subj : Subj) (typ : Option (Str × Str)) (pattrs : List PAttr)
    (hpl : pattrs.all nodePAttr = true) {env : Env} {ctx : Ctx} (hrel : CtxRel env ctx)
    (S S0 : RX.St) (htyp : wfTyp typ = true) (hpa : wfPAttrs rs (env.push rs sc.base sc.lang) pattrs = true)
    (hsub : wfSubj rs (env.push rs sc.base sc.lang) S subj = some S0) (st : St) (hn : st.next = S.next) :
    (∃ stf, nodeEntry (mkP rs render) ctx (typNs typ) (typName typ)
        (stdAttrs (subj.info sc (pattrs.map PAttr.render))) st = .fail .duplicateName stf ∧ stf.out = st.out) ∨
    ∃ (nctx : Ctx) (st1 : St) (ts0 : List T), nodeEntry (mkP rs render) ctx (typNs typ) (typName typ)
        (stdAttrs (subj.info sc (pattrs.map PAttr.render))) st = .ok (.props nctx subj.term 0 (.node subj.term)) st1 ∧
      CtxRel (env.push rs sc.base sc.lang) nctx ∧ st1.out = ts0.reverse ++ st.out ∧
      ts0.Perm (typTriple subj.term typ ++ pattrs.map (PAttr.triple subj.term)) ∧ st1.next = S0.next := by
  have hattrs := attrs_of_wf hpl hpa
  obtain ⟨f1, f2, f3, f4, f5, f6, f7, f8⟩ := Subj.info_fields sc (pattrs.map PAttr.render) subj
  obtain ⟨nctx, st1, hpca, hrel', hn1, ho1⟩ := pca_stdM (render := render) hf (subj.info sc (pattrs.map PAttr.render))
    (by rw [f1]; exact fun a ha => (hattrs a ha).1) hrel st
  rw [f7, f8] at hrel'
  rw [f1] at hpca
  rcases subj_partG (render := render) hf hrel' sc (pattrs.map PAttr.render) subj hsub st1 (by rw [hn1]; exact hn) with
    hfail | ⟨so, n, stS, hsl, hn1', hterm, hfout, hfnext, hnames⟩
  · left
    refine ⟨st1, ?_, ho1⟩
    unfold nodeEntry
    simp only [hpca, subjLoop_append, hfail]
  right
  have hAr : ∀ a ∈ (pattrs.map PAttr.render).filter isRdf, RdfPropName a := by
    intro a ha
    simp only [List.mem_filter, isRdf, decide_eq_true_eq] at ha
    exact (hattrs a ha.1).2 ha.2
  obtain ⟨_, htt⟩ := wfTyp_facts subj.term typ htyp
  have htype : ∀ st' : St, (if typNs typ = rdfNS ∧ typName typ = n_Description then st'
      else st'.emit ⟨subj.term, rdfType, .iri (typNs typ ++ typName typ)⟩).out = (typTriple subj.term typ).reverse ++ st'.out ∧
      (if typNs typ = rdfNS ∧ typName typ = n_Description then st'
      else st'.emit ⟨subj.term, rdfType, .iri (typNs typ ++ typName typ)⟩).next = st'.next := by
    intro st'
    rw [← htt]
    unfold typeTriple
    split <;> simp [St.emit]
  obtain ⟨st5, hrl, ho5, hn5⟩ := nodeRdfLoop_mixed (render := render) hf hrel' subj.term _ hAr []
    (if typNs typ = rdfNS ∧ typName typ = n_Description then (subjOrFresh so stS).2
      else (subjOrFresh so stS).2.emit ⟨subj.term, rdfType, .iri (typNs typ ++ typName typ)⟩)
  simp only [List.reverse_nil, List.nil_append] at hrl
  have hlitns : ∀ a ∈ (pattrs.map PAttr.render).filter (fun a => !isRdf a) ++
      ((pattrs.map PAttr.render).filter isRdf).filter (fun a => !isTypeA a),
      ¬(a.ns = rdfNS ∧ a.name = n_type) := by
    intro a ha
    simp only [List.mem_append, List.mem_filter, isRdf, isTypeA, Bool.not_eq_true',
      decide_eq_false_iff_not, decide_eq_true_eq] at ha
    rcases ha with ha | ha
    · exact fun h => ha.2 h.1
    · exact fun h => ha.2 h.2
  have hlit := litAttrLoop_simG (rs := rs) hrel' subj.term _ hlitns st5
  refine ⟨nctx, litAttrLoop nctx subj.term ((pattrs.map PAttr.render).filter (fun a => !isRdf a) ++
      ((pattrs.map PAttr.render).filter isRdf).filter (fun a => !isTypeA a)) st5,
    typTriple subj.term typ ++ (((pattrs.map PAttr.render).filter isRdf).filter isTypeA).map
      (fun a => (⟨subj.term, rdfType, .iri (rs (env.push rs sc.base sc.lang).base a.val)⟩ : T)) ++
      ((pattrs.map PAttr.render).filter (fun a => !isRdf a) ++
        ((pattrs.map PAttr.render).filter isRdf).filter (fun a => !isTypeA a)).map
        (propAttrTriple rs (env.push rs sc.base sc.lang) subj.term), ?_, hrel', ?_, ?_, ?_⟩
  · unfold nodeEntry
    simp only [hpca, subjLoop_append, hsl, subjLoop_skip _ _ _ hAr, hn1', if_false, hterm,
      nodeRdfLoop_skip_append _ _ _ _ _ hnames, hrl]
  · rw [hlit.1, ho5, (htype _).1, hfout, ho1]; simp
  · rw [← wfPAttrs_triples rs _ subj.term pattrs hpa, List.append_assoc]
    refine List.Perm.append_left _ ?_
    have hmap : (((pattrs.map PAttr.render).filter isRdf).filter isTypeA).map
        (fun a => (⟨subj.term, rdfType, .iri (rs (env.push rs sc.base sc.lang).base a.val)⟩ : T)) =
        (((pattrs.map PAttr.render).filter isRdf).filter isTypeA).map (propAttrTriple rs (env.push rs sc.base sc.lang) subj.term) := by
      apply List.map_congr_left
      intro a ha
      simp only [List.mem_filter, isRdf, isTypeA, decide_eq_true_eq] at ha
      simp [propAttrTriple, ha.1.2, ha.2]
    rw [hmap, ← List.map_append]
    exact List.Perm.map _ (by simpa using filter3_perm (pattrs.map PAttr.render))
  · rw [hlit.2, hn5, (htype _).2, hfnext]


/-! ### the recursive productions, with the duplicate-name alternative -/

def DupErr (r : Result) : Prop := ∃ ts, r = .err .duplicateName ts

theorem run_fail {P : Params} {ctx0 : Ctx} {stk : List Frame} {st st' : St} {tok : Tok} {e : E}
    (h : step P ctx0 stk st tok = .fail e st') (rest : List Tok) (fin : Fin) :
    run P ctx0 stk st (tok :: rest) fin = .err e st'.out.reverse := by
  simp [run, h]

mutual

theorem nodeP3 (hf : EmptyRefNoFrag rs) (hr : ∀ c, render [.chars c] = some c) :
    ∀ (n : PNode), idNode n = true → ∀ {env : Env} {pctx nctx : Ctx}, CtxRel env nctx →
    ∀ (S S1 : RX.St), wfNode rs env S n = some S1 →
    ∀ (ps : Term BN) (pred : Str) (pattrs : List Attr) (id : PId) {Sa Sb : RX.St}, wfId rs env id Sa = some Sb →
    ∀ (chars child : Str) (B : List Frame) (ctx0 : Ctx) (st : St), st.next = S.next → ∀ (rest : List Tok) (fin : Fin),
    DupErr (run (mkP rs render) ctx0 (.pelt pctx nctx ps pred pattrs (PId.val id) [] chars child :: B) st
        (tokens (renderNode n) ++ rest) fin) ∨
    ∃ (st1 : St) (ts : List T) (found : Str), run (mkP rs render) ctx0 (.pelt pctx nctx ps pred pattrs (PId.val id) [] chars child :: B) st
        (tokens (renderNode n) ++ rest) fin =
        run (mkP rs render) ctx0 (.pelt pctx nctx ps pred pattrs (PId.val id) found chars found :: B) st1 rest fin ∧
      found ≠ [] ∧ st1.out = ts.reverse ++ st.out ∧
      ts.Perm (withReify (PId.iri id) ⟨ps, pred, n.subj⟩ ++ flatNode n) ∧ st1.next = S1.next
  | .mk sc subj typ pattrsN props, hleaf, env, pctx, nctx, hrel, S, S1, hwf, ps, pred, pattrs, id, Sa, Sb, hid, chars, child, B,
      ctx0, st, hn, rest, fin => by
    simp only [idNode, Bool.and_eq_true] at hleaf
    simp only [wfNode] at hwf
    split at hwf
    · rename_i hc
      simp only [Bool.and_eq_true] at hc
      split at hwf
      · simp at hwf
      · rename_i S0 hsub
        have htoks : tokens (renderNode (.mk sc subj typ pattrsN props)) ++ rest =
            .start (typNs typ) (typName typ) (stdAttrs (subj.info sc (pattrsN.map PAttr.render))) ::
              (tokensList (renderProps props) ++ (.end_ (typNs typ) (typName typ) :: rest)) := by
          simp [renderNode, tokens]
        rw [htoks]
        rcases nodeEntry_simG (render := render) hf sc subj typ pattrsN hleaf.1 hrel S S0 hc.1 hc.2 hsub st hn with
          ⟨stf, hfail, _⟩ | ⟨kctx, st1, ts0, h1, hrel', ho1, hp0, hn1⟩
        · left
          exact ⟨_, run_fail (st' := stf) (by simp [step, nodeNameForbidden_of_wfTyp hc.1, callNode, hfail]) _ _⟩
        · have hs1 := run_step (P := mkP rs render) (ctx0 := ctx0)
            (stk := .pelt pctx nctx ps pred pattrs (PId.val id) [] chars child :: B) (st := st)
            (tok := .start (typNs typ) (typName typ) (stdAttrs (subj.info sc (pattrsN.map PAttr.render))))
            (stk' := .props kctx subj.term 0 (.node subj.term) ::
                .pelt pctx nctx ps pred pattrs (PId.val id) [] chars (typNs typ ++ typName typ) :: B) (st' := st1)
            (by simp [step, nodeNameForbidden_of_wfTyp hc.1, callNode, h1])
            (tokensList (renderProps props) ++ (.end_ (typNs typ) (typName typ) :: rest)) fin
          rcases propsS3 hf hr props hleaf.2 hrel' subj.term 0 S0 S1 hwf
            (.node subj.term) (.pelt pctx nctx ps pred pattrs (PId.val id) [] chars (typNs typ ++ typName typ) :: B) ctx0 st1 hn1
            (.end_ (typNs typ) (typName typ) :: rest) fin with hdup | ⟨li1, st2, ts2, h2, ho2, hp2, hn2⟩
          · left; rw [hs1]; exact hdup
          · right
            obtain ⟨st3, h3, ho3, hn3⟩ := optReify_sim (render := render) hf hrel hid ⟨ps, pred, subj.term⟩
              (st2.emit ⟨ps, pred, subj.term⟩) st2.out rfl
            refine ⟨st3, ts0 ++ ts2 ++ withReify (PId.iri id) ⟨ps, pred, subj.term⟩, typNs typ ++ typName typ, ?_,
              typName_ne_nil hc.1, ?_, ?_, ?_⟩
            · rw [hs1, h2,
                run_step (stk' := .pelt pctx nctx ps pred pattrs (PId.val id) (typNs typ ++ typName typ) chars
                    (typNs typ ++ typName typ) :: B) (st' := st3)
                  (by simp [step, propsReturn, nodeReturn, h3])]
            · rw [ho3, ho2, ho1]; simp
            · simp only [PNode.subj, flatNode]
              refine List.Perm.trans ?_ (List.perm_append_comm)
              exact List.Perm.append_right _ (List.Perm.append hp0 hp2)
            · rw [hn3]; exact hn2
    · simp at hwf

theorem propsS3 (hf : EmptyRefNoFrag rs) (hr : ∀ c, render [.chars c] = some c) :
    ∀ (qs : List PProp), idProps qs = true → ∀ {env : Env} {ctx : Ctx}, CtxRel env ctx →
    ∀ (s : Term BN) (li : Nat) (S S1 : RX.St), wfProps rs env li S qs = some S1 →
    ∀ (ret : Ret) (below : List Frame) (ctx0 : Ctx) (st : St), st.next = S.next → ∀ (rest : List Tok) (fin : Fin),
    DupErr (run (mkP rs render) ctx0 (.props ctx s li ret :: below) st (tokensList (renderProps qs) ++ rest) fin) ∨
    ∃ (li1 : Nat) (st1 : St) (ts : List T), run (mkP rs render) ctx0 (.props ctx s li ret :: below) st (tokensList (renderProps qs) ++ rest) fin =
        run (mkP rs render) ctx0 (.props ctx s li1 ret :: below) st1 rest fin ∧
      st1.out = ts.reverse ++ st.out ∧ ts.Perm (flatProps s qs) ∧ st1.next = S1.next
  | [], _, env, ctx, hrel, s, li, S, S1, hwf, ret, below, ctx0, st, hn, rest, fin => by
    simp only [wfProps, Option.some.injEq] at hwf
    subst hwf
    exact .inr ⟨li, st, [], by simp [renderProps, tokensList], by simp, by simp [flatProps], hn⟩
  | p :: qs, hleaf, env, ctx, hrel, s, li, S, S1, hwf, ret, below, ctx0, st, hn, rest, fin => by
    simp only [idProps, Bool.and_eq_true] at hleaf
    simp only [wfProps] at hwf
    split at hwf
    · simp at hwf
    · rename_i li' S' hp
      have htoks : tokensList (renderProps (p :: qs)) ++ rest = tokens (renderProp p) ++ (tokensList (renderProps qs) ++ rest) := by
        simp [renderProps, tokensList]
      rw [htoks]
      rcases propS3 hf hr p hleaf.1 hrel s li li' S S' hp ret below ctx0 st hn (tokensList (renderProps qs) ++ rest) fin with
        hdup | ⟨st1, ts1, h1, h2, hp1, h3⟩
      · exact .inl hdup
      · rcases propsS3 hf hr qs hleaf.2 hrel s li' S' S1 hwf ret below ctx0 st1 h3 rest fin with
          hdup | ⟨li2, st2, ts2, h4, h5, hp2, h6⟩
        · left; rw [h1]; exact hdup
        · right
          refine ⟨li2, st2, ts1 ++ ts2, by rw [h1, h4], by rw [h5, h2]; simp, ?_, h6⟩
          simp only [flatProps]; exact List.Perm.append hp1 hp2

theorem propS3 (hf : EmptyRefNoFrag rs) (hr : ∀ c, render [.chars c] = some c) :
    ∀ (p : PProp), idProp p = true → ∀ {env : Env} {ctx : Ctx}, CtxRel env ctx →
    ∀ (s : Term BN) (li li1 : Nat) (S S1 : RX.St), wfProp rs env li S p = some (li1, S1) →
    ∀ (ret : Ret) (below : List Frame) (ctx0 : Ctx) (st : St), st.next = S.next → ∀ (rest : List Tok) (fin : Fin),
    DupErr (run (mkP rs render) ctx0 (.props ctx s li ret :: below) st (tokens (renderProp p) ++ rest) fin) ∨
    ∃ (st1 : St) (ts : List T), run (mkP rs render) ctx0 (.props ctx s li ret :: below) st (tokens (renderProp p) ++ rest) fin =
        run (mkP rs render) ctx0 (.props ctx s li1 ret :: below) st1 rest fin ∧
      st1.out = ts.reverse ++ st.out ∧ ts.Perm (flatProp s p) ∧ st1.next = S1.next
  | .node sc nm id n, hleaf, env, ctx, hrel, s, li, li1, S, S1, hwf, ret, below, ctx0, st, hn, rest, fin => by
    simp only [idProp] at hleaf
    simp only [wfProp] at hwf
    split at hwf
    · rename_i hname
      split at hwf
      · simp at hwf
      · rename_i S0 hid
        obtain ⟨hnode, rfl⟩ := map_pair_some hwf
        have hidn := pidVal_ncname hid
        obtain ⟨nctx, st1, h1, hnctx, hn1, ho1⟩ := props_start_generic (render := render) hf
          { base := sc.base, lang := sc.lang, id := PId.val id } rfl rfl rfl hidn hrel nm li hname s ret below ctx0 st
        have htoks : tokens (renderProp (.node sc nm id n)) ++ rest =
            .start nm.ns nm.name (stdAttrs { base := sc.base, lang := sc.lang, id := PId.val id }) ::
              (tokens (renderNode n) ++ (.end_ nm.ns nm.name :: rest)) := by
          simp [renderProp, tokens, tokensList]
        rw [htoks, run_step h1]
        rcases nodeP3 hf hr n hleaf (pctx := ctx) hnctx S0 S1 hnode s nm.pred
          (stdAttrs { base := sc.base, lang := sc.lang, id := PId.val id }) id hid [] []
          (.props ctx s (nm.nextLi li) ret :: below) ctx0 st1 (by rw [hn1, hn, (wfId_facts hid).1])
          (.end_ nm.ns nm.name :: rest) fin with hdup | ⟨st2, ts2, found, h2, hfound, ho2, hp2, hn2⟩
        · exact .inl hdup
        · right
          refine ⟨st2, ts2, ?_, by rw [ho2, ho1], by simpa [flatProp] using hp2, hn2⟩
          rw [h2, run_step (stk' := .props ctx s (nm.nextLi li) ret :: below) (st' := st2) (by simp [step, peltEnd, hfound])]
    · simp at hwf
  | .ptRes sc nm id k props, hleaf, env, ctx, hrel, s, li, li1, S, S1, hwf, ret, below, ctx0, st, hn, rest, fin => by
    simp only [idProp] at hleaf
    simp only [wfProp] at hwf
    split at hwf
    · rename_i hname
      split at hwf
      · simp at hwf
      · rename_i S0 hid
        split at hwf
        · rename_i hk
          obtain ⟨hprops, rfl⟩ := map_pair_some hwf
          have hS0 := (wfId_facts hid).1
          obtain ⟨nctx, st1, h1, hrel', ho1, hn1⟩ := props_start_res (render := render) hf
            { base := sc.base, lang := sc.lang, id := PId.val id, parseType := some n_Resource } rfl rfl rfl rfl rfl rfl hrel nm li
            hname s ret below ctx0 st id rfl hid
          have hkk : k = st.next := by rw [hk, hS0, hn]
          have htoks : tokens (renderProp (.ptRes sc nm id k props)) ++ rest =
              .start nm.ns nm.name (stdAttrs { base := sc.base, lang := sc.lang, id := PId.val id, parseType := some n_Resource }) ::
                (tokensList (renderProps props) ++ (.end_ nm.ns nm.name :: rest)) := by
            simp [renderProp, tokens]
          rw [htoks, run_step h1]
          rcases propsS3 hf hr props hleaf hrel' (.bnode (.gen st.next)) 0
            { S0 with next := S0.next + 1 } S1 hprops .resource (.props ctx s (nm.nextLi li) ret :: below) ctx0 st1
            (by rw [hn1, hn, hS0]) (.end_ nm.ns nm.name :: rest) fin with hdup | ⟨li2, st2, ts2, h2, ho2, hp2, hn2⟩
          · exact .inl hdup
          · right
            refine ⟨st2, withReify (PId.iri id) ⟨s, nm.pred, .bnode (.gen st.next)⟩ ++ ts2, ?_, ?_, ?_, hn2⟩
            · rw [h2, run_step (stk' := .props ctx s (nm.nextLi li) ret :: below) (st' := st2) (by simp [step, propsReturn])]
            · rw [ho2, ho1]; simp
            · simp only [flatProp, hkk]
              exact List.Perm.append_left _ hp2
        · simp at hwf
    · simp at hwf
  | .lit sc nm id lex lang, hleaf, env, ctx, hrel, s, li, li1, S, S1, hwf, ret, below, ctx0, st, hn, rest, fin =>
    .inr (propS2 hf hr _ (by simpa [idProp, fullProp] using hleaf) hrel s li li1 S S1 hwf ret below ctx0 st hn rest fin)
  | .typed sc nm id lex dt ref, hleaf, env, ctx, hrel, s, li, li1, S, S1, hwf, ret, below, ctx0, st, hn, rest, fin =>
    .inr (propS2 hf hr _ (by simpa [idProp, fullProp] using hleaf) hrel s li li1 S S1 hwf ret below ctx0 st hn rest fin)
  | .empty sc nm id lang, hleaf, env, ctx, hrel, s, li, li1, S, S1, hwf, ret, below, ctx0, st, hn, rest, fin =>
    .inr (propS2 hf hr _ (by simpa [idProp, fullProp] using hleaf) hrel s li li1 S S1 hwf ret below ctx0 st hn rest fin)
  | .res sc nm id iri ref pattrs, hleaf, env, ctx, hrel, s, li, li1, S, S1, hwf, ret, below, ctx0, st, hn, rest, fin =>
    .inr (propS2 hf hr _ (by simpa [idProp, fullProp] using hleaf) hrel s li li1 S S1 hwf ret below ctx0 st hn rest fin)
  | .bref sc nm id l pattrs, hleaf, env, ctx, hrel, s, li, li1, S, S1, hwf, ret, below, ctx0, st, hn, rest, fin =>
    .inr (propS2 hf hr _ (by simpa [idProp, fullProp] using hleaf) hrel s li li1 S S1 hwf ret below ctx0 st hn rest fin)
  | .banon sc nm id k dt pattrs, hleaf, env, ctx, hrel, s, li, li1, S, S1, hwf, ret, below, ctx0, st, hn, rest, fin =>
    .inr (propS2 hf hr _ (by simpa [idProp, fullProp] using hleaf) hrel s li li1 S S1 hwf ret below ctx0 st hn rest fin)
  | .ptLit sc nm id pt content, hleaf, env, ctx, hrel, s, li, li1, S, S1, hwf, ret, below, ctx0, st, hn, rest, fin =>
    .inr (propS2 hf hr _ (by simpa [idProp, fullProp] using hleaf) hrel s li li1 S S1 hwf ret below ctx0 st hn rest fin)
  | .ptColl sc nm id cells items, hleaf, env, ctx, hrel, s, li, li1, S, S1, hwf, ret, below, ctx0, st, hn, rest, fin =>
    .inr (propS2 hf hr _ (by simpa [idProp, fullProp] using hleaf) hrel s li li1 S S1 hwf ret below ctx0 st hn rest fin)

end

/-- one node element below rdf:RDF -/
theorem nodeR3 (hf : EmptyRefNoFrag rs) (hr : ∀ c, render [.chars c] = some c) (n : PNode) (hleaf : idNode n = true)
    {env : Env} {ctx : Ctx} (hrel : CtxRel env ctx) (S S1 : RX.St) (hwf : wfNode rs env S n = some S1)
    (below : List Frame) (ctx0 : Ctx) (st : St) (hn : st.next = S.next) (rest : List Tok) (fin : Fin) :
    DupErr (run (mkP rs render) ctx0 (.rdf ctx :: below) st (tokens (renderNode n) ++ rest) fin) ∨
    ∃ (st1 : St) (ts : List T), run (mkP rs render) ctx0 (.rdf ctx :: below) st (tokens (renderNode n) ++ rest) fin =
        run (mkP rs render) ctx0 (.rdf ctx :: below) st1 rest fin ∧
      st1.out = ts.reverse ++ st.out ∧ ts.Perm (flatNode n) ∧ st1.next = S1.next := by
  cases n with
  | mk sc subj typ pattrs props =>
    simp only [idNode, Bool.and_eq_true] at hleaf
    simp only [wfNode] at hwf
    split at hwf
    · rename_i hc
      simp only [Bool.and_eq_true] at hc
      split at hwf
      · simp at hwf
      · rename_i S0 hsub
        have htoks : tokens (renderNode (.mk sc subj typ pattrs props)) ++ rest =
            .start (typNs typ) (typName typ) (stdAttrs (subj.info sc (pattrs.map PAttr.render))) ::
              (tokensList (renderProps props) ++ (.end_ (typNs typ) (typName typ) :: rest)) := by
          simp [renderNode, tokens]
        rw [htoks]
        rcases nodeEntry_simG (render := render) hf sc subj typ pattrs hleaf.1 hrel S S0 hc.1 hc.2 hsub st hn with
          ⟨stf, hfail, _⟩ | ⟨nctx, st1, ts0, h1, hrel', ho1, hp0, hn1⟩
        · left
          exact ⟨_, run_fail (st' := stf) (by simp [step, nodeNameForbidden_of_wfTyp hc.1, callNode, hfail]) _ _⟩
        · rw [run_step (stk' := .props nctx subj.term 0 (.node subj.term) :: .rdf ctx :: below) (st' := st1)
            (by simp [step, nodeNameForbidden_of_wfTyp hc.1, callNode, h1])]
          rcases propsS3 hf hr props hleaf.2 hrel' subj.term 0 S0 S1 hwf
            (.node subj.term) (.rdf ctx :: below) ctx0 st1 hn1 (.end_ (typNs typ) (typName typ) :: rest) fin with
            hdup | ⟨li1, st2, ts2, h2, ho2, hp2, hn2⟩
          · exact .inl hdup
          · right
            refine ⟨st2, ts0 ++ ts2, ?_, by rw [ho2, ho1]; simp, ?_, hn2⟩
            · rw [h2, run_step (stk' := .rdf ctx :: below) (st' := st2) (by simp [step, propsReturn, nodeReturn])]
            · simp only [flatNode]; exact List.Perm.append hp0 hp2
    · simp at hwf

theorem nodesS3 (hf : EmptyRefNoFrag rs) (hr : ∀ c, render [.chars c] = some c) (ns : List PNode)
    (hleaf : idNodes ns = true) {env : Env} {ctx : Ctx} (hrel : CtxRel env ctx) (S S1 : RX.St)
    (hwf : wfNodes rs env S ns = some S1) (below : List Frame) (ctx0 : Ctx) (st : St) (hn : st.next = S.next)
    (rest : List Tok) (fin : Fin) :
    DupErr (run (mkP rs render) ctx0 (.rdf ctx :: below) st (tokensList (renderNodes ns) ++ rest) fin) ∨
    ∃ (st1 : St) (ts : List T), run (mkP rs render) ctx0 (.rdf ctx :: below) st (tokensList (renderNodes ns) ++ rest) fin =
        run (mkP rs render) ctx0 (.rdf ctx :: below) st1 rest fin ∧
      st1.out = ts.reverse ++ st.out ∧ ts.Perm (flatNodes ns) ∧ st1.next = S1.next := by
  induction ns generalizing S st with
  | nil =>
    simp only [wfNodes, Option.some.injEq] at hwf
    subst hwf
    exact .inr ⟨st, [], by simp [renderNodes, tokensList], by simp, by simp [flatNodes], hn⟩
  | cons n ns ih =>
    simp only [idNodes, Bool.and_eq_true] at hleaf
    simp only [wfNodes] at hwf
    split at hwf
    · simp at hwf
    · rename_i S' hp
      have htoks : tokensList (renderNodes (n :: ns)) ++ rest = tokens (renderNode n) ++ (tokensList (renderNodes ns) ++ rest) := by
        simp [renderNodes, tokensList]
      rw [htoks]
      rcases nodeR3 (render := render) hf hr n hleaf.1 hrel S S' hp below ctx0 st hn (tokensList (renderNodes ns) ++ rest) fin with
        hdup | ⟨st1, ts1, h1, h2, hp1, h3⟩
      · exact .inl hdup
      · rcases ih hleaf.2 S' hwf st1 h3 with hdup | ⟨st2, ts2, h4, h5, hp2, h6⟩
        · left; rw [h1]; exact hdup
        · right
          refine ⟨st2, ts1 ++ ts2, by rw [h1, h4], by rw [h5, h2]; simp, ?_, h6⟩
          simp only [flatNodes]; exact List.Perm.append hp1 hp2

theorem docS3 (hf : EmptyRefNoFrag rs) (hr : ∀ c, render [.chars c] = some c) (base : Str) (d : PDoc)
    (hleaf : idDoc d = true) (hwf : wfDoc rs ⟨base, none⟩ d = true) :
    DupErr (decode (mkP rs render) (some base) (tokensDoc (renderDoc d)) .eof) ∨
    ∃ ts, decode (mkP rs render) (some base) (tokensDoc (renderDoc d)) .eof = .ok ts ∧ ts.Perm (flatDoc d) := by
  have hrel : CtxRel ⟨base, none⟩ (Ctx.init (some base)) := ⟨rfl, rfl⟩
  obtain ⟨ctx1, st1, hpca, hrel1, hn1, ho1, _⟩ := pca_std (render := render) hf
    { base := d.sc.base, lang := d.sc.lang } (by simp) hrel St.init
  simp only [wfDoc, Option.isSome_iff_exists] at hwf
  obtain ⟨S1, hS1⟩ := hwf
  have hrp : rdfPart { base := d.sc.base, lang := d.sc.lang } = [] := by simp [rdfPart, optAttr]
  unfold decode
  simp only [tokensDoc, renderDoc, tokens]
  rw [run_step (stk' := [.rdf ctx1]) (st' := st1) (by simp [step, hpca, hrp])]
  rcases nodesS3 (render := render) hf hr d.nodes hleaf hrel1 RX.St.init S1 hS1 []
    (Ctx.init (some base)) st1 (by rw [hn1]; rfl) [.end_ rdfNS n_RDF] .eof with hdup | ⟨st2, ts, h2, ho2, hp2, _⟩
  · exact .inl hdup
  · right
    refine ⟨ts, ?_, hp2⟩
    rw [h2, run_step (stk' := []) (st' := st2) (by simp [step])]
    simp [run, finish, ho2, ho1, St.init]

end RdfModel.RXD
