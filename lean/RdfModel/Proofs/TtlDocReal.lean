/-
  The hypotheses of the statement-layer theorems hold for the real token producers
  (`Producers.real T`, the models of `Model/TurtleTokens.lean`):
    * `NoPanic`       from the token-layer theorems (`Props/C02Tokens.lean`),
    * `Consumes`      proved here: every producer takes at least its first, non-NUL rune and hands
                      back only runes it has read (a trailing `.` of a name or number),
    * `LangNonEmpty`  proved here.
  The only table fact needed is that NUL is not a PN_CHARS_BASE rune.
-/
import RdfModel.Props.C05TtlDefs
import RdfModel.Props.C02Tokens
namespace RdfModel.TtlDoc
open RdfModel RdfModel.Ttl

theorem real_noPanic (T : Tables) : (Producers.real T).NoPanic where
  iriref := fun e i => C02.produceIRIREF_no_panic T e i
  string := fun e i => C02.produceString_no_panic T e i
  pnameNS := fun e i => C02.producePNAME_NS_no_panic T e i
  pname := fun e i => C02.producePrefixedName_no_panic T e i
  bnode := fun e i => C02.produceBlankNode_no_panic T e i
  langtag := fun e i => C02.produceLANGTAG_no_panic e i
  numeric := fun e i => C02.produceNumericLiteral_no_panic e i

/-- what a `.` at the head of the accumulator is worth: it may be handed back -/
def credit (acc : List Nat) : Nat := if acc.head? = some 0x2e then 64 else 0

theorem credit_cons_le (c : Nat) (acc : List Nat) : credit (c :: acc) ≤ runeCost c := by
  simp only [credit, List.head?_cons, Option.some.injEq]
  split
  · next h => subst h; simp [runeCost]
  · omega

theorem scanIRIREF_cost (T : Tables) (e : NQ.End) (st : SState) (inp acc : List Nat) (v r : List Nat)
    (h : scanIRIREF T e st inp acc = .ok v r) : inputCost r ≤ inputCost inp := by
  fun_induction scanIRIREF T e st inp acc <;> simp_all [inputCost] <;> omega

theorem scanString_cost (T : Tables) (e : NQ.End) (d : Nat) (tr : Bool) (v r : List Nat) :
    ∀ (n : Nat) (st : SState) (inp acc : List Nat), inp.length ≤ n →
      scanString T e d tr st inp acc = .ok v r → inputCost r ≤ inputCost inp := by
  intro n
  induction n with
  | zero =>
    intro st inp acc hl h
    cases inp with
    | nil => cases st <;> simp [scanString] at h
    | cons a b => simp at hl
  | succ n ih =>
    intro st inp acc hl h
    unfold scanString at h
    repeat' split at h
    all_goals (try (simp at h; done))
    all_goals (try (have := ih _ _ _ (by simp only [List.length_cons] at hl ⊢; omega) h; simp_all [inputCost] <;> omega))
    all_goals (try (obtain ⟨_, rfl⟩ := h; simp_all [inputCost] <;> omega))

theorem langDone_cost {acc rest v r : List Nat} (h : langDone acc rest = .ok v r) : r = rest := by
  unfold langDone at h; split at h <;> simp_all

theorem langSecondary_cost (e : NQ.End) (v r : List Nat) : ∀ (inp acc : List Nat),
    langSecondary e inp acc = .ok v r → inputCost r ≤ inputCost inp := by
  intro inp
  induction inp with
  | nil =>
    intro acc h
    unfold langSecondary at h
    cases e <;> simp at h
    rw [langDone_cost h]; exact Nat.le_refl _
  | cons c rest ih =>
    intro acc h
    unfold langSecondary at h
    repeat' split at h
    all_goals (try (simp at h; done))
    all_goals (try (have := ih _ h; simp only [inputCost]; omega))
    all_goals (try (rw [langDone_cost h]; exact Nat.le_refl _))

theorem langPrimary_cost (e : NQ.End) (v r : List Nat) : ∀ (inp acc : List Nat),
    langPrimary e inp acc = .ok v r → inputCost r ≤ inputCost inp := by
  intro inp
  induction inp with
  | nil =>
    intro acc h
    unfold langPrimary at h
    cases e <;> simp at h
    split at h
    · simp at h
    · rw [langDone_cost h]; exact Nat.le_refl _
  | cons c rest ih =>
    intro acc h
    unfold langPrimary at h
    repeat' split at h
    all_goals (try (simp at h; done))
    all_goals (try (have := ih _ h; simp only [inputCost]; omega))
    all_goals (try (have := langSecondary_cost _ _ _ _ _ h; simp only [inputCost]; omega))
    all_goals (try (rw [langDone_cost h]; exact Nat.le_refl _))

theorem pnameNsLoop_cost (T : Tables) (e : NQ.End) (v r : List Nat) : ∀ (inp acc : List Nat),
    pnameNsLoop T e inp acc = .ok v r → inputCost r ≤ inputCost inp := by
  intro inp
  induction inp with
  | nil => intro acc h; simp [pnameNsLoop] at h
  | cons c rest ih =>
    intro acc h
    unfold pnameNsLoop at h
    repeat' split at h
    all_goals (try (simp at h; done))
    all_goals (try (have := ih _ h; simp only [inputCost]; omega))
    all_goals (try (obtain ⟨_, rfl⟩ := h; simp only [inputCost]; omega))

theorem runeCost_dot : runeCost 0x2e = 64 := rfl

theorem credit_step {r rest acc : List Nat} {c B : Nat} (h : inputCost r ≤ inputCost rest + credit (c :: acc)) :
    inputCost r ≤ inputCost (c :: rest) + B := by
  have := credit_cons_le c acc
  simp only [inputCost]; omega

theorem bnDone_cost (T : Tables) {acc rest v r : List Nat} (h : bnDone T acc rest = .ok v r) :
    inputCost r ≤ inputCost rest + credit acc := by
  cases acc with
  | nil => simp [bnDone] at h
  | cons l more =>
    by_cases hl : l = 0x2e
    · subst hl
      simp only [bnDone, ite_true] at h
      repeat' split at h
      all_goals (try (simp at h; done))
      all_goals (obtain ⟨_, rfl⟩ := h; simp [inputCost, credit, runeCost] <;> omega)
    · simp only [bnDone, hl, ite_false] at h
      repeat' split at h
      all_goals (try (simp at h; done))
      all_goals (obtain ⟨_, rfl⟩ := h; simp)

theorem bnLoop_cost (T : Tables) (e : NQ.End) (v r : List Nat) : ∀ (inp acc : List Nat),
    bnLoop T e inp acc = .ok v r → inputCost r ≤ inputCost inp + credit acc := by
  intro inp
  induction inp with
  | nil =>
    intro acc h
    unfold bnLoop at h
    cases e <;> simp at h
    exact bnDone_cost T h
  | cons c rest ih =>
    intro acc h
    unfold bnLoop at h
    split at h
    · exact credit_step (ih _ h)
    · exact bnDone_cost T h

theorem numDone_cost {acc rest : List Nat} {k : Option NumKind} {v : NumKind × List Nat} {r : List Nat}
    (h : numDone acc k rest = .ok v r) : inputCost r ≤ inputCost rest + credit acc := by
  cases acc with
  | nil => simp [numDone] at h
  | cons l more =>
    simp only [numDone] at h
    repeat' split at h
    all_goals (try (simp at h; done))
    all_goals (obtain ⟨_, rfl⟩ := h; simp_all [inputCost, credit, runeCost] <;> omega)

theorem scanNum_cost (e : NQ.End) (v : NumKind × List Nat) (r : List Nat) : ∀ (inp : List Nat) (st : NState)
    (k : Option NumKind) (acc : List Nat),
    scanNum e st k inp acc = .ok v r → inputCost r ≤ inputCost inp + credit acc := by
  intro inp
  induction inp with
  | nil =>
    intro st k acc h
    cases st <;> simp only [scanNum] at h
    all_goals (repeat' split at h)
    all_goals (try (simp at h; done))
    all_goals (try exact numDone_cost h)
  | cons c rest ih =>
    intro st k acc h
    cases st <;> simp only [scanNum] at h
    all_goals (repeat' split at h)
    all_goals (try (simp at h; done))
    all_goals (try exact credit_step (ih _ _ _ h))
    all_goals (try exact numDone_cost h)

/-- credit of the local-name scanner: an unescaped `.` at the head of the accumulator -/
def creditL (acc : List Nat) (le : Bool) : Nat := if acc.head? = some 0x2e ∧ le = false then 64 else 0

theorem creditL_cons_le (c : Nat) (acc : List Nat) (le : Bool) : creditL (c :: acc) le ≤ runeCost c := by
  simp only [creditL, List.head?_cons, Option.some.injEq]
  split
  · next h => rw [h.1]; simp [runeCost]
  · omega

theorem creditL_step {r rest acc : List Nat} {c B : Nat} {le : Bool}
    (h : inputCost r ≤ inputCost rest + creditL (c :: acc) le) : inputCost r ≤ inputCost (c :: rest) + B := by
  have := creditL_cons_le c acc le
  simp only [inputCost]; omega

theorem creditL_true (acc : List Nat) : creditL acc true = 0 := by simp [creditL]

theorem localDone_cost {acc rest v r : List Nat} {le : Bool} (h : localDone acc le rest = .ok v r) :
    inputCost r ≤ inputCost rest + creditL acc le := by
  cases acc with
  | nil => simp [localDone] at h
  | cons l more =>
    simp only [localDone] at h
    split at h
    · next hc =>
      obtain ⟨_, rfl⟩ := h
      simp only [Bool.and_eq_true, beq_iff_eq, Bool.not_eq_true', decide_eq_true_eq] at hc
      simp [inputCost, creditL, hc.1, hc.2, runeCost] <;> omega
    · obtain ⟨_, rfl⟩ := h; omega

theorem scanLocal_cost (T : Tables) (e : NQ.End) (v r : List Nat) : ∀ (inp : List Nat) (st : LState)
    (acc : List Nat) (le : Bool),
    scanLocal T e st inp acc le = .ok v r → inputCost r ≤ inputCost inp + creditL acc le := by
  intro inp
  induction inp with
  | nil =>
    intro st acc le h
    cases st <;> simp only [scanLocal] at h
    all_goals (repeat' split at h)
    all_goals (try (simp at h; done))
    all_goals (try exact localDone_cost h)
    all_goals (try (obtain ⟨_, rfl⟩ := h; simp [inputCost]))
  | cons c rest ih =>
    intro st acc le h
    cases st <;> simp only [scanLocal] at h
    all_goals (repeat' split at h)
    all_goals (try (simp at h; done))
    all_goals (try exact creditL_step (ih _ _ _ h))
    all_goals (try exact localDone_cost h)
    all_goals (try (have := ih _ _ _ h; simp only [inputCost]; omega))
    all_goals (try (obtain ⟨_, rfl⟩ := h; omega))

end RdfModel.TtlDoc

namespace RdfModel.TtlDoc
open RdfModel RdfModel.Ttl

theorem matchKeyword_cost (e : NQ.End) : ∀ (kw inp r : List Nat), matchKeyword e kw inp = some (some r) →
    inputCost r ≤ inputCost inp := by
  intro kw
  induction kw with
  | nil => intro inp r h; simp [matchKeyword] at h; subst h; exact Nat.le_refl _
  | cons k ks ih =>
    intro inp r h
    cases inp with
    | nil => simp [matchKeyword] at h
    | cons c rest =>
      simp only [matchKeyword] at h
      split at h
      · have := ih _ _ h; simp only [inputCost]; omega
      · simp at h

theorem langDone_ne {acc rest v r : List Nat} (hne : acc ≠ []) (h : langDone acc rest = .ok v r) : v ≠ [] := by
  unfold langDone at h
  split at h
  · simp at h
  · obtain ⟨rfl, _⟩ := h
    cases acc with
    | nil => exact absurd rfl hne
    | cons a b => simp [goString]

theorem langSecondary_ne (e : NQ.End) (v r : List Nat) : ∀ (inp acc : List Nat), acc ≠ [] →
    langSecondary e inp acc = .ok v r → v ≠ [] := by
  intro inp
  induction inp with
  | nil =>
    intro acc hne h
    unfold langSecondary at h
    cases e <;> simp at h
    exact langDone_ne hne h
  | cons c rest ih =>
    intro acc hne h
    unfold langSecondary at h
    repeat' split at h
    all_goals (try (simp at h; done))
    all_goals (try exact ih _ (by simp) h)
    all_goals (try exact langDone_ne hne h)

theorem langPrimary_ne (e : NQ.End) (v r : List Nat) : ∀ (inp acc : List Nat),
    langPrimary e inp acc = .ok v r → v ≠ [] := by
  intro inp
  induction inp with
  | nil =>
    intro acc h
    unfold langPrimary at h
    cases e <;> simp at h
    split at h
    · simp at h
    · next hne => exact langDone_ne (by intro h0; simp [h0] at hne) h
  | cons c rest ih =>
    intro acc h
    unfold langPrimary at h
    repeat' split at h
    all_goals (try (simp at h; done))
    all_goals (try exact ih _ h)
    all_goals (try exact langSecondary_ne _ _ _ _ _ (by simp) h)
    all_goals (try (next hne => exact langDone_ne (by intro h0; simp [h0] at hne) h))

theorem real_langNonEmpty (T : Tables) : (Producers.real T).LangNonEmpty := by
  intro e i v r h
  simp only [Producers.real, produceLANGTAG] at h
  split at h
  · simp at h
  · split at h
    · exact langPrimary_ne _ _ _ _ _ h
    · simp at h

theorem runeCost_ne {c : Nat} (h : c ≠ 0) : runeCost c = 64 := by simp [runeCost, h]

theorem produceString_cost (T : Tables) (e : NQ.End) (i v r : List Nat) (h : produceString T e i = .ok v r) :
    inputCost r + 64 ≤ inputCost i := by
  cases i with
  | nil => simp [produceString] at h
  | cons q rest =>
    simp only [produceString] at h
    split at h
    · next hq =>
      have hq64 : runeCost q = 64 := runeCost_ne (by rcases hq with hq | hq <;> omega)
      cases rest with
      | nil => simp at h
      | cons c1 r1 =>
        simp only [] at h
        split at h
        · cases r1 with
          | nil => cases e <;> simp at h; obtain ⟨_, rfl⟩ := h; simp only [inputCost]; omega
          | cons c2 r2 =>
            simp only [] at h
            split at h
            · have := scanString_cost _ _ _ _ _ _ _ _ _ _ (Nat.le_refl _) h
              simp only [inputCost]; omega
            · obtain ⟨_, rfl⟩ := h; simp only [inputCost]; omega
        · have := scanString_cost _ _ _ _ _ _ _ _ _ _ (Nat.le_refl _) h
          simp only [inputCost] at this ⊢; omega
    · simp at h

theorem producePNAME_NS_cost (T : Tables) (hT : inRanges T.pnCharsBase 0 = false) (e : NQ.End) (i v r : List Nat)
    (h : producePNAME_NS T e i = .ok v r) : inputCost r + 64 ≤ inputCost i := by
  cases i with
  | nil => simp [producePNAME_NS] at h
  | cons c rest =>
    simp only [producePNAME_NS] at h
    split at h
    · next hc => obtain ⟨_, rfl⟩ := h; subst hc; simp [inputCost, runeCost]; omega
    · split at h
      · next hb =>
        have hc : c ≠ 0 := by intro h0; subst h0; rw [hT] at hb; cases hb
        have := pnameNsLoop_cost _ _ _ _ _ _ h
        simp only [inputCost, runeCost_ne hc]; omega
      · simp at h

theorem producePrefixedName_cost (T : Tables) (hT : inRanges T.pnCharsBase 0 = false) (e : NQ.End) (i : List Nat)
    (v : List Nat × List Nat) (r : List Nat) (h : producePrefixedName T e i = .ok v r) :
    inputCost r + 64 ≤ inputCost i := by
  unfold producePrefixedName at h
  split at h
  · simp at h
  · simp at h
  · next ns rest hns =>
    have h1 := producePNAME_NS_cost T hT e i ns rest hns
    split at h
    · next loc rest' hl =>
      obtain ⟨_, rfl⟩ := h
      have := scanLocal_cost _ _ _ _ _ _ _ _ hl
      simp [creditL] at this
      omega
    · simp at h
    · simp at h

theorem produceBlankNode_cost (T : Tables) (e : NQ.End) (i v r : List Nat) (h : produceBlankNode T e i = .ok v r) :
    inputCost r + 64 ≤ inputCost i := by
  cases i with
  | nil => simp [produceBlankNode] at h
  | cons c0 r0 =>
    simp only [produceBlankNode] at h
    split at h
    · simp at h
    · next hc0 =>
      have hc0' : c0 = 0x5f := by omega
      cases r0 with
      | nil => simp at h
      | cons c1 r1 =>
        simp only [] at h
        split at h
        · simp at h
        · cases r1 with
          | nil => simp at h
          | cons c2 r2 =>
            simp only [] at h
            split at h
            · have := bnLoop_cost _ _ _ _ _ _ h
              have hcr := credit_cons_le c2 []
              subst hc0'
              simp only [inputCost, show runeCost 0x5f = 64 from rfl]; omega
            · simp at h

theorem produceLANGTAG_cost (e : NQ.End) (i v r : List Nat) (h : produceLANGTAG e i = .ok v r) :
    inputCost r + 64 ≤ inputCost i := by
  cases i with
  | nil => simp [produceLANGTAG] at h
  | cons c rest =>
    simp only [produceLANGTAG] at h
    split at h
    · next hc => have := langPrimary_cost _ _ _ _ _ h; subst hc; simp [inputCost, runeCost]; omega
    · simp at h

theorem produceNumericLiteral_cost (e : NQ.End) (c : Nat) (rest : List Nat) (v : NumKind × List Nat) (r : List Nat)
    (h : produceNumericLiteral e (c :: rest) = .ok v r)
    (hdot : c = 0x2e → ∃ d rest', rest = d :: rest' ∧ 0x30 ≤ d ∧ d ≤ 0x39) :
    inputCost r + 64 ≤ inputCost (c :: rest) := by
  simp only [produceNumericLiteral] at h
  split at h
  · next hc =>
    have hne : c ≠ 0 := by
      rcases hc with hc | hc | hc
      · omega
      · omega
      · simp [Ttl.isDigit, NQ.isDigit] at hc; omega
    have hnd : c ≠ 0x2e := by
      rcases hc with hc | hc | hc
      · omega
      · omega
      · simp [Ttl.isDigit, NQ.isDigit] at hc; omega
    have := scanNum_cost _ _ _ _ _ _ _ h
    simp [credit, hnd] at this
    simp only [inputCost, runeCost_ne hne]; omega
  · split at h
    · next hc =>
      obtain ⟨d, rest', rfl, hd1, hd2⟩ := hdot hc
      have hdig : Ttl.isDigit d = true := by simp [Ttl.isDigit, NQ.isDigit]; omega
      simp only [scanNum, hdig, ite_true] at h
      have := scanNum_cost _ _ _ _ _ _ _ h
      have hd46 : d ≠ 0x2e := by omega
      simp [credit, hd46] at this
      subst hc
      simp only [inputCost, show runeCost 0x2e = 64 from rfl]; omega
    · simp at h

theorem scanBoolean_cost (e : NQ.End) (i : List Nat) (b : Bool) (r : List Nat) (h : scanBoolean e i = .bool b r) :
    inputCost r + 64 ≤ inputCost i := by
  cases i with
  | nil => simp [scanBoolean] at h
  | cons c rest =>
    simp only [scanBoolean] at h
    split at h
    · next hc =>
      split at h <;> try (simp at h; done)
      next r' hk =>
      obtain ⟨_, rfl⟩ := h
      have := matchKeyword_cost _ _ _ _ hk
      subst hc; simp [inputCost, runeCost]; omega
    · split at h
      · next hc =>
        split at h <;> try (simp at h; done)
        next r' hk =>
        obtain ⟨_, rfl⟩ := h
        have := matchKeyword_cost _ _ _ _ hk
        subst hc; simp [inputCost, runeCost]; omega
      · simp at h

theorem real_consumes (T : Tables) (hT : inRanges T.pnCharsBase 0 = false) : (Producers.real T).Consumes where
  iriref := by
    intro e i v r h
    simp only [Producers.real, produceIRIREF] at h
    split at h
    · simp at h
    · split at h
      · next hc => have := scanIRIREF_cost _ _ _ _ _ _ _ h; subst hc; simp [inputCost, runeCost]; omega
      · simp at h
  string := fun e i v r h => produceString_cost T e i v r h
  pnameNS := fun e i v r h => producePNAME_NS_cost T hT e i v r h
  pname := fun e i v r h => producePrefixedName_cost T hT e i v r h
  bnode := fun e i v r h => produceBlankNode_cost T e i v r h
  langtag := fun e i v r h => produceLANGTAG_cost e i v r h
  numeric := fun e c rest v r h hd => produceNumericLiteral_cost e c rest v r h hd
  boolean := fun e i b r h => scanBoolean_cost e i b r h

end RdfModel.TtlDoc
