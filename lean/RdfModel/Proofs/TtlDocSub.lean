/-
  Statement layer of Turtle/TriG: the rune buffer only ever holds runes of the input, pushed-back
  `.`s and NULs (`Sub`), and the white-space predicate `unicode.IsSpace` is only ever asked about runes
  of the buffer.  Hence two configurations that differ only in the white-space predicate, on a set
  of runes that does not occur in the input, run identically (`run_space_congr`).  Used for C07:
  the Turtle ⊂ TriG simulation holds for the driver's exact `unicode.IsSpace` on every input free of
  U+1680.
-/
import RdfModel.Proofs.TtlDocPrefix
namespace RdfModel.Ttl
open RdfModel

/-- `r` consists of runes of `i` and pushed-back `.`s -/
def SubL (i r : List Nat) : Prop := ∀ y ∈ r, y ∈ i ∨ y = 0x2e

theorem SubL.refl (i : List Nat) : SubL i i := fun y hy => Or.inl hy
theorem SubL.tail {c : Nat} {i r : List Nat} (h : SubL i r) : SubL (c :: i) r :=
  fun y hy => (h y hy).imp (List.mem_cons_of_mem _) id
theorem SubL.dot {i r : List Nat} (h : SubL i r) : SubL i (0x2e :: r) := by
  intro y hy
  rcases List.mem_cons.mp hy with rfl | hy
  · exact Or.inr rfl
  · exact h y hy

theorem scanIRIREF_sub (T : Tables) (e : End) : ∀ (i : List Nat) (st : SState) (acc v r : List Nat),
    scanIRIREF T e st i acc = .ok v r → SubL i r := by
  intro i
  induction i with
  | nil => intro st acc v r h; cases st <;> simp [scanIRIREF] at h
  | cons c rest ih =>
    intro st acc v r h
    cases st with
    | body =>
      simp only [scanIRIREF] at h
      split at h
      · injection h with _ h2; subst h2; exact (SubL.refl _).tail
      · split at h
        · exact (ih _ _ _ _ h).tail
        · split at h
          · cases h
          · exact (ih _ _ _ _ h).tail
    | esc =>
      simp only [scanIRIREF] at h
      split at h
      · exact (ih _ _ _ _ h).tail
      · split at h
        · exact (ih _ _ _ _ h).tail
        · cases h
    | hex ms val =>
      cases ms with
      | nil => simp [scanIRIREF] at h
      | cons m ms =>
        simp only [scanIRIREF] at h
        split at h
        · cases h
        · split at h
          · cases h
          · cases ms with
            | nil => exact (ih _ _ _ _ h).tail
            | cons m' ms' => exact (ih _ _ _ _ h).tail

theorem produceIRIREF_sub (T : Tables) (e : End) (i v r : List Nat) (h : produceIRIREF T e i = .ok v r) : SubL i r := by
  cases i with
  | nil => simp [produceIRIREF] at h
  | cons c rest =>
    simp only [produceIRIREF] at h
    split at h
    · exact (scanIRIREF_sub T e _ _ _ _ _ h).tail
    · cases h

theorem scanString_sub (T : Tables) (e : End) (delim : Nat) (triple : Bool) :
    ∀ (i : List Nat) (st : SState) (acc v r : List Nat), scanString T e delim triple st i acc = .ok v r → SubL i r := by
  intro i
  induction i with
  | nil => intro st acc v r h; cases st <;> simp [scanString] at h
  | cons c rest ih =>
    intro st acc v r h
    cases st with
    | body =>
      simp only [scanString] at h
      split at h
      · split at h
        · split at h
          · injection h with _ h2; subst h2; exact (SubL.refl _).tail
          · cases rest with
            | nil => cases h
            | cons c1 r1 =>
              simp only [] at h
              split at h
              · cases r1 with
                | nil => cases h
                | cons c2 r2 =>
                  simp only [] at h
                  split at h
                  · injection h with _ h2; subst h2
                    exact ((SubL.refl _).tail.tail).tail
                  · exact (ih _ _ _ _ h).tail
              · exact (ih _ _ _ _ h).tail
        · exact (ih _ _ _ _ h).tail
      · split at h
        · exact (ih _ _ _ _ h).tail
        · exact (ih _ _ _ _ h).tail
    | esc =>
      simp only [scanString] at h
      split at h
      · exact (ih _ _ _ _ h).tail
      · split at h
        · exact (ih _ _ _ _ h).tail
        · cases hd : echarDecode c with
          | none => rw [hd] at h; cases h
          | some d => rw [hd] at h; exact (ih _ _ _ _ h).tail
    | hex ms val =>
      cases ms with
      | nil => simp [scanString] at h
      | cons m ms =>
        simp only [scanString] at h
        split at h
        · cases h
        · split at h
          · cases h
          · cases ms with
            | nil => exact (ih _ _ _ _ h).tail
            | cons m' ms' => exact (ih _ _ _ _ h).tail

theorem produceString_sub (T : Tables) (e : End) (i v r : List Nat) (h : produceString T e i = .ok v r) : SubL i r := by
  cases i with
  | nil => simp [produceString] at h
  | cons q rest =>
    simp only [produceString] at h
    split at h
    · cases rest with
      | nil => cases h
      | cons c1 r1 =>
        simp only [] at h
        split at h
        · cases r1 with
          | nil =>
            simp only [] at h
            cases e <;> simp only [] at h
            · injection h with _ h2; subst h2; intro y hy; cases hy
            · cases h
          | cons c2 r2 =>
            simp only [] at h
            split at h
            · exact ((scanString_sub T e _ _ _ _ _ _ _ h).tail.tail).tail
            · injection h with _ h2; subst h2; exact ((SubL.refl _).tail).tail
        · exact (scanString_sub T e _ _ _ _ _ _ _ h).tail
    · cases h

theorem pnameNsLoop_sub (T : Tables) (e : End) : ∀ (i acc v r : List Nat), pnameNsLoop T e i acc = .ok v r → SubL i r := by
  intro i
  induction i with
  | nil => intro acc v r h; simp [pnameNsLoop] at h
  | cons c rest ih =>
    intro acc v r h
    simp only [pnameNsLoop] at h
    split at h
    · injection h with _ h2; subst h2; exact (SubL.refl _).tail
    · split at h
      · exact (ih _ _ _ h).tail
      · cases h

theorem producePNAME_NS_sub (T : Tables) (e : End) (i v r : List Nat) (h : producePNAME_NS T e i = .ok v r) : SubL i r := by
  cases i with
  | nil => simp [producePNAME_NS] at h
  | cons c rest =>
    simp only [producePNAME_NS] at h
    split at h
    · injection h with _ h2; subst h2; exact (SubL.refl _).tail
    · split at h
      · exact (pnameNsLoop_sub T e _ _ _ _ h).tail
      · cases h

theorem langDone_sub (acc rest v r : List Nat) (h : langDone acc rest = .ok v r) : r = rest :=
  (langDone_ext acc rest v r [] h).1

theorem langSecondary_sub (e : End) : ∀ (i acc v r : List Nat), langSecondary e i acc = .ok v r → SubL i r := by
  intro i
  induction i with
  | nil =>
    intro acc v r h
    simp only [langSecondary] at h
    cases e <;> simp only [] at h
    · rw [langDone_sub _ _ _ _ h]; exact SubL.refl _
    · cases h
  | cons c rest ih =>
    intro acc v r h
    simp only [langSecondary] at h
    split at h
    · exact (ih _ _ _ h).tail
    · split at h
      · split at h
        · cases h
        · exact (ih _ _ _ h).tail
      · rw [langDone_sub _ _ _ _ h]; exact SubL.refl _

theorem langPrimary_sub (e : End) : ∀ (i acc v r : List Nat), langPrimary e i acc = .ok v r → SubL i r := by
  intro i
  induction i with
  | nil =>
    intro acc v r h
    simp only [langPrimary] at h
    cases e <;> simp only [] at h
    · split at h
      · cases h
      · rw [langDone_sub _ _ _ _ h]; exact SubL.refl _
    · cases h
  | cons c rest ih =>
    intro acc v r h
    simp only [langPrimary] at h
    split at h
    · exact (ih _ _ _ h).tail
    · split at h
      · split at h
        · cases h
        · exact (langSecondary_sub e _ _ _ _ h).tail
      · split at h
        · cases h
        · rw [langDone_sub _ _ _ _ h]; exact SubL.refl _

theorem produceLANGTAG_sub (e : End) (i v r : List Nat) (h : produceLANGTAG e i = .ok v r) : SubL i r := by
  cases i with
  | nil => simp [produceLANGTAG] at h
  | cons c rest =>
    simp only [produceLANGTAG] at h
    split at h
    · exact (langPrimary_sub e _ _ _ _ h).tail
    · cases h

theorem subL_of_done {rest r : List Nat} (h : r = rest ∨ r = 0x2e :: rest) : SubL rest r := by
  rcases h with rfl | rfl
  · exact SubL.refl _
  · exact (SubL.refl _).dot

theorem bnLoop_sub (T : Tables) (e : End) : ∀ (i acc v r : List Nat), bnLoop T e i acc = .ok v r → SubL i r := by
  intro i
  induction i with
  | nil =>
    intro acc v r h
    simp only [bnLoop] at h
    cases e <;> simp only [] at h
    · exact subL_of_done (bnDone_ext T _ _ _ _ [] h).1
    · cases h
  | cons c rest ih =>
    intro acc v r h
    simp only [bnLoop] at h
    split at h
    · exact (ih _ _ _ h).tail
    · exact subL_of_done (bnDone_ext T _ _ _ _ [] h).1

theorem produceBlankNode_sub (T : Tables) (e : End) (i v r : List Nat) (h : produceBlankNode T e i = .ok v r) : SubL i r := by
  cases i with
  | nil => simp [produceBlankNode] at h
  | cons c0 r0 =>
    simp only [produceBlankNode] at h
    split at h
    · cases h
    · cases r0 with
      | nil => cases h
      | cons c1 r1 =>
        simp only [] at h
        split at h
        · cases h
        · cases r1 with
          | nil => cases h
          | cons c2 r2 =>
            simp only [] at h
            split at h
            · exact (((bnLoop_sub T e _ _ _ _ h).tail).tail).tail
            · cases h

theorem scanNum_sub (e : End) : ∀ (i : List Nat) (st : NState) (k : Option NumKind) (acc : List Nat)
    (v : NumKind × List Nat) (r : List Nat), scanNum e st k i acc = .ok v r → SubL i r := by
  intro i
  induction i with
  | nil =>
    intro st k acc v r h
    cases st <;> cases e <;> simp only [scanNum] at h <;>
      first
      | (cases h; done)
      | exact subL_of_done (numDone_ext _ _ _ _ _ [] h).1
  | cons c rest ih =>
    intro st k acc v r h
    cases st with
    | sign =>
      simp only [scanNum] at h
      split at h
      · exact (ih _ _ _ _ _ h).tail
      · split at h
        · exact (ih _ _ _ _ _ h).tail
        · split at h
          · exact (ih _ _ _ _ _ h).tail
          · exact subL_of_done (numDone_ext _ _ _ _ _ [] h).1
    | int =>
      simp only [scanNum] at h
      split at h
      · exact (ih _ _ _ _ _ h).tail
      · split at h
        · exact (ih _ _ _ _ _ h).tail
        · exact subL_of_done (numDone_ext _ _ _ _ _ [] h).1
    | exp0 =>
      simp only [scanNum] at h
      split at h
      · exact (ih _ _ _ _ _ h).tail
      · cases h
    | exp =>
      simp only [scanNum] at h
      split at h
      · exact (ih _ _ _ _ _ h).tail
      · exact subL_of_done (numDone_ext _ _ _ _ _ [] h).1

theorem produceNumericLiteral_sub (e : End) (i : List Nat) (v : NumKind × List Nat) (r : List Nat)
    (h : produceNumericLiteral e i = .ok v r) : SubL i r := by
  cases i with
  | nil => simp [produceNumericLiteral] at h
  | cons c rest =>
    simp only [produceNumericLiteral] at h
    split at h
    · exact (scanNum_sub e _ _ _ _ _ _ h).tail
    · split at h
      · exact (scanNum_sub e _ _ _ _ _ _ h).tail
      · cases h

theorem scanLocal_sub (T : Tables) (e : End) : ∀ (i : List Nat) (st : LState) (acc : List Nat) (le : Bool) (v r : List Nat),
    scanLocal T e st i acc le = .ok v r → SubL i r := by
  intro i
  induction i with
  | nil =>
    intro st acc le v r h
    cases st <;> cases e <;> simp only [scanLocal] at h <;>
      first
      | (cases h; done)
      | (injection h with _ h2; subst h2; intro y hy; cases hy)
      | exact subL_of_done (localDone_ext _ _ _ _ _ [] h).1
  | cons c rest ih =>
    intro st acc le v r h
    cases st with
    | first =>
      simp only [scanLocal] at h
      split at h
      · exact (ih _ _ _ _ _ h).tail
      · split at h
        · exact (ih _ _ _ _ _ h).tail
        · split at h
          · exact (ih _ _ _ _ _ h).tail
          · injection h with _ h2; subst h2; exact SubL.refl _
    | body =>
      simp only [scanLocal] at h
      split at h
      · exact (ih _ _ _ _ _ h).tail
      · split at h
        · exact (ih _ _ _ _ _ h).tail
        · split at h
          · exact (ih _ _ _ _ _ h).tail
          · exact subL_of_done (localDone_ext _ _ _ _ _ [] h).1
    | pct1 =>
      simp only [scanLocal] at h
      split at h
      · cases h
      · exact (ih _ _ _ _ _ h).tail
    | pct2 hx =>
      simp only [scanLocal] at h
      split at h
      · cases h
      · exact (ih _ _ _ _ _ h).tail
    | esc =>
      simp only [scanLocal] at h
      split at h
      · exact (ih _ _ _ _ _ h).tail
      · cases h

theorem SubL.trans {i r r' : List Nat} (h1 : SubL i r) (h2 : SubL r r') : SubL i r' := by
  intro y hy
  rcases h2 y hy with h | h
  · exact h1 y h
  · exact Or.inr h

theorem producePrefixedName_sub (T : Tables) (e : End) (i : List Nat) (v : List Nat × List Nat) (r : List Nat)
    (h : producePrefixedName T e i = .ok v r) : SubL i r := by
  unfold producePrefixedName at h
  cases hns : producePNAME_NS T e i with
  | err c => rw [hns] at h; cases h
  | panic => rw [hns] at h; cases h
  | ok ns rest =>
    rw [hns] at h; simp only [] at h
    cases hl : scanLocal T e .first rest [] false with
    | err c => rw [hl] at h; cases h
    | panic => rw [hl] at h; cases h
    | ok loc rest' =>
      rw [hl] at h; simp only [] at h
      injection h with _ h2; subst h2
      exact (producePNAME_NS_sub T e _ _ _ hns).trans (scanLocal_sub T e _ _ _ _ _ _ hl)

theorem matchKeyword_sub (e : End) : ∀ (kw i r : List Nat), matchKeyword e kw i = some (some r) → SubL i r := by
  intro kw
  induction kw with
  | nil => intro i r h; simp only [matchKeyword] at h; injection h with h; injection h with h; subst h; exact SubL.refl _
  | cons k ks ih =>
    intro i r h
    cases i with
    | nil => simp [matchKeyword] at h
    | cons c rest =>
      simp only [matchKeyword] at h
      split at h
      · exact (ih _ _ h).tail
      · cases h

theorem scanBoolean_sub (e : End) (i : List Nat) (b : Bool) (r : List Nat) (h : scanBoolean e i = .bool b r) : SubL i r := by
  cases i with
  | nil => simp [scanBoolean] at h
  | cons c rest =>
    simp only [scanBoolean] at h
    split at h
    · cases hm : matchKeyword e (asc "rue") rest with
      | none => rw [hm] at h; cases h
      | some o =>
        rw [hm] at h
        cases o with
        | none => cases h
        | some r' => simp only [] at h; injection h with _ h2; subst h2; exact (matchKeyword_sub e _ _ _ hm).tail
    · split at h
      · cases hm : matchKeyword e (asc "alse") rest with
        | none => rw [hm] at h; cases h
        | some o =>
          rw [hm] at h
          cases o with
          | none => cases h
          | some r' => simp only [] at h; injection h with _ h2; subst h2; exact (matchKeyword_sub e _ _ _ hm).tail
      · cases h

end RdfModel.Ttl

namespace RdfModel.TtlDoc
open RdfModel Ttl

/-- what every producer leaves in the buffer: runes of its input and pushed-back `.`s -/
structure Producers.SubP (P : Producers) : Prop where
  iriref : ∀ i v r, P.iriref .eof i = .ok v r → SubL i r
  string : ∀ i v r, P.string .eof i = .ok v r → SubL i r
  pnameNS : ∀ i v r, P.pnameNS .eof i = .ok v r → SubL i r
  pname : ∀ i v r, P.pname .eof i = .ok v r → SubL i r
  bnode : ∀ i v r, P.bnode .eof i = .ok v r → SubL i r
  langtag : ∀ i v r, P.langtag .eof i = .ok v r → SubL i r
  numeric : ∀ i v r, P.numeric .eof i = .ok v r → SubL i r
  boolean : ∀ i b r, P.boolean .eof i = .bool b r → SubL i r

theorem real_subP (T : Ttl.Tables) : (Producers.real T).SubP where
  iriref := fun i v r h => produceIRIREF_sub T .eof i v r h
  string := fun i v r h => produceString_sub T .eof i v r h
  pnameNS := fun i v r h => producePNAME_NS_sub T .eof i v r h
  pname := fun i v r h => producePrefixedName_sub T .eof i v r h
  bnode := fun i v r h => produceBlankNode_sub T .eof i v r h
  langtag := fun i v r h => produceLANGTAG_sub .eof i v r h
  numeric := fun i v r h => produceNumericLiteral_sub .eof i v r h
  boolean := fun i b r h => scanBoolean_sub .eof i b r h

variable {C : Cfg}

theorem matchKw_sub : ∀ (kw : List (Nat × Nat)) (rest r : List Nat), matchKw kw rest = .ok r → SubL rest r := by
  intro kw
  induction kw with
  | nil => intro rest r h; simp only [matchKw] at h; injection h with h; subst h; exact SubL.refl _
  | cons p kw ih =>
    intro rest r h
    obtain ⟨u, l⟩ := p
    cases rest with
    | nil => simp [matchKw] at h
    | cons c rest' =>
      simp only [matchKw] at h
      split at h
      · exact (ih _ _ h).tail
      · cases h

theorem term_sub (hS : C.P.SubP) (K : TK) (env env' : Env) (i : List Nat) (t : TtlDoc.T) (r : List Nat)
    (h : K.term C env i = .ok t r env') : SubL i r := by
  cases K with
  | iriref =>
    simp only [TK.term, termIRIREF, iriIRIREF] at h
    cases hp : C.P.iriref .eof i with
    | panic => rw [hp] at h; cases h
    | err c => rw [hp] at h; cases h
    | ok v r' =>
      rw [hp] at h; simp only [] at h
      cases hr : resolveIRI C env v with
      | none => rw [hr] at h; cases h
      | some i' => rw [hr] at h; simp only [IriRes.toTerm] at h; injection h with _ h2 _; subst h2; exact hS.iriref _ _ _ hp
  | pname =>
    simp only [TK.term, termPName, iriPName] at h
    cases hp : C.P.pname .eof i with
    | panic => rw [hp] at h; cases h
    | err c => rw [hp] at h; cases h
    | ok v r' =>
      obtain ⟨ns, loc⟩ := v
      rw [hp] at h; simp only [] at h
      cases hr : env.expand ns loc with
      | none => rw [hr] at h; cases h
      | some i' => rw [hr] at h; simp only [IriRes.toTerm] at h; injection h with _ h2 _; subst h2; exact hS.pname _ _ _ hp
  | bnode =>
    simp only [TK.term, termBNode] at h
    cases hp : C.P.bnode .eof i with
    | panic => rw [hp] at h; cases h
    | err c => rw [hp] at h; cases h
    | ok l r' => rw [hp] at h; simp only [] at h; injection h with _ h2 _; subst h2; exact hS.bnode _ _ _ hp

theorem passes_sub (hS : C.P.SubP) {F : TermRes → FnRes} (hF : Passes F) (K : TK) (env : Env) (i : List Nat) (o : Out)
    (h : F (K.term C env i) = .ok o) : SubL i o.inp := by
  obtain ⟨t, r, env', htr⟩ := hF.other _ _ h
  rw [htr] at h
  rw [(hF.ok t r env' o h).1]
  exact term_sub hS K env env' i t r htr

/-- closes `SubL (c :: rest) L` for `L` the input itself or its tail -/
macro "sub_close" : tactic =>
  `(tactic| first
      | exact SubL.refl _
      | exact (SubL.refl _).tail
      | exact ((SubL.refl _).tail).tail)

theorem kwFallback_sub (hS : C.P.SubP) (x : Ectx) (env : Env) (inp : List Nat) (o : Out)
    (h : kwFallback C .eof x env inp = .ok o) : SubL inp o.inp := by
  simp only [kwFallback] at h
  split at h
  · exact passes_sub hS (passes_labelOrSubject x) .pname env inp o h
  · injection h with h; subst h; exact SubL.refl _

theorem stepAtDirective_sub (x : Ectx) (env : Env) (rest : List Nat) (o : Out)
    (h : stepAtDirective .eof x env rest = .ok o) : SubL rest o.inp := by
  cases rest with
  | nil => simp [stepAtDirective] at h
  | cons r1 rest1 =>
    simp only [stepAtDirective] at h
    split at h
    · cases hm : matchKw (kwExact "ase") rest1 with
      | eoi => rw [hm] at h; cases h
      | mismatch => rw [hm] at h; cases h
      | ok r => rw [hm] at h; simp only [] at h; injection h with h; subst h; exact (matchKw_sub _ _ _ hm).tail
    · split at h
      · cases hm : matchKw (kwExact "refix") rest1 with
        | eoi => rw [hm] at h; cases h
        | mismatch => rw [hm] at h; cases h
        | ok r => rw [hm] at h; simp only [] at h; injection h with h; subst h; exact (matchKw_sub _ _ _ hm).tail
      · cases h

theorem stepKwBase_sub (hS : C.P.SubP) (x : Ectx) (env : Env) (c : Nat) (rest : List Nat) (o : Out)
    (h : stepKwBase C .eof x env c rest = .ok o) : SubL (c :: rest) o.inp := by
  simp only [stepKwBase] at h
  cases hm : matchKw (kwCI "ASE") rest with
  | eoi => rw [hm] at h; cases h
  | mismatch => rw [hm] at h; exact kwFallback_sub hS x env _ o h
  | ok r =>
    rw [hm] at h; simp only [] at h
    have hr := (matchKw_sub _ _ _ hm).tail (c := c)
    cases r with
    | nil => cases h
    | cons r4 rest4 =>
      simp only [] at h
      split at h
      · injection h with h; subst h; exact hr
      · split at h
        · exact kwFallback_sub hS x env _ o h
        · injection h with h; subst h
          exact hr.trans (SubL.refl _).tail

theorem stepKwSpace_sub (hS : C.P.SubP) (x : Ectx) (env : Env) (kw : List (Nat × Nat)) (k : Cont) (c : Nat)
    (rest : List Nat) (o : Out) (h : stepKwSpace C .eof x env kw k c rest = .ok o) : SubL (c :: rest) o.inp := by
  simp only [stepKwSpace] at h
  cases hm : matchKw kw rest with
  | eoi => rw [hm] at h; cases h
  | mismatch => rw [hm] at h; exact kwFallback_sub hS x env _ o h
  | ok r =>
    rw [hm] at h; simp only [] at h
    have hr := (matchKw_sub _ _ _ hm).tail (c := c)
    cases r with
    | nil => cases h
    | cons r6 rest6 =>
      simp only [] at h
      split at h
      · exact kwFallback_sub hS x env _ o h
      · injection h with h; subst h
        exact hr.trans (SubL.refl _).tail

theorem stepSubjectStart_sub (hS : C.P.SubP) (x : Ectx) (env : Env) (c : Nat) (rest : List Nat) (o : Out)
    (h : stepSubjectStart C .eof x env c rest = .ok o) : SubL (c :: rest) o.inp := by
  simp only [stepSubjectStart] at h
  split at h
  · split at h
    · exact passes_sub hS (passes_labelOrSubject x) .iriref env _ o h
    · injection h with h; subst h; sub_close
  · split at h
    · split at h
      · exact passes_sub hS (passes_labelOrSubject x) .bnode env _ o h
      · injection h with h; subst h; sub_close
    · split at h
      · split at h <;> (injection h with h; subst h; sub_close)
      · split at h
        · injection h with h; subst h; sub_close
        · split at h
          · split at h
            · exact passes_sub hS (passes_labelOrSubject x) .pname env _ o h
            · injection h with h; subst h; sub_close
          · cases h

theorem stepStatementRune_sub (hS : C.P.SubP) (x : Ectx) (env : Env) (c : Nat) (rest : List Nat) (o : Out)
    (h : stepStatementRune C .eof x env c rest = .ok o) : SubL (c :: rest) o.inp := by
  simp only [stepStatementRune] at h
  split at h
  · exact (stepAtDirective_sub x env rest o h).tail
  · split at h
    · exact stepKwBase_sub hS x env c rest o h
    · split at h
      · exact stepKwSpace_sub hS x env _ _ c rest o h
      · split at h
        · exact stepKwSpace_sub hS x env _ _ c rest o h
        · split at h
          · simp only [stepWrappedGraph] at h
            split at h
            · cases h
            · injection h with h; subst h; sub_close
          · exact stepSubjectStart_sub hS x env c rest o h

theorem stepPOL_sub (hS : C.P.SubP) (x : Ectx) (env : Env) (c : Nat) (rest : List Nat) (o : Out)
    (h : stepPOL C .eof x env c rest = .ok o) : SubL (c :: rest) o.inp := by
  simp only [stepPOL] at h
  split at h
  · exact passes_sub hS (passes_polOfTerm x) .iriref env _ o h
  · split at h
    · cases rest with
      | nil => cases h
      | cons r1 rest1 =>
        simp only [] at h
        split at h
        · exact passes_sub hS (passes_polOfTerm x) .pname env _ o h
        · simp only [polGo] at h; injection h with h; subst h; sub_close
    · split at h
      · exact passes_sub hS (passes_polOfTerm x) .pname env _ o h
      · injection h with h; subst h; sub_close

theorem iri_sub (hS : C.P.SubP) (env : Env) (i v r : List Nat) :
    (iriIRIREF C .eof env i = .ok v r → SubL i r) ∧ (iriPName C .eof env i = .ok v r → SubL i r) := by
  constructor
  · intro h
    have : TK.term C env i .iriref = .ok (.iri v) r env := by simp [TK.term, termIRIREF, h, IriRes.toTerm]
    exact term_sub hS .iriref env env i _ r this
  · intro h
    have : TK.term C env i .pname = .ok (.iri v) r env := by simp [TK.term, termPName, h, IriRes.toTerm]
    exact term_sub hS .pname env env i _ r this

theorem stepLiteralTail_sub (hS : C.P.SubP) (x : Ectx) (env : Env) (lex rest : List Nat) (o : Out)
    (h : stepLiteralTail C .eof x env lex rest = .ok o) : SubL rest o.inp := by
  cases rest with
  | nil => simp [stepLiteralTail] at h
  | cons c rest0 =>
    simp only [stepLiteralTail] at h
    split at h
    · cases hp : C.P.langtag .eof (c :: rest0) with
      | panic => rw [hp] at h; cases h
      | err k => rw [hp] at h; cases h
      | ok tag r => rw [hp] at h; simp only [] at h; injection h with h; subst h; exact hS.langtag _ _ _ hp
    · split at h
      · cases rest0 with
        | nil => cases h
        | cons c1 rest1 =>
          simp only [] at h
          split at h
          · cases h
          · cases rest1 with
            | nil => cases h
            | cons c2 rest2 =>
              simp only [] at h
              by_cases h4 : c2 = 0x3c
              · simp only [h4, if_true] at h
                cases hi : iriIRIREF C .eof env (0x3c :: rest2) with
                | panic => rw [hi] at h; cases h
                | err k => rw [hi] at h; cases h
                | ok dt r =>
                  rw [hi] at h; simp only [] at h
                  split at h
                  · cases h
                  · injection h with h; subst h
                    subst h4
                    exact (((iri_sub hS env _ dt r).1 hi).tail).tail
              · simp only [h4, if_false] at h
                cases hi : iriPName C .eof env (c2 :: rest2) with
                | panic => rw [hi] at h; cases h
                | err k => rw [hi] at h; cases h
                | ok dt r =>
                  rw [hi] at h; simp only [] at h
                  split at h
                  · cases h
                  · injection h with h; subst h
                    exact (((iri_sub hS env _ dt r).2 hi).tail).tail
      · injection h with h; subst h; sub_close

theorem stepObject_sub (hS : C.P.SubP) (x : Ectx) (env : Env) (c : Nat) (rest : List Nat) (o : Out)
    (h : stepObject C .eof x env c rest = .ok o) : SubL (c :: rest) o.inp := by
  have hnum : ∀ o, emitOfNumeric x env (C.P.numeric .eof (c :: rest)) = .ok o → SubL (c :: rest) o.inp := by
    intro o h
    obtain ⟨v, r, h1, h2, _⟩ := emitOfNumeric_local x env _ o h
    rw [h2]; exact hS.numeric _ _ _ h1
  simp only [stepObject] at h
  split at h
  · exact passes_sub hS (passes_emitOfTerm x) .iriref env _ o h
  · split at h
    · exact passes_sub hS (passes_emitOfTerm x) .bnode env _ o h
    · split at h
      · injection h with h; subst h; sub_close
      · split at h
        · injection h with h; subst h; sub_close
        · split at h
          · cases hp : C.P.string .eof (c :: rest) with
            | panic => rw [hp] at h; cases h
            | err k => rw [hp] at h; cases h
            | ok lex r =>
              rw [hp] at h; simp only [] at h
              exact (hS.string _ _ _ hp).trans (stepLiteralTail_sub hS x env lex r o h)
          · split at h
            · split at h
              · cases rest with
                | nil => cases h
                | cons r1 rest1 =>
                  simp only [] at h
                  split at h
                  · cases h
                  · exact hnum o h
              · exact hnum o h
            · split at h
              · cases hp : C.P.boolean .eof (c :: rest) with
                | err k => rw [hp] at h; cases h
                | other => rw [hp] at h; simp only [] at h; injection h with h; subst h; sub_close
                | bool b r => rw [hp] at h; simp only [] at h; injection h with h; subst h; exact hS.boolean _ _ _ hp
              · split at h
                · injection h with h; subst h; sub_close
                · cases h

macro "simple_sub" h:ident : tactic =>
  `(tactic| (simp only [stepFn, Arg.orNul, stepWrappedGraph, stepTriples, stepCollection, stepParen] at $h:ident
             repeat' split at $h:ident
             all_goals first
               | (cases $h:ident; done)
               | (injection $h:ident with hinj; subst hinj; sub_close)))

theorem stepFn_sub_rune (hS : C.P.SubP) (k : Cont) (x : Ectx) (env : Env) (c : Nat) (rest : List Nat) (o : Out)
    (h : stepFn C .eof k x env (.rune c rest) = .ok o) : SubL (c :: rest) o.inp := by
  cases k with
  | statement =>
    simp only [stepFn] at h
    cases hA : stepStatementRune C .eof x env c rest with
    | panic => rw [hA] at h; cases h
    | err k => rw [hA] at h; cases h
    | ok o' =>
      rw [hA] at h; simp only [withSelf] at h
      injection h with h; subst h
      exact stepStatementRune_sub hS x env c rest o' hA
  | atBaseIRI =>
    simp only [stepFn, ite_true] at h
    cases hp : C.P.iriref .eof (c :: rest) with
    | panic => rw [hp] at h; cases h
    | err k => rw [hp] at h; cases h
    | ok v r =>
      rw [hp] at h; simp only [] at h
      cases hr : resolveURL C env v with
      | none => rw [hr] at h; cases h
      | some b => rw [hr] at h; simp only [ite_true] at h; injection h with h; subst h; exact hS.iriref _ _ _ hp
  | sparqlBaseIRI =>
    simp only [stepFn, reduceCtorEq, ite_false] at h
    cases hp : C.P.iriref .eof (c :: rest) with
    | panic => rw [hp] at h; cases h
    | err k => rw [hp] at h; cases h
    | ok v r =>
      rw [hp] at h; simp only [] at h
      cases hr : resolveURL C env v with
      | none => rw [hr] at h; cases h
      | some b => rw [hr] at h; simp only [reduceCtorEq, ite_false] at h; injection h with h; subst h; exact hS.iriref _ _ _ hp
  | atPrefixIRI ns =>
    simp only [stepFn] at h
    cases hp : C.P.iriref .eof (c :: rest) with
    | panic => rw [hp] at h; cases h
    | err k => rw [hp] at h; cases h
    | ok v r =>
      rw [hp] at h; simp only [] at h
      cases hr : resolveURL C env v with
      | none => rw [hr] at h; cases h
      | some b => rw [hr] at h; simp only [] at h; injection h with h; subst h; exact hS.iriref _ _ _ hp
  | sparqlPrefixIRI ns =>
    simp only [stepFn] at h
    cases hp : C.P.iriref .eof (c :: rest) with
    | panic => rw [hp] at h; cases h
    | err k => rw [hp] at h; cases h
    | ok v r =>
      rw [hp] at h; simp only [] at h
      cases hr : resolveURL C env v with
      | none => rw [hr] at h; cases h
      | some b => rw [hr] at h; simp only [] at h; injection h with h; subst h; exact hS.iriref _ _ _ hp
  | atPrefixNS =>
    simp only [stepFn] at h
    cases hp : C.P.pnameNS .eof (c :: rest) with
    | panic => rw [hp] at h; cases h
    | err k => rw [hp] at h; cases h
    | ok v r => rw [hp] at h; simp only [] at h; injection h with h; subst h; exact hS.pnameNS _ _ _ hp
  | sparqlPrefixNS =>
    simp only [stepFn] at h
    cases hp : C.P.pnameNS .eof (c :: rest) with
    | panic => rw [hp] at h; cases h
    | err k => rw [hp] at h; cases h
    | ok v r => rw [hp] at h; simp only [] at h; injection h with h; subst h; exact hS.pnameNS _ _ _ hp
  | subjIRIREF => exact passes_sub hS (passes_subjectOf x) .iriref env _ o h
  | subjPName => exact passes_sub hS (passes_subjectOf x) .pname env _ o h
  | subjBNode => exact passes_sub hS (passes_subjectOf x) .bnode env _ o h
  | objectPName => exact passes_sub hS (passes_emitOfTerm x) .pname env _ o h
  | pol => simp only [stepFn] at h; exact stepPOL_sub hS x env c rest o h
  | polRequired =>
    simp only [stepFn] at h
    cases hp : stepPOL C .eof x env c rest with
    | panic => rw [hp] at h; cases h
    | err k => rw [hp] at h; cases h
    | ok o' =>
      rw [hp] at h; simp only [] at h
      split at h
      · cases h
      · injection h with h; subst h; exact stepPOL_sub hS x env c rest o' hp
  | object => simp only [stepFn] at h; exact stepObject_sub hS x env c rest o h
  | graphLabel =>
    simp only [stepFn] at h
    split at h
    · injection h with h; subst h; sub_close
    · have hP : Passes (fun tr => match tr with
          | .panic => FnRes.panic
          | .err t => .err t
          | .ok g r env' => .ok { cur := some ⟨{ x with graph := some g }, .wrappedGraph⟩, inp := r, env := env' }) := by
        constructor
        · intro t r env' o h; simp only [] at h ⊢; injection h with h; subst h; exact ⟨rfl, fun s => rfl⟩
        · intro tr o h; cases tr <;> simp at h; exact ⟨_, _, _, rfl⟩
      by_cases h2 : c = 0x5f
      · simp only [h2, if_true] at h; subst h2; exact passes_sub hS hP .bnode env _ o h
      · simp only [h2, if_false] at h
        by_cases h3 : c = 0x3c
        · simp only [h3, if_true] at h; subst h3; exact passes_sub hS hP .iriref env _ o h
        · simp only [h3, if_false] at h; exact passes_sub hS hP .pname env _ o h
  | graphAnonClose =>
    simp only [stepFn, Arg.orNul] at h
    by_cases h1 : c = 0x5d
    · subst h1; simp only [ne_eq, not_true_eq_false, ↓reduceIte] at h; injection h with h; subst h; sub_close
    · simp only [ne_eq, h1, not_false_eq_true, ↓reduceIte] at h; cases h
  | tgE1 v =>
    simp only [stepFn, Arg.orNul] at h
    by_cases h1 : c = 0x7b
    · subst h1; simp only [↓reduceIte] at h; injection h with h; subst h; sub_close
    · simp only [h1, ↓reduceIte] at h
      cases v with
      | lit lex dt lang => cases h
      | iri i => simp only [] at h; injection h with h; subst h; sub_close
      | bnode b => simp only [] at h; injection h with h; subst h; sub_close
  | tgBracket bn =>
    simp only [stepFn, Arg.orNul] at h
    by_cases h1 : c = 0x5d
    · subst h1; simp only [↓reduceIte] at h; injection h with h; subst h; sub_close
    · simp only [h1, ↓reduceIte] at h; injection h with h; subst h; sub_close
  | parenTop bn =>
    simp only [stepFn, stepParen, Arg.orNul] at h
    by_cases h1 : c = 0x29
    · subst h1; simp only [↓reduceIte] at h; injection h with h; subst h; sub_close
    · simp only [h1, ↓reduceIte] at h; injection h with h; subst h; sub_close
  | parenBlock bn =>
    simp only [stepFn, stepParen, Arg.orNul] at h
    by_cases h1 : c = 0x29
    · subst h1; simp only [↓reduceIte] at h; injection h with h; subst h; sub_close
    · simp only [h1, ↓reduceIte] at h; injection h with h; subst h; sub_close
  | collOpenSubj o' =>
    simp only [stepFn, Arg.orNul, stepCollection] at h
    by_cases h1 : c = 0x29
    · subst h1; simp only [↓reduceIte] at h; injection h with h; subst h; sub_close
    · simp only [h1, ↓reduceIte] at h
      cases hx : x.subj <;> rw [hx] at h <;> simp only [] at h <;> (injection h with h; subst h; sub_close)
  | atBaseDot b => simple_sub h
  | atPrefixDot ns b => simple_sub h
  | subjAnonOrBNPL => simple_sub h
  | triplesEnd => simple_sub h
  | polContinue => simple_sub h
  | objListContinue => simple_sub h
  | collOpenObj => simple_sub h
  | collContinue => simple_sub h
  | bnplEnd => simple_sub h
  | wrappedGraph => simple_sub h
  | wrappedGraphEnd => simple_sub h
  | triplesBlock => simple_sub h
  | triplesBlockQuest => simple_sub h
  | triples => simple_sub h
  | triples2BNPL => simple_sub h

theorem stepFn_sub_fail (k : Cont) (x : Ectx) (env : Env) (o : Out)
    (h : stepFn C .eof k x env .fail = .ok o) : ∀ y ∈ o.inp, y = 0 := by
  have fin : ∀ {o' : Out}, FnRes.ok o' = .ok o → (∀ y ∈ o'.inp, y = 0) → ∀ y ∈ o.inp, y = 0 := by
    intro o' h1 h2; injection h1 with h1; subst h1; exact h2
  cases k with
  | statement =>
    simp only [stepFn] at h
    exact fin h (by intro y hy; cases hy)
  | collOpenSubj o' =>
    simp only [stepFn, Arg.orNul, stepCollection, show ¬ (0 : Nat) = 0x29 by decide, if_false] at h
    cases hx : x.subj <;> rw [hx] at h <;> simp only [] at h <;> exact fin h (by intro y hy; simpa using hy)
  | parenTop bn =>
    simp only [stepFn, stepParen, Arg.orNul, show ¬ (0 : Nat) = 0x29 by decide, if_false] at h
    exact fin h (by intro y hy; simpa using hy)
  | parenBlock bn =>
    simp only [stepFn, stepParen, Arg.orNul, show ¬ (0 : Nat) = 0x29 by decide, if_false] at h
    exact fin h (by intro y hy; simpa using hy)
  | graphAnonClose =>
    simp only [stepFn, Arg.orNul, show (0 : Nat) ≠ 0x5d by decide, if_true] at h
    cases h
  | tgE1 v =>
    simp only [stepFn, Arg.orNul, show ¬ (0 : Nat) = 0x7b by decide, if_false] at h
    cases v with
    | lit lex dt lang => cases h
    | iri i => exact fin h (by intro y hy; simpa using hy)
    | bnode b => exact fin h (by intro y hy; simpa using hy)
  | tgBracket bn =>
    simp only [stepFn, Arg.orNul, show ¬ (0 : Nat) = 0x5d by decide, if_false] at h
    exact fin h (by intro y hy; simpa using hy)
  | wrappedGraph => simp only [stepFn, stepWrappedGraph] at h; cases h
  | _ => simp only [stepFn] at h; cases h

/-! ### Changing the white-space predicate off the buffer -/

/-- the buffer holds only runes on which the two white-space predicates agree -/
def OkB (C : Cfg) (sp' : Nat → Bool) (inp : List Nat) : Prop := ∀ y ∈ inp, C.isSpace y = sp' y

theorem skipWs_space (sp' : Nat → Bool) (e : End) : ∀ (b : Bool) (inp : List Nat), OkB C sp' inp →
    skipWs { C with isSpace := sp' } e b inp = skipWs C e b inp := by
  intro b inp
  induction inp generalizing b with
  | nil => intro _; cases b <;> rfl
  | cons a rest ih =>
    intro hok
    have hr : OkB C sp' rest := fun y hy => hok y (List.mem_cons_of_mem _ hy)
    have ha : isWs { C with isSpace := sp' } a = isWs C a := by
      simp only [isWs]; rw [← hok a List.mem_cons_self]
    cases b with
    | true => simp only [skipWs, ih _ hr]
    | false => simp only [skipWs, ih _ hr, ha]

theorem skipWs_mem (e : End) : ∀ (b : Bool) (inp : List Nat) (c : Nat) (rest : List Nat),
    skipWs C e b inp = .rune c rest → ∀ y ∈ c :: rest, y ∈ inp := by
  intro b inp
  induction inp generalizing b with
  | nil => intro c rest h; cases b <;> simp [skipWs] at h; cases e <;> simp at h
  | cons a r ih =>
    intro c rest h y hy
    cases b with
    | true =>
      unfold skipWs at h
      split at h <;> exact List.mem_cons_of_mem _ (ih _ _ _ h y hy)
    | false =>
      unfold skipWs at h
      split at h
      · exact List.mem_cons_of_mem _ (ih _ _ _ h y hy)
      · split at h
        · exact List.mem_cons_of_mem _ (ih _ _ _ h y hy)
        · injection h with h1 h2; subst h1; subst h2; exact hy

theorem kwFallback_space (sp' : Nat → Bool) (e : End) (x : Ectx) (env : Env) (inp : List Nat) :
    kwFallback { C with isSpace := sp' } e x env inp = kwFallback C e x env inp := rfl

theorem okB_of_subL {sp' : Nat → Bool} (hd : C.isSpace 0x2e = sp' 0x2e) {i r : List Nat} (hok : OkB C sp' i)
    (h : SubL i r) : OkB C sp' r := by
  intro y hy
  rcases h y hy with h1 | h1
  · exact hok y h1
  · subst h1; exact hd

theorem stepKwBase_space (sp' : Nat → Bool) (hd : C.isSpace 0x2e = sp' 0x2e) (e : End) (x : Ectx) (env : Env) (c : Nat)
    (rest : List Nat) (hok : OkB C sp' rest) :
    stepKwBase { C with isSpace := sp' } e x env c rest = stepKwBase C e x env c rest := by
  simp only [stepKwBase, kwFallback_space]
  cases hm : matchKw (kwCI "ASE") rest with
  | eoi => rfl
  | mismatch => rfl
  | ok r =>
    cases r with
    | nil => rfl
    | cons r4 rest4 =>
      have : C.isSpace r4 = sp' r4 := okB_of_subL hd hok (matchKw_sub _ _ _ hm) r4 List.mem_cons_self
      simp only [this]

theorem stepKwSpace_space (sp' : Nat → Bool) (hd : C.isSpace 0x2e = sp' 0x2e) (e : End) (x : Ectx) (env : Env)
    (kw : List (Nat × Nat)) (k : Cont) (c : Nat) (rest : List Nat) (hok : OkB C sp' rest) :
    stepKwSpace { C with isSpace := sp' } e x env kw k c rest = stepKwSpace C e x env kw k c rest := by
  simp only [stepKwSpace, kwFallback_space]
  cases hm : matchKw kw rest with
  | eoi => rfl
  | mismatch => rfl
  | ok r =>
    cases r with
    | nil => rfl
    | cons r6 rest6 =>
      have : C.isSpace r6 = sp' r6 := okB_of_subL hd hok (matchKw_sub _ _ _ hm) r6 List.mem_cons_self
      simp only [this]

theorem stepPOL_space (sp' : Nat → Bool) (e : End) (x : Ectx) (env : Env) (c : Nat) (rest : List Nat)
    (hok : OkB C sp' rest) :
    stepPOL { C with isSpace := sp' } e x env c rest = stepPOL C e x env c rest := by
  cases rest with
  | nil => rfl
  | cons r1 rest1 =>
    have : C.isSpace r1 = sp' r1 := hok r1 List.mem_cons_self
    simp only [stepPOL, this]
    rfl

theorem stepFn_space (sp' : Nat → Bool) (hd : C.isSpace 0x2e = sp' 0x2e) (e : End) (k : Cont) (x : Ectx) (env : Env)
    (a : Arg) (hok : ∀ c rest, a = .rune c rest → OkB C sp' rest) :
    stepFn { C with isSpace := sp' } e k x env a = stepFn C e k x env a := by
  cases k with
  | statement =>
    cases a with
    | fail => rfl
    | rune c rest =>
      have hr := hok c rest rfl
      simp only [stepFn, stepStatementRune, stepKwBase_space sp' hd e x env c rest hr,
        stepKwSpace_space sp' hd e x env _ _ c rest hr]
      rfl
  | pol =>
    cases a with
    | fail => rfl
    | rune c rest => simp only [stepFn, stepPOL_space sp' e x env c rest (hok c rest rfl)]
  | polRequired =>
    cases a with
    | fail => rfl
    | rune c rest => simp only [stepFn, stepPOL_space sp' e x env c rest (hok c rest rfl)]
  | _ => rfl

theorem scanFn_space (sp' : Nat → Bool) (hd : C.isSpace 0x2e = sp' 0x2e) (e : End) (f : Frame) (inp : List Nat) (env : Env)
    (hok : OkB C sp' inp) : scanFn { C with isSpace := sp' } e f inp env = scanFn C e f inp env := by
  unfold scanFn
  rw [skipWs_space sp' e false inp hok]
  cases hs : skipWs C e false inp with
  | commentIo => rfl
  | end_ => exact stepFn_space sp' hd e f.k f.x env .fail (fun c rest h => by cases h)
  | rune c rest =>
    refine stepFn_space sp' hd e f.k f.x env _ (fun c' rest' h => ?_)
    injection h with h1 h2; subst h1; subst h2
    exact fun y hy => hok y (skipWs_mem e _ _ _ _ hs y (List.mem_cons_of_mem _ hy))

/-- a successful scan call leaves only runes it was given, `.`s and NULs in the buffer -/
theorem scanFn_okB (hS : C.P.SubP) (sp' : Nat → Bool) (hd : C.isSpace 0x2e = sp' 0x2e) (h0 : C.isSpace 0 = sp' 0)
    (f : Frame) (inp : List Nat) (env : Env) (o : Out) (hok : OkB C sp' inp)
    (h : scanFn C .eof f inp env = .ok o) : OkB C sp' o.inp := by
  unfold scanFn at h
  cases hs : skipWs C .eof false inp with
  | commentIo => rw [hs] at h; cases h
  | end_ =>
    rw [hs] at h; simp only [] at h
    intro y hy
    rw [stepFn_sub_fail f.k f.x env o h y hy]; exact h0
  | rune c rest =>
    rw [hs] at h; simp only [] at h
    exact okB_of_subL hd (fun y hy => hok y (skipWs_mem .eof _ _ _ _ hs y hy)) (stepFn_sub_rune hS f.k f.x env c rest o h)

theorem nextLoop_space (hS : C.P.SubP) (sp' : Nat → Bool) (hd : C.isSpace 0x2e = sp' 0x2e) (h0 : C.isSpace 0 = sp' 0) :
    ∀ (fuel : Nat) (cur : Option Frame) (st : St), OkB C sp' st.inp →
      nextLoop { C with isSpace := sp' } .eof fuel cur st = nextLoop C .eof fuel cur st ∧
      ∀ st', nextLoop C .eof fuel cur st = .yes st' → OkB C sp' st'.inp := by
  intro fuel
  induction fuel with
  | zero => intro cur st _; exact ⟨rfl, fun st' h => by simp [nextLoop] at h⟩
  | succ n ih =>
    intro cur st hok
    rw [nextLoop, nextLoop]
    split
    · exact ⟨rfl, fun st' h => by cases h⟩
    · split
      · refine ⟨rfl, fun st' h => ?_⟩
        injection h with h; subst h
        cases cur <;> exact hok
      · cases hp : popFrame cur st with
        | none => exact ⟨rfl, fun st' h => by cases h⟩
        | some p =>
          obtain ⟨f, st1⟩ := p
          obtain ⟨_, _, hi1, _, _⟩ := popFrame_some hp
          have hok1 : OkB C sp' st1.inp := hi1 ▸ hok
          have hsc : scan { C with isSpace := sp' } .eof f st1 = scan C .eof f st1 := by
            simp only [scan, scanFn_space sp' hd .eof f st1.inp st1.env hok1]
          simp only [hsc]
          cases hs : scan C .eof f st1 with
          | panic => exact ⟨rfl, fun st' h => by cases h⟩
          | err k => exact ih none { st1 with err := some k } hok1
          | ok cur' st2 =>
            refine ih cur' st2 ?_
            unfold scan at hs
            cases hf : scanFn C .eof f st1.inp st1.env with
            | panic => rw [hf] at hs; cases hs
            | err k => rw [hf] at hs; cases hs
            | ok o =>
              rw [hf] at hs; simp only [] at hs
              injection hs with _ h2; subst h2
              exact scanFn_okB hS sp' hd h0 f st1.inp st1.env o hok1 hf

theorem runLoop_space (hS : C.P.SubP) (sp' : Nat → Bool) (hd : C.isSpace 0x2e = sp' 0x2e) (h0 : C.isSpace 0 = sp' 0) :
    ∀ (n : Nat) (st : St), OkB C sp' st.inp →
      runLoop { C with isSpace := sp' } .eof n st = runLoop C .eof n st := by
  intro n
  induction n with
  | zero => intro st _; rfl
  | succ n ih =>
    intro st hok
    have hn := nextLoop_space hS sp' hd h0 (({ st with stmts := st.stmts.drop 1 } : St).cost + 1) none
      { st with stmts := st.stmts.drop 1 } hok
    have e1 : next { C with isSpace := sp' } .eof st = next C .eof st := hn.1
    unfold runLoop
    rw [e1]
    cases hx : next C .eof st with
    | panic => rfl
    | outOfFuel => rfl
    | no st' => rfl
    | yes st' =>
      simp only []
      have : OkB C sp' st'.inp := hn.2 st' hx
      rw [ih st' this]

/-- Two configurations that differ only in the white-space predicate, and agree on every rune of the
    input, on `.` and on NUL, run identically. -/
theorem run_space_congr (hS : C.P.SubP) (sp' : Nat → Bool) (hd : C.isSpace 0x2e = sp' 0x2e) (h0 : C.isSpace 0 = sp' 0)
    (base : Option (List Nat)) (pf : List (List Nat × List Nat)) (inp : List Nat) (hok : OkB C sp' inp) :
    run { C with isSpace := sp' } .eof base pf inp = run C .eof base pf inp :=
  runLoop_space hS sp' hd h0 _ _ hok

end RdfModel.TtlDoc
