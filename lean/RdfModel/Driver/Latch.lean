/-
  Driver handler for the Next/Err wrapper model (Model/Latch.lean).
  `latch.run <decoder type> <n> <err 0|1> <k>`: run the wrapper, with the flags the extracted facts of
  that decoder justify, over the scripted decoder proper "n statements, then (an error | a quiet
  end)", for n + 1 + k calls of Next; print the trace summary.
-/
import RdfModel.Model.Latch
import RdfModel.Gen.LatchFacts
namespace RdfModel.Driver.Latch
open RdfModel.Latch

def script (n : Nat) (e : Bool) : List (Bool × Bool) :=
  List.replicate n (true, false) ++ (if e then [(false, true)] else [])

def summarize (tr : List (Bool × Bool)) : String :=
  let yes := tr.takeWhile (·.1)
  let rest := tr.dropWhile (·.1)
  let allFalse := rest.all (fun x => !x.1)
  let stable := match rest with
    | [] => true
    | x :: xs => xs.all (fun y => y.2 == x.2)
  let e := match rest with
    | [] => false
    | x :: _ => x.2
  if allFalse && stable then s!"T{yes.length} F{rest.length} err={if e then 1 else 0} stable"
  else s!"T{yes.length} unstable"

def handle (op : String) (args : List String) : Option String :=
  match op, args with
  | "run", [dec, n, e, k] =>
    match Gen.LatchFacts.decoders.find? (·.decoder == dec), n.toNat?, k.toNat? with
    | some d, some n, some k =>
      let f := if d.guard == .delegate then { guardFirst := true, storesErr := true } else factsOf d
      let tr := trace f scriptStep (n + 1 + k) { err := none, inner := script n (e == "1") }
      some (summarize tr)
    | _, _, _ => some "err unknown-decoder-or-number"
  | _, _ => none

end RdfModel.Driver.Latch
