/-
  Part C12W — `getScheme`, the query split and the authority split of `parse` on recomposed strings.
-/
import RdfModel.Proofs.C12WrapBasic
namespace RdfModel.C12W
open RdfModel.GoUrlFull RdfModel.PIRI
open RdfModel.Spec.RFC3986 (queryPart)

/-! ### getScheme -/

def isSchemeByte (c : Nat) : Bool := isLowerC c || isUpperC c || isDigitC c || c == 0x2b || c == 0x2d || c == 0x2e

theorem getSchemeAux_scheme (whole rest : Str) : ∀ (tail : Str) (i : Nat), tail.all schemeTailByte = true → 0 < i →
    getSchemeAux whole (tail ++ 0x3a :: rest) i = some (whole.take (i + tail.length), rest)
  | [], i, _, hi => by
    have : i ≠ 0 := by omega
    simp [getSchemeAux, isLowerC, isUpperC, isDigitC, this]
  | c :: t, i, h, hi => by
    simp only [List.all_cons, Bool.and_eq_true] at h
    have ih := getSchemeAux_scheme whole rest t (i + 1) h.2 (by omega)
    have hlen : i + 1 + t.length = i + (c :: t).length := by simp; omega
    have hc := h.1
    unfold schemeTailByte at hc
    have hi0 : i ≠ 0 := by omega
    simp only [List.cons_append, getSchemeAux]
    by_cases h1 : (isLowerC c || isUpperC c) = true
    · simp [h1, ih, hlen]
    · have h2 : (isDigitC c || c == 0x2b || c == 0x2d || c == 0x2e) = true := by
        simp only [Bool.or_eq_true] at hc h1 ⊢
        rcases hc with ((((hc | hc) | hc) | hc) | hc)
        · exact absurd (Or.inl hc) h1
        · exact Or.inl (Or.inl (Or.inl hc))
        · exact Or.inl (Or.inl (Or.inr hc))
        · exact Or.inl (Or.inr hc)
        · exact Or.inr hc
      simp [h1, h2, hi0, ih, hlen]

theorem getScheme_scheme (sch rest : Str) (h : schemeOk sch = true) :
    getScheme (sch ++ 0x3a :: rest) = some (sch, rest) := by
  cases sch with
  | nil => simp [schemeOk] at h
  | cons c t =>
    simp only [schemeOk, Bool.and_eq_true] at h
    unfold getScheme
    simp only [List.cons_append, getSchemeAux, h.1, Bool.true_or, if_true]
    rw [getSchemeAux_scheme _ rest t 1 h.2 (by omega)]
    have : 1 + t.length = (c :: t).length := by simp; omega
    rw [this, ← List.cons_append, List.take_left']
    rfl

theorem getSchemeAux_none (whole : Str) : ∀ (l : Str) (i : Nat),
    (l.dropWhile isSchemeByte).head? ≠ some 0x3a → getSchemeAux whole l i = some ([], whole)
  | [], _, _ => by simp [getSchemeAux]
  | c :: l, i, h => by
    unfold getSchemeAux
    by_cases h1 : (isLowerC c || isUpperC c) = true
    · have hs : isSchemeByte c = true := by
        unfold isSchemeByte; simp only [Bool.or_eq_true] at h1 ⊢; rcases h1 with h1 | h1 <;> simp [h1]
      rw [List.dropWhile_cons_of_pos hs] at h
      simp [h1, getSchemeAux_none whole l (i + 1) h]
    · by_cases h2 : (isDigitC c || c == 0x2b || c == 0x2d || c == 0x2e) = true
      · have hs : isSchemeByte c = true := by
          unfold isSchemeByte; simp only [Bool.or_eq_true] at h2 ⊢
          rcases h2 with ((h2 | h2) | h2) | h2 <;> simp [h2]
        rw [List.dropWhile_cons_of_pos hs] at h
        by_cases hi : i = 0
        · simp [h1, h2, hi]
        · simp [h1, h2, hi, getSchemeAux_none whole l (i + 1) h]
      · have hs : isSchemeByte c = false := by
          unfold isSchemeByte
          simp only [Bool.or_eq_true, not_or, Bool.not_eq_true] at h1 h2
          simp [h1.1, h1.2, h2.1.1.1, h2.1.1.2, h2.1.2, h2.2]
        rw [List.dropWhile_cons_of_neg (by simp [hs])] at h
        simp only [List.head?_cons, ne_eq, Option.some.injEq] at h
        have : (c == 0x3a) = false := by simp [h]
        simp [h1, h2, this]

theorem getScheme_none (l : Str) (h : (l.dropWhile isSchemeByte).head? ≠ some 0x3a) :
    getScheme l = some ([], l) := getSchemeAux_none l l 0 h

/-- a rootless path without ':' in its first segment, or a path starting with '/', followed by an optional
    query, is not mistaken for `scheme:` -/
theorem noScheme_of_firstSeg : ∀ (l qp : Str), (qp = [] ∨ qp.head? = some 0x3f) →
    ((cut 0x2f l).1).contains 0x3a = false → ((l ++ qp).dropWhile isSchemeByte).head? ≠ some 0x3a
  | [], qp, hq, _ => by
    rcases hq with hq | hq
    · simp [hq]
    · cases qp with
      | nil => simp
      | cons c q =>
        simp only [List.head?_cons, Option.some.injEq] at hq
        subst hq
        rw [List.nil_append, List.dropWhile_cons_of_neg (by decide)]
        simp
  | c :: l, qp, hq, h => by
    by_cases hc : c = 0x2f
    · subst hc
      rw [List.cons_append, List.dropWhile_cons_of_neg (by decide)]
      simp
    · simp only [cut, hc, if_false, List.contains_cons, Bool.or_eq_false_iff] at h
      have ih := noScheme_of_firstSeg l qp hq h.2
      rw [List.cons_append]
      by_cases hs : isSchemeByte c = true
      · rw [List.dropWhile_cons_of_pos hs]; exact ih
      · rw [List.dropWhile_cons_of_neg hs]
        simp only [List.head?_cons, ne_eq, Option.some.injEq]
        intro e; subst e; simp at h

/-! ### the query split -/

theorem countByte_append (c : Nat) (a b : Str) : countByte c (a ++ b) = countByte c a + countByte c b := by
  simp [countByte, List.filter_append]

theorem countByte_zero {c : Nat} {a : Str} (h : c ∉ a) : countByte c a = 0 := by
  simp only [countByte, List.length_eq_zero_iff, List.filter_eq_nil_iff, beq_iff_eq]
  intro x hx e; subst e; exact h hx

theorem countByte_pos {c : Nat} {a : Str} (h : c ∈ a) : 0 < countByte c a := by
  simp only [countByte]
  apply List.length_pos_of_mem (a := c)
  simp [List.mem_filter, h]

theorem queryCut_spec (stuff : Str) (Q : Option Str) (hs : 0x3f ∉ stuff) :
    queryCut (stuff ++ queryPart Q) = (stuff, Q == some [], Q.getD []) := by
  cases Q with
  | none =>
    have hl : ¬ (stuff.getLast? = some 0x3f) := fun e => hs (List.mem_of_getLast? e)
    simp [queryCut, queryPart, hl, cut_none _ _ hs]
  | some q =>
    cases q with
    | nil =>
      have hc : countByte 0x3f (stuff ++ [0x3f]) = 1 := by
        rw [countByte_append, countByte_zero hs]; rfl
      simp [queryCut, queryPart, RdfModel.Spec.RFC3986.cQuest, hc]
    | cons c q =>
      have hcond : ¬ ((stuff ++ 0x3f :: c :: q).getLast? = some 0x3f ∧ countByte 0x3f (stuff ++ 0x3f :: c :: q) = 1) := by
        rintro ⟨hl, hc⟩
        have hl' : (c :: q).getLast? = some 0x3f := by
          simpa [List.getLast?_append, List.getLast?_cons_cons] using hl
        have hm : 0x3f ∈ (c :: q) := List.mem_of_getLast? hl'
        have hp := countByte_pos hm
        have : countByte 0x3f (stuff ++ 0x3f :: c :: q) = 0 + (1 + countByte 0x3f (c :: q)) := by
          rw [countByte_append, countByte_zero hs]
          show _ + countByte 0x3f ([0x3f] ++ c :: q) = _
          rw [countByte_append]; rfl
        omega
      have hq : queryPart (some (c :: q)) = 0x3f :: c :: q := rfl
      rw [hq]
      have hb : (List.getLast? (stuff ++ 0x3f :: c :: q) == some 0x3f && countByte 0x3f (stuff ++ 0x3f :: c :: q) == 1) = false := by
        cases hx : (List.getLast? (stuff ++ 0x3f :: c :: q) == some 0x3f && countByte 0x3f (stuff ++ 0x3f :: c :: q) == 1) with
        | false => rfl
        | true =>
          simp only [Bool.and_eq_true, beq_iff_eq] at hx
          exact absurd hx hcond
      unfold queryCut
      rw [hb]
      simp [cut_append_sep _ _ _ hs]

/-! ### the authority split -/

theorem authCut_spec (a path : Str) (ha : 0x2f ∉ a) (hp : path = [] ∨ path.head? = some 0x2f) :
    authCut (a ++ path) = (a, path) := by
  rcases hp with hp | hp
  · subst hp
    simp [authCut, indexOf_none _ _ ha]
  · cases path with
    | nil => simp at hp
    | cons c p =>
      simp only [List.head?_cons, Option.some.injEq] at hp
      subst hp
      simp [authCut, indexOf_append_sep _ _ _ ha]

end RdfModel.C12W
