/-
  Props.C11RaCompose — the model of the Go RDFa decoder against the fragment DENOTATION (Spec.Rdfa.procNode), composed with
  `C11.rdfa_canonical_block`, for the canonical one-element blocks of the RDFa writer (what `Spec.Rdfa.write` falls back to and,
  with no block choices, what the whole body of its document consists of).

  Bridge.  `nodeOfSpan` turns an abstract `<span>` leaf of Spec/HtmlTree into the DOM element the model walks: element node,
  DataAtom `span`, the RDFa attributes that are present in the fixed order about, property, rel, resource, content, datatype,
  lang (attribute ORDER is immaterial to the Go decoder — tied by T3, not proved), no children.  Strings are the same `List Nat`
  on both sides: exact for ASCII text; for other text the DOM carries UTF-8 bytes where the abstract tree has code points, and
  both sides only concatenate / compare the values on this fragment apart from whitespace splitting of the predicate.
  `stmtOfTr` reads a triple of the denotation (blank nodes `BId`) as a model statement when it has no blank node.

  Statement shape: under the hypotheses of `C11.rdfa_canonical_block` on the denotation side and the text-level hypotheses on the
  model side (subject an absolute IRI whose scheme is no prefix in scope, a one-token predicate denoting itself), the model's
  walk of the bridged block appends exactly the triples the denotation gives for the block.
  NOT covered: blank-node subjects/objects, typed literals, the html/head/body skeleton and hence the document-level composition
  with `C11.rdfa_roundtrip`; the relation between the two contexts is by hypotheses on each side, not by a simulation relation.
-/
import RdfModel.Props.C11
import RdfModel.Props.C11Ra
namespace RdfModel.C11Ra
open RdfModel RdfModel.Rdfad RdfModel.Desc
open RdfModel.Mdd (Node Attr Bytes Subj fields trimSpace)

def optAttr (k : String) (v : Option (List Nat)) : List Attr :=
  match v with
  | some x => [⟨[], asc k, x⟩]
  | none => []

def attrList (a : Spec.Html.Attrs) : List Attr :=
  optAttr "about" a.about ++ optAttr "property" a.property ++ optAttr "rel" a.rel ++ optAttr "resource" a.resource ++
    optAttr "content" a.content ++ optAttr "datatype" a.datatype ++ optAttr "lang" a.lang

def nodeOfSpan (i : Nat) : Spec.Html.Tree → Option Node
  | .elem .span a [] => some (.mk i 3 [] (asc "span") [] (attrList a) [])
  | _ => none

def subjOfT : Spec.Rdfa.T → Option Subj
  | .iri v => some (.iri v)
  | _ => none

def objOfT : Spec.Rdfa.T → Option Obj
  | .iri v => some (.iri v)
  | .lit l d t => some (.lit l d t)
  | .bnode _ => none

def stmtOfTr (t : Spec.Rdfa.Tr) : Option Stmt :=
  match subjOfT t.s, objOfT t.o with
  | some s, some o => some ⟨s, t.p, o⟩
  | _, _ => none

variable {β : Type}

/-- literal canonical block (plain or language-tagged literal): model = denotation -/
theorem rdfa_canonical_literal_refines_denote (lbl : β → Spec.Html.Str) (C : Spec.Rdfa.Ctx) (n : Nat)
    (si pi lex : List Nat) (lang : Option (List Nat))
    (hCinc : C.incomplete = [])
    (hCs : Spec.Rdfa.okRes C.env (Term.iri si : Term β) = true) (hCp : Spec.Rdfa.okPred C.env pi = true)
    (hCo : Spec.Rdfa.okObj C.env (Term.lit lex (if lang.isSome then rdfLangString else xsdString) lang : Term β) = true)
    (E : Env) (cfg : Cfg) (ctx : Ctx) (st : St) (i : Nat)
    (hbad : st.bad = none) (hinc : ctx.incomplete = []) (hmap : st.getMap ctx.listMapping = [])
    (hs : absRef ctx.prefixes si = true) (hp : predIRI ctx.prefixes pi = some pi) :
    let t : Triple β := ⟨.iri si, pi, .lit lex (if lang.isSome then rdfLangString else xsdString) lang⟩
    ∃ nd, nodeOfSpan i (Spec.Rdfa.canon lbl t) = some nd ∧
      (walk E cfg false ctx st nd).bad = none ∧
      (walk E cfg false ctx st nd).out.map some =
        st.out.map some ++ (Spec.Rdfa.procNode C [] n (Spec.Rdfa.canon lbl t)).out.map stmtOfTr := by
  intro t
  have hspec := C11.rdfa_canonical_block lbl C n t hCinc hCs hCp hCo
  have hnode : nodeOfSpan i (Spec.Rdfa.canon lbl t) = some (litBlock i si pi lex (lang.getD [])) := by
    cases lang <;> simp [t, Spec.Rdfa.canon, Spec.Rdfa.refOf, nodeOfSpan, attrList, optAttr, litBlock]
  have href : refIRI ctx.prefixes si = some si := by simp [refIRI, hs]
  have hm := rdfa_refines_denote_literal_text_partial E cfg ctx st i si pi lex (lang.getD []) si pi hbad hinc hmap href hp
  refine ⟨_, hnode, hm.1, ?_⟩
  rw [hm.2, hspec]
  cases lang with
  | none => simp [t, Triple.map, Term.map, stmtOfTr, subjOfT, objOfT, plainLit]
  | some l =>
    have hl : l ≠ [] := by
      simp [Spec.Rdfa.okObj] at hCo
      intro h0; simp [h0] at hCo
    simp [t, Triple.map, Term.map, stmtOfTr, subjOfT, objOfT, plainLit, hl]

/-- resource canonical block (IRI object): model = denotation -/
theorem rdfa_canonical_resource_refines_denote (lbl : β → Spec.Html.Str) (C : Spec.Rdfa.Ctx) (n : Nat) (si pi oi : List Nat)
    (hCinc : C.incomplete = [])
    (hCs : Spec.Rdfa.okRes C.env (Term.iri si : Term β) = true) (hCp : Spec.Rdfa.okPred C.env pi = true)
    (hCo : Spec.Rdfa.okObj C.env (Term.iri oi : Term β) = true)
    (E : Env) (cfg : Cfg) (ctx : Ctx) (st : St) (i : Nat)
    (hbad : st.bad = none) (hinc : ctx.incomplete = []) (hmap : st.getMap ctx.listMapping = [])
    (hs : absRef ctx.prefixes si = true) (ho : absRef ctx.prefixes oi = true) (hp : predIRI ctx.prefixes pi = some pi) :
    let t : Triple β := ⟨.iri si, pi, .iri oi⟩
    ∃ nd, nodeOfSpan i (Spec.Rdfa.canon lbl t) = some nd ∧
      (walk E cfg false ctx st nd).bad = none ∧
      (walk E cfg false ctx st nd).out.map some =
        st.out.map some ++ (Spec.Rdfa.procNode C [] n (Spec.Rdfa.canon lbl t)).out.map stmtOfTr := by
  intro t
  have hspec := C11.rdfa_canonical_block lbl C n t hCinc hCs hCp hCo
  have hnode : nodeOfSpan i (Spec.Rdfa.canon lbl t) = some (resBlock i si pi oi) := by
    simp [t, Spec.Rdfa.canon, Spec.Rdfa.refOf, nodeOfSpan, attrList, optAttr, resBlock]
  have hm := rdfa_refines_denote_resource_text_partial E cfg ctx st i si pi oi si oi pi hbad hinc hmap
    (by simp [refIRI, hs]) (by simp [refIRI, ho]) hp
  refine ⟨_, hnode, hm.1, ?_⟩
  rw [hm.2, hspec]
  simp [t, Triple.map, Term.map, stmtOfTr, subjOfT, objOfT]

/-- the hypotheses of both composed theorems hold for ordinary values: subject `http://a.example/x`, predicate
    `http://v.example/p`, object `http://b.example/y`, in the body context of a document at `http://ex.org/d` with no prefixes,
    and in a model context with the same base under the document's subject -/
example :
    let C := Spec.Rdfa.bodyCtx (asc "http://ex.org/d") [] [] {}
    let si := asc "http://a.example/x"; let pi := asc "http://v.example/p"; let oi := asc "http://b.example/y"
    C.incomplete = [] ∧ Spec.Rdfa.okRes C.env (Term.iri si : Term Nat) = true ∧ Spec.Rdfa.okPred C.env pi = true ∧
    Spec.Rdfa.okObj C.env (Term.iri oi : Term Nat) = true ∧
    Spec.Rdfa.okObj C.env (Term.lit (asc "x") rdfLangString (some (asc "en")) : Term Nat) = true ∧
    absRef [] si = true ∧ absRef [] oi = true ∧ predIRI [] pi = some pi := by decide

end RdfModel.C11Ra
