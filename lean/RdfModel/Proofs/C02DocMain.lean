/-
  Proofs.C02DocMain — `plain_doc_roundtrip`: the whole document of a plain (AddTriple) encoder run is
  accepted by the Turtle statement machine and yields the input triples (sorted mode: a permutation).
-/
import RdfModel.Proofs.C02DocPlain
import RdfModel.Proofs.TtlDocReal
import RdfModel.Props.C13
namespace RdfModel.Proofs.C02Doc
open RdfModel RdfModel.Ttl RdfModel.TtlEnc RdfModel.C02 RdfModel.TtlDoc RdfModel.Desc

variable {C : Cfg} {T : Tables}

/-! ### sorting -/

theorem insertBy_perm {α : Type} (le : α → α → Bool) (a : α) : ∀ l : List α, (insertBy le a l).Perm (a :: l)
  | [] => List.Perm.refl _
  | x :: xs => by
    unfold insertBy
    split
    · exact List.Perm.refl _
    · exact (List.Perm.cons x (insertBy_perm le a xs)).trans (List.Perm.swap a x xs)

theorem isortBy_perm {α : Type} (le : α → α → Bool) : ∀ l : List α, (isortBy le l).Perm l
  | [] => List.Perm.refl _
  | x :: xs => (insertBy_perm le x (isortBy le xs)).trans (List.Perm.cons x (isortBy_perm le xs))

theorem insertBy_map {α γ : Type} (le : γ → γ → Bool) (g : α → γ) (a : α) : ∀ l : List α,
    insertBy le (g a) (l.map g) = (insertBy (fun x y => le (g x) (g y)) a l).map g
  | [] => rfl
  | x :: xs => by
    simp only [List.map_cons, insertBy]
    split
    · rfl
    · simp [insertBy_map le g a xs]

theorem isortBy_map {α γ : Type} (le : γ → γ → Bool) (g : α → γ) : ∀ l : List α,
    isortBy le (l.map g) = (isortBy (fun x y => le (g x) (g y)) l).map g
  | [] => rfl
  | x :: xs => by
    simp only [List.map_cons, isortBy]
    rw [isortBy_map le g xs, insertBy_map]

theorem mem_dedup {x : List Nat} : ∀ {l : List (List Nat)}, x ∈ dedup l ↔ x ∈ l
  | [] => by simp [dedup]
  | y :: ys => by
    unfold dedup
    split
    · next hy =>
      rw [mem_dedup (l := ys)]
      constructor
      · exact fun h => List.mem_cons_of_mem _ h
      · intro h
        rcases List.mem_cons.mp h with rfl | h
        · exact hy
        · exact h
    · simp [mem_dedup (l := ys)]

theorem nodup_dedup : ∀ l : List (List Nat), (dedup l).Nodup
  | [] => by simp [dedup]
  | y :: ys => by
    unfold dedup
    split
    · exact nodup_dedup ys
    · next hy =>
      refine List.nodup_cons.mpr ⟨?_, nodup_dedup ys⟩
      rw [mem_dedup]; exact hy

/-! ### the encoder does not fail on well-formed triples -/

variable {β : Type} {c : Ctx β} {base : Option (List Nat)}

theorem writeIRI_isOk (S : Setup C T c base) (v : List Nat) : ∃ t, writeIRI c v = .ok t := by
  unfold writeIRI Res.map Res.bind writeIRIForm
  cases compactLocal c.T c.pm v with
  | some x => obtain ⟨p, loc, out⟩ := x; exact ⟨_, rfl⟩
  | none =>
    simp only
    rw [S.cb]
    cases hb : base with
    | none => exact ⟨_, rfl⟩
    | some b =>
      simp only [Option.map_some]
      have hnp := C13.relativize_no_panic b v (S.baseOK b hb).2.2.2.1
      unfold Prefix.relativize at hnp
      cases hr : Prefix.relativizeB (Prefix.newBaseIRI b) v with
      | panic => exact absurd hr hnp
      | none => exact ⟨_, rfl⟩
      | some r => exact ⟨_, rfl⟩

theorem tripleSection_isOk (S : Setup C T c base) (t : Triple β) (ht : TripleOK c base t) :
    ∃ sec, tripleSection c t = .ok sec := by
  have hs : ∃ x, writeSubject c t.s = .ok x := by
    cases hts : t.s with
    | iri v => exact writeIRI_isOk S v
    | bnode b => exact ⟨_, rfl⟩
    | lit l d g => have := ht.s; rw [hts] at this; exact absurd this (by simp [subjectOK])
  have hp : ∃ x, writePredicate c t.p = .ok x := by
    unfold writePredicate
    split
    · exact ⟨_, rfl⟩
    · exact writeIRI_isOk S t.p
  have ho : ∃ x, writeObject c t.o = .ok x := by
    cases t.o with
    | iri v => exact writeIRI_isOk S v
    | bnode b => exact ⟨_, rfl⟩
    | lit lex dt lang =>
      simp only [writeObject]
      split
      · exact ⟨_, rfl⟩
      · split
        · exact ⟨_, rfl⟩
        · split
          · exact ⟨_, rfl⟩
          · obtain ⟨d, hd⟩ := writeIRI_isOk S dt
            exact ⟨formatLiteralLexicalForm c.T false lex ++ 0x5e :: 0x5e :: d, by simp [hd, Res.map, Res.bind]⟩
  obtain ⟨a, ha⟩ := hs
  obtain ⟨b, hb⟩ := hp
  obtain ⟨d, hd⟩ := ho
  exact ⟨a ++ sp :: (b ++ sp :: (d ++ [sp, 0x2e, nl])), by simp [tripleSection, Res.bind, ha, hb, hd]⟩

/-- the section text as a total function (only used where the encoder does not fail) -/
def secOf (c : Ctx β) (t : Triple β) : List Nat :=
  match tripleSection c t with
  | .ok s => s
  | _ => []

theorem mapRes_sections (S : Setup C T c base) : ∀ (ts : List (Triple β)), (∀ t ∈ ts, TripleOK c base t) →
    mapRes (tripleSection c) ts = .ok (ts.map (secOf c))
  | [], _ => rfl
  | t :: ts, h => by
    obtain ⟨sec, hsec⟩ := tripleSection_isOk S t (h t List.mem_cons_self)
    have ih := mapRes_sections S ts (fun t' ht' => h t' (List.mem_cons_of_mem _ ht'))
    simp [mapRes, Res.bind, hsec, ih, secOf]


/-! ### from `Run` to `run` -/

theorem consumes_of (hT : DocTablesOK T) (hC : CfgOK C T) : C.P.Consumes := by
  rw [hC.prod]
  apply real_consumes
  cases h : inRanges T.pnCharsBase 0 with
  | false => rfl
  | true => have := hT.base_ascii 0 (by decide) h; revert this; decide

/-- a document = header ++ sections: if the machine gets through the header into an environment that
    agrees with the encoder's, it yields the triples of the sections -/
theorem run_doc (S : Setup C T c base) (b0 : Option (List Nat)) (p0 : List (List Nat × List Nat)) (H : List Nat)
    (ts : List (Triple β)) (hts : ∀ t ∈ ts, TripleOK c base t) (D : List Nat → Prop)
    (hD : ∀ t ∈ ts, ∀ l ∈ usedOfTriple c.pm t, D l)
    (hH : ∀ rest, ∃ K' k' env', Run C .eof (mk [⟨{}, .statement⟩] (H ++ rest) ⟨b0, p0, 0⟩) []
        (mk (⟨{}, .statement⟩ :: K') (List.replicate k' 0x0a ++ rest) env') ∧ EnvOK env' base c.pm D) :
    run C .eof b0 p0 (H ++ (ts.map (secOf c)).flatten) = (ts.map (stmtOf c.label), .clean) := by
  obtain ⟨K', k', env', r1, henv⟩ := hH (ts.map (secOf c)).flatten
  have r2 := run_triples (C := C) S env' henv ts (ts.map (secOf c)) hts hD (mapRes_sections S ts hts) K' k'
  have r := r1.trans r2
  have hinit : init b0 p0 (H ++ (ts.map (secOf c)).flatten) =
      mk [⟨{}, .statement⟩] (H ++ (ts.map (secOf c)).flatten) ⟨b0, p0, 0⟩ := rfl
  rw [← hinit] at r
  simpa using run_of_Run (consumes_of S.hT S.hC) b0 p0 _ r ⟨rfl, rfl, rfl⟩

/-! ### the headers -/

theorem lookup_map_nodup : ∀ (ms : List Prefix.Mapping), (ms.map (·.pfx)).Nodup → ∀ m ∈ ms,
    lookupPfx m.pfx (ms.map (fun m => (m.pfx, m.expanded))) = some m.expanded
  | [], _, m, hm => by cases hm
  | m' :: ms, hnd, m, hm => by
    simp only [List.map_cons, List.nodup_cons] at hnd
    simp only [List.map_cons, lookupPfx]
    rcases List.mem_cons.mp hm with rfl | hm'
    · simp
    · have hne : m'.pfx ≠ m.pfx := by
        intro h
        exact hnd.1 (by rw [h]; exact List.mem_map_of_mem hm')
      rw [if_neg hne]
      exact lookup_map_nodup ms hnd.2 m hm'

theorem usedMappings_mem {pm : Prefix.PM} {used : List (List Nat)} {m : Prefix.Mapping} :
    m ∈ usedMappings pm used ↔ m.pfx ∈ used ∧ pm.byPrefix.get m.pfx = some m.expanded := by
  simp only [usedMappings, List.mem_filterMap, Option.map_eq_some_iff]
  constructor
  · rintro ⟨l, hl, e', he', rfl⟩
    have hl' : l ∈ used := mem_dedup.mp ((isortBy_perm strLe _).mem_iff.mp hl)
    refine ⟨hl', ?_⟩
    unfold Prefix.expand at he'
    simp only at he'
    cases hg : pm.byPrefix.get l with
    | none => rw [hg] at he'; cases he'
    | some x => rw [hg] at he'; injection he' with he'; subst he'; simp
  · rintro ⟨h1, h2⟩
    refine ⟨m.pfx, (isortBy_perm strLe _).mem_iff.mpr (mem_dedup.mpr h1), m.expanded, ?_, rfl⟩
    unfold Prefix.expand
    simp [h2]

theorem filterMap_pfx_sublist (f : List Nat → Option Prefix.Mapping) (hf : ∀ l m, f l = some m → m.pfx = l) :
    ∀ L : List (List Nat), ((L.filterMap f).map (·.pfx)).Sublist L
  | [] => List.Sublist.slnil
  | l :: L => by
    simp only [List.filterMap_cons]
    cases h : f l with
    | none => exact (filterMap_pfx_sublist f hf L).cons l
    | some m =>
      simp only [List.map_cons]
      rw [hf l m h]
      exact (filterMap_pfx_sublist f hf L).cons₂ l

theorem usedMappings_nodup (pm : Prefix.PM) (used : List (List Nat)) : ((usedMappings pm used).map (·.pfx)).Nodup := by
  unfold usedMappings
  apply List.Nodup.sublist (filterMap_pfx_sublist _ _ _)
  · exact (isortBy_perm strLe _).nodup_iff.mpr (nodup_dedup used)
  · intro l m h
    simp only [Option.map_eq_some_iff] at h
    obtain ⟨e, _, rfl⟩ := h
    rfl

variable {cfg : Config} {pm : Prefix.PM} {label : β → List Nat}

theorem setup_of (hT : DocTablesOK T) (hC : CfgOK C T) (hcfg : ConfigOK C.isSpace T cfg pm) (hlbl : LabelOK T label) :
    Setup C T (ctxOf T cfg pm label) cfg.base :=
  { hT := hT, hC := hC, cT := rfl, cb := rfl, baseOK := hcfg.base, labels := hcfg.labels, lbl := hlbl }

/-- facts about the base used over and over -/
theorem base_facts (hC : CfgOK C T) (hcfg : ConfigOK C.isSpace T cfg pm) :
    iriOK cfg.baseStr = true ∧ (cfg.base = none → cfg.baseStr = []) ∧
    (∀ b, cfg.base = some b → cfg.baseStr = b ∧ b.isEmpty = false ∧ C.resolve (some b) b = some b) := by
  refine ⟨?_, ?_, ?_⟩
  · cases hb : cfg.base with
    | none => simp [Config.baseStr, hb, iriOK]
    | some b => simpa [Config.baseStr, hb] using (hcfg.base b hb).1
  · intro hb; simp [Config.baseStr, hb]
  · intro b hb
    have hok := hcfg.base b hb
    refine ⟨by simp [Config.baseStr, hb], ?_, ?_⟩
    · cases b with
      | nil => exact absurd rfl hok.2.1
      | cons _ _ => rfl
    · rw [hC.res_some, hok.2.2.2.2]

theorem ns_resolve (hC : CfgOK C T) (hcfg : ConfigOK C.isSpace T cfg pm) (m : Prefix.Mapping) (hm : m ∈ pm.ordered) :
    C.resolve cfg.base m.expanded = some m.expanded := by
  have := (hcfg.ns m hm).2
  cases hb : cfg.base with
  | none => exact hC.res_none _
  | some b =>
    rw [hb] at this
    simp only [stableUnder, beq_iff_eq] at this
    rw [hC.res_some, this]

/-- the header of an unbuffered encoder is read into the encoder's environment -/
theorem header_unbuffered_ok (hT : DocTablesOK T) (hC : CfgOK C T) (hcfg : ConfigOK C.isSpace T cfg pm) (rest : List Nat) :
    ∃ K' k' env', Run C .eof (mk [⟨{}, .statement⟩] (headerUnbuffered cfg pm ++ rest)
        ⟨defaultBase cfg, defaultPrefixes cfg pm, 0⟩) []
        (mk (⟨{}, .statement⟩ :: K') (List.replicate k' 0x0a ++ rest) env') ∧ EnvOK env' cfg.base pm (fun _ => True) := by
  obtain ⟨hbi, hbn, hbs⟩ := base_facts hC hcfg
  have hdb : (defaultBase cfg = none ∨ defaultBase cfg = cfg.base) := by
    unfold defaultBase; split
    · exact Or.inr rfl
    · exact Or.inl rfl
  unfold headerUnbuffered
  split
  · -- header written
    have hperm := isortBy_perm (fun a b : Prefix.Mapping => strLe a.pfx b.pfx) pm.ordered
    have hres0 : C.resolve (defaultBase cfg) cfg.baseStr = some cfg.baseStr := by
      rcases hdb with h | h
      · rw [h]; exact hC.res_none _
      · rw [h]
        cases hb : cfg.base with
        | none => exact hC.res_none _
        | some b => rw [(hbs b hb).1]; exact (hbs b hb).2.2
    have hbase' : (baseAfter .at cfg.baseStr ⟨defaultBase cfg, defaultPrefixes cfg pm, 0⟩).base = cfg.base := by
      unfold baseAfter
      cases hb : cfg.base with
      | none =>
        have : defaultBase cfg = none := by rcases hdb with h | h <;> simp [h, hb]
        simp [hbn hb, this]
      | some b => simp [(hbs b hb).1, (hbs b hb).2.1]
    obtain ⟨K', k', r⟩ := run_header (e := .eof) hT hC {} [] ⟨defaultBase cfg, defaultPrefixes cfg pm, 0⟩ cfg.baseStr .at
      (sortMappings (Prefix.getMappings pm)) .at rest hbi hres0
      (fun _ m hm => by
        have hm' : m ∈ pm.ordered := hperm.mem_iff.mp hm
        refine ⟨hcfg.labels m hm', (hcfg.ns m hm').1, ?_⟩
        rw [hbase']; exact ns_resolve hC hcfg m hm')
    refine ⟨K', k', _, r, ?_⟩
    simp only [show (DirMode.at = DirMode.disabled) = False by simp, ↓reduceIte]
    refine ⟨by rw [addAll_base, hbase'], fun m hm _ => ?_⟩
    apply lookup_addAll_mem
    · exact (hperm.map _).nodup_iff.mpr hcfg.agree.nodup
    · exact hperm.mem_iff.mpr hm
  · next hcond =>
    simp only [Bool.or_eq_true, Option.isSome_iff_ne_none, ne_eq, Bool.not_eq_true', not_or, Decidable.not_not,
      Bool.not_eq_false] at hcond
    have hbn' : cfg.base = none := hcond.1
    have hpe : cfg.prefixes = [] := by simpa using hcond.2
    refine ⟨[], 0, _, by simpa using Run.refl _, ?_, ?_⟩
    · rcases hdb with h | h <;> simp [h, hbn']
    · intro m hm; rw [hcfg.empty hpe] at hm; cases hm


/-- the header of a buffered encoder (only the used prefixes; directive styles as configured; nothing
    at all for a disabled kind, which the decoder gets as default instead) -/
theorem header_buffered_ok (hT : DocTablesOK T) (hC : CfgOK C T) (hcfg : ConfigOK C.isSpace T cfg pm)
    (used : List (List Nat)) (rest : List Nat) :
    ∃ K' k' env', Run C .eof (mk [⟨{}, .statement⟩] (headerBuffered cfg pm used ++ rest)
        ⟨defaultBase cfg, defaultPrefixes cfg pm, 0⟩) []
        (mk (⟨{}, .statement⟩ :: K') (List.replicate k' 0x0a ++ rest) env') ∧
      EnvOK env' cfg.base pm (fun l => l ∈ used) := by
  obtain ⟨hbi, hbn, hbs⟩ := base_facts hC hcfg
  unfold headerBuffered
  split
  · -- header written
    have hres0 : C.resolve (defaultBase cfg) cfg.baseStr = some cfg.baseStr := by
      unfold defaultBase
      split
      · cases hb : cfg.base with
        | none => exact hC.res_none _
        | some b => rw [(hbs b hb).1]; exact (hbs b hb).2.2
      · exact hC.res_none _
    have hbase' : (baseAfter (cfg.baseMode.getD .at) cfg.baseStr ⟨defaultBase cfg, defaultPrefixes cfg pm, 0⟩).base
        = cfg.base := by
      unfold baseAfter defaultBase
      cases hb : cfg.base with
      | none => simp [hbn hb]
      | some b =>
        cases hm : cfg.baseMode with
        | none => simp [(hbs b hb).1, (hbs b hb).2.1]
        | some mo => cases mo <;> simp [(hbs b hb).1, (hbs b hb).2.1]
    have hmem : ∀ m ∈ usedMappings pm used, m ∈ pm.ordered := fun m hm =>
      (hcfg.agree.agree m).mpr (usedMappings_mem.mp hm).2
    obtain ⟨K', k', r⟩ := run_header (e := .eof) hT hC {} [] ⟨defaultBase cfg, defaultPrefixes cfg pm, 0⟩ cfg.baseStr
      (cfg.baseMode.getD .at) (usedMappings pm used) (cfg.prefixMode.getD .at) rest hbi hres0
      (fun _ m hm => by
        refine ⟨hcfg.labels m (hmem m hm), (hcfg.ns m (hmem m hm)).1, ?_⟩
        rw [hbase']; exact ns_resolve hC hcfg m (hmem m hm))
    refine ⟨K', k', _, r, ?_⟩
    split
    · next hdis =>
      refine ⟨hbase', fun m hm _ => ?_⟩
      have hpm : cfg.prefixMode = some .disabled := by
        cases h : cfg.prefixMode with
        | none => rw [h] at hdis; cases hdis
        | some mo => rw [h] at hdis; simp only [Option.getD_some] at hdis; rw [hdis]
      have : (baseAfter (cfg.baseMode.getD .at) cfg.baseStr ⟨defaultBase cfg, defaultPrefixes cfg pm, 0⟩).prefixes =
          pm.ordered.map (fun m => (m.pfx, m.expanded)) := by
        unfold baseAfter
        split <;> simp [defaultPrefixes, hpm]
      rw [this]
      exact lookup_map_nodup pm.ordered hcfg.agree.nodup m hm
    · refine ⟨by rw [addAll_base, hbase'], fun m hm hu => ?_⟩
      apply lookup_addAll_mem _ _ (usedMappings_nodup pm used)
      exact usedMappings_mem.mpr ⟨hu, (hcfg.agree.agree m).mp hm⟩
  · next hcond =>
    simp only [Bool.or_eq_true, Option.isSome_iff_ne_none, ne_eq, Bool.not_eq_true', not_or, Decidable.not_not,
      Bool.not_eq_false, List.isEmpty_iff] at hcond
    have hbn' : cfg.base = none := hcond.1
    have hu : ∀ l, l ∉ used := by
      intro l hl
      have := mem_dedup.mpr hl
      rw [hcond.2] at this
      cases this
    refine ⟨[], 0, _, by simpa using Run.refl _, ?_, ?_⟩
    · unfold defaultBase; split <;> simp [hbn']
    · intro m _ hl; exact absurd hl (hu _)

/-! ### `plain_doc_roundtrip` -/

/-- C02, plain-triple mode, every configuration: the encoder does not fail, and the document it writes
    is accepted by the Turtle decoder (given base / prefixes as defaults exactly for the directive
    kinds that were disabled) and decodes to the input triples — in input order, or, with sorted
    sections, in the order `ts'` of the sorted sections — with blank node `b` read back as the node
    labelled `label b`. -/
theorem plain_roundtrip (hT : DocTablesOK T) (hC : CfgOK C T) (hcfg : ConfigOK C.isSpace T cfg pm)
    (hlbl : LabelOK T label) (ts : List (Triple β))
    (hts : ∀ t ∈ ts, TripleOK (ctxOf T cfg pm label) cfg.base t) :
    ∃ (doc : List Nat) (ts' : List (Triple β)), encodePlainWith T cfg pm label ts = .ok doc ∧ ts'.Perm ts ∧
      run C .eof (defaultBase cfg) (defaultPrefixes cfg pm) doc = (ts'.map (stmtOf label), .clean) := by
  have S := setup_of hT hC hcfg hlbl
  have henc : encodePlainWith T cfg pm label ts =
      .ok (document cfg pm (ts.map (secOf (ctxOf T cfg pm label))) (ts.flatMap (usedOfTriple pm))) := by
    unfold encodePlainWith
    rw [mapRes_sections S ts hts]
    rfl
  rw [henc]
  unfold document
  by_cases hbuf : cfg.isBuffered = true
  · simp only [hbuf, Bool.not_true, Bool.false_eq_true, ↓reduceIte]
    cases ts with
    | nil =>
      refine ⟨_, [], rfl, List.Perm.refl _, ?_⟩
      simp only [List.map_nil, List.isEmpty_nil, ↓reduceIte]
      have r := run_eof (C := C) {} [] 0 ⟨defaultBase cfg, defaultPrefixes cfg pm, 0⟩
      simpa using run_of_Run (consumes_of hT hC) (defaultBase cfg) (defaultPrefixes cfg pm) [] r ⟨rfl, rfl, rfl⟩
    | cons t0 ts0 =>
      simp only [List.map_cons, List.isEmpty_cons, Bool.false_eq_true, ↓reduceIte]
      -- the order of the sections
      let le' : Triple β → Triple β → Bool := fun a b =>
        strLe (secOf (ctxOf T cfg pm label) a) (secOf (ctxOf T cfg pm label) b)
      let ts' : List (Triple β) := if cfg.isSorted then isortBy le' (t0 :: ts0) else t0 :: ts0
      have hperm : ts'.Perm (t0 :: ts0) := by
        show (if cfg.isSorted then isortBy le' (t0 :: ts0) else t0 :: ts0).Perm (t0 :: ts0)
        split
        · exact isortBy_perm le' _
        · exact List.Perm.refl _
      have hsecs : (if cfg.isSorted = true then
          sortStrs (secOf (ctxOf T cfg pm label) t0 :: ts0.map (secOf (ctxOf T cfg pm label)))
          else secOf (ctxOf T cfg pm label) t0 :: ts0.map (secOf (ctxOf T cfg pm label))) =
          ts'.map (secOf (ctxOf T cfg pm label)) := by
        show _ = (if cfg.isSorted then isortBy le' (t0 :: ts0) else t0 :: ts0).map _
        split
        · rw [← List.map_cons, sortStrs, isortBy_map]
        · rfl
      rw [hsecs]
      refine ⟨_, ts', rfl, hperm, ?_⟩
      have hts' : ∀ t ∈ ts', TripleOK (ctxOf T cfg pm label) cfg.base t := fun t ht => hts t (hperm.mem_iff.mp ht)
      have hD : ∀ t ∈ ts', ∀ l ∈ usedOfTriple (ctxOf T cfg pm label).pm t,
          l ∈ (t0 :: ts0).flatMap (usedOfTriple pm) := by
        intro t ht l hl
        exact List.mem_flatMap.mpr ⟨t, hperm.mem_iff.mp ht, hl⟩
      exact run_doc S (defaultBase cfg) (defaultPrefixes cfg pm) _ ts' hts' _ hD
        (fun rest => header_buffered_ok hT hC hcfg _ rest)
  · simp only [hbuf, Bool.not_false, ↓reduceIte]
    refine ⟨_, ts, rfl, List.Perm.refl _, ?_⟩
    exact run_doc S (defaultBase cfg) (defaultPrefixes cfg pm) _ ts hts (fun _ => True) (fun _ _ _ _ => trivial)
      (fun rest => header_unbuffered_ok hT hC hcfg rest)

end RdfModel.Proofs.C02Doc
