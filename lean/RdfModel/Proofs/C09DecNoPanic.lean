/-
  Helper lemmas for Props/C09Dec.lean, part 1: no piece of the decoder model reaches `panic`
  (for every stack and state — no invariant is needed), provided `Base.Parse("")` cannot fail.
-/
import RdfModel.Model.RdfXmlDecoder
namespace RdfModel.RXD
open RdfModel RdfModel.Desc RdfModel.RX

/-- `(*iri.ParsedIRI).Parse("")` never fails (`url.Parse("")` succeeds) -/
def Params.EmptyRefOK (P : Params) : Prop := ∀ b, P.resolve b [] ≠ none

variable {P : Params}

theorem resolveIRI_np (h : P.EmptyRefOK) (ctx : Ctx) (v : Str) : ∃ r, resolveIRI P ctx v = .ok r := by
  unfold resolveIRI
  split
  · exact ⟨_, rfl⟩
  · rename_i b _
    split
    · have := h b
      split
      · contradiction
      · exact ⟨_, rfl⟩
    · split <;> exact ⟨_, rfl⟩

theorem commonLoop_np (h : P.EmptyRefOK) (as : List Attr) (ctx : Ctx) (ra oa : List Attr) (st : St) :
    commonLoop P as ctx ra oa st ≠ .panic := by
  induction as generalizing ctx ra oa st with
  | nil => simp [commonLoop]
  | cons a rest ih =>
    unfold commonLoop
    obtain ⟨r, hr⟩ := resolveIRI_np h ctx a.val
    simp only [hr]
    repeat' split
    all_goals first | exact ih _ _ _ _ | simp

theorem processCommonAttr_np (h : P.EmptyRefOK) (ctx : Ctx) (as : List Attr) (st : St) :
    processCommonAttr P ctx as st ≠ .panic := commonLoop_np h _ _ _ _ _

theorem addReify_np (h : P.EmptyRefOK) (ctx : Ctx) (id : Str) (i : Nat) (st : St) (hi : i < st.out.length) :
    ∃ st1, addReify P ctx id i st = .ok () st1 ∧ st.out.length ≤ st1.out.length := by
  unfold addReify
  obtain ⟨r, hr⟩ := resolveIRI_np h ctx (cHash :: id)
  have : st.out[i]? = some st.out[i] := by simp [hi]
  simp only [this, hr]
  exact ⟨_, rfl, by simp only [List.length_cons]; omega⟩

theorem optReify_np (h : P.EmptyRefOK) (ctx : Ctx) (id : Option Str) (i : Nat) (st : St) (hi : i < st.out.length) :
    optReify P ctx id i st ≠ .panic := by
  cases id with
  | none => simp [optReify]
  | some v =>
    obtain ⟨st1, h1, _⟩ := addReify_np h ctx v i st hi
    simp [optReify, h1]

theorem reifyEachID_np (h : P.EmptyRefOK) (ctx : Ctx) (as : List Attr) (st : St) (hi : 0 < st.out.length) :
    reifyEachID P ctx as st ≠ .panic := by
  induction as generalizing st with
  | nil => simp [reifyEachID]
  | cons a rest ih =>
    unfold reifyEachID
    split
    · obtain ⟨st1, h1, hl⟩ := addReify_np h ctx a.val 0 st hi
      simp only [h1]
      exact ih st1 (by omega)
    · exact ih st hi

theorem subjLoop_np (h : P.EmptyRefOK) (ctx : Ctx) (as : List Attr) (s : Option (Term BN)) (n : Nat) (st : St) :
    subjLoop P ctx as s n st ≠ .panic := by
  induction as generalizing s n st with
  | nil => simp [subjLoop]
  | cons a rest ih =>
    unfold subjLoop
    obtain ⟨r1, hr1⟩ := resolveIRI_np h ctx (cHash :: a.val)
    obtain ⟨r2, hr2⟩ := resolveIRI_np h ctx a.val
    simp only [hr1, hr2]
    repeat' split
    all_goals first | exact ih _ _ _ | simp

theorem nodeRdfLoop_np (h : P.EmptyRefOK) (ctx : Ctx) (s : Term BN) (as extra : List Attr) (st : St) :
    nodeRdfLoop P ctx s as extra st ≠ .panic := by
  induction as generalizing extra st with
  | nil => simp [nodeRdfLoop]
  | cons a rest ih =>
    unfold nodeRdfLoop
    obtain ⟨r2, hr2⟩ := resolveIRI_np h ctx a.val
    simp only [hr2]
    repeat' split
    all_goals first | exact ih _ _ | simp

theorem nodeEntry_np (h : P.EmptyRefOK) (ctx : Ctx) (ns name : Str) (as : List Attr) (st : St) :
    nodeEntry P ctx ns name as st ≠ .panic := by
  unfold nodeEntry
  cases hc : processCommonAttr P ctx as st with
  | panic => exact absurd hc (processCommonAttr_np h _ _ _)
  | fail e st1 => simp
  | ok c st1 =>
    simp only []
    cases hs : subjLoop P c.ctx c.rdfAttrs none 0 st1 with
    | panic => exact absurd hs (subjLoop_np h _ _ _ _ _)
    | fail e st2 => simp
    | ok r st2 =>
      simp only []
      split
      · simp
      · cases hn : nodeRdfLoop P c.ctx (subjOrFresh r.1 st2).1 c.rdfAttrs []
            (if ns = rdfNS ∧ name = n_Description then (subjOrFresh r.1 st2).2
             else (subjOrFresh r.1 st2).2.emit ⟨(subjOrFresh r.1 st2).1, rdfType, .iri (ns ++ name)⟩) with
        | panic => exact absurd hn (nodeRdfLoop_np h _ _ _ _ _)
        | fail e st5 => simp
        | ok extra st5 => simp

theorem datatypeLoop_np (h : P.EmptyRefOK) (ctx : Ctx) (as : List Attr) (dt : Option Str) (st : St) :
    datatypeLoop P ctx as dt st ≠ .panic := by
  induction as generalizing dt st with
  | nil => simp [datatypeLoop]
  | cons a rest ih =>
    unfold datatypeLoop
    obtain ⟨r2, hr2⟩ := resolveIRI_np h ctx a.val
    simp only [hr2]
    repeat' split
    all_goals first | exact ih _ _ | simp

theorem emptyAttrLoop_np (h : P.EmptyRefOK) (ctx : Ctx) (o : Term BN) (ho : (asSubject o).isSome) (as : List Attr) (st : St) :
    emptyAttrLoop P ctx o as st ≠ .panic := by
  induction as generalizing st with
  | nil => simp [emptyAttrLoop]
  | cons a rest ih =>
    unfold emptyAttrLoop
    obtain ⟨r2, hr2⟩ := resolveIRI_np h ctx a.val
    obtain ⟨s, hs⟩ := Option.isSome_iff_exists.mp ho
    simp only [hr2, hs]
    repeat' split
    all_goals first | exact ih _ | simp

theorem emptyObject_np (h : P.EmptyRefOK) (ctx : Ctx) (i : EInfo) (st : St) :
    (∃ e st1, emptyObject P ctx i st = .fail e st1) ∨
    (∃ o st1, emptyObject P ctx i st = .ok o st1 ∧ (asSubject o).isSome) := by
  unfold emptyObject
  cases i.resource with
  | some r =>
    obtain ⟨v, hv⟩ := resolveIRI_np h ctx r
    simp only [hv]
    exact .inr ⟨_, _, rfl, by simp [asSubject]⟩
  | none =>
    cases i.nodeID with
    | some n => exact .inr ⟨_, _, rfl, by simp [asSubject]⟩
    | none => exact .inr ⟨_, _, rfl, by simp [asSubject, St.fresh]⟩

theorem peltEnd_np (h : P.EmptyRefOK) (ctx : Ctx) (subj : Term BN) (pred : Str) (as : List Attr) (rdfID : Option Str)
    (found chars : Str) (st : St) : peltEnd P ctx subj pred as rdfID found chars st ≠ .panic := by
  unfold peltEnd
  by_cases hf : found ≠ []
  · rw [if_pos hf]; simp
  · rw [if_neg hf]
    cases hc : processCommonAttr P ctx as st with
    | panic => exact absurd hc (processCommonAttr_np h _ _ _)
    | fail e st1 => simp
    | ok c st1 =>
      by_cases hch : chars ≠ []
      · rw [if_pos hch]
        simp only []
        cases hd : datatypeLoop P c.ctx c.rdfAttrs none st1 with
        | panic => exact absurd hd (datatypeLoop_np h _ _ _ _)
        | fail e st2 => simp
        | ok dt st2 => exact optReify_np h _ _ _ _ (by simp [St.emit])
      · rw [if_neg hch]
        simp only []
        cases he : emptyLoop c.rdfAttrs {} with
        | none => simp
        | some i =>
          simp only []
          split
          · simp
          · split
            · exact optReify_np h _ _ _ _ (by simp [St.emit])
            · rcases emptyObject_np h c.ctx i st1 with ⟨e, st2, ho⟩ | ⟨o, st2, ho, hso⟩
              · simp [ho]
              · simp only [ho]
                cases hl : emptyAttrLoop P c.ctx o (c.rdfAttrs ++ c.others) st2 with
                | panic => exact absurd hl (emptyAttrLoop_np h _ _ hso _ _)
                | fail e st3 => simp
                | ok u st3 => exact optReify_np h _ _ _ _ (by simp [St.emit])

theorem peltEntry_np (h : P.EmptyRefOK) (ctx : Ctx) (subj : Term BN) (li : Nat) (ns name : Str) (as : List Attr) (st : St) :
    peltEntry P ctx subj li ns name as st ≠ .panic := by
  unfold peltEntry
  cases hi : peltAttrLoop as {} with
  | none => simp
  | some i =>
    simp only []
    cases hc : processCommonAttr P ctx as st with
    | panic => exact absurd hc (processCommonAttr_np h _ _ _)
    | fail e st1 => repeat' split <;> simp
    | ok c st1 =>
      simp only []
      split
      · simp
      · split
        · simp
        · split
          · cases hr : reifyEachID P c.ctx c.rdfAttrs
                (st1.fresh.2.emit ⟨subj, propPred ns name li, st1.fresh.1⟩) with
            | panic => exact absurd hr (reifyEachID_np h _ _ _ (by simp [St.emit]))
            | fail e st3 => simp
            | ok u st3 => simp
          · split <;> simp

theorem callNode_np (h : P.EmptyRefOK) (ctx : Ctx) (ns name : Str) (as : List Attr) (stk : List Frame) (st : St) :
    callNode P ctx ns name as stk st ≠ .panic := by
  unfold callNode
  cases hn : nodeEntry P ctx ns name as st with
  | panic => exact absurd hn (nodeEntry_np h _ _ _ _ _)
  | fail e st1 => simp
  | ok f st1 => simp

theorem nodeReturn_np (h : P.EmptyRefOK) (s : Term BN) (stk : List Frame) (st : St) :
    nodeReturn P s stk st ≠ .panic := by
  unfold nodeReturn
  split
  · rename_i ctx nctx subj pred attrs rdfID found chars child below
    cases hr : optReify P nctx rdfID 0 (st.emit ⟨subj, pred, s⟩) with
    | panic => exact absurd hr (optReify_np h _ _ _ _ (by simp [St.emit]))
    | fail e st1 => simp
    | ok u st1 => simp
  · rename_i ctx subj pred rdfID last below
    simp only []
    cases last with
    | none =>
      simp only []
      cases hr : optReify P ctx rdfID 1 ((st.fresh.2.emit ⟨subj, pred, st.fresh.1⟩).emit ⟨st.fresh.1, RX.rdfFirst, s⟩) with
      | panic => exact absurd hr (optReify_np h _ _ _ _ (by simp [St.emit]))
      | fail e st1 => simp
      | ok u st1 => simp
    | some l => simp
  · simp

theorem step_np (h : P.EmptyRefOK) (ctx0 : Ctx) (stk : List Frame) (st : St) (tok : Tok) :
    step P ctx0 stk st tok ≠ .panic := by
  cases stk with
  | nil =>
    cases tok with
    | start ns name attrs =>
      simp only [step]
      split
      · cases hc : processCommonAttr P ctx0 attrs st with
        | panic => exact absurd hc (processCommonAttr_np h _ _ _)
        | fail e st1 => simp
        | ok c st1 => simp only []; split <;> simp
      · exact callNode_np h _ _ _ _ _ _
    | _ => simp [step]
  | cons f below =>
    cases f with
    | rdf ctx =>
      cases tok with
      | start ns name attrs =>
        simp only [step]
        split
        · simp
        · exact callNode_np h _ _ _ _ _ _
      | _ => simp [step]
    | props ctx subj li ret =>
      cases tok with
      | start ns name attrs =>
        simp only [step]
        split
        · simp
        · cases hp : peltEntry P ctx subj li ns name attrs st with
          | panic => exact absurd hp (peltEntry_np h _ _ _ _ _ _ _)
          | fail e st1 => simp
          | ok r st1 => simp
      | end_ ns name =>
        simp only [step, propsReturn]
        cases ret with
        | resource => simp
        | node s => exact nodeReturn_np h _ _ _
      | _ => simp [step]
    | pelt ctx nctx subj pred attrs rdfID found chars child =>
      cases tok with
      | start ns name cattrs =>
        simp only [step]
        split
        · simp
        · split
          · simp
          · exact callNode_np h _ _ _ _ _ _
      | end_ ns name =>
        simp only [step]
        cases hp : peltEnd P ctx subj pred attrs rdfID found chars st with
        | panic => exact absurd hp (peltEnd_np h _ _ _ _ _ _ _ _)
        | fail e st1 => simp
        | ok r st1 => simp
      | _ => simp [step]
    | lit ctx subj pred rdfAttrs depth content =>
      cases tok with
      | end_ ns name =>
        simp only [step]
        split
        · cases hr : P.render content.reverse with
          | none => simp
          | some lex =>
            simp only []
            cases hq : reifyEachID P ctx rdfAttrs (st.emit ⟨subj, pred, .lit lex rdfXMLLiteral none⟩) with
            | panic => exact absurd hq (reifyEachID_np h _ _ _ (by simp [St.emit]))
            | fail e st1 => simp
            | ok u st1 => simp
        · split <;> simp
      | _ => simp only [step]; split <;> simp
    | coll ctx subj pred rdfID last =>
      cases tok with
      | start ns name attrs =>
        simp only [step]
        split
        · simp
        · exact callNode_np h _ _ _ _ _ _
      | end_ ns name =>
        simp only [step]
        cases last with
        | none =>
          simp only []
          cases hr : optReify P ctx rdfID 0 (st.emit ⟨subj, pred, .iri RX.rdfNil⟩) with
          | panic => exact absurd hr (optReify_np h _ _ _ _ (by simp [St.emit]))
          | fail e st1 => simp
          | ok u st1 => simp
        | some l => simp
      | _ => simp [step]

theorem run_np (h : P.EmptyRefOK) (ctx0 : Ctx) (stk : List Frame) (st : St) (toks : List Tok) (fin : Fin) :
    run P ctx0 stk st toks fin ≠ .panic := by
  induction toks generalizing stk st with
  | nil =>
    unfold run finish
    repeat' split
    all_goals simp
  | cons tok rest ih =>
    unfold run
    cases hs : step P ctx0 stk st tok with
    | panic => exact absurd hs (step_np h _ _ _ _)
    | fail e st1 => simp
    | cont stk1 st1 => exact ih _ _

end RdfModel.RXD
