/-
  Audit for C18 (label tables insert-only, builder-c18miss): axioms used by every theorem of
  Props/C18Table.lean (expected: a subset of {propext, Classical.choice, Quot.sound}).
-/
import RdfModel.Props.C18Table
open RdfModel

#print axioms RdfModel.C18.label_tables_insert_only
#print axioms RdfModel.C18.model_uuid_table_grows
