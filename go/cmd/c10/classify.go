package main

// Known-finding classes: machine-checkable predicates on the document (or dataset and encoder
// configuration) that failed. Each names a `predicate` of /verif/known-findings.json.

import (
	"strings"

	"github.com/dpb587/rdfkit-go/iri"
)

// ---- RFC 3986 §5.2 reference resolution (strict), written from the RFC, for the classifier only

type parts struct {
	scheme, authority, path, query, fragment       string
	hasScheme, hasAuthority, hasQuery, hasFragment bool
}

func splitRef(s string) parts {
	var p parts
	if i := strings.IndexAny(s, ":/?#"); i > 0 && s[i] == ':' {
		p.scheme, p.hasScheme, s = s[:i], true, s[i+1:]
	}
	if i := strings.IndexByte(s, '#'); i >= 0 {
		p.fragment, p.hasFragment, s = s[i+1:], true, s[:i]
	}
	if i := strings.IndexByte(s, '?'); i >= 0 {
		p.query, p.hasQuery, s = s[i+1:], true, s[:i]
	}
	if strings.HasPrefix(s, "//") {
		s = s[2:]
		i := strings.IndexByte(s, '/')
		if i < 0 {
			i = len(s)
		}
		p.authority, p.hasAuthority, s = s[:i], true, s[i:]
	}
	p.path = s
	return p
}

func removeDotSegments(in string) string {
	var out []string // output segments, each with its leading "/" if it had one
	for in != "" {
		switch {
		case strings.HasPrefix(in, "../"):
			in = in[3:]
		case strings.HasPrefix(in, "./"):
			in = in[2:]
		case strings.HasPrefix(in, "/./"):
			in = in[2:]
		case in == "/.":
			in = "/"
		case strings.HasPrefix(in, "/../"):
			in = in[3:]
			if len(out) > 0 {
				out = out[:len(out)-1]
			}
		case in == "/..":
			in = "/"
			if len(out) > 0 {
				out = out[:len(out)-1]
			}
		case in == "." || in == "..":
			in = ""
		default:
			i := strings.IndexByte(in[1:], '/')
			if i < 0 {
				out = append(out, in)
				in = ""
			} else {
				out = append(out, in[:i+1])
				in = in[i+1:]
			}
		}
	}
	return strings.Join(out, "")
}

func rfcResolve(base, ref string) string {
	b, r := splitRef(base), splitRef(ref)
	var t parts
	switch {
	case r.hasScheme:
		t = r
		t.path = removeDotSegments(r.path)
	case r.hasAuthority:
		t = r
		t.scheme, t.hasScheme = b.scheme, b.hasScheme
		t.path = removeDotSegments(r.path)
	default:
		if r.path == "" {
			t.path = b.path
			if r.hasQuery {
				t.query, t.hasQuery = r.query, true
			} else {
				t.query, t.hasQuery = b.query, b.hasQuery
			}
		} else {
			if strings.HasPrefix(r.path, "/") {
				t.path = removeDotSegments(r.path)
			} else {
				var merged string
				if b.hasAuthority && b.path == "" {
					merged = "/" + r.path
				} else if i := strings.LastIndexByte(b.path, '/'); i >= 0 {
					merged = b.path[:i+1] + r.path
				} else {
					merged = r.path
				}
				t.path = removeDotSegments(merged)
			}
			t.query, t.hasQuery = r.query, r.hasQuery
		}
		t.authority, t.hasAuthority = b.authority, b.hasAuthority
		t.scheme, t.hasScheme = b.scheme, b.hasScheme
	}
	t.fragment, t.hasFragment = r.fragment, r.hasFragment
	var sb strings.Builder
	if t.hasScheme {
		sb.WriteString(t.scheme + ":")
	}
	if t.hasAuthority {
		sb.WriteString("//" + t.authority)
	}
	sb.WriteString(t.path)
	if t.hasQuery {
		sb.WriteString("?" + t.query)
	}
	if t.hasFragment {
		sb.WriteString("#" + t.fragment)
	}
	return sb.String()
}

// goResolve is what the implementation computes for a relative reference (IRI expansion step 8).
func goResolve(base, ref string) (string, bool) {
	b, err := iri.ParseIRI(base)
	if err != nil {
		return "", false
	}
	u, err := b.Parse(ref)
	if err != nil {
		return "", false
	}
	return u.String(), true
}

// iriStrings collects the strings of a document that stand in IRI positions: member names, values of
// @id / @type / @base / @vocab, every string inside @context; plain string values too when the
// document coerces some term to @id or @vocab.
func iriStrings(v *JV, key string, inCtx, coerced bool, out *[]string, bases *[]string) {
	switch v.kind {
	case jStr:
		if inCtx || coerced || key == "@id" || key == "@type" || key == "@base" || key == "@vocab" {
			*out = append(*out, v.s)
		}
	case jArr:
		for _, x := range v.xs {
			iriStrings(x, key, inCtx, coerced, out, bases)
		}
	case jObj:
		for _, m := range v.ms {
			*out = append(*out, m.k)
			if m.k == "@base" && m.v.kind == jStr {
				*bases = append(*bases, m.v.s)
			}
			k := m.k
			if m.k == "@value" {
				continue
			}
			iriStrings(m.v, k, inCtx || m.k == "@context", coerced, out, bases)
		}
	}
}

func hasCoercion(v *JV) bool {
	switch v.kind {
	case jArr:
		for _, x := range v.xs {
			if hasCoercion(x) {
				return true
			}
		}
	case jObj:
		for _, m := range v.ms {
			if m.k == "@type" && m.v.kind == jStr && (m.v.s == "@id" || m.v.s == "@vocab") {
				return true
			}
			if hasCoercion(m.v) {
				return true
			}
		}
	}
	return false
}

func allStrings(doc *JV, out *[]string, bases *[]string) {
	iriStrings(doc, "", false, hasCoercion(doc), out, bases)
}

// resolverDeviates: some (base, reference) pair of the document on which /repo's resolver (the net/url
// wrapper of property C12) differs from RFC 3986 §5.2, or a base it does not print back unchanged.
func resolverDeviates(doc *JV, base string) bool {
	var strs, bases []string
	allStrings(doc, &strs, &bases)
	if base != "" {
		bases = append(bases, base)
	}
	// relative @base values are resolved against the bases seen so far
	abs := []string{}
	for _, b := range bases {
		if goodIRI(b) {
			abs = append(abs, b)
		}
	}
	for _, b := range bases {
		if !goodIRI(b) {
			for _, a := range append([]string{}, abs...) {
				abs = append(abs, rfcResolve(a, b))
			}
		}
	}
	// an absolute IRI the wrapper refuses or does not print back unchanged (it passes through it when
	// used as @vocab in json-ld-1.0, as @base, or in a position resolved against a base)
	for _, v := range strs {
		if goodIRI(v) {
			if pv, err := iri.ParseIRI(v); err != nil || pv.String() != v {
				return true
			}
		}
	}
	for _, b := range abs {
		if g, ok := goResolve(b, ""); !ok || (g != rfcResolve(b, "") && g != b) {
			return true
		}
		if pb, err := iri.ParseIRI(b); err != nil || pb.String() != b {
			return true
		}
		for _, s := range strs {
			if g, ok := goResolve(b, s); !ok || g != rfcResolve(b, s) {
				return true
			}
		}
	}
	return false
}

func (h *harness) classify(doc *JV, mode11 bool, base string) string {
	if resolverDeviates(doc, base) {
		return "jsonld-resolver-deviates-from-rfc3986"
	}
	return ""
}
