/-
  Line-protocol handler for the Microdata decoder model (component `mdd`), part C11MD.

    mdd.dec <cfg> <R> <T> <V> <M> <tree tokens…>
        cfg  three digits: lax, laxUse, hook (the derived Decoder fields laxContentAttribute,
             laxContentAttributeUse, laxContentAttributeHook != nil)
        R    oracle table of evaluationContext.ResolveURL:    HEX=HEX | HEX=!   joined by `,` ; `-` = empty table
        T    oracle table of url.Parse(v).String() (itemtype tokens): HEX=HEX
        V    oracle table of VocabularyResolver.ResolveMicrodataProperty: HEXprop:HEXtype:HEXtype…=HEX | …=!
        M    oracle table of the xsdobject mappers: <i>:HEX=L<hexlex>.<hexdt> | …=!   (i = 0..5 the time chain
             MapDate, MapTime, MapDateTime, MapGYearMonth, MapGYear, MapDuration; 6, 7 the meter chain MapInteger,
             MapDecimal)
        tree N<typ>.<hex ns>.<hex atom>.<hex data>  A<hex ns>.<hex key>.<hex val>…  children…  /
      → ok <S> <P> <O>;…|<hook node ids ,>      S = I<hex> | B<n>   P = <hex>   O = I<hex> | B<n> | L<lex>.<dt>.<lang|->
        | out-of-fuel | panic
      A key missing from a table answers with the marker value `?` (so that the comparison fails visibly).
    mdd.fields <xHEX>   → tokens of strings.Fields, `,`-joined hex
    mdd.trim   <xHEX>   → x<hex> of strings.TrimSpace
    mdd.types  <xHEX>   → tokens of the itemtype loop
    mdd.stats  <same as dec> → <steps> <expansions> <nodes> <height> <fuel>
-/
import RdfModel.Driver.Wire
import RdfModel.Model.MicrodataDecoder
namespace RdfModel.Driver.Mdd
open RdfModel RdfModel.Wire RdfModel.Mdd RdfModel.Desc

abbrev Table := List (String × String)

def parseTable (s : String) : Table :=
  if s = "-" then []
  else (s.splitOn ",").filterMap (fun e =>
    match e.splitOn "=" with
    | [k, v] => some (k, v)
    | _ => none)

def tlookup (t : Table) (k : String) : Option String :=
  match t.find? (fun e => e.1 == k) with
  | some e => some e.2
  | none => none

def missing : Bytes := [0x3f]

def hexB (b : Bytes) : String := hexOfBytes b

def resolveOf (t : Table) (v : Bytes) : Option Bytes :=
  match tlookup t (hexB v) with
  | some "!" => none
  | some h => (match unhex h with | some b => some b | none => some missing)
  | none => some missing

def normOf (t : Table) (v : Bytes) : Bytes :=
  match tlookup t (hexB v) with
  | some h => (unhex h).getD missing
  | none => missing

def vocabOf (t : Table) (types : List Bytes) (prop : Bytes) : Option Bytes :=
  match tlookup t (String.intercalate ":" (hexB prop :: types.map hexB)) with
  | some "!" => none
  | some h => (match unhex h with | some b => some b | none => some missing)
  | none => some missing

def parseLit (s : String) : Option (Term Nat) :=
  match s.toList with
  | 'L' :: rest =>
    (match (String.ofList rest).splitOn "." with
     | [l, d] => do
       let lex ← unhex l
       let dt ← unhex d
       pure (.lit lex dt none)
     | _ => none)
  | _ => none

def mapOf (t : Table) (i : Nat) (v : Bytes) : Option (Term Nat) :=
  match tlookup t (toString i ++ ":" ++ hexB v) with
  | some "!" => none
  | some h => (match parseLit h with | some x => some x | none => some (.lit missing missing none))
  | none => some (.lit missing missing none)

def envOf (cfg : String) (r t v m : Table) : Option Env :=
  match cfg.toList with
  | [a, b, c] =>
    some { resolve := resolveOf r, normType := normOf t, vocab := vocabOf v,
           timeMaps := [mapOf m 0, mapOf m 1, mapOf m 2, mapOf m 3, mapOf m 4, mapOf m 5],
           meterMaps := [mapOf m 6, mapOf m 7],
           lax := a == '1', laxUse := b == '1', hook := c == '1' }
  | _ => none

def parse3 (s : String) : Option (Bytes × Bytes × Bytes) :=
  match s.splitOn "." with
  | [a, b, c] => do
    let x ← unhex a
    let y ← unhex b
    let z ← unhex c
    pure (x, y, z)
  | _ => none

def parseAttrs : List String → List Attr → List Attr × List String
  | [], acc => (acc.reverse, [])
  | tok :: rest, acc =>
    match tok.toList with
    | 'A' :: cs =>
      (match parse3 (String.ofList cs) with
       | some (n, k, v) => parseAttrs rest (⟨n, k, v⟩ :: acc)
       | none => (acc.reverse, tok :: rest))
    | _ => (acc.reverse, tok :: rest)

/-- parse a forest up to the closing `/` (or the end of input at top level) -/
def parseForest : Nat → List String → Option (List Node × List String)
  | 0, _ => none
  | _ + 1, [] => some ([], [])
  | fuel + 1, tok :: rest =>
    if tok = "/" then some ([], rest)
    else
      match tok.toList with
      | 'N' :: cs =>
        (match (String.ofList cs).splitOn "." with
         | [t, n, a, d] =>
           (match t.toNat?, unhex n, unhex a, unhex d with
            | some typ, some ns, some atom, some data =>
              let (attrs, r1) := parseAttrs rest []
              (match parseForest fuel r1 with
               | some (kids, r2) =>
                 (match parseForest fuel r2 with
                  | some (sibs, r3) => some (.mk 0 typ ns atom data attrs kids :: sibs, r3)
                  | none => none)
               | none => none)
            | _, _, _, _ => none)
         | _ => none)
      | _ => none

def parseTree (toks : List String) : Option Node :=
  match parseForest (2 * toks.length + 2) toks with
  | some ([t], []) => some t
  | _ => none

def showSubjTerm : Term Nat → String
  | .iri v => "I" ++ hexB v
  | .bnode k => "B" ++ toString k
  | .lit l d t => "L" ++ hexB l ++ "." ++ hexB d ++ "." ++ (match t with | some x => hexB x | none => "-")

def showStmt (t : Stmt) : String := showSubjTerm t.s ++ " " ++ hexB t.p ++ " " ++ showSubjTerm t.o

def showOutcome : Outcome → String
  | .ok ss hs => "ok " ++ String.intercalate ";" (ss.map showStmt) ++ "|" ++ String.intercalate "," (hs.map toString)
  | .outOfFuel => "out-of-fuel"
  | .panic => "panic"

def showTokens (l : List Bytes) : String := String.intercalate "," (l.map hexB)

def handle (op : String) (args : List String) : Option String :=
  match op, args with
  | "dec", cfg :: r :: t :: v :: m :: tree => do
    let E ← envOf cfg (parseTable r) (parseTable t) (parseTable v) (parseTable m)
    let doc ← parseTree tree
    pure (showOutcome (decode E doc))
  | "stats", cfg :: r :: t :: v :: m :: tree => do
    let E ← envOf cfg (parseTable r) (parseTable t) (parseTable v) (parseTable m)
    let doc ← parseTree tree
    let d := relabel doc
    let st := run E d
    pure s!"{st.steps} {st.expansions} {(subnodes d).length} {height d} {fuelFor d}"
  | "fields", [s] => do
    let b ← bytesTok s
    pure (showTokens (fields b))
  | "trim", [s] => do
    let b ← bytesTok s
    pure (tokOfBytes (trimSpace b))
  | "types", [s] => do
    let b ← bytesTok s
    pure (showTokens (typeTokens b))
  | _, _ => none

end RdfModel.Driver.Mdd
