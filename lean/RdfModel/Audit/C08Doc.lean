import RdfModel.Props.C08Doc
import RdfModel.Props.C07Doc
#print axioms RdfModel.C08.decode_print_partial
#print axioms RdfModel.C08.decode_print_real
#print axioms RdfModel.C08.decode_print_flat_partial
#print axioms RdfModel.C08.decode_print_flat_real
#print axioms RdfModel.C08.gen_turtle_ok2
#print axioms RdfModel.C08.gen_trig_ok2
#print axioms RdfModel.C08.cfgOK_real
#print axioms RdfModel.C08.repaired_comment_cr
#print axioms RdfModel.C08.repaired_bnpl_subject_semicolon
#print axioms RdfModel.C08.finding_keyword_glue
#print axioms RdfModel.C08.finding_pname_bool_prefix
#print axioms RdfModel.C08.finding_pname_prefix_space
#print axioms RdfModel.C07.gen_tables_eq
#print axioms RdfModel.C07.ttl_sub_trig_grammatical_partial
#print axioms RdfModel.C07.nt_encoder_sub_ttl_partial
#print axioms RdfModel.C07.nt_encoder_agree_partial
#print axioms RdfModel.C07.nt_encoder_sub_ttl_real
