package main

// COPY of the RFC 3987 recogniser of cmd/c12/gen.go (package main there, cannot be imported): the property is
// about well-formed IRIs; cases whose generated IRIs are not RFC 3987 IRIs are counted and skipped.

import (
	"strings"
	"unicode/utf8"
)

// ---------------------------------------------------------------- RFC 3987 recogniser

func isAlpha(c byte) bool { return 'a' <= c && c <= 'z' || 'A' <= c && c <= 'Z' }
func isDigit(c byte) bool { return '0' <= c && c <= '9' }
func isHex(c byte) bool   { return isDigit(c) || 'a' <= c && c <= 'f' || 'A' <= c && c <= 'F' }

func isUcschar(r rune) bool {
	switch {
	case 0xA0 <= r && r <= 0xD7FF, 0xF900 <= r && r <= 0xFDCF, 0xFDF0 <= r && r <= 0xFFEF:
		return true
	case 0x10000 <= r && r <= 0xEFFFD:
		return r&0xFFFF <= 0xFFFD
	}
	return false
}
func isIprivate(r rune) bool {
	return 0xE000 <= r && r <= 0xF8FF || 0xF0000 <= r && r <= 0xFFFFD || 0x100000 <= r && r <= 0x10FFFD
}

// validChars: s consists of iunreserved / pct-encoded / sub-delims / extra (/ iprivate when priv).
func validChars(s string, extra string, priv bool) bool {
	for i := 0; i < len(s); {
		c := s[i]
		switch {
		case c == '%':
			if i+2 >= len(s) || !isHex(s[i+1]) || !isHex(s[i+2]) {
				return false
			}
			i += 3
			continue
		case c < 0x80:
			if !(isAlpha(c) || isDigit(c) || strings.IndexByte("-._~!$&'()*+,;=", c) >= 0 || strings.IndexByte(extra, c) >= 0) {
				return false
			}
			i++
		default:
			r, n := utf8.DecodeRuneInString(s[i:])
			if r == utf8.RuneError && n <= 1 {
				return false
			}
			if !(isUcschar(r) || priv && isIprivate(r)) {
				return false
			}
			i += n
		}
	}
	return true
}

func validScheme(s string) bool {
	if s == "" || !isAlpha(s[0]) {
		return false
	}
	for i := 1; i < len(s); i++ {
		if !(isAlpha(s[i]) || isDigit(s[i]) || s[i] == '+' || s[i] == '-' || s[i] == '.') {
			return false
		}
	}
	return true
}

func validIPv4(s string) bool {
	f := strings.Split(s, ".")
	if len(f) != 4 {
		return false
	}
	for _, o := range f {
		if o == "" || len(o) > 3 || (len(o) > 1 && o[0] == '0') {
			return false
		}
		n := 0
		for i := 0; i < len(o); i++ {
			if !isDigit(o[i]) {
				return false
			}
			n = n*10 + int(o[i]-'0')
		}
		if n > 255 {
			return false
		}
	}
	return true
}

func validIPv6(s string) bool {
	h16 := func(g string) bool {
		if g == "" || len(g) > 4 {
			return false
		}
		for i := 0; i < len(g); i++ {
			if !isHex(g[i]) {
				return false
			}
		}
		return true
	}
	groups := func(t string, allowV4 bool) (int, bool) { // number of 16-bit pieces
		if t == "" {
			return 0, true
		}
		f := strings.Split(t, ":")
		n := 0
		for i, g := range f {
			if allowV4 && i == len(f)-1 && strings.Contains(g, ".") {
				if !validIPv4(g) {
					return 0, false
				}
				n += 2
			} else if h16(g) {
				n++
			} else {
				return 0, false
			}
		}
		return n, true
	}
	if i := strings.Index(s, "::"); i >= 0 {
		a, ok1 := groups(s[:i], false)
		b, ok2 := groups(s[i+2:], true)
		return ok1 && ok2 && a+b <= 7
	}
	n, ok := groups(s, true)
	return ok && n == 8
}

func validIPLiteral(s string) bool { // without brackets
	if len(s) >= 4 && (s[0] == 'v' || s[0] == 'V') {
		i := 1
		for i < len(s) && isHex(s[i]) {
			i++
		}
		if i == 1 || i >= len(s) || s[i] != '.' || i+1 >= len(s) {
			return false
		}
		for _, c := range []byte(s[i+1:]) {
			if !(isAlpha(c) || isDigit(c) || strings.IndexByte("-._~!$&'()*+,;=:", c) >= 0) {
				return false
			}
		}
		return true
	}
	return validIPv6(s)
}

func validAuthority(a string) bool {
	if i := strings.IndexByte(a, '@'); i >= 0 {
		if !validChars(a[:i], ":", false) {
			return false
		}
		a = a[i+1:]
	}
	host := a
	if strings.HasPrefix(a, "[") {
		j := strings.IndexByte(a, ']')
		if j < 0 || !validIPLiteral(a[1:j]) {
			return false
		}
		host, a = "", a[j+1:]
		if a == "" {
			return true
		}
		if a[0] != ':' {
			return false
		}
		a = a[1:]
	} else if i := strings.LastIndexByte(a, ':'); i >= 0 {
		host, a = a[:i], a[i+1:]
	} else {
		a = ""
	}
	for i := 0; i < len(a); i++ {
		if !isDigit(a[i]) {
			return false
		}
	}
	return validChars(host, "", false)
}

// validIRIRef reports whether s is an RFC 3987 IRI-reference (abs: an IRI, i.e. with scheme).
func validIRIRef(s string, abs bool) bool {
	if !utf8.ValidString(s) {
		return false
	}
	p := rfcSplit(s)
	if p.hasScheme && !validScheme(p.scheme) {
		// "1a:b" is not an IRI; as a relative reference its first segment would contain ':'
		return false
	}
	if abs && !p.hasScheme {
		return false
	}
	if p.hasAuthority {
		if !validAuthority(p.authority) {
			return false
		}
		if p.path != "" && p.path[0] != '/' {
			return false
		}
	} else if strings.HasPrefix(p.path, "//") {
		return false
	}
	if !p.hasScheme && !p.hasAuthority { // path-noscheme: no ':' in the first segment
		seg, _, _ := strings.Cut(p.path, "/")
		if strings.Contains(seg, ":") {
			return false
		}
	}
	return validChars(p.path, ":@/", false) && validChars(p.query, ":@/?", true) && validChars(p.fragment, ":@/?", false)
}

