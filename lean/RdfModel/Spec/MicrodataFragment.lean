/-
  RdfModel.Spec.MicrodataFragment — HTML Microdata (WHATWG HTML §5 "Microdata": items, the properties of an
  item, the value of a property by element) read as RDF the way rdfkit-go documents/configures it:

    * every element with `itemscope` is an item; its subject is the `itemid` URL resolved against the document
      base, or a blank node of its own (identified here by the element's position in the tree);
    * each token of `itemtype` gives an `rdf:type` triple;
    * the properties of an item are found by the WHATWG crawl: descend from the item's children and from the
      elements named by `itemref`, never into another item; an element reached this way with an `itemprop`
      attribute is a property for each of its (unique) names.  The WHATWG algorithm is an imperative work-list
      with a `memory` set that only suppresses second visits and the item's own element; as a *set* its result
      is what the structural recursion `props` below computes;
    * the value of a property element: the item if it has `itemscope`; else by element type (`meta`@content,
      `audio embed iframe img source track video`@src, `a area link`@href, `object`@data as URLs resolved
      against the base, `data meter`@value, `time`@datetime, else the text content), strings as `xsd:string`;
    * the predicate (htmldefaults: `ItemtypeVocabularyResolver`): the name itself when the item has no type,
      else the name resolved as a relative reference against the item's first type (an absolute-URL name is
      itself). This is the library's rule; for `#`-vocabularies it differs from the W3C Microdata-to-RDF note,
      which the library does not claim to follow.

  Outside the fragment (`inFragment` is false): `meter`@value / `time`@datetime values that could be read as
  numbers, dates, times or durations (the library types those through its XSD mappers, property C20).
  Core-only, executable.
-/
import RdfModel.Spec.HtmlTree
import RdfModel.Spec.RFC3986
import RdfModel.Model.Description
namespace RdfModel.Spec.Microdata
open RdfModel RdfModel.Spec.Html RdfModel.Desc

/-- position of a node: child indices from the root -/
abbrev Path := List Nat
/-- blank nodes of the output: the item element's position -/
abbrev T := Term Path
abbrev Tr := Triple Path

def rdfType : Str := asc "http://www.w3.org/1999/02/22-rdf-syntax-ns#type"

def kidAt : List Tree → Nat → Option Tree
  | [], _ => none
  | k :: _, 0 => some k
  | _ :: ks, i + 1 => kidAt ks i

def nodeAt : Tree → Path → Option Tree
  | t, [] => some t
  | .elem _ _ ks, i :: rest =>
    match kidAt ks i with
    | some k => nodeAt k rest
    | none => none
  | .text _, _ :: _ => none

mutual
/-- the first element in tree order whose `id` is `id` -/
def findIdNode (id : Str) (here : Path) : Tree → Option Path
  | .text _ => none
  | .elem _ a ks => if a.id = some id then some here else findIdKids id here 0 ks
def findIdKids (id : Str) (here : Path) (i : Nat) : List Tree → Option Path
  | [] => none
  | k :: ks =>
    match findIdNode id (here ++ [i]) k with
    | some p => some p
    | none => findIdKids id here (i + 1) ks
end

mutual
/-- all elements with `itemscope`, in tree order -/
def itemsNode (here : Path) : Tree → List Path
  | .text _ => []
  | .elem _ a ks => (if a.itemscope then [here] else []) ++ itemsKids here 0 ks
def itemsKids (here : Path) (i : Nat) : List Tree → List Path
  | [] => []
  | k :: ks => itemsNode (here ++ [i]) k ++ itemsKids here (i + 1) ks
end

/-- the unique tokens, in order of first occurrence -/
def uniq : List Str → List Str
  | [] => []
  | x :: xs => x :: (uniq xs).filter (· != x)

def names (a : Attrs) : List Str :=
  match a.itemprop with
  | some v => uniq (fields v)
  | none => []

mutual
/-- property elements at or below an element reached by the crawl -/
def visit (here : Path) : Tree → List Path
  | .text _ => []
  | .elem _ a ks =>
    (if (names a).isEmpty then [] else [here]) ++ (if a.itemscope then [] else visitKids here 0 ks)
def visitKids (here : Path) (i : Nat) : List Tree → List Path
  | [] => []
  | k :: ks => visit (here ++ [i]) k ++ visitKids here (i + 1) ks
end

/-- the properties of the item at `root` -/
def props (doc : Tree) (root : Path) : List Path :=
  match nodeAt doc root with
  | some (.elem _ a ks) =>
    let refs := match a.itemref with | some v => fields v | none => []
    let viaRef := refs.flatMap (fun id =>
      match findIdNode id [] doc with
      | some q => (match nodeAt doc q with | some t => visit q t | none => [])
      | none => [])
    (visitKids root 0 ks ++ viaRef).filter (· != root)
  | _ => []

/-- URL resolution against the document base; with no base, values are taken as they are -/
def resolveUrl (base v : Str) : Str := if base = [] then v else RFC3986.resolve base v

def trimWs (s : Str) : Str := ((s.dropWhile isWs).reverse.dropWhile isWs).reverse

def subject (base : Str) (a : Attrs) (here : Path) : T :=
  match a.itemid with
  | some v => if v = [] then .bnode here else .iri (resolveUrl base (trimWs v))
  | none => .bnode here

def strLit (s : Str) : T := .lit s xsdString none

/-- the value of a property element -/
def value (base : Str) (here : Path) : Tree → T
  | .text _ => strLit []
  | .elem tag a ks =>
    if a.itemscope then subject base a here
    else
      let url (v : Option Str) : T := match v with | some u => .iri (resolveUrl base u) | none => strLit []
      let str (v : Option Str) : T := strLit (v.getD [])
      match tag with
      | .metaEl => str a.content
      | .audio | .embed | .iframe | .img | .source | .track | .video => url a.src
      | .a | .area | .link => url a.href
      | .object => url a.data
      | .data | .meter => str a.value
      | .time => (match a.datetime with | some v => strLit v | none => strLit (textOfList ks))
      | _ => strLit (textOfList ks)

/-- predicate of a property name for an item with the given types -/
def predicate (types : List Str) (name : Str) : Str :=
  match types with
  | [] => name
  | t :: _ => RFC3986.resolve t name

def itemTriples (base : Str) (doc : Tree) (here : Path) : List Tr :=
  match nodeAt doc here with
  | some (.elem _ a _) =>
    let s := subject base a here
    let types := match a.itemtype with | some v => fields v | none => []
    types.map (fun t => (⟨s, rdfType, .iri t⟩ : Tr)) ++
    (props doc here).flatMap (fun q =>
      match nodeAt doc q with
      | some (.elem tag2 a2 ks2) =>
        (names a2).map (fun nm => (⟨s, predicate types nm, value base q (.elem tag2 a2 ks2)⟩ : Tr))
      | _ => [])
  | _ => []

/-- The graph a document's Microdata denotes. -/
def denote (base : Str) (doc : Tree) : List Tr :=
  (itemsNode [] doc).flatMap (itemTriples base doc)

/-! ### fragment boundary -/

/-- a `meter`@value / `time`@datetime value the library certainly leaves a string: starts with an ASCII
    letter other than those that begin a number, special float value or duration -/
def plainWord : Str → Bool
  | [] => true
  | c :: _ =>
    ((65 ≤ c && c ≤ 90) || (97 ≤ c && c ≤ 122)) &&
    !(c == 80 || c == 112 || c == 73 || c == 105 || c == 78 || c == 110 || c == 84 || c == 116 || c == 90 || c == 122)

mutual
def inFragment : Tree → Bool
  | .text _ => true
  | .elem tag a ks =>
    (match tag with
     | .meter => (match a.value with | some v => plainWord v | none => true)
     | .time => (match a.datetime with | some v => plainWord v | none => true)
     | _ => true) && inFragmentKids ks
def inFragmentKids : List Tree → Bool
  | [] => true
  | k :: ks => inFragment k && inFragmentKids ks
end

end RdfModel.Spec.Microdata

namespace RdfModel.Spec.Microdata
open RdfModel RdfModel.Spec.Html RdfModel.Desc

/-! ## Writer: graph → Microdata document, with markup choices

  As for RDFa, candidates come from an arbitrary builder and are kept only after validation against `denote`
  (here for the whole document, because `itemref` and `id` are document-wide). The fallback is the canonical
  document `canonDoc`, which exists for graphs without blank-node objects; a graph *with* blank-node objects
  needs nesting or `itemref`, which the writer only produces through validated candidates (`write` reports
  whether it succeeded). -/

section Writer
variable {β : Type} [DecidableEq β]

def udedup {α : Type} [DecidableEq α] : List α → List α
  | [] => []
  | x :: xs => if x ∈ udedup xs then udedup xs else x :: udedup xs

def termBnodes : Term β → List β
  | .bnode b => [b]
  | _ => []

/-- the blank nodes of a graph, each once -/
def bnodesOf (g : List (Triple β)) : List β := udedup (g.flatMap (fun t => termBnodes t.s ++ termBnodes t.o))

/-- the blank-node subjects of a graph, each once -/
def bsubjectsOf (g : List (Triple β)) : List β := udedup (g.flatMap (fun t => termBnodes t.s))

def isIriSubj (t : Triple β) : Bool := match t.s with | .iri _ => true | _ => false
def hasSubj (b : β) (t : Triple β) : Bool := t.s == .bnode b

/-- canonical property element: `<meta itemprop content>` for a string, `<link itemprop href>` for an IRI -/
def canonLeaf (t : Triple β) : Tree :=
  match t.o with
  | .lit lex _ _ => .elem .metaEl { itemprop := some t.p, content := some lex } []
  | .iri i => .elem .link { itemprop := some t.p, href := some i } []
  | .bnode _ => .text []

def canonIriItem (t : Triple β) : Tree :=
  .elem .div { itemscope := true, itemid := (match t.s with | .iri i => some i | _ => none) } [canonLeaf t]

def canonBnodeItem (ts : List (Triple β)) : Tree :=
  .elem .div { itemscope := true } (ts.map canonLeaf)

def docOf (items : List Tree) : Tree := .elem .html {} [.elem .head {} [], .elem .body {} items]

/-- canonical document: one item per triple with an IRI subject, then one item per blank-node subject -/
def canonDoc (g : List (Triple β)) : Tree :=
  docOf ((g.filter isIriSubj).map canonIriItem ++
         (bsubjectsOf g).map (fun b => canonBnodeItem (g.filter (hasSubj b))))

def indexOf (b : β) : List β → Nat
  | [] => 0
  | x :: xs => if x = b then 0 else indexOf b xs + 1

/-- where the canonical document puts blank node `b` -/
def canonPos (lbl : β → Str) (g : List (Triple β)) (b : β) : Path :=
  if b ∈ bsubjectsOf g then [1, (g.filter isIriSubj).length + indexOf b (bsubjectsOf g)] else 0 :: lbl b

/-- what the canonical document requires: IRI subjects and objects that the base leaves alone, one-token
    absolute property names, `xsd:string` literals without language, no blank-node objects -/
def okTriple (base : Str) (t : Triple β) : Bool :=
  (match t.s with
   | .iri i => i != [] && resolveUrl base (trimWs i) == i
   | .bnode _ => true
   | .lit _ _ _ => false) &&
  (fields t.p == [t.p]) &&
  (match t.o with
   | .iri i => resolveUrl base i == i
   | .bnode _ => false
   | .lit _ dt lang => dt == xsdString && lang.isNone)

def expressible (base : Str) (g : List (Triple β)) : Bool := g.all (okTriple base)

/-- does `doc`, with blank nodes placed by `pos`, denote exactly `g`? `pos` must separate the blank nodes of `g`
    and stay clear of the positions reserved for blank nodes that do not occur (`0 :: label`). -/
def validDoc (base : Str) (g : List (Triple β)) (doc : Tree) (pos : β → Path) : Bool :=
  (denote base doc).isPerm (g.map (Triple.map pos)) &&
  decide ((bnodesOf g).map pos).Nodup &&
  (bnodesOf g).all (fun b => (pos b).head? != some 0)

/-- blank-node renaming used for a validated candidate -/
def candSigma (lbl : β → Str) (g : List (Triple β)) (pos : β → Path) (b : β) : Path :=
  if b ∈ bnodesOf g then pos b else 0 :: lbl b

/-- The writer: the validated candidate, else the canonical document. The Boolean says whether the result is
    known to denote `g` (validated candidate, or canonical document of an expressible graph). -/
def write (base : Str) (g : List (Triple β)) (cand : Tree) (pos : β → Path) : Tree × Bool :=
  if validDoc base g cand pos then (cand, true)
  else (canonDoc g, expressible base g)

end Writer
end RdfModel.Spec.Microdata
