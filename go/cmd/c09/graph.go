package main

// Second route: random graphs of the fragment, written by the Lean writer RX.writeAuto under random
// switch settings (driver op rx.write); the tree it produces is serialised and decoded like the others
// and the result compared with the graph itself.

import (
	"fmt"
	"os"
	"runtime"
	"strings"
	"sync"

	"verifharness/vh"
)

type graphGen struct {
	r       *vh.Rng
	triples [][3]string // wire terms
	budget  int
	nodes   []string // node terms used so far
}

var (
	graphIRIs = []string{"http://a.example/x", "http://b.example/d/e/f", "http://b.example/d/doc", "urn:x:y", "http://b.example/d/doc#frag",
		"mailto:a@b.example", "http://a.example/é/ü?k=v#f", "http://a.example/a%20b", "http://b.example/", "http://b.example/d/", "http://b.example/d/doc#a",
		"http://b.example/d/e/g", "http://b.example/d/sub/name", "http://other.example/p/q#é"}
	graphDTs = []string{"http://www.w3.org/2001/XMLSchema#integer", "http://e/dt", "urn:dt:x", rdfNS + "XMLLiteral", "http://b.example/d/doc#dt"}
)

func (g *graphGen) node() string {
	if len(g.nodes) > 0 && g.r.Chance(30) {
		return vh.Pick(g.r, g.nodes)
	}
	var n string
	if g.r.Chance(45) {
		n = wNamed(vh.Pick(g.r, labelPool))
	} else {
		n = wIRI(vh.Pick(g.r, graphIRIs))
	}
	g.nodes = append(g.nodes, n)
	return n
}

func (g *graphGen) pred() string {
	switch {
	case g.r.Chance(10):
		return rdfNS + vh.Pick(g.r, []string{"value", "first", "rest", "subject", "object", "_7", "Seq", "foo", "type"})
	}
	return vh.Pick(g.r, nsPool) + vh.Pick(g.r, localPool)
}

func (g *graphGen) literal(pg *planGen) string {
	switch g.r.Intn(10) {
	case 0:
		return wPlain("", nil)
	case 1:
		l := vh.Pick(g.r, langPool)
		return wPlain("", &l)
	case 2, 3:
		return wLit(pg.text(1), vh.Pick(g.r, graphDTs), nil)
	case 4, 5, 6:
		l := vh.Pick(g.r, langPool)
		if g.r.Chance(60) {
			l = "en"
		}
		return wPlain(pg.text(1), &l)
	}
	return wPlain(pg.text(0), nil)
}

func (g *graphGen) describe(s string, depth int, pg *planGen) {
	k := 1 + g.r.Intn(4)
	if g.r.Chance(30) {
		// (no non-ASCII host here: the type IRI may be written in rdf:type="…", which is resolved, and the
		// repository's resolver percent-encodes such hosts — DESIGN D14, property C12)
		g.triples = append(g.triples, [3]string{s, rdfNS + "type", wIRI(vh.Pick(g.r, nsPool[:6]) + vh.Pick(g.r, localPool))})
	}
	li := 0
	for i := 0; i < k && g.budget > 0; i++ {
		g.budget--
		p := g.pred()
		if g.r.Chance(25) {
			li++
			if g.r.Chance(15) {
				li += 1 // a gap: cannot be written as rdf:li
			}
			p = fmt.Sprintf("%s_%d", rdfNS, li)
		}
		if g.r.Chance(50) {
			g.triples = append(g.triples, [3]string{s, p, g.literal(pg)})
			continue
		}
		o := g.node()
		g.triples = append(g.triples, [3]string{s, p, o})
		if depth < 3 && g.r.Chance(55) {
			g.describe(o, depth+1, pg)
		}
	}
}

// genGraph returns the protocol line and the graph (wire triples).
func genGraph(r *vh.Rng) (line, base string, triples []string, knobs string) {
	g := &graphGen{r: r, budget: 2 + r.Intn(12)}
	pg := &planGen{r: r, feat: map[string]int{}}
	for n := 1 + r.Intn(3); n > 0; n-- {
		g.describe(g.node(), 0, pg)
	}
	if r.Chance(3) {
		// a long container: rdf:_1 … rdf:_n in order (written as n rdf:li elements when the switch is on),
		// n around the places where the decimal numeral grows
		s, n := g.node(), vh.Pick(r, []int{9, 10, 11, 12, 99, 100, 101})
		for i := 1; i <= n; i++ {
			o := g.literal(pg)
			if r.Chance(30) {
				o = g.node()
			}
			g.triples = append(g.triples, [3]string{s, fmt.Sprintf("%s_%d", rdfNS, i), o})
		}
	}
	if r.Chance(15) {
		for i := len(g.triples) - 1; i > 0; i-- {
			j := r.Intn(i + 1)
			g.triples[i], g.triples[j] = g.triples[j], g.triples[i]
		}
	}
	var kb strings.Builder
	for i := 0; i < 8; i++ {
		if r.Chance(70) {
			kb.WriteByte('1')
		} else {
			kb.WriteByte('0')
		}
	}
	knobs = kb.String()
	base = vh.Pick(r, []string{"http://b.example/d/doc", "http://b.example/d/e/f.rdf", "http://other.example/", "http://b.example/d/doc?q=1"})
	xb := "-"
	if r.Chance(40) {
		xb = vh.XS(vh.Pick(r, []string{"http://b.example/d/", "http://b.example/d/e/", "http://a.example/", "sub/", "../", "http://b.example/d/doc"}))
	}
	var sb strings.Builder
	sb.WriteString("rx.write " + vh.XS(base) + " " + knobs + " " + xb)
	for _, t := range g.triples {
		// the driver's term syntax names blank nodes B<hex label>
		tok := func(w string) string {
			if w[0] == 'N' {
				return "B" + w[1:]
			}
			return w
		}
		sb.WriteString(" " + tok(t[0]) + "," + wIRI(t[1]) + "," + tok(t[2]))
		triples = append(triples, wTriple(t[0], t[1], t[2]))
	}
	return sb.String(), base, triples, knobs + " xml:base=" + xb
}

func (h *harness) runGraphs(n int, root *vh.Rng, d vh.Driver, perGraph int) {
	if *nomodel {
		return // the writer lives in the driver
	}
	const batch = 20000
	for done := 0; done < n; done += batch {
		m := batch
		if n-done < m {
			m = n - done
		}
		type item struct {
			line, base string
			triples    []string
			rng        *vh.Rng
		}
		items := make([]item, m)
		lines := make([]string, m)
		for i := range items {
			r := root.Fork()
			line, base, ts, _ := genGraph(r)
			items[i] = item{line, base, ts, r}
			lines[i] = line
		}
		res, err := d.RunParallel(lines)
		if err != nil {
			fmt.Fprintln(os.Stderr, err)
			os.Exit(2)
		}
		par(m, func(i int, serHist map[string]int) {
			it := &items[i]
			f := strings.Split(res[i], " | ")
			if len(f) != 3 {
				h.add(vh.Case{Kind: "disagreement", Op: it.line, Model: res[i], Detail: "driver did not answer rx.write"})
				return
			}
			h.count("write:auto-plan-used=" + f[0])
			sx, err := parseSexp(strings.Fields(f[1]))
			var tree *Node
			if err == nil {
				tree, err = treeOfSexp(sx)
			}
			if err != nil {
				h.add(vh.Case{Kind: "disagreement", Op: it.line, Model: f[1], Detail: "unreadable tree from rx.write"})
				return
			}
			// the theorem instance: the denotation of the written tree is the graph up to renaming
			if !strings.HasPrefix(f[2], "ok ") || !vh.IsomorphicMulti(quadsOfWire(wireTriples(f[2][3:])), quadsOfWire(it.triples)) {
				h.add(vh.Case{Kind: "disagreement", Op: it.line, Model: f[2], Go: joinWire(it.triples), Detail: "RX.denoteDoc (RX.writeAuto g k) is not isomorphic to g (C09.writeAuto_denote says it is, for graphs of the fragment)"})
				return
			}
			h.mu.Lock()
			h.rep.Eval(it.line, len(it.triples) > 0)
			h.mu.Unlock()
			intended := it.triples
			if intended == nil {
				intended = []string{}
			}
			for k := 0; k < perGraph; k++ {
				c := docCase{origin: "graph", base: it.base, tree: tree, intended: intended, wf: true, denote: f[2], denoteIso: true, plan: it.line}
				c.doc = Serialise(it.rng, tree, false, serHist)
				h.evaluate(&c)
			}
		}, h)
		h.resolvePending(d)
	}
}

// par runs f(i) for i < m on all CPUs; each worker has its own histogram, merged into ser:* at the end.
func par(m int, f func(i int, hist map[string]int), h *harness) {
	var wg sync.WaitGroup
	nw := runtime.NumCPU()
	for w := 0; w < nw; w++ {
		wg.Add(1)
		go func(w int) {
			defer wg.Done()
			local := map[string]int{}
			for i := w; i < m; i += nw {
				f(i, local)
			}
			h.mu.Lock()
			for k, v := range local {
				h.rep.Hist["ser:"+k] += v
			}
			h.mu.Unlock()
		}(w)
	}
	wg.Wait()
}
