/-
  Property C02, DOCUMENT level, NESTED-RESOURCE mode at every nesting depth (theorems only; proofs in
  RdfModel/Proofs/C02DocNest*.lean, C02DocDP.lean, C02DocPermIso.lean, C02DocPrintTok.lean).

  Route: the text `AddResource … Close` writes (`TtlEnc.encodeResourceListWith`, the model the driver
  runs as component `ttle`) IS the printed form `TA.print` (Spec/TurtleAbstract.lean) of an abstract
  document — `[ … ]` blank-node property lists, `( … )` collections (repaired list decision, D7), `[]`,
  anonymous roots `[] p o .`, `;` / `,` lists, `a`, the encoder's tab / line-feed layout as slot layouts,
  the encoder's escapes as spelling choices (Proofs/C02DocPrintTok.lean) — that satisfies the hypotheses
  of C08 `decode_print_partial` (no glued keyword: the encoder always writes white space after `a`;
  no `true…`/`false…` prefix label and no U+1680 in a label: `labelSafe`); so the decoder model reads
  exactly what the document denotes, fresh blank nodes numbered by opening bracket in document order.
  The denotation is the flattening (`Desc.newTriplesList`, C17) of a DEEP PERMUTATION of the resource list
  (statements regrouped by predicate at every level, sections possibly sorted, resources without
  statements dropped), and flattening is invariant under deep permutation up to graph isomorphism
  (`Proofs.C02Doc.newTriplesList_iso_of_RP`).

  PROVED
    * `nested_doc_roundtrip`  EVERY configuration (buffered or not, sorted or not, `@` / SPARQL / disabled
        directives with base and prefix kinds independent, disabled kinds handed to the decoder as defaults,
        header with all prefixes or the used ones) and every resource list of well-formed terms at ANY
        nesting depth (`[ … ]`, `( … )`, empty `[]`, anonymous roots, resources without statements): the
        encoder does not fail, the decoder accepts, and the decoded graph is isomorphic to the graph the
        resource list stands for (`Resource.NewTriples`, `Desc.newTriplesList rs 0`).
        Hypotheses = those of `plain_doc_roundtrip` (`ConfigOK`, `LabelOK`, terms well-formed: `ResourceOK`);
        C08's three exclusions are implied: the encoder writes white space after every keyword, and
        `labelSafe` excludes `true…`/`false…` labels and U+1680.
    * `nested_doc_roundtrip_hdr_partial` the same with the header as a hypothesis (`HdrOK`), and
      `nested_doc_roundtrip_partial`, its instance for the directive-disabled buffered configurations.
    * `buffered_resources_roundtrip`  composition with C17 `flatten_export_repaired`: the
        BufferedTriplesEncoder (`encodeResourcesWith`: build, export with default options in any two
        iteration orders, AddResource, Close) round-trips to a graph isomorphic to the INPUT TRIPLES, for
        every list of well-formed triples (`TripleOK`; the exported trees inherit it:
        Proofs/C02DocNestExport.lean) and every configuration;
    * `resources_doc_roundtrip_holds`  the full statement `C02.resources_doc_roundtrip` of Props/C02Doc.lean
        (tables regenerated from /repo, the decoder configuration the driver runs).
  The theorems are about the REPAIRED code (`d7 = false`: list decision after fix D7; token layer after
  D4–D6; decoder after D42/D44) and carry the same hypotheses as `plain_doc_roundtrip`.
-/
import RdfModel.Proofs.C02DocNestHdr
import RdfModel.Proofs.C02DocNestExport
import RdfModel.Proofs.C02DocPrintTok
import RdfModel.Props.C02Doc
import RdfModel.Props.C08DocTables
import RdfModel.Props.C17
namespace RdfModel.C02
open RdfModel RdfModel.Ttl RdfModel.TtlEnc RdfModel.TtlDoc RdfModel.Desc

/-- the encoder's spellings are printer spellings (token level, Proofs/C02DocPrintTok.lean) -/
theorem tokPrint_of (T : Tables) (hT : TablesOK T) (hP : Proofs.C02Doc.PrintTablesOK T) : Proofs.C02Doc.TokPrint T where
  iri := Proofs.C02Doc.print_iri_eq T hT
  str := Proofs.C02Doc.print_string_eq T hT hP
  loc := Proofs.C02Doc.print_local_eq T hT

/-- the decoder configuration the driver runs satisfies C02's and C08's assumptions -/
theorem docCfg_nest_ok : Proofs.C02Doc.NestCfgOK docCfg Gen.turtle where
  c02 := docCfg_ok
  c08 := C08.cfgOK_real false docResolve
  og := by decide

/-- Nested-resource mode, every configuration, given the header (see the file header). -/
theorem nested_doc_roundtrip_hdr_partial {β : Type} [DecidableEq β] (C : Cfg) (T : Tables) (hT : DocTablesOK T)
    (hT2 : C08.TablesOK2 T) (hP : Proofs.C02Doc.PrintTablesOK T) (hC : Proofs.C02Doc.NestCfgOK C T) (cfg : Config)
    (pm : Prefix.PM) (label : β → List Nat) (hcfg : ConfigOK C.isSpace T cfg pm) (hlbl : LabelOK T label)
    (rs : List (Resource β)) (hrs : ∀ r ∈ rs, ResourceOK (ctxOf T cfg pm label) cfg.base r)
    (hU : cfg.isBuffered = false → Proofs.C02Doc.HdrOK T C cfg.base pm (headerUnbuffered cfg pm) (defaultBase cfg)
      (defaultPrefixes cfg pm) (fun _ => True))
    (hB : cfg.isBuffered = true → ∀ used : List (List Nat), Proofs.C02Doc.HdrOK T C cfg.base pm
      (headerBuffered cfg pm used) (defaultBase cfg) (defaultPrefixes cfg pm) (fun l => l ∈ used)) :
    ∃ (doc : List Nat) (out : List Stmt) (tr : List (Triple BN)),
      encodeResourceListWith T false cfg pm label rs = some (.ok doc) ∧
      run C .eof (defaultBase cfg) (defaultPrefixes cfg pm) doc = (out, .clean) ∧
      out.map tripleOfStmt = tr.map some ∧ Spec.Iso tr (newTriplesList rs 0).1 :=
  Proofs.C02Doc.nested_roundtrip_hdr hT hT2 hC (tokPrint_of T hT.tok hP) cfg pm label hcfg hlbl rs hrs hU hB

/-- Nested-resource mode at every nesting depth, directive-disabled buffered configurations: the
    encoder does not fail, the decoder (given base and prefix table as defaults) accepts, and the decoded
    graph is isomorphic to the graph the resource list stands for (`Resource.NewTriples`). -/
theorem nested_doc_roundtrip_partial {β : Type} [DecidableEq β] (C : Cfg) (T : Tables) (hT : DocTablesOK T)
    (hT2 : C08.TablesOK2 T) (hP : Proofs.C02Doc.PrintTablesOK T) (hC : Proofs.C02Doc.NestCfgOK C T) (cfg : Config)
    (pm : Prefix.PM) (label : β → List Nat) (hcfg : ConfigOK C.isSpace T cfg pm) (hlbl : LabelOK T label)
    (hbuf : cfg.isBuffered = true) (hb : cfg.baseMode = some .disabled) (hp : cfg.prefixMode = some .disabled)
    (rs : List (Resource β)) (hrs : ∀ r ∈ rs, ResourceOK (ctxOf T cfg pm label) cfg.base r) :
    ∃ (doc : List Nat) (out : List Stmt) (tr : List (Triple BN)),
      encodeResourceListWith T false cfg pm label rs = some (.ok doc) ∧
      run C .eof (defaultBase cfg) (defaultPrefixes cfg pm) doc = (out, .clean) ∧
      out.map tripleOfStmt = tr.map some ∧ Spec.Iso tr (newTriplesList rs 0).1 :=
  nested_doc_roundtrip_hdr_partial C T hT hT2 hP hC cfg pm label hcfg hlbl rs hrs
    (fun h => by rw [hbuf] at h; cases h)
    (fun _ used => Proofs.C02Doc.hdr_disabled cfg pm hcfg hb hp used _)

/-- Nested-resource mode, EVERY configuration, every nesting depth (see the file header). -/
theorem nested_doc_roundtrip {β : Type} [DecidableEq β] (C : Cfg) (T : Tables) (hT : DocTablesOK T)
    (hT2 : C08.TablesOK2 T) (hP : Proofs.C02Doc.PrintTablesOK T) (hC : Proofs.C02Doc.NestCfgOK C T) (cfg : Config)
    (pm : Prefix.PM) (label : β → List Nat) (hcfg : ConfigOK C.isSpace T cfg pm) (hlbl : LabelOK T label)
    (rs : List (Resource β)) (hrs : ∀ r ∈ rs, ResourceOK (ctxOf T cfg pm label) cfg.base r) :
    ∃ (doc : List Nat) (out : List Stmt) (tr : List (Triple BN)),
      encodeResourceListWith T false cfg pm label rs = some (.ok doc) ∧
      run C .eof (defaultBase cfg) (defaultPrefixes cfg pm) doc = (out, .clean) ∧
      out.map tripleOfStmt = tr.map some ∧ Spec.Iso tr (newTriplesList rs 0).1 :=
  nested_doc_roundtrip_hdr_partial C T hT hT2 hP hC cfg pm label hcfg hlbl rs hrs
    (fun _ => Proofs.C02Doc.hdr_unbuffered hC hcfg) (fun _ used => Proofs.C02Doc.hdr_buffered hC hcfg used)

/-- … for the tables regenerated from /repo and the decoder configuration the driver runs -/
theorem nested_doc_roundtrip_real {β : Type} [DecidableEq β] (cfg : Config) (pm : Prefix.PM) (label : β → List Nat)
    (hcfg : ConfigOK docCfg.isSpace Gen.turtle cfg pm) (hlbl : LabelOK Gen.turtle label)
    (rs : List (Resource β)) (hrs : ∀ r ∈ rs, ResourceOK (ctxOf Gen.turtle cfg pm label) cfg.base r) :
    ∃ (doc : List Nat) (out : List Stmt) (tr : List (Triple BN)),
      encodeResourceListWith Gen.turtle false cfg pm label rs = some (.ok doc) ∧
      run docCfg .eof (defaultBase cfg) (defaultPrefixes cfg pm) doc = (out, .clean) ∧
      out.map tripleOfStmt = tr.map some ∧ Spec.Iso tr (newTriplesList rs 0).1 :=
  nested_doc_roundtrip docCfg Gen.turtle gen_turtle_doc_ok C08.gen_turtle_ok2 Proofs.C02Doc.gen_turtle_print_ok
    docCfg_nest_ok cfg pm label hcfg hlbl rs hrs

theorem iso_trans {α γ δ : Type} {a : List (Triple δ)} {b : List (Triple γ)} {c : List (Triple α)}
    (h1 : Spec.Iso a b) (h2 : Spec.Iso b c) : Spec.Iso a c := by
  obtain ⟨f, hf, hp1⟩ := h1
  obtain ⟨g, hg, hp2⟩ := h2
  refine ⟨f ∘ g, hf.comp hg, hp1.trans ?_⟩
  have := hp2.map (Triple.map f)
  simpa [List.map_map, Function.comp_def, Proofs.C02Doc.triple_map_map] using this

/-- BufferedTriplesEncoder (turtlerdfio with `resources=true`): composition with C17, every
    configuration, both iteration orders of the subject map. -/
theorem buffered_resources_roundtrip {β : Type} [DecidableEq β] (C : Cfg) (T : Tables) (hT : DocTablesOK T)
    (hT2 : C08.TablesOK2 T) (hP : Proofs.C02Doc.PrintTablesOK T) (hC : Proofs.C02Doc.NestCfgOK C T) (cfg : Config)
    (pm : Prefix.PM) (label : β → List Nat) (hcfg : ConfigOK C.isSpace T cfg pm) (hlbl : LabelOK T label)
    (ord1 ord2 : List (Term β)) (ts : List (Triple β))
    (hts : ∀ t ∈ ts, TripleOK (ctxOf T cfg pm label) cfg.base t)
    (hord1 : ord1.Perm (build ts).subjects) (hord2 : ord2.Perm (build ts).subjects) :
    ∃ (doc : List Nat) (out : List Stmt) (tr : List (Triple BN)),
      encodeResourcesWith T false cfg pm label ord1 ord2 ts = some (.ok doc) ∧
      run C .eof (defaultBase cfg) (defaultPrefixes cfg pm) doc = (out, .clean) ∧
      out.map tripleOfStmt = tr.map some ∧ Spec.Iso tr ts := by
  obtain ⟨rs, hrs, hiso⟩ := C17.flatten_export_repaired ts Opts.default ord1 ord2 hord1 hord2 0
  obtain ⟨doc, out, tr, h1, h2, h3, h4⟩ := nested_doc_roundtrip C T hT hT2 hP hC cfg pm label hcfg hlbl rs
    (Proofs.C02Doc.export_ok ts hts Opts.default ord1 ord2 hord1 hord2 _ rs hrs)
  refine ⟨doc, out, tr, ?_, h2, h3, iso_trans h4 hiso⟩
  simp only [encodeResourcesWith, hrs, h1]

/-- The full nested-resource statement of Props/C02Doc.lean holds. -/
theorem resources_doc_roundtrip_holds : resources_doc_roundtrip := by
  intro β _ cfg pm label ord1 ord2 ts hcfg hlbl hts hord1 hord2
  exact buffered_resources_roundtrip docCfg Gen.turtle gen_turtle_doc_ok C08.gen_turtle_ok2
    Proofs.C02Doc.gen_turtle_print_ok docCfg_nest_ok cfg pm label hcfg hlbl ord1 ord2 ts hts hord1 hord2

/-! ### Non-vacuity -/

namespace NestExample

/-- both directive kinds disabled, buffered, sorted -/
def cfg : Config :=
  { base := some (asc "http://e/a/b"),
    prefixes := [⟨asc "ex", asc "http://e/x/"⟩, ⟨asc "base", asc "urn:x:"⟩],
    buffered := some true, baseMode := some .disabled, prefixMode := some .disabled }

def pm : Prefix.PM := Prefix.new Prefix.mergeSorter cfg.prefixes

theorem cfg_ok : ConfigOK docCfg.isSpace Gen.turtle cfg pm where
  agree := new_pm_agree _ _
  labels := by decide
  ns := by decide
  base := by
    intro b hb
    have : b = asc "http://e/a/b" := by simpa [cfg] using hb.symm
    subst this
    decide
  empty := by decide

/-- `ex:s ex:p [ a ex:C ; base:q ( 1 [] ) ] .` and an anonymous root `[] base:q "x"@en .` -/
def rs : List (Resource Bool) :=
  [.subject (some (.iri (asc "http://e/x/s")))
    [.anon (asc "http://e/x/p")
      [.obj (asc "urn:x:q") (.bnode true),
       .obj TtlEnc.rdfType (.iri (asc "http://e/x/C")),
       .anon (asc "urn:x:q")
         [.obj Desc.rdfFirst (.lit (asc "1") xsdInteger none),
          .anon Desc.rdfRest [.anon Desc.rdfFirst [], .obj Desc.rdfRest (.iri Desc.rdfNil)]]]],
   .anon [.obj (asc "urn:x:q") (.lit (asc "x") rdfLangString (some (asc "en")))]]

set_option maxRecDepth 20000 in
/-- what the encoder writes for it -/
example : encodeResourceListWith Gen.turtle false cfg pm Example.label rs = some (.ok (asc (
    "[] base:q \"x\"@en .\n" ++
    "ex:s ex:p [\n\ta ex:C ;\n\tbase:q\n\t\t_:b1 ,\n\t\t(\n\t\t\t1\n\t\t\t[]\n\t\t)\n] .\n"))) := by decide

set_option maxRecDepth 20000 in
theorem rs_ok : ∀ r ∈ rs, ResourceOK (ctxOf Gen.turtle cfg pm Example.label) cfg.base r := by
  intro r hr
  simp only [rs, List.mem_cons, List.mem_nil_iff, or_false] at hr
  rcases hr with rfl | rfl
  · simp only [ResourceOK, StmtsOK, StmtOK, subjectOK, objectOK, litOK, iriTermOK, and_true]
    decide
  · simp only [ResourceOK, StmtsOK, StmtOK, subjectOK, objectOK, litOK, iriTermOK, and_true]
    decide

/-- the theorem applies to the example -/
example : ∃ (doc : List Nat) (out : List Stmt) (tr : List (Triple BN)),
    encodeResourceListWith Gen.turtle false cfg pm Example.label rs = some (.ok doc) ∧
    run docCfg .eof (defaultBase cfg) (defaultPrefixes cfg pm) doc = (out, .clean) ∧
    out.map tripleOfStmt = tr.map some ∧ Spec.Iso tr (newTriplesList rs 0).1 :=
  nested_doc_roundtrip_real cfg pm Example.label cfg_ok Example.label_ok rs rs_ok

end NestExample

end RdfModel.C02
