/-
  C20 helper lemmas: boolean, the string-like types, and soundness of the lexical checks of
  decimal/double/float (the hand-written models of the Go regular expressions accept only what the
  independent recognisers of Spec.XsdLexical accept — in fact the same language).
-/
import RdfModel.Proofs.C20Int
namespace RdfModel.Proofs.C20
open RdfModel RdfModel.Xsd RdfModel.C20
open RdfModel.Spec.Xsd (Dt collapse collapseGo isWs boolLex canonBool bTrue bFalse)

/-! ### boolean -/

structure BoolFactP (f : BoolFact) : Prop where
  collapse : f.collapse = true
  tc : f.trueCases = [bTrue, [0x31]]
  fc : f.falseCases = [bFalse, [0x30]]
  lt : f.lexTrue = bTrue
  lf : f.lexFalse = bFalse
  et : f.eqTrue = bTrue
  ef : f.eqFalse = bFalse
  dt : f.datatype = dtIRI .boolean
  same : f.eqDatatypeSame = true

theorem boolFactOK_elim {f : BoolFact} (h : boolFactOK f = true) : BoolFactP f := by
  simp only [boolFactOK, Bool.and_eq_true, beq_iff_eq] at h
  obtain ⟨⟨⟨⟨⟨⟨⟨⟨h1, h2⟩, h3⟩, h4⟩, h5⟩, h6⟩, h7⟩, h8⟩, h9⟩ := h
  exact ⟨h1, h2, h3, h4, h5, h6, h7, h8, h9⟩

/-- MapBoolean computes exactly the lexical mapping of xsd:boolean on the collapsed string -/
theorem mapBool_spec {f : BoolFact} (hf : BoolFactP f) (s : Bytes) :
    mapBool f s = match boolLex (collapse s) with | some v => .ok v | none => .error .syntax := by
  unfold mapBool argOf boolLex
  simp only [hf.collapse, if_true, hf.tc, hf.fc, collapse_spec, List.contains_cons, List.contains_nil,
    Bool.or_false, Bool.or_eq_true, beq_iff_eq]
  by_cases h1 : collapse s = bTrue ∨ collapse s = [0x31]
  · simp [h1]
  · by_cases h2 : collapse s = bFalse ∨ collapse s = [0x30]
    · simp [h1, h2]
    · simp [h1, h2]

theorem canonBool_noWs (v : Bool) : NoWs (canonBool v) := by
  cases v <;> (unfold NoWs; decide)

theorem boolLex_canon (v : Bool) : boolLex (canonBool v) = some v := by cases v <;> decide

theorem termEqualsBool_spec {f : BoolFact} (hf : BoolFactP f) (v : Bool) (t : TermArg) :
    termEqualsBool f v t = some (decide (t = .literal (dtIRI .boolean) (canonBool v))) := by
  cases t with
  | notLiteral => simp [termEqualsBool]
  | literal dt lex =>
    simp only [termEqualsBool, hf.same, hf.dt, hf.et, hf.ef]
    by_cases hd : dt = dtIRI .boolean
    · subst hd
      cases v <;> simp [canonBool]
    · simp [hd]

/-! ### model recognisers of the regular expressions = spec recognisers -/

theorem isDigit_eq : Xsd.isDigit = Spec.Xsd.isDigit := rfl

theorem spanDigits_eq (s : Bytes) : Xsd.spanDigits s = Spec.Xsd.spanDigits s := by
  induction s with
  | nil => rfl
  | cons b r ih => simp only [Xsd.spanDigits, Spec.Xsd.spanDigits, isDigit_eq, ih]

theorem optSign_eq (s : Bytes) : optSign s = Spec.Xsd.dropSign s := by
  cases s <;> rfl

theorem spanDigits_nondigit {c : Nat} {r : Bytes} (h : Spec.Xsd.isDigit c = false) :
    Spec.Xsd.spanDigits (c :: r) = ([], c :: r) := by
  simp [Spec.Xsd.spanDigits, h]

theorem spanDigits_fst_nil {s : Bytes} (h : (Spec.Xsd.spanDigits s).1 = []) :
    Spec.Xsd.spanDigits s = ([], s) := by
  cases s with
  | nil => rfl
  | cons c r =>
    by_cases hc : Spec.Xsd.isDigit c = true
    · simp [Spec.Xsd.spanDigits, hc] at h
    · simp [Spec.Xsd.spanDigits, hc]

/-- `([0-9]+(\.[0-9]*)?|\.[0-9]+)` as modelled = the numeral production of the spec -/
theorem reNumeral_eq (s : Bytes) : reNumeral s = Spec.Xsd.unsignedNumeral s := by
  unfold reNumeral Spec.Xsd.unsignedNumeral
  cases s with
  | nil => simp [Xsd.spanDigits, Spec.Xsd.spanDigits]
  | cons c r =>
    by_cases hdot : c = 0x2E
    · subst hdot
      have : Spec.Xsd.spanDigits (0x2E :: r) = ([], 0x2E :: r) := spanDigits_nondigit (by decide)
      simp only [this, spanDigits_eq]
      simp
    · simp only [spanDigits_eq]
      by_cases hi : (Spec.Xsd.spanDigits (c :: r)).1 = []
      · have h2 := spanDigits_fst_nil hi
        simp only [h2]
        split
        · next heq => simp at heq; exact absurd heq.1 hdot
        · simp
      · cases hsp : Spec.Xsd.spanDigits (c :: r) with
        | mk i rest =>
          rw [hsp] at hi
          simp only at hi
          split
          · next heq => simp at heq; exact absurd heq.1 hdot
          · have hie : i.isEmpty = false := by cases i <;> simp at hi ⊢
            simp only [hie, Bool.false_eq_true, if_false, Bool.false_and]
            split <;> simp_all

theorem reDecimal_eq (s : Bytes) : reDecimal s = Spec.Xsd.decimalLexOK s := by
  unfold reDecimal Spec.Xsd.decimalLexOK
  rw [reNumeral_eq, optSign_eq]
  cases h : Spec.Xsd.unsignedNumeral (Spec.Xsd.dropSign s) with
  | none => simp
  | some r => cases r <;> simp

theorem span_rest_empty (x : Bytes) :
    (Spec.Xsd.spanDigits x).2.isEmpty = x.all Spec.Xsd.isDigit := by
  induction x with
  | nil => rfl
  | cons c r ih =>
    by_cases hc : Spec.Xsd.isDigit c = true
    · simp [Spec.Xsd.spanDigits, hc, ih]
    · simp [Spec.Xsd.spanDigits, hc]

theorem span_digits1 (x : Bytes) :
    (!(Spec.Xsd.spanDigits x).1.isEmpty && (Spec.Xsd.spanDigits x).2.isEmpty) = Spec.Xsd.digits1 x := by
  cases x with
  | nil => rfl
  | cons c r =>
    by_cases hc : Spec.Xsd.isDigit c = true
    · have := span_rest_empty r
      simp [Spec.Xsd.spanDigits, hc, Spec.Xsd.digits1, this]
    · simp [Spec.Xsd.spanDigits, hc, Spec.Xsd.digits1]

theorem reDouble_eq (s : Bytes) : reDouble s = Spec.Xsd.doubleLexOK s := by
  unfold reDouble Spec.Xsd.doubleLexOK
  rw [reNumeral_eq, optSign_eq]
  have hnan : (s == [0x4E, 0x61, 0x4E]) = decide (s = Spec.Xsd.bNaN) := by
    unfold Spec.Xsd.bNaN
    cases h : (s == [0x4E, 0x61, 0x4E]) <;> simp_all
  have hinf : (Spec.Xsd.dropSign s == [0x49, 0x4E, 0x46]) = decide (Spec.Xsd.dropSign s = Spec.Xsd.bINF) := by
    unfold Spec.Xsd.bINF
    cases h : (Spec.Xsd.dropSign s == [0x49, 0x4E, 0x46]) <;> simp_all
  rw [hnan, hinf]
  by_cases h1 : s = Spec.Xsd.bNaN
  · simp [h1]
  · by_cases h2 : Spec.Xsd.dropSign s = Spec.Xsd.bINF
    · simp [h1, h2]
    · simp only [h1, h2, decide_false, Bool.or_false, if_false]
      cases h : Spec.Xsd.unsignedNumeral (Spec.Xsd.dropSign s) with
      | none => rfl
      | some r =>
        cases r with
        | nil => rfl
        | cons e r' =>
          simp only [spanDigits_eq, optSign_eq]
          have := span_digits1 (Spec.Xsd.dropSign r')
          cases hsp : Spec.Xsd.spanDigits (Spec.Xsd.dropSign r') with
          | mk d rest =>
            rw [hsp] at this
            simp only at this
            simp only [this]
            by_cases he1 : e = 0x65 <;> by_cases he2 : e = 0x45 <;> simp [he1, he2]

theorem isHex_eq : Xsd.isHex = Spec.Xsd.isHexDigit := rfl

theorem reHexBinary_eq (s : Bytes) : reHexBinary s = Spec.Xsd.hexBinaryLexOK s := by
  unfold Spec.Xsd.hexBinaryLexOK
  induction s using reHexBinary.induct with
  | case1 => rfl
  | case2 x => simp [reHexBinary]
  | case3 a b r ih =>
    simp only [reHexBinary, ih, isHex_eq, List.length_cons, List.all_cons]
    have : (r.length + 1 + 1) % 2 = r.length % 2 := by omega
    rw [this]
    cases Spec.Xsd.isHexDigit a <;> cases Spec.Xsd.isHexDigit b <;> simp

theorem isB64_eq : Xsd.isB64 = Spec.Xsd.isB64 := rfl

theorem b64Item_cons (c : Nat) (r : Bytes) :
    Spec.Xsd.b64Item (c :: r) = if Spec.Xsd.isB64 c = true then some (c, sp? r) else none := by
  unfold Spec.Xsd.b64Item
  by_cases hc : Spec.Xsd.isB64 c = true
  · simp only [hc, if_true]
    cases r with
    | nil => rfl
    | cons b r' => by_cases hb : b = 0x20 <;> simp [sp?, hb]
  · simp [hc]

theorem b64Item_nil : Spec.Xsd.b64Item [] = none := rfl

theorem reBase64_eq (fuel : Nat) : ∀ s, reBase64 fuel s = Spec.Xsd.b64Go fuel s := by
  induction fuel with
  | zero => intro s; rfl
  | succ f ih =>
    intro s
    unfold reBase64 Spec.Xsd.b64Go
    cases s with
    | nil => rfl
    | cons c1 r1 =>
      simp only [List.isEmpty_cons, Bool.false_eq_true, if_false, b64Item_cons, isB64_eq]
      by_cases h1 : Spec.Xsd.isB64 c1 = true
      · simp only [h1, Bool.not_true, Bool.false_eq_true, if_false, if_true]
        cases hs1 : sp? r1 with
        | nil => simp [b64Item_nil]
        | cons c2 r2 =>
          simp only [b64Item_cons]
          by_cases h2 : Spec.Xsd.isB64 c2 = true
          · simp only [h2, Bool.not_true, Bool.false_eq_true, if_false, if_true]
            by_cases hp : sp? r2 = [0x3D, 0x3D] ∨ sp? r2 = [0x3D, 0x20, 0x3D]
            · simp only [hp, if_true]; rfl
            · simp only [hp, if_false]
              cases hs2 : sp? r2 with
              | nil => simp [b64Item_nil]
              | cons c3 r3 =>
                simp only [b64Item_cons]
                by_cases h3 : Spec.Xsd.isB64 c3 = true
                · simp only [h3, Bool.not_true, Bool.false_eq_true, if_false, if_true]
                  by_cases hq : sp? r3 = [0x3D]
                  · simp only [hq, if_true]; rfl
                  · simp only [hq, if_false]
                    cases hs3 : sp? r3 with
                    | nil => simp [b64Item_nil]
                    | cons c4 r4 =>
                      simp only [b64Item_cons]
                      by_cases h4 : Spec.Xsd.isB64 c4 = true
                      · simp [h4, ih]
                      · simp [h4]
                · simp [h3]
          · simp [h2]
      · simp [h1]

theorem reBase64_spec (s : Bytes) : reBase64 s.length s = Spec.Xsd.base64LexOK s :=
  reBase64_eq _ s

/-! ### whiteSpace collapse is idempotent -/

theorem collapseGo_idem (s : Bytes) :
    collapseGo .inWord (collapseGo .inWord s) = collapseGo .inWord s ∧
    collapseGo .inWord (collapseGo .pending s) = collapseGo .pending s := by
  induction s with
  | nil => simp [collapseGo]
  | cons b r ih =>
    obtain ⟨ih1, ih2⟩ := ih
    cases hb : isWs b with
    | true => simp only [collapseGo, hb, if_true]; exact ⟨ih2, ih2⟩
    | false =>
      have h20 : isWs 0x20 = true := by decide
      constructor
      · simp only [collapseGo, hb, Bool.false_eq_true, if_false, ih1]
      · simp only [collapseGo, hb, h20, Bool.false_eq_true, if_false, if_true, ih1]

theorem collapse_idem (s : Bytes) : collapse (collapse s) = collapse s := by
  unfold collapse
  induction s with
  | nil => rfl
  | cons b r ih =>
    cases hb : isWs b with
    | true => simp only [collapseGo, hb, if_true]; exact ih
    | false => simp only [collapseGo, hb, Bool.false_eq_true, if_false, (collapseGo_idem r).1]

/-! ### string-like types -/

structure StrFactP (T : StrTy) (f : StrFact) : Prop where
  collapse : f.collapse = (T != .string)
  re : f.lexRE = expStrRE T
  dt : f.datatype = dtIRI T.dt
  same : f.eqDatatypeSame = true

theorem strFactOK_elim {T : StrTy} {f : StrFact} (h : strFactOK T f = true) : StrFactP T f := by
  simp only [strFactOK, Bool.and_eq_true, beq_iff_eq] at h
  obtain ⟨⟨⟨h1, h2⟩, h3⟩, h4⟩ := h
  exact ⟨h1, h2, h3, h4⟩

/-- the lexical check each string-like Map function is expected to make, by the spec's recogniser -/
def strCheck (T : StrTy) (a : Bytes) : Bool :=
  match T with
  | .anyURI | .string => true
  | .hexBinary => Spec.Xsd.hexBinaryLexOK a
  | .base64Binary => Spec.Xsd.base64LexOK a

theorem argOf_str {T : StrTy} {f : StrFact} (hf : StrFactP T f) (s : Bytes) :
    argOf f.collapse s = Spec.Xsd.normalize T.dt s := by
  rw [hf.collapse]
  cases T <;> simp [argOf, Spec.Xsd.normalize, StrTy.dt, collapse_spec]

set_option maxRecDepth 8192 in
theorem reSrc_distinct :
    reHexBinarySrc ≠ reDecimalSrc ∧ reHexBinarySrc ≠ reDoubleSrc ∧ reBase64Src ≠ reDecimalSrc ∧
    reBase64Src ≠ reDoubleSrc ∧ reBase64Src ≠ reHexBinarySrc ∧ reDoubleSrc ≠ reDecimalSrc := by decide

theorem mapStr_spec {T : StrTy} {f : StrFact} (hf : StrFactP T f) (s : Bytes) :
    mapStr f s =
      if strCheck T (Spec.Xsd.normalize T.dt s) then .ok (Spec.Xsd.normalize T.dt s) else .error .syntax := by
  obtain ⟨d1, d2, d3, d4, d5, d6⟩ := reSrc_distinct
  unfold mapStr
  rw [argOf_str hf, hf.re]
  cases T with
  | anyURI => simp [expStrRE, reCheck, strCheck]
  | string => simp [expStrRE, reCheck, strCheck]
  | hexBinary =>
    simp only [expStrRE, reCheck, strCheck, d1, d2, if_false, if_true, reHexBinary_eq]
    by_cases hc : Spec.Xsd.hexBinaryLexOK (Spec.Xsd.normalize StrTy.hexBinary.dt s) = true <;> simp [hc]
  | base64Binary =>
    simp only [expStrRE, reCheck, strCheck, d3, d4, d5, if_false, if_true, reBase64_spec]
    by_cases hc : Spec.Xsd.base64LexOK (Spec.Xsd.normalize StrTy.base64Binary.dt s) = true <;> simp [hc]

theorem termEqualsStr_spec {T : StrTy} {f : StrFact} (hf : StrFactP T f) (v : Bytes) (t : TermArg) :
    termEqualsStr f v t = some (decide (t = .literal (dtIRI T.dt) v)) := by
  cases t with
  | notLiteral => simp [termEqualsStr]
  | literal dt lex =>
    simp only [termEqualsStr, hf.same, hf.dt]
    by_cases hd : dt = dtIRI T.dt
    · subst hd
      by_cases hl : lex = v <;> simp [hl]
    · simp [hd]

/-! ### decimal / double / float: the lexical check before strconv.ParseFloat -/

structure FloatFactP (T : FloatTy) (f : FloatFact) : Prop where
  collapse : f.collapse = true
  parser : f.parser = .parseFloat
  bits : f.bitSize = (if T = .float then 32 else 64)
  re : f.lexRE = some (expFloatRE T)
  objFmt : f.objFmt = (if T = .decimal then .formatFloat else .formatDouble)
  objBits : f.objBits = f.bitSize
  eqFmt : f.eqFmt = f.objFmt
  eqBits : f.eqBits = f.bitSize
  dt : f.datatype = dtIRI T.dt
  same : f.eqDatatypeSame = true

theorem floatFactOK_elim {T : FloatTy} {f : FloatFact} (h : floatFactOK T f = true) : FloatFactP T f := by
  simp only [floatFactOK, Bool.and_eq_true, beq_iff_eq] at h
  obtain ⟨⟨⟨⟨⟨⟨⟨⟨⟨h1, h2⟩, h3⟩, h4⟩, h5⟩, h6⟩, h7⟩, h8⟩, h9⟩, h10⟩ := h
  exact ⟨h1, h2, h3, h4, h5, h6, h7, h8, h9, h10⟩

/-- the lexical check of a float-family Map function = the spec's recogniser of that datatype -/
theorem floatCheck_spec {T : FloatTy} {f : FloatFact} (hf : FloatFactP T f) (a : Bytes) :
    reCheck f.lexRE a = if Spec.Xsd.lexOK T.dt a then .pass else .fail := by
  obtain ⟨d1, d2, d3, d4, d5, d6⟩ := reSrc_distinct
  rw [hf.re]
  cases T with
  | decimal => simp only [expFloatRE, reCheck, if_true, reDecimal_eq]; rfl
  | double => simp only [expFloatRE, reCheck, d6, if_false, if_true, reDouble_eq]; rfl
  | float => simp only [expFloatRE, reCheck, d6, if_false, if_true, reDouble_eq]; rfl

theorem mapFloat_sound {T : FloatTy} {f : FloatFact} (hf : FloatFactP T f) {s : Bytes} {v : FVal}
    (h : mapFloat f s = .ok v) : Spec.Xsd.accepts T.dt s = true := by
  unfold mapFloat argOf at h
  simp only [hf.collapse, if_true, collapse_spec, floatCheck_spec hf] at h
  have hn : Spec.Xsd.normalize T.dt s = collapse s := by cases T <;> rfl
  unfold Spec.Xsd.accepts
  rw [hn]
  by_cases hl : Spec.Xsd.lexOK T.dt (collapse s) = true
  · exact hl
  · simp [hl] at h

/-- conversely the Map function fails only for a string outside the lexical space or for a range error -/
theorem mapFloat_complete {T : FloatTy} {f : FloatFact} (hf : FloatFactP T f) {s : Bytes}
    (h : Spec.Xsd.accepts T.dt s = true) :
    mapFloat f s = parseFloat (collapse s) (if T = .float then 32 else 64) := by
  have hn : Spec.Xsd.normalize T.dt s = collapse s := by cases T <;> rfl
  unfold Spec.Xsd.accepts at h
  rw [hn] at h
  unfold mapFloat argOf
  simp only [hf.collapse, if_true, collapse_spec, floatCheck_spec hf, h, hf.parser, hf.bits]

end RdfModel.Proofs.C20
