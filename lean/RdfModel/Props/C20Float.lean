/-
  Property C20, part F — xsd:decimal / xsd:double / xsd:float, value and output side
  (theorems only; lemmas in RdfModel/Proofs/C20Float*.lean).

  What the Go code is (ontology/xsd/xsdtype/{decimal,double,float}.go, after the repairs 2b4e0f5 and
  f01365c): all three types are binary floating point (`type Decimal float64`!). `Map*` = whiteSpace
  collapse, a regular expression for the lexical space, `strconv.ParseFloat`; the literal is
  `strconv.FormatFloat(v, 'f', -1, bits)` — strconv's shortest decimal expansion of the float printed
  WITHOUT exponent — with `INF` / `-INF` substituted by `formatDouble` for double and float.

  The theorems are about `Model.Xsd` / `Model.XsdFloat`, the functions the driver executes
  (ops `xsdf.*`, compared with the Go code on every run: verdict, exact literal, bit pattern).

  * Input side, decimal — proved in full: success ⇒ lexical space (`decimal_sound`); lexical space ⇒
    success unless the number is beyond the float64 range (`decimal_complete`); the number read is
    EXACTLY the one the XSD lexical mapping assigns (`decimal_value`): sign, all digits as one
    integer, scale = number of fraction digits. The Go value is that number rounded to float64
    (`roundFV`, executable, tied by T3, no theorem about rounding).
  * Output side, all three — proved for EVERY decimal expansion satisfying strconv's post-conditions
    (`decWF`; tied by T3 op `xsdf.wf` on every formatted value): the literal is in the lexical space
    (`decimal_output_in_lexical_space`, `double_output_in_lexical_space`), has the canonical shape of
    an XSD decimal numeral except for `-0` (`decimal_output_canonical`, `double_output_canonical`),
    and denotes exactly the number the expansion denotes (`output_value`).
  * Round trip — `literal_reads_back`: mapping the literal of a well-formed expansion again reads
    exactly the number of the expansion (so idempotence holds iff strconv's shortest expansion rounds
    back to the float, which is strconv's contract, checked by T3 on every value: `_partial`).
  * TermEquals ⇔ the literal (`floatfamily_termEquals`).

  NOT XSD-canonical, by design of the Go code and stated in the theorems: xsd:double / xsd:float
  literals are plain decimal numerals (`100`, `0.000001`, `100000000000000000000000`), not the
  scientific notation of ·doubleCanonicalMap·; negative zero is written `-0` also for xsd:decimal.
-/
import RdfModel.Props.C20FloatDefs
import RdfModel.Proofs.C20FloatOut
import RdfModel.Proofs.C20FloatParse
import RdfModel.Proofs.C20FloatLex
import RdfModel.Proofs.C20FloatExp
namespace RdfModel.C20F
open RdfModel RdfModel.XsdF
open RdfModel.Xsd (Bytes FVal FloatFact FloatTy Facts TermArg TeqRes NumErr mapFloat parseFloat overflows
  termEqualsText Formatter)
open RdfModel.C20 (floatFactOK dtIRI)
open RdfModel.Spec.Xsd (Dt accepts lexOK collapse decimalLex isCanonDecimal)
open RdfModel.Proofs.C20F (Shape fmtF_shape build)

/-! ### output side: every well-formed expansion -/

/-- The literal of a finite value denotes exactly the number of the expansion: the XSD lexical
    mapping of strconv's `%f` rendering gives the sign, `digits · 10^(dp−nd)` and the scale. -/
theorem output_value (d : Dec) (h : decWF d = true) :
    decimalLex (fmtF d) = some (d.neg, (decValue d).1, (decValue d).2) := by
  obtain ⟨ip, fp, dot, S⟩ := fmtF_shape d h
  rw [S.eq, Proofs.C20F.decimalLex_build d.neg ip fp dot S.hi S.hf S.hne S.hfd, S.val, S.scale]

/-- xsd:decimal: the literal of every finite value is in the lexical space of xsd:decimal. -/
theorem decimal_output_in_lexical_space (d : Dec) (h : decWF d = true) :
    lexOK .decimal (formatFloatF (.fin d)) = true := by
  obtain ⟨ip, fp, dot, S⟩ := fmtF_shape d h
  show Spec.Xsd.decimalLexOK (fmtF d) = true
  rw [S.eq]
  exact Proofs.C20F.decimalLexOK_build _ _ _ _ S.hi S.hf S.hne

/-- xsd:double / xsd:float: the literal of every value — NaN, the infinities (`INF`, `-INF`, never
    strconv's `+Inf`), finite values — is in the lexical space. -/
theorem double_output_in_lexical_space (o : FOut) (h : ∀ d, o = .fin d → decWF d = true) :
    lexOK .double (formatDouble o) = true ∧ lexOK .float (formatDouble o) = true := by
  have key : Spec.Xsd.doubleLexOK (formatDouble o) = true := by
    cases o with
    | nan => decide
    | inf neg => cases neg <;> decide
    | fin d =>
      have := decimal_output_in_lexical_space d (h d rfl)
      exact Proofs.C20F.doubleLexOK_of_decimal _ this
  exact ⟨key, key⟩

/-- xsd:decimal: the literal has the shape of the XSD 1.1 canonical representation (no `+`, no
    superfluous leading zeros, no point for an integer, no trailing fraction zeros) — except that
    negative zero is written `-0`. -/
theorem decimal_output_canonical (d : Dec) (h : decWF d = true) :
    isCanonDecimal (formatFloatF (.fin d)) = !(d.neg && d.ds.isEmpty) ∧
    (d.ds = [] → formatFloatF (.fin d) = if d.neg then asc "-0" else asc "0") := by
  obtain ⟨ip, fp, dot, S⟩ := fmtF_shape d h
  refine ⟨?_, ?_⟩
  · show isCanonDecimal (fmtF d) = _
    rw [S.eq, Proofs.C20F.isCanon_build d.neg ip fp dot S.hi S.hf S.hne S.hdot S.hlead]
    by_cases hz : d.ds = []
    · obtain ⟨rfl, rfl⟩ := S.zero.2 hz
      simp [hz]
    · have hnz : ¬ (ip = [0x30] ∧ dot = false) := fun hh => hz (S.zero.1 hh)
      have hde : d.ds.isEmpty = false := by cases hd : d.ds <;> simp_all
      rw [hde]
      cases dot with
      | true => simp
      | false =>
        have : ip ≠ [0x30] := fun hh => hnz ⟨hh, rfl⟩
        simp [this]
  · intro hz
    have hwf := Proofs.C20F.decWF_elim h
    rcases hwf.2 with ⟨_, hdp⟩ | ⟨c, r, hds, _⟩
    · cases d with
      | mk neg ds dp =>
        simp only at hz hdp
        subst hz; subst hdp
        cases neg <;> rfl
    · rw [hz] at hds; simp at hds

/-- xsd:double / xsd:float: the special values are written `NaN`, `INF`, `-INF`; a finite value is
    written as the same canonical decimal numeral as for xsd:decimal (no exponent: this is the Go
    code's canonical form, not XSD's scientific ·doubleCanonicalMap·). -/
theorem double_output_canonical :
    formatDouble .nan = asc "NaN" ∧ formatDouble (.inf false) = asc "INF" ∧
    formatDouble (.inf true) = asc "-INF" ∧
    ∀ d, decWF d = true → formatDouble (.fin d) = fmtF d ∧
      isCanonDecimal (formatDouble (.fin d)) = !(d.neg && d.ds.isEmpty) :=
  ⟨rfl, rfl, rfl, fun d h => ⟨rfl, (decimal_output_canonical d h).1⟩⟩

-- a well-formed expansion (the one of 1.5e-7 printed by strconv) and what the theorems say of it
example : decWF ⟨true, asc "15", -6⟩ = true := by decide
example : fmtF ⟨true, asc "15", -6⟩ = asc "-0.00000015" := by decide
example : decValue ⟨true, asc "15", -6⟩ = (15, 8) := by decide
example : fmtF ⟨false, asc "1", 22⟩ = asc "1000000000000000000000" := by decide
example : decWF ⟨false, asc "150", 2⟩ = false := by decide

/-! ### the formatter named by the facts -/

theorem fmtOut_fact (T : FloatTy) (f : FloatFact) (hf : floatFactOK T f = true) (o : FOut) :
    fmtOut f.objFmt o = some (if T = .decimal then formatFloatF o else formatDouble o) ∧
    fmtOut f.eqFmt o = fmtOut f.objFmt o := by
  have hp := Proofs.C20.floatFactOK_elim hf
  rw [hp.eqFmt, hp.objFmt]
  cases T <;> simp [fmtOut]

/-! ### TermEquals -/

/-- TermEquals of a mapped value with any term: true exactly for the literal of the same datatype
    whose lexical form is the one AsObjectValue() produces. -/
theorem floatfamily_termEquals (T : FloatTy) (f : FloatFact) (hf : floatFactOK T f = true) (x : GF)
    (l : Bytes) (hl : lexGF f.objFmt f.objBits x = some l) (t : TermArg) :
    termEqualsText f.datatype f.eqDatatypeSame (lexGF f.eqFmt f.eqBits x) t
      = some (decide (t = .literal (dtIRI T.dt) l)) := by
  have hp := Proofs.C20.floatFactOK_elim hf
  have : lexGF f.eqFmt f.eqBits x = some l := by rw [hp.eqFmt, hp.eqBits, ← hp.objBits]; exact hl
  rw [this]
  cases t with
  | notLiteral => simp [termEqualsText]
  | literal dt lex =>
    simp only [termEqualsText, hp.same, hp.dt]
    by_cases hd : dt = dtIRI T.dt
    · subst hd
      by_cases hx : l = lex
      · subst hx; simp
      · have : ¬ lex = l := fun h => hx h.symm
        simp [hx, this]
    · simp [hd]

theorem decimal_termEquals (f : FloatFact) (hf : floatFactOK .decimal f = true) (x : GF)
    (l : Bytes) (hl : lexGF f.objFmt f.objBits x = some l) (t : TermArg) :
    termEqualsText f.datatype f.eqDatatypeSame (lexGF f.eqFmt f.eqBits x) t
      = some (decide (t = .literal (dtIRI .decimal) l)) :=
  floatfamily_termEquals .decimal f hf x l hl t


/-! ### input side -/

/-- the exact decimal number `± n / 10^k` as strconv's reader represents it -/
def decFVal (neg : Bool) (n k nd : Nat) : FVal := .fin neg n 10 (if n ≠ 0 then -(k : Int) else 0) nd

/-- bit size of the Go type -/
def bitsOf (T : FloatTy) : Nat := if T = .float then 32 else 64

/-- Soundness (all three types): a Map function returns a value only for a string that, after
    whiteSpace collapse, is in the lexical space of its datatype. -/
theorem floatfamily_sound (T : FloatTy) (f : FloatFact) (hf : floatFactOK T f = true) (s : Bytes) (x : GF)
    (h : mapFloatX f s = .ok x) : accepts T.dt s = true := by
  unfold mapFloatX at h
  cases hm : mapFloat f s with
  | error e => rw [hm] at h; simp at h
  | ok v => exact Proofs.C20.mapFloat_sound (Proofs.C20.floatFactOK_elim hf) hm

theorem decimal_sound (f : FloatFact) (hf : floatFactOK .decimal f = true) (s : Bytes) (x : GF)
    (h : mapFloatX f s = .ok x) : accepts .decimal s = true := floatfamily_sound .decimal f hf s x h

theorem double_sound (f : FloatFact) (hf : floatFactOK .double f = true) (s : Bytes) (x : GF)
    (h : mapFloatX f s = .ok x) : accepts .double s = true := floatfamily_sound .double f hf s x h

/-- Completeness and value, for every string written in plain decimal notation (the whole lexical
    space of xsd:decimal; for double/float the forms without exponent): the Map function reads
    EXACTLY the number the XSD lexical mapping assigns — sign, all digits as one integer, scale =
    number of fraction digits — and fails only with strconv's range error, i.e. when that number
    rounds beyond the largest finite value of the Go type. -/
theorem plain_numeral_map (T : FloatTy) (f : FloatFact) (hf : floatFactOK T f = true) (s : Bytes)
    (neg : Bool) (n k : Nat) (hl : decimalLex (collapse s) = some (neg, n, k)) :
    ∃ nd, mapFloat f s =
      (if overflows (bitsOf T) (decFVal neg n k nd) = true then .error .range else .ok (decFVal neg n k nd)) := by
  have hdec : Spec.Xsd.decimalLexOK (collapse s) = true := by
    rw [← Proofs.C20F.decimalLex_isSome, hl]; rfl
  have hacc : accepts T.dt s = true := by
    have hn : Spec.Xsd.normalize T.dt s = collapse s := by cases T <;> rfl
    unfold accepts
    rw [hn]
    cases T
    · exact hdec
    · exact Proofs.C20F.doubleLexOK_of_decimal _ hdec
    · exact Proofs.C20F.doubleLexOK_of_decimal _ hdec
  rw [Proofs.C20.mapFloat_complete (Proofs.C20.floatFactOK_elim hf) hacc]
  exact Proofs.C20F.parseFloat_decimal hl (bitsOf T)

/-- xsd:decimal, completeness: every string of the lexical space is mapped, unless its value is
    beyond the float64 range. -/
theorem decimal_complete (f : FloatFact) (hf : floatFactOK .decimal f = true) (s : Bytes)
    (h : accepts .decimal s = true) :
    ∃ neg n k nd, decimalLex (collapse s) = some (neg, n, k) ∧
      mapFloat f s = (if overflows 64 (decFVal neg n k nd) = true then .error .range
                      else .ok (decFVal neg n k nd)) := by
  obtain ⟨neg, n, k, hl⟩ := Proofs.C20F.decimalLex_of_OK (s := collapse s) h
  obtain ⟨nd, hm⟩ := plain_numeral_map .decimal f hf s neg n k hl
  exact ⟨neg, n, k, nd, hl, hm⟩

/-- xsd:decimal, value: the number read by a successful MapDecimal is exactly the value the XSD
    lexical mapping assigns to the (collapsed) string. The Go value is this number rounded to float64
    (`mapFloatX f s = roundFV 64 v`, by definition; the rounding itself is tied by T3). -/
theorem decimal_value (f : FloatFact) (hf : floatFactOK .decimal f = true) (s : Bytes) (v : FVal)
    (h : mapFloat f s = .ok v) :
    ∃ neg n k nd, decimalLex (collapse s) = some (neg, n, k) ∧ v = decFVal neg n k nd := by
  have hacc := Proofs.C20.mapFloat_sound (Proofs.C20.floatFactOK_elim hf) h
  obtain ⟨neg, n, k, nd, hl, hm⟩ := decimal_complete f hf s hacc
  refine ⟨neg, n, k, nd, hl, ?_⟩
  rw [hm] at h
  split at h
  · simp at h
  · simpa using h.symm

/-- xsd:double / xsd:float, completeness of the accepted language: on EVERY string of the lexical
    space (decimal mantissa, optional exponent, `INF`, `+INF`, `-INF`, `NaN`) the Map function either
    returns a value or fails with strconv's range error (a finite number beyond the largest finite
    value of the Go type) — never with a syntax error. With `double_sound`: the accepted language is
    exactly the lexical space minus the out-of-range numbers. (The number read from an exponent form
    is not characterised here; `plain_numeral_map` does it for the forms without exponent.) -/
theorem double_complete (T : FloatTy) (f : FloatFact) (hf : floatFactOK T f = true) (s : Bytes)
    (h : accepts T.dt s = true) :
    (∃ v, mapFloat f s = .ok v) ∨ mapFloat f s = .error .range := by
  rw [Proofs.C20.mapFloat_complete (Proofs.C20.floatFactOK_elim hf) h]
  have hn : Spec.Xsd.normalize T.dt s = collapse s := by cases T <;> rfl
  unfold accepts at h
  rw [hn] at h
  apply Proofs.C20F.parseFloat_double
  cases T
  · exact Proofs.C20F.doubleLexOK_of_decimal _ h
  · exact h
  · exact h

/-- Round trip, syntax and exact number (all three types): the literal written for ANY well-formed
    expansion is accepted again and read as exactly the number the expansion denotes. -/
theorem literal_reads_back (T : FloatTy) (f : FloatFact) (hf : floatFactOK T f = true) (d : Dec)
    (h : decWF d = true) :
    ∃ nd, mapFloat f (fmtF d) =
      (if overflows (bitsOf T) (decFVal d.neg (decValue d).1 (decValue d).2 nd) = true then .error .range
       else .ok (decFVal d.neg (decValue d).1 (decValue d).2 nd)) := by
  apply plain_numeral_map T f hf (fmtF d)
  rw [Proofs.C20F.fmtF_collapse d h]
  exact output_value d h

/-- a number strconv refuses with the range error has no rounded value -/
theorem roundFV_overflow (bits : Nat) (v : FVal) (h : overflows bits v = true) (x : GF) :
    roundFV bits v ≠ .ok x := by
  cases v with
  | nan => simp [overflows] at h
  | inf neg => simp [overflows] at h
  | fin neg mant base exp nd =>
    unfold roundFV
    simp only
    split
    · next hm0 => subst hm0; simp [overflows] at h
    all_goals simp

/-- the idempotence clause as the property states it, for the three float-valued types: the
    literal of a mapped value is written, is a lexical form of the datatype, and maps back to the
    same value -/
def floatfamily_idempotent_full : Prop :=
  ∀ (T : FloatTy) (f : FloatFact), floatFactOK T f = true → ∀ s x, mapFloatX f s = .ok x →
    ∃ l, lexGF f.objFmt f.objBits x = some l ∧ accepts T.dt l = true ∧ mapFloatX f l = .ok x

/-- what the validation inside `GF.outChecked` establishes about a finite expansion it hands on -/
theorem outChecked_fin {bits : Nat} {x : GF} {d : Dec} (h : x.outChecked bits = some (.fin d)) :
    decWF d = true ∧ ∃ v, parseFloat (fmtF d) bits = .ok v ∧ roundFV bits v = .ok x := by
  unfold GF.outChecked at h
  split at h
  · next d' hout =>
    cases hpv : parseFloat (fmtF d') bits with
    | error e => simp [hpv] at h
    | ok v =>
      cases hrv : roundFV bits v with
      | error e => simp [hpv, hrv] at h
      | ok y =>
        simp only [hpv, hrv] at h
        by_cases hc : (d'.wf && y == x) = true
        · rw [if_pos hc] at h
          simp only [Option.some.injEq, FOut.fin.injEq] at h
          subst h
          simp only [Bool.and_eq_true, beq_iff_eq] at hc
          exact ⟨hc.1, v, hpv, by rw [hrv, hc.2]⟩
        · rw [if_neg hc] at h; simp at h
  · next hne => exact absurd h (hne d)

/-- a finite float has a finite expansion or none -/
theorem out_fin {I : FmtInfo} {neg : Bool} {m : Nat} {q : Int} {o : FOut}
    (h : (GF.fin neg m q).out I = some o) : ∃ d, o = .fin d := by
  simp only [GF.out] at h
  by_cases hm : m = 0
  · rw [if_pos hm] at h; exact ⟨_, (Option.some.inj h).symm⟩
  · rw [if_neg hm] at h
    cases hs : shortest I m q with
    | none => rw [hs] at h; simp at h
    | some r => rw [hs] at h; simp only [Option.map_some, Option.some.injEq] at h; exact ⟨_, h.symm⟩

theorem roundFV_fin {bits : Nat} {neg : Bool} {mant base : Nat} {exp : Int} {nd : Nat} {x : GF}
    (h : roundFV bits (.fin neg mant base exp nd) = .ok x) : ∃ neg' m q, x = .fin neg' m q := by
  unfold roundFV at h
  simp only at h
  by_cases h1 : mant = 0
  · rw [if_pos h1] at h; exact ⟨_, _, _, (Except.ok.inj h).symm⟩
  · rw [if_neg h1] at h
    by_cases h2 : overflows bits (.fin neg mant base exp nd) = true
    · rw [if_pos h2] at h; simp at h
    · rw [if_neg h2] at h
      by_cases h3 : Xsd.roundsToZero bits (.fin neg mant base exp nd) = true
      · rw [if_pos h3] at h; exact ⟨_, _, _, (Except.ok.inj h).symm⟩
      · rw [if_neg h3] at h
        repeat' split at h
        all_goals first
          | exact ⟨_, _, _, (Except.ok.inj h).symm⟩
          | exact ⟨_, _, _, h.symm⟩
          | (simp at h)

theorem ite_some_none {α : Type} {c : Prop} [Decidable c] {a b : α}
    (h : (if c then some a else none) = some b) : a = b := by
  by_cases hc : c
  · rw [if_pos hc] at h; exact Option.some.inj h
  · rw [if_neg hc] at h; simp at h

theorem outChecked_of_fin {bits : Nat} {neg : Bool} {m : Nat} {q : Int} {o : FOut}
    (h : (GF.fin neg m q).outChecked bits = some o) : ∃ d, o = .fin d := by
  unfold GF.outChecked at h
  split at h
  · exact ⟨_, (ite_some_none h).symm⟩
  · exact out_fin h

/-- the value MapDecimal returns is finite -/
theorem decimal_mapped_finite (f : FloatFact) (hf : floatFactOK .decimal f = true) (s : Bytes) (x : GF)
    (h : mapFloatX f s = .ok x) : ∃ neg m q, x = .fin neg m q := by
  unfold mapFloatX at h
  cases hm : mapFloat f s with
  | error e => rw [hm] at h; simp at h
  | ok v =>
    rw [hm] at h
    obtain ⟨neg, n, k, nd, _, rfl⟩ := decimal_value f hf s v hm
    exact roundFV_fin h

/-- re-mapping one of the four constant literals -/
theorem map_const (T : FloatTy) (f : FloatFact) (hf : floatFactOK T f = true)
    (l : Bytes) (v : FVal) (hacc : accepts T.dt l = true) (hc : collapse l = l)
    (hp : parseFloat l (bitsOf T) = .ok v) (x : GF) (hr : roundFV (bitsOf T) v = .ok x) :
    mapFloatX f l = .ok x := by
  have hpp := Proofs.C20.floatFactOK_elim hf
  unfold mapFloatX
  rw [Proofs.C20.mapFloat_complete hpp hacc, hc]
  have hb : f.bitSize = bitsOf T := hpp.bits
  change (match parseFloat l (bitsOf T) with | .ok v => roundFV f.bitSize v | .error e => .error e) = _
  rw [hp, hb]; exact hr

/-- Idempotence (all three types), about the literal the model itself writes: when Map returns `x`
    and AsObjectValue's lexical form `l` is produced, `l` is in the lexical space of the datatype and
    maps back to exactly `x`. For a finite value this rests on the validation inside `GF.outChecked`
    (the expansion computed by `shortest` is used only after it was checked to be well-formed and to
    read back as `x`), for the special values on evaluation of the four constant literals.
    Missing from `floatfamily_idempotent_full`: that `l` is always produced, i.e. that the validation
    never fails — this is strconv's contract for the shortest expansion, which is not proved; T3
    compares `xsdf.map` (an unvalidated expansion would answer `unmodelled`) with the Go code on every
    generated string and bit pattern. -/
theorem floatfamily_idempotent_partial (T : FloatTy) (f : FloatFact) (hf : floatFactOK T f = true)
    (s : Bytes) (x : GF) (l : Bytes) (hm : mapFloatX f s = .ok x)
    (hl : lexGF f.objFmt f.objBits x = some l) :
    accepts T.dt l = true ∧ mapFloatX f l = .ok x := by
  have hp := Proofs.C20.floatFactOK_elim hf
  have hb : f.bitSize = bitsOf T := hp.bits
  have hfin : ∀ d, x.outChecked (bitsOf T) = some (.fin d) → l = fmtF d →
      accepts T.dt l = true ∧ mapFloatX f l = .ok x := by
    intro d hd hld
    obtain ⟨hwf, v, hpv, hrv⟩ := outChecked_fin hd
    have hacc : accepts T.dt (fmtF d) = true := by
      have hn : Spec.Xsd.normalize T.dt (fmtF d) = collapse (fmtF d) := by cases T <;> rfl
      unfold accepts
      rw [hn, Proofs.C20F.fmtF_collapse d hwf]
      have hdec := decimal_output_in_lexical_space d hwf
      cases T
      · exact hdec
      · exact Proofs.C20F.doubleLexOK_of_decimal _ hdec
      · exact Proofs.C20F.doubleLexOK_of_decimal _ hdec
    subst hld
    refine ⟨hacc, ?_⟩
    unfold mapFloatX
    rw [Proofs.C20.mapFloat_complete hp hacc, Proofs.C20F.fmtF_collapse d hwf]
    change (match parseFloat (fmtF d) (bitsOf T) with | .ok v => roundFV f.bitSize v | .error e => .error e) = _
    rw [hpv, hb]; exact hrv
  unfold lexGF at hl
  rw [hp.objBits, hb] at hl
  cases hoc : x.outChecked (bitsOf T) with
  | none => rw [hoc] at hl; simp at hl
  | some o =>
    rw [hoc] at hl
    simp only at hl
    rw [(fmtOut_fact T f hf o).1] at hl
    simp only [Option.some.injEq] at hl
    cases x with
    | fin neg m q =>
      obtain ⟨d, rfl⟩ := outChecked_of_fin hoc
      apply hfin d hoc
      rw [← hl]; cases T <;> rfl
    | nan =>
      have ho : o = .nan := by
        have : GF.outChecked (bitsOf T) .nan = some .nan := rfl
        rw [this] at hoc; exact (Option.some.inj hoc).symm
      subst ho
      cases T with
      | decimal => obtain ⟨_, _, _, hx⟩ := decimal_mapped_finite f hf s _ hm; cases hx
      | double =>
        simp only [reduceCtorEq, if_false] at hl; subst hl
        exact ⟨by decide, map_const .double f hf _ .nan (by decide) (by decide)
          (Proofs.C20F.parseFloat_NaN _) .nan rfl⟩
      | float =>
        simp only [reduceCtorEq, if_false] at hl; subst hl
        exact ⟨by decide, map_const .float f hf _ .nan (by decide) (by decide)
          (Proofs.C20F.parseFloat_NaN _) .nan rfl⟩
    | inf neg =>
      have ho : o = .inf neg := by
        have : GF.outChecked (bitsOf T) (.inf neg) = some (.inf neg) := rfl
        rw [this] at hoc; exact (Option.some.inj hoc).symm
      subst ho
      cases T with
      | decimal => obtain ⟨_, _, _, hx⟩ := decimal_mapped_finite f hf s _ hm; cases hx
      | double =>
        simp only [reduceCtorEq, if_false] at hl; subst hl
        cases neg
        · exact ⟨by decide, map_const .double f hf _ (.inf false) (by decide) (by decide)
            (Proofs.C20F.parseFloat_INF _) _ rfl⟩
        · exact ⟨by decide, map_const .double f hf _ (.inf true) (by decide) (by decide)
            (Proofs.C20F.parseFloat_mINF _) _ rfl⟩
      | float =>
        simp only [reduceCtorEq, if_false] at hl; subst hl
        cases neg
        · exact ⟨by decide, map_const .float f hf _ (.inf false) (by decide) (by decide)
            (Proofs.C20F.parseFloat_INF _) _ rfl⟩
        · exact ⟨by decide, map_const .float f hf _ (.inf true) (by decide) (by decide)
            (Proofs.C20F.parseFloat_mINF _) _ rfl⟩

theorem decimal_canonical_idempotent_partial (f : FloatFact) (hf : floatFactOK .decimal f = true)
    (s : Bytes) (x : GF) (l : Bytes) (hm : mapFloatX f s = .ok x)
    (hl : lexGF f.objFmt f.objBits x = some l) :
    accepts .decimal l = true ∧ mapFloatX f l = .ok x ∧ lexGF f.objFmt f.objBits x = some l :=
  ⟨(floatfamily_idempotent_partial .decimal f hf s x l hm hl).1,
   (floatfamily_idempotent_partial .decimal f hf s x l hm hl).2, hl⟩

-- the hypotheses are satisfiable: 0.3 (float64 0x3fd3333333333333) has the expansion ("3", 0)
example : (GF.ofBits (fmtInfo 64) 0x3fd3333333333333).outChecked 64 = some (.fin ⟨false, asc "3", 0⟩) := by decide +kernel
example : roundFV 64 (decFVal false 3 1 1) = .ok (GF.ofBits (fmtInfo 64) 0x3fd3333333333333) := by decide +kernel
example : decimalLex (collapse (asc " +00.30 ")) = some (false, 30, 2) := by decide

end RdfModel.C20F
