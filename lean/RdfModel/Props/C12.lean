/-
  Property C12 — reference resolution follows RFC 3986 section 5.2 without normalisation
  (theorems only; helper lemmas live in RdfModel/Proofs/C12*.lean).

  What is proved here, for all inputs:
    * about the specification `Spec.RFC3986` (the property's own definition): parse∘print identity,
      absolute dot-free references are returned unchanged, remove_dot_segments is idempotent and never
      outputs a dot segment, the target is absolute, empty vs absent query/fragment survive;
    * about the executable model of the Go function `resolvePath` (`Model.IRI.resolvePath`, the model
      the driver runs): it equals remove_dot_segments∘merge outside the input class
      `dotdotThenEmpty` — and differs from it on a witness inside that class (the full-strength
      statement `ResolvePathEqRfc` is therefore false for the code as it is; known finding
      D14-dotdot-then-empty-segment).
  What is not a theorem: that `ParseIRI`/`ResolveReference`/`String` (wrappers around net/url, which is
  outside the model) compute `Spec.RFC3986.resolve`. That claim is carried by the correspondence ops
  `iri.parse` / `iri.resolve` of go/cmd/c12 against the spec executed by the driver.
-/
import RdfModel.Props.C12Defs
import RdfModel.Proofs.C12ResolvePath
import RdfModel.Proofs.C12Resolve
namespace RdfModel.C12
open RdfModel.Spec.RFC3986

private def S (s : String) : Str := s.toList.map Char.toNat

/-- Parsing any string into the five components (Appendix B) and printing it again (5.3) is the
    identity — in particular empty and absent components are kept apart. -/
theorem recompose_split (s : Str) : recompose (split s) = s :=
  Proofs.C12.recompose_split s

/-- A reference that has a scheme and no dot segment in its path is returned unchanged, whatever the base. -/
theorem resolve_abs_nodots (b r : Str) (h : (split r).scheme.isSome) (hn : NoDotSegments (split r).path) :
    resolve b r = r :=
  Proofs.C12.resolve_abs_nodots b r h hn

example : (split (S "HTTP://é%2e/a/%2E/b?#")).scheme.isSome ∧ NoDotSegments (split (S "HTTP://é%2e/a/%2E/b?#")).path := by
  decide

/-- remove_dot_segments leaves a path without dot segments alone. -/
theorem rds_fixes_dot_free (p : Str) (h : NoDotSegments p) : removeDotSegments p = p :=
  Proofs.C12.rds_noDot_id h

example : NoDotSegments (S "/a//..b/.c/") := by decide

/-- The output of remove_dot_segments never contains a complete segment "." or "..". -/
theorem rds_no_dots (p : Str) : NoDotSegments (removeDotSegments p) :=
  Proofs.C12.rds_no_dots p

/-- remove_dot_segments is idempotent. -/
theorem rds_idempotent (p : Str) : removeDotSegments (removeDotSegments p) = removeDotSegments p :=
  Proofs.C12.rds_idempotent p

/-- The target of a resolution against an absolute base carries a scheme: the reference's when it has
    one, the base's otherwise (and `split` finds it again in the recomposed string). -/
theorem resolve_scheme (b r : Str) (hb : (split b).scheme.isSome) :
    (split (resolve b r)).scheme = if (split r).scheme.isSome then (split r).scheme else (split b).scheme :=
  Proofs.C12.resolve_scheme b r hb

theorem resolve_is_absolute (b r : Str) (hb : (split b).scheme.isSome) : (split (resolve b r)).scheme.isSome :=
  Proofs.C12.resolve_is_absolute b r hb

example : (split (S "urn:x")).scheme.isSome := by decide

/-- Empty vs absent query / fragment:
    (1) `split` tells `s#` (empty fragment) from `s` (none) and `s?` (empty query) from `s` (none);
    (2) resolution hands the reference's fragment through unchanged, and its query whenever it has one;
    (3) recomposition prints an empty fragment as a final `#` and an empty query as a final `?`. -/
theorem empty_query_fragment_preserved :
    (∀ s : Str, cQuest ∉ s → cHash ∉ s →
        (split (s ++ [cHash])).fragment = some [] ∧ (split s).fragment = none ∧
        (split (s ++ [cQuest])).query = some [] ∧ (split s).query = none) ∧
    (∀ B R : Parts, (resolveParts B R).fragment = R.fragment) ∧
    (∀ B R : Parts, R.query.isSome → (resolveParts B R).query = R.query) ∧
    (∀ P : Parts, P.fragment = some [] → recompose P = recompose { P with fragment := none } ++ [cHash]) ∧
    (∀ P : Parts, P.fragment = none → P.query = some [] → recompose P = recompose { P with query := none } ++ [cQuest]) :=
  ⟨Proofs.C12.split_distinguishes_empty, Proofs.C12.resolveParts_fragment, Proofs.C12.resolveParts_query,
   Proofs.C12.recompose_empty_fragment, Proofs.C12.recompose_empty_query⟩

example : resolve (S "http://a/b?q#f") (S "c?#") = S "http://a/c?#" := by decide
example : resolve (S "http://a/b?q#f") (S "c") = S "http://a/c" := by decide
example : resolve (S "http://a/b?") (S "#") = S "http://a/b?#" := by decide

/-! ### the Go function `resolvePath` -/

/-- Full-strength statement planned in DESIGN: for a base path starting with "/", the Go function
    computes remove_dot_segments of the merged path. It is FALSE for the code as it is
    (`resolvePath_deviates`): the function inherited from net/url swallows an empty segment that
    follows a ".." popping an already empty output. -/
def ResolvePathEqRfc : Prop :=
  ∀ base ref : Str, base.head? = some cSlash →
    IRI.resolvePath base ref = removeDotSegments (rfcFull base ref)

/-- Proved part: outside the class `dotdotThenEmpty` (the predicate of known finding
    D14-dotdot-then-empty-segment) the model of `resolvePath` equals the RFC.
    Missing for the full statement: nothing can be added — the excluded class really deviates. -/
theorem resolvePath_eq_rfc_partial (base ref : Str) (hb : base.head? = some cSlash)
    (hk : dotdotThenEmpty (rfcFull base ref) = false) :
    IRI.resolvePath base ref = removeDotSegments (rfcFull base ref) := by
  have hh := Proofs.C12.rfcFull_head hb ref
  rw [← Proofs.C12.fullPath_eq_rfcFull] at hh hk ⊢
  cases hf : IRI.fullPath base ref with
  | nil => rw [hf] at hh; simp at hh
  | cons c r =>
    rw [hf] at hh hk
    simp only [List.head?_cons, Option.some.injEq] at hh
    subst hh
    exact Proofs.C12.resolvePath_abs r base ref hf hk

example : (S "/a/b/c").head? = some cSlash ∧ dotdotThenEmpty (rfcFull (S "/a/b/c") (S "../../../x/./y/..")) = false := by
  decide

/-- The model (and the code: replayed by go/cmd/c12, corpus entry `http://h/a` + `..//x`) deviates
    inside the class: "/" + "..//x" gives "/x" where RFC 3986 5.2.4 gives "//x". -/
theorem resolvePath_deviates :
    IRI.resolvePath (S "/a") (S "..//x") = S "/x" ∧ removeDotSegments (rfcFull (S "/a") (S "..//x")) = S "//x" ∧
    dotdotThenEmpty (rfcFull (S "/a") (S "..//x")) = true := by decide

theorem not_ResolvePathEqRfc : ¬ ResolvePathEqRfc := by
  intro h
  have := h (S "/a") (S "..//x") (by decide)
  revert this; decide

/-! ### the wrapper logic of `ParseIRI` / `String` (model level witnesses of D14) -/

/-- `x:/a/../b`: net/url yields Scheme "x", Path "/a/../b"; `ParseIRI` moves the path into `Opaque`
    without its leading "/", so `String()` prints `x:a/../b`. -/
theorem reclassify_drops_leading_slash :
    IRI.reclassify ⟨S "x", [], [], S "/a/../b", []⟩ = (⟨S "x", S "a/../b", [], [], []⟩, true) := by decide

/-- http, https and file are never reclassified. -/
theorem reclassify_special (u : IRI.URL) (h : u.scheme = IRI.sHttp ∨ u.scheme = IRI.sHttps ∨ u.scheme = IRI.sFile) :
    IRI.reclassify u = (u, false) := by
  unfold IRI.reclassify
  rcases h with h | h | h <;> simp [h]

end RdfModel.C12
