/-
  Definitions used by the C01 theorems: table facts (`TablesOK`), well-formedness of the input.
-/
import RdfModel.Model.NQuads
namespace RdfModel.C01
open RdfModel RdfModel.NQ

/-- A rune the decoder's IRI scanner accepts raw (neither rejected, nor `>`, nor `\`). -/
def iriRawOK (c : Nat) : Prop :=
  c > 0x20 ∧ c ≠ 0x3c ∧ c ≠ 0x3e ∧ c ≠ 0x22 ∧ c ≠ 0x7b ∧ c ≠ 0x7d ∧ c ≠ 0x7c ∧ c ≠ 0x5e ∧ c ≠ 0x60 ∧ c ≠ 0x5c

/-- The facts about the regenerated tables (T1) on which the round trip rests. Each is a statement
    over *every* code point; `Props/C01Tables.lean` proves them for the current tables by `decide`
    on the table entries. -/
structure TablesOK (T : Tables) : Prop where
  iri_mode : ∀ a c, lookup (T.iriEsc a) 0 c ≤ 2
  iri_raw : ∀ a c, lookup (T.iriEsc a) 0 c = 0 → iriRawOK c
  iri_u4 : ∀ a c, lookup (T.iriEsc a) 0 c = 1 → c ≤ 0xFFFF
  lit_mode : ∀ a c, lookup (T.litEsc a) 0 c ≤ 3
  lit_raw : ∀ a c, lookup (T.litEsc a) 0 c = 0 → c ≠ 0x22 ∧ c ≠ 0x5c
  lit_echar : ∀ a c, lookup (T.litEsc a) 0 c = 1 → echarDecode (lookup T.echar 0 c) = some c
  lit_u4 : ∀ a c, lookup (T.litEsc a) 0 c = 2 → c ≤ 0xFFFF
  hex : ∀ d, d < 16 → lookup T.hexDec 0 (hexUpper d) = d + 1
  space_sp : inRanges T.space 0x20 = true
  pn_sp : inRanges T.pnChars 0x20 = false
  /-- `.` is not a PN_CHARS rune (else a label ending in `.` would satisfy `labelOK` yet lose its dot). -/
  pn_dot : inRanges T.pnChars 0x2e = false
  /-- the openers `<` and `_` of a graph label are not white space (`afterObject` tests `isSpace` first). -/
  space_lt : inRanges T.space 0x3c = false
  space_us : inRanges T.space 0x5f = false

/-- Extra facts for the ASCII option and for grammaticality. -/
structure TablesAscii (T : Tables) : Prop where
  iri_ascii : ∀ c, c ≤ 0x10FFFF → lookup (T.iriEsc true) 0 c = 0 → c < 0x80
  lit_ascii : ∀ c, c ≤ 0x10FFFF → lookup (T.litEsc true) 0 c = 0 → c < 0x80
  echar_ascii : ∀ c, lookup T.echar 0 c < 0x80
  /-- no escape mode outside the ones the writers handle (any other mode writes the rune raw). -/
  iri_mode_a : ∀ c, lookup (T.iriEsc true) 0 c ≤ 2
  lit_mode_a : ∀ c, lookup (T.litEsc true) 0 c ≤ 3

/-- Extra fact for grammaticality: a raw rune in a literal is never LF or CR. -/
structure TablesGrammar (T : Tables) : Prop where
  lit_raw_eol : ∀ a c, lookup (T.litEsc a) 0 c = 0 → c ≠ 0x0a ∧ c ≠ 0x0d
  /-- LF is in neither label class (else a `labelOK` label could contain a line break). -/
  pnU_lf : inRanges T.pnCharsU 0x0a = false
  pn_lf : inRanges T.pnChars 0x0a = false

/-- Language tag `[a-zA-Z]+ ('-' [a-zA-Z0-9]+)*`, as a Boolean recogniser. -/
def langRest : List Nat → Bool → Bool
  | [], needAlnum => !needAlnum
  | c :: rest, needAlnum =>
    if isAlpha c || isDigit c then langRest rest false
    else if c = 0x2d then (!needAlnum && langRest rest true)
    else false

def langPrim : List Nat → Bool → Bool
  | [], seen => seen
  | c :: rest, seen =>
    if isAlpha c then langPrim rest true
    else if c = 0x2d then (seen && langRest rest true)
    else false

def langOK (t : List Nat) : Bool := langPrim t false

def Scalars (s : List Nat) : Prop := ∀ c ∈ s, IsScalar c

/-- Every rune is a Go-representable code point (`≤ unicode.MaxRune`); weaker than `Scalars`.
    Needed by `ascii_output`: the escape tables are only regenerated over `0 … 0x10FFFF`, outside of
    which `lookup` falls back to mode 0 (= written raw). -/
def RunesInRange (s : List Nat) : Prop := ∀ c ∈ s, c ≤ 0x10FFFF

def TermInRange {β : Type} : Term β → Prop
  | .iri v => RunesInRange v
  | .bnode _ => True
  | .lit l d _ => RunesInRange l ∧ RunesInRange d

def QuadInRange {β : Type} (q : Quad β) : Prop :=
  TermInRange q.s ∧ TermInRange q.p ∧ TermInRange q.o ∧ ∀ g, q.g = some g → TermInRange g

/-- IRI the N-Quads decoder accepts: scalar values only, passes the decoder's `url.Parse`/`IsAbs`. -/
def WFIri (urlOk : List Nat → Bool) (v : List Nat) : Prop := Scalars v ∧ urlOk v = true

/-- Blank node label that survives `captureOpenBlankNode`: `(PN_CHARS_U|[0-9]) ((PN_CHARS|'.')* PN_CHARS)?`. -/
def labelOK (T : Tables) (l : List Nat) : Bool :=
  match l with
  | [] => false
  | c :: rest =>
    (inRanges T.pnCharsU c || isDigit c) &&
    rest.all (fun x => inRanges T.pnChars x || x = 0x2e) &&
    (match rest.getLast? with
      | none => true
      | some z => inRanges T.pnChars z)

structure LabelsOK {β : Type} (T : Tables) (label : β → List Nat) : Prop where
  inj : Function.Injective label
  wf : ∀ b, labelOK T (label b) = true

def WFLit (urlOk : List Nat → Bool) (lex dt : List Nat) (lang : Option (List Nat)) : Prop :=
  Scalars lex ∧ WFIri urlOk dt ∧
  (match lang with
    | some t => dt = rdfLangString ∧ langOK t = true
    | none => dt ≠ rdfLangString ∧ dt ≠ rdfDirLangString)

def WFNode {β : Type} (urlOk : List Nat → Bool) : Term β → Prop
  | .iri v => WFIri urlOk v
  | .bnode _ => True
  | .lit .. => False

def WFObject {β : Type} (urlOk : List Nat → Bool) : Term β → Prop
  | .lit l d t => WFLit urlOk l d t
  | t => WFNode urlOk t

def WFPredicate {β : Type} (urlOk : List Nat → Bool) : Term β → Prop
  | .iri v => WFIri urlOk v
  | _ => False

/-- A well-formed quad (graph name optional). -/
structure WFQuad {β : Type} (urlOk : List Nat → Bool) (q : Quad β) : Prop where
  s : WFNode urlOk q.s
  p : WFPredicate urlOk q.p
  o : WFObject urlOk q.o
  g : ∀ g, q.g = some g → WFNode urlOk g

/-- What a triples-only format keeps of a quad. -/
def Quad.dropGraph {β : Type} (q : Quad β) : Quad β := { q with g := none }

end RdfModel.C01
