// Package vh is the shared support library of the verification harnesses: PRNG, wire format of
// the line protocol, the Lean driver runner, and the JSON report every harness writes.
package vh

import (
	"bufio"
	"bytes"
	"encoding/hex"
	"encoding/json"
	"fmt"
	"hash/fnv"
	"os"
	"os/exec"
	"sort"
	"strconv"
	"strings"
	"time"
)

// ---------------------------------------------------------------- PRNG (splitmix64)

type Rng struct{ s uint64 }

// NewRng hashes the seed (splitmix64 finaliser) so that neighbouring seeds give unrelated streams.
func NewRng(seed uint64) *Rng {
	z := seed + 0x1234567
	z = (z ^ (z >> 30)) * 0xBF58476D1CE4E5B9
	z = (z ^ (z >> 27)) * 0x94D049BB133111EB
	return &Rng{s: z ^ (z >> 31)}
}

func (r *Rng) U64() uint64 {
	r.s += 0x9E3779B97F4A7C15
	z := r.s
	z = (z ^ (z >> 30)) * 0xBF58476D1CE4E5B9
	z = (z ^ (z >> 27)) * 0x94D049BB133111EB
	return z ^ (z >> 31)
}
func (r *Rng) Intn(n int) int {
	if n <= 0 {
		return 0
	}
	return int(r.U64() % uint64(n))
}
func (r *Rng) Bool() bool          { return r.U64()&1 == 1 }
func (r *Rng) Chance(p int) bool   { return r.Intn(100) < p } // p percent
func (r *Rng) Fork() *Rng          { return NewRng(r.U64()) }
func Pick[T any](r *Rng, xs []T) T { return xs[r.Intn(len(xs))] }

// SeedFromEnv reads VERIF_SEED (default 1).
func SeedFromEnv() uint64 {
	if v := os.Getenv("VERIF_SEED"); v != "" {
		if n, err := strconv.ParseInt(v, 10, 64); err == nil {
			return uint64(n)
		}
	}
	return 1
}

// ---------------------------------------------------------------- wire format

// X encodes bytes as a non-empty token: "x" + hex.
func X(b []byte) string  { return "x" + hex.EncodeToString(b) }
func XS(s string) string { return X([]byte(s)) }
func UnX(tok string) ([]byte, error) {
	if !strings.HasPrefix(tok, "x") {
		return nil, fmt.Errorf("bad hex token %q", tok)
	}
	return hex.DecodeString(tok[1:])
}

func B01(b bool) string {
	if b {
		return "1"
	}
	return "0"
}

// ---------------------------------------------------------------- Lean driver

type Driver struct {
	Path string
}

// Run feeds all lines to the driver and returns one output line per input line.
func (d Driver) Run(lines []string) ([]string, error) {
	if len(lines) == 0 {
		return nil, nil
	}
	cmd := exec.Command(d.Path)
	var in bytes.Buffer
	for _, l := range lines {
		in.WriteString(l)
		in.WriteByte('\n')
	}
	cmd.Stdin = &in
	var out, errb bytes.Buffer
	cmd.Stdout = &out
	cmd.Stderr = &errb
	if err := cmd.Run(); err != nil {
		return nil, fmt.Errorf("driver: %v: %s", err, errb.String())
	}
	sc := bufio.NewScanner(&out)
	sc.Buffer(make([]byte, 1<<20), 1<<28)
	var res []string
	for sc.Scan() {
		res = append(res, sc.Text())
	}
	if len(res) != len(lines) {
		return res, fmt.Errorf("driver: %d lines in, %d lines out (stderr: %s)", len(lines), len(res), errb.String())
	}
	return res, nil
}

// ---------------------------------------------------------------- report

// Case is one concrete failing (or notable) input.
type Case struct {
	Kind   string `json:"kind"`             // "disagreement" (model vs code), "violation" (property fails on code), "known"
	Op     string `json:"op,omitempty"`     // protocol line
	Go     string `json:"go,omitempty"`     // what the implementation did
	Model  string `json:"model,omitempty"`  // what the model did
	Detail string `json:"detail,omitempty"` // human readable
	Key    string `json:"key,omitempty"`    // known-finding key when Kind == "known"
}

type Report struct {
	Property    string         `json:"property"`
	Seed        uint64         `json:"seed"`
	Tier        string         `json:"tier"`
	Evaluations int            `json:"evaluations"`
	Distinct    int            `json:"distinct_nontrivial"`
	Rule        string         `json:"rule"`
	Samples     []string       `json:"samples"`
	Hist        map[string]int `json:"histograms"`
	Compared    int            `json:"traces_validated_against_impl"`
	Cases       []Case         `json:"cases"`
	Exhaustive  []string       `json:"exhaustive_parts,omitempty"`
	WallS       float64        `json:"wall_s"`
	seen        map[uint64]struct{}
	start       time.Time
	maxSamples  int
}

func NewReport(prop, tier string, seed uint64, rule string) *Report {
	return &Report{Property: prop, Tier: tier, Seed: seed, Rule: rule, Hist: map[string]int{},
		seen: map[uint64]struct{}{}, start: time.Now(), maxSamples: 8}
}

// Eval records one evaluated case; nontrivial says whether it counts by the stated rule.
func (r *Report) Eval(canonical string, nontrivial bool) {
	r.Evaluations++
	if nontrivial {
		h := fnv.New64a()
		h.Write([]byte(canonical))
		k := h.Sum64()
		if _, ok := r.seen[k]; !ok {
			r.seen[k] = struct{}{}
			r.Distinct++
			if len(r.Samples) < r.maxSamples && (r.Distinct < 4 || r.Distinct%97 == 0) {
				s := canonical
				if len(s) > 400 {
					s = s[:400] + "…"
				}
				r.Samples = append(r.Samples, s)
			}
		}
	}
}
func (r *Report) Count(key string) { r.Hist[key]++ }
// Add stores a case. Failures (violations, disagreements) and known findings have separate budgets, so that
// any number of known cases can never crowd a failure out of the report: at most 200 failures are kept, and at
// most 8 known cases per key (200 known cases overall); harnesses count every known case in their histograms.
func (r *Report) Add(c Case) {
	if c.Kind == "known" {
		nk, nkey := 0, 0
		for _, x := range r.Cases {
			if x.Kind == "known" {
				nk++
				if x.Key == c.Key {
					nkey++
				}
			}
		}
		if nk < 200 && nkey < 8 {
			r.Cases = append(r.Cases, c)
		}
		return
	}
	if r.Failures() < 200 {
		r.Cases = append(r.Cases, c)
	}
}
func (r *Report) Failures() int {
	n := 0
	for _, c := range r.Cases {
		if c.Kind != "known" {
			n++
		}
	}
	return n
}
func (r *Report) Write(path string) error {
	r.WallS = time.Since(r.start).Seconds()
	if r.Samples == nil {
		r.Samples = []string{}
	}
	b, _ := json.MarshalIndent(r, "", " ")
	return os.WriteFile(path, b, 0o644)
}

// SortedKeys is a helper for deterministic output.
func SortedKeys[V any](m map[string]V) []string {
	ks := make([]string, 0, len(m))
	for k := range m {
		ks = append(ks, k)
	}
	sort.Strings(ks)
	return ks
}

// ---------------------------------------------------------------- known findings

type Finding struct {
	Property  string `json:"property"`
	Key       string `json:"key"`
	Status    string `json:"status"` // "known" | "fixed"
	Commit    string `json:"commit,omitempty"`
	Where     string `json:"where,omitempty"`
	Predicate string `json:"predicate,omitempty"`
	Witness   string `json:"witness,omitempty"`
	What      string `json:"what"`
}

func LoadFindings(path string) ([]Finding, error) {
	b, err := os.ReadFile(path)
	if err != nil {
		return nil, err
	}
	var f struct {
		Findings []Finding `json:"findings"`
	}
	if err := json.Unmarshal(b, &f); err != nil {
		return nil, err
	}
	return f.Findings, nil
}

// KnownKeys returns the predicates of "known" (not "fixed") findings of a property.
func KnownKeys(fs []Finding, prop string) map[string]Finding {
	m := map[string]Finding{}
	for _, f := range fs {
		if f.Property == prop && f.Status == "known" {
			m[f.Predicate] = f
		}
	}
	return m
}
