/-
  Property C14, atomicity of the operations (T2). `Gen/LockFacts.lean` is regenerated from the Go source
  of /repo on every run by go/cmd/extract/gen_c14.go (go/ast); the theorems below are decided on it.
  They are the checked, syntactic part of "every operation of the model is one atomic step of the
  implementation"; that mutex sections and `atomic.Int64.Add` linearise is the Go memory model (trusted).
-/
import RdfModel.Gen.LockFacts
namespace RdfModel.C14

open Gen.LockFacts in
/-- A method is one atomic step if: shared maps are only touched under the receiver's mutex; the mutex is
    released on every return path; counters are only touched by `Add(1)`, at most once; no receiver field
    is assigned; and a struct holding a map/mutex is never used through a value receiver. -/
def methodAtomic (m : Gen.LockFacts.MethodFact) : Bool :=
  m.mapGuarded == .yes && m.lockBalanced == .yes && m.atomicOnlyAdd == .yes && m.fieldWrites == 0 &&
  decide (m.atomicUses ≤ 1) && (m.ptrRecv || !m.needsPtr) && (m.mapAccesses == 0 || decide (m.lockOps ≥ 2))

/-- every API method (exported; unexported helpers are interpreted inline at their call sites) -/
theorem all_ops_atomic : ∀ m ∈ Gen.LockFacts.methods, m.exported = true → methodAtomic m = true := by decide

/-- Hand-written expectation: the methods the model treats as operations exist, with the expected shape
    `(receiver, method, uses a mutex-guarded map, number of atomic Add(1))`. -/
def expectedMethods : List (String × String × Bool × Nat) :=
  [ ("bnF", "NewBlankNode", false, 1),
    ("defaultBlankNodeFactory", "NewBlankNode", false, 1),
    ("bnStringF", "NewBlankNode", false, 0),
    ("bnStringF", "NewStringBlankNode", false, 0),
    ("bnStringF", "GetStringProvider", false, 0),
    ("stringIdentifierProvider", "GetBlankNodeString", false, 0),
    ("int64StringProvider", "GetBlankNodeString", true, 1),
    ("uuidStringProvider", "GetBlankNodeString", true, 0),
    ("factoryMapper", "MapBlankNode", true, 0),
    ("bn", "EqualsBlankNodeIdentifier", false, 0),
    ("bnDefault", "EqualsBlankNodeIdentifier", false, 0),
    ("bnString", "EqualsBlankNodeIdentifier", false, 0) ]

def shapeOf (m : Gen.LockFacts.MethodFact) : String × String × Bool × Nat :=
  (m.recv, m.name, decide (m.mapAccesses > 0), m.atomicUses)

/-- exactly the expected API methods, each with the expected shape (a new exported method, or a counter
    that is no longer an atomic `Add(1)`, breaks this) -/
theorem methods_as_expected :
    ((Gen.LockFacts.methods.filter (·.exported)).map shapeOf).all (· ∈ expectedMethods) = true ∧
    expectedMethods.all (· ∈ Gen.LockFacts.methods.map shapeOf) = true := by decide

/-- every struct that has a map field has a mutex field; no constructor-external access to shared fields -/
theorem maps_have_mutex :
    (Gen.LockFacts.fields.all fun f => f.kind != "map" ||
      Gen.LockFacts.fields.any fun g => g.struct == f.struct && g.kind == "mutex") = true ∧
    Gen.LockFacts.foreignAccesses = 0 := by decide

end RdfModel.C14
