#!/bin/sh
# One-time offline build of the framework (MANIFEST.setup_cmd): Go tools, T1 tables, Lean proofs, driver.
set -e
cd "$(dirname "$0")"
export GOFLAGS=-mod=mod GOPROXY=off
unset GOSUMDB GOTOOLCHAIN || true
mkdir -p go/bin evidence replays
cp /repo/go.sum go/go.sum
(cd go && go build -tags verif -o bin/extract ./cmd/extract && ./bin/extract -lean ../lean)
(cd go && for d in cmd/c*; do go build -tags verif -o bin/$(basename $d) ./$d; done)
(cd lean && lake build)
