/-
  Proofs.C02DocCheck — Boolean checkers over table *entries* for the document-level table facts
  (`C02.DocTablesOK`), with their soundness lemmas; `Props/C02Doc.lean` discharges them on the
  regenerated tables by `decide`.
-/
import RdfModel.Props.C02DocDefs
import RdfModel.Proofs.C02TokCheck
namespace RdfModel.Proofs.C02Doc
open RdfModel RdfModel.Ttl RdfModel.C02 RdfModel.Proofs.C02Tok

/-- entries with value 1 (percent-encode) are short and consist of runes that are not IRI characters -/
def pctChk (lo hi v : Nat) : Bool :=
  v != 1 || (decide (hi - lo < 64) && (List.range (hi - lo + 1)).all (fun i => !Spec.TtlPrint.iriRawOK (lo + i)))

theorem pct_ok (tbl : RangeTable) (h : entAll tbl pctChk = true) :
    ∀ c, lookup tbl 0 c = 1 → Spec.TtlPrint.iriRawOK c = false :=
  lookup_entries tbl 0 _ (fun c v => v = 1 → Spec.TtlPrint.iriRawOK c = false)
    (fun lo hi v hv c h1 h2 hvm => by
      simp only [pctChk, Bool.or_eq_true, bne_iff_ne, ne_eq, Bool.and_eq_true, List.all_eq_true, List.mem_range,
        decide_eq_true_eq, Bool.not_eq_true'] at hv
      rcases hv with hv | ⟨_, hdec⟩
      · exact absurd hvm hv
      · have := hdec (c - lo) (by omega)
        rwa [show lo + (c - lo) = c by omega] at this)
    (fun _ h0 => by cases h0) h

/-- every range of the set lies above ASCII or consists of letters -/
def asciiAlphaChk (rs : RangeSet) : Bool :=
  rs.all (fun e => decide (0x80 ≤ e.1) ||
    (decide (e.2 - e.1 < 64) && (List.range (e.2 - e.1 + 1)).all (fun i => isAlpha (e.1 + i) || decide (0x80 ≤ e.1 + i))))

theorem asciiAlpha_ok (rs : RangeSet) (h : asciiAlphaChk rs = true) :
    ∀ c, c < 0x80 → inRanges rs c = true → isAlpha c = true := by
  intro c hc hin
  rw [inRanges_iff] at hin
  obtain ⟨e, he, h1, h2⟩ := hin
  simp only [asciiAlphaChk, List.all_eq_true, Bool.or_eq_true, decide_eq_true_eq, Bool.and_eq_true, List.mem_range] at h
  rcases h e he with h3 | ⟨_, h4⟩
  · omega
  · have := h4 (c - e.1) (by omega)
    rw [show e.1 + (c - e.1) = c by omega] at this
    rcases this with h5 | h5
    · exact h5
    · omega

def docChk (T : Tables) : Bool :=
  entAll (T.localEsc true true) pctChk && entAll (T.localEsc true false) pctChk &&
  entAll (T.localEsc false true) pctChk && entAll (T.localEsc false false) pctChk &&
  asciiAlphaChk T.pnCharsBase && !inRanges T.pnChars 0x3c

theorem docTablesOK_of_chk (T : Tables) (htok : TablesOK T) (h : docChk T = true) : DocTablesOK T := by
  simp only [docChk, Bool.and_eq_true, Bool.not_eq_true'] at h
  obtain ⟨⟨⟨⟨⟨h1, h2⟩, h3⟩, h4⟩, h5⟩, h6⟩ := h
  refine ⟨htok, ?_, asciiAlpha_ok _ h5, h6⟩
  intro f l c
  cases f <;> cases l
  · exact pct_ok _ h4 c
  · exact pct_ok _ h3 c
  · exact pct_ok _ h2 c
  · exact pct_ok _ h1 c

end RdfModel.Proofs.C02Doc
