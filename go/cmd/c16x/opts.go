package main

// Option LISTS of the decoders with offset capture (property C16 quantifies over configurations; the
// capture flag and the initial offset reach a decoder through `NewDecoder(r, opts...)`, each option a
// chain of setter calls, merged by `DecoderConfig.apply` field by field).
//
//   - openDecoder: every decoder of this harness is constructed from an optSpec (list of option values,
//     each a list of setter calls); decode() derives a pseudo-random but replayable split/permutation
//     (with overridden decoy setters in front) of its configuration, so the whole oracle runs over option
//     lists of 1..n values in varying order.
//   - family `opts` (T3, op offx.opts): Model/DecoderOpts.lean (last-writer-wins merge per field) against
//     the effective configuration of the real decoder, observed through a probe document: are ranges
//     reported, by how much are they shifted against the reference run, which base resolved the relative
//     IRI, which factory made the blank node, which listener fired. N-Triples and N-Quads included.

import (
	"fmt"
	"hash/fnv"
	"io"
	"sort"
	"strings"

	"verifharness/vh"

	"github.com/dpb587/rdfkit-go/encoding"
	enchtml "github.com/dpb587/rdfkit-go/encoding/html"
	"github.com/dpb587/rdfkit-go/encoding/html/htmldefaults"
	"github.com/dpb587/rdfkit-go/encoding/htmljsonld"
	"github.com/dpb587/rdfkit-go/encoding/htmlmicrodata"
	"github.com/dpb587/rdfkit-go/encoding/htmlrdfa"
	"github.com/dpb587/rdfkit-go/encoding/jsonld"
	"github.com/dpb587/rdfkit-go/encoding/nquads"
	"github.com/dpb587/rdfkit-go/encoding/ntriples"
	"github.com/dpb587/rdfkit-go/encoding/rdfjson"
	"github.com/dpb587/rdfkit-go/encoding/rdfxml"
	"github.com/dpb587/rdfkit-go/encoding/trig"
	"github.com/dpb587/rdfkit-go/encoding/turtle"
	"github.com/dpb587/rdfkit-go/rdf"
	"github.com/dpb587/rdfkit-go/rdf/blanknodes"
)

// setter: one call of the fluent builder. kind: c capture(b) | i initial(o) | b base(n) | f factory(n) | l listeners(n)
type setter struct {
	kind byte
	b    bool
	o    off
	n    int
}

func (s setter) wire() string {
	switch s.kind {
	case 'c':
		return "c" + vh.B01(s.b)
	case 'i':
		return fmt.Sprintf("i%d.%d.%d", s.o.b, s.o.l, s.o.c)
	}
	return fmt.Sprintf("%c%d", s.kind, s.n)
}

type optSpec [][]setter

func (sp optSpec) wire() string {
	var sb strings.Builder
	for _, o := range sp {
		if len(o) == 0 {
			sb.WriteString("-")
		}
		for k, s := range o {
			if k > 0 {
				sb.WriteByte(',')
			}
			sb.WriteString(s.wire())
		}
		sb.WriteByte(';')
	}
	return sb.String()
}

func parseOptSpec(w string) (optSpec, bool) {
	var sp optSpec
	for _, o := range strings.Split(w, ";") {
		if o == "" {
			continue
		}
		var ss []setter
		if o != "-" {
			for _, t := range strings.Split(o, ",") {
				if len(t) < 2 {
					return nil, false
				}
				s := setter{kind: t[0]}
				switch t[0] {
				case 'c':
					s.b = t[1] == '1'
				case 'i':
					if _, err := fmt.Sscanf(t[1:], "%d.%d.%d", &s.o.b, &s.o.l, &s.o.c); err != nil {
						return nil, false
					}
				case 'b', 'f', 'l':
					if _, err := fmt.Sscanf(t[1:], "%d", &s.n); err != nil {
						return nil, false
					}
				default:
					return nil, false
				}
				ss = append(ss, s)
			}
		}
		sp = append(sp, ss)
	}
	return sp, true
}

// optEnv: what the indices of b/f/l setters stand for.
type optEnv struct {
	bases     []string
	factories []blanknodes.StringFactory
	onPrefix  func(n int, prefix, expanded string)
	onBase    func(n int, value string)
}

// which setter kinds a format's configuration has
var optKinds = map[string]string{
	"ttl": "cibfl", "trig": "cibfl", "nt": "cif", "nq": "cif", "rdfjson": "cif", "rdfxml": "cibf", "jsonld": "cibf",
	"html": "cib", "rdfa": "cibf", "microdata": "cib", "htmljsonld": "cib",
}

func chain[T any](sp optSpec, set func(T, setter) T) []T {
	out := make([]T, len(sp))
	for i, ss := range sp {
		var c T
		for _, s := range ss {
			c = set(c, s)
		}
		out[i] = c
	}
	return out
}

func asOpts[O any, T any](cs []T) []O {
	out := make([]O, len(cs))
	for i, c := range cs {
		out[i] = any(c).(O)
	}
	return out
}

func badSetter(format string, s setter) string {
	return fmt.Sprintf("harness: setter %s not applicable to %s", s.wire(), format)
}

// openDecoder constructs the decoder of `format` with the option list `sp`.
func openDecoder(format string, sp optSpec, env *optEnv, rd io.Reader) (iterator, encoding.StatementTextOffsetsProvider, error) {
	switch format {
	case "ttl":
		cs := chain(sp, func(c turtle.DecoderConfig, s setter) turtle.DecoderConfig {
			switch s.kind {
			case 'c':
				return c.SetCaptureTextOffsets(s.b)
			case 'i':
				return c.SetInitialTextOffset(cursorOff(s.o))
			case 'b':
				return c.SetDefaultBase(env.bases[s.n])
			case 'f':
				return c.SetBlankNodeStringFactory(env.factories[s.n])
			case 'l':
				n := s.n
				return c.SetBaseDirectiveListener(func(d turtle.DecoderEvent_BaseDirective_Data) { env.onBase(n, d.Value) }).
					SetPrefixDirectiveListener(func(d turtle.DecoderEvent_PrefixDirective_Data) { env.onPrefix(n, d.Prefix, d.Expanded) })
			}
			panic(badSetter(format, s))
		})
		d, e := turtle.NewDecoder(rd, asOpts[turtle.DecoderOption](cs)...)
		return d, d, e
	case "trig":
		cs := chain(sp, func(c trig.DecoderConfig, s setter) trig.DecoderConfig {
			switch s.kind {
			case 'c':
				return c.SetCaptureTextOffsets(s.b)
			case 'i':
				return c.SetInitialTextOffset(cursorOff(s.o))
			case 'b':
				return c.SetDefaultBase(env.bases[s.n])
			case 'f':
				return c.SetBlankNodeStringFactory(env.factories[s.n])
			case 'l':
				n := s.n
				return c.SetBaseDirectiveListener(func(d trig.DecoderEvent_BaseDirective_Data) { env.onBase(n, d.Value) }).
					SetPrefixDirectiveListener(func(d trig.DecoderEvent_PrefixDirective_Data) { env.onPrefix(n, d.Prefix, d.Expanded) })
			}
			panic(badSetter(format, s))
		})
		d, e := trig.NewDecoder(rd, asOpts[trig.DecoderOption](cs)...)
		return d, d, e
	case "nt":
		cs := chain(sp, func(c ntriples.DecoderConfig, s setter) ntriples.DecoderConfig {
			switch s.kind {
			case 'c':
				return c.SetCaptureTextOffsets(s.b)
			case 'i':
				return c.SetInitialTextOffset(cursorOff(s.o))
			case 'f':
				return c.SetBlankNodeStringFactory(env.factories[s.n])
			}
			panic(badSetter(format, s))
		})
		d, e := ntriples.NewDecoder(rd, asOpts[ntriples.DecoderOption](cs)...)
		return d, d, e
	case "nq":
		cs := chain(sp, func(c nquads.DecoderConfig, s setter) nquads.DecoderConfig {
			switch s.kind {
			case 'c':
				return c.SetCaptureTextOffsets(s.b)
			case 'i':
				return c.SetInitialTextOffset(cursorOff(s.o))
			case 'f':
				return c.SetBlankNodeStringFactory(env.factories[s.n])
			}
			panic(badSetter(format, s))
		})
		d, e := nquads.NewDecoder(rd, asOpts[nquads.DecoderOption](cs)...)
		return d, d, e
	case "rdfjson":
		cs := chain(sp, func(c rdfjson.DecoderConfig, s setter) rdfjson.DecoderConfig {
			switch s.kind {
			case 'c':
				return c.SetCaptureTextOffsets(s.b)
			case 'i':
				return c.SetInitialTextOffset(cursorOff(s.o))
			case 'f':
				return c.SetBlankNodeStringFactory(env.factories[s.n])
			}
			panic(badSetter(format, s))
		})
		d, e := rdfjson.NewDecoder(rd, asOpts[rdfjson.DecoderOption](cs)...)
		return d, d, e
	case "rdfxml":
		cs := chain(sp, func(c rdfxml.DecoderConfig, s setter) rdfxml.DecoderConfig {
			switch s.kind {
			case 'c':
				return c.SetCaptureTextOffsets(s.b)
			case 'i':
				return c.SetInitialTextOffset(cursorOff(s.o))
			case 'b':
				return c.SetDefaultBase(env.bases[s.n])
			case 'f':
				return c.SetBlankNodeStringFactory(env.factories[s.n])
			}
			panic(badSetter(format, s))
		})
		d, e := rdfxml.NewDecoder(rd, asOpts[rdfxml.DecoderOption](cs)...)
		return d, d, e
	case "jsonld":
		cs := chain(sp, func(c jsonld.DecoderConfig, s setter) jsonld.DecoderConfig {
			switch s.kind {
			case 'c':
				return c.SetCaptureTextOffsets(s.b)
			case 'i':
				return c.SetInitialTextOffset(cursorOff(s.o))
			case 'b':
				return c.SetDefaultBase(env.bases[s.n])
			case 'f':
				return c.SetBlankNodeStringFactory(env.factories[s.n])
			}
			panic(badSetter(format, s))
		})
		d, e := jsonld.NewDecoder(rd, asOpts[jsonld.DecoderOption](cs)...)
		return d, d, e
	case "html":
		cs := chain(sp, func(c htmldefaults.DecoderConfig, s setter) htmldefaults.DecoderConfig {
			switch s.kind {
			case 'c':
				return c.SetCaptureTextOffsets(s.b)
			case 'i':
				return c.SetInitialTextOffset(cursorOff(s.o))
			case 'b':
				return c.SetLocation(env.bases[s.n])
			}
			panic(badSetter(format, s))
		})
		d, e := htmldefaults.NewDecoder(rd, asOpts[htmldefaults.DecoderOption](cs)...)
		return d, d, e
	case "rdfa", "microdata", "htmljsonld":
		// the offset options belong to the HTML document (encoding/html DocumentConfig); a factory setter
		// (RDFa only) goes to the decoder on top of it
		var docSp optSpec
		factory := -1
		for _, ss := range sp {
			var keep []setter
			for _, s := range ss {
				if s.kind == 'f' {
					factory = s.n
				} else {
					keep = append(keep, s)
				}
			}
			docSp = append(docSp, keep)
		}
		cs := chain(docSp, func(c enchtml.DocumentConfig, s setter) enchtml.DocumentConfig {
			switch s.kind {
			case 'c':
				return c.SetCaptureTextOffsets(s.b)
			case 'i':
				return c.SetInitialTextOffset(cursorOff(s.o))
			case 'b':
				return c.SetLocation(env.bases[s.n])
			}
			panic(badSetter(format, s))
		})
		hdoc, e := enchtml.ParseDocument(rd, asOpts[enchtml.DocumentOption](cs)...)
		if e != nil {
			return nil, nil, e
		}
		switch format {
		case "rdfa":
			rc := htmlrdfa.DecoderConfig{}
			if factory >= 0 {
				rc = rc.SetBlankNodeStringFactory(env.factories[factory])
			}
			d, e := htmlrdfa.NewDecoder(hdoc, rc)
			return d, d, e
		case "microdata":
			d, e := htmlmicrodata.NewDecoder(hdoc, htmlmicrodata.DecoderConfig{})
			return d, d, e
		}
		d, e := htmljsonld.NewDecoder(hdoc, htmljsonld.DecoderConfig{})
		return d, d, e
	}
	return nil, nil, fmt.Errorf("unknown format %q", format)
}

// specOf: the option list decode() uses for configuration c on document doc — the setters c asks for,
// in a permutation and a split into option values derived from a hash of (c, doc) (replayable without
// widening the protocol line), sometimes preceded by decoy setters that the later ones override. Every
// such list has the same effective configuration (theorems apply_merge / split_irrelevant of
// Props/C16Opts.lean); a decoder for which it has not shows up as a violation of the oracle.
func specOf(c cfg, doc []byte) optSpec {
	kinds := optKinds[c.format]
	h := fnv.New64a()
	fmt.Fprintf(h, "%s|%v|%v|%s|%s|%v|", c.format, c.capture, c.hasInit, c.init, c.base, c.fail)
	h.Write(doc)
	r := vh.NewRng(h.Sum64())
	var ss []setter
	if strings.ContainsRune(kinds, 'f') {
		ss = append(ss, setter{kind: 'f', n: 0})
	}
	if c.capture {
		ss = append(ss, setter{kind: 'c', b: true})
	}
	if c.hasInit {
		ss = append(ss, setter{kind: 'i', o: c.init})
	}
	hasBase := c.base != "" && strings.ContainsRune(kinds, 'b')
	if hasBase {
		ss = append(ss, setter{kind: 'b', n: 0})
	}
	if strings.ContainsRune(kinds, 'l') {
		ss = append(ss, setter{kind: 'l', n: 0})
	}
	explicitOff := false
	if !c.capture && !c.hasInit && r.Chance(40) {
		explicitOff = true
	}
	if r.Chance(25) {
		// the original single option value, fixed order
		if explicitOff {
			ss = append(ss, setter{kind: 'c', b: false})
		}
		return optSpec{ss}
	}
	for i := len(ss) - 1; i > 0; i-- {
		k := r.Intn(i + 1)
		ss[i], ss[k] = ss[k], ss[i]
	}
	var decoys []setter
	if r.Chance(35) {
		if c.hasInit {
			decoys = append(decoys, setter{kind: 'i', o: off{977, 13, 31}})
		}
		if c.capture || c.hasInit {
			decoys = append(decoys, setter{kind: 'c', b: false})
		}
		if explicitOff {
			decoys = append(decoys, setter{kind: 'c', b: true}, setter{kind: 'i', o: off{977, 13, 31}})
		}
		if hasBase {
			decoys = append(decoys, setter{kind: 'b', n: 1})
		}
		if strings.ContainsRune(kinds, 'f') {
			decoys = append(decoys, setter{kind: 'f', n: 1})
		}
		if len(decoys) > 0 {
			decoys = []setter{decoys[r.Intn(len(decoys))]}
		}
	}
	if explicitOff {
		ss = append(ss, setter{kind: 'c', b: false})
	}
	all := append(decoys, ss...)
	var sp optSpec
	var cur []setter
	for i, s := range all {
		cur = append(cur, s)
		if i == len(all)-1 || (i < len(decoys)) || r.Chance(50) {
			sp = append(sp, cur)
			cur = nil
		}
	}
	if r.Chance(10) {
		sp = append(sp, nil) // a trailing DecoderConfig{} sets nothing
	}
	return sp
}

// initThenOff: does the option list compile to capture=false with an initial offset set? (decidable trait
// of the fixed finding C16X-O1)
func initThenOff(sp optSpec) bool {
	capture, hasCap, hasInit := false, false, false
	for _, o := range sp {
		for _, s := range o {
			switch s.kind {
			case 'c':
				capture, hasCap = s.b, true
			case 'i':
				capture, hasCap, hasInit = true, true, true
			}
		}
	}
	return hasCap && !capture && hasInit
}

// ---------------------------------------------------------------- family `opts` (T3 against Model/DecoderOpts.lean)

var optFormats = []string{"ttl", "trig", "nt", "nq", "rdfjson", "rdfxml", "jsonld", "html", "rdfa"}

var optBases = []string{"http://b0.example/d/", "http://b1.example/d/", "http://b2.example/d/"}

// probe documents: one line, ASCII, a labelled blank node (factory), a relative IRI (base) where the
// format has a base, a prefix directive (listener) for Turtle/TriG
var optProbe = map[string]string{
	"ttl":     "@prefix q: <http://q/> . _:x <http://e/p> <http://e/o> . _:x <http://e/p> <rel> .",
	"trig":    "@prefix q: <http://q/> . _:x <http://e/p> <http://e/o> . _:x <http://e/p> <rel> .",
	"nt":      "_:x <http://e/p> <http://e/o> .",
	"nq":      "_:x <http://e/p> <http://e/o> <http://e/g> .",
	"rdfjson": `{"_:x":{"http://e/p":[{"type":"uri","value":"http://e/o"}]}}`,
	"rdfxml":  `<rdf:RDF xmlns:rdf="http://www.w3.org/1999/02/22-rdf-syntax-ns#"><rdf:Description rdf:nodeID="x"><p xmlns="http://e/" rdf:resource="http://e/o"/><p xmlns="http://e/" rdf:resource="rel"/></rdf:Description></rdf:RDF>`,
	"jsonld":  `{"@id":"_:x","http://e/p":[{"@id":"http://e/o"},{"@id":"rel"}]}`,
	"html":    `<html><head><title>t</title></head><body><p about="http://e/s" property="http://e/p" content="v">v</p><p about="rel" property="http://e/p" content="w">w</p></body></html>`,
	"rdfa":    `<html><head><title>t</title></head><body><p about="http://e/s" property="http://e/p" content="v">v</p><p about="rel" property="http://e/p" content="w">w</p><p about="_:x" property="http://e/p" content="u">u</p></body></html>`,
}

type countingFactory struct {
	blanknodes.StringFactory
	calls int
}

func (f *countingFactory) NewBlankNode() rdf.BlankNode {
	f.calls++
	return f.StringFactory.NewBlankNode()
}

func (f *countingFactory) NewStringBlankNode(id string) rdf.BlankNode {
	f.calls++
	return f.StringFactory.NewStringBlankNode(id)
}

type optObs struct {
	first  rng // first reported range (statement order, slot order)
	nrange int
	base   string
	fact   string
	lis    string
	err    string
	all    []rng
}

func observeOpts(format string, sp optSpec) (o optObs) {
	defer func() {
		if p := recover(); p != nil {
			o.err = "panic:" + fmt.Sprint(p)
		}
	}()
	fs := []*countingFactory{{StringFactory: blanknodes.NewStringFactory()}, {StringFactory: blanknodes.NewStringFactory()}, {StringFactory: blanknodes.NewStringFactory()}}
	fired := map[int]int{}
	env := &optEnv{bases: optBases, factories: []blanknodes.StringFactory{fs[0], fs[1], fs[2]},
		onPrefix: func(n int, _, _ string) { fired[n]++ }, onBase: func(n int, _ string) { fired[n]++ }}
	it, prv, err := openDecoder(format, sp, env, strings.NewReader(optProbe[format]))
	o.base, o.fact, o.lis = "-", "-", "-"
	if err != nil {
		o.err = "new:" + err.Error()
		return
	}
	noteIRI := func(t rdf.Term) {
		if i, ok := t.(rdf.IRI); ok {
			for k, b := range optBases {
				if strings.HasPrefix(string(i), b) {
					if o.base != "-" && o.base != fmt.Sprint(k) {
						o.base = "multi"
					} else {
						o.base = fmt.Sprint(k)
					}
				}
			}
		}
	}
	for it.Next() {
		var q rdf.Quad
		switch s := it.Statement().(type) {
		case rdf.Triple:
			q = rdf.Quad{Triple: s}
		case rdf.Quad:
			q = s
		}
		noteIRI(q.Triple.Subject)
		noteIRI(q.Triple.Object)
		to := prv.StatementTextOffsets()
		for _, k := range slots {
			if r, ok := to[k]; ok {
				x := rng{true, toOff(r.From), toOff(r.Until)}
				if o.nrange == 0 {
					o.first = x
				}
				o.nrange++
				o.all = append(o.all, x)
			}
		}
	}
	for k, f := range fs {
		if f.calls > 0 {
			if o.fact != "-" {
				o.fact = "multi"
			} else {
				o.fact = fmt.Sprint(k)
			}
		}
	}
	for k := range fired {
		if o.lis != "-" {
			o.lis = "multi"
		} else {
			o.lis = fmt.Sprint(k)
		}
	}
	return
}

var optRef = map[string]optObs{}

func sortRngs(rs []rng) {
	sort.Slice(rs, func(i, k int) bool {
		if rs[i].from.b != rs[k].from.b {
			return rs[i].from.b < rs[k].from.b
		}
		return rs[i].until.b < rs[k].until.b
	})
}

// goEffectiveOpts: the effective configuration of NewDecoder(r, sp...) in the form of Driver/Offx.lean op
// opts: "<writer b.l.c|-> <base> <factory> <listener>". The reference run (one option, capture on, no
// initial offset; with or without a base, as the observed run) gives the unshifted ranges; ranges are
// compared as sorted lists (RDFa statement order depends on map iteration).
func goEffectiveOpts(format string, sp optSpec) string {
	o := observeOpts(format, sp)
	if strings.HasPrefix(o.err, "panic:") || strings.HasPrefix(o.err, "new:") {
		return o.err
	}
	key, refSp := format, optSpec{{setter{kind: 'c', b: true}}}
	if o.base != "-" {
		key, refSp = format+"+base", optSpec{{setter{kind: 'c', b: true}, setter{kind: 'b', n: 0}}}
	}
	ref, ok := optRef[key]
	if !ok {
		ref = observeOpts(format, refSp)
		sortRngs(ref.all)
		optRef[key] = ref
	}
	if ref.nrange == 0 {
		return "harness: reference run of " + key + " reports no range (" + ref.err + ")"
	}
	sortRngs(o.all)
	if strings.HasPrefix(o.err, "panic:") || strings.HasPrefix(o.err, "new:") {
		return o.err
	}
	w := "-"
	if o.nrange > 0 {
		if o.nrange != ref.nrange {
			return fmt.Sprintf("ranges:%d-vs-reference:%d", o.nrange, ref.nrange)
		}
		d := off{o.all[0].from.b - ref.all[0].from.b, o.all[0].from.l - ref.all[0].from.l, o.all[0].from.c - ref.all[0].from.c}
		// every range of the one-line probe is shifted by the same amount
		for k := range o.all {
			for _, p := range [][2]off{{o.all[k].from, ref.all[k].from}, {o.all[k].until, ref.all[k].until}} {
				if (off{p[0].b - p[1].b, p[0].l - p[1].l, p[0].c - p[1].c}) != d {
					return fmt.Sprintf("uneven-shift:range %d %s vs reference %s, first shifted by %s", k, o.all[k], ref.all[k], d)
				}
			}
		}
		w = d.String()
	}
	return w + " " + o.base + " " + o.fact + " " + o.lis
}

func optAlphabet(format string) []setter {
	var a []setter
	for _, k := range optKinds[format] {
		switch k {
		case 'c':
			a = append(a, setter{kind: 'c', b: false}, setter{kind: 'c', b: true})
		case 'i':
			a = append(a, setter{kind: 'i', o: off{4096, 12, 5}}, setter{kind: 'i', o: off{7, 0, 7}})
		case 'b':
			a = append(a, setter{kind: 'b', n: 0}, setter{kind: 'b', n: 1})
		case 'f':
			a = append(a, setter{kind: 'f', n: 0}, setter{kind: 'f', n: 1})
		case 'l':
			a = append(a, setter{kind: 'l', n: 0}, setter{kind: 'l', n: 1})
		}
	}
	return a
}

// compositions of a chain into consecutive non-empty option values
func compositions(ss []setter) []optSpec {
	if len(ss) == 0 {
		return []optSpec{{}}
	}
	var out []optSpec
	for mask := 0; mask < 1<<(len(ss)-1); mask++ {
		var sp optSpec
		var cur []setter
		for i, s := range ss {
			cur = append(cur, s)
			if i == len(ss)-1 || mask&(1<<i) != 0 {
				sp = append(sp, cur)
				cur = nil
			}
		}
		out = append(out, sp)
	}
	return out
}

type optCase struct {
	format string
	sp     optSpec
	kind   string
}

func (c optCase) modelKind() string {
	if c.format == "html" {
		return "htmldefaults"
	}
	return "plain"
}

func (c optCase) line() string { return "offx.opts " + c.modelKind() + " " + c.sp.wire() }

func genOptCases(g *vh.Rng) (cs []optCase) {
	for _, format := range optFormats {
		alpha := optAlphabet(format)
		// exhaustive: every chain of 1..3 setters over the alphabet, in every split into option values
		var rec func(chainSoFar []setter)
		rec = func(ch []setter) {
			if len(ch) > 0 {
				for _, sp := range compositions(ch) {
					cs = append(cs, optCase{format, sp, "exhaustive<=3"})
				}
			}
			if len(ch) == 3 {
				return
			}
			for _, s := range alpha {
				rec(append(append([]setter{}, ch...), s))
			}
		}
		if format == "html" || format == "rdfa" {
			// the HTML decoders cost ~1 ms per probe: chains of length <= 2 exhaustively, 3 by sampling below
			for _, a := range alpha {
				cs = append(cs, optCase{format, optSpec{{a}}, "exhaustive<=2"})
				for _, b := range alpha {
					for _, sp := range compositions([]setter{a, b}) {
						cs = append(cs, optCase{format, sp, "exhaustive<=2"})
					}
				}
			}
		} else {
			rec(nil)
		}
		n := 400 * *scale
		if *tier == "thorough" {
			n = 6000 * *scale
		}
		for i := 0; i < n; i++ {
			var sp optSpec
			for k, m := 0, 1+g.Intn(4); k < m; k++ {
				var ss []setter
				for j, l := 0, g.Intn(4); j < l; j++ {
					s := vh.Pick(g, alpha)
					if s.kind == 'i' && g.Chance(50) {
						s.o = off{int64(g.Intn(5000)), int64(g.Intn(60)), int64(g.Intn(90))}
					}
					if (s.kind == 'b' || s.kind == 'f' || s.kind == 'l') && g.Chance(20) {
						s.n = 2
					}
					ss = append(ss, s)
				}
				sp = append(sp, ss)
			}
			cs = append(cs, optCase{format, sp, "random"})
		}
	}
	return
}

func runOptCases(rep *vh.Report, cs []optCase) (compared, failures int, err error) {
	// the model's answer depends on the option list only: one driver line per distinct list
	idx := map[string]int{}
	var lines []string
	for _, c := range cs {
		l := c.line()
		if _, ok := idx[l]; !ok {
			idx[l] = len(lines)
			lines = append(lines, l)
		}
	}
	res, err := vh.Driver{Path: *driver}.RunParallel(lines)
	if err != nil {
		return 0, 0, err
	}
	for _, c := range cs {
		l := c.line()
		model := res[idx[l]]
		// fields the format's configuration does not have are never set: the model says `-` there
		got := goEffectiveOpts(c.format, c.sp)
		compared++
		nopt, nset := len(c.sp), 0
		for _, o := range c.sp {
			nset += len(o)
		}
		rep.Eval("opts "+c.format+" "+l, nopt > 1 && nset > 1)
		rep.Count("opts:" + c.format + ":" + c.kind)
		rep.Count(fmt.Sprintf("opts-options:%d", nopt))
		if strings.HasPrefix(got, "-") {
			rep.Count("opts-effective:capture-off")
		} else if strings.HasPrefix(got, "0.0.0") {
			rep.Count("opts-effective:capture-on-zero")
		} else {
			rep.Count("opts-effective:capture-on-shifted")
		}
		if got != model {
			failures++
			rep.Add(vh.Case{Kind: "disagreement", Op: "offx.opts " + c.format + " " + c.sp.wire(), Go: got, Model: model,
				Detail: "effective configuration of " + c.format + " NewDecoder(r, " + c.sp.wire() + ") observed on the probe document " + optProbe[c.format] + " (writer initial offset | base | factory | listener) differs from the last-writer-wins merge of Model/DecoderOpts.lean"})
		}
	}
	return
}

func runOpts(rep *vh.Report, g *vh.Rng) (compared, failures int, err error) {
	return runOptCases(rep, genOptCases(g))
}

// replay lines: `offx.opts <format> <list>` (as written in disagreement cases)
func runOptLines(rep *vh.Report, lines []string) (compared, failures int) {
	var cs []optCase
	for _, l := range lines {
		f := strings.Fields(l)
		if len(f) == 3 && f[0] == "offx.opts" {
			if sp, ok := parseOptSpec(f[2]); ok {
				cs = append(cs, optCase{f[1], sp, "replay"})
			}
		}
	}
	c, f, err := runOptCases(rep, cs)
	if err != nil {
		rep.Add(vh.Case{Kind: "disagreement", Detail: "driver: " + err.Error()})
		f++
	}
	return c, f
}
